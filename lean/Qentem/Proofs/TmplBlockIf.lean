import Qentem.Proofs.TmplRenderSegs
import Qentem.Proofs.TmplParseAll
/-!
# C02 stage 4 — `<if case="e">body</if>` over the covered segment kinds

`parse` of the printed block is exactly the `If` tag the document implies (`stepIf_print`,
`stepIfEnd_print`), its rendering is the documented expansion.
-/
set_option linter.unusedSectionVars false
set_option linter.unusedVariables false
namespace Qentem.Tmpl
open Qentem.Expr (Fault rd ScanCfg VarRef Item Num Val Env RealLike)
open Qentem.Generated.Tmpl

variable {R : Type}

/-- `<if case="` -/
def IFOPEN : List Nat := [60, 105, 102, 32, 99, 97, 115, 101, 61, 34]
/-- `</if>` -/
def IFEND : List Nat := [60, 47, 105, 102, 62]

theorem isEqualAt_true (c : List Nat) : ∀ (s : List Nat) (off : Nat),
    (∀ i (hi : i < s.length), c[off + i]? = some s[i]) → isEqualAt c off s = .ok true := by
  intro s
  induction s with
  | nil => intro off _; rfl
  | cons x xs ih =>
    intro off h
    have h0 := h 0 (by simp)
    simp only [Nat.add_zero, List.getElem_cons_zero] at h0
    simp only [isEqualAt, rd_some c off x h0, bind, Except.bind, if_true]
    apply ih
    intro i hi
    have := h (i + 1) (by simp; omega)
    simpa [Nat.add_assoc, Nat.add_comm 1 i] using this

/-- the units of a printed `<if case="e">` at `pre.length` -/
structure IfText (c pre e : List Nat) : Prop where
  open_ : ∀ i (hi : i < 10), c[pre.length + i]? = some (IFOPEN[i]'(by simp [IFOPEN]; exact hi))
  expr : ∀ i (hi : i < e.length), c[pre.length + 10 + i]? = some e[i]
  quote : c[pre.length + 10 + e.length]? = some 34
  gt : c[pre.length + 11 + e.length]? = some 62
  len : pre.length + 12 + e.length ≤ c.length

theorem ifText_of (c pre e post : List Nat) (hc : c = pre ++ (IFOPEN ++ e ++ [34, 62] ++ post)) :
    IfText c pre e := by
  have hc1 : c = pre ++ (IFOPEN ++ (e ++ [34, 62] ++ post)) := by rw [hc]; simp [List.append_assoc]
  have hc2 : c = (pre ++ IFOPEN) ++ (e ++ ([34, 62] ++ post)) := by rw [hc]; simp [List.append_assoc]
  have hl : (pre ++ IFOPEN).length = pre.length + 10 := by simp [IFOPEN]
  refine ⟨?_, ?_, ?_, ?_, ?_⟩
  · intro i hi
    rw [hc1]; exact get_at pre IFOPEN _ i (by simp [IFOPEN]; exact hi)
  · intro i hi
    have := get_at (pre ++ IFOPEN) e ([34, 62] ++ post) i hi
    rw [hl] at this; rw [hc2]; exact this
  · have := get_after (pre ++ IFOPEN) e 34 (62 :: post)
    rw [hl] at this; rw [hc2]; simpa using this
  · have hc3 : c = (pre ++ IFOPEN ++ e) ++ ([34] ++ 62 :: post) := by rw [hc]; simp [List.append_assoc]
    have := get_after (pre ++ IFOPEN ++ e) [34] 62 post
    rw [hc3]
    simpa [IFOPEN, Nat.add_assoc, Nat.add_comm, Nat.add_left_comm] using this
  · rw [hc]; simp [IFOPEN]; omega

theorem parseIfCase_print (c pre e : List Nat) (ht : IfText c pre e) (he : ∀ x ∈ e, x ≠ 34) :
    parseIfCase c (pre.length + 3) c.length =
      .ok (pre.length + 12 + e.length, pre.length + 10, pre.length + 10 + e.length) := by
  have hlen := ht.len
  have g := fun i (hi : i < 10) => ht.open_ i hi
  have h3 : c[pre.length + 3]? = some 32 := g 3 (by omega)
  have h4 : c[pre.length + 4]? = some 99 := g 4 (by omega)
  have h8 : c[pre.length + 8]? = some 61 := g 8 (by omega)
  have h9 : c[pre.length + 9]? = some 34 := g 9 (by omega)
  have s1 : skipW c c.length (· == W1.spaceChar) (pre.length + 3) = .ok (pre.length + 3 + 1) := by
    apply skipW_run
    · intro i hi
      have : i = 0 := by omega
      subst this
      exact ⟨32, by simpa using h3, by decide⟩
    · omega
    · right; exact ⟨99, by rw [show pre.length + 3 + 1 = pre.length + 4 by omega]; exact h4, by decide⟩
  have s2 : andEqualAt (decide (pre.length + 3 + 1 < c.length) && decide (c.length - (pre.length + 3 + 1) > W1.caseLength))
      c (pre.length + 3 + 1) W1.caseStr = .ok true := by
    have hcl : W1.caseLength = 4 := by decide
    have : (decide (pre.length + 3 + 1 < c.length) && decide (c.length - (pre.length + 3 + 1) > W1.caseLength)) = true := by
      simp only [hcl, Bool.and_eq_true, decide_eq_true_eq]; omega
    simp only [andEqualAt, this, if_true]
    apply isEqualAt_true
    intro i hi
    have hi4 : i < 4 := by simpa [show W1.caseStr = [99, 97, 115, 101] by decide] using hi
    have := g (4 + i) (by omega)
    rw [show pre.length + 3 + 1 + i = pre.length + (4 + i) by omega, this]
    have : i = 0 ∨ i = 1 ∨ i = 2 ∨ i = 3 := by omega
    rcases this with h | h | h | h <;> subst h <;> rfl
  have hcl4 : W1.caseLength = 4 := by decide
  have s3 : skipW c c.length (· != W1.equalChar) (pre.length + 3 + 1 + W1.caseLength) = .ok (pre.length + 8) := by
    rw [show pre.length + 3 + 1 + W1.caseLength = pre.length + 8 by omega]
    exact skipW_run c c.length _ 0 (pre.length + 8) (by intro i hi; omega) (by omega)
      (Or.inr ⟨61, by simpa using h8, by decide⟩)
  have s4 : skipW c c.length (· == W1.spaceChar) (pre.length + 8 + 1) = .ok (pre.length + 9) := by
    exact skipW_run c c.length _ 0 (pre.length + 9) (by intro i hi; omega) (by omega)
      (Or.inr ⟨34, by simpa using h9, by decide⟩)
  have s5 : skipW c c.length (· != 34) (pre.length + 9 + 1) = .ok (pre.length + 10 + e.length) := by
    rw [show pre.length + 9 + 1 = pre.length + 10 by omega]
    apply skipW_run
    · intro i hi
      refine ⟨e[i], ht.expr i hi, ?_⟩
      have := he e[i] (List.getElem_mem hi)
      simpa using this
    · omega
    · right; exact ⟨34, ht.quote, by decide⟩
  have s6 : skipW c c.length (· != W1.multiLineLastChar) (pre.length + 10 + e.length) = .ok (pre.length + 10 + e.length + 1) := by
    apply skipW_run
    · intro i hi
      have : i = 0 := by omega
      subst this
      exact ⟨34, by simpa using ht.quote, by decide⟩
    · omega
    · right; exact ⟨62, by rw [show pre.length + 10 + e.length + 1 = pre.length + 11 + e.length by omega]; exact ht.gt, by decide⟩
  simp only [parseIfCase, s1, bind, Except.bind, s2, if_true, s3, doSkipW, s4]
  have hlt : pre.length + 9 < c.length := by omega
  simp only [hlt, if_true, rd_some c (pre.length + 9) 34 h9, s5, s6]
  congr 2 <;> omega


theorem isExpression_after_quote (A rest : List Nat) :
    Qentem.Expr.isExpression ((A ++ [34]) ++ rest) (A ++ [34]).length = .ok false := by
  have : (A ++ [34]).length = A.length + 1 := by simp
  rw [this]
  have hrd : rd ((A ++ [34]) ++ rest) A.length = .ok 34 := by
    apply rd_some
    have := get_mid A [34] rest 0 (by simp)
    simpa [List.append_assoc] using this
  have h1 : ¬ ((34 : Nat) = Qentem.Expr.cSpace) := by decide
  have h2 : ¬ ((34 : Nat) = Qentem.Expr.cPClose ∨ (34 : Nat) = Qentem.Expr.cBClose) := by decide
  have h3 : decide (Qentem.Generated.Expr.W1.digitZero ≤ 34 ∧ 34 ≤ Qentem.Generated.Expr.W1.digitNine) = false := by
    decide
  simp only [Qentem.Expr.isExpression, hrd, bind, Except.bind, h1, h2, h3, if_false]

/-- the text of a `case="e"` attribute inside the content, as a relocation of `e"` -/
theorem reloc_case (c pre e post : List Nat) (hc : c = pre ++ (IFOPEN ++ e ++ [34, 62] ++ post)) :
    Qentem.Expr.Reloc (e ++ [34]) c (pre.length + 10) := by
  have hc' : c = ((pre ++ [60, 105, 102, 32, 99, 97, 115, 101, 61]) ++ [34]) ++ (e ++ [34]) ++ (62 :: post) := by
    rw [hc]; simp [IFOPEN, List.append_assoc]
  have hlen : ((pre ++ [60, 105, 102, 32, 99, 97, 115, 101, 61]) ++ [34]).length = pre.length + 10 := by simp
  have hbefore := isExpression_after_quote (pre ++ [60, 105, 102, 32, 99, 97, 115, 101, 61]) ((e ++ [34]) ++ (62 :: post))
  rw [← List.append_assoc] at hbefore
  have hrel := Qentem.Expr.Reloc.of_append ((pre ++ [60, 105, 102, 32, 99, 97, 115, 101, 61]) ++ [34]) (e ++ [34]) (62 :: post) hbefore
  rw [← hc', hlen] at hrel
  exact hrel

/-- the case expression of a printed `<if case="e">` scanned in place: the scan of `e"` alone, moved -/
theorem exprs_case (cfg : ScanCfg R) (c pre e post : List Nat)
    (hc : c = pre ++ (IFOPEN ++ e ++ [34, 62] ++ post)) (hp : plainL e)
    (items : List (Item R))
    (hs : Qentem.Expr.parseTop ({ readNum := cfg.readNum } : ScanCfg R) (e ++ [34]) 0 e.length = .ok items) :
    ∃ items', exprs cfg c [] (pre.length + 10) (pre.length + 10 + e.length) = .ok items' ∧
      Qentem.Expr.RelItems (pre.length + 10) (e.length + 1) items items' := by
  have hrel := reloc_case c pre e post hc
  have hno : ∀ (i x : Nat), (e ++ [34])[i]? = some x → x ≠ Qentem.Expr.cBOpen := by
    intro i x hx
    have hmem : x ∈ e ++ [34] := List.mem_of_getElem? hx
    rcases List.mem_append.mp hmem with h | h
    · exact (hp x h).1
    · simp at h; subst h; decide
  obtain ⟨items', h1, h2⟩ := Qentem.Expr.parseTop_reloc ({ readNum := cfg.readNum } : ScanCfg R)
    { cfg with loopVar := loopVarPure c [] } rfl hrel hno 0 e.length (by simp) items hs
  refine ⟨items', ?_, ?_⟩
  · simpa [exprs] using h1
  · simpa using h2

/-- `<if case="e">` at `pre.length`: the frame `stepIf` pushes -/
theorem stepIf_print (cfg : ScanCfg R) (c pre e post : List Nat)
    (hc : c = pre ++ (IFOPEN ++ e ++ [34, 62] ++ post)) (he : ∀ x ∈ e, x ≠ 34) (hpost : 0 < post.length)
    (stk : List (Frame R)) (acc : List (Tag R)) (items' : List (Item R))
    (hex : exprs cfg c [] (pre.length + 10) (pre.length + 10 + e.length) = .ok items')
    (o1 m1 : Nat) (hnext : next c (pre.length + 12 + e.length) = .ok (o1, m1)) :
    stepIf cfg c (stAt stk acc (pre.length + 3) 9) =
      .ok (stAt (.ifT acc [] items' (pre.length + 12 + e.length) pre.length :: stk) [] o1 m1) := by
  have ht := ifText_of c pre e post hc
  have hpc := parseIfCase_print c pre e ht he
  have hlt : pre.length + 12 + e.length < c.length := by rw [hc]; simp [IFOPEN]; omega
  have h3 : W1.ifPrefixLength = 3 := by decide
  simp only [stepIf, stAt, hpc, bind, Except.bind, hlt, if_true, hex, pure, Except.pure, push, finderNext, hnext, h3,
    Nat.add_sub_cancel]


theorem stepIfEnd_print (c : List Nat) (stk : List (Frame R)) (pre0 : List (Tag R)) (done : List (IfCase R))
    (cur : List (Item R)) (curOff off : Nat) (sub : List (Tag R)) (q o2 m2 : Nat)
    (hnext : next c (q + 5) = .ok (o2, m2)) :
    stepIfEnd c (stAt (.ifT pre0 done cur curOff off :: stk) sub (q + 5) 10) =
      .ok (stAt stk (pre0 ++ [.ifT (done ++ [.mk cur sub curOff q]) off (q + 5)]) o2 m2) := by
  have h5 : W1.ifSuffixLength = 5 := by decide
  simp only [stepIfEnd, stAt, finderNext, hnext, bind, Except.bind, h5, Nat.add_sub_cancel]

/-! ### block templates: segments and `<if case="e">segments</if>` -/

inductive Blk where
  | segs (l : List Seg)
  | ifc (e : List Nat) (body : List Seg)

def printBlk : Blk → List Nat
  | .segs l => printSegs l
  | .ifc e b => IFOPEN ++ e ++ [34, 62] ++ printSegs b ++ IFEND

def printBlks : List Blk → List Nat
  | [] => []
  | b :: r => printBlk b ++ printBlks r

def Blk.toTpls : Blk → List Tpl
  | .segs l => segsTpl l
  | .ifc e b => [.ifc [(some e, segsTpl b)]]

def blksTpl : List Blk → List Tpl
  | [] => []
  | b :: r => b.toTpls ++ blksTpl r

theorem printList_append : ∀ (a b : List Tpl), printList (a ++ b) = printList a ++ printList b := by
  intro a
  induction a with
  | nil => intro b; simp [printList]
  | cons x xs ih => intro b; simp [printList, ih, List.append_assoc]

theorem printBlks_eq (bs : List Blk) : printList (blksTpl bs) = printBlks bs := by
  induction bs with
  | nil => rfl
  | cons b r ih =>
    simp only [blksTpl, printBlks, printList_append, ih]
    congr 1
    cases b with
    | segs l => exact printSegs_eq l
    | ifc e body =>
      have h1 : str "<if case=\"" = IFOPEN := by rfl
      have h2 : str "\">" = [34, 62] := by rfl
      have h3 : str "</if>" = IFEND := by rfl
      simp only [Blk.toTpls, printBlk, printList, printTpl, printBranches, if_true, h1, h2, h3, printSegs_eq,
        List.append_nil, List.append_assoc]

def Blk.ok : Blk → Prop
  | .segs l => ∀ s ∈ l, s.ok
  | .ifc e b => plainL e ∧ (∀ x ∈ e, x ≠ 34) ∧ ∀ s ∈ b, s.ok

def blkCost : List Blk → Nat
  | [] => 0
  | .segs l :: r => nTags l + blkCost r
  | .ifc _ b :: r => nTags b + 2 + blkCost r

def tagsOfB (cfg : ScanCfg R) (c : List Nat) (p : Nat) : List Blk → List (Tag R)
  | [] => []
  | .segs l :: r => tagsOf cfg c p l ++ tagsOfB cfg c (p + (printSegs l).length) r
  | .ifc e b :: r =>
    .ifT [.mk (itemsAt cfg c (p + 10) (p + 10 + e.length)) (tagsOf cfg c (p + 12 + e.length) b)
        (p + 12 + e.length) (p + 12 + e.length + (printSegs b).length)] p
      (p + 12 + e.length + (printSegs b).length + 5) ::
      tagsOfB cfg c (p + 12 + e.length + (printSegs b).length + 5) r

theorem printBlk_if_len (e : List Nat) (b : List Seg) :
    (printBlk (.ifc e b)).length = 12 + e.length + (printSegs b).length + 5 := by
  simp [printBlk, IFOPEN, IFEND]; omega

/-- the main loop of `parse` over printed blocks (top level) -/
theorem parseMain_blks (cfg : ScanCfg R) (c : List Nat) (hn : c.length + 16 < 4294967296) (post : List Nat) :
    ∀ (bs : List Blk) (pre : List Nat) (acc : List (Tag R)) (fuel o m o' m' : Nat),
      c = pre ++ (printBlks bs ++ post) → (∀ b ∈ bs, b.ok) →
      next c pre.length = .ok (o, m) →
      next c (pre.length + (printBlks bs).length) = .ok (o', m') →
      parseMain cfg c (fuel + blkCost bs) (stAt [] acc o m) =
        parseMain cfg c fuel (stAt [] (acc ++ tagsOfB cfg c pre.length bs) o' m') := by
  intro bs
  induction bs with
  | nil =>
    intro pre acc fuel o m o' m' hc _ hnext hfin
    simp only [printBlks, List.length_nil, Nat.add_zero] at hfin
    rw [hnext] at hfin
    simp only [Except.ok.injEq, Prod.mk.injEq] at hfin
    obtain ⟨rfl, rfl⟩ := hfin
    simp [blkCost, tagsOfB]
  | cons b r ih =>
    intro pre acc fuel o m o' m' hc hok hnext hfin
    have hokr : ∀ b ∈ r, b.ok := fun x hx => hok x (List.mem_cons_of_mem _ hx)
    have hb := hok b (List.mem_cons_self ..)
    cases b with
    | segs l =>
      simp only [Blk.ok] at hb
      simp only [printBlks, printBlk] at hc hfin
      have hmid_le : pre.length + (printSegs l).length ≤ c.length := by rw [hc]; simp [Nat.add_assoc]
      obtain ⟨o1, m1, hn1, _⟩ := next_safe_total c (pre.length + (printSegs l).length) hmid_le
      have h1 := parseMain_segs cfg c hn [] (printBlks r ++ post) l pre acc (fuel + blkCost r) o m o1 m1
        (by rw [hc]; simp [List.append_assoc]) hb (fun s _ => Seg.scanOk_all _ s) hnext hn1
      have h2 := ih (pre ++ printSegs l) (acc ++ tagsOf cfg c pre.length l) fuel o1 m1 o' m'
        (by rw [hc]; simp [List.append_assoc]) hokr (by rw [List.length_append]; exact hn1)
        (by rw [← hfin]; congr 1; simp [List.length_append]; omega)
      rw [show fuel + blkCost (Blk.segs l :: r) = fuel + blkCost r + nTags l by simp [blkCost]; omega, h1, h2]
      simp [tagsOfB, List.length_append, List.append_assoc]
    | ifc e body =>
      simp only [Blk.ok] at hb
      obtain ⟨hpe, hq34, hbody⟩ := hb
      simp only [printBlks] at hc hfin
      have hlenb := printBlk_if_len e body
      -- the content around the block
      have hc1 : c = pre ++ (IFOPEN ++ e ++ [34, 62] ++ (printSegs body ++ IFEND ++ (printBlks r ++ post))) := by
        rw [hc]; simp [printBlk, List.append_assoc]
      have ht := ifText_of c pre e _ hc1
      have g := fun i (hi : i < 10) => ht.open_ i hi
      have hat : next c pre.length = .ok (pre.length + 3, 9) :=
        next_at_if c pre.length hn (g 0 (by omega)) (g 1 (by omega)) (g 2 (by omega)) (g 4 (by omega)) (g 6 (by omega))
      rw [hat] at hnext
      simp only [Except.ok.injEq, Prod.mk.injEq] at hnext
      obtain ⟨rfl, rfl⟩ := hnext
      -- the case expression
      obtain ⟨items0, hitems0⟩ := Qentem.Expr.parseTop_total ({ readNum := cfg.readNum } : ScanCfg R) (e ++ [34]) 0 e.length (by simp)
      obtain ⟨items', hex, _⟩ := exprs_case cfg c pre e _ hc1 hpe items0 hitems0
      have hlt12 : pre.length + 12 + e.length ≤ c.length := ht.len
      obtain ⟨o1, m1, hn1, _⟩ := next_safe_total c (pre.length + 12 + e.length) hlt12
      have hstep := stepIf_print cfg c pre e _ hc1 hq34 (by simp [IFEND, List.length_append]; omega) [] acc items' hex o1 m1 hn1
      -- the body
      have hc2 : c = (pre ++ (IFOPEN ++ e ++ [34, 62])) ++ (printSegs body ++ (IFEND ++ (printBlks r ++ post))) := by
        rw [hc1]; simp [List.append_assoc]
      have hl2 : (pre ++ (IFOPEN ++ e ++ [34, 62])).length = pre.length + 12 + e.length := by simp [IFOPEN]; omega
      -- `</if>`
      have hq : ∀ i (hi : i < 5), c[pre.length + 12 + e.length + (printSegs body).length + i]? = some (IFEND[i]'(by simp [IFEND]; exact hi)) := by
        intro i hi
        have hc3 : c = (pre ++ (IFOPEN ++ e ++ [34, 62]) ++ printSegs body) ++ (IFEND ++ (printBlks r ++ post)) := by
          rw [hc1]; simp [List.append_assoc]
        have := get_at (pre ++ (IFOPEN ++ e ++ [34, 62]) ++ printSegs body) IFEND (printBlks r ++ post) i (by simp [IFEND]; exact hi)
        rw [hc3]
        have hl3 : (pre ++ (IFOPEN ++ e ++ [34, 62]) ++ printSegs body).length = pre.length + 12 + e.length + (printSegs body).length := by
          simp [IFOPEN]; omega
        rw [hl3] at this
        exact this
      have hend : next c (pre.length + 12 + e.length + (printSegs body).length) =
          .ok (pre.length + 12 + e.length + (printSegs body).length + 5, 10) :=
        next_at_ifend c _ hn (hq 0 (by omega)) (hq 1 (by omega)) (hq 2 (by omega)) (hq 3 (by omega)) (hq 4 (by omega))
      have hbodyrun := parseMain_segs cfg c hn [.ifT acc [] items' (pre.length + 12 + e.length) pre.length]
        (IFEND ++ (printBlks r ++ post)) body (pre ++ (IFOPEN ++ e ++ [34, 62])) [] (fuel + blkCost r + 1) o1 m1 _ _
        hc2 hbody (fun s _ => Seg.scanOk_all _ s) (by rw [hl2]; exact hn1) (by rw [hl2]; exact hend)
      have hend_le : pre.length + 12 + e.length + (printSegs body).length + 5 ≤ c.length := by
        rw [hc1]; simp [IFOPEN, IFEND]; omega
      obtain ⟨o2, m2, hn2, _⟩ := next_safe_total c (pre.length + 12 + e.length + (printSegs body).length + 5) hend_le
      rw [hl2] at hbodyrun
      simp only [List.nil_append] at hbodyrun
      have hclose := stepIfEnd_print c [] acc [] items' (pre.length + 12 + e.length) pre.length
        (tagsOf cfg c (pre.length + 12 + e.length) body)
        (pre.length + 12 + e.length + (printSegs body).length) o2 m2 hn2
      have h2 := ih (pre ++ printBlk (.ifc e body)) (acc ++ [Tag.ifT [IfCase.mk items' (tagsOf cfg c (pre.length + 12 + e.length) body)
          (pre.length + 12 + e.length) (pre.length + 12 + e.length + (printSegs body).length)] pre.length
          (pre.length + 12 + e.length + (printSegs body).length + 5)]) fuel o2 m2 o' m'
        (by rw [hc]; simp [List.append_assoc]) hokr
        (by rw [List.length_append, hlenb, show pre.length + (12 + e.length + (printSegs body).length + 5) =
              pre.length + 12 + e.length + (printSegs body).length + 5 by omega]; exact hn2)
        (by rw [← hfin]; congr 1; simp only [List.length_append]; omega)
      -- assemble
      rw [show fuel + blkCost (Blk.ifc e body :: r) = (fuel + blkCost r + 1 + nTags body) + 1 by simp [blkCost]; omega]
      have hd9 : step cfg c (stAt [] acc (pre.length + 3) 9) = stepIf cfg c (stAt [] acc (pre.length + 3) 9) := by
        simp only [step, stAt]; rfl
      rw [show parseMain cfg c ((fuel + blkCost r + 1 + nTags body) + 1) (stAt [] acc (pre.length + 3) 9) =
          parseMain cfg c (fuel + blkCost r + 1 + nTags body)
            (stAt [.ifT acc [] items' (pre.length + 12 + e.length) pre.length] [] o1 m1) by
        simp only [parseMain]
        rw [if_pos (by simp [stAt]), hd9, hstep]
        rfl]
      rw [hbodyrun]
      have hd10 : ∀ st : PState R, st.mtch = 10 → step cfg c st = stepIfEnd c st := by
        intro st h; simp only [step, h]; rfl
      rw [show parseMain cfg c (fuel + blkCost r + 1)
            (stAt [.ifT acc [] items' (pre.length + 12 + e.length) pre.length]
              (tagsOf cfg c (pre.length + 12 + e.length) body)
              (pre.length + 12 + e.length + (printSegs body).length + 5) 10) =
          parseMain cfg c (fuel + blkCost r)
            (stAt [] (acc ++ [Tag.ifT ([] ++ [IfCase.mk items' (tagsOf cfg c (pre.length + 12 + e.length) body)
              (pre.length + 12 + e.length) (pre.length + 12 + e.length + (printSegs body).length)]) pre.length
              (pre.length + 12 + e.length + (printSegs body).length + 5)]) o2 m2) by
        simp only [parseMain]
        rw [if_pos (by simp [stAt]), hd10 _ rfl, hclose]
        rfl]
      simp only [List.nil_append]
      rw [h2]
      have hia : itemsAt cfg c (pre.length + 10) (pre.length + 10 + e.length) = items' := by simp only [itemsAt, hex]
      have hpl : (pre ++ printBlk (Blk.ifc e body)).length = pre.length + 12 + e.length + (printSegs body).length + 5 := by
        rw [List.length_append, hlenb]; omega
      simp only [tagsOfB, hia, hpl, List.append_assoc, List.singleton_append]

end Qentem.Tmpl
