import Qentem.Proofs.TmplRenderSegs
import Qentem.Proofs.TmplParseAll
/-!
# C02 stage 4 — `<if case="e">body</if>` over the covered segment kinds

`parse` of the printed block is exactly the `If` tag the document implies (`stepIf_print`,
`stepIfEnd_print`), its rendering is the documented expansion.
-/
set_option linter.unusedSectionVars false
set_option linter.unusedVariables false
namespace Qentem.Tmpl
open Qentem.Expr (Fault rd ScanCfg VarRef Item Num Val Env RealLike)
open Qentem.Generated.Tmpl

variable {R : Type}

/-- `<if case="` -/
def IFOPEN : List Nat := [60, 105, 102, 32, 99, 97, 115, 101, 61, 34]
/-- `</if>` -/
def IFEND : List Nat := [60, 47, 105, 102, 62]

theorem isEqualAt_true (c : List Nat) : ∀ (s : List Nat) (off : Nat),
    (∀ i (hi : i < s.length), c[off + i]? = some s[i]) → isEqualAt c off s = .ok true := by
  intro s
  induction s with
  | nil => intro off _; rfl
  | cons x xs ih =>
    intro off h
    have h0 := h 0 (by simp)
    simp only [Nat.add_zero, List.getElem_cons_zero] at h0
    simp only [isEqualAt, rd_some c off x h0, bind, Except.bind, if_true]
    apply ih
    intro i hi
    have := h (i + 1) (by simp; omega)
    simpa [Nat.add_assoc, Nat.add_comm 1 i] using this

/-- the units of a printed `<if case="e">` at `pre.length` -/
structure IfText (c pre e : List Nat) : Prop where
  open_ : ∀ i (hi : i < 10), c[pre.length + i]? = some (IFOPEN[i]'(by simp [IFOPEN]; exact hi))
  expr : ∀ i (hi : i < e.length), c[pre.length + 10 + i]? = some e[i]
  quote : c[pre.length + 10 + e.length]? = some 34
  gt : c[pre.length + 11 + e.length]? = some 62
  len : pre.length + 12 + e.length ≤ c.length

theorem ifText_of (c pre e post : List Nat) (hc : c = pre ++ (IFOPEN ++ e ++ [34, 62] ++ post)) :
    IfText c pre e := by
  have hc1 : c = pre ++ (IFOPEN ++ (e ++ [34, 62] ++ post)) := by rw [hc]; simp [List.append_assoc]
  have hc2 : c = (pre ++ IFOPEN) ++ (e ++ ([34, 62] ++ post)) := by rw [hc]; simp [List.append_assoc]
  have hl : (pre ++ IFOPEN).length = pre.length + 10 := by simp [IFOPEN]
  refine ⟨?_, ?_, ?_, ?_, ?_⟩
  · intro i hi
    rw [hc1]; exact get_at pre IFOPEN _ i (by simp [IFOPEN]; exact hi)
  · intro i hi
    have := get_at (pre ++ IFOPEN) e ([34, 62] ++ post) i hi
    rw [hl] at this; rw [hc2]; exact this
  · have := get_after (pre ++ IFOPEN) e 34 (62 :: post)
    rw [hl] at this; rw [hc2]; simpa using this
  · have hc3 : c = (pre ++ IFOPEN ++ e) ++ ([34] ++ 62 :: post) := by rw [hc]; simp [List.append_assoc]
    have := get_after (pre ++ IFOPEN ++ e) [34] 62 post
    rw [hc3]
    simpa [IFOPEN, Nat.add_assoc, Nat.add_comm, Nat.add_left_comm] using this
  · rw [hc]; simp [IFOPEN]; omega

theorem parseIfCase_print (c pre e : List Nat) (ht : IfText c pre e) (he : ∀ x ∈ e, x ≠ 34) :
    parseIfCase c (pre.length + 3) c.length =
      .ok (pre.length + 12 + e.length, pre.length + 10, pre.length + 10 + e.length) := by
  have hlen := ht.len
  have g := fun i (hi : i < 10) => ht.open_ i hi
  have h3 : c[pre.length + 3]? = some 32 := g 3 (by omega)
  have h4 : c[pre.length + 4]? = some 99 := g 4 (by omega)
  have h8 : c[pre.length + 8]? = some 61 := g 8 (by omega)
  have h9 : c[pre.length + 9]? = some 34 := g 9 (by omega)
  have s1 : skipW c c.length (· == W1.spaceChar) (pre.length + 3) = .ok (pre.length + 3 + 1) := by
    apply skipW_run
    · intro i hi
      have : i = 0 := by omega
      subst this
      exact ⟨32, by simpa using h3, by decide⟩
    · omega
    · right; exact ⟨99, by rw [show pre.length + 3 + 1 = pre.length + 4 by omega]; exact h4, by decide⟩
  have s2 : andEqualAt (decide (pre.length + 3 + 1 < c.length) && decide (c.length - (pre.length + 3 + 1) > W1.caseLength))
      c (pre.length + 3 + 1) W1.caseStr = .ok true := by
    have hcl : W1.caseLength = 4 := by decide
    have : (decide (pre.length + 3 + 1 < c.length) && decide (c.length - (pre.length + 3 + 1) > W1.caseLength)) = true := by
      simp only [hcl, Bool.and_eq_true, decide_eq_true_eq]; omega
    simp only [andEqualAt, this, if_true]
    apply isEqualAt_true
    intro i hi
    have hi4 : i < 4 := by simpa [show W1.caseStr = [99, 97, 115, 101] by decide] using hi
    have := g (4 + i) (by omega)
    rw [show pre.length + 3 + 1 + i = pre.length + (4 + i) by omega, this]
    have : i = 0 ∨ i = 1 ∨ i = 2 ∨ i = 3 := by omega
    rcases this with h | h | h | h <;> subst h <;> rfl
  have hcl4 : W1.caseLength = 4 := by decide
  have s3 : skipW c c.length (· != W1.equalChar) (pre.length + 3 + 1 + W1.caseLength) = .ok (pre.length + 8) := by
    rw [show pre.length + 3 + 1 + W1.caseLength = pre.length + 8 by omega]
    exact skipW_run c c.length _ 0 (pre.length + 8) (by intro i hi; omega) (by omega)
      (Or.inr ⟨61, by simpa using h8, by decide⟩)
  have s4 : skipW c c.length (· == W1.spaceChar) (pre.length + 8 + 1) = .ok (pre.length + 9) := by
    exact skipW_run c c.length _ 0 (pre.length + 9) (by intro i hi; omega) (by omega)
      (Or.inr ⟨34, by simpa using h9, by decide⟩)
  have s5 : skipW c c.length (· != 34) (pre.length + 9 + 1) = .ok (pre.length + 10 + e.length) := by
    rw [show pre.length + 9 + 1 = pre.length + 10 by omega]
    apply skipW_run
    · intro i hi
      refine ⟨e[i], ht.expr i hi, ?_⟩
      have := he e[i] (List.getElem_mem hi)
      simpa using this
    · omega
    · right; exact ⟨34, ht.quote, by decide⟩
  have s6 : skipW c c.length (· != W1.multiLineLastChar) (pre.length + 10 + e.length) = .ok (pre.length + 10 + e.length + 1) := by
    apply skipW_run
    · intro i hi
      have : i = 0 := by omega
      subst this
      exact ⟨34, by simpa using ht.quote, by decide⟩
    · omega
    · right; exact ⟨62, by rw [show pre.length + 10 + e.length + 1 = pre.length + 11 + e.length by omega]; exact ht.gt, by decide⟩
  simp only [parseIfCase, s1, bind, Except.bind, s2, if_true, s3, doSkipW, s4]
  have hlt : pre.length + 9 < c.length := by omega
  simp only [hlt, if_true, rd_some c (pre.length + 9) 34 h9, s5, s6]
  congr 2 <;> omega


theorem isExpression_after_quote (A rest : List Nat) :
    Qentem.Expr.isExpression ((A ++ [34]) ++ rest) (A ++ [34]).length = .ok false := by
  have : (A ++ [34]).length = A.length + 1 := by simp
  rw [this]
  have hrd : rd ((A ++ [34]) ++ rest) A.length = .ok 34 := by
    apply rd_some
    have := get_mid A [34] rest 0 (by simp)
    simpa [List.append_assoc] using this
  have h1 : ¬ ((34 : Nat) = Qentem.Expr.cSpace) := by decide
  have h2 : ¬ ((34 : Nat) = Qentem.Expr.cPClose ∨ (34 : Nat) = Qentem.Expr.cBClose) := by decide
  have h3 : decide (Qentem.Generated.Expr.W1.digitZero ≤ 34 ∧ 34 ≤ Qentem.Generated.Expr.W1.digitNine) = false := by
    decide
  simp only [Qentem.Expr.isExpression, hrd, bind, Except.bind, h1, h2, h3, if_false]

/-- the text of a `case="e"` attribute inside the content, as a relocation of `e"` -/
theorem reloc_case (c pre e post : List Nat) (hc : c = pre ++ (IFOPEN ++ e ++ [34, 62] ++ post)) :
    Qentem.Expr.Reloc (e ++ [34]) c (pre.length + 10) := by
  have hc' : c = ((pre ++ [60, 105, 102, 32, 99, 97, 115, 101, 61]) ++ [34]) ++ (e ++ [34]) ++ (62 :: post) := by
    rw [hc]; simp [IFOPEN, List.append_assoc]
  have hlen : ((pre ++ [60, 105, 102, 32, 99, 97, 115, 101, 61]) ++ [34]).length = pre.length + 10 := by simp
  have hbefore := isExpression_after_quote (pre ++ [60, 105, 102, 32, 99, 97, 115, 101, 61]) ((e ++ [34]) ++ (62 :: post))
  rw [← List.append_assoc] at hbefore
  have hrel := Qentem.Expr.Reloc.of_append ((pre ++ [60, 105, 102, 32, 99, 97, 115, 101, 61]) ++ [34]) (e ++ [34]) (62 :: post) hbefore
  rw [← hc', hlen] at hrel
  exact hrel

/-- the case expression of a printed `<if case="e">` scanned in place: the scan of `e"` alone, moved -/
theorem exprs_case (cfg : ScanCfg R) (c pre e post : List Nat)
    (hc : c = pre ++ (IFOPEN ++ e ++ [34, 62] ++ post)) (hp : plainL e)
    (items : List (Item R))
    (hs : Qentem.Expr.parseTop ({ readNum := cfg.readNum } : ScanCfg R) (e ++ [34]) 0 e.length = .ok items) :
    ∃ items', exprs cfg c [] (pre.length + 10) (pre.length + 10 + e.length) = .ok items' ∧
      Qentem.Expr.RelItems Qentem.Expr.NoV (pre.length + 10) (e.length + 1) items items' := by
  have hrel := reloc_case c pre e post hc
  have hno : ∀ (i x : Nat), (e ++ [34])[i]? = some x → x ≠ Qentem.Expr.cBOpen := by
    intro i x hx
    have hmem : x ∈ e ++ [34] := List.mem_of_getElem? hx
    rcases List.mem_append.mp hmem with h | h
    · exact (hp x h).1
    · simp at h; subst h; decide
  obtain ⟨items', h1, h2⟩ := Qentem.Expr.parseTop_reloc ({ readNum := cfg.readNum } : ScanCfg R)
    { cfg with loopVar := loopVarPure c [] } rfl hrel hno 0 e.length (by simp) items hs
  refine ⟨items', ?_, ?_⟩
  · simpa [exprs] using h1
  · simpa using h2

/-- `<if case="e">` at `pre.length`: the frame `stepIf` pushes -/
theorem stepIf_print (cfg : ScanCfg R) (c pre e post : List Nat)
    (hc : c = pre ++ (IFOPEN ++ e ++ [34, 62] ++ post)) (he : ∀ x ∈ e, x ≠ 34) (hpost : 0 < post.length)
    (stk : List (Frame R)) (acc : List (Tag R)) (items' : List (Item R))
    (hex : exprs cfg c [] (pre.length + 10) (pre.length + 10 + e.length) = .ok items')
    (o1 m1 : Nat) (hnext : next c (pre.length + 12 + e.length) = .ok (o1, m1)) :
    stepIf cfg c (stAt stk acc (pre.length + 3) 9) =
      .ok (stAt (.ifT acc [] items' (pre.length + 12 + e.length) pre.length :: stk) [] o1 m1) := by
  have ht := ifText_of c pre e post hc
  have hpc := parseIfCase_print c pre e ht he
  have hlt : pre.length + 12 + e.length < c.length := by rw [hc]; simp [IFOPEN]; omega
  have h3 : W1.ifPrefixLength = 3 := by decide
  simp only [stepIf, stAt, hpc, bind, Except.bind, hlt, if_true, hex, pure, Except.pure, push, finderNext, hnext, h3,
    Nat.add_sub_cancel]


theorem stepIfEnd_print (c : List Nat) (stk : List (Frame R)) (pre0 : List (Tag R)) (done : List (IfCase R))
    (cur : List (Item R)) (curOff off : Nat) (sub : List (Tag R)) (q o2 m2 : Nat)
    (hnext : next c (q + 5) = .ok (o2, m2)) :
    stepIfEnd c (stAt (.ifT pre0 done cur curOff off :: stk) sub (q + 5) 10) =
      .ok (stAt stk (pre0 ++ [.ifT (done ++ [.mk cur sub curOff q]) off (q + 5)]) o2 m2) := by
  have h5 : W1.ifSuffixLength = 5 := by decide
  simp only [stepIfEnd, stAt, finderNext, hnext, bind, Except.bind, h5, Nat.add_sub_cancel]

/-- `<else />` -/
def ELSE : List Nat := [60, 101, 108, 115, 101, 32, 47, 62]

theorem stepElse_print (cfg : ScanCfg R) (c : List Nat) (stk : List (Frame R)) (pre0 : List (Tag R))
    (done : List (IfCase R)) (cur : List (Item R)) (curOff off : Nat) (sub : List (Tag R)) (q o2 m2 : Nat)
    (h5 : c[q + 5]? = some 32) (h6 : c[q + 6]? = some 47) (h7 : c[q + 7]? = some 62)
    (hnext : next c (q + 8) = .ok (o2, m2)) :
    stepElse cfg c (stAt (.ifT pre0 done cur curOff off :: stk) sub (q + 5) 11) =
      .ok (stAt (.ifT pre0 (done ++ [.mk cur sub curOff q]) [] (q + 8) off :: stk) [] o2 m2) := by
  have hlt7 : q + 7 < c.length := (List.getElem?_eq_some_iff.mp h7).1
  have hpl : W1.elsePrefixLength = 5 := by decide
  have hscan : elseScan c (c.length + 1) (q + 5) = .ok (q + 7, false) := by
    rw [show c.length + 1 = (c.length - 2) + 1 + 1 + 1 by omega]
    have h6' : c[q + 5 + 1]? = some 47 := by rw [show q + 5 + 1 = q + 6 by omega]; exact h6
    have h7' : c[q + 5 + 1 + 1]? = some 62 := by rw [show q + 5 + 1 + 1 = q + 7 by omega]; exact h7
    simp [elseScan, rd_some c (q + 5) 32 h5, rd_some c _ 47 h6', rd_some c _ 62 h7', bind, Except.bind,
      show q + 5 < c.length by omega, show q + 5 + 1 < c.length by omega, show q + 5 + 1 + 1 < c.length by omega,
      show W1.multiLineLastChar = 62 by decide, show W1.ifPrefixFirst = 105 by decide]
  simp only [stepElse, stAt, hscan, bind, Except.bind, Bool.false_eq_true, if_false, hlt7, if_true, hpl,
    Nat.add_sub_cancel, finderNext, hnext]

/-! ### block templates: segments and `<if case="e">segments</if>` -/

inductive Blk where
  | segs (l : List Seg)
  | ifc (e : List Nat) (body : List Seg)
  | ife (e : List Nat) (thenB elseB : List Seg)

def printBlk : Blk → List Nat
  | .segs l => printSegs l
  | .ifc e b => IFOPEN ++ e ++ [34, 62] ++ printSegs b ++ IFEND
  | .ife e t f => IFOPEN ++ e ++ [34, 62] ++ printSegs t ++ ELSE ++ printSegs f ++ IFEND

def printBlks : List Blk → List Nat
  | [] => []
  | b :: r => printBlk b ++ printBlks r

def Blk.toTpls : Blk → List Tpl
  | .segs l => segsTpl l
  | .ifc e b => [.ifc [(some e, segsTpl b)]]
  | .ife e t f => [.ifc [(some e, segsTpl t), (none, segsTpl f)]]

def blksTpl : List Blk → List Tpl
  | [] => []
  | b :: r => b.toTpls ++ blksTpl r

theorem printList_append : ∀ (a b : List Tpl), printList (a ++ b) = printList a ++ printList b := by
  intro a
  induction a with
  | nil => intro b; simp [printList]
  | cons x xs ih => intro b; simp [printList, ih, List.append_assoc]

theorem printBlks_eq (bs : List Blk) : printList (blksTpl bs) = printBlks bs := by
  induction bs with
  | nil => rfl
  | cons b r ih =>
    simp only [blksTpl, printBlks, printList_append, ih]
    congr 1
    cases b with
    | segs l => exact printSegs_eq l
    | ifc e body =>
      have h1 : str "<if case=\"" = IFOPEN := by rfl
      have h2 : str "\">" = [34, 62] := by rfl
      have h3 : str "</if>" = IFEND := by rfl
      simp only [Blk.toTpls, printBlk, printList, printTpl, printBranches, if_true, h1, h2, h3, printSegs_eq,
        List.append_nil, List.append_assoc]
    | ife e t f =>
      have h1 : str "<if case=\"" = IFOPEN := by rfl
      have h2 : str "\">" = [34, 62] := by rfl
      have h3 : str "</if>" = IFEND := by rfl
      have h4 : str "<else />" = ELSE := by rfl
      simp only [Blk.toTpls, printBlk, printList, printTpl, printBranches, if_true, h1, h2, h3, h4, printSegs_eq,
        List.append_nil, List.append_assoc]

def Blk.ok : Blk → Prop
  | .segs l => ∀ s ∈ l, s.ok
  | .ifc e b => plainL e ∧ (∀ x ∈ e, x ≠ 34) ∧ ∀ s ∈ b, s.ok
  | .ife e t f => plainL e ∧ (∀ x ∈ e, x ≠ 34) ∧ (∀ s ∈ t, s.ok) ∧ ∀ s ∈ f, s.ok

/-- the case text of an if / else block is an expression (otherwise the code prints nothing at all,
the reference goes on to the `else` part) -/
def Blk.caseOk (rn : List Nat → Option (Num R)) : Blk → Prop
  | .ife e _ _ => ∀ items : List (Item R),
      Qentem.Expr.parseTop ({ readNum := rn } : ScanCfg R) (e ++ [34]) 0 e.length = .ok items → items ≠ []
  | _ => True

def blkCost : List Blk → Nat
  | [] => 0
  | .segs l :: r => nTags l + blkCost r
  | .ifc _ b :: r => nTags b + 2 + blkCost r
  | .ife _ t f :: r => nTags t + nTags f + 3 + blkCost r

def tagsOfB (cfg : ScanCfg R) (c : List Nat) (p : Nat) : List Blk → List (Tag R)
  | [] => []
  | .segs l :: r => tagsOf cfg c p l ++ tagsOfB cfg c (p + (printSegs l).length) r
  | .ifc e b :: r =>
    .ifT [.mk (itemsAt cfg c (p + 10) (p + 10 + e.length)) (tagsOf cfg c (p + 12 + e.length) b)
        (p + 12 + e.length) (p + 12 + e.length + (printSegs b).length)] p
      (p + 12 + e.length + (printSegs b).length + 5) ::
      tagsOfB cfg c (p + 12 + e.length + (printSegs b).length + 5) r
  | .ife e t f :: r =>
    .ifT [.mk (itemsAt cfg c (p + 10) (p + 10 + e.length)) (tagsOf cfg c (p + 12 + e.length) t)
        (p + 12 + e.length) (p + 12 + e.length + (printSegs t).length),
        .mk [] (tagsOf cfg c (p + 12 + e.length + (printSegs t).length + 8) f)
          (p + 12 + e.length + (printSegs t).length + 8)
          (p + 12 + e.length + (printSegs t).length + 8 + (printSegs f).length)] p
      (p + 12 + e.length + (printSegs t).length + 8 + (printSegs f).length + 5) ::
      tagsOfB cfg c (p + 12 + e.length + (printSegs t).length + 8 + (printSegs f).length + 5) r

theorem printBlk_ife_len (e : List Nat) (t f : List Seg) :
    (printBlk (.ife e t f)).length = 12 + e.length + (printSegs t).length + 8 + (printSegs f).length + 5 := by
  simp [printBlk, IFOPEN, IFEND, ELSE]; omega

theorem printBlk_if_len (e : List Nat) (b : List Seg) :
    (printBlk (.ifc e b)).length = 12 + e.length + (printSegs b).length + 5 := by
  simp [printBlk, IFOPEN, IFEND]; omega

/-- the main loop of `parse` over printed blocks (top level) -/
theorem parseMain_blks (cfg : ScanCfg R) (c : List Nat) (hn : c.length + 16 < 4294967296) (post : List Nat) :
    ∀ (bs : List Blk) (pre : List Nat) (acc : List (Tag R)) (fuel o m o' m' : Nat),
      c = pre ++ (printBlks bs ++ post) → (∀ b ∈ bs, b.ok) →
      next c pre.length = .ok (o, m) →
      next c (pre.length + (printBlks bs).length) = .ok (o', m') →
      parseMain cfg c (fuel + blkCost bs) (stAt [] acc o m) =
        parseMain cfg c fuel (stAt [] (acc ++ tagsOfB cfg c pre.length bs) o' m') := by
  intro bs
  induction bs with
  | nil =>
    intro pre acc fuel o m o' m' hc _ hnext hfin
    simp only [printBlks, List.length_nil, Nat.add_zero] at hfin
    rw [hnext] at hfin
    simp only [Except.ok.injEq, Prod.mk.injEq] at hfin
    obtain ⟨rfl, rfl⟩ := hfin
    simp [blkCost, tagsOfB]
  | cons b r ih =>
    intro pre acc fuel o m o' m' hc hok hnext hfin
    have hokr : ∀ b ∈ r, b.ok := fun x hx => hok x (List.mem_cons_of_mem _ hx)
    have hb := hok b (List.mem_cons_self ..)
    cases b with
    | segs l =>
      simp only [Blk.ok] at hb
      simp only [printBlks, printBlk] at hc hfin
      have hmid_le : pre.length + (printSegs l).length ≤ c.length := by rw [hc]; simp [Nat.add_assoc]
      obtain ⟨o1, m1, hn1, _⟩ := next_safe_total c (pre.length + (printSegs l).length) hmid_le
      have h1 := parseMain_segs cfg c hn [] (printBlks r ++ post) l pre acc (fuel + blkCost r) o m o1 m1
        (by rw [hc]; simp [List.append_assoc]) hb (fun s _ => Seg.scanOk_all _ s) hnext hn1
      have h2 := ih (pre ++ printSegs l) (acc ++ tagsOf cfg c pre.length l) fuel o1 m1 o' m'
        (by rw [hc]; simp [List.append_assoc]) hokr (by rw [List.length_append]; exact hn1)
        (by rw [← hfin]; congr 1; simp [List.length_append]; omega)
      rw [show fuel + blkCost (Blk.segs l :: r) = fuel + blkCost r + nTags l by simp [blkCost]; omega, h1, h2]
      simp [tagsOfB, List.length_append, List.append_assoc]
    | ifc e body =>
      simp only [Blk.ok] at hb
      obtain ⟨hpe, hq34, hbody⟩ := hb
      simp only [printBlks] at hc hfin
      have hlenb := printBlk_if_len e body
      -- the content around the block
      have hc1 : c = pre ++ (IFOPEN ++ e ++ [34, 62] ++ (printSegs body ++ IFEND ++ (printBlks r ++ post))) := by
        rw [hc]; simp [printBlk, List.append_assoc]
      have ht := ifText_of c pre e _ hc1
      have g := fun i (hi : i < 10) => ht.open_ i hi
      have hat : next c pre.length = .ok (pre.length + 3, 9) :=
        next_at_if c pre.length hn (g 0 (by omega)) (g 1 (by omega)) (g 2 (by omega)) (g 4 (by omega)) (g 6 (by omega))
      rw [hat] at hnext
      simp only [Except.ok.injEq, Prod.mk.injEq] at hnext
      obtain ⟨rfl, rfl⟩ := hnext
      -- the case expression
      obtain ⟨items0, hitems0⟩ := Qentem.Expr.parseTop_total ({ readNum := cfg.readNum } : ScanCfg R) (e ++ [34]) 0 e.length (by simp)
      obtain ⟨items', hex, _⟩ := exprs_case cfg c pre e _ hc1 hpe items0 hitems0
      have hlt12 : pre.length + 12 + e.length ≤ c.length := ht.len
      obtain ⟨o1, m1, hn1, _⟩ := next_safe_total c (pre.length + 12 + e.length) hlt12
      have hstep := stepIf_print cfg c pre e _ hc1 hq34 (by simp [IFEND, List.length_append]; omega) [] acc items' hex o1 m1 hn1
      -- the body
      have hc2 : c = (pre ++ (IFOPEN ++ e ++ [34, 62])) ++ (printSegs body ++ (IFEND ++ (printBlks r ++ post))) := by
        rw [hc1]; simp [List.append_assoc]
      have hl2 : (pre ++ (IFOPEN ++ e ++ [34, 62])).length = pre.length + 12 + e.length := by simp [IFOPEN]; omega
      -- `</if>`
      have hq : ∀ i (hi : i < 5), c[pre.length + 12 + e.length + (printSegs body).length + i]? = some (IFEND[i]'(by simp [IFEND]; exact hi)) := by
        intro i hi
        have hc3 : c = (pre ++ (IFOPEN ++ e ++ [34, 62]) ++ printSegs body) ++ (IFEND ++ (printBlks r ++ post)) := by
          rw [hc1]; simp [List.append_assoc]
        have := get_at (pre ++ (IFOPEN ++ e ++ [34, 62]) ++ printSegs body) IFEND (printBlks r ++ post) i (by simp [IFEND]; exact hi)
        rw [hc3]
        have hl3 : (pre ++ (IFOPEN ++ e ++ [34, 62]) ++ printSegs body).length = pre.length + 12 + e.length + (printSegs body).length := by
          simp [IFOPEN]; omega
        rw [hl3] at this
        exact this
      have hend : next c (pre.length + 12 + e.length + (printSegs body).length) =
          .ok (pre.length + 12 + e.length + (printSegs body).length + 5, 10) :=
        next_at_ifend c _ hn (hq 0 (by omega)) (hq 1 (by omega)) (hq 2 (by omega)) (hq 3 (by omega)) (hq 4 (by omega))
      have hbodyrun := parseMain_segs cfg c hn [.ifT acc [] items' (pre.length + 12 + e.length) pre.length]
        (IFEND ++ (printBlks r ++ post)) body (pre ++ (IFOPEN ++ e ++ [34, 62])) [] (fuel + blkCost r + 1) o1 m1 _ _
        hc2 hbody (fun s _ => Seg.scanOk_all _ s) (by rw [hl2]; exact hn1) (by rw [hl2]; exact hend)
      have hend_le : pre.length + 12 + e.length + (printSegs body).length + 5 ≤ c.length := by
        rw [hc1]; simp [IFOPEN, IFEND]; omega
      obtain ⟨o2, m2, hn2, _⟩ := next_safe_total c (pre.length + 12 + e.length + (printSegs body).length + 5) hend_le
      rw [hl2] at hbodyrun
      simp only [List.nil_append] at hbodyrun
      have hclose := stepIfEnd_print c [] acc [] items' (pre.length + 12 + e.length) pre.length
        (tagsOf cfg c (pre.length + 12 + e.length) body)
        (pre.length + 12 + e.length + (printSegs body).length) o2 m2 hn2
      have h2 := ih (pre ++ printBlk (.ifc e body)) (acc ++ [Tag.ifT [IfCase.mk items' (tagsOf cfg c (pre.length + 12 + e.length) body)
          (pre.length + 12 + e.length) (pre.length + 12 + e.length + (printSegs body).length)] pre.length
          (pre.length + 12 + e.length + (printSegs body).length + 5)]) fuel o2 m2 o' m'
        (by rw [hc]; simp [List.append_assoc]) hokr
        (by rw [List.length_append, hlenb, show pre.length + (12 + e.length + (printSegs body).length + 5) =
              pre.length + 12 + e.length + (printSegs body).length + 5 by omega]; exact hn2)
        (by rw [← hfin]; congr 1; simp only [List.length_append]; omega)
      -- assemble
      rw [show fuel + blkCost (Blk.ifc e body :: r) = (fuel + blkCost r + 1 + nTags body) + 1 by simp [blkCost]; omega]
      have hd9 : step cfg c (stAt [] acc (pre.length + 3) 9) = stepIf cfg c (stAt [] acc (pre.length + 3) 9) := by
        simp only [step, stAt]; rfl
      rw [show parseMain cfg c ((fuel + blkCost r + 1 + nTags body) + 1) (stAt [] acc (pre.length + 3) 9) =
          parseMain cfg c (fuel + blkCost r + 1 + nTags body)
            (stAt [.ifT acc [] items' (pre.length + 12 + e.length) pre.length] [] o1 m1) by
        simp only [parseMain]
        rw [if_pos (by simp [stAt]), hd9, hstep]
        rfl]
      rw [hbodyrun]
      have hd10 : ∀ st : PState R, st.mtch = 10 → step cfg c st = stepIfEnd c st := by
        intro st h; simp only [step, h]; rfl
      rw [show parseMain cfg c (fuel + blkCost r + 1)
            (stAt [.ifT acc [] items' (pre.length + 12 + e.length) pre.length]
              (tagsOf cfg c (pre.length + 12 + e.length) body)
              (pre.length + 12 + e.length + (printSegs body).length + 5) 10) =
          parseMain cfg c (fuel + blkCost r)
            (stAt [] (acc ++ [Tag.ifT ([] ++ [IfCase.mk items' (tagsOf cfg c (pre.length + 12 + e.length) body)
              (pre.length + 12 + e.length) (pre.length + 12 + e.length + (printSegs body).length)]) pre.length
              (pre.length + 12 + e.length + (printSegs body).length + 5)]) o2 m2) by
        simp only [parseMain]
        rw [if_pos (by simp [stAt]), hd10 _ rfl, hclose]
        rfl]
      simp only [List.nil_append]
      rw [h2]
      have hia : itemsAt cfg c (pre.length + 10) (pre.length + 10 + e.length) = items' := by simp only [itemsAt, hex]
      have hpl : (pre ++ printBlk (Blk.ifc e body)).length = pre.length + 12 + e.length + (printSegs body).length + 5 := by
        rw [List.length_append, hlenb]; omega
      simp only [tagsOfB, hia, hpl, List.append_assoc, List.singleton_append]
    | ife e tb fb =>
      simp only [Blk.ok] at hb
      obtain ⟨hpe, hq34, htb, hfb⟩ := hb
      simp only [printBlks] at hc hfin
      have hlenb := printBlk_ife_len e tb fb
      have hc1 : c = pre ++ (IFOPEN ++ e ++ [34, 62] ++
          (printSegs tb ++ ELSE ++ printSegs fb ++ IFEND ++ (printBlks r ++ post))) := by
        rw [hc]; simp [printBlk, List.append_assoc]
      have ht := ifText_of c pre e _ hc1
      have g := fun i (hi : i < 10) => ht.open_ i hi
      have hat : next c pre.length = .ok (pre.length + 3, 9) :=
        next_at_if c pre.length hn (g 0 (by omega)) (g 1 (by omega)) (g 2 (by omega)) (g 4 (by omega)) (g 6 (by omega))
      rw [hat] at hnext
      simp only [Except.ok.injEq, Prod.mk.injEq] at hnext
      obtain ⟨rfl, rfl⟩ := hnext
      obtain ⟨items0, hitems0⟩ := Qentem.Expr.parseTop_total ({ readNum := cfg.readNum } : ScanCfg R) (e ++ [34]) 0 e.length (by simp)
      obtain ⟨items', hex, _⟩ := exprs_case cfg c pre e _ hc1 hpe items0 hitems0
      have hlt12 : pre.length + 12 + e.length ≤ c.length := ht.len
      obtain ⟨o1, m1, hn1, _⟩ := next_safe_total c (pre.length + 12 + e.length) hlt12
      have hstep := stepIf_print cfg c pre e _ hc1 hq34 (by simp [IFEND, ELSE, List.length_append]; omega) [] acc items' hex o1 m1 hn1
      have hl2 : (pre ++ (IFOPEN ++ e ++ [34, 62])).length = pre.length + 12 + e.length := by simp [IFOPEN]; omega
      have hc3 : c = (pre ++ (IFOPEN ++ e ++ [34, 62]) ++ printSegs tb) ++ (ELSE ++ (printSegs fb ++ IFEND ++ (printBlks r ++ post))) := by
        rw [hc1]; simp [List.append_assoc]
      have hl3 : (pre ++ (IFOPEN ++ e ++ [34, 62]) ++ printSegs tb).length = pre.length + 12 + e.length + (printSegs tb).length := by
        rw [List.length_append, hl2]
      have hel : ∀ i (hi : i < 8), c[pre.length + 12 + e.length + (printSegs tb).length + i]? = some (ELSE[i]'(by simp [ELSE]; exact hi)) := by
        intro i hi
        have := get_at (pre ++ (IFOPEN ++ e ++ [34, 62]) ++ printSegs tb) ELSE (printSegs fb ++ IFEND ++ (printBlks r ++ post)) i (by simp [ELSE]; exact hi)
        rw [hl3] at this; rw [hc3]; exact this
      have helse : next c (pre.length + 12 + e.length + (printSegs tb).length) =
          .ok (pre.length + 12 + e.length + (printSegs tb).length + 5, 11) :=
        next_at_else c _ hn (hel 0 (by omega)) (hel 1 (by omega)) (hel 2 (by omega)) (hel 3 (by omega)) (hel 4 (by omega))
          (hel 6 (by omega))
      have hc2 : c = (pre ++ (IFOPEN ++ e ++ [34, 62])) ++ (printSegs tb ++ (ELSE ++ (printSegs fb ++ IFEND ++ (printBlks r ++ post)))) := by
        rw [hc1]; simp [List.append_assoc]
      have hrun1 := parseMain_segs cfg c hn [.ifT acc [] items' (pre.length + 12 + e.length) pre.length]
        (ELSE ++ (printSegs fb ++ IFEND ++ (printBlks r ++ post))) tb (pre ++ (IFOPEN ++ e ++ [34, 62])) []
        (fuel + blkCost r + 1 + nTags fb + 1) o1 m1 _ _
        hc2 htb (fun s _ => Seg.scanOk_all _ s) (by rw [hl2]; exact hn1) (by rw [hl2]; exact helse)
      rw [hl2] at hrun1
      simp only [List.nil_append] at hrun1
      have hb2_le : pre.length + 12 + e.length + (printSegs tb).length + 8 ≤ c.length := by
        rw [hc1]; simp [IFOPEN, ELSE]; omega
      obtain ⟨o3, m3, hn3, _⟩ := next_safe_total c (pre.length + 12 + e.length + (printSegs tb).length + 8) hb2_le
      have hels := stepElse_print cfg c [] acc [] items' (pre.length + 12 + e.length) pre.length
        (tagsOf cfg c (pre.length + 12 + e.length) tb) (pre.length + 12 + e.length + (printSegs tb).length) o3 m3
        (hel 5 (by omega)) (hel 6 (by omega)) (hel 7 (by omega)) hn3
      have hc4 : c = (pre ++ (IFOPEN ++ e ++ [34, 62]) ++ printSegs tb ++ ELSE) ++ (printSegs fb ++ (IFEND ++ (printBlks r ++ post))) := by
        rw [hc1]; simp [List.append_assoc]
      have hl4 : (pre ++ (IFOPEN ++ e ++ [34, 62]) ++ printSegs tb ++ ELSE).length = pre.length + 12 + e.length + (printSegs tb).length + 8 := by
        rw [List.length_append, hl3]; simp [ELSE]
      have hq : ∀ i (hi : i < 5), c[pre.length + 12 + e.length + (printSegs tb).length + 8 + (printSegs fb).length + i]? = some (IFEND[i]'(by simp [IFEND]; exact hi)) := by
        intro i hi
        have hc5 : c = (pre ++ (IFOPEN ++ e ++ [34, 62]) ++ printSegs tb ++ ELSE ++ printSegs fb) ++ (IFEND ++ (printBlks r ++ post)) := by
          rw [hc1]; simp [List.append_assoc]
        have := get_at (pre ++ (IFOPEN ++ e ++ [34, 62]) ++ printSegs tb ++ ELSE ++ printSegs fb) IFEND (printBlks r ++ post) i (by simp [IFEND]; exact hi)
        have hl5 : (pre ++ (IFOPEN ++ e ++ [34, 62]) ++ printSegs tb ++ ELSE ++ printSegs fb).length =
            pre.length + 12 + e.length + (printSegs tb).length + 8 + (printSegs fb).length := by
          rw [List.length_append, hl4]
        rw [hl5] at this; rw [hc5]; exact this
      have hend : next c (pre.length + 12 + e.length + (printSegs tb).length + 8 + (printSegs fb).length) =
          .ok (pre.length + 12 + e.length + (printSegs tb).length + 8 + (printSegs fb).length + 5, 10) :=
        next_at_ifend c _ hn (hq 0 (by omega)) (hq 1 (by omega)) (hq 2 (by omega)) (hq 3 (by omega)) (hq 4 (by omega))
      have hrun2 := parseMain_segs cfg c hn
        [.ifT acc ([] ++ [IfCase.mk items' (tagsOf cfg c (pre.length + 12 + e.length) tb) (pre.length + 12 + e.length)
          (pre.length + 12 + e.length + (printSegs tb).length)]) [] (pre.length + 12 + e.length + (printSegs tb).length + 8) pre.length]
        (IFEND ++ (printBlks r ++ post)) fb (pre ++ (IFOPEN ++ e ++ [34, 62]) ++ printSegs tb ++ ELSE) []
        (fuel + blkCost r + 1) o3 m3 _ _
        hc4 hfb (fun s _ => Seg.scanOk_all _ s) (by rw [hl4]; exact hn3) (by rw [hl4]; exact hend)
      rw [hl4] at hrun2
      simp only [List.nil_append] at hrun2
      have hend_le : pre.length + 12 + e.length + (printSegs tb).length + 8 + (printSegs fb).length + 5 ≤ c.length := by
        rw [hc1]; simp [IFOPEN, IFEND, ELSE]; omega
      obtain ⟨o2, m2, hn2, _⟩ := next_safe_total c _ hend_le
      have hclose := stepIfEnd_print c [] acc
        [IfCase.mk items' (tagsOf cfg c (pre.length + 12 + e.length) tb) (pre.length + 12 + e.length)
          (pre.length + 12 + e.length + (printSegs tb).length)] [] (pre.length + 12 + e.length + (printSegs tb).length + 8) pre.length
        (tagsOf cfg c (pre.length + 12 + e.length + (printSegs tb).length + 8) fb)
        (pre.length + 12 + e.length + (printSegs tb).length + 8 + (printSegs fb).length) o2 m2 hn2
      have hpl : (pre ++ printBlk (Blk.ife e tb fb)).length =
          pre.length + 12 + e.length + (printSegs tb).length + 8 + (printSegs fb).length + 5 := by
        rw [List.length_append, hlenb]; omega
      have h2 := ih (pre ++ printBlk (.ife e tb fb)) (acc ++ [Tag.ifT
          [IfCase.mk items' (tagsOf cfg c (pre.length + 12 + e.length) tb) (pre.length + 12 + e.length)
            (pre.length + 12 + e.length + (printSegs tb).length),
           IfCase.mk [] (tagsOf cfg c (pre.length + 12 + e.length + (printSegs tb).length + 8) fb)
            (pre.length + 12 + e.length + (printSegs tb).length + 8)
            (pre.length + 12 + e.length + (printSegs tb).length + 8 + (printSegs fb).length)] pre.length
          (pre.length + 12 + e.length + (printSegs tb).length + 8 + (printSegs fb).length + 5)]) fuel o2 m2 o' m'
        (by rw [hc]; simp [List.append_assoc]) hokr (by rw [hpl]; exact hn2)
        (by rw [← hfin]; congr 1; simp only [List.length_append]; omega)
      rw [show fuel + blkCost (Blk.ife e tb fb :: r) = (fuel + blkCost r + 1 + nTags fb + 1 + nTags tb) + 1 by
        simp [blkCost]; omega]
      have hd9 : step cfg c (stAt [] acc (pre.length + 3) 9) = stepIf cfg c (stAt [] acc (pre.length + 3) 9) := by
        simp only [step, stAt]; rfl
      rw [show parseMain cfg c ((fuel + blkCost r + 1 + nTags fb + 1 + nTags tb) + 1) (stAt [] acc (pre.length + 3) 9) =
          parseMain cfg c (fuel + blkCost r + 1 + nTags fb + 1 + nTags tb)
            (stAt [.ifT acc [] items' (pre.length + 12 + e.length) pre.length] [] o1 m1) by
        simp only [parseMain]
        rw [if_pos (by simp [stAt]), hd9, hstep]
        rfl]
      rw [hrun1]
      have hd11 : ∀ st : PState R, st.mtch = 11 → step cfg c st = stepElse cfg c st := by
        intro st h; simp only [step, h]; rfl
      have hd10 : ∀ st : PState R, st.mtch = 10 → step cfg c st = stepIfEnd c st := by
        intro st h; simp only [step, h]; rfl
      rw [show parseMain cfg c (fuel + blkCost r + 1 + nTags fb + 1)
            (stAt [.ifT acc [] items' (pre.length + 12 + e.length) pre.length]
              (tagsOf cfg c (pre.length + 12 + e.length) tb)
              (pre.length + 12 + e.length + (printSegs tb).length + 5) 11) =
          parseMain cfg c (fuel + blkCost r + 1 + nTags fb)
            (stAt [.ifT acc ([] ++ [IfCase.mk items' (tagsOf cfg c (pre.length + 12 + e.length) tb) (pre.length + 12 + e.length)
              (pre.length + 12 + e.length + (printSegs tb).length)]) [] (pre.length + 12 + e.length + (printSegs tb).length + 8) pre.length]
              [] o3 m3) by
        simp only [parseMain]
        rw [if_pos (by simp [stAt]), hd11 _ rfl, hels]
        rfl]
      simp only [List.nil_append]
      rw [hrun2]
      rw [show parseMain cfg c (fuel + blkCost r + 1)
            (stAt [.ifT acc [IfCase.mk items' (tagsOf cfg c (pre.length + 12 + e.length) tb) (pre.length + 12 + e.length)
              (pre.length + 12 + e.length + (printSegs tb).length)] [] (pre.length + 12 + e.length + (printSegs tb).length + 8) pre.length]
              (tagsOf cfg c (pre.length + 12 + e.length + (printSegs tb).length + 8) fb)
              (pre.length + 12 + e.length + (printSegs tb).length + 8 + (printSegs fb).length + 5) 10) =
          parseMain cfg c (fuel + blkCost r)
            (stAt [] (acc ++ [Tag.ifT ([IfCase.mk items' (tagsOf cfg c (pre.length + 12 + e.length) tb) (pre.length + 12 + e.length)
                (pre.length + 12 + e.length + (printSegs tb).length)] ++
              [IfCase.mk [] (tagsOf cfg c (pre.length + 12 + e.length + (printSegs tb).length + 8) fb)
                (pre.length + 12 + e.length + (printSegs tb).length + 8)
                (pre.length + 12 + e.length + (printSegs tb).length + 8 + (printSegs fb).length)]) pre.length
              (pre.length + 12 + e.length + (printSegs tb).length + 8 + (printSegs fb).length + 5)]) o2 m2) by
        simp only [parseMain, List.nil_append]
        rw [if_pos (by simp [stAt]), hd10 _ rfl, hclose]
        rfl]
      simp only [List.cons_append, List.nil_append]
      rw [h2]
      have hia : itemsAt cfg c (pre.length + 10) (pre.length + 10 + e.length) = items' := by simp only [itemsAt, hex]
      simp only [tagsOfB, hia, hpl, List.append_assoc, List.singleton_append]

/-- `parse_blks`: the printed block template parses to exactly the implied tags -/
theorem parse_blks (cfg : ScanCfg R) (bs : List Blk) (hok : ∀ b ∈ bs, b.ok)
    (hn : (printBlks bs).length + 16 < 4294967296) :
    parse cfg (printBlks bs) = .ok (tagsOfB cfg (printBlks bs) 0 bs) := by
  obtain ⟨o, m, hnx, _⟩ := next_safe_total (printBlks bs) 0 (Nat.zero_le _)
  have h0 : finderNext (printBlks bs) ({} : PState R) = .ok (stAt [] [] o m) := by
    simp [finderNext, hnx, bind, Except.bind, stAt]
  have hend : next (printBlks bs) (0 + (printBlks bs).length) = .ok ((printBlks bs).length, 0) := by
    rw [Nat.zero_add]
    apply next_plain_end _ _ (Nat.le_refl _)
    intro i h1 h2; omega
  have hcost : ∀ l : List Blk, blkCost l ≤ (printBlks l).length := by
    intro l
    induction l with
    | nil => simp [blkCost]
    | cons b r ih =>
      cases b with
      | segs s => simp only [blkCost, printBlks, printBlk, List.length_append]; have := nTags_le s; omega
      | ifc e body =>
        simp only [blkCost, printBlks, List.length_append, printBlk_if_len]; have := nTags_le body; omega
      | ife e tb fb =>
        simp only [blkCost, printBlks, List.length_append, printBlk_ife_len]
        have := nTags_le tb; have := nTags_le fb; omega
  have hm := parseMain_blks cfg (printBlks bs) hn [] bs [] ([] : List (Tag R))
    (2 * (printBlks bs).length + 4 - blkCost bs) o m _ _ (by simp) hok hnx hend
  have hfu : 2 * (printBlks bs).length + 4 - blkCost bs + blkCost bs = 2 * (printBlks bs).length + 4 := by
    have := hcost bs; omega
  rw [hfu] at hm
  have hlast : parseMain cfg (printBlks bs) (2 * (printBlks bs).length + 4 - blkCost bs)
      (stAt [] ([] ++ tagsOfB cfg (printBlks bs) ([] : List Nat).length bs) (printBlks bs).length 0) =
      .ok (stAt [] ([] ++ tagsOfB cfg (printBlks bs) ([] : List Nat).length bs) (printBlks bs).length 0) := by
    have : 2 * (printBlks bs).length + 4 - blkCost bs = (2 * (printBlks bs).length + 3 - blkCost bs) + 1 := by
      have := hcost bs; omega
    rw [this]
    simp [parseMain, stAt]
  rw [hlast] at hm
  simp only [stAt] at h0 hm
  simp only [parse, h0, bind, Except.bind, hm, cleanup, List.nil_append, List.length_nil]

/-! ### rendering -/

section
variable [RealLike R]

/-- rendering the tags of the segments, then going on with `more` -/
theorem render_segs_more (cx : RCtx R) (cfg : ScanCfg R) (hg : cx.guardIndexRead = true)
    (hrn : cfg.readNum = cx.readNum) (more : List (Tag R)) (endO : Nat) (post : List Nat) :
    ∀ (segs : List Seg) (B txt : List Nat) (st : RState) (fuel : Nat),
      cx.content = B ++ (txt ++ (printSegs segs ++ post)) → (∀ s ∈ segs, s.pathOk cfg.readNum) → (∀ s ∈ segs, s.ok) →
      1 ≤ fuel →
      ∃ (B2 txt2 : List Nat) (st2 : RState), cx.content = B2 ++ (txt2 ++ post) ∧
        (B2 ++ txt2).length = (B ++ txt).length + (printSegs segs).length ∧
        st2.out ++ txt2 = st.out ++ (txt ++ expSegs cx segs) ∧ st2.items = st.items ∧
        render cx (fuel + nTags segs) (tagsOf cfg cx.content (B ++ txt).length segs ++ more) B.length endO st =
          render cx fuel more B2.length endO st2 := by
  intro segs
  induction segs with
  | nil =>
    intro B txt st fuel hc _ _ _
    exact ⟨B, txt, st, by simpa [printSegs] using hc, by simp [printSegs], by simp [expSegs], rfl, by simp [tagsOf, nTags]⟩
  | cons sg rest ih =>
    intro B txt st fuel hc hok hpl hf
    have hokr : ∀ s ∈ rest, s.pathOk cfg.readNum := fun s hs => hok s (List.mem_cons_of_mem _ hs)
    have hplr : ∀ s ∈ rest, s.ok := fun s hs => hpl s (List.mem_cons_of_mem _ hs)
    have hsg := hok sg (List.mem_cons_self ..)
    -- one tag, then the rest
    have htag : ∀ (T : Tag R) (X : List Nat) (w : Nat),
        cx.content = (B ++ txt ++ printSeg sg) ++ ([] ++ (printSegs rest ++ post)) →
        (B ++ txt ++ printSeg sg).length = w →
        renderTag cx (fuel + nTags rest) T B.length st = .ok (emit (emit st txt) X, w) →
        ∃ (B2 txt2 : List Nat) (st2 : RState), cx.content = B2 ++ (txt2 ++ post) ∧
          (B2 ++ txt2).length = (B ++ txt ++ printSeg sg).length + (printSegs rest).length ∧
          st2.out ++ txt2 = st.out ++ (txt ++ (X ++ expSegs cx rest)) ∧ st2.items = st.items ∧
          render cx (fuel + nTags rest + 1) (T :: (tagsOf cfg cx.content w rest ++ more)) B.length endO st =
            render cx fuel more B2.length endO st2 := by
      intro T X w hc' hw hrt
      obtain ⟨B2, txt2, st2, h1, h2, h3, h4, h5⟩ := ih (B ++ txt ++ printSeg sg) [] (emit (emit st txt) X) fuel hc' hokr hplr hf
      refine ⟨B2, txt2, st2, h1, by simpa using h2, ?_, by simpa [emit] using h4, ?_⟩
      · rw [h3]; simp [emit, List.append_assoc]
      · simp only [render, hrt, bind, Except.bind]
        rw [← hw]
        simpa using h5
    cases sg with
    | text s =>
      obtain ⟨B2, txt2, st2, h1, h2, h3, h4, h5⟩ := ih B (txt ++ s) st fuel
        (by rw [hc]; simp [printSegs, printSeg, List.append_assoc]) hokr hplr hf
      refine ⟨B2, txt2, st2, h1, ?_, ?_, h4, ?_⟩
      · rw [h2]; simp [printSegs, printSeg, List.length_append]; omega
      · rw [h3]; simp [expSegs, expSeg, List.append_assoc]
      · simp only [tagsOf, nTags]
        rw [show (B ++ txt).length + s.length = (B ++ (txt ++ s)).length by simp [Nat.add_assoc]]
        exact h5
    | var p =>
      have hv := renderVariable_seg cx hg st B txt p (printSegs rest ++ post)
        (by rw [hc]; simp [printSegs, printSeg, List.append_assoc]) hsg
      have hl : (B ++ txt ++ printSeg (.var p)).length = (B ++ txt).length + 5 + p.length + 1 := by
        simp [printSeg]; omega
      obtain ⟨B2, txt2, st2, h1, h2, h3, h4, h5⟩ := htag (.var ⟨(B ++ txt).length + 5, p.length, 0, 0⟩) (expSeg cx (.var p)) _
        (by rw [hc]; simp [printSegs, List.append_assoc]) hl (by
          rw [show fuel + nTags rest = (fuel - 1 + nTags rest) + 1 by omega]
          simp only [renderTag]; exact hv)
      refine ⟨B2, txt2, st2, h1, ?_, ?_, h4, ?_⟩
      · rw [h2]; simp [printSegs, List.length_append]; omega
      · rw [h3]; simp [expSegs, List.append_assoc]
      · simpa [tagsOf, nTags, Nat.add_assoc] using h5
    | raw p =>
      have hv := renderRawVariable_seg cx hg st B txt p (printSegs rest ++ post)
        (by rw [hc]; simp [printSegs, printSeg, List.append_assoc]) hsg
      have hl : (B ++ txt ++ printSeg (.raw p)).length = (B ++ txt).length + 5 + p.length + 1 := by
        simp [printSeg]; omega
      obtain ⟨B2, txt2, st2, h1, h2, h3, h4, h5⟩ := htag (.raw ⟨(B ++ txt).length + 5, p.length, 0, 0⟩) (expSeg cx (.raw p)) _
        (by rw [hc]; simp [printSegs, List.append_assoc]) hl (by
          rw [show fuel + nTags rest = (fuel - 1 + nTags rest) + 1 by omega]
          simp only [renderTag]; exact hv)
      refine ⟨B2, txt2, st2, h1, ?_, ?_, h4, ?_⟩
      · rw [h2]; simp [printSegs, List.length_append]; omega
      · rw [h3]; simp [expSegs, List.append_assoc]
      · simpa [tagsOf, nTags, Nat.add_assoc] using h5
    | math e =>
      have hv := renderMath_seg cx cfg hg hrn st B txt e (printSegs rest ++ post)
        (by rw [hc]; simp [printSegs, printSeg, List.append_assoc]) (hok _ (List.mem_cons_self ..)) (Seg.scanOk_all _ _)
      have hl : (B ++ txt ++ printSeg (.math e)).length = (B ++ txt).length + 6 + e.length + 1 := by
        simp [printSeg]; omega
      obtain ⟨B2, txt2, st2, h1, h2, h3, h4, h5⟩ := htag
        (.math (itemsAt cfg cx.content ((B ++ txt).length + 6) ((B ++ txt).length + 6 + e.length)) (B ++ txt).length
          ((B ++ txt).length + 6 + e.length + 1)) (expSeg cx (.math e)) _
        (by rw [hc]; simp [printSegs, List.append_assoc]) hl (by
          rw [show fuel + nTags rest = (fuel - 1 + nTags rest) + 1 by omega]
          simp only [renderTag]; exact hv)
      refine ⟨B2, txt2, st2, h1, ?_, ?_, h4, ?_⟩
      · rw [h2]; simp [printSegs, List.length_append]; omega
      · rw [h3]; simp [expSegs, List.append_assoc]
      · simpa [tagsOf, nTags, Nat.add_assoc] using h5


/-- the environment in which the reference interpreter evaluates the text `e` followed by `t` -/
def specEnvT (cx : RCtx R) (e : List Nat) (t : Nat) : Env R :=
  { content := e ++ [t],
    lookup := fun v => ((resolve cx.root [] (((e ++ [t]).drop v.off).take v.len)).1).map (docVarVal (specOf cx)),
    readNum := cx.readNum }

theorem evalText_eqT (cx : RCtx R) (e : List Nat) (t : Nat) (items0 : List (Item R))
    (h0 : Qentem.Expr.parseTop ({ readNum := cx.readNum } : ScanCfg R) (e ++ [t]) 0 e.length = .ok items0) :
    evalText (specOf cx) [] e t =
      if items0.isEmpty then none else Qentem.Expr.evaluateTop (specEnvT cx e t) true items0 := by
  simp only [evalText, specOf, h0]
  cases items0 with
  | nil => rfl
  | cons x xs =>
    have hwf := Qentem.Expr.parseTop_wf ({ readNum := cx.readNum } : ScanCfg R) (e ++ [t]) 0 e.length (by simp)
    rw [h0] at hwf
    rcases hwf with h | h
    · cases h
    · simp only [List.isEmpty_cons, Bool.false_eq_true, if_false]
      exact (Qentem.Expr.evaluateTop_eq_tree _ _ h).symm

/-- the decision of a printed `<if case="e">`: the code's evaluation of the case list equals the
reference `isTrue (evalText e)` -/
theorem case_hit (cx : RCtx R) (cfg : ScanCfg R) (hrn : cfg.readNum = cx.readNum) (st : RState)
    (pre e post : List Nat) (hc : cx.content = pre ++ (IFOPEN ++ e ++ [34, 62] ++ post)) (hp : plainL e) :
    ((itemsAt cfg cx.content (pre.length + 10) (pre.length + 10 + e.length)).isEmpty = true →
      (isTrue (evalText (specOf cx) [] e 34) == some true) = false) ∧
    ((itemsAt cfg cx.content (pre.length + 10) (pre.length + 10 + e.length)).isEmpty = false →
      ∃ v, evalExprs cx st (itemsAt cfg cx.content (pre.length + 10) (pre.length + 10 + e.length)) = .ok v ∧
        (truth v == some true) = (isTrue (evalText (specOf cx) [] e 34) == some true)) := by
  obtain ⟨items0, hitems0⟩ := Qentem.Expr.parseTop_total ({ readNum := cfg.readNum } : ScanCfg R) (e ++ [34]) 0 e.length (by simp)
  obtain ⟨items', hex, hrel⟩ := exprs_case cfg cx.content pre e post hc hp items0 hitems0
  have hreloc := reloc_case cx.content pre e post hc
  have hitems : itemsAt cfg cx.content (pre.length + 10) (pre.length + 10 + e.length) = items' := by
    simp only [itemsAt, hex]
  rw [hitems]
  rw [hrn] at hitems0
  have hspec := evalText_eqT cx e 34 items0 hitems0
  have hemp := hrel.isEmpty
  constructor
  · intro h
    rw [← hemp] at h
    simp only [hspec, h, if_true, isTrue]
    rfl
  · intro h
    rw [← hemp] at h
    simp only [h, Bool.false_eq_true, if_false] at hspec
    have hvars : itemsVars items' = [] := (vars_reloc _).1 _ _ (Nat.le_refl _) hrel
    have hre : ∀ lk, Qentem.Expr.RelEnv (specEnvT cx e 34)
        ({ content := cx.content, lookup := lk, readNum := cx.readNum } : Env R) (pre.length + 10) :=
      fun lk => ⟨rfl, hreloc.slice⟩
    have hlen : (specEnvT cx e 34).content.length = e.length + 1 := by simp [specEnvT]
    have hev := fun lk => Qentem.Expr.evaluateTop_reloc (hre lk) (Qentem.Expr.relLookup_noV _ _) true items0 items' (by rw [hlen]; exact hrel)
    refine ⟨Qentem.Expr.evaluateTop (specEnvT cx e 34) true items0, ?_, ?_⟩
    · simp only [evalExprs, ← hemp, h, Bool.false_eq_true, if_false, hvars, resolveVars, bind, Except.bind,
        (hev _).1]
    · rw [hspec]
      cases hv : Qentem.Expr.evaluateTop (specEnvT cx e 34) true items0 with
      | none => rfl
      | some v => cases v <;> rfl


theorem RState.ext' (a b : RState) (h1 : a.out = b.out) (h2 : a.items = b.items) : a = b := by
  cases a; cases b; simp only [RState.mk.injEq]; exact ⟨h1, h2⟩

/-- rendering the tags of the segments up to the end of the segments -/
theorem render_segs_end (cx : RCtx R) (cfg : ScanCfg R) (hg : cx.guardIndexRead = true)
    (hrn : cfg.readNum = cx.readNum) (post : List Nat) (segs : List Seg) (B txt : List Nat) (st : RState)
    (fuel : Nat) (hc : cx.content = B ++ (txt ++ (printSegs segs ++ post))) (hok : ∀ s ∈ segs, s.pathOk cfg.readNum)
    (hpl : ∀ s ∈ segs, s.ok) (hf : 1 ≤ fuel) :
    render cx (fuel + nTags segs) (tagsOf cfg cx.content (B ++ txt).length segs) B.length
      ((B ++ txt).length + (printSegs segs).length) st = .ok (emit st (txt ++ expSegs cx segs)) := by
  obtain ⟨B2, txt2, st2, h1, h2, h3, h4, h5⟩ := render_segs_more cx cfg hg hrn [] ((B ++ txt).length + (printSegs segs).length)
    post segs B txt st fuel hc hok hpl hf
  rw [List.append_nil] at h5
  rw [h5]
  cases fuel with
  | zero => omega
  | succ f =>
    have hsl : slice cx.content B2.length ((B ++ txt).length + (printSegs segs).length) = .ok txt2 := by
      rw [← h2, h1]; exact slice_from B2 txt2 post
    simp only [render, hsl, bind, Except.bind]
    congr 1
    apply RState.ext'
    · simp only [emit]; exact h3
    · simp only [emit]; exact h4

/-- what the document says a block prints -/
def expBlk (cx : RCtx R) : Blk → List Nat
  | .segs l => expSegs cx l
  | .ifc e b => if (isTrue (evalText (specOf cx) [] e 34) == some true) = true then expSegs cx b else []
  | .ife e t f => if (isTrue (evalText (specOf cx) [] e 34) == some true) = true then expSegs cx t else expSegs cx f

def expBlks (cx : RCtx R) : List Blk → List Nat
  | [] => []
  | b :: r => expBlk cx b ++ expBlks cx r

def Blk.pathOk (rn : List Nat → Option (Num R)) : Blk → Prop
  | .segs l => ∀ s ∈ l, s.pathOk rn
  | .ifc _ b => ∀ s ∈ b, s.pathOk rn
  | .ife _ t f => (∀ s ∈ t, s.pathOk rn) ∧ ∀ s ∈ f, s.pathOk rn

/-- rendering the `If` tag of a printed `<if case="e">body</if>` -/
theorem renderIf_blk (cx : RCtx R) (cfg : ScanCfg R) (hg : cx.guardIndexRead = true)
    (hrn : cfg.readNum = cx.readNum) (st : RState) (B txt e : List Nat) (body : List Seg) (post : List Nat)
    (hc : cx.content = B ++ (txt ++ (printBlk (.ifc e body) ++ post)))
    (hok : Blk.ok (.ifc e body)) (hpath : ∀ s ∈ body, s.pathOk cfg.readNum) (fuel : Nat) (hf : nTags body + 3 ≤ fuel) :
    renderTag cx (fuel + 1)
      (Tag.ifT [IfCase.mk (itemsAt cfg cx.content ((B ++ txt).length + 10) ((B ++ txt).length + 10 + e.length))
          (tagsOf cfg cx.content ((B ++ txt).length + 12 + e.length) body) ((B ++ txt).length + 12 + e.length)
          ((B ++ txt).length + 12 + e.length + (printSegs body).length)] (B ++ txt).length
        ((B ++ txt).length + 12 + e.length + (printSegs body).length + 5)) B.length st =
      .ok (emit (emit st txt) (expBlk cx (.ifc e body)),
        (B ++ txt).length + 12 + e.length + (printSegs body).length + 5) := by
  obtain ⟨hpe, hq34, hbody⟩ := hok
  have hc1 : cx.content = (B ++ txt) ++ (IFOPEN ++ e ++ [34, 62] ++ (printSegs body ++ IFEND ++ post)) := by
    rw [hc]; simp [printBlk, List.append_assoc]
  obtain ⟨hh1, hh2⟩ := case_hit cx cfg hrn (emit st txt) (B ++ txt) e _ hc1 hpe
  have hsl : slice cx.content B.length (B ++ txt).length = .ok txt := by rw [hc]; exact slice_from B txt _
  have hemit0 : emit (emit st txt) [] = emit st txt := by
    apply RState.ext' <;> simp [emit]
  simp only [renderTag, hsl, bind, Except.bind]
  cases hie : (itemsAt cfg cx.content ((B ++ txt).length + 10) ((B ++ txt).length + 10 + e.length)).isEmpty with
  | true =>
    simp only [if_true, expBlk, hh1 hie, Bool.false_eq_true, if_false, hemit0]
  | false =>
    obtain ⟨v, hv, hvt⟩ := hh2 hie
    simp only [Bool.false_eq_true, if_false]
    cases fuel with
    | zero => omega
    | succ f =>
      simp only [ifCases, hie, Bool.false_eq_true, if_false, hv, bind, Except.bind, pure, Except.pure, hvt, expBlk]
      cases hhit : (isTrue (evalText (specOf cx) [] e 34) == some true) with
      | true =>
        simp only [if_true]
        have hc2 : cx.content = (B ++ txt ++ (IFOPEN ++ e ++ [34, 62])) ++ ([] ++ (printSegs body ++ (IFEND ++ post))) := by
          rw [hc1]; simp [List.append_assoc]
        have hl2 : (B ++ txt ++ (IFOPEN ++ e ++ [34, 62]) ++ ([] : List Nat)).length = (B ++ txt).length + 12 + e.length := by
          simp [IFOPEN]; omega
        have hl2' : (B ++ txt ++ (IFOPEN ++ e ++ [34, 62])).length = (B ++ txt).length + 12 + e.length := by
          simp [IFOPEN]; omega
        have := render_segs_end cx cfg hg hrn (IFEND ++ post) body (B ++ txt ++ (IFOPEN ++ e ++ [34, 62])) []
          (emit st txt) (f - nTags body) hc2 hpath hbody (by omega)
        rw [hl2, hl2', show f - nTags body + nTags body = f by omega] at this
        rw [this]
        simp [List.nil_append]
      | false =>
        simp only [Bool.false_eq_true, if_false]
        cases f with
        | zero => omega
        | succ f2 => simp only [ifCases, hemit0]


theorem case_nonempty (cx : RCtx R) (cfg : ScanCfg R) (pre e post : List Nat) (t f : List Seg)
    (hc : cx.content = pre ++ (IFOPEN ++ e ++ [34, 62] ++ post)) (hp : plainL e)
    (hco : Blk.caseOk cfg.readNum (.ife e t f)) :
    (itemsAt cfg cx.content (pre.length + 10) (pre.length + 10 + e.length)).isEmpty = false := by
  obtain ⟨items0, hitems0⟩ := Qentem.Expr.parseTop_total ({ readNum := cfg.readNum } : ScanCfg R) (e ++ [34]) 0 e.length (by simp)
  obtain ⟨items', hex, hrel⟩ := exprs_case cfg cx.content pre e post hc hp items0 hitems0
  have hne := hco items0 hitems0
  have : itemsAt cfg cx.content (pre.length + 10) (pre.length + 10 + e.length) = items' := by simp only [itemsAt, hex]
  rw [this, ← hrel.isEmpty]
  cases items0 with
  | nil => exact absurd rfl hne
  | cons x xs => rfl

/-- rendering the `If` tag of a printed `<if case="e">then<else />else</if>` -/
theorem renderIfe_blk (cx : RCtx R) (cfg : ScanCfg R) (hg : cx.guardIndexRead = true)
    (hrn : cfg.readNum = cx.readNum) (st : RState) (B txt e : List Nat) (tb fb : List Seg) (post : List Nat)
    (hc : cx.content = B ++ (txt ++ (printBlk (.ife e tb fb) ++ post)))
    (hok : Blk.ok (.ife e tb fb)) (hco : Blk.caseOk cfg.readNum (.ife e tb fb))
    (hpath : Blk.pathOk cfg.readNum (.ife e tb fb)) (fuel : Nat) (hf : nTags tb + nTags fb + 4 ≤ fuel) :
    renderTag cx (fuel + 1)
      (Tag.ifT [IfCase.mk (itemsAt cfg cx.content ((B ++ txt).length + 10) ((B ++ txt).length + 10 + e.length))
          (tagsOf cfg cx.content ((B ++ txt).length + 12 + e.length) tb) ((B ++ txt).length + 12 + e.length)
          ((B ++ txt).length + 12 + e.length + (printSegs tb).length),
        IfCase.mk [] (tagsOf cfg cx.content ((B ++ txt).length + 12 + e.length + (printSegs tb).length + 8) fb)
          ((B ++ txt).length + 12 + e.length + (printSegs tb).length + 8)
          ((B ++ txt).length + 12 + e.length + (printSegs tb).length + 8 + (printSegs fb).length)] (B ++ txt).length
        ((B ++ txt).length + 12 + e.length + (printSegs tb).length + 8 + (printSegs fb).length + 5)) B.length st =
      .ok (emit (emit st txt) (expBlk cx (.ife e tb fb)),
        (B ++ txt).length + 12 + e.length + (printSegs tb).length + 8 + (printSegs fb).length + 5) := by
  obtain ⟨hpe, hq34, htb, hfb⟩ := hok
  obtain ⟨hpt, hpf⟩ := hpath
  have hc1 : cx.content = (B ++ txt) ++ (IFOPEN ++ e ++ [34, 62] ++ (printSegs tb ++ ELSE ++ printSegs fb ++ IFEND ++ post)) := by
    rw [hc]; simp [printBlk, List.append_assoc]
  obtain ⟨_, hh2⟩ := case_hit cx cfg hrn (emit st txt) (B ++ txt) e _ hc1 hpe
  have hie := case_nonempty cx cfg (B ++ txt) e _ tb fb hc1 hpe hco
  have hsl : slice cx.content B.length (B ++ txt).length = .ok txt := by rw [hc]; exact slice_from B txt _
  obtain ⟨v, hv, hvt⟩ := hh2 hie
  simp only [renderTag, hsl, bind, Except.bind, hie, Bool.false_eq_true, if_false]
  have hl2' : (B ++ txt ++ (IFOPEN ++ e ++ [34, 62])).length = (B ++ txt).length + 12 + e.length := by
    simp [IFOPEN]; omega
  obtain ⟨f, rfl⟩ : ∃ f, fuel = f + 2 := ⟨fuel - 2, by omega⟩
  simp only [ifCases, hie, Bool.false_eq_true, if_false, hv, bind, Except.bind, pure, Except.pure, hvt, expBlk]
  cases hhit : (isTrue (evalText (specOf cx) [] e 34) == some true) with
  | true =>
    simp only [if_true]
    have hc2 : cx.content = (B ++ txt ++ (IFOPEN ++ e ++ [34, 62])) ++ ([] ++ (printSegs tb ++ (ELSE ++ printSegs fb ++ IFEND ++ post))) := by
      rw [hc1]; simp [List.append_assoc]
    have hl2 : (B ++ txt ++ (IFOPEN ++ e ++ [34, 62]) ++ ([] : List Nat)).length = (B ++ txt).length + 12 + e.length := by
      rw [List.append_nil]; exact hl2'
    have := render_segs_end cx cfg hg hrn (ELSE ++ printSegs fb ++ IFEND ++ post) tb (B ++ txt ++ (IFOPEN ++ e ++ [34, 62])) []
      (emit st txt) (f + 1 - nTags tb) hc2 hpt htb (by omega)
    rw [hl2, hl2', show f + 1 - nTags tb + nTags tb = f + 1 by omega] at this
    rw [this]
    simp [List.nil_append]
  | false =>
    simp only [Bool.false_eq_true, if_false, List.isEmpty_nil, if_true]
    have hc3 : cx.content = (B ++ txt ++ (IFOPEN ++ e ++ [34, 62]) ++ printSegs tb ++ ELSE) ++ ([] ++ (printSegs fb ++ (IFEND ++ post))) := by
      rw [hc1]; simp [List.append_assoc]
    have hl3' : (B ++ txt ++ (IFOPEN ++ e ++ [34, 62]) ++ printSegs tb ++ ELSE).length =
        (B ++ txt).length + 12 + e.length + (printSegs tb).length + 8 := by
      rw [List.length_append, List.length_append, hl2']; simp [ELSE]
    have hl3 : (B ++ txt ++ (IFOPEN ++ e ++ [34, 62]) ++ printSegs tb ++ ELSE ++ ([] : List Nat)).length =
        (B ++ txt).length + 12 + e.length + (printSegs tb).length + 8 := by
      rw [List.append_nil]; exact hl3'
    have := render_segs_end cx cfg hg hrn (IFEND ++ post) fb (B ++ txt ++ (IFOPEN ++ e ++ [34, 62]) ++ printSegs tb ++ ELSE) []
      (emit st txt) (f - nTags fb) hc3 hpf hfb (by omega)
    rw [hl3, hl3', show f - nTags fb + nTags fb = f by omega] at this
    rw [this]
    simp [List.nil_append]

/-- number of top-level tags / fuel the nested renders need -/
def rcost : List Blk → Nat
  | [] => 0
  | .segs l :: r => nTags l + rcost r
  | .ifc _ _ :: r => 1 + rcost r
  | .ife _ _ _ :: r => 1 + rcost r

def rneed : List Blk → Nat
  | [] => 1
  | .segs _ :: r => rneed r
  | .ifc _ b :: r => nTags b + 4 + rneed r
  | .ife _ t f :: r => nTags t + nTags f + 5 + rneed r

theorem rneed_pos (bs : List Blk) : 1 ≤ rneed bs := by
  induction bs with
  | nil => simp [rneed]
  | cons b r ih => cases b <;> simp [rneed] <;> omega

theorem render_blks (cx : RCtx R) (cfg : ScanCfg R) (hg : cx.guardIndexRead = true)
    (hrn : cfg.readNum = cx.readNum) (more : List (Tag R)) (endO : Nat) (post : List Nat) :
    ∀ (bs : List Blk) (B txt : List Nat) (st : RState) (fuel : Nat),
      cx.content = B ++ (txt ++ (printBlks bs ++ post)) → (∀ b ∈ bs, b.ok) → (∀ b ∈ bs, b.pathOk cfg.readNum) →
      (∀ b ∈ bs, b.caseOk cfg.readNum) → rneed bs ≤ fuel →
      ∃ (B2 txt2 : List Nat) (st2 : RState), cx.content = B2 ++ (txt2 ++ post) ∧
        (B2 ++ txt2).length = (B ++ txt).length + (printBlks bs).length ∧
        st2.out ++ txt2 = st.out ++ (txt ++ expBlks cx bs) ∧ st2.items = st.items ∧
        render cx (fuel + rcost bs) (tagsOfB cfg cx.content (B ++ txt).length bs ++ more) B.length endO st =
          render cx fuel more B2.length endO st2 := by
  intro bs
  induction bs with
  | nil =>
    intro B txt st fuel hc _ _ _ _
    exact ⟨B, txt, st, by simpa [printBlks] using hc, by simp [printBlks], by simp [expBlks], rfl,
      by simp [tagsOfB, rcost]⟩
  | cons b r ih =>
    intro B txt st fuel hc hok hpath hcase hf
    have hcaser : ∀ b ∈ r, b.caseOk cfg.readNum := fun x hx => hcase x (List.mem_cons_of_mem _ hx)
    have hokr : ∀ b ∈ r, b.ok := fun x hx => hok x (List.mem_cons_of_mem _ hx)
    have hpathr : ∀ b ∈ r, b.pathOk cfg.readNum := fun x hx => hpath x (List.mem_cons_of_mem _ hx)
    have hb := hok b (List.mem_cons_self ..)
    have hbp := hpath b (List.mem_cons_self ..)
    cases b with
    | segs l =>
      simp only [Blk.ok] at hb
      simp only [Blk.pathOk] at hbp
      simp only [rneed] at hf
      obtain ⟨B1, txt1, st1, g1, g2, g3, g4, g5⟩ := render_segs_more cx cfg hg hrn
        (tagsOfB cfg cx.content ((B ++ txt).length + (printSegs l).length) r ++ more) endO (printBlks r ++ post)
        l B txt st (fuel + rcost r) (by rw [hc]; simp [printBlks, printBlk, List.append_assoc]) hbp hb
        (by have := rneed_pos r; omega)
      obtain ⟨B2, txt2, st2, h1, h2, h3, h4, h5⟩ := ih B1 txt1 st1 fuel g1 hokr hpathr hcaser hf
      refine ⟨B2, txt2, st2, h1, ?_, ?_, by rw [h4, g4], ?_⟩
      · rw [h2, g2]; simp [printBlks, printBlk, List.length_append]; omega
      · rw [h3, ← List.append_assoc, g3]; simp [expBlks, expBlk, List.append_assoc]
      · simp only [tagsOfB, rcost, List.append_assoc]
        rw [show fuel + (nTags l + rcost r) = fuel + rcost r + nTags l by omega, g5, ← g2, h5]
    | ifc e body =>
      simp only [Blk.pathOk] at hbp
      simp only [rneed] at hf
      have hlenb := printBlk_if_len e body
      have hrt := renderIf_blk cx cfg hg hrn st B txt e body (printBlks r ++ post)
        (by rw [hc]; simp [printBlks, List.append_assoc]) hb hbp (fuel + rcost r - 1) (by have := rneed_pos r; omega)
      rw [show fuel + rcost r - 1 + 1 = fuel + rcost r by have := rneed_pos r; omega] at hrt
      obtain ⟨B2, txt2, st2, h1, h2, h3, h4, h5⟩ := ih (B ++ txt ++ printBlk (.ifc e body)) []
        (emit (emit st txt) (expBlk cx (.ifc e body))) fuel
        (by rw [hc]; simp [printBlks, List.append_assoc]) hokr hpathr hcaser (by omega)
      have hl : (B ++ txt ++ printBlk (.ifc e body) ++ ([] : List Nat)).length =
          (B ++ txt).length + 12 + e.length + (printSegs body).length + 5 := by
        rw [List.append_nil, List.length_append, hlenb]; omega
      have hl' : (B ++ txt ++ printBlk (.ifc e body)).length =
          (B ++ txt).length + 12 + e.length + (printSegs body).length + 5 := by
        simpa using hl
      refine ⟨B2, txt2, st2, h1, ?_, ?_, by simpa [emit] using h4, ?_⟩
      · rw [h2, hl]; simp only [printBlks, List.length_append, hlenb]; omega
      · rw [h3]; simp [emit, expBlks, List.append_assoc]
      · simp only [tagsOfB, rcost, List.cons_append]
        rw [show fuel + (1 + rcost r) = fuel + rcost r + 1 by omega]
        simp only [render, hrt, bind, Except.bind]
        rw [hl, hl'] at h5
        exact h5
    | ife e tb fb =>
      simp only [rneed] at hf
      have hlenb := printBlk_ife_len e tb fb
      have hrt := renderIfe_blk cx cfg hg hrn st B txt e tb fb (printBlks r ++ post)
        (by rw [hc]; simp [printBlks, List.append_assoc]) hb (hcase _ (List.mem_cons_self ..)) hbp
        (fuel + rcost r - 1) (by have := rneed_pos r; omega)
      rw [show fuel + rcost r - 1 + 1 = fuel + rcost r by have := rneed_pos r; omega] at hrt
      obtain ⟨B2, txt2, st2, h1, h2, h3, h4, h5⟩ := ih (B ++ txt ++ printBlk (.ife e tb fb)) []
        (emit (emit st txt) (expBlk cx (.ife e tb fb))) fuel
        (by rw [hc]; simp [printBlks, List.append_assoc]) hokr hpathr hcaser (by omega)
      have hl : (B ++ txt ++ printBlk (.ife e tb fb) ++ ([] : List Nat)).length =
          (B ++ txt).length + 12 + e.length + (printSegs tb).length + 8 + (printSegs fb).length + 5 := by
        rw [List.append_nil, List.length_append, hlenb]; omega
      have hl' : (B ++ txt ++ printBlk (.ife e tb fb)).length =
          (B ++ txt).length + 12 + e.length + (printSegs tb).length + 8 + (printSegs fb).length + 5 := by
        simpa using hl
      refine ⟨B2, txt2, st2, h1, ?_, ?_, by simpa [emit] using h4, ?_⟩
      · rw [h2, hl]; simp only [printBlks, List.length_append, hlenb]; omega
      · rw [h3]; simp [emit, expBlks, List.append_assoc]
      · simp only [tagsOfB, rcost, List.cons_append]
        rw [show fuel + (1 + rcost r) = fuel + rcost r + 1 by omega]
        simp only [render, hrt, bind, Except.bind]
        rw [hl, hl'] at h5
        exact h5

/-- rendering the implied tags of a block template prints the documented expansion -/
theorem renderTop_blks (cx : RCtx R) (cfg : ScanCfg R) (hg : cx.guardIndexRead = true)
    (hrn : cfg.readNum = cx.readNum) (bs : List Blk) (hc : cx.content = printBlks bs)
    (hok : ∀ b ∈ bs, b.ok) (hpath : ∀ b ∈ bs, b.pathOk cfg.readNum) (hcase : ∀ b ∈ bs, b.caseOk cfg.readNum)
    (fuel : Nat) (hf : rneed bs ≤ fuel) :
    renderTop cx (tagsOfB cfg cx.content 0 bs) (fuel + rcost bs) = .ok (expBlks cx bs) := by
  obtain ⟨B2, txt2, st2, h1, h2, h3, h4, h5⟩ := render_blks cx cfg hg hrn [] cx.content.length [] bs [] [] {} fuel
    (by simpa using hc) hok hpath hcase hf
  simp only [List.append_nil, List.length_nil] at h5 h2 h1
  simp only [renderTop, h5, bind, Except.bind]
  have hfp := rneed_pos bs
  cases fuel with
  | zero => omega
  | succ f =>
    have hsl : slice cx.content B2.length cx.content.length = .ok txt2 := by
      have := slice_from B2 txt2 []
      rw [h1]; simpa using this
    simp only [render, hsl, bind, Except.bind, emit]
    rw [h3]; simp


/-! ### the reference interpreter on block templates -/

theorem expandList_nil (sx : SpecCtx R) (f : Nat) (sc : List Binding) : expandList sx f sc [] = [] := by
  cases f <;> simp [expandList]

theorem expandTpl_seg (cx : RCtx R) (sg : Seg) (f : Nat) (hf : 1 ≤ f) :
    expandTpl (specOf cx) f [] sg.toTpl = expSeg cx sg := by
  have h := expandList_segs cx (specOf cx) ⟨rfl, rfl, rfl, rfl, rfl, rfl⟩ [sg] (f + 1) (by simp; omega)
  simp only [segsTpl, expandList, expandList_nil, expSegs, List.append_nil] at h
  exact h

theorem expandList_segs_app (cx : RCtx R) : ∀ (l : List Seg) (rest : List Tpl) (fuel : Nat),
    l.length + 1 ≤ fuel →
    expandList (specOf cx) fuel [] (segsTpl l ++ rest) = expSegs cx l ++ expandList (specOf cx) (fuel - l.length) [] rest := by
  intro l
  induction l with
  | nil => intro rest fuel _; simp [segsTpl, expSegs]
  | cons sg l ih =>
    intro rest fuel hf
    cases fuel with
    | zero => omega
    | succ f =>
      simp only [segsTpl, List.cons_append, expandList, expSegs, List.length_cons]
      rw [expandTpl_seg cx sg f (by simp at hf; omega), ih rest f (by simp at hf; omega)]
      rw [show f + 1 - (l.length + 1) = f - l.length by omega]
      simp [List.append_assoc]

def eneed : List Blk → Nat
  | [] => 1
  | .segs l :: r => l.length + eneed r
  | .ifc _ b :: r => b.length + 4 + eneed r
  | .ife _ t f :: r => t.length + f.length + 5 + eneed r

theorem eneed_pos (bs : List Blk) : 1 ≤ eneed bs := by
  induction bs with
  | nil => simp [eneed]
  | cons b r ih => cases b <;> simp [eneed] <;> omega

theorem expandList_blks (cx : RCtx R) : ∀ (bs : List Blk) (fuel : Nat), eneed bs ≤ fuel →
    expandList (specOf cx) fuel [] (blksTpl bs) = expBlks cx bs := by
  intro bs
  induction bs with
  | nil => intro fuel _; simp [blksTpl, expBlks, expandList_nil]
  | cons b r ih =>
    intro fuel hf
    have hp := eneed_pos r
    cases b with
    | segs l =>
      simp only [eneed] at hf
      simp only [blksTpl, Blk.toTpls, expBlks, expBlk]
      rw [expandList_segs_app cx l _ fuel (by omega), ih _ (by omega)]
    | ifc e body =>
      simp only [eneed] at hf
      simp only [blksTpl, Blk.toTpls, expBlks, expBlk, List.cons_append, List.nil_append]
      obtain ⟨f, rfl⟩ : ∃ f, fuel = f + 3 := ⟨fuel - 3, by omega⟩
      simp only [expandList, expandTpl, expandBranches]
      rw [ih (f + 2) (by omega)]
      congr 1
      have h1 := expandList_segs cx (specOf cx) ⟨rfl, rfl, rfl, rfl, rfl, rfl⟩ body f (by omega)
      have h2 : expandBranches (specOf cx) f [] [] = [] := by cases f <;> simp [expandBranches]
      rw [h1, h2]
    | ife e tb fb =>
      simp only [eneed] at hf
      simp only [blksTpl, Blk.toTpls, expBlks, expBlk, List.cons_append, List.nil_append]
      obtain ⟨f, rfl⟩ : ∃ f, fuel = f + 4 := ⟨fuel - 4, by omega⟩
      simp only [expandList, expandTpl, expandBranches, if_true]
      rw [ih (f + 3) (by omega)]
      congr 1
      have h1 := expandList_segs cx (specOf cx) ⟨rfl, rfl, rfl, rfl, rfl, rfl⟩ tb (f + 1) (by omega)
      have h2 := expandList_segs cx (specOf cx) ⟨rfl, rfl, rfl, rfl, rfl, rfl⟩ fb f (by omega)
      rw [h1, h2]

end

end Qentem.Tmpl
