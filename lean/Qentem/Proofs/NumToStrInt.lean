import Qentem.Model.NumToStr
import Qentem.Model.FmtSpec
import Mathlib.Data.Nat.Digits.Defs
import Mathlib.Tactic.Ring
/-! Helper lemmas for C10: the integer path of `Digit::NumberToString` prints `Nat.toDigits 10`,
and `bigIntToString` appends the reversed decimal digits of its argument. -/
namespace Qentem.Proofs.NumToStr
open Qentem.NumToStr Qentem.Generated.NumToStr Qentem

/-- ASCII decimal digits, most significant first — the reference the integer path is proved against -/
abbrev D (n : Nat) : List Nat := FmtSpec.digitsOf n

theorem digitChar_toNat : ∀ d, d < 10 → (Nat.digitChar d).toNat = 48 + d := by decide

theorem D_lt10 {n : Nat} (h : n < 10) : D n = [48 + n] := by
  simp [D, FmtSpec.digitsOf, Nat.toDigits_of_lt_base h, digitChar_toNat n h]

theorem D_step {n : Nat} (h : 10 ≤ n) : D n = D (n / 10) ++ [48 + n % 10] := by
  simp [D, FmtSpec.digitsOf, Nat.toDigits_of_base_le (by decide : 1 < 10) h, digitChar_toNat (n % 10) (Nat.mod_lt _ (by decide))]

theorem D_step2 {n : Nat} (h : 100 ≤ n) : D n = D (n / 100) ++ [48 + (n / 10) % 10, 48 + n % 10] := by
  rw [D_step (by omega : 10 ≤ n), D_step (by omega : 10 ≤ n / 10), Nat.div_div_eq_div_mul]
  simp

theorem D_two {n : Nat} (h1 : 10 ≤ n) (h2 : n < 100) : D n = [48 + n / 10, 48 + n % 10] := by
  rw [D_step h1, D_lt10 (by omega : n / 10 < 10)]
  simp

theorem tbl1_ok : ∀ m, m < 100 → tbl digitTable1 (2 * m) = .ok (48 + m / 10) ∧ tbl digitTable1 (2 * m + 1) = .ok (48 + m % 10) := by
  decide +kernel

theorem tbl2_ok : ∀ m, m < 10 → tbl digitTable2 m = .ok (48 + m) := by decide +kernel

theorem intFwdLoop_eq (k : Nat) : ∀ n acc, n < 10 * 100 ^ k →
    intFwdLoop (k + 1) n acc = .ok (if n ≠ 0 ∨ acc = [] then D n ++ acc else acc) := by
  induction k with
  | zero =>
    intro n acc h
    have h10 : n < 10 := by simpa using h
    simp only [intFwdLoop, show ¬ (10 ≤ n) by omega, if_false]
    split
    · simp [tbl2_ok n h10, D_lt10 h10, bind, Except.bind, pure, Except.pure]
    · rfl
  | succ k ih =>
    intro n acc h
    rw [intFwdLoop]
    by_cases h10 : 10 ≤ n
    · have hm : n % 100 < 100 := Nat.mod_lt _ (by decide)
      obtain ⟨e0, e1⟩ := tbl1_ok (n % 100) hm
      have hq : n / 100 < 10 * 100 ^ k := by
        rw [Nat.div_lt_iff_lt_mul (by decide)]; rw [Nat.pow_succ] at h; omega
      simp only [h10, if_true, Nat.mul_comm (n % 100) 2, e0, e1, bind, Except.bind]
      rw [ih _ _ hq]
      simp only [show n ≠ 0 by omega, ne_eq, not_false_eq_true, true_or, if_true]
      by_cases hz : n / 100 = 0
      · have : n < 100 := by omega
        simp [hz, D_two h10 this]
        omega
      · have : 100 ≤ n := by omega
        simp [hz, D_step2 this]
        omega
    · have h10' : n < 10 := by omega
      simp only [h10, if_false]
      split
      · simp [tbl2_ok n h10', D_lt10 h10', bind, Except.bind, pure, Except.pure]
      · rfl


theorem intRevLoop_eq (k : Nat) : ∀ n acc, n < 10 * 100 ^ k →
    intRevLoop (k + 1) n acc = .ok (if n ≠ 0 ∨ acc = [] then acc ++ (D n).reverse else acc) := by
  induction k with
  | zero =>
    intro n acc h
    have h10 : n < 10 := by simpa using h
    simp only [intRevLoop, show ¬ (10 ≤ n) by omega, if_false]
    split
    · simp [tbl2_ok n h10, D_lt10 h10, bind, Except.bind, pure, Except.pure]
    · rfl
  | succ k ih =>
    intro n acc h
    rw [intRevLoop]
    by_cases h10 : 10 ≤ n
    · have hm : n % 100 < 100 := Nat.mod_lt _ (by decide)
      obtain ⟨e0, e1⟩ := tbl1_ok (n % 100) hm
      have hq : n / 100 < 10 * 100 ^ k := by
        rw [Nat.div_lt_iff_lt_mul (by decide)]; rw [Nat.pow_succ] at h; omega
      simp only [h10, if_true, Nat.mul_comm (n % 100) 2, e0, e1, bind, Except.bind]
      rw [ih _ _ hq]
      simp only [show n ≠ 0 by omega, ne_eq, not_false_eq_true, true_or, if_true]
      by_cases hz : n / 100 = 0
      · have : n < 100 := by omega
        simp [hz, D_two h10 this]
        omega
      · have : 100 ≤ n := by omega
        simp [hz, D_step2 this]
        omega
    · have h10' : n < 10 := by omega
      simp only [h10, if_false]
      split
      · simp [tbl2_ok n h10', D_lt10 h10', bind, Except.bind, pure, Except.pure]
      · rfl

theorem D_length_le (n e : Nat) (he : 0 < e) (h : n < 10 ^ e) : (D n).length ≤ e := by
  simpa [D, FmtSpec.digitsOf] using Nat.toDigits_length 10 n e he h

theorem D_ne_nil (n : Nat) : D n ≠ [] := by
  unfold D FmtSpec.digitsOf
  rw [Nat.toDigits_eq_if (by decide : 1 < 10)]
  split <;> simp

/-- the four integer widths of the property -/
def IsWidth (bytes : Nat) : Prop := bytes = 1 ∨ bytes = 2 ∨ bytes = 4 ∨ bytes = 8

theorem pow_le_maxDigits {bytes : Nat} (hb : IsWidth bytes) : 2 ^ (8 * bytes) ≤ 10 ^ maxDigitsOf bytes ∧ 0 < maxDigitsOf bytes ∧
    2 ^ (8 * bytes) < 10 * 100 ^ 39 := by
  rcases hb with rfl | rfl | rfl | rfl <;> decide

theorem intFwd_eq {bytes n : Nat} (hb : IsWidth bytes) (h : n < 2 ^ (8 * bytes)) : intFwd bytes n = .ok (D n) := by
  obtain ⟨h1, h2, h3⟩ := pow_le_maxDigits hb
  have hl : (D n).length ≤ maxDigitsOf bytes := D_length_le n _ h2 (by omega)
  simp [intFwd, intFuel, intFwdLoop_eq 39 n [] (by omega), hl, bind, Except.bind, pure, Except.pure]

theorem intRev_eq {bytes n : Nat} (hb : IsWidth bytes) (h : n < 2 ^ (8 * bytes)) : intRev bytes n = .ok (D n).reverse := by
  obtain ⟨h1, h2, h3⟩ := pow_le_maxDigits hb
  have hl : (D n).length ≤ maxDigitsOf bytes := D_length_le n _ h2 (by omega)
  simp [intRev, intFuel, intRevLoop_eq 39 n [] (by omega), hl, bind, Except.bind, pure, Except.pure]

/-- unsigned: the text appended is exactly the decimal digits -/
theorem intToString_unsigned {bytes n : Nat} (pre : List Nat) (hb : IsWidth bytes) (h : n < 2 ^ (8 * bytes)) :
    intToString pre bytes false n = .ok (pre ++ D n) := by
  simp [intToString, intFwd_eq hb h, bind, Except.bind, pure, Except.pure]

/-- signed: `v` in the two's-complement range of the width, `raw` its bit pattern -/
theorem signed_aux (bytes : Nat) (hb : IsWidth bytes) (v : Int)
    (hlo : -(2 ^ (8 * bytes - 1) : Int) ≤ v) (hhi : v < (2 ^ (8 * bytes - 1) : Int)) :
    (v < 0 → 2 ^ (8 * bytes - 1) ≤ (v % (2 ^ (8 * bytes) : Int)).toNat ∧
        (2 ^ (8 * bytes) - (v % (2 ^ (8 * bytes) : Int)).toNat) % 2 ^ (8 * bytes) = v.natAbs ∧ v.natAbs < 2 ^ (8 * bytes)) ∧
    (0 ≤ v → (v % (2 ^ (8 * bytes) : Int)).toNat < 2 ^ (8 * bytes - 1) ∧ (v % (2 ^ (8 * bytes) : Int)).toNat = v.natAbs ∧
        v.natAbs < 2 ^ (8 * bytes)) := by
  rcases hb with rfl | rfl | rfl | rfl <;> norm_num at hlo hhi ⊢ <;> omega

theorem intToString_signed {bytes : Nat} (pre : List Nat) (hb : IsWidth bytes) (v : Int)
    (hlo : -(2 ^ (8 * bytes - 1) : Int) ≤ v) (hhi : v < (2 ^ (8 * bytes - 1) : Int)) :
    intToString pre bytes true ((v % (2 ^ (8 * bytes) : Int)).toNat) =
      .ok (pre ++ (if v < 0 then [45] else []) ++ D v.natAbs) := by
  obtain ⟨hn, hp⟩ := signed_aux bytes hb v hlo hhi
  by_cases hv : v < 0
  · obtain ⟨h1, h2, h3⟩ := hn hv
    simp [intToString, h1, h2, intFwd_eq hb h3, hv, bind, Except.bind, pure, Except.pure, Ch.negative]
  · obtain ⟨h1, h2, h3⟩ := hp (by omega)
    rw [h2] at h1
    have : ¬ (2 ^ (8 * bytes - 1) ≤ v.natAbs) := by omega
    simp [intToString, this, h2, intFwd_eq hb h3, hv, bind, Except.bind, pure, Except.pure]

/-! ### `bigIntToString` = reversed decimal digits -/

/-- exactly `k` digits of `r`, most significant first, with leading zeros -/
def Dk : Nat → Nat → List Nat
  | 0, _ => []
  | k + 1, r => Dk k (r / 10) ++ [48 + r % 10]

theorem Dk_zero (k : Nat) : Dk k 0 = List.replicate k 48 := by
  induction k with
  | zero => rfl
  | succ k ih => simp [Dk, ih, List.replicate_succ']

theorem Dk_length (k r : Nat) : (Dk k r).length = k := by
  induction k generalizing r with
  | zero => rfl
  | succ k ih => simp [Dk, ih]

theorem D_mul_pow_add (k : Nat) : ∀ q r, 0 < q → r < 10 ^ k → D (q * 10 ^ k + r) = D q ++ Dk k r := by
  induction k with
  | zero => intro q r hq hr; simp at hr; simp [hr, Dk]
  | succ k ih =>
    intro q r hq hr
    have hge : 10 ≤ q * 10 ^ (k + 1) + r := by
      have : 10 ^ (k + 1) ≤ q * 10 ^ (k + 1) := Nat.le_mul_of_pos_left _ hq
      have : 10 ≤ 10 ^ (k + 1) := by
        calc 10 = 10 ^ 1 := by norm_num
          _ ≤ 10 ^ (k + 1) := Nat.pow_le_pow_right (by norm_num) (by omega)
      omega
    rw [D_step hge]
    have e0 : q * 10 ^ (k + 1) = 10 * (q * 10 ^ k) := by rw [Nat.pow_succ]; ring
    have e1 : (q * 10 ^ (k + 1) + r) / 10 = q * 10 ^ k + r / 10 := by
      rw [e0]; omega
    have e2 : (q * 10 ^ (k + 1) + r) % 10 = r % 10 := by
      rw [e0]; omega
    rw [e1, e2, ih q (r / 10) hq (by rw [Nat.pow_succ] at hr; omega)]
    simp [Dk]

theorem Dk_eq_pad (k : Nat) : ∀ r, r < 10 ^ k → 0 < k → Dk k r = List.replicate (k - (D r).length) 48 ++ D r := by
  induction k with
  | zero => intro r _ hk; omega
  | succ k ih =>
    intro r hr _
    by_cases h10 : r < 10
    · have : r / 10 = 0 := by omega
      simp [Dk, this, Dk_zero, D_lt10 h10]
      omega
    · have hk : 0 < k := by
        rcases k with _ | k
        · simp at hr; omega
        · omega
      have hr' : r / 10 < 10 ^ k := by rw [Nat.pow_succ] at hr; omega
      rw [Dk, ih (r / 10) hr' hk, D_step (by omega : 10 ≤ r)]
      simp

theorem zerosShort_all : ∀ n, n ≤ 19 → zerosShort n = .ok (List.replicate n 48) := by decide +kernel

theorem zerosShort_eq {n : Nat} (h : n ≤ 19) : zerosShort n = .ok (List.replicate n 48) := zerosShort_all n h

/-- reversed digits: what `bigIntToString` appends for a non-zero value -/
def R (b : Nat) : List Nat := if b = 0 then [] else (D b).reverse

theorem bigLoop_eq (k : Nat) : ∀ b s, b < 2 ^ (64 + 63 * k) →
    ∃ bf sf, bigIntToStringLoop (k + 1) b s = .ok (bf, sf) ∧ bf < 2 ^ 64 ∧ sf ++ R bf = s ++ R b := by
  induction k with
  | zero =>
    intro b s h
    have hnb : ¬ (2 ^ wordBits ≤ b) := by simp only [wordBits]; simpa using h
    refine ⟨b, s, ?_, by simpa using h, rfl⟩
    rw [bigIntToStringLoop, if_neg hnb]; rfl
  | succ k ih =>
    intro b s h
    by_cases hb : b < 2 ^ 64
    · have hnb : ¬ (2 ^ wordBits ≤ b) := by simp only [wordBits]; omega
      refine ⟨b, s, ?_, hb, rfl⟩
      rw [bigIntToStringLoop, if_neg hnb]; rfl
    · have hb' : 2 ^ 64 ≤ b := by omega
      have hP : C8.maxPowerOfTenValue = 10 ^ 19 := by decide
      have hr : b % 10 ^ 19 < 10 ^ 19 := Nat.mod_lt _ (by norm_num)
      have hq0 : 0 < b / 10 ^ 19 := Nat.div_pos (by norm_num at hb' ⊢; omega) (by norm_num)
      have hq : b / 10 ^ 19 < 2 ^ (64 + 63 * k) := by
        rw [Nat.div_lt_iff_lt_mul (by norm_num)]
        have : 2 ^ (64 + 63 * (k + 1)) = 2 ^ (64 + 63 * k) * 2 ^ 63 := by rw [← Nat.pow_add]; ring_nf
        have h63 : (2:Nat) ^ 63 ≤ 10 ^ 19 := by norm_num
        calc b < 2 ^ (64 + 63 * k) * 2 ^ 63 := by omega
          _ ≤ 2 ^ (64 + 63 * k) * 10 ^ 19 := Nat.mul_le_mul_left _ h63
      have hlen : (D (b % 10 ^ 19)).length ≤ 19 := D_length_le _ 19 (by norm_num) hr
      have hrev : intRev 8 (b % 10 ^ 19) = .ok (D (b % 10 ^ 19)).reverse :=
        intRev_eq (Or.inr (Or.inr (Or.inr rfl))) (by norm_num at hr ⊢; omega)
      obtain ⟨bf, sf, e, hbf, hs⟩ := ih (b / 10 ^ 19) (s ++ (D (b % 10 ^ 19)).reverse ++ List.replicate (19 - (D (b % 10 ^ 19)).length) 48) hq
      refine ⟨bf, sf, ?_, hbf, ?_⟩
      · have hwb : 2 ^ wordBits ≤ b := by simp only [wordBits]; exact hb'
        rw [bigIntToStringLoop, if_pos hwb, hP, hrev]
        simp only [bind, Except.bind, csub, show C8.maxPowerOfTen = 19 from rfl,
          List.length_reverse, hlen, if_true, pure, Except.pure, zerosShort_eq (Nat.sub_le 19 _)]
        exact e
      · rw [hs]
        have hbne : b ≠ 0 := by omega
        have hqne : b / 10 ^ 19 ≠ 0 := by omega
        have hdec : D b = D (b / 10 ^ 19) ++ Dk 19 (b % 10 ^ 19) := by
          conv_lhs => rw [← Nat.div_add_mod b (10 ^ 19), Nat.mul_comm]
          exact D_mul_pow_add 19 _ _ hq0 hr
        simp only [R, hbne, hqne, if_false, hdec, Dk_eq_pad 19 _ hr (by norm_num)]
        simp [List.reverse_append, List.append_assoc]

theorem bigIntToString_eq {tb : Nat} (s : List Nat) {b : Nat} (h : b < 2 ^ tb) :
    bigIntToString tb s b = .ok (s ++ R b) := by
  have hk : b < 2 ^ (64 + 63 * (tb / 63 + 1)) :=
    lt_of_lt_of_le h (Nat.pow_le_pow_right (by norm_num) (by omega))
  obtain ⟨bf, sf, e, hbf, hs⟩ := bigLoop_eq (tb / 63 + 1) b s hk
  unfold bigIntToString
  simp only [e, bind, Except.bind]
  by_cases hz : bf = 0
  · simp [hz, R] at hs ⊢
    simp [hs, pure, Except.pure]
  · have : intRev 8 bf = .ok (D bf).reverse := intRev_eq (Or.inr (Or.inr (Or.inr rfl))) (by norm_num at hbf ⊢; omega)
    simp [hz, this, R, pure, Except.pure] at hs ⊢
    exact hs

end Qentem.Proofs.NumToStr
