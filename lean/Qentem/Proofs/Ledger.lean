import Qentem.Model.Ledger
/-! Compositional facts about allocation traces. -/
namespace Qentem.Ledger

theorem run_append (a b : List Ev) (h : Heap) :
    run (a ++ b) h = (run a h).bind (run b) := by
  induction a generalizing h with
  | nil => simp [run]
  | cons e rest ih =>
    simp only [List.cons_append, run]
    cases step h e with
    | none => simp
    | some h' => simpa using ih h'

/-- Traces of consecutive object lifetimes compose: balanced followed by balanced is balanced. -/
theorem balanced_append (a b : List Ev) (ha : Balanced a) (hb : Balanced b) : Balanced (a ++ b) := by
  unfold Balanced at *
  rw [run_append, ha]; simpa using hb

theorem isLive_cons (h : Heap) (id id' size : Nat) : isLive ((id', size) :: h) id = (id' == id || isLive h id) := by
  simp [isLive]

theorem release_not_live (h : Heap) (id : Nat) : isLive (release h id) id = false := by
  simp [isLive, release]

/-- After a block is released a second `free` of it is a violation (no double free is ever
accepted). -/
theorem no_double_free (h : Heap) (id : Nat) (h' : Heap) (h1 : step h (.free id) = some h') :
    step h' (.free id) = none := by
  simp only [step] at h1 ⊢
  split at h1
  · injection h1 with h1; subst h1; simp [release_not_live]
  · simp at h1

/-- … and neither is a use after release. -/
theorem no_use_after_free (h : Heap) (id : Nat) (h' : Heap) (h1 : step h (.free id) = some h') :
    step h' (.touch id) = none := by
  simp only [step] at h1 ⊢
  split at h1
  · injection h1 with h1; subst h1; simp [release_not_live]
  · simp at h1

/-- A `free` of an id that was never allocated is a violation. -/
theorem no_free_of_unallocated (id : Nat) : step [] (.free id) = none := by
  simp [step, isLive]

/-- The lifetime of one owned block — allocate, use any number of times, release — is balanced
on top of any heap that does not hold that id, and leaves that heap as it was. -/
theorem lifetime_frame (h : Heap) (id size n : Nat) (hfresh : isLive h id = false) :
    run (.alloc id size :: (List.replicate n (.touch id) ++ [.free id])) h = some h := by
  have touches : ∀ n, run (List.replicate n (Ev.touch id) ++ [.free id]) ((id, size) :: h) = some h := by
    intro n
    induction n with
    | zero =>
      simp only [List.replicate, List.nil_append, run, step, isLive_cons, beq_self_eq_true, Bool.true_or, ↓reduceIte]
      have : release ((id, size) :: h) id = h := by
        simp only [release, List.filter, bne_self_eq_false]
        rw [List.filter_eq_self]
        intro b hb
        simp only [isLive, List.any_eq_false] at hfresh
        have := hfresh b hb
        simpa [bne] using this
      simp [this]
    | succ n ih =>
      simp only [List.replicate_succ, List.cons_append, run, step, isLive_cons, beq_self_eq_true, Bool.true_or, ↓reduceIte]
      exact ih
  simp only [run, step, hfresh]
  exact touches n

end Qentem.Ledger
