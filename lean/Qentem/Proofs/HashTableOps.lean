import Qentem.Proofs.HashTableGen
/-!
Per-operation lemmas: each routine of the layout model never faults under the invariant,
re-establishes it, and acts on the slot abstraction as the list operation of the specification.
-/
namespace Qentem.HashTable
variable {V : Type}

/-! ### The item data the abstraction depends on -/

def stats (s : HT V) : List (List Nat × Nat × V) := s.items.toList.map stat

/-- The part of the invariant that only talks about keys and hashes. -/
def StatOK (H : List Nat → Nat) (l : List (List Nat × Nat × V)) : Prop :=
  (∀ x ∈ l, x.2.1 ≠ 0 → x.2.1 = H x.1) ∧
  l.Pairwise (fun a b => a.2.1 ≠ 0 → b.2.1 ≠ 0 → a.1 ≠ b.1) ∧
  (∀ x ∈ l, x.2.1 = 0 → x.1 = [])

def slotOf (x : List Nat × Nat × V) : Option (List Nat × V) := if x.2.1 = 0 then none else some (x.1, x.2.2)

theorem absSlots_eq (s : HT V) : absSlots s = (stats s).map slotOf := by
  simp only [absSlots, stats, List.map_map]
  rfl

theorem Inv.statOK {H : List Nat → Nat} {s : HT V} (hI : Inv H s) : StatOK H (stats s) := by
  refine ⟨?_, ?_, ?_⟩
  · intro x hx
    simp only [stats, List.mem_map, Array.mem_toList_iff] at hx
    obtain ⟨it, hit, rfl⟩ := hx
    obtain ⟨j, hj⟩ := Array.mem_iff_getElem?.mp hit
    exact hI.hash_ok j it hj
  · simp only [stats, List.pairwise_map]
    exact hI.distinct
  · intro x hx
    simp only [stats, List.mem_map, Array.mem_toList_iff] at hx
    obtain ⟨it, hit, rfl⟩ := hx
    obtain ⟨j, hj⟩ := Array.mem_iff_getElem?.mp hit
    exact hI.dead_key j it hj

theorem inv_of_stat {H : List Nat → Nat} {s : HT V} (h1 : s.cap = 0 ∨ ∃ k, s.cap = 2 ^ k)
    (h2 : s.heads.size = s.cap) (h3 : s.items.size ≤ s.cap) (h4 : StatOK H (stats s))
    (h5 : ∃ ch, ChainsOK s ch) : Inv H s := by
  refine ⟨h1, h2, h3, ?_, ?_, ?_, h5⟩
  · intro j it hj
    exact h4.1 (stat it) (by
      simp only [stats, List.mem_map, Array.mem_toList_iff]
      exact ⟨it, Array.mem_iff_getElem?.mpr ⟨j, hj⟩, rfl⟩)
  · have := h4.2.1
    simp only [stats, List.pairwise_map] at this
    exact this
  · intro j it hj
    exact h4.2.2 (stat it) (by
      simp only [stats, List.mem_map, Array.mem_toList_iff]
      exact ⟨it, Array.mem_iff_getElem?.mpr ⟨j, hj⟩, rfl⟩)

theorem StatOK.filter {H : List Nat → Nat} {l : List (List Nat × Nat × V)} (h : StatOK H l)
    (p : List Nat × Nat × V → Bool) : StatOK H (l.filter p) :=
  ⟨fun x hx => h.1 x (List.mem_filter.mp hx).1, h.2.1.filter p, fun x hx => h.2.2 x (List.mem_filter.mp hx).1⟩

theorem stats_eq_of_getElem? {s : HT V} {keep : Array (Item V)}
    (h : ∀ j : Nat, (s.items[j]?).map stat = (keep[j]?).map stat) : stats s = keep.toList.map stat := by
  apply List.ext_getElem?
  intro i
  simp only [stats, List.getElem?_map, Array.getElem?_toList]
  exact h i

/-! ### Capacities -/

theorem alignSize_pow (m : Nat) : ∃ k, alignSize m = 2 ^ k := by
  unfold alignSize
  simp only
  split
  · exact ⟨Nat.log2 m + 1, by rw [Nat.pow_succ]; omega⟩
  · exact ⟨Nat.log2 m, rfl⟩

theorem alignSize_ge (m : Nat) : m ≤ alignSize m := by
  unfold alignSize
  simp only
  split
  · have := @Nat.lt_log2_self m
    rw [Nat.pow_succ] at this; omega
  · omega

theorem allocCap_pow (n : Nat) : ∃ k, allocCap n = 2 ^ k := alignSize_pow _

theorem allocCap_ge (n : Nat) : n ≤ allocCap n := by
  have := alignSize_ge (n + n % 2)
  unfold allocCap; omega

/-! ### `generateHash` after a fresh allocation: `resize`, `copyTable` -/

theorem genInv_to_chains {s : HT V} {ch : Nat → List Nat} (hG : GenInv s s.items.size ch) : ChainsOK s ch :=
  ⟨hG.chain, hG.nodup, fun b hb j hj => (hG.bucket b hb j hj).2,
   fun j it hit _ => hG.complete j it (Array.getElem?_eq_some_iff.mp hit).1 hit⟩

theorem genInv_zero {s : HT V} (hcap : ∃ k, s.cap = 2 ^ k) (hh : s.heads = Array.replicate s.cap 0) :
    GenInv s 0 (fun _ => []) := by
  refine ⟨hcap, by rw [hh]; simp, ?_, by simp, by simp, by simp⟩
  intro b hb
  simp [Chain, getLink, hh, hb]

theorem rebuild_spec (n : Nat) (keep : Array (Item V)) (h : keep.size ≤ allocCap n) :
    ∃ s', rebuild n keep = some s' ∧ s'.cap = allocCap n ∧ s'.heads.size = s'.cap ∧
      s'.items.size = keep.size ∧ stats s' = keep.toList.map stat ∧ ∃ ch, ChainsOK s' ch := by
  have hG : GenInv (allocate n keep) 0 (fun _ => []) := genInv_zero (allocCap_pow n) rfl
  obtain ⟨s', ch', hrun, hG', hcap, hsize, hst⟩ := genLoop_spec keep.size (allocate n keep) 0 _ hG (by simp [allocate])
  refine ⟨s', ?_, hcap, ?_, hsize, stats_eq_of_getElem? hst, ch', genInv_to_chains hG'⟩
  · simp only [rebuild, h, if_true, generateHash, HT.size]; exact hrun
  · exact hG'.heads_size

theorem stats_filter_live (items : Array (Item V)) :
    (items.filter live).toList.map stat = (items.toList.map stat).filter (fun x => x.2.1 != 0) := by
  rw [Array.toList_filter, List.filter_map]
  rfl

theorem compact_map_slotOf (l : List (List Nat × Nat × V)) :
    Spec.compact (l.map slotOf) = (l.filter (fun x => x.2.1 != 0)).map slotOf := by
  unfold Spec.compact
  rw [List.filter_map]
  congr 1
  apply List.filter_congr
  intro x _
  simp only [Function.comp, slotOf]
  split <;> simp_all

/-- `resize(n)` whenever the live items fit: compaction into a block of `allocCap n` slots. -/
theorem resize_spec {H : List Nat → Nat} {s : HT V} (hI : Inv H s) (n : Nat)
    (hfit : (s.items.filter live).size ≤ allocCap n) :
    ∃ s', resize s n = some s' ∧ Inv H s' ∧ abs s' = ⟨allocCap n, Spec.compact (absSlots s)⟩ := by
  obtain ⟨s', hrun, hcap, hheads, hsize, hst, hch⟩ := rebuild_spec n (s.items.filter live) hfit
  have hst' : stats s' = (stats s).filter (fun x => x.2.1 != 0) := by rw [hst, stats_filter_live]; rfl
  refine ⟨s', hrun, ?_, ?_⟩
  · refine inv_of_stat (Or.inr (by rw [hcap]; exact allocCap_pow n)) hheads (by rw [hsize, hcap]; exact hfit) ?_ hch
    rw [hst']; exact hI.statOK.filter _
  · simp only [abs, hcap, absSlots_eq, hst', compact_map_slotOf]

theorem filter_live_size_le (s : HT V) : (s.items.filter live).size ≤ s.items.size := by
  simpa using Array.size_filter_le

/-! ### Updates that leave all links alone (`setVal`) -/

theorem inv_congr {H : List Nat → Nat} {s s' : HT V} (hI : Inv H s) (hcap : s'.cap = s.cap)
    (hheads : s'.heads = s.heads)
    (hitems : ∀ j : Nat, (s'.items[j]?).map (fun it => (it.key, it.hash, it.next)) =
      (s.items[j]?).map (fun it => (it.key, it.hash, it.next))) : Inv H s' := by
  have hsome : ∀ (j : Nat) (it' : Item V), s'.items[j]? = some it' →
      ∃ it : Item V, s.items[j]? = some it ∧ it.key = it'.key ∧ it.hash = it'.hash ∧ it.next = it'.next := by
    intro j it' h'
    have := hitems j
    rw [h'] at this
    cases h0 : s.items[j]? with
    | none => rw [h0] at this; simp at this
    | some it =>
      rw [h0] at this
      simp only [Option.map_some, Option.some.injEq, Prod.mk.injEq] at this
      exact ⟨it, rfl, this.1.symm, this.2.1.symm, this.2.2.symm⟩
  have hsome' : ∀ (j : Nat) (it : Item V), s.items[j]? = some it →
      ∃ it' : Item V, s'.items[j]? = some it' ∧ it.key = it'.key ∧ it.hash = it'.hash ∧ it.next = it'.next := by
    intro j it h0
    have := hitems j
    rw [h0] at this
    cases h' : s'.items[j]? with
    | none => rw [h'] at this; simp at this
    | some it' =>
      rw [h'] at this
      simp only [Option.map_some, Option.some.injEq, Prod.mk.injEq] at this
      exact ⟨it', rfl, this.1.symm, this.2.1.symm, this.2.2.symm⟩
  have hsize : s'.items.size = s.items.size := by
    have h1 : ∀ j : Nat, j < s'.items.size ↔ j < s.items.size := by
      intro j
      constructor
      · intro h
        obtain ⟨it, hit, _⟩ := hsome j _ (Array.getElem?_eq_getElem h)
        exact (Array.getElem?_eq_some_iff.mp hit).1
      · intro h
        obtain ⟨it, hit, _⟩ := hsome' j _ (Array.getElem?_eq_getElem h)
        exact (Array.getElem?_eq_some_iff.mp hit).1
    have a := (h1 s.items.size).not
    have b := (h1 s'.items.size).not
    omega
  have hlink : ∀ l, getLink s' l = getLink s l := by
    intro l
    cases l with
    | head b => simp [getLink, hheads]
    | next j =>
      simp only [getLink]
      have := congrArg (Option.map (fun x : List Nat × Nat × Nat => x.2.2)) (hitems j)
      simpa [Option.map_map, Function.comp_def] using this
  refine ⟨by rw [hcap]; exact hI.cap_pow, by rw [hheads, hcap]; exact hI.heads_size,
    by rw [hsize, hcap]; exact hI.size_le, ?_, ?_, ?_, ?_⟩
  · intro j it' h' hl
    obtain ⟨it, h0, hk, hh, _⟩ := hsome j it' h'
    rw [← hk, ← hh]; exact hI.hash_ok j it h0 (by rw [hh]; exact hl)
  · rw [List.pairwise_iff_getElem]
    intro i j hi hj hij ha hb hk
    simp only [Array.length_toList] at hi hj
    simp only [Array.getElem_toList] at ha hb hk
    obtain ⟨a, ha0, hka, hha, _⟩ := hsome i _ (Array.getElem?_eq_getElem hi)
    obtain ⟨b, hb0, hkb, hhb, _⟩ := hsome j _ (Array.getElem?_eq_getElem hj)
    have := hI.distinct_idx ha0 hb0 (by rw [hha]; exact ha) (by rw [hhb]; exact hb) (by rw [hka, hkb]; exact hk)
    omega
  · intro j it' h' hd
    obtain ⟨it, h0, hk, hh, _⟩ := hsome j it' h'
    rw [← hk]; exact hI.dead_key j it h0 (by rw [hh]; exact hd)
  · obtain ⟨ch, hc⟩ := hI.chains
    refine ⟨ch, ?_, ?_, ?_, ?_⟩
    · intro b hb; rw [hcap] at hb
      exact chain_congr (hc.chain b hb) (hlink _) (fun x _ => hlink _)
    · intro b hb; rw [hcap] at hb; exact hc.nodup b hb
    · intro b hb j hj; rw [hcap] at hb ⊢
      obtain ⟨it, h0, hbk⟩ := hc.bucket b hb j hj
      obtain ⟨it', h', _, hh, _⟩ := hsome' j it h0
      exact ⟨it', h', by rw [← hh]; exact hbk⟩
    · intro j it' h' hl; rw [hcap]
      obtain ⟨it, h0, _, hh, _⟩ := hsome j it' h'
      rw [← hh]; exact hc.complete j it h0 (by rw [hh]; exact hl)

theorem setVal_items (s : HT V) (i : Nat) (v : V) (j : Nat) :
    (setVal s i v).items[j]? = (s.items[j]?).map (fun it => if i = j then { it with val := v } else it) := by
  simp only [setVal, Array.getElem?_modify]
  split <;> simp

theorem inv_setVal {H : List Nat → Nat} {s : HT V} (hI : Inv H s) (i : Nat) (v : V) : Inv H (setVal s i v) := by
  refine inv_congr hI rfl rfl ?_
  intro j
  rw [setVal_items, Option.map_map]
  cases s.items[j]? with
  | none => rfl
  | some it => simp only [Option.map_some, Function.comp]; split <;> rfl

theorem absSlots_setVal {s : HT V} {i : Nat} {it : Item V} (v : V) (hit : s.items[i]? = some it) (hl : it.hash ≠ 0) :
    absSlots (setVal s i v) = (absSlots s).set i (some (it.key, v)) := by
  apply List.ext_getElem?
  intro j
  simp only [absSlots, List.getElem?_map, Array.getElem?_toList, setVal_items, List.getElem?_set, List.length_map,
    Array.length_toList]
  by_cases hij : i = j
  · subst hij
    obtain ⟨hi, rfl⟩ := Array.getElem?_eq_some_iff.mp hit
    simp [hl, hi]
  · simp only [if_neg hij]
    cases s.items[j]? <;> simp

/-! ### Looking a key up in the abstraction -/

theorem absSlots_getElem? (s : HT V) (j : Nat) :
    (absSlots s)[j]? = (s.items[j]?).map (fun it => if it.hash = 0 then none else some (it.key, it.val)) := by
  simp [absSlots]

theorem findKey_abs_some {H : List Nat → Nat} {s : HT V} (hI : Inv H s) {j : Nat} {it : Item V}
    (hit : s.items[j]? = some it) (hl : it.hash ≠ 0) : Spec.findKey (absSlots s) it.key = some j := by
  have hj : j < (absSlots s).length := by
    simpa [absSlots] using (Array.getElem?_eq_some_iff.mp hit).1
  have hjv : (absSlots s)[j] = some (it.key, it.val) := by
    have := absSlots_getElem? s j
    rw [List.getElem?_eq_getElem hj, hit] at this
    simpa [hl] using this
  have : (absSlots s).findIdx (Spec.hasKey it.key) = j := by
    rw [List.findIdx_eq hj]
    refine ⟨by rw [hjv]; simp [Spec.hasKey], ?_⟩
    intro i hij
    have hi : i < (absSlots s).length := by omega
    have hiv := absSlots_getElem? s i
    rw [List.getElem?_eq_getElem hi] at hiv
    cases hi0 : s.items[i]? with
    | none => rw [hi0] at hiv; simp at hiv
    | some it' =>
      rw [hi0] at hiv
      simp only [Option.map_some, Option.some.injEq] at hiv
      rw [hiv]
      by_cases hd : it'.hash = 0
      · simp [hd, Spec.hasKey]
      · simp only [hd, if_false, Spec.hasKey]
        by_contra hk
        simp only [decide_eq_false_iff_not, not_not] at hk
        have := hI.distinct_idx hi0 hit hd hl hk
        omega
  simp only [Spec.findKey, this, hj, if_true]

theorem findKey_abs_none {s : HT V} {key : List Nat}
    (hno : ∀ (j : Nat) (it : Item V), s.items[j]? = some it → it.hash ≠ 0 → it.key ≠ key) :
    Spec.findKey (absSlots s) key = none := by
  have : (absSlots s).findIdx (Spec.hasKey key) = (absSlots s).length := by
    rw [List.findIdx_eq_length]
    intro x hx
    obtain ⟨j, hj⟩ := List.mem_iff_getElem?.mp hx
    rw [absSlots_getElem?] at hj
    cases h0 : s.items[j]? with
    | none => rw [h0] at hj; simp at hj
    | some it =>
      rw [h0] at hj
      simp only [Option.map_some, Option.some.injEq] at hj
      rw [← hj]
      by_cases hd : it.hash = 0
      · simp [hd, Spec.hasKey]
      · simp only [hd, if_false, Spec.hasKey, decide_eq_false_iff_not]
        exact hno j it h0 hd
  simp [Spec.findKey, this]

/-- Under the invariant a key is either carried by exactly one live item or by none. -/
theorem key_cases (s : HT V) (key : List Nat) :
    (∃ (j : Nat) (it : Item V), s.items[j]? = some it ∧ it.hash ≠ 0 ∧ it.key = key) ∨
    (∀ (j : Nat) (it : Item V), s.items[j]? = some it → it.hash ≠ 0 → it.key ≠ key) := by
  by_cases h : ∃ (j : Nat) (it : Item V), s.items[j]? = some it ∧ it.hash ≠ 0 ∧ it.key = key
  · exact Or.inl h
  · right
    intro j it h1 h2 h3
    exact h ⟨j, it, h1, h2, h3⟩

end Qentem.HashTable
