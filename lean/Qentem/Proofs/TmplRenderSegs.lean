import Qentem.Proofs.TmplParseSegs
import Qentem.Proofs.ExprEval
/-!
# C02 stage 2 — templates made of text, `{var:…}` and `{raw:…}`: what `render` prints

`getValue_resolve`: for a path of the documented shape `name[k1][k2]…` (name non-empty, no bracket
inside the name or a key) the renderer's `getValue` finds exactly the value the document describes
(`resolve` = `splitPath` + `follow`).  `render_segs`: rendering the tags `tagsOf` over the printed
text gives the documented expansion.
-/
set_option linter.unusedSectionVars false
set_option linter.unusedVariables false
namespace Qentem.Tmpl
open Qentem.Expr (Fault rd ScanCfg VarRef Item Num Val Env RealLike)
open Qentem.Generated.Tmpl

variable {R : Type}

/-- `[k1][k2]…` -/
def brk : List (List Nat) → List Nat
  | [] => []
  | k :: ks => [91] ++ k ++ [93] ++ brk ks

def noB (l : List Nat) : Prop := ∀ x ∈ l, x ≠ 91 ∧ x ≠ 93

/-- the documented path shape -/
def PathOk (p : List Nat) : Prop :=
  ∃ name keys, p = name ++ brk keys ∧ name ≠ [] ∧ noB name ∧ ∀ k ∈ keys, noB k

theorem skipWhile_run (c : List Nat) (endO : Nat) (p : Nat → Bool) :
    ∀ (k f off : Nat), k + 1 ≤ f →
      (∀ i, i < k → ∃ x, c[off + i]? = some x ∧ p x = true) → off + k ≤ endO →
      (off + k = endO ∨ ∃ x, c[off + k]? = some x ∧ p x = false) →
      skipWhile c endO p f off = .ok (off + k) := by
  intro k
  induction k with
  | zero =>
    intro f off hf _ _ hstop
    cases f with
    | zero => omega
    | succ f =>
      simp only [skipWhile, Nat.add_zero]
      rcases hstop with h | ⟨x, hx, hp⟩
      · simp only [Nat.add_zero] at h; simp [h]
      · simp only [Nat.add_zero] at hx
        by_cases h : off < endO
        · simp [h, rd, hx, hp, bind, Except.bind]
        · simp [h]
  | succ k ih =>
    intro f off hf hrun hle hstop
    cases f with
    | zero => omega
    | succ f =>
      obtain ⟨x, hx, hp⟩ := hrun 0 (by omega)
      simp only [Nat.add_zero] at hx
      simp only [skipWhile, show off < endO by omega, if_true, rd, hx, bind, Except.bind, hp]
      have := ih f (off + 1) (by omega)
        (fun i hi => by have := hrun (i + 1) (by omega); rwa [show off + (i + 1) = off + 1 + i by omega] at this)
        (by omega) (by rwa [show off + (k + 1) = off + 1 + k by omega] at hstop)
      rw [this]; congr 1; omega

theorem skipW_run (c : List Nat) (endO : Nat) (p : Nat → Bool) (k off : Nat)
    (hrun : ∀ i, i < k → ∃ x, c[off + i]? = some x ∧ p x = true) (hle : off + k ≤ endO)
    (hstop : off + k = endO ∨ ∃ x, c[off + k]? = some x ∧ p x = false) :
    skipW c endO p off = .ok (off + k) :=
  skipWhile_run c endO p k _ off (by omega) hrun hle hstop

theorem slice_mid (A m B : List Nat) : slice (A ++ (m ++ B)) A.length (A.length + m.length) = .ok m := by
  simp [slice]


theorem get_at (A m B : List Nat) (i : Nat) (h : i < m.length) :
    (A ++ (m ++ B))[A.length + i]? = some m[i] := by
  rw [get_mid A m B i h]; exact List.getElem?_eq_getElem h

theorem get_after (A m : List Nat) (x : Nat) (B : List Nat) :
    (A ++ (m ++ x :: B))[A.length + m.length]? = some x := by
  rw [List.getElem?_append_right (by omega)]
  simp

theorem follow_none (ks : List (List Nat)) : follow none ks = none := by
  cases ks <;> rfl

/-- the key loop of `getValue` from the first unit of a key -/
theorem getValuePath_keys (cx : RCtx R) (hg : cx.guardIndexRead = true) (base len : Nat) :
    ∀ (ks : List (List Nat)) (k : List Nat) (v : Option Doc) (A post : List Nat) (off fuel : Nat),
      cx.content = A ++ ((k ++ 93 :: brk ks) ++ post) →
      base + off = A.length → base + len = A.length + (k ++ 93 :: brk ks).length →
      noB k → (∀ x ∈ ks, noB x) → ks.length + 1 ≤ fuel →
      getValuePath cx base len fuel v off off = .ok (follow v (k :: ks)) := by
  intro ks
  induction ks with
  | nil =>
    intro k v A post off fuel hc hb hl hk _ hf
    cases fuel with
    | zero => omega
    | succ f =>
      cases v with
      | none => simp [getValuePath, follow]
      | some d =>
        simp only [brk, List.length_append, List.length_cons, List.length_nil] at hl
        have hsk : skipW cx.content (base + len) (· != W1.variableIndexSuffix) (base + off) = .ok (base + off + k.length) := by
          apply skipW_run
          · intro i hi
            refine ⟨k[i], ?_, ?_⟩
            · rw [hc, hb, List.append_assoc]; exact get_at A k _ i hi
            · have := (hk k[i] (List.getElem_mem hi)).2
              simp only [show W1.variableIndexSuffix = 93 by decide]; simpa using this
          · omega
          · right; refine ⟨93, ?_, by decide⟩
            rw [hc, hb, List.append_assoc]; exact get_after A k 93 _
        simp only [getValuePath, hsk, bind, Except.bind, hg, Bool.true_and]
        have h2 : base + off + k.length - base + 1 ≥ len := by omega
        have hkey : (if base + off + k.length - base = off then (pure [] : Except Fault (List Nat))
            else slice cx.content (base + off) (base + (base + off + k.length - base))) = .ok k := by
          by_cases hk0 : k.length = 0
          · have : k = [] := List.eq_nil_of_length_eq_zero hk0
            subst this; simp [pure, Except.pure]
          · rw [if_neg (by omega), show base + (base + off + k.length - base) = A.length + k.length by omega, hb, hc,
              List.append_assoc]
            exact slice_mid A k _
        rw [hkey]
        simp [h2, follow]
  | cons k2 ks ih =>
    intro k v A post off fuel hc hb hl hk hks hf
    cases fuel with
    | zero => omega
    | succ f =>
      cases v with
      | none => simp [getValuePath, follow]
      | some d =>
        simp only [brk, List.length_append, List.length_cons, List.length_nil] at hl
        have hsk : skipW cx.content (base + len) (· != W1.variableIndexSuffix) (base + off) = .ok (base + off + k.length) := by
          apply skipW_run
          · intro i hi
            refine ⟨k[i], ?_, ?_⟩
            · rw [hc, hb, List.append_assoc]; exact get_at A k _ i hi
            · have := (hk k[i] (List.getElem_mem hi)).2
              simp only [show W1.variableIndexSuffix = 93 by decide]; simpa using this
          · omega
          · right; refine ⟨93, ?_, by decide⟩
            rw [hc, hb, List.append_assoc]; exact get_after A k 93 _
        simp only [getValuePath, hsk, bind, Except.bind, hg, Bool.true_and]
        have h2 : ¬ (base + off + k.length - base + 1 ≥ len) := by omega
        have hkey : (if base + off + k.length - base = off then (pure [] : Except Fault (List Nat))
            else slice cx.content (base + off) (base + (base + off + k.length - base))) = .ok k := by
          by_cases hk0 : k.length = 0
          · have : k = [] := List.eq_nil_of_length_eq_zero hk0
            subst this; simp [pure, Except.pure]
          · rw [if_neg (by omega), show base + (base + off + k.length - base) = A.length + k.length by omega, hb, hc,
              List.append_assoc]
            exact slice_mid A k _
        rw [hkey]
        have hc' : cx.content = (A ++ k ++ [93, 91]) ++ ((k2 ++ 93 :: brk ks) ++ post) := by
          rw [hc]; simp [brk, List.append_assoc]
        have hrd : rd cx.content (base + (base + off + k.length - base + 1)) = .ok 91 := by
          apply rd_some
          rw [show base + (base + off + k.length - base + 1) = (A ++ k ++ [93]).length + 0 by simp; omega]
          rw [hc]
          have := get_at (A ++ k ++ [93]) [91] ((k2 ++ 93 :: brk ks) ++ post) 0 (by simp)
          simpa [brk, List.append_assoc] using this
        simp only [h2, decide_false, Bool.false_eq_true, if_false, hrd,
          show W1.variableIndexPrefix = 91 by decide, ne_eq, not_true_eq_false]
        have := ih k2 (d.getKey k) (A ++ k ++ [93, 91]) post (base + off + k.length - base + 1 + 1) f hc'
          (by simp; omega) (by simp [brk] at hl ⊢; omega)
          (hks k2 (List.mem_cons_self ..)) (fun x hx => hks x (List.mem_cons_of_mem _ hx)) (by simp at hf; omega)
        rw [this]
        simp [follow]


theorem takeWhile_stop (p : Nat → Bool) (l : List Nat) (x : Nat) (rest : List Nat)
    (hl : ∀ y ∈ l, p y = true) (hx : p x = false) :
    (l ++ x :: rest).takeWhile p = l ∧ (l ++ x :: rest).dropWhile p = x :: rest := by
  induction l with
  | nil => simp [List.takeWhile, List.dropWhile, hx]
  | cons a l ih =>
    have ha := hl a (List.mem_cons_self ..)
    have := ih (fun y hy => hl y (List.mem_cons_of_mem _ hy))
    simp [List.takeWhile, List.dropWhile, ha, this]

theorem takeWhile_all (p : Nat → Bool) (l : List Nat) (hl : ∀ y ∈ l, p y = true) :
    l.takeWhile p = l ∧ l.dropWhile p = [] := by
  induction l with
  | nil => simp
  | cons a l ih =>
    have ha := hl a (List.mem_cons_self ..)
    have := ih (fun y hy => hl y (List.mem_cons_of_mem _ hy))
    simp [List.takeWhile, List.dropWhile, ha, this]

theorem brk_length (ks : List (List Nat)) : ks.length ≤ (brk ks).length := by
  induction ks with
  | nil => simp [brk]
  | cons k ks ih => simp [brk]; omega

theorem splitKeys (ks : List (List Nat)) : ∀ (fuel : Nat) (acc : List (List Nat)),
    (∀ k ∈ ks, noB k) → ks.length ≤ fuel →
    splitPath.keys fuel (brk ks) acc = acc.reverse ++ ks := by
  induction ks with
  | nil =>
    intro fuel acc _ _
    cases fuel <;> simp [splitPath.keys, brk]
  | cons k ks ih =>
    intro fuel acc hk hf
    cases fuel with
    | zero => simp at hf
    | succ f =>
      have h1 := takeWhile_stop (· != 93) k 93 (brk ks)
        (fun y hy => by have := (hk k (List.mem_cons_self ..) y hy).2; simpa using this) (by decide)
      have : brk (k :: ks) = 91 :: (k ++ 93 :: brk ks) := by simp [brk]
      rw [this]
      simp only [splitPath.keys, h1.1, h1.2, List.drop_succ_cons, List.drop_zero]
      rw [ih f (k :: acc) (fun x hx => hk x (List.mem_cons_of_mem _ hx)) (by simp at hf; omega)]
      simp

theorem splitPath_ok (name : List Nat) (keys : List (List Nat)) (hn : noB name)
    (hk : ∀ k ∈ keys, noB k) : splitPath (name ++ brk keys) = (name, keys) := by
  have hp : ∀ y ∈ name, (fun x : Nat => x != 91) y = true := fun y hy => by
    have := (hn y hy).1; simpa using this
  cases keys with
  | nil =>
    have := takeWhile_all (· != 91) name hp
    simp only [splitPath, brk, List.append_nil, this.1, this.2]
    cases name <;> simp [splitPath.keys]
  | cons k ks =>
    have hb : brk (k :: ks) = 91 :: (k ++ 93 :: brk ks) := by simp [brk]
    have := takeWhile_stop (· != 91) name 91 (k ++ 93 :: brk ks) hp (by decide)
    simp only [splitPath, hb, this.1, this.2]
    rw [← hb, splitKeys (k :: ks) _ [] hk (by
      have := brk_length (k :: ks); simp only [List.length_append]; omega)]
    simp

theorem resolve_top (root : Doc) (name : List Nat) (keys : List (List Nat)) (hn : noB name)
    (hk : ∀ k ∈ keys, noB k) :
    resolve root [] (name ++ brk keys) = (follow (root.getKey name) keys, none) := by
  simp [resolve, splitPath_ok name keys hn hk]


theorem brk_last (k : List Nat) (ks : List (List Nat)) : ∃ ini, brk (k :: ks) = ini ++ [93] := by
  induction ks generalizing k with
  | nil => exact ⟨[91] ++ k, by simp [brk]⟩
  | cons k2 ks ih =>
    obtain ⟨ini, h⟩ := ih k2
    exact ⟨[91] ++ k ++ [93] ++ ini, by rw [show brk (k :: k2 :: ks) = [91] ++ k ++ [93] ++ brk (k2 :: ks) by rfl, h]; simp⟩

/-- `getValue` on a top-level path of the documented shape -/
theorem getValue_top (cx : RCtx R) (hg : cx.guardIndexRead = true) (st : RState)
    (A post name : List Nat) (keys : List (List Nat))
    (hc : cx.content = A ++ ((name ++ brk keys) ++ post))
    (hne : name ≠ []) (hn : noB name) (hk : ∀ k ∈ keys, noB k) :
    getValue cx st ⟨A.length, (name ++ brk keys).length, 0, 0⟩ = .ok (follow (cx.root.getKey name) keys) := by
  have hnl : 0 < name.length := List.length_pos_iff.mpr hne
  cases keys with
  | nil =>
    simp only [brk, List.append_nil] at hc ⊢
    have hlast : rd cx.content (A.length + name.length - 1) = .ok name[name.length - 1] := by
      apply rd_some
      rw [show A.length + name.length - 1 = A.length + (name.length - 1) by omega, hc]
      exact get_at A name post _ (by omega)
    have hne93 : (name[name.length - 1] == W1.variableIndexSuffix) = false := by
      have := (hn _ (List.getElem_mem (show name.length - 1 < name.length by omega))).2
      simp only [show W1.variableIndexSuffix = 93 by decide]; simpa using this
    have hsl : slice cx.content A.length (A.length + name.length) = .ok name := by
      rw [hc]; exact slice_mid A name post
    simp [getValue, hlast, hne93, hsl, bind, Except.bind, pure, Except.pure, follow,
      show name.length ≠ 0 by omega]
  | cons k ks =>
    obtain ⟨ini, hini⟩ := brk_last k ks
    have hlen : (name ++ brk (k :: ks)).length = name.length + ini.length + 1 := by
      rw [hini]; simp; omega
    have hlast : rd cx.content (A.length + (name ++ brk (k :: ks)).length - 1) = .ok 93 := by
      apply rd_some
      rw [hlen, show A.length + (name.length + ini.length + 1) - 1 = (A ++ name).length + ini.length by simp; omega,
        hc, hini]
      have := get_after (A ++ name) ini 93 post
      simpa [List.append_assoc] using this
    have hb : brk (k :: ks) = 91 :: (k ++ 93 :: brk ks) := by simp [brk]
    have hsk : skipW cx.content (A.length + (name ++ brk (k :: ks)).length) (· != W1.variableIndexPrefix) A.length
        = .ok (A.length + name.length) := by
      apply skipW_run
      · intro i hi
        refine ⟨name[i], ?_, ?_⟩
        · rw [hc, List.append_assoc]; exact get_at A name _ i hi
        · have := (hn name[i] (List.getElem_mem hi)).1
          simp only [show W1.variableIndexPrefix = 91 by decide]; simpa using this
      · simp
      · right; refine ⟨91, ?_, by decide⟩
        rw [hc, hb, List.append_assoc]; exact get_after A name 91 _
    have hsl : slice cx.content A.length (A.length + name.length) = .ok name := by
      rw [hc, List.append_assoc]; exact slice_mid A name _
    have hp := getValuePath_keys cx hg A.length (name ++ brk (k :: ks)).length ks k (cx.root.getKey name)
      (A ++ name ++ [91]) post (name.length + 1) ((name ++ brk (k :: ks)).length + 2)
      (by rw [hc, hb]; simp [List.append_assoc]) (by simp [Nat.add_assoc]) (by rw [hb]; simp; omega)
      (hk k (List.mem_cons_self ..)) (fun x hx => hk x (List.mem_cons_of_mem _ hx))
      (by have := brk_length (k :: ks); simp only [List.length_append, List.length_cons] at this ⊢; omega)
    simp only [getValue, hlast, bind, Except.bind, pure, Except.pure, hsk,
      show (name ++ brk (k :: ks)).length ≠ 0 by omega, ne_eq, not_false_eq_true, if_true,
      show ((93 : Nat) == W1.variableIndexSuffix) = true by decide, Bool.not_true, Bool.false_eq_true, if_false,
      show A.length + name.length - A.length = name.length by omega,
      show ¬ name.length = 0 by omega, hsl, hp]


/-- the reference interpreter's parameters taken from the renderer's -/
def specOf (cx : RCtx R) : SpecCtx R :=
  { root := cx.root, readNum := cx.readNum, realOfBits := cx.realOfBits, realBits := cx.realBits,
    fmtReal := cx.fmtReal, autoEscape := cx.autoEscape }

theorem getValue_path (cx : RCtx R) (hg : cx.guardIndexRead = true) (st : RState)
    (A post p : List Nat) (hc : cx.content = A ++ (p ++ post)) (hp : PathOk p) :
    getValue cx st ⟨A.length, p.length, 0, 0⟩ = .ok (resolve cx.root [] p).1 := by
  obtain ⟨name, keys, rfl, hne, hn, hk⟩ := hp
  rw [resolve_top cx.root name keys hn hk]
  exact getValue_top cx hg st A post name keys hc hne hn hk

theorem slice_from (B txt rest : List Nat) :
    slice (B ++ (txt ++ rest)) B.length (B ++ txt).length = .ok txt := by
  rw [List.length_append]; exact slice_mid B txt rest

/-- the paths of the `{var:}` operands the scanner finds in an expression text (followed by its
terminator `t`) have the documented shape -/
def varsOk (rn : List Nat → Option (Num R)) (e : List Nat) (t : Nat) : Prop :=
  ∀ items : List (Item R),
    Qentem.Expr.parseTop ({ readNum := rn } : ScanCfg R) (e ++ [t]) 0 e.length = .ok items →
    ∀ v ∈ itemsVars items, PathOk (((e ++ [t]).drop v.off).take v.len)

def Seg.pathOk (rn : List Nat → Option (Num R)) : Seg → Prop
  | .text _ => True
  | .var p => PathOk p
  | .raw p => PathOk p
  | .math e => varsOk rn e 125

section
variable [RealLike R]

/-- what the document says one segment prints (top level: no enclosing loop) -/
def expSeg (cx : RCtx R) : Seg → List Nat
  | .text s => s
  | .var p =>
    match (resolve cx.root [] p).1.bind (copyValue cx true) with
    | some t => t
    | none => Qentem.Escape.escapeCfg cx.autoEscape (printSeg (.var p))
  | .raw p =>
    match (resolve cx.root [] p).1.bind (copyValue cx false) with
    | some t => t
    | none => printSeg (.raw p)
  | .math e =>
    match (evalText (specOf cx) [] e).bind (numText (specOf cx)) with
    | some t => t
    | none => printSeg (.math e)

def expSegs (cx : RCtx R) : List Seg → List Nat
  | [] => []
  | s :: r => expSeg cx s ++ expSegs cx r

theorem renderVariable_seg (cx : RCtx R) (hg : cx.guardIndexRead = true) (st : RState)
    (B txt p post : List Nat)
    (hc : cx.content = B ++ (txt ++ (([123, 118, 97, 114, 58] ++ p ++ [125]) ++ post)))
    (hp : PathOk p) :
    renderVariable cx st ⟨(B ++ txt).length + 5, p.length, 0, 0⟩ B.length =
      .ok (emit (emit st txt) (expSeg cx (.var p)), (B ++ txt).length + 5 + p.length + 1) := by
  have h5 : W1.variablePrefixLength = 5 := by decide
  have h6 : W1.variableFullLength = 6 := by decide
  have hsl : slice cx.content B.length (B ++ txt).length = .ok txt := by rw [hc]; exact slice_from B txt _
  have hA : (B ++ txt).length + 5 = (B ++ txt ++ [123, 118, 97, 114, 58]).length := by simp [Nat.add_assoc]
  have hgv : getValue cx (emit st txt) ⟨(B ++ txt).length + 5, p.length, 0, 0⟩ = .ok (resolve cx.root [] p).1 := by
    rw [hA]
    exact getValue_path cx hg _ (B ++ txt ++ [123, 118, 97, 114, 58]) ([125] ++ post) p
      (by rw [hc]; simp [List.append_assoc]) hp
  have hsrc : slice cx.content (B ++ txt).length ((B ++ txt).length + (p.length + 6)) =
      .ok (printSeg (.var p)) := by
    have := slice_mid (B ++ txt) ([123, 118, 97, 114, 58] ++ p ++ [125]) post
    rw [hc]
    simpa [printSeg, List.append_assoc, Nat.add_assoc] using this
  simp only [renderVariable, subChk, h5, h6, show 5 ≤ (B ++ txt).length + 5 by omega, if_true,
    Nat.add_sub_cancel, bind, Except.bind, hsl, hgv, loopKeyText, expSeg]
  cases hv : (resolve cx.root [] p).1.bind (copyValue cx true) with
  | some t => simp; omega
  | none =>
    simp only [hsrc]
    simp; omega

theorem renderRawVariable_seg (cx : RCtx R) (hg : cx.guardIndexRead = true) (st : RState)
    (B txt p post : List Nat)
    (hc : cx.content = B ++ (txt ++ (([123, 114, 97, 119, 58] ++ p ++ [125]) ++ post)))
    (hp : PathOk p) :
    renderRawVariable cx st ⟨(B ++ txt).length + 5, p.length, 0, 0⟩ B.length =
      .ok (emit (emit st txt) (expSeg cx (.raw p)), (B ++ txt).length + 5 + p.length + 1) := by
  have h5 : W1.rawVariablePrefixLength = 5 := by decide
  have h6 : W1.rawVariableFullLength = 6 := by decide
  have hsl : slice cx.content B.length (B ++ txt).length = .ok txt := by rw [hc]; exact slice_from B txt _
  have hA : (B ++ txt).length + 5 = (B ++ txt ++ [123, 114, 97, 119, 58]).length := by simp [Nat.add_assoc]
  have hgv : getValue cx (emit st txt) ⟨(B ++ txt).length + 5, p.length, 0, 0⟩ = .ok (resolve cx.root [] p).1 := by
    rw [hA]
    exact getValue_path cx hg _ (B ++ txt ++ [123, 114, 97, 119, 58]) ([125] ++ post) p
      (by rw [hc]; simp [List.append_assoc]) hp
  have hsrc : slice cx.content (B ++ txt).length ((B ++ txt).length + (p.length + 6)) =
      .ok (printSeg (.raw p)) := by
    have := slice_mid (B ++ txt) ([123, 114, 97, 119, 58] ++ p ++ [125]) post
    rw [hc]
    simpa [printSeg, List.append_assoc, Nat.add_assoc] using this
  simp only [renderRawVariable, subChk, h5, h6, show 5 ≤ (B ++ txt).length + 5 by omega, if_true,
    Nat.add_sub_cancel, bind, Except.bind, hsl, hgv, expSeg]
  cases hv : (resolve cx.root [] p).1.bind (copyValue cx false) with
  | some t => simp; omega
  | none =>
    simp only [hsrc]
    simp; omega

/-! ### `{math:e}` -/

theorem vars_reloc {k n : Nat} : ∀ m,
    (∀ (a b : List (Item R)), Qentem.Expr.sizeItems a ≤ m → Qentem.Expr.RelItems Qentem.Expr.NoV k n a b → itemsVars b = []) ∧
    (∀ (x y : Qentem.Expr.Operand R), x.size ≤ m → Qentem.Expr.RelOperand Qentem.Expr.NoV k n x y → operandVars y = []) := by
  intro m
  induction m with
  | zero =>
    refine ⟨?_, ?_⟩
    · intro a b hs hab
      cases hab with
      | nil => rfl
      | cons x y o a b _ _ => simp [Qentem.Expr.sizeItems] at hs
    · intro x y hs hxy
      cases hxy with
      | num _ => rfl
      | text _ _ _ => rfl
      | var _ _ h => exact h.elim
      | sub a b _ => simp [Qentem.Expr.Operand.size] at hs
  | succ m ih =>
    refine ⟨?_, ?_⟩
    · intro a b hs hab
      cases hab with
      | nil => rfl
      | cons x y o a b hxy hab =>
        simp only [Qentem.Expr.sizeItems] at hs
        simp only [itemsVars]
        rw [ih.2 x y (by omega) hxy, ih.1 a b (by omega) hab]; rfl
    · intro x y hs hxy
      cases hxy with
      | num _ => rfl
      | text _ _ _ => rfl
      | var _ _ h => exact h.elim
      | sub a b hab =>
        simp only [Qentem.Expr.Operand.size] at hs
        simp only [operandVars]
        exact ih.1 a b (by omega) hab

/-- related lists: every related pair of variable operands occurs in the two lists -/
theorem rel_mem {Pv : VarRef → VarRef → Prop} {k n : Nat} : ∀ m,
    (∀ (a b : List (Item R)) (Q : VarRef → VarRef → Prop), Qentem.Expr.sizeItems a ≤ m →
      Qentem.Expr.RelItems Pv k n a b →
      (∀ v v', Pv v v' → v ∈ itemsVars a → v' ∈ itemsVars b → Q v v') → Qentem.Expr.RelItems Q k n a b) ∧
    (∀ (x y : Qentem.Expr.Operand R) (Q : VarRef → VarRef → Prop), x.size ≤ m →
      Qentem.Expr.RelOperand Pv k n x y →
      (∀ v v', Pv v v' → v ∈ operandVars x → v' ∈ operandVars y → Q v v') → Qentem.Expr.RelOperand Q k n x y) := by
  intro m
  induction m with
  | zero =>
    refine ⟨?_, ?_⟩
    · intro a b Q hs hab hq
      cases hab with
      | nil => exact .nil
      | cons x y o a b _ _ => simp [Qentem.Expr.sizeItems] at hs
    · intro x y Q hs hxy hq
      cases hxy with
      | num z => exact .num z
      | text o l h => exact .text o l h
      | var v v' h => exact .var v v' (hq v v' h (by simp [operandVars]) (by simp [operandVars]))
      | sub a b _ => simp [Qentem.Expr.Operand.size] at hs
  | succ m ih =>
    refine ⟨?_, ?_⟩
    · intro a b Q hs hab hq
      cases hab with
      | nil => exact .nil
      | cons x y o a b hxy hab =>
        simp only [Qentem.Expr.sizeItems] at hs
        refine .cons _ _ _ _ _ (ih.2 x y Q (by omega) hxy ?_) (ih.1 a b Q (by omega) hab ?_)
        · intro v v' h h1 h2
          exact hq v v' h (by simp only [itemsVars]; exact List.mem_append_left _ h1)
            (by simp only [itemsVars]; exact List.mem_append_left _ h2)
        · intro v v' h h1 h2
          exact hq v v' h (by simp only [itemsVars]; exact List.mem_append_right _ h1)
            (by simp only [itemsVars]; exact List.mem_append_right _ h2)
    · intro x y Q hs hxy hq
      cases hxy with
      | num z => exact .num z
      | text o l h => exact .text o l h
      | var v v' h => exact .var v v' (hq v v' h (by simp [operandVars]) (by simp [operandVars]))
      | sub a b hab =>
        simp only [Qentem.Expr.Operand.size] at hs
        exact .sub _ _ (ih.1 a b Q (by omega) hab (fun v v' h h1 h2 =>
          hq v v' h (by simpa only [operandVars] using h1) (by simpa only [operandVars] using h2)))

theorem resolveVars_ok (cx : RCtx R) (st : RState) (g : VarRef → Option Doc) :
    ∀ (vs : List VarRef), (∀ v ∈ vs, getValue cx st v = .ok (g v)) →
      resolveVars cx st vs = .ok (vs.map (fun v => (v, (g v).map (docToVarVal cx)))) := by
  intro vs
  induction vs with
  | nil => intro _; rfl
  | cons v rest ih =>
    intro h
    simp only [resolveVars, h v (List.mem_cons_self), bind, Except.bind,
      ih (fun w hw => h w (List.mem_cons_of_mem _ hw)), List.map_cons]

theorem find_resolved (f : VarRef → Option (Qentem.Expr.VarVal R)) : ∀ (vs : List VarRef) (v : VarRef), v ∈ vs →
    ((vs.map (fun w => (w, f w))).find? (fun p => p.1 == v)).bind (·.2) = f v := by
  intro vs
  induction vs with
  | nil => intro v hv; cases hv
  | cons w rest ih =>
    intro v hv
    simp only [List.map_cons, List.find?_cons]
    by_cases hwv : w = v
    · subst hwv; simp
    · have : (w == v) = false := by simpa using hwv
      simp only [this]
      rcases List.mem_cons.mp hv with h | h
      · exact absurd h.symm hwv
      · exact ih v h

theorem docToVarVal_eq (cx : RCtx R) (d : Doc) : docToVarVal cx d = docVarVal (specOf cx) d := by
  cases d <;> rfl

theorem rel_vars_back {Pv : VarRef → VarRef → Prop} {k n : Nat} : ∀ m,
    (∀ (a b : List (Item R)), Qentem.Expr.sizeItems a ≤ m → Qentem.Expr.RelItems Pv k n a b →
      ∀ v' ∈ itemsVars b, ∃ v, v ∈ itemsVars a ∧ Pv v v') ∧
    (∀ (x y : Qentem.Expr.Operand R), x.size ≤ m → Qentem.Expr.RelOperand Pv k n x y →
      ∀ v' ∈ operandVars y, ∃ v, v ∈ operandVars x ∧ Pv v v') := by
  intro m
  induction m with
  | zero =>
    refine ⟨?_, ?_⟩
    · intro a b hs hab
      cases hab with
      | nil => intro v' hv'; simp [itemsVars] at hv'
      | cons x y o a b _ _ => simp [Qentem.Expr.sizeItems] at hs
    · intro x y hs hxy
      cases hxy with
      | num z => intro v' hv'; simp [operandVars] at hv'
      | text o l h => intro v' hv'; simp [operandVars] at hv'
      | var v w h =>
        intro v' hv'
        simp only [operandVars, List.mem_singleton] at hv'
        subst hv'
        exact ⟨v, by simp [operandVars], h⟩
      | sub a b _ => simp [Qentem.Expr.Operand.size] at hs
  | succ m ih =>
    refine ⟨?_, ?_⟩
    · intro a b hs hab
      cases hab with
      | nil => intro v' hv'; simp [itemsVars] at hv'
      | cons x y o a b hxy hab =>
        simp only [Qentem.Expr.sizeItems] at hs
        intro v' hv'
        simp only [itemsVars, List.mem_append] at hv' ⊢
        rcases hv' with h | h
        · obtain ⟨v, h1, h2⟩ := ih.2 x y (by omega) hxy v' h
          exact ⟨v, Or.inl h1, h2⟩
        · obtain ⟨v, h1, h2⟩ := ih.1 a b (by omega) hab v' h
          exact ⟨v, Or.inr h1, h2⟩
    · intro x y hs hxy
      cases hxy with
      | num z => intro v' hv'; simp [operandVars] at hv'
      | text o l h => intro v' hv'; simp [operandVars] at hv'
      | var v w h =>
        intro v' hv'
        simp only [operandVars, List.mem_singleton] at hv'
        subst hv'
        exact ⟨v, by simp [operandVars], h⟩
      | sub a b hab =>
        simp only [Qentem.Expr.Operand.size] at hs
        intro v' hv'
        simp only [operandVars] at hv' ⊢
        exact ih.1 a b (by omega) hab v' hv'

/-- the code's evaluation of a list scanned in place equals the evaluation of the list scanned
alone in the reference environment, when the paths of its `{var:}` operands have the documented
shape -/
theorem evalExprs_reloc (cx : RCtx R) (hg : cx.guardIndexRead = true) (st : RState) (envS : Env R) (k : Nat)
    (items0 items' : List (Item R))
    (hre : ∀ lk, Qentem.Expr.RelEnv envS ({ content := cx.content, lookup := lk, readNum := cx.readNum } : Env R) k)
    (hlookS : ∀ v, envS.lookup v =
      ((resolve cx.root [] ((envS.content.drop v.off).take v.len)).1).map (docVarVal (specOf cx)))
    (hrel : Qentem.Expr.RelItems (PvTop k envS.content.length) k envS.content.length items0 items')
    (hpath : ∀ v ∈ itemsVars items0, PathOk ((envS.content.drop v.off).take v.len))
    (hlen : k + envS.content.length ≤ cx.content.length) (hne : items'.isEmpty = false) :
    evalExprs cx st items' = .ok (Qentem.Expr.evaluateTop envS true items0) ∧
      (∀ v, Qentem.Expr.evaluateTop envS true items0 = some v → ∃ x, v = .num x) := by
  let g : VarRef → Option Doc := fun v' => (resolve cx.root [] ((cx.content.drop v'.off).take v'.len)).1
  have hsl : ∀ v : VarRef, v.off + v.len < envS.content.length →
      (cx.content.drop (k + v.off)).take v.len = (envS.content.drop v.off).take v.len :=
    fun v hb => (hre (fun _ => none)).slice v.off v.len (by omega)
  have hget : ∀ v' ∈ itemsVars items', getValue cx st v' = .ok (g v') := by
    intro v' hv'
    obtain ⟨v, hv, hpv, hb⟩ := (rel_vars_back _).1 items0 items' (Nat.le_refl _) hrel v' hv'
    subst hpv
    have hp := hpath v hv
    have hs := hsl v hb
    have hlp : ((envS.content.drop v.off).take v.len).length = v.len := by
      simp only [List.length_take, List.length_drop]; omega
    have hc' : cx.content = cx.content.take (k + v.off) ++
        ((envS.content.drop v.off).take v.len ++ (cx.content.drop (k + v.off)).drop v.len) := by
      rw [← hs, List.take_append_drop, List.take_append_drop]
    have hla : (cx.content.take (k + v.off)).length = k + v.off := by
      simp only [List.length_take]; omega
    have := getValue_path cx hg st _ _ _ hc' hp
    rw [hla, hlp] at this
    rw [this]
    simp only [g, hs]
  let f : VarRef → Option (Qentem.Expr.VarVal R) := fun v => (g v).map (docToVarVal cx)
  have hres := resolveVars_ok cx st g (itemsVars items') hget
  let env' : Env R := ⟨cx.content,
    fun v => (((itemsVars items').map (fun w => (w, f w))).find? (fun p => p.1 == v)).bind (·.2), cx.readNum⟩
  have hrel2 := (rel_mem _).1 items0 items'
    (fun v v' => PvTop k envS.content.length v v' ∧ v' ∈ itemsVars items') (Nat.le_refl _) hrel
    (fun v v' h _ h2 => ⟨h, h2⟩)
  have hlk : Qentem.Expr.RelLookup (fun v v' => PvTop k envS.content.length v v' ∧ v' ∈ itemsVars items') envS env' := by
    intro v v' ⟨⟨hpv, hb⟩, hm⟩
    show (((itemsVars items').map (fun w => (w, f w))).find? (fun p => p.1 == v')).bind (·.2) = envS.lookup v
    rw [find_resolved f _ v' hm, hlookS v]
    subst hpv
    simp only [f, g, hsl v hb]
    congr 1
  have hev := Qentem.Expr.evaluateTop_reloc (hre env'.lookup) hlk true items0 items' hrel2
  refine ⟨?_, hev.2⟩
  simp only [evalExprs, hne, Bool.false_eq_true, if_false, hres, bind, Except.bind]
  exact congrArg Except.ok hev.1

/-- the text of a `{math:e}` tag inside the content, as a relocation of `e}` -/
theorem reloc_math (c pre e post : List Nat)
    (hc : c = pre ++ (([123, 109, 97, 116, 104, 58] ++ e ++ [125]) ++ post)) :
    Qentem.Expr.Reloc (e ++ [125]) c (pre.length + 6) := by
  have hc' : c = ((pre ++ [123, 109, 97, 116, 104]) ++ [58]) ++ (e ++ [125]) ++ post := by
    rw [hc]; simp [List.append_assoc]
  have hlen : ((pre ++ [123, 109, 97, 116, 104]) ++ [58]).length = pre.length + 6 := by simp
  have hbefore := isExpression_after_colon (pre ++ [123, 109, 97, 116, 104]) ((e ++ [125]) ++ post)
  rw [← List.append_assoc] at hbefore
  have hrel := Qentem.Expr.Reloc.of_append ((pre ++ [123, 109, 97, 116, 104]) ++ [58]) (e ++ [125]) post hbefore
  rw [← hc', hlen] at hrel
  exact hrel

/-- the environment in which the reference interpreter evaluates the expression text `e` -/
def specEnv (cx : RCtx R) (e : List Nat) : Env R :=
  { content := e ++ [125],
    lookup := fun v => ((resolve cx.root [] (((e ++ [125]).drop v.off).take v.len)).1).map (docVarVal (specOf cx)),
    readNum := cx.readNum }

theorem evalText_eq (cx : RCtx R) (e : List Nat) (items0 : List (Item R))
    (h0 : Qentem.Expr.parseTop ({ readNum := cx.readNum } : ScanCfg R) (e ++ [125]) 0 e.length = .ok items0) :
    evalText (specOf cx) [] e =
      if items0.isEmpty then none else Qentem.Expr.evaluateTop (specEnv cx e) true items0 := by
  simp only [evalText, specOf, h0]
  cases items0 with
  | nil => rfl
  | cons x xs =>
    have hwf := Qentem.Expr.parseTop_wf ({ readNum := cx.readNum } : ScanCfg R) (e ++ [125]) 0 e.length (by simp)
    rw [h0] at hwf
    rcases hwf with h | h
    · cases h
    · simp only [List.isEmpty_cons, Bool.false_eq_true, if_false]
      exact (Qentem.Expr.evaluateTop_eq_tree _ _ h).symm

theorem renderMath_seg (cx : RCtx R) (cfg : ScanCfg R) (hg : cx.guardIndexRead = true)
    (hrn : cfg.readNum = cx.readNum) (st : RState)
    (B txt e post : List Nat)
    (hc : cx.content = B ++ (txt ++ (([123, 109, 97, 116, 104, 58] ++ e ++ [125]) ++ post)))
    (hp : varsOk cfg.readNum e 125) (hsc : Seg.scanOk cfg.readNum (.math e)) :
    renderMath cx st (itemsAt cfg cx.content ((B ++ txt).length + 6) ((B ++ txt).length + 6 + e.length))
        (B ++ txt).length ((B ++ txt).length + 6 + e.length + 1) B.length =
      .ok (emit (emit st txt) (expSeg cx (.math e)), (B ++ txt).length + 6 + e.length + 1) := by
  obtain ⟨items0, hitems0⟩ := hsc
  have hc2 : cx.content = (B ++ txt) ++ (([123, 109, 97, 116, 104, 58] ++ e ++ [125]) ++ post) := by
    rw [hc]; simp [List.append_assoc]
  obtain ⟨items', hex, hrel⟩ := exprs_math cfg cx.content (B ++ txt) e post hc2 items0 hitems0
  have hreloc := reloc_math cx.content (B ++ txt) e post hc2
  have hsl : slice cx.content B.length (B ++ txt).length = .ok txt := by rw [hc]; exact slice_from B txt _
  have hsrc : slice cx.content (B ++ txt).length ((B ++ txt).length + 6 + e.length + 1) =
      .ok (printSeg (.math e)) := by
    have := slice_mid (B ++ txt) ([123, 109, 97, 116, 104, 58] ++ e ++ [125]) post
    rw [hc2, show (B ++ txt).length + 6 + e.length + 1 =
      (B ++ txt).length + ([123, 109, 97, 116, 104, 58] ++ e ++ [125]).length by simp; omega]
    exact this
  have hitems : itemsAt cfg cx.content ((B ++ txt).length + 6) ((B ++ txt).length + 6 + e.length) = items' := by
    simp only [itemsAt, hex]
  rw [hitems]
  have hp' : varsOk cx.readNum e 125 := hrn ▸ hp
  rw [hrn] at hitems0
  have hspec := evalText_eq cx e items0 hitems0
  have hemp := hrel.isEmpty
  cases hi : items0.isEmpty with
  | true =>
    rw [hi] at hemp
    simp only [hi, if_true] at hspec
    simp only [renderMath, hsl, evalExprs, ← hemp, if_true, bind, Except.bind, hsrc, expSeg, hspec,
      Option.bind]
  | false =>
    rw [hi] at hemp
    simp only [hi, Bool.false_eq_true, if_false] at hspec
    have hre : ∀ lk, Qentem.Expr.RelEnv (specEnv cx e)
        ({ content := cx.content, lookup := lk, readNum := cx.readNum } : Env R) ((B ++ txt).length + 6) :=
      fun lk => ⟨rfl, hreloc.slice⟩
    have hlen : (specEnv cx e).content.length = e.length + 1 := by simp [specEnv]
    have hev := evalExprs_reloc cx hg (emit st txt) (specEnv cx e) ((B ++ txt).length + 6) items0 items' hre
      (fun _ => rfl) (by rw [hlen]; exact hrel) (hp' items0 hitems0)
      (by rw [hlen, hc2]; simp only [List.length_append, List.length_cons, List.length_nil]; omega) hemp.symm
    simp only [renderMath, hsl, hev.1, bind, Except.bind, expSeg, hspec]
    cases hv : Qentem.Expr.evaluateTop (specEnv cx e) true items0 with
    | none => simp only [hsrc, Option.bind]
    | some v =>
      obtain ⟨z, hz⟩ := hev.2 v hv
      subst hz
      cases z <;> simp [Option.bind, numText, specOf]


theorem render_segs_aux (cx : RCtx R) (cfg : ScanCfg R) (hg : cx.guardIndexRead = true)
    (hrn : cfg.readNum = cx.readNum) :
    ∀ (segs : List Seg) (B txt : List Nat) (st : RState) (fuel : Nat),
      cx.content = B ++ (txt ++ printSegs segs) → (∀ s ∈ segs, s.pathOk cfg.readNum) → (∀ s ∈ segs, s.ok) →
      (∀ s ∈ segs, s.scanOk cfg.readNum) → nTags segs + 2 ≤ fuel →
      render cx fuel (tagsOf cfg cx.content (B ++ txt).length segs) B.length cx.content.length st =
        .ok (emit st (txt ++ expSegs cx segs)) := by
  intro segs
  induction segs with
  | nil =>
    intro B txt st fuel hc _ _ _ hf
    cases fuel with
    | zero => omega
    | succ f =>
      have : slice cx.content B.length cx.content.length = .ok txt := by
        rw [hc]
        have := slice_mid B txt []
        simpa [printSegs] using this
      simp [render, tagsOf, this, bind, Except.bind, expSegs]
  | cons sg rest ih =>
    intro B txt st fuel hc hok hpl hsc hf
    have hokr : ∀ s ∈ rest, s.pathOk cfg.readNum := fun s hs => hok s (List.mem_cons_of_mem _ hs)
    have hplr : ∀ s ∈ rest, s.ok := fun s hs => hpl s (List.mem_cons_of_mem _ hs)
    have hscr : ∀ s ∈ rest, s.scanOk cfg.readNum := fun s hs => hsc s (List.mem_cons_of_mem _ hs)
    have hsg := hok sg (List.mem_cons_self ..)
    cases sg with
    | text s =>
      have := ih B (txt ++ s) st fuel (by rw [hc]; simp [printSegs, printSeg]) hokr hplr hscr
        (by simpa [nTags] using hf)
      simp only [tagsOf, expSegs, expSeg]
      rw [show (B ++ txt).length + s.length = (B ++ (txt ++ s)).length by simp [Nat.add_assoc], this]
      simp [List.append_assoc]
    | var p =>
      cases fuel with
      | zero => omega
      | succ f =>
        cases f with
        | zero => simp [nTags] at hf
        | succ g =>
          have hv := renderVariable_seg cx hg st B txt p (printSegs rest)
            (by rw [hc]; simp [printSegs, printSeg]) hsg
          simp only [tagsOf, render, renderTag, hv, bind, Except.bind]
          have := ih (B ++ txt ++ printSeg (.var p)) [] (emit (emit st txt) (expSeg cx (.var p))) (g + 1)
            (by rw [hc]; simp [printSegs, printSeg]) hokr hplr hscr (by simp only [nTags] at hf; omega)
          have hl : (B ++ txt ++ printSeg (.var p)).length = (B ++ txt).length + 5 + p.length + 1 := by
            simp [printSeg]; omega
          simp only [List.append_nil, hl] at this
          rw [this]
          simp [emit, expSegs, List.append_assoc]
    | raw p =>
      cases fuel with
      | zero => omega
      | succ f =>
        cases f with
        | zero => simp [nTags] at hf
        | succ g =>
          have hv := renderRawVariable_seg cx hg st B txt p (printSegs rest)
            (by rw [hc]; simp [printSegs, printSeg]) hsg
          simp only [tagsOf, render, renderTag, hv, bind, Except.bind]
          have := ih (B ++ txt ++ printSeg (.raw p)) [] (emit (emit st txt) (expSeg cx (.raw p))) (g + 1)
            (by rw [hc]; simp [printSegs, printSeg]) hokr hplr hscr (by simp only [nTags] at hf; omega)
          have hl : (B ++ txt ++ printSeg (.raw p)).length = (B ++ txt).length + 5 + p.length + 1 := by
            simp [printSeg]; omega
          simp only [List.append_nil, hl] at this
          rw [this]
          simp [emit, expSegs, List.append_assoc]
    | math e =>
      cases fuel with
      | zero => omega
      | succ f =>
        cases f with
        | zero => simp [nTags] at hf
        | succ g =>
          have hv := renderMath_seg cx cfg hg hrn st B txt e (printSegs rest)
            (by rw [hc]; simp [printSegs, printSeg]) (hok _ (List.mem_cons_self ..)) (hsc _ (List.mem_cons_self ..))
          simp only [tagsOf, render, renderTag, hv, bind, Except.bind]
          have := ih (B ++ txt ++ printSeg (.math e)) [] (emit (emit st txt) (expSeg cx (.math e))) (g + 1)
            (by rw [hc]; simp [printSegs, printSeg]) hokr hplr hscr (by simp only [nTags] at hf; omega)
          have hl : (B ++ txt ++ printSeg (.math e)).length = (B ++ txt).length + 6 + e.length + 1 := by
            simp [printSeg]; omega
          simp only [List.append_nil, hl] at this
          rw [this]
          simp [emit, expSegs, List.append_assoc]

/-- rendering the implied tags over the printed text prints the documented expansion -/
theorem render_segs (cx : RCtx R) (cfg : ScanCfg R) (hg : cx.guardIndexRead = true)
    (hrn : cfg.readNum = cx.readNum) (segs : List Seg)
    (hc : cx.content = printSegs segs) (hok : ∀ s ∈ segs, s.pathOk cfg.readNum) (hpl : ∀ s ∈ segs, s.ok)
    (hsc : ∀ s ∈ segs, s.scanOk cfg.readNum) (fuel : Nat) (hf : nTags segs + 2 ≤ fuel) :
    renderTop cx (tagsOf cfg cx.content 0 segs) fuel = .ok (expSegs cx segs) := by
  have := render_segs_aux cx cfg hg hrn segs [] [] {} fuel (by simpa using hc) hok hpl hsc hf
  simp only [List.append_nil, List.length_nil] at this
  simp [renderTop, this, bind, Except.bind, emit]

/-- the reference interpreter and the renderer are given the same value and parameters -/
structure SameCtx (cx : RCtx R) (sx : SpecCtx R) : Prop where
  root : sx.root = cx.root
  fmt : sx.fmtReal = cx.fmtReal
  esc : sx.autoEscape = cx.autoEscape
  readNum : sx.readNum = cx.readNum
  realOfBits : sx.realOfBits = cx.realOfBits
  realBits : sx.realBits = cx.realBits

theorem SameCtx.eq {cx : RCtx R} {sx : SpecCtx R} (h : SameCtx cx sx) : sx = specOf cx := by
  cases sx
  simp only [specOf, SpecCtx.mk.injEq]
  exact ⟨h.root, h.readNum, h.realOfBits, h.realBits, h.fmt, h.esc⟩

theorem printable_eq (cx : RCtx R) (esc : Bool) (d : Doc) :
    printable (specOf cx) esc d = copyValue cx esc d := by
  cases d <;> simp [printable, copyValue, escapeS, specOf] <;> rfl

theorem resolve_nil_snd (root : Doc) (p : List Nat) : (resolve root [] p).2 = none := by
  simp [resolve]

theorem expandList_segs (cx : RCtx R) (sx : SpecCtx R) (h : SameCtx cx sx) :
    ∀ (segs : List Seg) (fuel : Nat), segs.length + 1 ≤ fuel →
      expandList sx fuel [] (segsTpl segs) = expSegs cx segs := by
  rw [h.eq]
  intro segs
  induction segs with
  | nil => intro fuel _; cases fuel <;> simp [expandList, segsTpl, expSegs]
  | cons sg rest ih =>
    intro fuel hf
    cases fuel with
    | zero => omega
    | succ f =>
      cases f with
      | zero => simp at hf
      | succ g =>
        simp only [segsTpl, expandList, expSegs]
        rw [ih (g + 1) (by simp at hf ⊢; omega)]
        congr 1
        cases sg with
        | text s => simp [Seg.toTpl, expandTpl, expSeg]
        | var p =>
          have hb := resolve_nil_snd cx.root p
          simp only [Seg.toTpl, expandTpl, expSeg, show (specOf cx).root = cx.root from rfl]
          rw [show printable (specOf cx) true = copyValue cx true from funext (printable_eq cx true)]
          cases hv : (resolve cx.root [] p).1.bind (copyValue cx true) with
          | some t => simp
          | none =>
            simp only [hb, escapeS, show (specOf cx).autoEscape = cx.autoEscape from rfl]
            simp [printTpl, printSeg, str]
        | raw p =>
          simp only [Seg.toTpl, expandTpl, expSeg, show (specOf cx).root = cx.root from rfl]
          rw [show printable (specOf cx) false = copyValue cx false from funext (printable_eq cx false)]
          cases hv : (resolve cx.root [] p).1.bind (copyValue cx false) with
          | some t => simp
          | none => simp [printTpl, printSeg, str]
        | math e =>
          simp only [Seg.toTpl, expandTpl, expSeg]
          cases hv : (evalText (specOf cx) [] e).bind (numText (specOf cx)) with
          | some t => rfl
          | none => simp [printTpl, printSeg, str]

end

end Qentem.Tmpl
