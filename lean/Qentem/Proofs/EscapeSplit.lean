import Qentem.Model.Escape
/-!
# C03 / C02 — escaping splits at a `{`

No entity contains a `{`, so escaping a text that is cut right before a `{` gives the same units
as escaping the two pieces (used by the super-variable phrase loop, which flushes at every `{`).
-/
namespace Qentem.Escape

theorem prefix_stop : ∀ (pat rest b r1 : List Nat), 123 ∉ pat → rest ++ 123 :: b = pat ++ r1 → ∃ r', rest = pat ++ r' := by
  intro pat
  induction pat with
  | nil => intro rest b r1 _ _; exact ⟨rest, rfl⟩
  | cons p ps ih =>
    intro rest b r1 hp h
    cases rest with
    | nil =>
      simp only [List.nil_append, List.cons_append, List.cons.injEq] at h
      exact absurd h.1.symm (fun hh => hp (by simp [hh]))
    | cons x rest' =>
      simp only [List.cons_append, List.cons.injEq] at h
      obtain ⟨r', hr'⟩ := ih rest' b r1 (fun hh => hp (List.mem_cons_of_mem _ hh)) h.2
      exact ⟨r', by rw [h.1, hr']; rfl⟩

/-- escaping splits at a `{`: no entity contains one -/
theorem escape_append_brace (b : List Nat) : ∀ (a : List Nat), escape (a ++ 123 :: b) = escape a ++ escape (123 :: b) := by
  intro a
  induction a using escape.induct with
  | case1 rest ih => simp only [List.cons_append, escape, ih]
  | case2 rest ih => simp only [List.cons_append, escape, ih]
  | case3 rest ih => simp only [List.cons_append, escape, ih]
  | case4 rest ih => simp only [List.cons_append, escape, ih]
  | case5 rest ih => simp only [List.cons_append, escape, ih]
  | case6 rest h1 h2 h3 h4 h5 ih =>
    have g : ∀ (pat : List Nat), 123 ∉ pat → (∀ r', rest = pat ++ r' → False) →
        ∀ r1, rest ++ 123 :: b = pat ++ r1 → False := by
      intro pat hp hno r1 h
      obtain ⟨r', hr'⟩ := prefix_stop pat rest b r1 hp h
      exact hno r' hr'
    rw [List.cons_append, escape.eq_6 _ (g [113, 117, 111, 116, 59] (by decide) h1) (g [97, 112, 111, 115, 59] (by decide) h2)
      (g [97, 109, 112, 59] (by decide) h3) (g [108, 116, 59] (by decide) h4) (g [103, 116, 59] (by decide) h5),
      escape.eq_6 _ h1 h2 h3 h4 h5, ih]
    rfl
  | case7 rest ih => simp only [List.cons_append, escape, ih]
  | case8 rest ih => simp only [List.cons_append, escape, ih]
  | case9 rest ih => simp only [List.cons_append, escape, ih]
  | case10 rest ih => simp only [List.cons_append, escape, ih]
  | case11 c rest h1 h2 h3 h4 h5 h6 h7 h8 h9 h10 ih =>
    rw [List.cons_append, escape.eq_11 _ _ (fun r hc => absurd hc h6) (fun r hc => absurd hc h6) (fun r hc => absurd hc h6)
      (fun r hc => absurd hc h6) (fun r hc => absurd hc h6) h6 h7 h8 h9 h10,
      escape.eq_11 _ _ h1 h2 h3 h4 h5 h6 h7 h8 h9 h10, ih]
    rfl
  | case12 => simp [escape]

theorem escapeCfg_append_brace (ae : Bool) (a b : List Nat) :
    escapeCfg ae (a ++ 123 :: b) = escapeCfg ae a ++ escapeCfg ae (123 :: b) := by
  cases ae
  · simp [escapeCfg]
  · simp [escapeCfg, escape_append_brace]

end Qentem.Escape
