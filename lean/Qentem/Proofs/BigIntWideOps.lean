import Qentem.Proofs.BigIntWide
/-! `+=`, `-=`, `|=`, `&=` with an operand wider than a word. -/
namespace Qentem.BigInt

theorem or_split (W a r c n : Nat) (ha : a < 2 ^ W) (hc : c < 2 ^ W) :
    (a + 2 ^ W * r) ||| (c + 2 ^ W * n) = (a ||| c) + 2 ^ W * (r ||| n) := by
  have hB : 0 < 2 ^ W := Nat.pow_pos (by decide)
  have h1 := Nat.mod_add_div ((a + 2 ^ W * r) ||| (c + 2 ^ W * n)) (2 ^ W)
  rw [← h1, Nat.or_mod_two_pow, Nat.add_mul_mod_self_left, Nat.add_mul_mod_self_left, Nat.mod_eq_of_lt ha,
    Nat.mod_eq_of_lt hc, ← Nat.shiftRight_eq_div_pow, Nat.shiftRight_or_distrib, Nat.shiftRight_eq_div_pow,
    Nat.shiftRight_eq_div_pow, Nat.add_mul_div_left _ _ hB, Nat.add_mul_div_left _ _ hB, Nat.div_eq_of_lt ha,
    Nat.div_eq_of_lt hc, Nat.zero_add, Nat.zero_add]

theorem and_split (W a r c n : Nat) (ha : a < 2 ^ W) (hc : c < 2 ^ W) :
    (a + 2 ^ W * r) &&& (c + 2 ^ W * n) = (a &&& c) + 2 ^ W * (r &&& n) := by
  have hB : 0 < 2 ^ W := Nat.pow_pos (by decide)
  have h1 := Nat.mod_add_div ((a + 2 ^ W * r) &&& (c + 2 ^ W * n)) (2 ^ W)
  rw [← h1, Nat.and_mod_two_pow, Nat.add_mul_mod_self_left, Nat.add_mul_mod_self_left, Nat.mod_eq_of_lt ha,
    Nat.mod_eq_of_lt hc, ← Nat.shiftRight_eq_div_pow, Nat.shiftRight_and_distrib, Nat.shiftRight_eq_div_pow,
    Nat.shiftRight_eq_div_pow, Nat.add_mul_div_left _ _ hB, Nat.add_mul_div_left _ _ hB, Nat.div_eq_of_lt ha,
    Nat.div_eq_of_lt hc, Nat.zero_add, Nat.zero_add]

/-- the k-th base-2^W digit -/
def digit (W x k : Nat) : Nat := x / 2 ^ (W * k) % 2 ^ W

theorem digit_succ (W x k : Nat) : digit W x (k + 1) = digit W (x / 2 ^ W) k := by
  unfold digit
  rw [pow_mul_succ, Nat.div_div_eq_div_mul]

theorem digit_zero (W x : Nat) : digit W x 0 = x % 2 ^ W := by simp [digit]

theorem digit_pred (W x k : Nat) (hk : k ≠ 0) : digit W x k = digit W (x / 2 ^ W) (k - 1) := by
  obtain ⟨m, rfl⟩ : ∃ m, k = m + 1 := ⟨k - 1, by omega⟩
  rw [digit_succ]; simp

theorem valW_pointwise (W : Nat) (f : Nat → Nat → Nat)
    (hsplit : ∀ a r c n, a < 2 ^ W → c < 2 ^ W → f (a + 2 ^ W * r) (c + 2 ^ W * n) = f a c + 2 ^ W * f r n)
    (h00 : f 0 0 = 0) :
    ∀ (ws ws' : List Nat) (x : Nat), Bounded W ws → ws'.length = ws.length → x < 2 ^ (W * ws.length) →
    (∀ k, k < ws.length → ws'.getD k 0 = f (ws.getD k 0) (digit W x k)) → valW W ws' = f (valW W ws) x
  | [], [], x, _, _, hx, _ => by
    simp at hx
    have : x = 0 := by omega
    subst this; simp [valW, h00]
  | [], _ :: _, _, _, hl, _, _ => by simp at hl
  | _ :: _, [], _, _, hl, _, _ => by simp at hl
  | w :: r, w' :: r', x, hb, hl, hx, hp => by
    have hB : 0 < 2 ^ W := Nat.pow_pos (by decide)
    have hw : w < 2 ^ W := hb w (by simp)
    have h0 : w' = f w (x % 2 ^ W) := by
      have := hp 0 (by simp)
      simpa [digit_zero] using this
    have ih := valW_pointwise W f hsplit h00 r r' (x / 2 ^ W) (fun y hy => hb y (by simp [hy])) (by simpa using hl)
      (by
        apply Nat.div_lt_of_lt_mul
        rw [← Nat.pow_add]
        simp only [List.length_cons, Nat.mul_add, Nat.mul_one] at hx
        rw [Nat.add_comm]; exact hx)
      (fun k hk => by
        have := hp (k + 1) (by simpa using hk)
        rw [digit_succ] at this
        simpa using this)
    simp only [valW]
    rw [ih, h0]
    have := hsplit w (valW W r) (x % 2 ^ W) (x / 2 ^ W) hw (Nat.mod_lt _ hB)
    rw [Nat.mod_add_div] at this
    exact this.symm

theorem valW_or_pointwise {W : Nat} (ws ws' : List Nat) (x : Nat) (hb : Bounded W ws) (hl : ws'.length = ws.length)
    (hx : x < 2 ^ (W * ws.length)) (hp : ∀ k, k < ws.length → ws'.getD k 0 = ws.getD k 0 ||| digit W x k) :
    valW W ws' = valW W ws ||| x :=
  valW_pointwise W (· ||| ·) (or_split W) (by simp) ws ws' x hb hl hx hp

theorem valW_and_pointwise {W : Nat} (ws ws' : List Nat) (x : Nat) (hb : Bounded W ws) (hl : ws'.length = ws.length)
    (hx : x < 2 ^ (W * ws.length)) (hp : ∀ k, k < ws.length → ws'.getD k 0 = ws.getD k 0 &&& digit W x k) :
    valW W ws' = valW W ws &&& x :=
  valW_pointwise W (· &&& ·) (and_split W) (by simp) ws ws' x hb hl hx hp

theorem div_pow_lt {W number f : Nat} (hf : 0 < f) (h : number < 2 ^ (W * f)) :
    number / 2 ^ W < 2 ^ (W * (f - 1)) := by
  apply Nat.div_lt_of_lt_mul
  rw [← Nat.pow_add]
  have : W + W * (f - 1) = W * f := by
    have : f = (f - 1) + 1 := by omega
    rw [this, Nat.mul_add]; simp; omega
  rw [this]; exact h

theorem fpos_of_ne_zero {W number f : Nat} (h : number < 2 ^ (W * f)) (h0 : number ≠ 0) : 0 < f := by
  by_contra hcon
  have : f = 0 := by omega
  subst this; simp at h; omega

theorem index_lt_of_pow_mul_lt {W index number n : Nat} (h0 : number ≠ 0)
    (h : 2 ^ (W * index) * number < 2 ^ (W * n)) (hW : 0 < W) : index < n := by
  have h1 : 2 ^ (W * index) * 1 ≤ 2 ^ (W * index) * number := Nat.mul_le_mul_left _ (by omega)
  have h2 : 2 ^ (W * index) < 2 ^ (W * n) := by omega
  have h3 := (Nat.pow_lt_pow_iff_right (by decide : 1 < 2)).1 h2
  exact Nat.lt_of_mul_lt_mul_left h3

/-- the chunk loop of the wide `Add` -/
theorem wideLoop_add_spec {W : Nat} (chunks : Nat) : ∀ (fuel f : Nat) (s : Big) (number index : Nat),
    index + f ≤ chunks → f < fuel → number < 2 ^ (W * f) → Inv W s →
    s.val W + 2 ^ (W * index) * number < 2 ^ (W * s.words.length) →
    ∃ s' j, wideLoop W .add chunks fuel s number index = .ok (s', j) ∧ Inv W s' ∧ s'.words.length = s.words.length ∧
      s'.val W = s.val W + 2 ^ (W * index) * number
  | 0, _, _, _, _, _, hf, _, _, _ => by omega
  | fuel + 1, f, s, number, index, hcf, hf, hnum, h, hfit => by
    unfold wideLoop
    have hB : 0 < 2 ^ W := Nat.pow_pos (by decide)
    by_cases hz : number = 0
    · subst hz
      rw [if_neg (fun hcon => hcon.2.2 rfl)]
      exact ⟨s, index, rfl, h, rfl, by simp⟩
    · skip
      have hfpos := fpos_of_ne_zero hnum hz
      have hilt : index < s.words.length :=
        index_lt_of_pow_mul_lt hz (Nat.lt_of_le_of_lt (Nat.le_add_left _ _) hfit) h.wpos
      rw [if_pos ⟨by omega, by unfold maxIndex; omega, hz⟩]
      have hdm := Nat.mod_add_div number (2 ^ W)
      have e : 2 ^ (W * index) * number
          = (number % 2 ^ W) * 2 ^ (W * index) + 2 ^ (W * (index + 1)) * (number / 2 ^ W) := by
        conv_lhs => rw [← hdm]
        rw [pow_mul_succ]; ring
      obtain ⟨s1, hadd, hw1, hl1, hv1, _, _, htop1⟩ := add_spec s (number % 2 ^ W) index h.toWInv (Nat.mod_lt _ hB)
        (Nat.le_of_lt hilt) (by omega)
      have hinv1 : Inv W s1 := ⟨hw1, htop1 h.top⟩
      obtain ⟨s', j, hrun, hinv', hl', hv'⟩ := wideLoop_add_spec chunks fuel (f - 1) s1 (number / 2 ^ W) (index + 1)
        (by omega) (by omega) (div_pow_lt hfpos hnum) hinv1 (by rw [hv1, hl1]; omega)
      refine ⟨s', j, ?_, hinv', by omega, by rw [hv', hv1]; omega⟩
      simp only [bind, Except.bind, hadd, Nat.shiftRight_eq_div_pow]
      exact hrun

/-- the chunk loop of the wide `Subtract` -/
theorem wideLoop_sub_spec {W : Nat} (chunks : Nat) : ∀ (fuel f : Nat) (s : Big) (number index : Nat),
    index + f ≤ chunks → f < fuel → number < 2 ^ (W * f) → Inv W s → 2 ^ (W * index) * number ≤ s.val W →
    ∃ s' j, wideLoop W .sub chunks fuel s number index = .ok (s', j) ∧ Inv W s' ∧ s'.words.length = s.words.length ∧
      s'.val W + 2 ^ (W * index) * number = s.val W
  | 0, _, _, _, _, _, hf, _, _, _ => by omega
  | fuel + 1, f, s, number, index, hcf, hf, hnum, h, hfit => by
    unfold wideLoop
    have hB : 0 < 2 ^ W := Nat.pow_pos (by decide)
    by_cases hz : number = 0
    · subst hz
      rw [if_neg (fun hcon => hcon.2.2 rfl)]
      exact ⟨s, index, rfl, h, rfl, by simp⟩
    · skip
      have hfpos := fpos_of_ne_zero hnum hz
      have hilt : index < s.words.length :=
        index_lt_of_pow_mul_lt hz (Nat.lt_of_le_of_lt hfit h.toWInv.val_lt_total) h.wpos
      rw [if_pos ⟨by omega, by unfold maxIndex; omega, hz⟩]
      have hdm := Nat.mod_add_div number (2 ^ W)
      have e : 2 ^ (W * index) * number
          = (number % 2 ^ W) * 2 ^ (W * index) + 2 ^ (W * (index + 1)) * (number / 2 ^ W) := by
        conv_lhs => rw [← hdm]
        rw [pow_mul_succ]; ring
      obtain ⟨s1, hsub, hinv1, hl1, hv1⟩ := sub_spec s (number % 2 ^ W) index h (Nat.mod_lt _ hB)
        (Nat.le_of_lt hilt) (by omega)
      obtain ⟨s', j, hrun, hinv', hl', hv'⟩ := wideLoop_sub_spec chunks fuel (f - 1) s1 (number / 2 ^ W) (index + 1)
        (by omega) (by omega) (div_pow_lt hfpos hnum) hinv1 (by omega)
      refine ⟨s', j, ?_, hinv', by omega, by omega⟩
      simp only [bind, Except.bind, hsub, Nat.shiftRight_eq_div_pow]
      exact hrun

theorem wide_pre {W K : Nat} (hW : 0 < W) (hdvd : W ∣ K) (hm : K / W > 1) {x : Nat} (hx : x < 2 ^ K) :
    (K == W) = false ∧ x / 2 ^ W < 2 ^ (W * (K / W - 1)) := by
  constructor
  · apply beq_false_of_ne
    intro e; subst e; rw [Nat.div_self hW] at hm; omega
  · apply div_pow_lt (by omega)
    rw [Nat.mul_div_cancel' hdvd]; exact hx

/-- `+= number` for an operand type of `K = m·W` bits (m ≥ 2). -/
theorem add_wide_spec {W K : Nat} (s : Big) (x : Nat) (h : Inv W s) (hdvd : W ∣ K) (hm : K / W > 1)
    (hx : x < 2 ^ K) (hfit : s.val W + x < 2 ^ (W * s.words.length)) :
    ∃ s', opK W K .add s x = .ok s' ∧ Inv W s' ∧ s'.words.length = s.words.length ∧ s'.val W = s.val W + x := by
  have hB : 0 < 2 ^ W := Nat.pow_pos (by decide)
  obtain ⟨hKW, hnum⟩ := wide_pre h.wpos hdvd hm hx
  have hdm := Nat.mod_add_div x (2 ^ W)
  obtain ⟨s1, hadd, hw1, hl1, hv1, _, _, htop1⟩ := add_spec s (x % 2 ^ W) 0 h.toWInv (Nat.mod_lt _ hB)
    (Nat.zero_le _) (by simp; omega)
  have hinv1 : Inv W s1 := ⟨hw1, htop1 h.top⟩
  simp only [Nat.mul_zero, Nat.pow_zero, Nat.mul_one] at hv1
  obtain ⟨s', j, hrun, hinv', hl', hv'⟩ := wideLoop_add_spec (K / W) (K / W + 1) (K / W - 1) s1 (x / 2 ^ W) 1 (by omega) (by omega) hnum
    hinv1 (by rw [hv1, hl1]; simp; omega)
  refine ⟨s', ?_, hinv', by omega, by rw [hv', hv1]; simp; omega⟩
  unfold opK opWide
  simp only [hKW, Bool.false_eq_true, if_false, bind, Except.bind, hadd, hm, if_true, Nat.shiftRight_eq_div_pow]
  rw [hrun]
  rfl

/-- `-= number` for an operand type of `K = m·W` bits (m ≥ 2). -/
theorem sub_wide_spec {W K : Nat} (s : Big) (x : Nat) (h : Inv W s) (hdvd : W ∣ K) (hm : K / W > 1)
    (hx : x < 2 ^ K) (hfit : x ≤ s.val W) :
    ∃ s', opK W K .sub s x = .ok s' ∧ Inv W s' ∧ s'.words.length = s.words.length ∧ s'.val W = s.val W - x := by
  have hB : 0 < 2 ^ W := Nat.pow_pos (by decide)
  obtain ⟨hKW, hnum⟩ := wide_pre h.wpos hdvd hm hx
  have hdm := Nat.mod_add_div x (2 ^ W)
  obtain ⟨s1, hsub, hinv1, hl1, hv1⟩ := sub_spec s (x % 2 ^ W) 0 h (Nat.mod_lt _ hB) (Nat.zero_le _) (by simp; omega)
  simp only [Nat.mul_zero, Nat.pow_zero, Nat.mul_one] at hv1
  obtain ⟨s', j, hrun, hinv', hl', hv'⟩ := wideLoop_sub_spec (K / W) (K / W + 1) (K / W - 1) s1 (x / 2 ^ W) 1 (by omega) (by omega) hnum
    hinv1 (by simp; omega)
  refine ⟨s', ?_, hinv', by omega, by simp at hv'; omega⟩
  unfold opK opWide
  simp only [hKW, Bool.false_eq_true, if_false, bind, Except.bind, hsub, hm, if_true, Nat.shiftRight_eq_div_pow]
  rw [hrun]
  rfl

theorem room_step {W number n index : Nat} (hilt : index < n) (h : number < 2 ^ (W * (n - index))) :
    number / 2 ^ W < 2 ^ (W * (n - (index + 1))) := by
  apply Nat.div_lt_of_lt_mul
  rw [← Nat.pow_add]
  have : W + W * (n - (index + 1)) = W * (n - index) := by
    have : n - index = (n - (index + 1)) + 1 := by omega
    rw [this, Nat.mul_add]; simp; omega
  rw [this]; exact h

theorem index_lt_of_room {W number n index : Nat} (h0 : number ≠ 0) (hidx : index ≤ n)
    (h : number < 2 ^ (W * (n - index))) : index < n := by
  by_contra hcon
  have : n - index = 0 := by omega
  rw [this] at h; simp at h; omega

/-- the chunk loop of the wide `Or` -/
theorem wideLoop_or_spec {W : Nat} (chunks : Nat) : ∀ (fuel f : Nat) (s : Big) (number index : Nat),
    index + f ≤ chunks → f < fuel → number < 2 ^ (W * f) → Bounded W s.words → index ≤ s.words.length →
    number < 2 ^ (W * (s.words.length - index)) →
    ∃ s' j, wideLoop W .or chunks fuel s number index = .ok (s', j) ∧ s'.words.length = s.words.length ∧
      Bounded W s'.words ∧ (∀ k, k < index → s'.words.getD k 0 = s.words.getD k 0) ∧
      (∀ k, index ≤ k → s'.words.getD k 0 = s.words.getD k 0 ||| digit W number (k - index)) ∧
      (number = 0 → s'.idx = s.idx) ∧
      (number ≠ 0 → ∃ t, 2 ^ (W * t) ≤ number ∧ number < 2 ^ (W * (t + 1)) ∧ s'.idx = max s.idx (index + t))
  | 0, _, _, _, _, _, hf, _, _, _, _ => by omega
  | fuel + 1, f, s, number, index, hcf, hf, hnum, hb, hidx, hroom => by
    unfold wideLoop
    have hB : 0 < 2 ^ W := Nat.pow_pos (by decide)
    by_cases hz : number = 0
    · subst hz
      rw [if_neg (fun hcon => hcon.2.2 rfl)]
      refine ⟨s, index, rfl, rfl, hb, fun _ _ => rfl, fun k _ => by simp [digit], fun _ => rfl, fun h => absurd rfl h⟩
    · skip
      have hfpos := fpos_of_ne_zero hnum hz
      have hilt := index_lt_of_room hz hidx hroom
      rw [if_pos ⟨by omega, by unfold maxIndex; omega, hz⟩]
      have hchunk : number % 2 ^ W < 2 ^ W := Nat.mod_lt _ hB
      have hwB : s.words[index] < 2 ^ W := hb.getElem hilt
      obtain ⟨s', j, hrun, hl', hb', hlo, hhi, hi0, hi1⟩ := wideLoop_or_spec chunks fuel (f - 1)
        ⟨s.words.set index (s.words[index] ||| number % 2 ^ W), if index > s.idx then index else s.idx⟩
        (number / 2 ^ W) (index + 1) (by omega) (by omega) (div_pow_lt hfpos hnum)
        (hb.set _ (Nat.or_lt_two_pow hwB hchunk)) (by simp; omega) (by simpa using room_step hilt hroom)
      refine ⟨s', j, ?_, by simpa using hl', hb', ?_, ?_, fun h => absurd h hz, fun _ => ?_⟩
      · simp only [bind, Except.bind, rd_ok hilt, wr_ok _ hilt, Nat.shiftRight_eq_div_pow, pure, Except.pure]
        exact hrun
      · intro k hk
        rw [hlo k (by omega)]; exact getD_set_ne (by omega)
      · intro k hk
        by_cases hke : k = index
        · subst hke
          rw [hlo k (by omega)]
          simp only [Nat.sub_self, digit_zero]
          rw [getD_set_eq hilt, getD_eq_getElem hilt]
        · rw [hhi k (by omega)]
          simp only
          rw [getD_set_ne (by omega)]
          have : k - index = (k - (index + 1)) + 1 := by omega
          rw [this, digit_succ]
      · have hmax : (if index > s.idx then index else s.idx) = max s.idx index := by
          split <;> omega
        by_cases hq : number / 2 ^ W = 0
        · refine ⟨0, by simp; omega, ?_, ?_⟩
          · simp; exact (Nat.div_eq_zero_iff.1 hq).resolve_left (by omega)
          · rw [hi0 hq]; simp only; rw [hmax]; simp
        · obtain ⟨t, ht1, ht2, ht3⟩ := hi1 hq
          refine ⟨t + 1, ?_, ?_, ?_⟩
          · rw [pow_mul_succ]
            have := Nat.div_mul_le_self number (2 ^ W)
            have : 2 ^ W * 2 ^ (W * t) ≤ 2 ^ W * (number / 2 ^ W) := Nat.mul_le_mul_left _ ht1
            have := Nat.mod_add_div number (2 ^ W)
            omega
          · rw [pow_mul_succ]
            have h1 : number / 2 ^ W + 1 ≤ 2 ^ (W * (t + 1)) := ht2
            have h2 : 2 ^ W * (number / 2 ^ W + 1) ≤ 2 ^ W * 2 ^ (W * (t + 1)) := Nat.mul_le_mul_left _ h1
            have := Nat.mod_add_div number (2 ^ W)
            rw [Nat.mul_add] at h2
            omega
          · rw [ht3]; simp only; rw [hmax]; omega

/-- `|= number` for an operand type of `K = m·W` bits (m ≥ 2) that fits the storage. -/
theorem or_wide_spec {W K : Nat} (s : Big) (x : Nat) (h : Inv W s) (hdvd : W ∣ K) (hm : K / W > 1)
    (hx : x < 2 ^ K) (hfit : x < 2 ^ (W * s.words.length)) :
    ∃ s', opK W K .or s x = .ok s' ∧ Inv W s' ∧ s'.words.length = s.words.length ∧ s'.val W = s.val W ||| x := by
  have hW := h.wpos
  have hB : 0 < 2 ^ W := Nat.pow_pos (by decide)
  have hlt := h.idx_lt
  have h0 : 0 < s.words.length := by omega
  obtain ⟨hKW, hnum⟩ := wide_pre hW hdvd hm hx
  have hw0 : s.words[0] < 2 ^ W := h.bound.getElem h0
  have hlow : x % 2 ^ W < 2 ^ W := Nat.mod_lt _ hB
  have hroom : x / 2 ^ W < 2 ^ (W * (s.words.length - 1)) := by
    have := room_step (W := W) (number := x) (n := s.words.length) (index := 0) h0 (by simpa using hfit)
    simpa using this
  obtain ⟨s', j, hrun, hl', hb', hlo, hhi, hi0, hi1⟩ := wideLoop_or_spec (K / W) (K / W + 1) (K / W - 1)
    ⟨s.words.set 0 (s.words[0] ||| x % 2 ^ W), s.idx⟩ (x / 2 ^ W) 1 (by omega) (by omega) hnum
    (h.bound.set _ (Nat.or_lt_two_pow hw0 hlow)) (by simp; omega) (by simpa using hroom)
  simp only [List.length_set] at hl'
  have hpt : ∀ k, k < s.words.length → s'.words.getD k 0 = s.words.getD k 0 ||| digit W x k := by
    intro k _
    by_cases hk : k = 0
    · subst hk
      rw [hlo 0 (by omega)]; simp only
      rw [getD_set_eq h0, digit_zero, getD_eq_getElem h0]
    · rw [hhi k (by omega)]; simp only
      rw [getD_set_ne (by omega), digit_pred W x k hk]
  have hval : valW W s'.words = s.val W ||| x := valW_or_pointwise s.words s'.words x h.bound hl' hfit hpt
  have hvlt := h.toWInv.val_lt
  -- index bounds by value
  have hidx' : s.idx ≤ s'.idx ∧ x < 2 ^ (W * (s'.idx + 1)) ∧ (s'.idx = s.idx ∨ 2 ^ (W * s'.idx) ≤ x) := by
    by_cases hq : x / 2 ^ W = 0
    · have := hi0 hq
      simp only at this
      refine ⟨by omega, ?_, Or.inl this⟩
      have hxB : x < 2 ^ W := (Nat.div_eq_zero_iff.1 hq).resolve_left (by omega)
      exact Nat.lt_of_lt_of_le hxB (Nat.pow_le_pow_right (by decide) (Nat.le_mul_of_pos_right _ (by omega)))
    · obtain ⟨t, ht1, ht2, ht3⟩ := hi1 hq
      simp only at ht3
      have hdm := Nat.mod_add_div x (2 ^ W)
      have hxlo : 2 ^ (W * (t + 1)) ≤ x := by
        rw [pow_mul_succ]
        have : 2 ^ W * 2 ^ (W * t) ≤ 2 ^ W * (x / 2 ^ W) := Nat.mul_le_mul_left _ ht1
        omega
      have hxhi : x < 2 ^ (W * (t + 1 + 1)) := by
        rw [pow_mul_succ]
        have h1 : x / 2 ^ W + 1 ≤ 2 ^ (W * (t + 1)) := ht2
        have h2 : 2 ^ W * (x / 2 ^ W + 1) ≤ 2 ^ W * 2 ^ (W * (t + 1)) := Nat.mul_le_mul_left _ h1
        rw [Nat.mul_add] at h2
        omega
      refine ⟨by omega, ?_, ?_⟩
      · exact Nat.lt_of_lt_of_le hxhi (Nat.pow_le_pow_right (by decide) (Nat.mul_le_mul_left _ (by omega)))
      · by_cases hc : s.idx ≥ 1 + t
        · left; omega
        · right
          have : s'.idx = t + 1 := by omega
          rw [this]; exact hxlo
  obtain ⟨hge, hxlt, hcase⟩ := hidx'
  have hidxlt : s'.idx < s.words.length := by
    rcases hcase with e | e
    · omega
    · have h1 : 2 ^ (W * s'.idx) < 2 ^ (W * s.words.length) := by omega
      have h3 := (Nat.pow_lt_pow_iff_right (by decide : 1 < 2)).1 h1
      exact Nat.lt_of_mul_lt_mul_left h3
  have hvallt : valW W s'.words < 2 ^ (W * (s'.idx + 1)) := by
    rw [hval]
    apply Nat.or_lt_two_pow _ hxlt
    exact Nat.lt_of_lt_of_le hvlt (Nat.pow_le_pow_right (by decide) (Nat.mul_le_mul_left _ (by omega)))
  refine ⟨s', ?_, ?_, hl', hval⟩
  · unfold opK opWide
    simp only [hKW, Bool.false_eq_true, if_false, bind, Except.bind, rd_ok h0, wr_ok _ h0, hm, if_true,
      Nat.shiftRight_eq_div_pow, pure, Except.pure]
    rw [hrun]
    rfl
  · apply top_of_le_val ⟨hW, hb', by omega, zeroFrom_of_val_lt _ hvallt⟩
    intro hne
    show 2 ^ (W * s'.idx) ≤ valW W s'.words
    rw [hval]
    rcases hcase with e | e
    · have := h.le_val (by omega : s.idx ≠ 0)
      rw [e]
      exact Nat.le_trans this Nat.left_le_or
    · exact Nat.le_trans e Nat.right_le_or

theorem zeroUpTo_spec (last : Nat) : ∀ (fuel : Nat) (ws : List Nat) (index : Nat), last < ws.length →
    last + 1 - index < fuel →
    ∃ ws', zeroUpTo last fuel ws index = .ok ws' ∧ ws'.length = ws.length ∧
      (∀ k, index ≤ k → k ≤ last → ws'.getD k 0 = 0) ∧ (∀ k, (k < index ∨ last < k) → ws'.getD k 0 = ws.getD k 0)
  | 0, _, _, _, hf => by omega
  | fuel + 1, ws, index, hlen, hf => by
    unfold zeroUpTo
    by_cases hle : index ≤ last
    · rw [if_pos hle, wr_ok _ (by omega : index < ws.length)]
      simp only [bind, Except.bind]
      obtain ⟨ws', hrun, hl, hz, hfr⟩ := zeroUpTo_spec last fuel (ws.set index 0) (index + 1) (by simpa using hlen) (by omega)
      refine ⟨ws', hrun, by simpa using hl, ?_, ?_⟩
      · intro k h1 h2
        by_cases hk : k = index
        · subst hk; rw [hfr k (Or.inl (by omega)), getD_set_eq (by omega)]
        · exact hz k (by omega) h2
      · intro k hk
        rw [hfr k (by omega)]; exact getD_set_ne (by omega)
    · rw [if_neg hle]
      exact ⟨ws, rfl, rfl, fun k h1 h2 => by omega, fun _ _ => rfl⟩

/-- the chunk loop of the wide `And` -/
theorem wideLoop_and_spec {W : Nat} (chunks : Nat) : ∀ (fuel f : Nat) (s : Big) (number index : Nat),
    index + f ≤ chunks → f < fuel → number < 2 ^ (W * f) → Bounded W s.words → index ≤ s.words.length →
    number < 2 ^ (W * (s.words.length - index)) → s.idx < index →
    (∀ k, s.idx < k → k < index → s.words.getD k 0 = 0) → (s.idx ≠ 0 → s.words.getD s.idx 0 ≠ 0) →
    ∃ s' j, wideLoop W .and chunks fuel s number index = .ok (s', j) ∧ s'.words.length = s.words.length ∧
      Bounded W s'.words ∧ index ≤ j ∧ j ≤ s.words.length ∧
      (∀ k, k < index → s'.words.getD k 0 = s.words.getD k 0) ∧
      (∀ k, index ≤ k → k < j → s'.words.getD k 0 = s.words.getD k 0 &&& digit W number (k - index)) ∧
      (∀ k, j ≤ k → s'.words.getD k 0 = s.words.getD k 0) ∧
      number < 2 ^ (W * (j - index)) ∧ s'.idx < j ∧
      (∀ k, s'.idx < k → k < j → s'.words.getD k 0 = 0) ∧ (s'.idx ≠ 0 → s'.words.getD s'.idx 0 ≠ 0)
  | 0, _, _, _, _, _, hf, _, _, _, _, _, _, _ => by omega
  | fuel + 1, f, s, number, index, hcf, hf, hnum, hb, hidx, hroom, hsi, hzb, htop => by
    unfold wideLoop
    have hB : 0 < 2 ^ W := Nat.pow_pos (by decide)
    by_cases hz : number = 0
    · subst hz
      rw [if_neg (fun hcon => hcon.2.2 rfl)]
      exact ⟨s, index, rfl, rfl, hb, Nat.le_refl _, hidx, fun _ _ => rfl, fun k h1 h2 => by omega, fun _ _ => rfl,
        by simp, hsi, hzb, htop⟩
    · skip
      have hfpos := fpos_of_ne_zero hnum hz
      have hilt := index_lt_of_room hz hidx hroom
      rw [if_pos ⟨by omega, by unfold maxIndex; omega, hz⟩]
      have hwB : s.words[index] < 2 ^ W := hb.getElem hilt
      have handB : s.words[index] &&& number % 2 ^ W < 2 ^ W := Nat.lt_of_le_of_lt Nat.and_le_left hwB
      obtain ⟨s', j, hrun, hl', hb', hij, hjn, hlo, hmid, hhi, hnj, hsj, hzj, htj⟩ := wideLoop_and_spec chunks fuel (f - 1)
        ⟨s.words.set index (s.words[index] &&& number % 2 ^ W),
          if (s.words[index] &&& number % 2 ^ W) != 0 then index else s.idx⟩
        (number / 2 ^ W) (index + 1) (by omega) (by omega) (div_pow_lt hfpos hnum)
        (hb.set _ handB) (by simp; omega) (by simpa using room_step hilt hroom)
        (by simp only; split <;> omega)
        (by
          intro k h1 h2
          simp only at h1 ⊢
          by_cases hc : (s.words[index] &&& number % 2 ^ W) = 0
          · have hcb : ((s.words[index] &&& number % 2 ^ W) != 0) = false := by simp [hc]
            rw [hcb] at h1
            simp only [Bool.false_eq_true, if_false] at h1
            by_cases hke : k = index
            · subst hke; rw [getD_set_eq hilt]; exact hc
            · rw [getD_set_ne (by omega)]; exact hzb k h1 (by omega)
          · have hcb : ((s.words[index] &&& number % 2 ^ W) != 0) = true := by simp [hc]
            rw [hcb] at h1
            simp only [if_true] at h1
            omega)
        (by
          intro hne1
          simp only at hne1 ⊢
          by_cases hc : (s.words[index] &&& number % 2 ^ W) = 0
          · have hcb : ((s.words[index] &&& number % 2 ^ W) != 0) = false := by simp [hc]
            rw [hcb] at hne1 ⊢
            simp only [Bool.false_eq_true, if_false] at hne1 ⊢
            rw [getD_set_ne (by omega)]; exact htop hne1
          · have hcb : ((s.words[index] &&& number % 2 ^ W) != 0) = true := by simp [hc]
            rw [hcb]
            simp only [if_true]
            rw [getD_set_eq hilt]; exact hc)
      simp only [List.length_set] at hl' hjn
      refine ⟨s', j, ?_, hl', hb', by omega, hjn, ?_, ?_, ?_, ?_, hsj, hzj, htj⟩
      · simp only [bind, Except.bind, rd_ok hilt, wr_ok _ hilt, Nat.shiftRight_eq_div_pow, pure, Except.pure]
        exact hrun
      · intro k hk
        rw [hlo k (by omega)]; exact getD_set_ne (by omega)
      · intro k hk1 hk2
        by_cases hke : k = index
        · subst hke
          rw [hlo k (by omega)]
          simp only [Nat.sub_self, digit_zero]
          rw [getD_set_eq hilt, getD_eq_getElem hilt]
        · rw [hmid k (by omega) hk2]
          simp only
          rw [getD_set_ne (by omega)]
          have : k - index = (k - (index + 1)) + 1 := by omega
          rw [this, digit_succ]
      · intro k hk
        rw [hhi k hk]; exact getD_set_ne (by omega)
      · have e : j - index = (j - (index + 1)) + 1 := by omega
        rw [e, pow_mul_succ]
        have h1 : number / 2 ^ W + 1 ≤ 2 ^ (W * (j - (index + 1))) := hnj
        have h2 : 2 ^ W * (number / 2 ^ W + 1) ≤ 2 ^ W * 2 ^ (W * (j - (index + 1))) := Nat.mul_le_mul_left _ h1
        have := Nat.mod_add_div number (2 ^ W)
        have := Nat.mod_lt number hB
        rw [Nat.mul_add] at h2
        omega

theorem digit_eq_zero_of_lt {W x k : Nat} (h : x < 2 ^ (W * k)) : digit W x k = 0 := by
  unfold digit; rw [Nat.div_eq_of_lt h]; simp

/-- `&= number` for an operand type of `K = m·W` bits (m ≥ 2) that fits the storage (as repaired). -/
theorem and_wide_spec {W K : Nat} (s : Big) (x : Nat) (h : Inv W s) (hdvd : W ∣ K) (hm : K / W > 1)
    (hx : x < 2 ^ K) (hfit : x < 2 ^ (W * s.words.length)) :
    ∃ s', opK W K .and s x = .ok s' ∧ Inv W s' ∧ s'.words.length = s.words.length ∧ s'.val W = s.val W &&& x := by
  have hW := h.wpos
  have hB : 0 < 2 ^ W := Nat.pow_pos (by decide)
  have hlt := h.idx_lt
  have h0 : 0 < s.words.length := by omega
  obtain ⟨hKW, hnum⟩ := wide_pre hW hdvd hm hx
  have hw0 : s.words[0] < 2 ^ W := h.bound.getElem h0
  have hand0 : s.words[0] &&& x % 2 ^ W < 2 ^ W := Nat.lt_of_le_of_lt Nat.and_le_left hw0
  have hroom : x / 2 ^ W < 2 ^ (W * (s.words.length - 1)) := by
    have := room_step (W := W) (number := x) (n := s.words.length) (index := 0) h0 (by simpa using hfit)
    simpa using this
  obtain ⟨s2, j, hrun, hl2, hb2, hij, hjn, hlo, hmid, hhi, hnj, hsj, hzj, htj⟩ := wideLoop_and_spec (K / W) (K / W + 1) (K / W - 1)
    ⟨s.words.set 0 (s.words[0] &&& x % 2 ^ W), 0⟩ (x / 2 ^ W) 1 (by omega) (by omega) hnum
    (h.bound.set _ hand0) (by simp; omega) (by simpa using hroom) (by simp) (fun k h1 h2 => by simp at h1 h2; omega)
    (fun hne => absurd rfl hne)
  simp only [List.length_set] at hl2 hjn
  obtain ⟨ws', hrun3, hl3, hz3, hfr3⟩ := zeroUpTo_spec s.idx (s.idx + 2) s2.words j (by omega) (by omega)
  have hxj : x < 2 ^ (W * j) := by
    have e : j = (j - 1) + 1 := by omega
    rw [e, pow_mul_succ]
    have h1 : x / 2 ^ W + 1 ≤ 2 ^ (W * (j - 1)) := hnj
    have h2 : 2 ^ W * (x / 2 ^ W + 1) ≤ 2 ^ W * 2 ^ (W * (j - 1)) := Nat.mul_le_mul_left _ h1
    have := Nat.mod_add_div x (2 ^ W)
    have := Nat.mod_lt x hB
    rw [Nat.mul_add] at h2
    omega
  have hhigh : ∀ k, j ≤ k → ws'.getD k 0 = 0 := by
    intro k hk
    by_cases hk2 : k ≤ s.idx
    · exact hz3 k hk hk2
    · rw [hfr3 k (Or.inr (by omega)), hhi k hk]
      simp only
      rw [getD_set_ne (by omega)]; exact h.above k (by omega)
  have hpt : ∀ k, k < s.words.length → ws'.getD k 0 = s.words.getD k 0 &&& digit W x k := by
    intro k _
    by_cases hkj : k < j
    · rw [hfr3 k (Or.inl hkj)]
      by_cases hk : k = 0
      · subst hk
        rw [hlo 0 (by omega)]; simp only
        rw [getD_set_eq h0, digit_zero, getD_eq_getElem h0]
      · rw [hmid k (by omega) hkj]; simp only
        rw [getD_set_ne (by omega), digit_pred W x k hk]
    · rw [hhigh k (by omega), digit_eq_zero_of_lt (Nat.lt_of_lt_of_le hxj
        (Nat.pow_le_pow_right (by decide) (Nat.mul_le_mul_left _ (by omega))))]
      simp
  have hl' : ws'.length = s.words.length := by omega
  have hval : valW W ws' = s.val W &&& x := valW_and_pointwise s.words ws' x h.bound hl' hfit hpt
  have hbd : Bounded W ws' := bounded_of_getD (fun k hk => by
    rw [hpt k (by omega)]; exact Nat.lt_of_le_of_lt Nat.and_le_left (h.bound.getD k))
  refine ⟨⟨ws', s2.idx⟩, ?_, ⟨⟨hW, hbd, by simp; omega, ?_⟩, ?_⟩, hl', hval⟩
  · unfold opK opWide
    simp only [hKW, Bool.false_eq_true, if_false, bind, Except.bind, rd_ok h0, wr_ok _ h0, hm, if_true,
      Nat.shiftRight_eq_div_pow, pure, Except.pure]
    rw [hrun]
    simp only [show (BOp.and == BOp.and) = true by rfl, if_true]
    rw [hrun3]
  · intro k hk
    have hk' : s2.idx + 1 ≤ k := hk
    show ws'.getD k 0 = 0
    by_cases hkj : k < j
    · rw [hfr3 k (Or.inl hkj)]; exact hzj k (by omega) hkj
    · exact hhigh k (by omega)
  · intro hne
    have hne' : s2.idx ≠ 0 := hne
    show ws'.getD s2.idx 0 ≠ 0
    rw [hfr3 _ (Or.inl hsj)]; exact htj hne'

end Qentem.BigInt
