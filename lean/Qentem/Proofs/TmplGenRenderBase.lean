import Qentem.Proofs.TmplGenBase
/-!
# C02 stage 7 — rendering trees with loops against the reference interpreter

`EnvE`: one enclosing loop with its current item and key.  The renderer's `loops_items_` holds the
items of the enclosing loops at their levels (`ItemsOk`); the reference interpreter's scope is the
list of their bindings, innermost first (`scOf`).
-/
set_option linter.unusedSectionVars false
set_option linter.unusedVariables false
set_option linter.unnecessarySimpa false
namespace Qentem.Tmpl
open Qentem.Expr (Fault rd ScanCfg VarRef Item Num Val Env RealLike)
open Qentem.Generated.Tmpl

variable {R : Type}

/-- one enclosing loop with the item and key of the current iteration -/
structure EnvE where
  d : LoopD
  x : Doc
  key : List Nat

def dOf (E : List EnvE) : List LoopD := E.map (·.d)
def scOf (E : List EnvE) : List Binding := E.map (fun e => ⟨e.d.V, e.x, e.key⟩)

/-- `loops_items_` holds every enclosing loop's current item at the loop's level -/
def ItemsOk (items : List LoopItem) (E : List EnvE) : Prop :=
  ∀ e ∈ E, items[e.d.lv]? = some ⟨some e.x, e.key⟩

/-- the documented path shape; a path that starts with the value name of an enclosing loop has that
name as its name part -/
def PathOkV (Vs : List (List Nat)) (p : List Nat) : Prop :=
  ∃ name keys, p = name ++ brk keys ∧ name ≠ [] ∧ noB name ∧ (∀ k ∈ keys, noB k) ∧
    ∀ V ∈ Vs, V.isPrefixOf p = true → name = V

/-- the value names of the enclosing loops, innermost first -/
def vsOf (E : List EnvE) : List (List Nat) := E.map (·.d.V)

theorem findV_name (name rest : List Nat) : ∀ (E : List EnvE),
    (∀ e ∈ E, e.d.V.isPrefixOf (name ++ rest) = true → name = e.d.V) →
    findV (dOf E) (name ++ rest) = (E.find? (fun e => e.d.V == name)).map (fun e => (e.d.V.length, e.d.lv)) := by
  intro E
  induction E with
  | nil => intro _; rfl
  | cons e r ih =>
    intro h
    simp only [dOf, List.map_cons, findV, List.find?_cons]
    by_cases hp : e.d.V.isPrefixOf (name ++ rest) = true
    · have hn := h e (List.mem_cons_self ..) hp
      have : (e.d.V == name) = true := by simp [← hn]
      simp [hp, this]
    · have hne : ¬ (e.d.V = name) := by
        intro he; apply hp; rw [he]; exact isPrefixOf_self_append name rest
      have : (e.d.V == name) = false := by simpa using hne
      simp only [hp, Bool.false_eq_true, if_false, this]
      exact ih (fun x hx => h x (List.mem_cons_of_mem _ hx))

theorem find_sc (name : List Nat) : ∀ (E : List EnvE),
    (scOf E).find? (fun b => b.name == name) =
      (E.find? (fun e => e.d.V == name)).map (fun e => (⟨e.d.V, e.x, e.key⟩ : Binding)) := by
  intro E
  induction E with
  | nil => rfl
  | cons e r ih =>
    simp only [scOf, List.map_cons, List.find?_cons]
    cases h : (e.d.V == name)
    · simp only []; exact ih
    · rfl


/-- a `{var:…}` operand of an expression text `ct` scanned alone and its copy `k` units into the
content, under the chain `D` -/
def PvD (D : List LoopD) (ct : List Nat) (k n : Nat) (v v' : VarRef) : Prop :=
  v' = refD D (k + v.off) ((ct.drop v.off).take v.len) ∧ v.off + v.len < n

theorem pvD_scan (cfg : ScanCfg R) (c A ct post : List Nat) (hc : c = A ++ (ct ++ post)) (D : List LoopD)
    (hD : ChainD c D) (hlen : ct.length ≤ 65536) (off en : Nat) (h2 : off + 5 < en) (h3 : ct[en]? = some 125) :
    PvD D ct A.length ct.length (Qentem.Expr.scanVar ({ readNum := cfg.readNum } : ScanCfg R) off en)
      (Qentem.Expr.scanVar ({ cfg with loopVar := loopVarPure c (refsD D) } : ScanCfg R) (A.length + off) (A.length + en)) := by
  have hen : en < ct.length := (List.getElem?_eq_some_iff.mp h3).1
  have hmod : (en - (off + 5)) % 2 ^ Qentem.Generated.Expr.variableLengthBits = en - (off + 5) := by
    apply Nat.mod_eq_of_lt
    have : (2 : Nat) ^ Qentem.Generated.Expr.variableLengthBits = 65536 := by decide
    omega
  -- the operand's text and what follows it
  have hsplit : ct = ct.take (off + 5) ++ ((ct.drop (off + 5)).take (en - (off + 5)) ++ 125 :: ct.drop (en + 1)) := by
    have h1 : ct = ct.take (off + 5) ++ ct.drop (off + 5) := (List.take_append_drop _ _).symm
    have h2' : ct.drop (off + 5) = (ct.drop (off + 5)).take (en - (off + 5)) ++ (ct.drop (off + 5)).drop (en - (off + 5)) :=
      (List.take_append_drop _ _).symm
    have h3' : (ct.drop (off + 5)).drop (en - (off + 5)) = ct.drop en := by
      rw [List.drop_drop]; congr 1; omega
    have h4 : ct.drop en = 125 :: ct.drop (en + 1) := by
      rw [List.drop_eq_getElem_cons hen]
      have := List.getElem?_eq_getElem hen
      rw [h3] at this
      rw [← Option.some.inj this]
    rw [h3', h4] at h2'
    rw [← h2']; exact h1
  have hcA : c = (A ++ ct.take (off + 5)) ++
      ((ct.drop (off + 5)).take (en - (off + 5)) ++ 125 :: (ct.drop (en + 1) ++ post)) := by
    rw [hc]; conv => lhs; rw [hsplit]
    simp [List.append_assoc]
  have hlA : (A ++ ct.take (off + 5)).length = A.length + (off + 5) := by
    simp only [List.length_append, List.length_take]; omega
  have hpl : ((ct.drop (off + 5)).take (en - (off + 5))).length = en - (off + 5) := by
    simp only [List.length_take, List.length_drop]; omega
  have hck := checkLoopVariable_D c (A ++ ct.take (off + 5)) _ hcA
    ⟨en - (off + 5), 125, by rw [← hpl]; simp, Or.inl rfl⟩ D hD
  rw [hlA, findV_stop c 125 (Or.inl rfl) _ _ D hD] at hck
  refine ⟨?_, ?_⟩
  · simp only [Qentem.Expr.scanVar, loopVarPure]
    rw [show A.length + off + 5 = A.length + (off + 5) by omega, hck,
      show A.length + en - (A.length + (off + 5)) = en - (off + 5) by omega, hmod]
    simp only [refD, hpl]
    cases findV D ((ct.drop (off + 5)).take (en - (off + 5))) with
    | none => rfl
    | some ab => obtain ⟨a, b⟩ := ab; rfl
  · simp only [Qentem.Expr.scanVar, hmod]; omega


/-- a quoted expression text scanned in place under a loop chain -/
theorem exprs_quoted_env (cfg : ScanCfg R) (c A0 e post : List Nat)
    (hc : c = (A0 ++ [34]) ++ (e ++ [34]) ++ post) (D : List LoopD) (hD : ChainD c D) (hlen : e.length < 65536)
    (items : List (Item R))
    (hs : Qentem.Expr.parseTop ({ readNum := cfg.readNum } : ScanCfg R) (e ++ [34]) 0 e.length = .ok items) :
    ∃ items', exprs cfg c (refsD D) (A0.length + 1) (A0.length + 1 + e.length) = .ok items' ∧
      Qentem.Expr.RelItems (PvD D (e ++ [34]) (A0.length + 1) (e.length + 1)) (A0.length + 1) (e.length + 1) items items' := by
  have hrel := reloc_quoted c A0 e post hc
  have hl : (A0 ++ [34]).length = A0.length + 1 := by simp
  obtain ⟨items', h1, h2⟩ := Qentem.Expr.parseTop_relocV ({ readNum := cfg.readNum } : ScanCfg R)
    { cfg with loopVar := loopVarPure c (refsD D) } rfl hrel (PvD D (e ++ [34]) (A0.length + 1) (e.length + 1))
    (by
      intro off en _ h2 h3
      have := pvD_scan cfg c (A0 ++ [34]) (e ++ [34]) post (by rw [hc]; simp [List.append_assoc]) D hD
        (by simp; omega) off en h2 h3
      rw [hl] at this
      simpa using this)
    0 e.length (by simp) items hs
  exact ⟨items', by simpa [exprs] using h1, by simpa using h2⟩

/-- the expression of a `{math:e}` tag scanned in place under a loop chain -/
theorem exprs_math_env (cfg : ScanCfg R) (c pre e post : List Nat)
    (hc : c = pre ++ (([123, 109, 97, 116, 104, 58] ++ e ++ [125]) ++ post)) (D : List LoopD) (hD : ChainD c D)
    (hlen : e.length < 65536) (items : List (Item R))
    (hs : Qentem.Expr.parseTop ({ readNum := cfg.readNum } : ScanCfg R) (e ++ [125]) 0 e.length = .ok items) :
    ∃ items', exprs cfg c (refsD D) (pre.length + 6) (pre.length + 6 + e.length) = .ok items' ∧
      Qentem.Expr.RelItems (PvD D (e ++ [125]) (pre.length + 6) (e.length + 1)) (pre.length + 6) (e.length + 1) items items' := by
  have hrel := reloc_math c pre e post hc
  have hl : (pre ++ [123, 109, 97, 116, 104, 58]).length = pre.length + 6 := by simp
  obtain ⟨items', h1, h2⟩ := Qentem.Expr.parseTop_relocV ({ readNum := cfg.readNum } : ScanCfg R)
    { cfg with loopVar := loopVarPure c (refsD D) } rfl hrel (PvD D (e ++ [125]) (pre.length + 6) (e.length + 1))
    (by
      intro off en _ h2 h3
      have := pvD_scan cfg c (pre ++ [123, 109, 97, 116, 104, 58]) (e ++ [125]) post
        (by rw [hc]; simp [List.append_assoc]) D hD (by simp; omega) off en h2 h3
      rw [hl] at this
      simpa using this)
    0 e.length (by simp) items hs
  exact ⟨items', by simpa [exprs] using h1, by simpa using h2⟩


theorem itemsOk_append (items extra : List LoopItem) (E : List EnvE) (h : ItemsOk items E) :
    ItemsOk (items ++ extra) E := by
  intro e he
  have := h e he
  have hlt : e.d.lv < items.length := by
    rcases Nat.lt_or_ge e.d.lv items.length with h' | h'
    · exact h'
    · rw [List.getElem?_eq_none h'] at this; cases this
  rw [List.getElem?_append_left hlt]; exact this

theorem itemsOk_set (items : List LoopItem) (E : List EnvE) (lv : Nat) (it : LoopItem) (h : ItemsOk items E)
    (hne : ∀ e ∈ E, e.d.lv ≠ lv) : ItemsOk (items.set lv it) E := by
  intro e he
  rw [List.getElem?_set_ne (Ne.symm (hne e he))]
  exact h e he

/-- sum of the per-item fuel needs -/
def sumEnts (Nf : Doc → List Nat → Nat) : List (List Nat × Doc) → Nat
  | [] => 0
  | (k, v) :: r => Nf v k + sumEnts Nf r



section
variable [RealLike R]

/-- `getValue` / `loopKeyText` of a variable under the enclosing loops = `resolve` under their bindings -/
theorem getValue_env (cx : RCtx R) (hg : cx.guardIndexRead = true) (st : RState)
    (A post p : List Nat) (hc : cx.content = A ++ (p ++ post)) (E : List EnvE)
    (hp : PathOkV (vsOf E) p) (hit : ItemsOk st.items E) :
    getValue cx st (refD (dOf E) A.length p) = .ok (resolve cx.root (scOf E) p).1 ∧
    loopKeyText st (refD (dOf E) A.length p) =
      .ok (match (resolve cx.root (scOf E) p).2 with
        | some bd => if bd.key.length = 0 then none else some bd.key
        | none => none) := by
  obtain ⟨name, keys, rfl, hne, hn, hk, hpre0⟩ := hp
  have hpre : ∀ e ∈ E, e.d.V.isPrefixOf (name ++ brk keys) = true → name = e.d.V :=
    fun e he => hpre0 e.d.V (List.mem_map_of_mem he)
  have hsp := splitPath_ok name keys hn hk
  have hfv := findV_name name (brk keys) E hpre
  have hsc := find_sc name E
  have hres : resolve cx.root (scOf E) (name ++ brk keys) =
      match (E.find? (fun e => e.d.V == name)) with
      | some e => (follow (some e.x) keys, some ⟨e.d.V, e.x, e.key⟩)
      | none => (follow (cx.root.getKey name) keys, none) := by
    simp only [resolve, hsp, hsc]
    cases E.find? (fun e => e.d.V == name) <;> rfl
  rw [hres]
  simp only [refD, hfv]
  cases hf : E.find? (fun e => e.d.V == name) with
  | none =>
    simp only [Option.map_none, mkV]
    exact ⟨getValue_top cx hg st A post name keys hc hne hn hk, by simp [loopKeyText]⟩
  | some e =>
    have hmem : e ∈ E := List.mem_of_find?_eq_some hf
    have hev : e.d.V = name := by
      have := List.find?_some hf
      simpa using this
    simp only [Option.map_some, mkV, hev]
    have hie := hit e hmem
    refine ⟨getValue_loopvar cx hg st A post name keys hc hne hn hk e.d.lv _ hie, ?_⟩
    have hnl : name.length ≠ 0 := by
      have := List.length_pos_iff.mpr hne; omega
    simp [loopKeyText, hnl, itemAt, hie]

theorem renderVariable_env (cx : RCtx R) (hg : cx.guardIndexRead = true) (st : RState)
    (B txt p post : List Nat)
    (hc : cx.content = B ++ (txt ++ (([123, 118, 97, 114, 58] ++ p ++ [125]) ++ post)))
    (E : List EnvE) (hp : PathOkV (vsOf E) p) (hit : ItemsOk st.items E) :
    renderVariable cx st (refD (dOf E) ((B ++ txt).length + 5) p) B.length =
      .ok (emit (emit st txt) (expSegB cx (scOf E) (.var p)), (B ++ txt).length + 5 + p.length + 1) := by
  have h5 : W1.variablePrefixLength = 5 := by decide
  have h6 : W1.variableFullLength = 6 := by decide
  have hsl : slice cx.content B.length (B ++ txt).length = .ok txt := by rw [hc]; exact slice_from B txt _
  have hA : (B ++ txt).length + 5 = (B ++ txt ++ [123, 118, 97, 114, 58]).length := by simp [Nat.add_assoc]
  have hgk := getValue_env cx hg (emit st txt) (B ++ txt ++ [123, 118, 97, 114, 58]) ([125] ++ post) p
    (by rw [hc]; simp [List.append_assoc]) E hp (by simpa [emit] using hit)
  rw [← hA] at hgk
  obtain ⟨hgv, hkt⟩ := hgk
  have hsrc : slice cx.content (B ++ txt).length ((B ++ txt).length + (p.length + 6)) =
      .ok (printSeg (.var p)) := by
    have := slice_mid (B ++ txt) ([123, 118, 97, 114, 58] ++ p ++ [125]) post
    rw [hc]
    simpa [printSeg, List.append_assoc, Nat.add_assoc] using this
  have hoff : (refD (dOf E) ((B ++ txt).length + 5) p).off = (B ++ txt).length + 5 := by
    simp only [refD, mkV]; split <;> rfl
  have hlen : (refD (dOf E) ((B ++ txt).length + 5) p).len = p.length := by
    simp only [refD, mkV]; split <;> rfl
  simp only [renderVariable, subChk, h5, h6, hoff, hlen, show 5 ≤ (B ++ txt).length + 5 by omega, if_true,
    Nat.add_sub_cancel, bind, Except.bind, hsl, hgv, hkt, expSegB]
  cases hv : (resolve cx.root (scOf E) p).1.bind (copyValue cx true) with
  | some t => simp; omega
  | none =>
    cases hb : (resolve cx.root (scOf E) p).2 with
    | none => simp only [hsrc]; simp; omega
    | some bd =>
      by_cases hk0 : bd.key.length = 0
      · have : bd.key.isEmpty = true := by simpa [List.isEmpty_iff_length_eq_zero] using hk0
        simp only [hk0, if_true, hsrc, this]; simp; omega
      · have : bd.key.isEmpty = false := by
          cases hbk : bd.key with
          | nil => simp [hbk] at hk0
          | cons a b => rfl
        simp only [hk0, if_false, this]; simp; omega


theorem renderRaw_env (cx : RCtx R) (hg : cx.guardIndexRead = true) (st : RState)
    (B txt p post : List Nat)
    (hc : cx.content = B ++ (txt ++ (([123, 114, 97, 119, 58] ++ p ++ [125]) ++ post)))
    (E : List EnvE) (hp : PathOkV (vsOf E) p) (hit : ItemsOk st.items E) :
    renderRawVariable cx st (refD (dOf E) ((B ++ txt).length + 5) p) B.length =
      .ok (emit (emit st txt) (expSegB cx (scOf E) (.raw p)), (B ++ txt).length + 5 + p.length + 1) := by
  have h5 : W1.rawVariablePrefixLength = 5 := by decide
  have h6 : W1.rawVariableFullLength = 6 := by decide
  have hsl : slice cx.content B.length (B ++ txt).length = .ok txt := by rw [hc]; exact slice_from B txt _
  have hA : (B ++ txt).length + 5 = (B ++ txt ++ [123, 114, 97, 119, 58]).length := by simp [Nat.add_assoc]
  have hgk := getValue_env cx hg (emit st txt) (B ++ txt ++ [123, 114, 97, 119, 58]) ([125] ++ post) p
    (by rw [hc]; simp [List.append_assoc]) E hp (by simpa [emit] using hit)
  rw [← hA] at hgk
  obtain ⟨hgv, _⟩ := hgk
  have hsrc : slice cx.content (B ++ txt).length ((B ++ txt).length + (p.length + 6)) =
      .ok (printSeg (.raw p)) := by
    have := slice_mid (B ++ txt) ([123, 114, 97, 119, 58] ++ p ++ [125]) post
    rw [hc]
    simpa [printSeg, List.append_assoc, Nat.add_assoc] using this
  have hoff : (refD (dOf E) ((B ++ txt).length + 5) p).off = (B ++ txt).length + 5 := by
    simp only [refD, mkV]; split <;> rfl
  have hlen : (refD (dOf E) ((B ++ txt).length + 5) p).len = p.length := by
    simp only [refD, mkV]; split <;> rfl
  simp only [renderRawVariable, subChk, h5, h6, hoff, hlen, show 5 ≤ (B ++ txt).length + 5 by omega, if_true,
    Nat.add_sub_cancel, bind, Except.bind, hsl, hgv, expSegB]
  cases hv : (resolve cx.root (scOf E) p).1.bind (copyValue cx false) with
  | some t => simp; omega
  | none => simp only [hsrc]; simp; omega



/-- the code's evaluation of a list scanned in place under the enclosing loops = the evaluation of
the list scanned alone in the reference environment with their bindings -/
theorem evalExprs_env (cx : RCtx R) (hg : cx.guardIndexRead = true) (st : RState) (E : List EnvE)
    (hit : ItemsOk st.items E) (envS : Env R) (k : Nat) (items0 items' : List (Item R))
    (hre : ∀ lk, Qentem.Expr.RelEnv envS ({ content := cx.content, lookup := lk, readNum := cx.readNum } : Env R) k)
    (hlookS : ∀ v, envS.lookup v =
      ((resolve cx.root (scOf E) ((envS.content.drop v.off).take v.len)).1).map (docVarVal (specOf cx)))
    (hrel : Qentem.Expr.RelItems (PvD (dOf E) envS.content k envS.content.length) k envS.content.length items0 items')
    (hpath : ∀ v ∈ itemsVars items0, PathOkV (vsOf E) ((envS.content.drop v.off).take v.len))
    (hlen : k + envS.content.length ≤ cx.content.length) (hne : items'.isEmpty = false) :
    evalExprs cx st items' = .ok (Qentem.Expr.evaluateTop envS true items0) ∧
      (∀ v, Qentem.Expr.evaluateTop envS true items0 = some v → ∃ x, v = .num x) := by
  let g : VarRef → Option Doc := fun v' => (resolve cx.root (scOf E) ((cx.content.drop v'.off).take v'.len)).1
  have hsl : ∀ v : VarRef, v.off + v.len < envS.content.length →
      (cx.content.drop (k + v.off)).take v.len = (envS.content.drop v.off).take v.len :=
    fun v hb => (hre (fun _ => none)).slice v.off v.len (by omega)
  have hget : ∀ v' ∈ itemsVars items', getValue cx st v' = .ok (g v') := by
    intro v' hv'
    obtain ⟨v, hv, hpv, hb⟩ := (rel_vars_back _).1 items0 items' (Nat.le_refl _) hrel v' hv'
    subst hpv
    have hp := hpath v hv
    have hs := hsl v hb
    have hlp : ((envS.content.drop v.off).take v.len).length = v.len := by
      simp only [List.length_take, List.length_drop]; omega
    have hc' : cx.content = cx.content.take (k + v.off) ++
        ((envS.content.drop v.off).take v.len ++ (cx.content.drop (k + v.off)).drop v.len) := by
      rw [← hs, List.take_append_drop, List.take_append_drop]
    have hla : (cx.content.take (k + v.off)).length = k + v.off := by
      simp only [List.length_take]; omega
    have := (getValue_env cx hg st _ _ _ hc' E hp hit).1
    rw [hla] at this
    rw [this]
    simp only [g, refD_off, refD_len, hlp, hs]
  let f : VarRef → Option (Qentem.Expr.VarVal R) := fun v => (g v).map (docToVarVal cx)
  have hres := resolveVars_ok cx st g (itemsVars items') hget
  let env' : Env R := ⟨cx.content,
    fun v => (((itemsVars items').map (fun w => (w, f w))).find? (fun p => p.1 == v)).bind (·.2), cx.readNum⟩
  have hrel2 := (rel_mem _).1 items0 items'
    (fun v v' => PvD (dOf E) envS.content k envS.content.length v v' ∧ v' ∈ itemsVars items') (Nat.le_refl _) hrel
    (fun v v' h _ h2 => ⟨h, h2⟩)
  have hlk : Qentem.Expr.RelLookup (fun v v' => PvD (dOf E) envS.content k envS.content.length v v' ∧ v' ∈ itemsVars items') envS env' := by
    intro v v' ⟨⟨hpv, hb⟩, hm⟩
    show (((itemsVars items').map (fun w => (w, f w))).find? (fun p => p.1 == v')).bind (·.2) = envS.lookup v
    rw [find_resolved f _ v' hm, hlookS v]
    subst hpv
    have hlp : ((envS.content.drop v.off).take v.len).length = v.len := by
      simp only [List.length_take, List.length_drop]; omega
    simp only [f, g, refD_off, refD_len, hlp, hsl v hb]
    congr 1
  have hev := Qentem.Expr.evaluateTop_reloc (hre env'.lookup) hlk true items0 items' hrel2
  refine ⟨?_, hev.2⟩
  simp only [evalExprs, hne, Bool.false_eq_true, if_false, hres, bind, Except.bind]
  exact congrArg Except.ok hev.1


/-- the environment in which the reference interpreter evaluates the text `e` followed by `t` -/
def specEnvS (cx : RCtx R) (sc : List Binding) (e : List Nat) (t : Nat) : Env R :=
  { content := e ++ [t],
    lookup := fun v => ((resolve cx.root sc (((e ++ [t]).drop v.off).take v.len)).1).map (docVarVal (specOf cx)),
    readNum := cx.readNum }


theorem evalText_eqS (cx : RCtx R) (sc : List Binding) (e : List Nat) (t : Nat) (items0 : List (Item R))
    (h0 : Qentem.Expr.parseTop ({ readNum := cx.readNum } : ScanCfg R) (e ++ [t]) 0 e.length = .ok items0) :
    evalText (specOf cx) sc e t =
      if items0.isEmpty then none else Qentem.Expr.evaluateTop (specEnvS cx sc e t) true items0 := by
  simp only [evalText, specOf, h0]
  cases items0 with
  | nil => rfl
  | cons x xs =>
    have hwf := Qentem.Expr.parseTop_wf ({ readNum := cx.readNum } : ScanCfg R) (e ++ [t]) 0 e.length (by simp)
    rw [h0] at hwf
    rcases hwf with h | h
    · cases h
    · simp only [List.isEmpty_cons, Bool.false_eq_true, if_false]
      exact (Qentem.Expr.evaluateTop_eq_tree _ _ h).symm


/-- the paths of the `{var:}` operands the scanner finds in an expression text have the documented
shape with respect to the enclosing loops -/
def varsOkV (rn : List Nat → Option (Num R)) (Vs : List (List Nat)) (e : List Nat) (t : Nat) : Prop :=
  ∀ items : List (Item R),
    Qentem.Expr.parseTop ({ readNum := rn } : ScanCfg R) (e ++ [t]) 0 e.length = .ok items →
    ∀ v ∈ itemsVars items, PathOkV Vs (((e ++ [t]).drop v.off).take v.len)


theorem renderMath_env (cx : RCtx R) (cfg : ScanCfg R) (hg : cx.guardIndexRead = true)
    (hrn : cfg.readNum = cx.readNum) (st : RState)
    (B txt e post : List Nat)
    (hc : cx.content = B ++ (txt ++ (([123, 109, 97, 116, 104, 58] ++ e ++ [125]) ++ post)))
    (E : List EnvE) (hD : ChainD cx.content (dOf E)) (hit : ItemsOk st.items E) (hlen : e.length < 65536)
    (hp : varsOkV cfg.readNum (vsOf E) e 125) :
    renderMath cx st (itemsAtC cfg cx.content (refsD (dOf E)) ((B ++ txt).length + 6) ((B ++ txt).length + 6 + e.length))
        (B ++ txt).length ((B ++ txt).length + 6 + e.length + 1) B.length =
      .ok (emit (emit st txt) (expSegB cx (scOf E) (.math e)), (B ++ txt).length + 6 + e.length + 1) := by
  obtain ⟨items0, hitems0⟩ := Qentem.Expr.parseTop_total ({ readNum := cfg.readNum } : ScanCfg R) (e ++ [125]) 0 e.length (by simp)
  have hc2 : cx.content = (B ++ txt) ++ (([123, 109, 97, 116, 104, 58] ++ e ++ [125]) ++ post) := by
    rw [hc]; simp [List.append_assoc]
  obtain ⟨items', hex, hrel⟩ := exprs_math_env cfg cx.content (B ++ txt) e post hc2 (dOf E) hD hlen items0 hitems0
  have hreloc := reloc_math cx.content (B ++ txt) e post hc2
  have hsl : slice cx.content B.length (B ++ txt).length = .ok txt := by rw [hc]; exact slice_from B txt _
  have hsrc : slice cx.content (B ++ txt).length ((B ++ txt).length + 6 + e.length + 1) =
      .ok (printSeg (.math e)) := by
    have := slice_mid (B ++ txt) ([123, 109, 97, 116, 104, 58] ++ e ++ [125]) post
    rw [hc2, show (B ++ txt).length + 6 + e.length + 1 =
      (B ++ txt).length + ([123, 109, 97, 116, 104, 58] ++ e ++ [125]).length by simp; omega]
    exact this
  have hitems : itemsAtC cfg cx.content (refsD (dOf E)) ((B ++ txt).length + 6) ((B ++ txt).length + 6 + e.length) = items' := by
    simp only [itemsAtC, hex]
  rw [hitems]
  have hp' : varsOkV cx.readNum (vsOf E) e 125 := hrn ▸ hp
  rw [hrn] at hitems0
  have hspec := evalText_eqS cx (scOf E) e 125 items0 hitems0
  have hemp := hrel.isEmpty
  cases hi : items0.isEmpty with
  | true =>
    rw [hi] at hemp
    simp only [hi, if_true] at hspec
    simp only [renderMath, hsl, evalExprs, ← hemp, if_true, bind, Except.bind, hsrc, expSegB, hspec,
      Option.bind]
  | false =>
    rw [hi] at hemp
    simp only [hi, Bool.false_eq_true, if_false] at hspec
    have hre : ∀ lk, Qentem.Expr.RelEnv (specEnvS cx (scOf E) e 125)
        ({ content := cx.content, lookup := lk, readNum := cx.readNum } : Env R) ((B ++ txt).length + 6) :=
      fun lk => ⟨rfl, hreloc.slice⟩
    have hlen : (specEnvS cx (scOf E) e 125).content.length = e.length + 1 := by simp [specEnvS]
    have hev := evalExprs_env cx hg (emit st txt) E (by simpa [emit] using hit) (specEnvS cx (scOf E) e 125) ((B ++ txt).length + 6) items0 items' hre
      (fun _ => rfl) (by rw [hlen]; exact hrel) (hp' items0 hitems0)
      (by rw [hlen, hc2]; simp only [List.length_append, List.length_cons, List.length_nil]; omega) hemp.symm
    simp only [renderMath, hsl, hev.1, bind, Except.bind, expSegB, hspec]
    cases hv : Qentem.Expr.evaluateTop (specEnvS cx (scOf E) e 125) true items0 with
    | none => simp only [hsrc, Option.bind]
    | some v =>
      obtain ⟨z, hz⟩ := hev.2 v hv
      subst hz
      cases z <;> simp [Option.bind, numText, specOf]



/-- the decision of a quoted case text scanned in place equals the reference `isTrue (evalText e)` -/
theorem case_hit_env (cx : RCtx R) (cfg : ScanCfg R) (hg : cx.guardIndexRead = true)
    (hrn : cfg.readNum = cx.readNum) (st : RState)
    (A0 e post : List Nat) (hc : cx.content = (A0 ++ [34]) ++ (e ++ [34]) ++ post) (E : List EnvE) (hD : ChainD cx.content (dOf E)) (hit : ItemsOk st.items E) (hlen : e.length < 65536)
    (hvo : varsOkV cx.readNum (vsOf E) e 34) :
    ((itemsAtC cfg cx.content (refsD (dOf E)) (A0.length + 1) (A0.length + 1 + e.length)).isEmpty =
      (match Qentem.Expr.parseTop ({ readNum := cx.readNum } : ScanCfg R) (e ++ [34]) 0 e.length with
       | .ok l => l.isEmpty | .error _ => true)) ∧
    ((itemsAtC cfg cx.content (refsD (dOf E)) (A0.length + 1) (A0.length + 1 + e.length)).isEmpty = true →
      (isTrue (evalText (specOf cx) (scOf E) e 34) == some true) = false) ∧
    ((itemsAtC cfg cx.content (refsD (dOf E)) (A0.length + 1) (A0.length + 1 + e.length)).isEmpty = false →
      ∃ v, evalExprs cx st (itemsAtC cfg cx.content (refsD (dOf E)) (A0.length + 1) (A0.length + 1 + e.length)) = .ok v ∧
        (truth v == some true) = (isTrue (evalText (specOf cx) (scOf E) e 34) == some true)) := by
  obtain ⟨items0, hitems0⟩ := Qentem.Expr.parseTop_total ({ readNum := cfg.readNum } : ScanCfg R) (e ++ [34]) 0 e.length (by simp)
  obtain ⟨items', hex, hrel⟩ := exprs_quoted_env cfg cx.content A0 e post hc (dOf E) hD hlen items0 hitems0
  have hreloc := reloc_quoted cx.content A0 e post hc
  have hitems : itemsAtC cfg cx.content (refsD (dOf E)) (A0.length + 1) (A0.length + 1 + e.length) = items' := by
    simp only [itemsAtC, hex]
  rw [hitems]
  rw [hrn] at hitems0
  have hspec := evalText_eqS cx (scOf E) e 34 items0 hitems0
  have hemp := hrel.isEmpty
  refine ⟨by rw [hitems0]; exact hemp.symm, ?_, ?_⟩
  · intro h
    rw [← hemp] at h
    simp only [hspec, h, if_true, isTrue]
    rfl
  · intro h
    have h0 := h
    rw [← hemp] at h0
    simp only [h0, Bool.false_eq_true, if_false] at hspec
    have hre : ∀ lk, Qentem.Expr.RelEnv (specEnvS cx (scOf E) e 34)
        ({ content := cx.content, lookup := lk, readNum := cx.readNum } : Env R) (A0.length + 1) :=
      fun lk => ⟨rfl, hreloc.slice⟩
    have hlen : (specEnvS cx (scOf E) e 34).content.length = e.length + 1 := by simp [specEnvS]
    have hev := evalExprs_env cx hg st E hit (specEnvS cx (scOf E) e 34) (A0.length + 1) items0 items' hre (fun _ => rfl)
      (by rw [hlen]; exact hrel) (hvo items0 hitems0)
      (by rw [hlen, hc]; simp only [List.length_append, List.length_cons, List.length_nil]; omega) h
    refine ⟨Qentem.Expr.evaluateTop (specEnvS cx (scOf E) e 34) true items0, hev.1, ?_⟩
    rw [hspec]
    cases hv : Qentem.Expr.evaluateTop (specEnvS cx (scOf E) e 34) true items0 with
    | none => rfl
    | some v => cases v <;> rfl



def hitOfS (cx : RCtx R) (sc : List Binding) (e : List Nat) : Bool := isTrue (evalText (specOf cx) sc e 34) == some true


/-- the decision of one quoted case that is an expression -/
theorem one_case_env (cx : RCtx R) (cfg : ScanCfg R) (hg : cx.guardIndexRead = true)
    (hrn : cfg.readNum = cx.readNum) (st : RState)
    (A0 e post : List Nat) (hc : cx.content = (A0 ++ [34]) ++ (e ++ [34]) ++ post) (E : List EnvE) (hD : ChainD cx.content (dOf E)) (hit : ItemsOk st.items E) (hlen : e.length < 65536)
    (hp : varsOkV cx.readNum (vsOf E) e 34) (hex : exprOk cfg.readNum e) :
    (itemsAtC cfg cx.content (refsD (dOf E)) (A0.length + 1) (A0.length + 1 + e.length)).isEmpty = false ∧
    ∃ v, evalExprs cx st (itemsAtC cfg cx.content (refsD (dOf E)) (A0.length + 1) (A0.length + 1 + e.length)) = .ok v ∧
      (truth v == some true) = hitOfS cx (scOf E) e := by
  obtain ⟨h1, _, h3⟩ := case_hit_env cx cfg hg hrn st A0 e post hc E hD hit hlen hp
  have hne : (itemsAtC cfg cx.content (refsD (dOf E)) (A0.length + 1) (A0.length + 1 + e.length)).isEmpty = false := by
    rw [h1]
    obtain ⟨items0, hitems0⟩ := Qentem.Expr.parseTop_total ({ readNum := cx.readNum } : ScanCfg R) (e ++ [34]) 0 e.length (by simp)
    rw [hitems0]
    have := hex items0 (by rw [hrn]; exact hitems0)
    cases items0 with
    | nil => exact absurd rfl this
    | cons x xs => rfl
  exact ⟨hne, h3 hne⟩


/-- path conditions of a segment under the enclosing loops -/
def Seg.pathV (rn : List Nat → Option (Num R)) (Vs : List (List Nat)) : Seg → Prop
  | .text _ => True
  | .var p => PathOkV Vs p
  | .raw p => PathOkV Vs p
  | .math e => varsOkV rn Vs e 125 ∧ e.length < 65536

/-- rendering the tags of the segments, then going on with `more` -/
theorem render_segs_more_env (cx : RCtx R) (cfg : ScanCfg R) (hg : cx.guardIndexRead = true)
    (hrn : cfg.readNum = cx.readNum) (more : List (Tag R)) (endO : Nat) (post : List Nat)
    (E : List EnvE) (hD : ChainD cx.content (dOf E)) :
    ∀ (segs : List Seg) (B txt : List Nat) (st : RState) (fuel : Nat),
      cx.content = B ++ (txt ++ (printSegs segs ++ post)) → (∀ s ∈ segs, s.pathV cfg.readNum (vsOf E)) → (∀ s ∈ segs, s.ok) →
      1 ≤ fuel → ItemsOk st.items E →
      ∃ (B2 txt2 : List Nat) (st2 : RState), cx.content = B2 ++ (txt2 ++ post) ∧
        (B2 ++ txt2).length = (B ++ txt).length + (printSegs segs).length ∧
        st2.out ++ txt2 = st.out ++ (txt ++ expSegsB cx (scOf E) segs) ∧ st2.items = st.items ∧
        render cx (fuel + nTags segs) (tagsOfD cfg cx.content (dOf E) (B ++ txt).length segs ++ more) B.length endO st =
          render cx fuel more B2.length endO st2 := by
  intro segs
  induction segs with
  | nil =>
    intro B txt st fuel hc _ _ _ _
    exact ⟨B, txt, st, by simpa [printSegs] using hc, by simp [printSegs], by simp [expSegsB], rfl, by simp [tagsOfD, nTags]⟩
  | cons sg rest ih =>
    intro B txt st fuel hc hok hpl hf hit
    have hokr : ∀ s ∈ rest, s.pathV cfg.readNum (vsOf E) := fun s hs => hok s (List.mem_cons_of_mem _ hs)
    have hplr : ∀ s ∈ rest, s.ok := fun s hs => hpl s (List.mem_cons_of_mem _ hs)
    have hsg := hok sg (List.mem_cons_self ..)
    -- one tag, then the rest
    have htag : ∀ (T : Tag R) (X : List Nat) (w : Nat),
        cx.content = (B ++ txt ++ printSeg sg) ++ ([] ++ (printSegs rest ++ post)) →
        (B ++ txt ++ printSeg sg).length = w →
        renderTag cx (fuel + nTags rest) T B.length st = .ok (emit (emit st txt) X, w) →
        ∃ (B2 txt2 : List Nat) (st2 : RState), cx.content = B2 ++ (txt2 ++ post) ∧
          (B2 ++ txt2).length = (B ++ txt ++ printSeg sg).length + (printSegs rest).length ∧
          st2.out ++ txt2 = st.out ++ (txt ++ (X ++ expSegsB cx (scOf E) rest)) ∧ st2.items = st.items ∧
          render cx (fuel + nTags rest + 1) (T :: (tagsOfD cfg cx.content (dOf E) w rest ++ more)) B.length endO st =
            render cx fuel more B2.length endO st2 := by
      intro T X w hc' hw hrt
      obtain ⟨B2, txt2, st2, h1, h2, h3, h4, h5⟩ := ih (B ++ txt ++ printSeg sg) [] (emit (emit st txt) X) fuel hc' hokr hplr hf (by simpa [emit] using hit)
      refine ⟨B2, txt2, st2, h1, by simpa using h2, ?_, by simpa [emit] using h4, ?_⟩
      · rw [h3]; simp [emit, List.append_assoc]
      · simp only [render, hrt, bind, Except.bind]
        rw [← hw]
        simpa using h5
    cases sg with
    | text s =>
      obtain ⟨B2, txt2, st2, h1, h2, h3, h4, h5⟩ := ih B (txt ++ s) st fuel
        (by rw [hc]; simp [printSegs, printSeg, List.append_assoc]) hokr hplr hf hit
      refine ⟨B2, txt2, st2, h1, ?_, ?_, h4, ?_⟩
      · rw [h2]; simp [printSegs, printSeg, List.length_append]; omega
      · rw [h3]; simp [expSegsB, expSegB, List.append_assoc]
      · simp only [tagsOfD, nTags]
        rw [show (B ++ txt).length + s.length = (B ++ (txt ++ s)).length by simp [Nat.add_assoc]]
        exact h5
    | var p =>
      have hv := renderVariable_env cx hg st B txt p (printSegs rest ++ post)
        (by rw [hc]; simp [printSegs, printSeg, List.append_assoc]) E hsg hit
      have hl : (B ++ txt ++ printSeg (.var p)).length = (B ++ txt).length + 5 + p.length + 1 := by
        simp [printSeg]; omega
      obtain ⟨B2, txt2, st2, h1, h2, h3, h4, h5⟩ := htag (.var (refD (dOf E) ((B ++ txt).length + 5) p)) (expSegB cx (scOf E) (.var p)) _
        (by rw [hc]; simp [printSegs, List.append_assoc]) hl (by
          rw [show fuel + nTags rest = (fuel - 1 + nTags rest) + 1 by omega]
          simp only [renderTag]; exact hv)
      refine ⟨B2, txt2, st2, h1, ?_, ?_, h4, ?_⟩
      · rw [h2]; simp [printSegs, List.length_append]; omega
      · rw [h3]; simp [expSegsB, List.append_assoc]
      · simpa [tagsOfD, nTags, Nat.add_assoc] using h5
    | raw p =>
      have hv := renderRaw_env cx hg st B txt p (printSegs rest ++ post)
        (by rw [hc]; simp [printSegs, printSeg, List.append_assoc]) E hsg hit
      have hl : (B ++ txt ++ printSeg (.raw p)).length = (B ++ txt).length + 5 + p.length + 1 := by
        simp [printSeg]; omega
      obtain ⟨B2, txt2, st2, h1, h2, h3, h4, h5⟩ := htag (.raw (refD (dOf E) ((B ++ txt).length + 5) p)) (expSegB cx (scOf E) (.raw p)) _
        (by rw [hc]; simp [printSegs, List.append_assoc]) hl (by
          rw [show fuel + nTags rest = (fuel - 1 + nTags rest) + 1 by omega]
          simp only [renderTag]; exact hv)
      refine ⟨B2, txt2, st2, h1, ?_, ?_, h4, ?_⟩
      · rw [h2]; simp [printSegs, List.length_append]; omega
      · rw [h3]; simp [expSegsB, List.append_assoc]
      · simpa [tagsOfD, nTags, Nat.add_assoc] using h5
    | math e =>
      have hv := renderMath_env cx cfg hg hrn st B txt e (printSegs rest ++ post)
        (by rw [hc]; simp [printSegs, printSeg, List.append_assoc]) E hD hit hsg.2 hsg.1
      have hl : (B ++ txt ++ printSeg (.math e)).length = (B ++ txt).length + 6 + e.length + 1 := by
        simp [printSeg]; omega
      obtain ⟨B2, txt2, st2, h1, h2, h3, h4, h5⟩ := htag
        (.math (itemsAtC cfg cx.content (refsD (dOf E)) ((B ++ txt).length + 6) ((B ++ txt).length + 6 + e.length)) (B ++ txt).length
          ((B ++ txt).length + 6 + e.length + 1)) (expSegB cx (scOf E) (.math e)) _
        (by rw [hc]; simp [printSegs, List.append_assoc]) hl (by
          rw [show fuel + nTags rest = (fuel - 1 + nTags rest) + 1 by omega]
          simp only [renderTag]; exact hv)
      refine ⟨B2, txt2, st2, h1, ?_, ?_, h4, ?_⟩
      · rw [h2]; simp [printSegs, List.length_append]; omega
      · rw [h3]; simp [expSegsB, List.append_assoc]
      · simpa [tagsOfD, nTags, Nat.add_assoc] using h5



/-- `loopIter` over the entries of the collection, the body rendered by `hbody` -/
theorem loopIter_gen (cx : RCtx R) (sub : List (Tag R)) (f : LoopFields) (set : Doc)
    (Eo : Doc → List Nat → List Nat) (Nf : Doc → List Nat → Nat) (nb : Nat) (Inv : List LoopItem → Prop)
    (hinv : ∀ items it, Inv items → Inv (items.set f.level it))
    (hbody : ∀ (x : Doc) (key : List Nat) (st : RState) (g : Nat), Inv st.items →
      st.items[f.level]? = some ⟨some x, key⟩ → Nf x key ≤ g →
      ∃ st', render cx (g + nb) sub (f.off + f.contentOff) f.endOff st = .ok st' ∧ st'.out = st.out ++ Eo x key ∧
        Inv st'.items ∧ f.level < st'.items.length) :
    ∀ (n idx : Nat) (st : RState) (fuel : Nat), idx + n = (entsOf set).length → f.level < st.items.length →
      Inv st.items → n + sumEnts Nf ((entsOf set).drop idx) + nb + 1 ≤ fuel →
      ∃ st', loopIter cx fuel sub f set set.size idx st = .ok st' ∧
        st'.out = st.out ++ outEnts Eo ((entsOf set).drop idx) ∧ Inv st'.items := by
  intro n
  induction n with
  | zero =>
    intro idx st fuel hn hl hI hf
    obtain ⟨g, rfl⟩ : ∃ g, fuel = g + 1 := ⟨fuel - 1, by omega⟩
    have : ¬ idx < set.size := by rw [← entsOf_length]; omega
    refine ⟨st, by simp [loopIter, this], ?_, hI⟩
    rw [List.drop_of_length_le (by omega)]; simp [outEnts]
  | succ n ih =>
    intro idx st fuel hn hl hI hf
    obtain ⟨g, rfl⟩ : ∃ g, fuel = g + 1 := ⟨fuel - 1, by omega⟩
    have hlt : idx < set.size := by rw [← entsOf_length]; omega
    have hlt' : idx < (entsOf set).length := by omega
    obtain ⟨it, hit⟩ : ∃ it, st.items[f.level]? = some it := ⟨st.items[f.level], List.getElem?_eq_getElem hl⟩
    have hia : itemAt st f.level = .ok it := by simp [itemAt, hit]
    have hdrop : (entsOf set).drop idx = (entsOf set)[idx] :: (entsOf set).drop (idx + 1) :=
      List.drop_eq_getElem_cons hlt'
    obtain ⟨hval, hkey⟩ := itemOf_ents set idx it hlt'
    generalize hkv : (entsOf set)[idx] = kv at hval hkey
    obtain ⟨k, v⟩ := kv
    simp only at hval hkey
    generalize hit0 : itemOf set idx it = it0 at hval hkey
    have hget : (st.items.set f.level it0)[f.level]? = some it0 := by
      simp [List.getElem?_set_self hl]
    rw [hdrop, hkv] at hf ⊢
    simp only [sumEnts] at hf
    rw [loopIter_succ]
    simp only [hlt, if_true, hia, bind, Except.bind, hit0]
    cases hu : v.isUndefined
    · simp only [hu, Bool.false_eq_true, if_false] at hval
      have hk := hkey hu
      have hitem : it0 = ⟨some v, k⟩ := by cases it0; simp_all
      obtain ⟨st1, hr, ho, hI1, hl1⟩ := hbody v k { st with items := st.items.set f.level it0 } (g - nb)
        (hinv _ _ hI) (by show (st.items.set f.level it0)[f.level]? = some ⟨some v, k⟩; rw [hget, hitem]) (by omega)
      rw [show g - nb + nb = g by omega] at hr
      simp only [hval, Option.isSome_some, if_true, hr]
      obtain ⟨st', h1, h2, h3⟩ := ih (idx + 1) st1 g (by omega) hl1 hI1 (by omega)
      refine ⟨st', h1, ?_, h3⟩
      rw [h2, ho]; simp [outEnts, hu, List.append_assoc]
    · simp only [hu, if_true] at hval
      simp only [hval, Option.isSome_none, Bool.false_eq_true, if_false, pure, Except.pure]
      obtain ⟨st', h1, h2, h3⟩ := ih (idx + 1) { st with items := st.items.set f.level it0 } g
        (by omega) (by simp; exact hl) (hinv _ _ hI) (by omega)
      refine ⟨st', h1, ?_, h3⟩
      rw [h2]; simp [outEnts, hu]

end
end Qentem.Tmpl
