import Qentem.Proofs.NumToStrInt
import Qentem.Proofs.NumToStrBits
import Qentem.Proofs.NumToStrDigits
/-! Helper lemmas for C10: integer-valued doubles (in particular every double of magnitude ≥ 2^52)
print the reference text in the Fixed and SemiFixed formats.  The digit run is computed exactly
(`digitRun_int64`), `bigIntToString` yields its reversed digits, and `formatStringNumberFixed`
without a fraction only reverses them and (Fixed) appends the point and the zeros. -/
set_option linter.unusedSimpArgs false
namespace Qentem.Proofs.NumToStr
open Qentem.NumToStr Qentem.Generated.NumToStr Qentem

/-- an integer-valued normal double: exponent field `e ≥ 1023`, mantissa `2^52 + f = 2^j · o` with `o` odd
and no fractional bits left (`52 - j ≤ e - 1023`) -/
structure IntValued64 (e f j : Nat) : Prop where
  he1 : 1023 ≤ e
  he2 : e < 2047
  hf : f < 2 ^ 52
  hj : j ≤ 52
  hdiv : (2 ^ 52 + f) % 2 ^ j = 0
  hodd : ((2 ^ 52 + f) / 2 ^ j) % 2 = 1
  hint : 52 - j ≤ e - 1023

/-- its value -/
def intValue64 (e f : Nat) : Nat :=
  if 1075 ≤ e then (2 ^ 52 + f) * 2 ^ (e - 1075) else (2 ^ 52 + f) / 2 ^ (1075 - e)

theorem or_leading (f : Nat) (hf : f < 2 ^ 52) : f ||| 4503599627370496 = 2 ^ 52 + f := by
  have := Nat.two_pow_add_eq_or_of_lt hf 1
  simp only [Nat.mul_one] at this
  rw [this, Nat.or_comm]

/-- what the digit-run lemma needs to know about the configuration (kept abstract so that the huge
power `2 ^ totalBits` is never evaluated) -/
structure LikeF64 (c : Cfg) : Prop where
  lead : c.leadingBit = 4503599627370496
  msize : c.mantissaSize = 52
  bias : c.bias = 1023
  wide : 1024 ≤ c.totalBits

theorem f64_like : LikeF64 f64 := ⟨rfl, rfl, rfl, by decide⟩

theorem int_fit {e f tb : Nat} (he2 : e < 2047) (hf : f < 2 ^ 52) (c4 : 1024 ≤ tb) :
    (2 ^ 52 + f) <<< (e - 1023 - 52) < 2 ^ tb := by
  rw [Nat.shiftLeft_eq]
  have h0 : 2 ^ 52 + f < 2 ^ 53 := by omega
  have h1 : (2 ^ 52 + f) * 2 ^ (e - 1023 - 52) < 2 ^ 53 * 2 ^ (e - 1023 - 52) :=
    Nat.mul_lt_mul_of_pos_right h0 (Nat.two_pow_pos _)
  have h2 : 2 ^ 53 * 2 ^ (e - 1023 - 52) = 2 ^ (53 + (e - 1023 - 52)) := (Nat.pow_add 2 53 _).symm
  have h3 : 53 + (e - 1023 - 52) ≤ tb := by omega
  rw [h2] at h1
  exact lt_of_lt_of_le h1 (Nat.pow_le_pow_right (by decide) h3)

theorem intValue64_big {e f : Nat} (hbig : 52 < e - 1023) : intValue64 e f = (2 ^ 52 + f) <<< (e - 1023 - 52) := by
  have h1 : 1075 ≤ e := by omega
  have h2 : e - 1075 = e - 1023 - 52 := by omega
  rw [intValue64, if_pos h1, Nat.shiftLeft_eq, h2]

theorem intValue64_small {e f : Nat} (he1 : 1023 ≤ e) (hbig : ¬ 52 < e - 1023) :
    intValue64 e f = (2 ^ 52 + f) / 2 ^ (52 - (e - 1023)) := by
  unfold intValue64
  by_cases h75 : 1075 ≤ e
  · have h : e = 1075 := by omega
    rw [if_pos h75, h]; simp
  · have h2 : 1075 - e = 52 - (e - 1023) := by omega
    rw [if_neg h75, h2]


theorem digitRun_int64 {c : Cfg} (hc : LikeF64 c) {e f j p fmt : Nat} (h : IntValued64 e f j) (hfmt : fmt = 1 ∨ fmt = 2) :
    digitRun c f (e * 2 ^ 52) p fmt = .ok (intValue64 e f, (e - 1023) * 30103 / 100000 + 1, 0, true, false) := by
  obtain ⟨he1, he2, hf, hj, hdiv, hodd, hint⟩ := h
  obtain ⟨c1, c2, c3, c4⟩ := hc
  have hm : f ||| 4503599627370496 = 2 ^ 52 + f := or_leading f hf
  have hfs : findFirstBit (2 ^ 52 + f) = j := findFirstBit_spec hdiv hodd (by omega)
  have hb0 : e * 2 ^ 52 ≠ 0 := by positivity
  have hfix : (decide (fmt = fmtSemiFixed) || decide (fmt = fmtFixed)) = true := by
    rcases hfmt with rfl | rfl <;> decide
  have hcs : csub 20 52 j = .ok (52 - j) := by simp [csub, hj, pure, Except.pure]
  unfold digitRun runNoFraction
  simp only [c1, c2, c3, hb0, ne_eq, not_false_eq_true, if_true, hm, hfs,
    Nat.shiftRight_eq_div_pow, Nat.mul_div_cancel _ (Nat.two_pow_pos 52), hcs, ok_bind, pure_bind, he1, hfix, hint,
    decide_true, Bool.not_true, Bool.and_false, Bool.or_false, Bool.not_false, Bool.true_and, Bool.or_true, Bool.true_or,
    Nat.add_zero, if_false, not_true_eq_false, Bool.and_true, Bool.false_eq_true]
  by_cases hbig : 52 < e - 1023
  · rw [if_pos hbig, bigFit, if_pos (int_fit he2 hf c4), intValue64_big hbig]
    rfl
  · have hnj : ¬ (j < 52 - (e - 1023)) := by omega
    rw [if_neg hbig, intValue64_small he1 hbig]
    simp only [hnj, decide_false]
    rfl

theorem intValue64_pos {e f j : Nat} (h : IntValued64 e f j) : 0 < intValue64 e f := by
  obtain ⟨he1, he2, hf, hj, hdiv, hodd, hint⟩ := h
  unfold intValue64
  split
  · exact Nat.mul_pos (Nat.add_pos_left (Nat.two_pow_pos 52) f) (Nat.two_pow_pos _)
  · apply Nat.div_pos _ (Nat.two_pow_pos _)
    calc 2 ^ (1075 - e) ≤ 2 ^ 52 := Nat.pow_le_pow_right (by decide) (by omega)
      _ ≤ 2 ^ 52 + f := Nat.le_add_right _ _

theorem intValue64_lt {e f j tb : Nat} (h : IntValued64 e f j) (htb : 1024 ≤ tb) : intValue64 e f < 2 ^ tb := by
  obtain ⟨he1, he2, hf, hj, hdiv, hodd, hint⟩ := h
  by_cases hbig : 52 < e - 1023
  · rw [intValue64_big hbig]; exact int_fit he2 hf htb
  · rw [intValue64_small he1 hbig]
    calc (2 ^ 52 + f) / 2 ^ (52 - (e - 1023)) ≤ 2 ^ 52 + f := Nat.div_le_self _ _
      _ < 2 ^ 53 := by omega
      _ ≤ 2 ^ tb := Nat.pow_le_pow_right (by decide) (by omega)

theorem reverseFrom_append (s t : List Nat) : reverseFrom (s ++ t) s.length = s ++ t.reverse := by
  simp [reverseFrom]

/-- `formatStringNumberFixed` on a digit run without fraction: the digits, then (Fixed) `.` and `precision` zeros -/
theorem formatFixed_integer (fixedT : Bool) (s t : List Nat) (p : Nat) (ht : t ≠ []) (hp : p ≤ 1048576) :
    formatFixed fixedT s.length (s ++ t) p 0 false =
      .ok (s ++ t.reverse ++ (if fixedT ∧ p ≠ 0 then 46 :: List.replicate p 48 else [])) := by
  have hlen : 0 < t.length := List.length_pos_iff.mpr ht
  have h8 : csub 8 (s ++ t).length s.length = .ok t.length := by simp [csub, pure, Except.pure]
  have hz : zerosLarge p = .ok (List.replicate p 48) := by simp [zerosLarge, hp, Ch.zero, pure, Except.pure]
  unfold formatFixed
  rw [h8]
  simp only [ok_bind, pure_bind, ne_eq, not_true_eq_false, if_false, finishNumber, csub, Nat.le_refl, if_true, Nat.sub_self,
    reverseFrom_append]
  have hsb : stepBack s.length (s ++ t.reverse) 0 = .ok (s ++ t.reverse) := by
    simp [stepBack, pure, Except.pure]
    exact List.take_of_length_le (by simp)
  rw [hsb, ok_bind]
  cases fixedT
  · simp [pure, Except.pure]
  · simp only [if_true, fixedPad, true_and]
    by_cases hp0 : p = 0
    · simp [hp0, pure, Except.pure]
    · simp [hp0, hz, ok_bind, Ch.dot, pure, Except.pure]

theorem realFinite_int64 {c : Cfg} (hc : LikeF64 c) {e f j p fmt : Nat} (h : IntValued64 e f j)
    (hfmt : fmt = 1 ∨ fmt = 2) (hp : p ≤ 1048576) (s : List Nat) :
    realFinite c s f (e * 2 ^ 52) p fmt =
      .ok (s ++ D (intValue64 e f) ++ (if fmt = 1 ∧ p ≠ 0 then 46 :: List.replicate p 48 else [])) := by
  have hn0 : intValue64 e f ≠ 0 := Nat.pos_iff_ne_zero.mp (intValue64_pos h)
  have hR : R (intValue64 e f) = (D (intValue64 e f)).reverse := by simp [R, hn0]
  have hRne : (D (intValue64 e f)).reverse ≠ [] := by simpa using D_ne_nil _
  unfold realFinite
  rw [digitRun_int64 hc h hfmt]
  simp only [ok_bind]
  rw [bigIntToString_eq s (intValue64_lt h hc.wide), hR]
  simp only [ok_bind]
  rcases hfmt with rfl | rfl
  · have e1 : ¬ (1 = fmtSemiFixed) := by decide
    have e2 : (1 = fmtFixed) := by decide
    rw [if_neg e1, if_pos e2, formatFixed_integer true s _ p hRne hp]
    simp
  · have e1 : (2 = fmtSemiFixed) := by decide
    rw [if_pos e1, formatFixed_integer false s _ p hRne hp]
    simp

/-! the reference side -/
theorem roundHalfEven_mul (k : Nat) {d : Nat} (hd : 0 < d) : FmtSpec.roundHalfEven (k * d) d = k := by
  simp [FmtSpec.roundHalfEven, Nat.mul_div_cancel _ hd, Nat.mul_mod_left]
  omega

theorem fixedBody_int (n : Nat) {den : Nat} (hd : 0 < den) (p : Nat) :
    FmtSpec.fixedBody (n * den) den p = D n ++ (if p = 0 then [] else 46 :: List.replicate p 48) := by
  have hD : FmtSpec.digitsOf 0 = [48] := by decide
  have h10 : 0 < 10 ^ p := Nat.pow_pos (by decide)
  have e : n * den * 10 ^ p = (n * 10 ^ p) * den := by ring
  unfold FmtSpec.fixedBody
  simp only [e, roundHalfEven_mul _ hd, Nat.mul_div_cancel _ h10, Nat.mul_mod_left, hD]
  by_cases hp : p = 0
  · simp [hp]
  · simp [hp, FmtSpec.padLeft, FmtSpec.cDot, FmtSpec.cZero, replicate_pred_append hp]

theorem D_mem_range : ∀ n, ∀ c ∈ D n, 48 ≤ c ∧ c ≤ 57 := by
  intro n
  induction n using Nat.strong_induction_on with
  | _ n ih =>
    intro c hc
    by_cases h : n < 10
    · rw [D_lt10 h] at hc; simp at hc; omega
    · rw [D_step (by omega)] at hc
      simp only [List.mem_append, List.mem_singleton] at hc
      rcases hc with hc | hc
      · exact ih (n / 10) (by omega) c hc
      · omega

theorem stripFraction_int (n p : Nat) :
    FmtSpec.stripFraction (D n ++ (if p = 0 then [] else 46 :: List.replicate p 48)) = D n := by
  have hnd : ∀ c ∈ D n, c ≠ 46 := fun c hc => by have := D_mem_range n c hc; omega
  by_cases hp : p = 0
  · have hc : (D n).contains FmtSpec.cDot = false := by
      simp only [FmtSpec.cDot, List.contains_eq_mem, decide_eq_false_iff_not]
      intro hm; exact hnd 46 hm rfl
    simp only [hp, if_true, List.append_nil, FmtSpec.stripFraction]
    rw [if_neg (by rw [hc]; decide)]
  · simp only [hp, if_false, FmtSpec.stripFraction]
    have hc : (D n ++ 46 :: List.replicate p 48).contains FmtSpec.cDot = true := by simp [FmtSpec.cDot]
    rw [if_pos hc]
    have : (D n ++ 46 :: List.replicate p 48).reverse = List.replicate p 48 ++ 46 :: (D n).reverse := by
      simp [List.reverse_append, List.reverse_replicate]
    rw [this, dropWhile_replicate_append]
    simp [List.dropWhile, FmtSpec.cZero, FmtSpec.cDot]

/-- the reference text of an integer-valued double in the two fixed formats -/
theorem format64_int {bits j : Nat} (h : IntValued64 ((bits / 2 ^ 52) % 2 ^ 11) (bits % 2 ^ 52) j) (p : Nat) :
    FmtSpec.format64 bits p .fixed =
      FmtSpec.signed (decide (bits / 2 ^ 63 % 2 = 1))
        (D (intValue64 ((bits / 2 ^ 52) % 2 ^ 11) (bits % 2 ^ 52)) ++ (if p = 0 then [] else 46 :: List.replicate p 48)) ∧
    FmtSpec.format64 bits p .semiFixed =
      FmtSpec.signed (decide (bits / 2 ^ 63 % 2 = 1)) (D (intValue64 ((bits / 2 ^ 52) % 2 ^ 11) (bits % 2 ^ 52))) := by
  obtain ⟨he1, he2, hf, hj, hdiv, hodd, hint⟩ := h
  generalize he : (bits / 2 ^ 52) % 2 ^ 11 = e at *
  generalize hf0 : bits % 2 ^ 52 = f at *
  have hne : ¬ (e = 2 ^ 11 - 1) := by omega
  have hne0 : ¬ (e = 0) := by omega
  unfold FmtSpec.format64 FmtSpec.decode64 FmtSpec.decode
  simp only [he, hf0, hne, hne0, if_false, show (2:Nat) ^ (11 - 1) - 1 + 52 = 1075 by norm_num, show 52 + 11 = 63 by norm_num]
  by_cases h75 : 1075 ≤ e
  · have hv : intValue64 e f = (2 ^ 52 + f) * 2 ^ (e - 1075) := by rw [intValue64, if_pos h75]
    simp only [h75, if_true, FmtSpec.formatVal, hv]
    have := fixedBody_int ((2 ^ 52 + f) * 2 ^ (e - 1075)) (den := 1) (by decide) p
    rw [Nat.mul_one] at this
    rw [this]
    exact ⟨rfl, by rw [stripFraction_int]⟩
  · have hv : intValue64 e f = (2 ^ 52 + f) / 2 ^ (1075 - e) := by rw [intValue64, if_neg h75]
    have hdvd : 2 ^ (1075 - e) ∣ 2 ^ 52 + f :=
      Dvd.dvd.trans (Nat.pow_dvd_pow 2 (by omega)) (Nat.dvd_of_mod_eq_zero hdiv)
    have hm : 2 ^ 52 + f = (2 ^ 52 + f) / 2 ^ (1075 - e) * 2 ^ (1075 - e) := (Nat.div_mul_cancel hdvd).symm
    simp only [h75, if_false, FmtSpec.formatVal, hv]
    have := fixedBody_int ((2 ^ 52 + f) / 2 ^ (1075 - e)) (den := 2 ^ (1075 - e)) (Nat.two_pow_pos _) p
    rw [← hm] at this
    rw [this]
    exact ⟨rfl, by rw [stripFraction_int]⟩

/-- **integer-valued doubles, Fixed and SemiFixed**: the model appends exactly the reference text.
(`IntValued64` holds in particular for every double of magnitude ≥ 2^52.) -/
theorem int_class64 (pre : List Nat) (bits p f j : Nat) (hf12 : f = 1 ∨ f = 2) (hp : p ≤ 1048576)
    (h : IntValued64 ((bits / 2 ^ 52) % 2 ^ 11) (bits % 2 ^ 52) j) :
    realToString f64 pre bits p f = .ok (pre ++ FmtSpec.format64 bits p (fmtOf f)) := by
  obtain ⟨h1, h2, h3⟩ := fields64 bits
  obtain ⟨s1, s2⟩ := format64_int h p
  have hx : f64.exponentMask = 9218868437227405312 := rfl
  have hy : f64.mantissaMask = 4503599627370495 := rfl
  have hz : f64.signMask = 9223372036854775808 := rfl
  have he1 := h.he1
  have he2 := h.he2
  have hpw : (2:Nat) ^ 52 = 4503599627370496 := by norm_num
  have hne : ¬ ((bits / 2 ^ 52) % 2 ^ 11 * 2 ^ 52 = 9218868437227405312) := by
    generalize (bits / 2 ^ 52) % 2 ^ 11 = E at *
    rw [hpw]; omega
  have hnz : ¬ ((bits / 2 ^ 52) % 2 ^ 11 * 2 ^ 52 = 0) := by
    generalize (bits / 2 ^ 52) % 2 ^ 11 = E at *
    rw [hpw]; omega
  have hf0 : ¬ (f = fmtDefault ∧ p = 0) := by rcases hf12 with rfl | rfl <;> simp [fmtDefault]
  unfold realToString
  simp only [hx, hy, hz, h1, h2, h3, hne, hnz, hf0, ne_eq, not_false_eq_true, if_true, if_false, or_true]
  by_cases hs : bits / 2 ^ 63 % 2 = 1
  · have hs' : ¬ (bits / 2 ^ 63 % 2 * 2 ^ 63 = 0) := by rw [hs]; norm_num
    have hsl : bits / 9223372036854775808 % 2 = 1 := by simpa using hs
    simp only [hs', not_false_eq_true, if_true]
    rw [realFinite_int64 f64_like h hf12 hp]
    rcases hf12 with rfl | rfl
    · have : fmtOf 1 = .fixed := by decide
      rw [this, s1]
      simp [hsl, FmtSpec.signed, Ch.negative, FmtSpec.cMinus]
    · have : fmtOf 2 = .semiFixed := by decide
      rw [this, s2]
      simp [hsl, FmtSpec.signed, Ch.negative, FmtSpec.cMinus]
  · have hs0 : bits / 2 ^ 63 % 2 = 0 := by omega
    have hsl : bits / 9223372036854775808 % 2 = 0 := by simpa using hs0
    simp only [hs0, Nat.zero_mul, not_true_eq_false, if_false]
    rw [realFinite_int64 f64_like h hf12 hp]
    rcases hf12 with rfl | rfl
    · have : fmtOf 1 = .fixed := by decide
      rw [this, s1]
      simp [hsl, FmtSpec.signed]
    · have : fmtOf 2 = .semiFixed := by decide
      rw [this, s2]
      simp [hsl, FmtSpec.signed]

/-- every double whose exponent field is at least 1075 (magnitude ≥ 2^52) is integer-valued -/
theorem intValued_of_big {e f : Nat} (he1 : 1075 ≤ e) (he2 : e < 2047) (hf : f < 2 ^ 52) : ∃ j, IntValued64 e f j := by
  obtain ⟨j, h1, h2⟩ := exists_ctz (2 ^ 52 + f) (Nat.add_pos_left (Nat.two_pow_pos 52) f)
  have hj : j ≤ 52 := by
    by_contra hcon
    have hle : 2 ^ 53 ≤ 2 ^ j := Nat.pow_le_pow_right (by decide) (by omega)
    have hdvd : 2 ^ j ∣ 2 ^ 52 + f := Nat.dvd_of_mod_eq_zero h1
    have := Nat.le_of_dvd (Nat.add_pos_left (Nat.two_pow_pos 52) f) hdvd
    omega
  exact ⟨j, ⟨by omega, he2, hf, hj, h1, h2, by omega⟩⟩

end Qentem.Proofs.NumToStr
