import Qentem.Proofs.HashTableResize
/-!
`operator+=` (both overloads have the same effect on the destination) and the construction of its
operand.
-/
namespace Qentem.HashTable
variable {V : Type}

open Spec (putOpt)

def slotOfItem (it : Item V) : Option (List Nat × V) := if it.hash = 0 then none else some (it.key, it.val)

theorem absSlots_eq_map (s : HT V) : absSlots s = s.items.toList.map slotOfItem := rfl

theorem foldl_putOpt_compact (l : Slots V) (sl : Slots V) :
    (Spec.compact l).foldl putOpt sl = l.foldl putOpt sl := by
  induction l generalizing sl with
  | nil => rfl
  | cons o t ih =>
    cases o with
    | none => simp only [Spec.compact, List.filter, Option.isSome, List.foldl, putOpt] at ih ⊢; exact ih sl
    | some kv => simp only [Spec.compact, List.filter, Option.isSome, List.foldl] at ih ⊢; exact ih _

theorem mergeItems_spec {H : List Nat → Nat} (hH : ∀ k, H k ≠ 0) : ∀ (l : List (Item V)) {s : HT V},
    Inv H s → (∀ it ∈ l, it.hash ≠ 0 → it.hash = H it.key) → s.items.size + l.length ≤ s.cap →
    ∃ s', mergeItems l s = some s' ∧ Inv H s' ∧ s'.cap = s.cap ∧
      absSlots s' = (l.map slotOfItem).foldl putOpt (absSlots s)
  | [], s, hI, _, _ => ⟨s, rfl, hI, rfl, rfl⟩
  | it :: rest, s, hI, hsrc, hroom => by
    simp only [List.length_cons] at hroom
    by_cases hd : it.hash = 0
    · obtain ⟨s', hrun, hI', hcap, habs⟩ := mergeItems_spec hH rest hI (fun x hx => hsrc x (by simp [hx])) (by omega)
      refine ⟨s', by simp [mergeItems, hd, hrun], hI', hcap, ?_⟩
      simp [habs, slotOfItem, hd, putOpt]
    · have hh : it.hash = H it.key := hsrc it (by simp) hd
      obtain ⟨ch, hc⟩ := hI.chains
      have hroom' : s.items.size < s.cap := by omega
      rcases key_cases s it.key with ⟨j, it0, hit0, hl0, hk0⟩ | hno
      · obtain ⟨pre, post, _, hfind⟩ := find_some hI hc hH hit0 hl0
        rw [hk0] at hfind
        have hI1 := inv_setVal hI j it.val
        obtain ⟨s', hrun, hI', hcap, habs⟩ := mergeItems_spec hH rest hI1 (fun x hx => hsrc x (by simp [hx]))
          (by simp only [setVal, Array.size_modify]; omega)
        refine ⟨s', ?_, hI', by rw [hcap]; rfl, ?_⟩
        · simp only [mergeItems, hd, ne_eq, not_false_eq_true, if_true]
          rw [hh, hfind]
          exact hrun
        rw [habs]
        simp only [List.map_cons, List.foldl_cons, slotOfItem, hd, if_false, putOpt, Spec.put]
        rw [← hk0, findKey_abs_some hI hit0 hl0, absSlots_setVal it.val hit0 hl0]
      · have hfind := find_none hc hH (cap_pow_of_room hI hroom') hno
        have hI1 := insertAt_inv (v := it.val) hI hc hH (cap_pow_of_room hI hroom') hroom' hno
        obtain ⟨s', hrun, hI', hcap, habs⟩ := mergeItems_spec hH rest hI1 (fun x hx => hsrc x (by simp [hx]))
          (by simp only [pushItem, Array.size_push, setLink_size, setLink_cap]; omega)
        refine ⟨s', ?_, hI', by rw [hcap]; simp, ?_⟩
        · simp only [mergeItems, hd, ne_eq, not_false_eq_true, if_true]
          rw [hh, hfind]
          simp only [insertAt_eq (show s.size < s.cap from hroom')]
          exact hrun
        · rw [habs]
          simp only [List.map_cons, List.foldl_cons, slotOfItem, hd, if_false, putOpt, Spec.put,
            findKey_abs_none hno, absSlots_pushItem, absSlots_setLink, hH it.key]

/-- `dst += src` for two tables satisfying the invariant. -/
theorem merge_spec {H : List Nat → Nat} (hH : ∀ k, H k ≠ 0) {s src : HT V} (hI : Inv H s) (hS : Inv H src) :
    ∃ s', merge s src = some s' ∧ Inv H s' ∧ abs s' = Spec.merge (abs s) (abs src) := by
  have hsrc : ∀ it ∈ src.items.toList, it.hash ≠ 0 → it.hash = H it.key := by
    intro it hit
    obtain ⟨j, hj⟩ := Array.mem_iff_getElem?.mp (Array.mem_toList_iff.mp hit)
    exact hS.hash_ok j it hj
  unfold merge
  simp only
  by_cases hgrow : s.size + src.size > s.cap
  · simp only [hgrow, if_true]
    have hfit : (s.items.filter live).size ≤ allocCap (s.size + src.size) := by
      have := filter_live_size_le s
      have := allocCap_ge (s.size + src.size)
      simp only [HT.size] at *; omega
    obtain ⟨s1, hrun1, hI1, habs1⟩ := resize_spec hI _ hfit
    have hcap1 : s1.cap = allocCap (s.size + src.size) := by
      have := congrArg Spec.cap habs1; simpa [abs] using this
    have hsl1 : absSlots s1 = Spec.compact (absSlots s) := by
      have := congrArg Spec.slots habs1; simpa [abs] using this
    have hsize1 : s1.items.size ≤ s.items.size := by
      have := congrArg List.length hsl1
      rw [absSlots_length] at this
      have h2 := compact_length_le (absSlots s)
      rw [absSlots_length] at h2; omega
    have hroom : s1.items.size + src.items.toList.length ≤ s1.cap := by
      have := allocCap_ge (s.size + src.size)
      simp only [HT.size, Array.length_toList] at *; omega
    obtain ⟨s', hrun, hI', hcap, habs⟩ := mergeItems_spec hH src.items.toList hI1 hsrc hroom
    refine ⟨s', by simp only [hrun1]; exact hrun, hI', ?_⟩
    show abs s' = Spec.merge (abs s) (abs src)
    unfold Spec.merge
    simp only
    rw [show (abs s).slots.length = s.items.size from absSlots_length s,
      show (abs src).slots.length = src.items.size from absSlots_length src,
      if_pos (show s.items.size + src.items.size > (abs s).cap from hgrow), foldl_putOpt_compact]
    simp only [abs, hcap, hcap1, habs, hsl1, Spec.realloc, HT.size]
    rfl
  · simp only [hgrow, if_false]
    have hroom : s.items.size + src.items.toList.length ≤ s.cap := by
      simp only [HT.size, Array.length_toList] at *; omega
    obtain ⟨s', hrun, hI', hcap, habs⟩ := mergeItems_spec hH src.items.toList hI hsrc hroom
    refine ⟨s', hrun, hI', ?_⟩
    show abs s' = Spec.merge (abs s) (abs src)
    unfold Spec.merge
    simp only
    rw [show (abs s).slots.length = s.items.size from absSlots_length s,
      show (abs src).slots.length = src.items.size from absSlots_length src,
      if_neg (show ¬ s.items.size + src.items.size > (abs s).cap from hgrow), foldl_putOpt_compact]
    simp only [abs, hcap, habs]
    rfl

/-- The operand of a merge step: inserts then removals from the empty table. -/
theorem buildOperand_spec [Inhabited V] {H : List Nat → Nat} (hH : ∀ k, H k ≠ 0)
    (ins : List (List Nat × V)) (rem : List (List Nat)) :
    ∃ src, buildOperand H ins rem = some src ∧ Inv H src ∧ abs src = Spec.buildOperand ins rem := by
  have hins : ∀ (l : List (List Nat × V)) {s : HT V}, Inv H s →
      ∃ s', l.foldlM (fun s kv => insert H s kv.1 kv.2) s = some s' ∧ Inv H s' ∧
        abs s' = l.foldl (fun sp kv => Spec.insert sp kv.1 kv.2) (abs s) := by
    intro l
    induction l with
    | nil => intro s hI; exact ⟨s, rfl, hI, rfl⟩
    | cons kv t ih =>
      intro s hI
      obtain ⟨s1, h1, hI1, ha1⟩ := insert_spec hI hH kv.1 kv.2
      obtain ⟨s', h', hI', ha'⟩ := ih hI1
      exact ⟨s', by simp [List.foldlM, h1, h'], hI', by rw [ha', ha1]; rfl⟩
  have hrem : ∀ (l : List (List Nat)) {s : HT V}, Inv H s →
      ∃ s', l.foldlM (fun s k => remove H s k) s = some s' ∧ Inv H s' ∧ abs s' = l.foldl Spec.remove (abs s) := by
    intro l
    induction l with
    | nil => intro s hI; exact ⟨s, rfl, hI, rfl⟩
    | cons k t ih =>
      intro s hI
      obtain ⟨s1, h1, hI1, ha1⟩ := remove_spec hI hH k
      obtain ⟨s', h', hI', ha'⟩ := ih hI1
      exact ⟨s', by simp [List.foldlM, h1, h'], hI', by rw [ha', ha1]; rfl⟩
  obtain ⟨s1, h1, hI1, ha1⟩ := hins ins (inv_empty H)
  obtain ⟨s2, h2, hI2, ha2⟩ := hrem rem hI1
  exact ⟨s2, by simp [buildOperand, h1, h2], hI2, by rw [ha2, ha1]; rfl⟩

end Qentem.HashTable
