import Qentem.Proofs.StrToNumNegClose
import Qentem.Proofs.StrToNumFrac
/-! C09: `realResult` is within one ulp (or rejects an out-of-range value) for **every** mantissa — the versions of
`realResult_neg` / `realResult_class` without the mantissa condition. -/
namespace Qentem.StrToNum
open Qentem.Round

theorem realResult_neg_all (neg : Bool) (v n k off : Nat) (hv0 : 0 < v)
    (hv : v < 2 ^ 64) (hvn : v < 10 ^ n) (hn19 : n ≤ 19) (hk : k < 2 ^ 31) :
    (k > n + 324 ∧ realResult neg v n k true off = some ⟨.notANumber, v, off⟩ ∧ v * 2 ^ 1074 < 10 ^ k) ∨
    (k ≤ n + 324 ∧ ∃ p, realResult neg v n k true off = some ⟨.real, p ||| (if neg then 0x8000000000000000 else 0), off⟩ ∧
        p < 2 ^ 63 ∧ ulpDist p (nearestMag v (10 ^ k)) ≤ 1) := by
  by_cases hr : k > n + 324
  · rcases realResult_neg neg v n k off hv0 (fun h => by omega) hv hvn hn19 hk with h | h
    · exact Or.inl h
    · omega
  · right
    have hv0' : v ≠ 0 := by omega
    have hc : ¬ (k > n ∧ sub32 k n > 324) := by
      intro ⟨h1, h2⟩
      rw [sub32_eq _ _ (by omega) (by omega)] at h2
      omega
    obtain ⟨p, hp, hclose⟩ := powerOfNegativeTen_close_all v k hv0 hv (by omega)
    refine ⟨by omega, p, ?_, powerOfNegativeTen_lt v k p hp, hclose⟩
    unfold realResult
    simp [hv0', hc, hp]

/-- `realResult_class` for every mantissa -/
theorem realResult_class_all (neg : Bool) (v n X : Nat) (FLAG : Bool) (off : Nat) (hv0 : 0 < v) (hv : v < 2 ^ 64)
    (hlo : 10 ^ (n - 1) ≤ v) (hhi : v < 10 ^ n) (hn1 : 1 ≤ n) (hn19 : n ≤ 19) (hX : X < 2 ^ 31) :
    ClassOutcome neg v X FLAG off (realResult neg v n X FLAG off) := by
  cases FLAG with
  | false => exact realResult_class neg v n X false off hv0 hv hlo hhi hn1 hn19 hX (fun h => by cases h)
  | true =>
    rcases realResult_neg_all neg v n X off hv0 hv hhi hn19 hX with ⟨_, h2, h3⟩ | ⟨_, p, h2, h3, h4⟩
    · exact ⟨_, h2, rfl, Or.inl ⟨rfl, by simpa using h3⟩⟩
    · refine ⟨_, h2, rfl, Or.inr ⟨rfl, or_sign_div p neg h3, ?_, ?_⟩⟩
      · simp only [if_true]
        rw [or_sign_mod p neg h3]; exact h4
      · simp only [if_true]
        intro hov; exact absurd hov (no_overflow_small v X hv)

/-- out of range for a mantissa below `10^19` and a decimal exponent of magnitude `≥ 10^8` -/
theorem out_of_range_big (v k : Nat) (FLAG : Bool) (hv0 : 0 < v) (hv : v < 10 ^ 19) (hk : 400 ≤ k) :
    (if FLAG then v * 2 ^ 1074 < 10 ^ k else (2 ^ 53 - 1) * 2 ^ 971 < v * 10 ^ k) := by
  have hpow : (10 : Nat) ^ 400 ≤ 10 ^ k := Nat.pow_le_pow_right (by decide) hk
  cases FLAG with
  | true =>
    simp only [if_true]
    calc v * 2 ^ 1074 < 10 ^ 19 * 2 ^ 1074 := Nat.mul_lt_mul_of_pos_right hv (Nat.pow_pos (by decide))
      _ ≤ 10 ^ 400 := by decide +kernel
      _ ≤ 10 ^ k := hpow
  | false =>
    simp only [Bool.false_eq_true, if_false]
    calc (2 ^ 53 - 1) * 2 ^ 971 < 1 * 10 ^ 400 := by decide +kernel
      _ ≤ v * 10 ^ 400 := Nat.mul_le_mul_right _ hv0
      _ ≤ v * 10 ^ k := Nat.mul_le_mul_left _ hpow


end Qentem.StrToNum
