import Qentem.Proofs.ExprScanTotal
import Qentem.Model.ExprSpec
/-!
# C04 — `ScanPrint`: scanning the printed form of a flat expression list gives the list back

`printItems lit items`: operands in order, ` op ` between them, `(`…`)` around sub-lists, literals
written by `lit`.  `scan_printItems`: for every list of the class `pokItems` (numeric leaves,
binary operators between operands, no list that is a single parenthesised group) and every literal
printer whose literals the reader reads back (`LitOk`), `parseTop` on the printed text returns the
list.  Proof: partial correctness of `getOperation` / `skipParen` / `parseValue` / `parseLoop` on the
printed text by induction on their fuel, combined with the scanner's totality (`parseTop_total`).
-/
set_option linter.unusedSectionVars false
set_option linter.unusedVariables false
namespace Qentem.Expr
open Qentem.Generated.Expr

variable {R : Type}

/-- a real binary operator -/
def isBinOp (o : Op) : Prop := o ≠ .noOp ∧ o ≠ .error

mutual
def Operand.print (lit : Num R → List Nat) : Operand R → List Nat
  | .sub items => [cPOpen] ++ printItems lit items ++ [cPClose]
  | .num n => lit n
  | .var _ => []
  | .text _ _ => []
def printItems (lit : Num R → List Nat) : List (Item R) → List Nat
  | [] => []
  | (x, o) :: rest =>
    x.print lit ++ (match rest with | [] => [] | _ :: _ => [cSpace] ++ o.symbol ++ [cSpace]) ++ printItems lit rest
end

/-- a list that is one parenthesised group (the scanner unwraps it) -/
def lonePar : List (Item R) → Prop
  | [(.sub _, _)] => True
  | _ => False

mutual
def Operand.pok (Pn : Num R → Prop) : Operand R → Prop
  | .sub items => pokItems Pn items ∧ ¬ lonePar items
  | .num n => Pn n
  | .var _ => False
  | .text _ _ => False
def pokItems (Pn : Num R → Prop) : List (Item R) → Prop
  | [] => False
  | (x, o) :: rest => x.pok Pn ∧ (match rest with | [] => o = .noOp | _ :: _ => isBinOp o ∧ pokItems Pn rest)
end

/-- a printed literal: units the operator scan passes over, ending in a digit, read back by the reader -/
structure LitOk (rn : List Nat → Option (Num R)) (s : List Nat) (n : Num R) : Prop where
  ne : s ≠ []
  chars : ∀ x ∈ s, classify x = .other ∧ isWs x = false ∧ x ≠ cPClose
  last : ∀ x, s.getLast? = some x → W1.digitZero ≤ x ∧ x ≤ W1.digitNine
  read : rn s = some n

/-- units that are neither an operator unit nor a parenthesis: the operator scan steps over them -/
def Quiet (x : Nat) : Prop := classify x = .other

theorem getOperation_step (c : List Nat) (endO f off x : Nat) (hlt : off < endO) (hx : c[off]? = some x)
    (hq : Quiet x) : getOperation c endO (f + 1) off = getOperation c endO f (off + 1) := by
  have hrd : rd c off = .ok x := by simp [rd, hx]
  unfold Quiet at hq
  simp only [getOperation, hlt, if_true, hrd, bind, Except.bind, hq]

/-- the operator scan over a run of quiet units: if it answers, so does the scan from behind the run -/
theorem getOperation_run (c : List Nat) (endO : Nat) : ∀ (k f off : Nat) (r : Op × Nat),
    (∀ i, i < k → ∃ x, c[off + i]? = some x ∧ Quiet x) → off + k ≤ endO →
    getOperation c endO f off = .ok r → ∃ f', getOperation c endO f' (off + k) = .ok r := by
  intro k
  induction k with
  | zero => intro f off r _ _ h; exact ⟨f, by simpa using h⟩
  | succ k ih =>
    intro f off r hrun hle h
    cases f with
    | zero => simp [getOperation] at h
    | succ f =>
      obtain ⟨x, hx, hq⟩ := hrun 0 (by omega)
      rw [getOperation_step c endO f off x (by omega) (by simpa using hx) hq] at h
      obtain ⟨f', hf'⟩ := ih f (off + 1) r (fun i hi => by
        obtain ⟨y, hy, hqy⟩ := hrun (i + 1) (by omega)
        exact ⟨y, by rw [show off + 1 + i = off + (i + 1) by omega]; exact hy, hqy⟩) (by omega) h
      exact ⟨f', by rw [show off + (k + 1) = off + 1 + k by omega]; exact hf'⟩

theorem symbol_nopar (o : Op) : ∀ x ∈ o.symbol, x ≠ cPOpen ∧ x ≠ cPClose := by
  cases o <;> intro x hx <;> simp [Op.symbol] at hx <;> (try rcases hx with h | h) <;> (try subst h) <;> (try subst hx) <;> decide

theorem skipParen_step (c : List Nat) (endO f off skip x : Nat) (hlt : off < endO) (hx : c[off]? = some x)
    (h1 : x ≠ cPOpen) (h2 : x ≠ cPClose) :
    skipParen c endO (f + 1) off skip = skipParen c endO f (off + 1) skip := by
  have hrd : rd c off = .ok x := by simp [rd, hx]
  simp only [skipParen, hlt, if_true, hrd, bind, Except.bind, h1, h2, if_false]

theorem skipParen_run (c : List Nat) (endO : Nat) : ∀ (k f off skip p : Nat),
    (∀ i, i < k → ∃ x, c[off + i]? = some x ∧ x ≠ cPOpen ∧ x ≠ cPClose) → off + k ≤ endO →
    skipParen c endO f off skip = .ok p → ∃ f', skipParen c endO f' (off + k) skip = .ok p := by
  intro k
  induction k with
  | zero => intro f off skip p _ _ h; exact ⟨f, by simpa using h⟩
  | succ k ih =>
    intro f off skip p hrun hle h
    cases f with
    | zero => simp [skipParen] at h
    | succ f =>
      obtain ⟨x, hx, h1, h2⟩ := hrun 0 (by omega)
      rw [skipParen_step c endO f off skip x (by omega) (by simpa using hx) h1 h2] at h
      obtain ⟨f', hf'⟩ := ih f (off + 1) skip p (fun i hi => by
        obtain ⟨y, hy, hqy⟩ := hrun (i + 1) (by omega)
        exact ⟨y, by rw [show off + 1 + i = off + (i + 1) by omega]; exact hy, hqy⟩) (by omega) h
      exact ⟨f', by rw [show off + (k + 1) = off + 1 + k by omega]; exact hf'⟩

/-- reading inside a decomposition -/
theorem get_in (A m B : List Nat) (i : Nat) (h : i < m.length) : (A ++ (m ++ B))[A.length + i]? = some m[i] := by
  rw [List.getElem?_append_right (by omega)]
  simp [List.getElem?_append_left h]

/-- a run given by a list all of whose members satisfy `P` -/
theorem run_of_mem (P : Nat → Prop) (A m B : List Nat) (hm : ∀ x ∈ m, P x) :
    ∀ i, i < m.length → ∃ x, (A ++ (m ++ B))[A.length + i]? = some x ∧ P x :=
  fun i hi => ⟨m[i], get_in A m B i hi, hm _ (List.getElem_mem hi)⟩


theorem lit_nopar (rn : List Nat → Option (Num R)) (s : List Nat) (n : Num R) (h : LitOk rn s n) :
    ∀ x ∈ s, x ≠ cPOpen ∧ x ≠ cPClose := by
  intro x hx
  obtain ⟨h1, _, h3⟩ := h.chars x hx
  refine ⟨?_, h3⟩
  intro he; subst he
  have : classify cPOpen = .paren := by rfl
  rw [this] at h1; cases h1

theorem printItems_one (lit : Num R → List Nat) (x : Operand R) (o : Op) :
    printItems lit [(x, o)] = x.print lit := by
  simp [printItems]

theorem printItems_cons2 (lit : Num R → List Nat) (x : Operand R) (o : Op) (y : Item R) (r : List (Item R)) :
    printItems lit ((x, o) :: y :: r) = x.print lit ++ ([cSpace] ++ o.symbol ++ [cSpace]) ++ printItems lit (y :: r) := by
  rw [printItems]

mutual
theorem skipParen_operand (lit : Num R → List Nat) (rn : List Nat → Option (Num R)) (Pn : Num R → Prop) (hlit : ∀ n, Pn n → LitOk rn (lit n) n)
    (c : List Nat) (E : Nat) :
    ∀ (x : Operand R), x.pok Pn → ∀ (A rest : List Nat) (f skip p : Nat), c = A ++ (x.print lit ++ rest) →
      A.length + (x.print lit).length ≤ E →
      skipParen c E f A.length skip = .ok p → ∃ f', skipParen c E f' (A.length + (x.print lit).length) skip = .ok p
  | .num n, hp, A, rest, f, skip, p, hc, hle, h => by
    simp only [Operand.print] at hc hle ⊢
    exact skipParen_run c E (lit n).length f A.length skip p
      (by rw [hc]; exact run_of_mem _ A (lit n) rest (lit_nopar rn _ n (hlit n hp))) hle h
  | .sub s, hp, A, rest, f, skip, p, hc, hle, h => by
    simp only [Operand.pok] at hp
    simp only [Operand.print] at hc hle ⊢
    have hl : ([cPOpen] ++ printItems lit s ++ [cPClose]).length = (printItems lit s).length + 2 := by simp
    rw [hl] at hle ⊢
    cases f with
    | zero => simp [skipParen] at h
    | succ f =>
      have h0 : c[A.length]? = some cPOpen := by rw [hc]; simp
      have hrd : rd c A.length = .ok cPOpen := by simp [rd, h0]
      have hne : ¬ (cPOpen = cPClose) := by decide
      simp only [skipParen, show A.length < E by omega, if_true, hrd, bind, Except.bind, hne, if_false] at h
      have hc2 : c = (A ++ [cPOpen]) ++ (printItems lit s ++ ([cPClose] ++ rest)) := by rw [hc]; simp [List.append_assoc]
      have hl2 : (A ++ [cPOpen]).length = A.length + 1 := by simp
      obtain ⟨f1, h1⟩ := skipParen_items lit rn Pn hlit c E s hp.1 (A ++ [cPOpen]) ([cPClose] ++ rest) f (skip + 1) p hc2
        (by rw [hl2]; omega) (by rw [hl2]; exact h)
      rw [hl2] at h1
      cases f1 with
      | zero => simp [skipParen] at h1
      | succ f1 =>
        have h9 : c[A.length + 1 + (printItems lit s).length]? = some cPClose := by
          have := get_in (A ++ [cPOpen] ++ printItems lit s) [cPClose] rest 0 (by simp)
          simp only [List.length_append, List.length_cons, List.length_nil, Nat.add_zero, List.getElem_cons_zero] at this
          rw [hc, ← this]; simp [List.append_assoc]
        have hrd9 : rd c (A.length + 1 + (printItems lit s).length) = .ok cPClose := by simp [rd, h9]
        simp only [skipParen, show A.length + 1 + (printItems lit s).length < E by omega, if_true, hrd9, bind, Except.bind,
          show ¬ (skip + 1 = 0) by omega, if_false, Nat.add_sub_cancel] at h1
        exact ⟨f1, by rw [show A.length + ((printItems lit s).length + 2) = A.length + 1 + (printItems lit s).length + 1 by omega]; exact h1⟩
  | .var _, hp, _, _, _, _, _, _, _, _ => by simp [Operand.pok] at hp
  | .text _ _, hp, _, _, _, _, _, _, _, _ => by simp [Operand.pok] at hp
theorem skipParen_items (lit : Num R → List Nat) (rn : List Nat → Option (Num R)) (Pn : Num R → Prop) (hlit : ∀ n, Pn n → LitOk rn (lit n) n)
    (c : List Nat) (E : Nat) :
    ∀ (items : List (Item R)), pokItems Pn items → ∀ (A rest : List Nat) (f skip p : Nat),
      c = A ++ (printItems lit items ++ rest) → A.length + (printItems lit items).length ≤ E →
      skipParen c E f A.length skip = .ok p →
      ∃ f', skipParen c E f' (A.length + (printItems lit items).length) skip = .ok p
  | [], hp, _, _, _, _, _, _, _, _ => by simp [pokItems] at hp
  | (x, o) :: more, hp, A, rest, f, skip, p, hc, hle, h => by
    simp only [pokItems] at hp
    obtain ⟨hx, hrest⟩ := hp
    cases more with
    | nil =>
      rw [printItems_one] at hc hle ⊢
      exact skipParen_operand lit rn Pn hlit c E x hx A rest f skip p hc hle h
    | cons y more' =>
      simp only at hrest
      rw [printItems_cons2] at hc hle ⊢
      have hc1 : c = A ++ (x.print lit ++ (([cSpace] ++ o.symbol ++ [cSpace]) ++ (printItems lit (y :: more') ++ rest))) := by
        rw [hc]; simp [List.append_assoc]
      have hlen : (x.print lit ++ ([cSpace] ++ o.symbol ++ [cSpace]) ++ printItems lit (y :: more')).length =
          (x.print lit).length + ([cSpace] ++ o.symbol ++ [cSpace]).length + (printItems lit (y :: more')).length := by
        simp only [List.length_append]
      rw [hlen] at hle ⊢
      obtain ⟨f1, h1⟩ := skipParen_operand lit rn Pn hlit c E x hx A _ f skip p hc1 (by omega) h
      have hc2 : c = (A ++ x.print lit) ++ (([cSpace] ++ o.symbol ++ [cSpace]) ++ (printItems lit (y :: more') ++ rest)) := by
        rw [hc1]; simp [List.append_assoc]
      have hl2 : (A ++ x.print lit).length = A.length + (x.print lit).length := by simp
      have hsym : ∀ z ∈ [cSpace] ++ o.symbol ++ [cSpace], z ≠ cPOpen ∧ z ≠ cPClose := by
        intro z hz
        simp only [List.mem_append, List.mem_singleton] at hz
        rcases hz with (h | h) | h
        · subst h; decide
        · exact symbol_nopar o z h
        · subst h; decide
      obtain ⟨f2, h2⟩ := skipParen_run c E ([cSpace] ++ o.symbol ++ [cSpace]).length f1 (A.length + (x.print lit).length) skip p
        (by rw [hc2, ← hl2]; exact run_of_mem _ _ _ _ hsym) (by omega) h1
      have hc3 : c = (A ++ x.print lit ++ ([cSpace] ++ o.symbol ++ [cSpace])) ++ (printItems lit (y :: more') ++ rest) := by
        rw [hc1]; simp [List.append_assoc]
      have hl3 : (A ++ x.print lit ++ ([cSpace] ++ o.symbol ++ [cSpace])).length =
          A.length + (x.print lit).length + ([cSpace] ++ o.symbol ++ [cSpace]).length := by simp [List.length_append]; omega
      obtain ⟨f3, h3⟩ := skipParen_items lit rn Pn hlit c E (y :: more') hrest.2 _ rest f2 skip p hc3
        (by rw [hl3]; omega) (by rw [hl3]; exact h2)
      rw [hl3] at h3
      exact ⟨f3, by rw [show A.length + ((x.print lit).length + ([cSpace] ++ o.symbol ++ [cSpace]).length +
        (printItems lit (y :: more')).length) = A.length + (x.print lit).length + ([cSpace] ++ o.symbol ++ [cSpace]).length +
        (printItems lit (y :: more')).length by omega]; exact h3⟩
end


/-- the operator scan passes over a printed operand -/
theorem getOperation_operand (lit : Num R → List Nat) (rn : List Nat → Option (Num R)) (Pn : Num R → Prop) (hlit : ∀ n, Pn n → LitOk rn (lit n) n)
    (c : List Nat) (E : Nat) (x : Operand R) (hx : x.pok Pn) (A rest : List Nat) (f : Nat) (r : Op × Nat)
    (hc : c = A ++ (x.print lit ++ rest)) (hle : A.length + (x.print lit).length ≤ E)
    (h : getOperation c E f A.length = .ok r) :
    ∃ f', getOperation c E f' (A.length + (x.print lit).length) = .ok r := by
  cases x with
  | num n =>
    simp only [Operand.print] at hc hle ⊢
    exact getOperation_run c E (lit n).length f A.length r
      (by rw [hc]; exact run_of_mem _ A (lit n) rest (fun y hy => ((hlit n hx).chars y hy).1)) hle h
  | sub s =>
    simp only [Operand.pok] at hx
    simp only [Operand.print] at hc hle ⊢
    have hl : ([cPOpen] ++ printItems lit s ++ [cPClose]).length = (printItems lit s).length + 2 := by simp
    rw [hl] at hle ⊢
    cases f with
    | zero => simp [getOperation] at h
    | succ f =>
      have h0 : c[A.length]? = some cPOpen := by rw [hc]; simp
      have hrd : rd c A.length = .ok cPOpen := by simp [rd, h0]
      have hcl : classify cPOpen = .paren := by rfl
      simp only [getOperation, show A.length < E by omega, if_true, hrd, bind, Except.bind, hcl] at h
      cases hsp : skipParen c E (E + 1) (A.length + 1) 0 with
      | error e => rw [hsp] at h; cases h
      | ok off2 =>
        rw [hsp] at h
        simp only [] at h
        have hc2 : c = (A ++ [cPOpen]) ++ (printItems lit s ++ ([cPClose] ++ rest)) := by rw [hc]; simp [List.append_assoc]
        have hl2 : (A ++ [cPOpen]).length = A.length + 1 := by simp
        obtain ⟨f1, h1⟩ := skipParen_items lit rn Pn hlit c E s hx.1 (A ++ [cPOpen]) ([cPClose] ++ rest) (E + 1) 0 off2 hc2
          (by rw [hl2]; omega) (by rw [hl2]; exact hsp)
        rw [hl2] at h1
        have h9 : c[A.length + 1 + (printItems lit s).length]? = some cPClose := by
          have := get_in (A ++ [cPOpen] ++ printItems lit s) [cPClose] rest 0 (by simp)
          simp only [List.length_append, List.length_cons, List.length_nil, Nat.add_zero, List.getElem_cons_zero] at this
          rw [hc, ← this]; simp [List.append_assoc]
        have hrd9 : rd c (A.length + 1 + (printItems lit s).length) = .ok cPClose := by simp [rd, h9]
        cases f1 with
        | zero => simp [skipParen] at h1
        | succ f1 =>
          simp only [skipParen, show A.length + 1 + (printItems lit s).length < E by omega, if_true, hrd9, bind,
            Except.bind, Except.ok.injEq] at h1
          subst h1
          simp only [show A.length + 1 + (printItems lit s).length < E by omega, if_true] at h
          cases f with
          | zero => simp [getOperation] at h
          | succ f =>
            rw [getOperation_step c E f _ cPClose (by omega) h9 (by rfl)] at h
            exact ⟨f, by rw [show A.length + ((printItems lit s).length + 2) = A.length + 1 + (printItems lit s).length + 1 by omega]; exact h⟩
  | var _ => simp [Operand.pok] at hx
  | text _ _ => simp [Operand.pok] at hx

/-- the last unit of a printed operand is a digit or `)` -/
theorem operand_last (lit : Num R → List Nat) (rn : List Nat → Option (Num R)) (Pn : Num R → Prop) (hlit : ∀ n, Pn n → LitOk rn (lit n) n)
    (x : Operand R) (hx : x.pok Pn) :
    ∃ ini z, x.print lit = ini ++ [z] ∧ (z = cPClose ∨ (W1.digitZero ≤ z ∧ z ≤ W1.digitNine)) := by
  cases x with
  | num n =>
    simp only [Operand.print]
    have hne := (hlit n hx).ne
    obtain ⟨ini, z, hz⟩ : ∃ ini z, lit n = ini ++ [z] := ⟨(lit n).dropLast, (lit n).getLast hne, (List.dropLast_concat_getLast hne).symm⟩
    refine ⟨ini, z, hz, Or.inr ((hlit n hx).last z (by rw [hz]; simp))⟩
  | sub s => exact ⟨[cPOpen] ++ printItems lit s, cPClose, by simp [Operand.print], Or.inl rfl⟩
  | var _ => simp [Operand.pok] at hx
  | text _ _ => simp [Operand.pok] at hx

/-- `isExpression` right after "operand, space" -/
theorem isExpression_after (c A : List Nat) (z : Nat) (rest : List Nat) (hc : c = A ++ ([z, cSpace] ++ rest))
    (hz : z = cPClose ∨ (W1.digitZero ≤ z ∧ z ≤ W1.digitNine)) : isExpression c (A.length + 2) = .ok true := by
  have h1 : c[A.length + 1]? = some cSpace := by rw [hc]; simp
  have h0 : c[A.length]? = some z := by rw [hc]; simp
  have hr1 : rd c (A.length + 1) = .ok cSpace := by simp [rd, h1]
  have hr0 : rd c A.length = .ok z := by simp [rd, h0]
  simp only [isExpression, hr1, bind, Except.bind, if_true, hr0]
  rcases hz with h | h
  · subst h
    simp [show ¬ (cPClose = cSpace) by decide]
  · have hne : ¬ (z = cSpace) := by
      have : cSpace = 32 := by decide
      have : W1.digitZero = 48 := by decide
      omega
    simp only [hne, if_false]
    by_cases hp : z = cPClose ∨ z = cBClose
    · simp [hp]
    · simp [hp, h]


/-- the operator `getOperation` answers at a unit `c0` followed by `c1` (after an operand) -/
def opAt (c0 c1 : Nat) : Option Op :=
  match classify c0 with
  | .two yes no second => some (if c1 = second then yes else no)
  | .sign op => some op
  | .single op => some op
  | _ => none

theorem getOperation_opAt (c : List Nat) (E f pos c0 c1 : Nat) (o : Op) (hlt : pos < E) (h0 : c[pos]? = some c0)
    (h1 : c[pos + 1]? = some c1) (hex : isExpression c pos = .ok true) (ho : opAt c0 c1 = some o) :
    getOperation c E (f + 1) pos = .ok (o, pos) := by
  have hr0 : rd c pos = .ok c0 := by simp [rd, h0]
  have hr1 : rd c (pos + 1) = .ok c1 := by simp [rd, h1]
  simp only [getOperation, hlt, if_true, hr0, bind, Except.bind]
  unfold opAt at ho
  cases hcl : classify c0 with
  | two yes no second =>
    rw [hcl] at ho
    simp only [Option.some.injEq] at ho
    simp only [hr1, ho]
  | sign op =>
    rw [hcl] at ho
    simp only [Option.some.injEq] at ho
    simp only [hex, if_true, ho]
  | single op =>
    rw [hcl] at ho
    simp only [Option.some.injEq] at ho
    simp only [ho]
  | paren => rw [hcl] at ho; cases ho
  | bracket => rw [hcl] at ho; cases ho
  | other => rw [hcl] at ho; cases ho

theorem symbol_opAt (o : Op) (hb : isBinOp o) (rest : List Nat) :
    ∃ c0 c1, (o.symbol ++ ([cSpace] ++ rest))[0]? = some c0 ∧ (o.symbol ++ ([cSpace] ++ rest))[1]? = some c1 ∧
      opAt c0 c1 = some o ∧ 1 ≤ o.symbol.length ∧ o.symbol.length ≤ 2 := by
  cases o with
  | noOp => exact absurd rfl hb.1
  | error => exact absurd rfl hb.2
  | _ => exact ⟨_, _, rfl, rfl, rfl, by decide, by decide⟩


/-- the first unit of a printed operand is not white space -/
theorem operand_first (lit : Num R → List Nat) (rn : List Nat → Option (Num R)) (Pn : Num R → Prop) (hlit : ∀ n, Pn n → LitOk rn (lit n) n)
    (x : Operand R) (hx : x.pok Pn) :
    ∃ z tl, x.print lit = z :: tl ∧ isWs z = false ∧ (z = cPOpen ↔ ∃ s, x = .sub s) ∧ z ≠ cBOpen := by
  cases x with
  | num n =>
    simp only [Operand.print]
    have hne := (hlit n hx).ne
    cases hl : lit n with
    | nil => exact absurd hl hne
    | cons z tl =>
      have hz := (hlit n hx).chars z (by rw [hl]; simp)
      refine ⟨z, tl, rfl, hz.2.1, ⟨fun h => ?_, fun ⟨s, hs⟩ => by cases hs⟩, ?_⟩
      · subst h; have : classify cPOpen = .paren := rfl; rw [this] at hz; cases hz.1
      · intro h; subst h; have : classify cBOpen = .bracket := rfl; rw [this] at hz; cases hz.1
  | sub s => exact ⟨cPOpen, printItems lit s ++ [cPClose], by simp [Operand.print], by decide, ⟨fun _ => ⟨s, rfl⟩, fun _ => rfl⟩, by decide⟩
  | var _ => simp [Operand.pok] at hx
  | text _ _ => simp [Operand.pok] at hx

/-- `TrimLeft` on "at most one space, then a unit that is not white space" -/
theorem trimLeft_ws (c A : List Nat) (ws : List Nat) (z : Nat) (rest : List Nat) (hc : c = A ++ (ws ++ (z :: rest)))
    (hws : ws = [] ∨ ws = [cSpace]) (hz : isWs z = false) (end0 fuel : Nat) (he : A.length + ws.length < end0)
    (hf : 2 ≤ fuel) : trimLeft c end0 fuel A.length = .ok (A.length + ws.length) := by
  obtain ⟨f, rfl⟩ : ∃ f, fuel = f + 2 := ⟨fuel - 2, by omega⟩
  rcases hws with h | h <;> subst h
  · have h0 : c[A.length]? = some z := by rw [hc]; simp
    have hr : rd c A.length = .ok z := by simp [rd, h0]
    simp only [List.length_nil, Nat.add_zero] at he ⊢
    simp [trimLeft, he, hr, bind, Except.bind, hz]
  · have h0 : c[A.length]? = some cSpace := by rw [hc]; simp
    have h1 : c[A.length + 1]? = some z := by
      rw [hc]; rw [List.getElem?_append_right (by omega)]; simp
    have hr0 : rd c A.length = .ok cSpace := by simp [rd, h0]
    have hr1 : rd c (A.length + 1) = .ok z := by simp [rd, h1]
    simp only [List.length_cons, List.length_nil, Nat.zero_add] at he ⊢
    simp [trimLeft, show A.length < end0 by omega, he, hr0, hr1, bind, Except.bind, hz, show isWs cSpace = true by decide]

/-- `TrimRight` on "a unit that is not white space, then at most one space" -/
theorem trimRight_ws (c A : List Nat) (z : Nat) (ws rest : List Nat) (hc : c = A ++ ([z] ++ (ws ++ rest)))
    (hws : ws = [] ∨ ws = [cSpace]) (hz : isWs z = false) (off : Nat) (ho : off ≤ A.length) :
    trimRight c off (A.length + 1 + ws.length) = .ok (A.length + 1) := by
  have h0 : c[A.length]? = some z := by rw [hc]; simp
  have hr0 : rd c A.length = .ok z := by simp [rd, h0]
  rcases hws with h | h <;> subst h
  · simp only [List.length_nil, Nat.add_zero]
    simp [trimRight, show A.length + 1 > off by omega, hr0, bind, Except.bind, hz]
  · have h1 : c[A.length + 1]? = some cSpace := by
      rw [hc]; rw [List.getElem?_append_right (by omega)]; simp
    have hr1 : rd c (A.length + 1) = .ok cSpace := by simp [rd, h1]
    simp only [List.length_cons, List.length_nil, Nat.zero_add]
    simp [trimRight, show A.length + 1 + 1 > off by omega, show A.length + 1 > off by omega, hr0, hr1, bind,
      Except.bind, hz, show isWs cSpace = true by decide]


theorem symbol_step (o : Op) (hb : isBinOp o) :
    1 + (if o.rank < Op.greater.rank then 1 else 0) = o.symbol.length := by
  cases o <;> first | exact absurd rfl hb.1 | exact absurd rfl hb.2 | rfl

theorem symbol_quiet_space : Quiet cSpace := by rfl

theorem pokItems_ne (items : List (Item R)) (h : pokItems Pn items) : items ≠ [] := by
  cases items with
  | nil => simp [pokItems] at h
  | cons _ _ => simp

theorem operand_len_pos (lit : Num R → List Nat) (rn : List Nat → Option (Num R)) (Pn : Num R → Prop) (hlit : ∀ n, Pn n → LitOk rn (lit n) n)
    (x : Operand R) (hx : x.pok Pn) : 0 < (x.print lit).length := by
  obtain ⟨z, tl, h, _⟩ := operand_first lit rn Pn hlit x hx
  rw [h]; simp

/-- the operator scan from the start of "ws operand tail": the operator after the operand -/
theorem getOperation_item (lit : Num R → List Nat) (rn : List Nat → Option (Num R)) (Pn : Num R → Prop) (hlit : ∀ n, Pn n → LitOk rn (lit n) n)
    (c : List Nat) (E : Nat) (x : Operand R) (hx : x.pok Pn) (A ws : List Nat) (hws : ws = [] ∨ ws = [cSpace]) (f : Nat)
    (r : Op × Nat) (h : getOperation c E f A.length = .ok r) :
    -- last operand
    (∀ B, c = A ++ (ws ++ x.print lit ++ B) → E = A.length + (ws ++ x.print lit).length →
      r = (.noOp, E)) ∧
    -- an operator follows
    (∀ o more B, isBinOp o → c = A ++ (ws ++ x.print lit ++ ([cSpace] ++ (o.symbol ++ ([cSpace] ++ more))) ++ B) →
      A.length + (ws ++ x.print lit).length + 1 + o.symbol.length + 1 + more.length = E → more ≠ [] →
      r = (o, A.length + (ws ++ x.print lit).length + 1)) := by
  have hwq : ∀ y ∈ ws, Quiet y := by
    intro y hy; rcases hws with h | h <;> subst h
    · cases hy
    · simp at hy; subst hy; exact symbol_quiet_space
  refine ⟨?_, ?_⟩
  · intro B hc hE
    have hc1 : c = A ++ (ws ++ (x.print lit ++ B)) := by rw [hc]; simp [List.append_assoc]
    obtain ⟨f1, h1⟩ := getOperation_run c E ws.length f A.length r (by rw [hc1]; exact run_of_mem _ A ws _ hwq)
      (by rw [hE]; simp) h
    have hc2 : c = (A ++ ws) ++ (x.print lit ++ B) := by rw [hc]; simp [List.append_assoc]
    have hl2 : (A ++ ws).length = A.length + ws.length := by simp
    obtain ⟨f2, h2⟩ := getOperation_operand lit rn Pn hlit c E x hx (A ++ ws) B f1 r hc2 (by rw [hl2, hE]; simp; omega)
      (by rw [hl2]; exact h1)
    rw [hl2] at h2
    have hEe : A.length + ws.length + (x.print lit).length = E := by rw [hE]; simp; omega
    rw [hEe] at h2
    cases f2 with
    | zero => simp [getOperation] at h2
    | succ f2 =>
      simp only [getOperation, Nat.lt_irrefl, if_false, Except.ok.injEq] at h2
      exact h2.symm
  · intro o more B hb hc hE hmore
    have hc1 : c = A ++ (ws ++ (x.print lit ++ ([cSpace] ++ (o.symbol ++ ([cSpace] ++ more))) ++ B)) := by
      rw [hc]; simp [List.append_assoc]
    have hlws : (ws ++ x.print lit).length = ws.length + (x.print lit).length := by simp
    obtain ⟨f1, h1⟩ := getOperation_run c E ws.length f A.length r (by rw [hc1]; exact run_of_mem _ A ws _ hwq)
      (by omega) h
    have hc2 : c = (A ++ ws) ++ (x.print lit ++ (([cSpace] ++ (o.symbol ++ ([cSpace] ++ more))) ++ B)) := by
      rw [hc]; simp [List.append_assoc]
    have hl2 : (A ++ ws).length = A.length + ws.length := by simp
    obtain ⟨f2, h2⟩ := getOperation_operand lit rn Pn hlit c E x hx (A ++ ws) _ f1 r hc2 (by rw [hl2]; omega)
      (by rw [hl2]; exact h1)
    rw [hl2] at h2
    -- the space before the operator
    obtain ⟨ini, z, hz, hzd⟩ := operand_last lit rn Pn hlit x hx
    have hc3 : c = (A ++ ws ++ ini) ++ ([z, cSpace] ++ (o.symbol ++ ([cSpace] ++ (more ++ B)))) := by
      rw [hc, hz]; simp [List.append_assoc]
    have hl3 : (A ++ ws ++ ini).length + 1 = A.length + ws.length + (x.print lit).length := by
      rw [hz]; simp; omega
    have hsp : c[A.length + ws.length + (x.print lit).length]? = some cSpace := by
      have hc5 : c = (A ++ ws ++ ini ++ [z]) ++ ([cSpace] ++ (o.symbol ++ ([cSpace] ++ (more ++ B)))) := by
        rw [hc3]; simp [List.append_assoc]
      have hl5 : (A ++ ws ++ ini ++ [z]).length = A.length + ws.length + (x.print lit).length := by
        rw [hz]; simp; omega
      have := get_in (A ++ ws ++ ini ++ [z]) [cSpace] (o.symbol ++ ([cSpace] ++ (more ++ B))) 0 (by simp)
      rw [hl5] at this
      rw [hc5]; simpa using this
    cases f2 with
    | zero => simp [getOperation] at h2
    | succ f2 =>
      rw [getOperation_step c E f2 _ cSpace (by omega) hsp symbol_quiet_space] at h2
      obtain ⟨c0, c1, g0, g1, gop, gl1, gl2⟩ := symbol_opAt o hb (more ++ B)
      have hpos : A.length + ws.length + (x.print lit).length + 1 = (A ++ ws ++ ini).length + 2 := by omega
      have hc4 : c = (A ++ ws ++ ini ++ [z, cSpace]) ++ (o.symbol ++ ([cSpace] ++ (more ++ B))) := by
        rw [hc3]; simp [List.append_assoc]
      have hl4 : (A ++ ws ++ ini ++ [z, cSpace]).length = (A ++ ws ++ ini).length + 2 := by simp; omega
      have h0 : c[(A ++ ws ++ ini).length + 2]? = some c0 := by
        rw [← hl4, hc4, List.getElem?_append_right (by omega)]; simpa using g0
      have h1' : c[(A ++ ws ++ ini).length + 2 + 1]? = some c1 := by
        rw [← hl4, hc4, List.getElem?_append_right (by omega)]
        rw [show (A ++ ws ++ ini ++ [z, cSpace]).length + 1 - (A ++ ws ++ ini ++ [z, cSpace]).length = 1 by omega]
        exact g1
      have hex := isExpression_after c (A ++ ws ++ ini) z _ hc3 hzd
      cases f2 with
      | zero => rw [hpos] at h2; simp [getOperation] at h2
      | succ f2 =>
        rw [hpos, getOperation_opAt c E f2 _ c0 c1 o (by omega) h0 h1' hex gop] at h2
        simp only [Except.ok.injEq] at h2
        rw [← h2, hlws]
        congr 1
        omega


theorem bind_ok' {α β : Type} {x : Except Fault α} {g : α → Except Fault β} {r : β}
    (h : (x >>= g) = .ok r) : ∃ a, x = .ok a ∧ g a = .ok r := by
  cases x with
  | error e => cases h
  | ok a => exact ⟨a, rfl, h⟩

/-- partial correctness of the three mutually recursive scanner functions on printed lists -/
theorem scan_print_pc (cfg : ScanCfg R) (lit : Num R → List Nat) (Pn : Num R → Prop) (hlit : ∀ n, Pn n → LitOk cfg.readNum (lit n) n)
    (c : List Nat) : ∀ f,
    (∀ (items : List (Item R)) (A B : List Nat), pokItems Pn items → ¬ lonePar items →
      c = A ++ (printItems lit items ++ B) → B ≠ [] → ∀ r,
      parseExpressions cfg c f A.length (A.length + (printItems lit items).length) = .ok r → r = items) ∧
    (∀ (done rem : List (Item R)) (lastOp : Op) (ws A B : List Nat), pokItems Pn rem →
      c = A ++ ((ws ++ printItems lit rem) ++ B) → B ≠ [] →
      ((ws = [] ∧ lastOp = .noOp ∧ ¬ lonePar rem) ∨ (ws = [cSpace] ∧ lastOp ≠ .noOp)) → ∀ r,
      parseLoop cfg c f (A.length + (ws ++ printItems lit rem).length) A.length done lastOp = .ok r → r = done ++ rem) ∧
    (∀ (exprs : List (Item R)) (oper lastOp : Op) (x : Operand R) (ws ws' A B : List Nat), x.pok Pn →
      c = A ++ ((ws ++ (x.print lit ++ ws')) ++ B) → B ≠ [] → (ws = [] ∨ ws = [cSpace]) → (ws' = [] ∨ ws' = [cSpace]) →
      (lastOp ≠ oper ∨ oper ≠ .noOp ∨ ∀ s, x ≠ .sub s) → ∀ r,
      parseValue cfg c f exprs oper lastOp A.length (A.length + (ws ++ (x.print lit ++ ws')).length) = .ok r →
      r = some (exprs ++ [(x, oper)])) := by
  intro f
  induction f with
  | zero =>
    refine ⟨?_, ?_, ?_⟩ <;> intros <;> simp_all [parseExpressions, parseLoop, parseValue]
  | succ f ih =>
    obtain ⟨ihE, ihL, ihV⟩ := ih
    refine ⟨?_, ?_, ?_⟩
    · -- parseExpressions
      intro items A B hp hl hc hB r hr
      simp only [parseExpressions] at hr
      have := ihL [] items .noOp [] A B hp (by simpa using hc) hB (Or.inl ⟨rfl, rfl, hl⟩) r (by simpa using hr)
      simpa using this
    · -- parseLoop
      intro done rem lastOp ws A B hp hc hB hcase r hr
      have hws : ws = [] ∨ ws = [cSpace] := by rcases hcase with h | h; exact Or.inl h.1; exact Or.inr h.1
      cases rem with
      | nil => simp [pokItems] at hp
      | cons xo more =>
        obtain ⟨x, o⟩ := xo
        simp only [pokItems] at hp
        obtain ⟨hx, hmore⟩ := hp
        have hxl := operand_len_pos lit cfg.readNum Pn hlit x hx
        simp only [parseLoop] at hr
        cases more with
        | nil =>
          -- the last operand
          simp only at hmore
          subst hmore
          rw [printItems_one] at hc hr
          have hlt : A.length < A.length + (ws ++ x.print lit).length := by simp; omega
          simp only [hlt, if_true] at hr
          obtain ⟨⟨oper, opOff⟩, hg, hr⟩ := bind_ok' hr
          have hgo := (getOperation_item lit cfg.readNum Pn hlit c _ x hx A ws hws _ (oper, opOff) hg).1 B
            (by rw [hc]) rfl
          simp only [Prod.mk.injEq] at hgo
          obtain ⟨rfl, rfl⟩ := hgo
          simp only [show ¬ (Op.noOp = Op.error) by decide, if_false] at hr
          obtain ⟨v, hv, hr⟩ := bind_ok' hr
          have hun : lastOp ≠ .noOp ∨ Op.noOp ≠ .noOp ∨ ∀ s, x ≠ .sub s := by
            rcases hcase with ⟨_, h2, h3⟩ | ⟨_, h2⟩
            · right; right; intro s hs; subst hs; exact h3 (by simp [lonePar])
            · left; exact h2
          have hv' := ihV done .noOp lastOp x ws [] A B hx (by rw [hc]; simp [List.append_assoc]) hB hws (Or.inl rfl) hun v
            (by simpa using hv)
          subst hv'
          simp only [] at hr
          cases f with
          | zero => simp [parseLoop] at hr
          | succ f =>
            have hrk : (Op.noOp : Op).rank < Op.greater.rank := by decide
            simp only [parseLoop, hrk, if_true] at hr
            have h1 : ¬ (A.length + (ws ++ x.print lit).length + 1 + 1 < A.length + (ws ++ x.print lit).length) := by omega
            have h2 : A.length + (ws ++ x.print lit).length + 1 + 1 > A.length + (ws ++ x.print lit).length := by omega
            simp only [h1, if_false, h2, true_and, if_true, Except.ok.injEq] at hr
            exact hr.symm
        | cons y more' =>
          simp only at hmore
          obtain ⟨hb, hrest⟩ := hmore
          rw [printItems_cons2] at hc hr
          have hrl : 0 < (printItems lit (y :: more')).length := by
            obtain ⟨y1, y2⟩ := y
            simp only [pokItems] at hrest
            have := operand_len_pos lit cfg.readNum Pn hlit y1 hrest.1
            simp only [printItems, List.length_append]; omega
          have hlen : (ws ++ (x.print lit ++ ([cSpace] ++ o.symbol ++ [cSpace]) ++ printItems lit (y :: more'))).length =
              (ws ++ x.print lit).length + 1 + o.symbol.length + 1 + (printItems lit (y :: more')).length := by
            simp only [List.length_append, List.length_cons, List.length_nil]; omega
          rw [hlen] at hr
          have hlt : A.length < A.length + ((ws ++ x.print lit).length + 1 + o.symbol.length + 1 + (printItems lit (y :: more')).length) := by
            omega
          simp only [hlt, if_true] at hr
          obtain ⟨⟨oper, opOff⟩, hg, hr⟩ := bind_ok' hr
          have hgo := (getOperation_item lit cfg.readNum Pn hlit c _ x hx A ws hws _ (oper, opOff) hg).2 o
            (printItems lit (y :: more')) B hb (by rw [hc]; simp [List.append_assoc]) (by omega)
            (by intro h; rw [h] at hrl; simp at hrl)
          simp only [Prod.mk.injEq] at hgo
          obtain ⟨rfl, rfl⟩ := hgo
          simp only [hb.2, if_false] at hr
          obtain ⟨v, hv, hr⟩ := bind_ok' hr
          have hv' := ihV done oper lastOp x ws [cSpace] A
            (oper.symbol ++ ([cSpace] ++ (printItems lit (y :: more') ++ B))) hx
            (by rw [hc]; simp [List.append_assoc]) (by simp) hws (Or.inr rfl)
            (Or.inr (Or.inl hb.1)) v
            (by
              rw [show A.length + (ws ++ (x.print lit ++ [cSpace])).length = A.length + (ws ++ x.print lit).length + 1 by
                simp only [List.length_append, List.length_cons, List.length_nil]; omega]
              exact hv)
          subst hv'
          simp only [] at hr
          rw [show A.length + (ws ++ x.print lit).length + 1 + 1 + (if oper.rank < Op.greater.rank then 1 else 0) =
            A.length + (ws ++ x.print lit).length + 1 + oper.symbol.length by have := symbol_step oper hb; omega] at hr
          have hc2 : c = (A ++ (ws ++ x.print lit ++ [cSpace] ++ oper.symbol)) ++
              (([cSpace] ++ printItems lit (y :: more')) ++ B) := by
            rw [hc]; simp [List.append_assoc]
          have hl2 : (A ++ (ws ++ x.print lit ++ [cSpace] ++ oper.symbol)).length =
              A.length + (ws ++ x.print lit).length + 1 + oper.symbol.length := by
            simp only [List.length_append, List.length_cons, List.length_nil]; omega
          have := ihL (done ++ [(x, oper)]) (y :: more') oper [cSpace] _ B hrest hc2 hB (Or.inr ⟨rfl, hb.1⟩) r
            (by
              rw [hl2]
              rw [show A.length + (ws ++ x.print lit).length + 1 + oper.symbol.length + ([cSpace] ++ printItems lit (y :: more')).length =
                A.length + ((ws ++ x.print lit).length + 1 + oper.symbol.length + 1 + (printItems lit (y :: more')).length) by
                simp only [List.length_append, List.length_cons, List.length_nil]; omega]
              exact hr)
          rw [this]; simp
    · -- parseValue
      intro exprs oper lastOp x ws ws' A B hx hc hB hws hws' hun r hr
      obtain ⟨z, tl, hz, hzw, hzp, hzb⟩ := operand_first lit cfg.readNum Pn hlit x hx
      obtain ⟨ini, zl, hzl, hzd⟩ := operand_last lit cfg.readNum Pn hlit x hx
      have hxl := operand_len_pos lit cfg.readNum Pn hlit x hx
      simp only [parseValue] at hr
      have hlenall : (ws ++ (x.print lit ++ ws')).length = ws.length + (x.print lit).length + ws'.length := by
        simp only [List.length_append]; omega
      rw [hlenall] at hr
      have htl := trimLeft_ws c A ws z (tl ++ ws' ++ B) (by rw [hc, hz]; simp [List.append_assoc]) hws hzw
        (A.length + (ws.length + (x.print lit).length + ws'.length))
        (A.length + (ws.length + (x.print lit).length + ws'.length) - A.length + 1) (by omega) (by omega)
      rw [htl] at hr
      simp only [bind, Except.bind] at hr
      have hzlw : isWs zl = false := by
        rcases hzd with h | h
        · subst h; decide
        · have h0 : W1.digitZero = 48 := by decide
          have h9 : W1.digitNine = 57 := by decide
          simp only [isWs]
          have : zl ≠ 32 ∧ zl ≠ 10 ∧ zl ≠ 9 ∧ zl ≠ 13 := by omega
          simp [this]
      have htr := trimRight_ws c (A ++ ws ++ ini) zl ws' B (by rw [hc, hzl]; simp [List.append_assoc]) hws' hzlw
        (A.length + ws.length) (by simp)
      have hl3 : (A ++ ws ++ ini).length + 1 = A.length + ws.length + (x.print lit).length := by
        rw [hzl]; simp; omega
      rw [show (A ++ ws ++ ini).length + 1 + ws'.length = A.length + (ws.length + (x.print lit).length + ws'.length) by omega,
        hl3] at htr
      rw [htr] at hr
      simp only [] at hr
      have hlt : A.length + ws.length < A.length + ws.length + (x.print lit).length := by omega
      simp only [hlt, if_true] at hr
      have h0 : c[A.length + ws.length]? = some z := by
        have := get_in (A ++ ws) (z :: tl) (ws' ++ B) 0 (by simp)
        simp only [List.length_append, Nat.add_zero, List.getElem_cons_zero] at this
        rw [hc, hz, ← this]; simp [List.append_assoc]
      have hrd : rd c (A.length + ws.length) = .ok z := by simp [rd, h0]
      simp only [hrd] at hr
      cases x with
      | num n =>
        have hzp' : ¬ (z = cPOpen) := fun h => by obtain ⟨s, hs⟩ := hzp.mp h; cases hs
        simp only [hzp', hzb, if_false] at hr
        have hsl : (c.drop (A.length + ws.length)).take (A.length + ws.length + (Operand.print lit (.num n)).length - (A.length + ws.length)) = lit n := by
          have hc2 : c = (A ++ ws) ++ (lit n ++ (ws' ++ B)) := by rw [hc]; simp [Operand.print, List.append_assoc]
          rw [Nat.add_sub_cancel_left]
          simp only [Operand.print]
          rw [hc2, show A.length + ws.length = (A ++ ws).length by simp, List.drop_left]
          simp
        rw [hsl, (hlit n hx).read] at hr
        simp only [Except.ok.injEq] at hr
        exact hr.symm
      | sub s =>
        simp only [Operand.pok] at hx
        have hzp' : z = cPOpen := hzp.mpr ⟨s, rfl⟩
        simp only [hzp', if_true] at hr
        obtain ⟨sub, hsub, hr⟩ := bind_ok' hr
        have hc2 : c = (A ++ ws ++ [cPOpen]) ++ (printItems lit s ++ ([cPClose] ++ ws' ++ B)) := by
          rw [hc]; simp [Operand.print, List.append_assoc]
        have hl2 : (A ++ ws ++ [cPOpen]).length = A.length + ws.length + 1 := by simp; omega
        have hpl : (Operand.print lit (.sub s)).length = (printItems lit s).length + 2 := by simp [Operand.print]
        have hsub' := ihE s (A ++ ws ++ [cPOpen]) ([cPClose] ++ ws' ++ B) hx.1 hx.2 hc2 (by simp) sub
          (by rw [hl2]; rw [show A.length + ws.length + 1 + (printItems lit s).length =
            A.length + ws.length + (Operand.print lit (.sub s)).length - 1 by rw [hpl]; omega]; exact hsub)
        have hne : s.isEmpty = false := by
          cases s with
          | nil => simp [pokItems] at hx
          | cons _ _ => rfl
        have hcond : lastOp ≠ oper ∨ oper ≠ .noOp := by
          rcases hun with h | h | h
          · exact Or.inl h
          · exact Or.inr h
          · exact absurd rfl (h s)
        rw [hsub'] at hr
        simp only [hcond, if_true, hne, Bool.false_eq_true, if_false, Except.ok.injEq] at hr
        exact hr.symm
      | var _ => simp [Operand.pok] at hx
      | text _ _ => simp [Operand.pok] at hx


/-- `ScanPrint` for flat lists: the scanner on the printed text (followed by any unit) returns the list -/
theorem scan_printItems (cfg : ScanCfg R) (lit : Num R → List Nat) (Pn : Num R → Prop)
    (hlit : ∀ n, Pn n → LitOk cfg.readNum (lit n) n) (items : List (Item R)) (hp : pokItems Pn items)
    (hl : ¬ lonePar items) (t : Nat) :
    parseTop cfg (printItems lit items ++ [t]) 0 (printItems lit items).length = .ok items := by
  obtain ⟨r, hr⟩ := parseTop_total cfg (printItems lit items ++ [t]) 0 (printItems lit items).length (by simp)
  have := (scan_print_pc cfg lit Pn hlit (printItems lit items ++ [t]) _).1 items [] [t] hp hl (by simp) (by simp) r
    (by simpa [parseTop] using hr)
  rw [hr, this]

/-- trees the printer covers: numeric leaves of `Pn`, real binary operators, no doubled parentheses -/
def Tree.pok (Pn : Num R → Prop) : Tree R → Prop
  | .leaf (.num n) => Pn n
  | .leaf _ => False
  | .paren t => t.pok Pn ∧ (∀ t', t ≠ .paren t')
  | .bin op l r => isBinOp op ∧ l.pok Pn ∧ r.pok Pn

theorem flattenGo_ne (t : Tree R) (last : Op) (acc : List (Item R)) : flattenGo t last acc ≠ [] := by
  induction t generalizing last acc with
  | leaf x => cases x <;> simp [flattenGo]
  | paren t _ => simp [flattenGo]
  | bin op l r ihl _ => simp only [flattenGo]; exact ihl _ _

theorem flattenGo_lone (t : Tree R) (last : Op) (h : lonePar (flattenGo t last [])) : ∃ t', t = .paren t' := by
  cases t with
  | leaf x => cases x <;> simp [flattenGo, lonePar] at h
  | paren t' => exact ⟨t', rfl⟩
  | bin op l r =>
    exfalso
    simp only [flattenGo] at h
    -- the list has at least two entries
    have hr := flattenGo_ne r last []
    generalize flattenGo r last [] = acc at h hr
    have : ∀ (l : Tree R) (op : Op) (acc : List (Item R)), acc ≠ [] → ¬ lonePar (flattenGo l op acc) := by
      intro l
      induction l with
      | leaf x =>
        intro op acc ha
        cases acc with
        | nil => exact absurd rfl ha
        | cons a b => cases x <;> simp [flattenGo, lonePar]
      | paren t _ =>
        intro op acc ha
        cases acc with
        | nil => exact absurd rfl ha
        | cons a b => simp [flattenGo, lonePar]
      | bin o2 l2 r2 ihl ihr =>
        intro op acc ha
        simp only [flattenGo]
        exact ihl o2 _ (flattenGo_ne r2 op acc)
    exact this l op acc hr h

theorem flattenGo_pok (Pn : Num R → Prop) : ∀ (t : Tree R) (last : Op) (acc : List (Item R)), t.pok Pn →
    (acc = [] → last = .noOp) → (acc ≠ [] → isBinOp last ∧ pokItems Pn acc) → pokItems Pn (flattenGo t last acc) := by
  intro t
  induction t with
  | leaf x =>
    intro last acc ht h1 h2
    cases x with
    | num n =>
      simp only [Tree.pok] at ht
      simp only [flattenGo, pokItems, Operand.pok]
      refine ⟨ht, ?_⟩
      cases acc with
      | nil => exact h1 rfl
      | cons a b => exact h2 (by simp)
    | var v => simp [Tree.pok] at ht
    | text o l => simp [Tree.pok] at ht
  | paren t ih =>
    intro last acc ht h1 h2
    simp only [Tree.pok] at ht
    simp only [flattenGo, pokItems, Operand.pok]
    refine ⟨⟨ih .noOp [] ht.1 (fun _ => rfl) (fun h => absurd rfl h), ?_⟩, ?_⟩
    · intro hl
      obtain ⟨t', ht'⟩ := flattenGo_lone t .noOp hl
      exact ht.2 t' ht'
    · cases acc with
      | nil => exact h1 rfl
      | cons a b => exact h2 (by simp)
  | bin op l r ihl ihr =>
    intro last acc ht h1 h2
    simp only [Tree.pok] at ht
    simp only [flattenGo]
    exact ihl op _ ht.2.1 (fun h => absurd h (flattenGo_ne r last acc)) (fun _ => ⟨ht.1, ihr last acc ht.2.2 h1 h2⟩)

/-- `ScanPrint`: scanning the printed form of a tree gives its flat list -/
theorem scan_print_tree (cfg : ScanCfg R) (lit : Num R → List Nat) (Pn : Num R → Prop)
    (hlit : ∀ n, Pn n → LitOk cfg.readNum (lit n) n) (t : Tree R) (ht : t.pok Pn) (hnp : ∀ t', t ≠ .paren t') (term : Nat) :
    parseTop cfg (printItems lit (flatten t) ++ [term]) 0 (printItems lit (flatten t)).length = .ok (flatten t) := by
  apply scan_printItems cfg lit Pn hlit (flatten t)
  · exact flattenGo_pok Pn t .noOp [] ht (fun _ => rfl) (fun h => absurd rfl h)
  · intro hl
    obtain ⟨t', ht'⟩ := flattenGo_lone t .noOp hl
    exact hnp t' ht'


end Qentem.Expr
