import Qentem.Proofs.StrToNumInt
/-! C09 helper lemmas: how the scanner walks over `digits . digits` — where the offset ends up and
when the result is `NotANumber` (second dot, empty exponent). Positions, not lists. -/
namespace Qentem.StrToNum

/-- every position in `[i, j)` holds a digit -/
def digitsOn (c : List Nat) (e i j : Nat) : Prop := ∀ k, i ≤ k → k < j → ∃ d, rd c e k = some d ∧ isDigit d = true

theorem digitsOn_mono {c : List Nat} {e i j i' : Nat} (h : digitsOn c e i j) (hi : i ≤ i') : digitsOn c e i' j :=
  fun k h1 h2 => h k (Nat.le_trans hi h1) h2

/-- the window ends inside the digits -/
theorem scanDigits_on (c : List Nat) (e j : Nat) : ∀ (k off num dg : Nat), digitsOn c e off j → off + k ≤ j →
    ∃ num' d', scanDigits c e k off num dg = some (off + k, num', d') ∧ ((k = 0 ∧ d' = dg) ∨ isDigit d' = true)
  | 0, off, num, dg, _, _ => ⟨num, dg, rfl, Or.inl ⟨rfl, rfl⟩⟩
  | k + 1, off, num, dg, hd, hk => by
    obtain ⟨d, hr, hdig⟩ := hd off (Nat.le_refl _) (by omega)
    obtain ⟨num', d', h1, h2⟩ := scanDigits_on c e j k (off + 1) (pushDigit num d) d (digitsOn_mono hd (by omega)) (by omega)
    refine ⟨num', d', ?_, Or.inr ?_⟩
    · rw [scanDigits, hr]; simp only [hdig, if_true]; rw [h1]; congr 2; omega
    · rcases h2 with ⟨_, h⟩ | h
      · rw [h]; exact hdig
      · exact h

/-- a non-digit at `j` is hit before the window ends -/
theorem scanDigits_hit (c : List Nat) (e j x : Nat) (hx : rd c e j = some x) (hxd : isDigit x = false) :
    ∀ (k off num dg : Nat), digitsOn c e off j → off ≤ j → j < off + k →
    ∃ num', scanDigits c e k off num dg = some (j, num', x)
  | 0, off, num, dg, _, h1, h2 => by omega
  | k + 1, off, num, dg, hd, h1, h2 => by
    by_cases hj : off = j
    · subst hj
      exact ⟨num, by rw [scanDigits, hx]; simp [hxd]⟩
    · obtain ⟨d, hr, hdig⟩ := hd off (Nat.le_refl _) (by omega)
      obtain ⟨num', h⟩ := scanDigits_hit c e j x hx hxd k (off + 1) (pushDigit num d) d (digitsOn_mono hd (by omega)) (by omega) (by omega)
      exact ⟨num', by rw [scanDigits, hr]; simp only [hdig, if_true]; exact h⟩

/-- the tail loop runs over digits -/
theorem tailLoop_on (c : List Nat) (e num j : Nat) : ∀ (k off : Nat) (hasDot : Bool) (dotOff : Nat),
    digitsOn c e off j → off ≤ j → j ≤ off + k →
    tailLoop c e num k off hasDot dotOff = tailLoop c e num (k - (j - off)) j hasDot dotOff
  | 0, off, hasDot, dotOff, _, h1, h2 => by
    have : off = j := by omega
    subst this; simp
  | k + 1, off, hasDot, dotOff, hd, h1, h2 => by
    by_cases hj : off = j
    · subst hj; simp
    · obtain ⟨d, hr, hdig⟩ := hd off (Nat.le_refl _) (by omega)
      rw [tailLoop, hr]; simp only [hdig, if_true]
      rw [tailLoop_on c e num j k (off + 1) hasDot dotOff (digitsOn_mono hd (by omega)) (by omega) (by omega)]
      congr 1; omega

/-- what ends a `digits . digits` mantissa well: `end_offset`, or a unit that is no digit, dot, `e`, `E` -/
def contReal (x : Nat) : Bool := isDigit x || x == 46 || isDotOrE x

theorem tailLoop_stop (c : List Nat) (e num off : Nat) (hasDot : Bool) (dotOff : Nat) (hoe : off ≤ e)
    (h : endsAt c e off contReal) :
    tailLoop c e num (e - off) off hasDot dotOff = some (.inr ⟨off, hasDot, dotOff, 0, 0, false⟩) := by
  rcases h with h | ⟨x, hx, hc⟩
  · subst h; simp [tailLoop]
  · have := rd_lt hx
    obtain ⟨k, hk⟩ : ∃ k, e - off = k + 1 := ⟨e - off - 1, by omega⟩
    simp only [contReal, Bool.or_eq_false_iff, beq_eq_false_iff_ne] at hc
    obtain ⟨⟨h1, h2⟩, h3⟩ := hc
    have h4 : ¬ (x = 101 ∨ x = 69) := by simp [isDotOrE] at h3; omega
    rw [hk, tailLoop, hx]; simp [h1, h2, h4]

theorem tailLoop_secondDot (c : List Nat) (e num off dotOff : Nat) (h : rd c e off = some 46) :
    tailLoop c e num (e - off) off true dotOff = some (.inl ⟨.notANumber, num, off⟩) := by
  have := rd_lt h
  obtain ⟨k, hk⟩ : ∃ k, e - off = k + 1 := ⟨e - off - 1, by omega⟩
  rw [hk, tailLoop, h]; simp [isDigit]

theorem tailLoop_firstDot (c : List Nat) (e num off dotOff : Nat) (h : rd c e off = some 46) :
    tailLoop c e num (e - off) off false dotOff = tailLoop c e num (e - (off + 1)) (off + 1) true off := by
  have := rd_lt h
  obtain ⟨k, hk⟩ : ∃ k, e - off = k + 1 := ⟨e - off - 1, by omega⟩
  rw [hk, tailLoop, h]; simp [isDigit]
  congr 1; omega

/-- an exponent marker followed by no digit (end, a non-digit, or a sign followed by no digit) -/
def emptyExpAt (c : List Nat) (e q : Nat) : Prop :=
  endsAt c e q (fun x => isDigit x || x == 43 || x == 45) ∨
  ∃ s, rd c e q = some s ∧ (s = 43 ∨ s = 45) ∧ endsAt c e (q + 1) isDigit

theorem expDigits_none (c : List Nat) (e q : Nat) (h : endsAt c e q isDigit) (hq : q ≤ e) :
    expDigits c e (e - q) q 0 = some (0, q) := by
  rcases h with h | ⟨x, hx, hc⟩
  · subst h; simp [expDigits]
  · have := rd_lt hx
    obtain ⟨k, hk⟩ : ∃ k, e - q = k + 1 := ⟨e - q - 1, by omega⟩
    rw [hk, expDigits, hx]; simp [hc]

theorem parseExponent_empty (c : List Nat) (e q : Nat) (hq : q ≤ e) (h : emptyExpAt c e q) :
    ∃ x n o, parseExponent c e q = some (false, x, n, o) := by
  unfold parseExponent
  rcases h with h | ⟨s, hs, hsign, hend⟩
  · rcases h with h | ⟨x, hx, hc⟩
    · subst h; simp
    · have hlt := rd_lt hx
      simp only [Bool.or_eq_false_iff, beq_eq_false_iff_ne] at hc
      have hns : ¬ (x = 43 ∨ x = 45) := by omega
      simp only [hlt, if_true, hx, hns, if_false]
      rw [expDigits_none c e q (Or.inr ⟨x, hx, hc.1.1⟩) hq]
      exact ⟨0, false, q, by simp⟩
  · have hlt := rd_lt hs
    simp only [hlt, if_true, hs, hsign]
    by_cases h1 : q + 1 < e
    · simp only [h1, if_true]
      rcases hend with h | ⟨y, hy, hc⟩
      · omega
      · simp only [hy]
        by_cases hy2 : y = 43 ∨ y = 45
        · simp only [hy2, if_true]; exact ⟨0, _, _, rfl⟩
        · simp only [hy2, if_false]
          rw [expDigits_none c e (q + 1) (Or.inr ⟨y, hy, hc⟩) (by omega)]
          exact ⟨0, (s == 45), q + 1, by simp⟩
    · simp only [h1, if_false]; exact ⟨0, _, _, rfl⟩

theorem tailLoop_emptyExp (c : List Nat) (e num off : Nat) (hasDot : Bool) (dotOff : Nat) (m : Nat)
    (hm : rd c e off = some m) (hmE : m = 101 ∨ m = 69) (h : emptyExpAt c e (off + 1)) :
    ∃ o, tailLoop c e num (e - off) off hasDot dotOff = some (.inl ⟨.notANumber, num, o⟩) := by
  have hlt := rd_lt hm
  obtain ⟨k, hk⟩ : ∃ k, e - off = k + 1 := ⟨e - off - 1, by omega⟩
  obtain ⟨x, n, o, hp⟩ := parseExponent_empty c e (off + 1) (by omega) h
  have h1 : isDigit m = false := by rcases hmE with h | h <;> subst h <;> decide
  have h2 : m ≠ 46 := by omega
  rw [hk, tailLoop, hm]; simp only [h1, h2, hmE, if_true, if_false, Bool.false_eq_true, hp]
  exact ⟨o, rfl⟩

end Qentem.StrToNum

namespace Qentem.StrToNum
open Qentem.Generated.StrToNum

/-- what sits at the position `Q` where the digits after the dot stop -/
inductive Stop where
  | good      -- `end_offset`, or a unit that cannot continue the numeral
  | dot       -- a second dot
  | emptyExp  -- `e`/`E` followed by no exponent digits
deriving DecidableEq

def stopAt (c : List Nat) (e Q : Nat) : Stop → Prop
  | .good => endsAt c e Q contReal
  | .dot => rd c e Q = some 46
  | .emptyExp => ∃ m, rd c e Q = some m ∧ (m = 101 ∨ m = 69) ∧ emptyExpAt c e (Q + 1)

/-- expected shape of a result: consumed up to `Q` as Real (or rejected as out of range) when the
stop is good, otherwise NotANumber -/
def Outcome (st : Stop) (Q : Nat) (r : Option Res) : Prop :=
  match st with
  | .good => ∃ x, r = some x ∧ x.offset = Q ∧ (x.kind = .real ∨ x.kind = .notANumber)
  | _ => ∃ b o, r = some ⟨.notANumber, b, o⟩

theorem tables_len : powerOfFive.length = 28 ∧ powerOfOneOverFive.length = 28 ∧ powerOfOneOverFiveShift.length = 28 ∧
    maxPowerOfFive = 27 := by decide

theorem posScale_some (num x : Nat) : ∃ bs, posScale num x = some bs := by
  obtain ⟨h1, _, _, h4⟩ := tables_len
  unfold posScale
  have hr : x % maxPowerOfFive < powerOfFive.length := by rw [h1, h4]; exact Nat.lt_trans (Nat.mod_lt _ (by decide)) (by decide)
  have h27 : maxPowerOfFive < powerOfFive.length := by rw [h1, h4]; decide
  rw [List.getElem?_eq_getElem h27]
  simp only
  split
  · rw [List.getElem?_eq_getElem hr]; exact ⟨_, rfl⟩
  · exact ⟨_, rfl⟩

theorem negScale_some (num x : Nat) : ∃ bs, negScale num x = some bs := by
  obtain ⟨_, h2, h3, h4⟩ := tables_len
  unfold negScale
  have hr : x % maxPowerOfFive < 28 := by rw [h4]; exact Nat.lt_trans (Nat.mod_lt _ (by decide)) (by decide)
  have h27 : maxPowerOfFive < 28 := by rw [h4]; decide
  rw [List.getElem?_eq_getElem (h2 ▸ h27), List.getElem?_eq_getElem (h3 ▸ h27)]
  simp only
  split
  · rw [List.getElem?_eq_getElem (h2 ▸ hr), List.getElem?_eq_getElem (h3 ▸ hr)]; exact ⟨_, rfl⟩
  · exact ⟨_, rfl⟩

theorem realResult_some (neg : Bool) (num ep10 x : Nat) (ne : Bool) (off : Nat) :
    ∃ r, realResult neg num ep10 x ne off = some r ∧ r.offset = off ∧ (r.kind = .real ∨ r.kind = .notANumber) := by
  unfold realResult
  simp only
  split
  · split
    · exact ⟨_, rfl, rfl, Or.inr rfl⟩
    · cases ne with
      | true =>
        obtain ⟨bs, hb⟩ := negScale_some num x
        simp only [if_true, powerOfNegativeTen, hb, Option.map_some]
        exact ⟨_, rfl, rfl, Or.inl rfl⟩
      | false =>
        obtain ⟨bs, hb⟩ := posScale_some num x
        simp only [Bool.false_eq_true, if_false, powerOfPositiveTen, hb, Option.map_some]
        exact ⟨_, rfl, rfl, Or.inl rfl⟩
  · exact ⟨_, rfl, rfl, Or.inl rfl⟩

/-- the tail loop from a state that already holds the dot, over digits up to `Q` -/
theorem tail_afterDot (c : List Nat) (e num off dotOff Q : Nat) (st : Stop) (hd : digitsOn c e off Q)
    (h1 : off ≤ Q) (h2 : Q ≤ e) (hst : stopAt c e Q st) :
    match st with
    | .good => tailLoop c e num (e - off) off true dotOff = some (.inr ⟨Q, true, dotOff, 0, 0, false⟩)
    | _ => ∃ o, tailLoop c e num (e - off) off true dotOff = some (.inl ⟨.notANumber, num, o⟩) := by
  have hrun := tailLoop_on c e num Q (e - off) off true dotOff hd h1 (by omega)
  have hk : e - off - (Q - off) = e - Q := by omega
  rw [hk] at hrun
  cases st with
  | good => simp only; rw [hrun]; exact tailLoop_stop c e num Q true dotOff h2 hst
  | dot => simp only; rw [hrun]; exact ⟨Q, tailLoop_secondDot c e num Q dotOff hst⟩
  | emptyExp =>
    simp only; rw [hrun]
    obtain ⟨m, hm, hmE, hemp⟩ := hst
    exact tailLoop_emptyExp c e num Q true dotOff m hm hmE hemp

/-- `finishReal` from a state that already holds the dot -/
theorem finishReal_afterDot (c : List Nat) (e : Nat) (neg : Bool) (num off tmp start : Nat) (fo : Bool) (dotOff Q : Nat)
    (st : Stop) (hd : digitsOn c e off Q) (h1 : off ≤ Q) (h2 : Q ≤ e) (hst : stopAt c e Q st) :
    Outcome st Q (finishReal c e neg num off tmp start fo true dotOff) := by
  have ht := tail_afterDot c e num off dotOff Q st hd h1 h2 hst
  unfold finishReal
  cases st with
  | good =>
    simp only at ht
    simp only [ht, Outcome]
    exact realResult_some _ _ _ _ _ _
  | dot => obtain ⟨o, ho⟩ := ht; simp only [ho, Outcome]; exact ⟨_, _, rfl⟩
  | emptyExp => obtain ⟨o, ho⟩ := ht; simp only [ho, Outcome]; exact ⟨_, _, rfl⟩

/-- `finishReal` from a state before the dot: digits up to the dot at `P`, then digits up to `Q` -/
theorem finishReal_beforeDot (c : List Nat) (e : Nat) (neg : Bool) (num off tmp start : Nat) (fo : Bool) (dotOff P Q : Nat)
    (st : Stop) (hd1 : digitsOn c e off P) (hP : rd c e P = some 46) (hoP : off ≤ P)
    (hd : digitsOn c e (P + 1) Q) (h1 : P + 1 ≤ Q) (h2 : Q ≤ e) (hst : stopAt c e Q st) :
    Outcome st Q (finishReal c e neg num off tmp start fo false dotOff) := by
  have hPe := rd_lt hP
  have hrun := tailLoop_on c e num P (e - off) off false dotOff hd1 hoP (by omega)
  have hk : e - off - (P - off) = e - P := by omega
  rw [hk, tailLoop_firstDot c e num P dotOff hP] at hrun
  have ht := tail_afterDot c e num (P + 1) P Q st hd h1 h2 hst
  unfold finishReal
  cases st with
  | good =>
    simp only at ht
    simp only [hrun, ht, Outcome]
    exact realResult_some _ _ _ _ _ _
  | dot => obtain ⟨o, ho⟩ := ht; simp only [hrun, ho, Outcome]; exact ⟨_, _, rfl⟩
  | emptyExp => obtain ⟨o, ho⟩ := ht; simp only [hrun, ho, Outcome]; exact ⟨_, _, rfl⟩

theorem afterScan_real (c : List Nat) (e : Nat) (neg : Bool) (start : Nat) (fo : Bool) (s : Scan) (h : s.isReal = true) :
    afterScan c e neg start fo s = finishReal c e neg s.num s.off s.off start fo s.hasDot s.dotOff := by
  unfold afterScan twentieth
  simp [h]

end Qentem.StrToNum
