import Qentem.Proofs.JsonStringify
import Qentem.Proofs.UnicodeUnEscape
/-! `JSONUtils::UnEscape` inverts `JSONUtils::Escape` on every string over all code units. -/
namespace Qentem.Json
open Qentem.Unicode

theorem toUTF_ctl (w c : Nat) (hc : c < 32) : toUTF w c = [c] := by
  by_cases h1 : w = 1 <;> by_cases h2 : w = 2 <;>
    simp [toUTF, toUTF8, toUTF16, toUTF32, h1, h2, show c < 0x80 by omega, show c < 0x10000 by omega] <;> omega

theorem hex4_ctl (c : Nat) (hc : c < 32) :
    hex4 false c = [48, 48, 48 + c / 16, hexDigitLower (c % 16)] := by
  unfold hex4 hexChar hexDigitLower
  have h1 : c / 4096 % 16 = 0 := by omega
  have h2 : c / 256 % 16 = 0 := by omega
  have h3 : c / 16 % 16 = c / 16 := by omega
  simp only [h1, h2, h3]
  have : c / 16 < 10 := by omega
  simp [this]
  split <;> omega

/-- Reading the text `e` (followed by a closing quote) from any cursor state appends exactly `s` to
the logical text `st ++ pend`, consumes `e` and the quote, and leaves the stream empty only if `e`
is `s` itself (nothing was escaped). -/
def Inverts (w : Nat) (e s : List Nat) : Prop :=
  ∀ (rest pend st : List Nat) (n : Nat),
    ∃ pend' st', unEscapeB w (e ++ 34 :: rest) pend st n = finishB pend' st' (n + e.length + 1) ∧
      st' ++ pend' = st ++ pend ++ s ∧ (st' = [] → e = s ∧ st = [])

theorem inverts_nil (w : Nat) : Inverts w [] [] := by
  intro rest pend st n
  exact ⟨pend, st, by simp [unEscapeB_quote], by simp, fun h => ⟨rfl, h⟩⟩

theorem inverts_escape (w c : Nat) (pre e s : List Nat)
    (hstep : ∀ tail pend st n, unEscapeB w (pre ++ tail) pend st n = unEscapeB w tail [] (st ++ pend ++ [c]) (n + pre.length))
    (ih : Inverts w e s) : Inverts w (pre ++ e) (c :: s) := by
  intro rest pend st n
  obtain ⟨p', s', h1, h2, h3⟩ := ih rest [] (st ++ pend ++ [c]) (n + pre.length)
  refine ⟨p', s', ?_, by simp [h2], ?_⟩
  · have e1 : n + pre.length + e.length + 1 = n + (pre ++ e).length + 1 := by simp; omega
    rw [List.append_assoc, hstep, h1, e1]
  · intro h; have := (h3 h).2; simp at this

theorem inverts_plain (w c : Nat) (e s : List Nat) (hp : isPlain c = true) (ih : Inverts w e s) :
    Inverts w (c :: e) (c :: s) := by
  intro rest pend st n
  obtain ⟨p', s', h1, h2, h3⟩ := ih rest (pend ++ [c]) st (n + 1)
  refine ⟨p', s', ?_, by simp [h2], ?_⟩
  · have e1 : n + 1 + e.length + 1 = n + (c :: e).length + 1 := by simp; omega
    simp only [List.cons_append]; rw [unEscapeB_plain_cons w c _ pend st n hp, h1, e1]
  · intro h; obtain ⟨e1, e2⟩ := h3 h; exact ⟨by rw [e1], e2⟩

theorem inverts_simple (w e v : Nat) (es s : List Nat) (h : simpleOut e = some v) (ih : Inverts w es s) :
    Inverts w (92 :: e :: es) (v :: s) :=
  inverts_escape w v [92, e] es s (fun tail pend st n => by simpa using unEscapeB_simple w e v tail pend st n h) ih

theorem unEscapeB_escapeJson (w : Nat) (s : List Nat) : Inverts w (escapeJson s) s := by
  induction s with
  | nil => exact inverts_nil w
  | cons c rest' ih =>
    unfold escapeJson
    split
    · rename_i hc
      exact inverts_simple w c c _ _ (by unfold simpleOut; simp [hc]) ih
    · split
      · rename_i h; subst h; exact inverts_simple w 98 8 _ _ (by decide) ih
      · split
        · rename_i h; subst h; exact inverts_simple w 116 9 _ _ (by decide) ih
        · split
          · rename_i h; subst h; exact inverts_simple w 110 10 _ _ (by decide) ih
          · split
            · rename_i h; subst h; exact inverts_simple w 102 12 _ _ (by decide) ih
            · split
              · rename_i h; subst h; exact inverts_simple w 114 13 _ _ (by decide) ih
              · split
                · rename_i hc
                  have := inverts_escape w c [92, 117, 48, 48, 48 + c / 16, hexDigitLower (c % 16)] _ _ (fun tail pend st n => by
                    have e : [92, 117, 48, 48, 48 + c / 16, hexDigitLower (c % 16)] ++ tail = 92 :: 117 :: (hex4 false c ++ tail) := by
                      rw [hex4_ctl c hc]; simp
                    rw [e, unEscapeB_u_hex4 w 117 c false _ pend st n (Or.inr rfl) (by omega) (by omega), toUTF_ctl w c hc]
                    simp) ih
                  simpa using this
                · rename_i h1 h2 h3 h4 h5 h6 h7
                  exact inverts_plain w c _ _ (by rw [isPlain_iff]; refine ⟨by omega, by omega, by omega, by omega, by omega⟩) ih

/-- `UnEscape(Escape(s) + '"')`: the whole body and the quote are consumed and the decoded text —
the stream when it was written to, else the input slice itself — is `s`. For every `s` over all
code units (NUL, controls, quote, backslash, slash included) and every character width. -/
theorem unescape_escape (w : Nat) (s rest : List Nat) :
    let r := unEscapeB w (escapeJson s ++ 34 :: rest) [] [] 0
    r.2 = (escapeJson s).length + 1 ∧ (if r.1.isEmpty then escapeJson s else r.1) = s := by
  obtain ⟨p', s', h1, h2, h3⟩ := unEscapeB_escapeJson w s rest [] [] 0
  simp only [h1]
  unfold finishB
  split
  · rename_i hemp
    have : s' = [] := by simpa using hemp
    subst this
    exact ⟨by simp, by simp [(h3 rfl).1]⟩
  · rename_i hne
    simp only [List.nil_append] at h2
    refine ⟨by simp, ?_⟩
    cases s' with
    | nil => simp at hne
    | cons a b => simpa using h2

end Qentem.Json
