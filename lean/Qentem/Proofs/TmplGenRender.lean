import Qentem.Proofs.TmplGen
import Qentem.Proofs.TmplIifRender
import Qentem.Proofs.TmplSvarRender
/-!
# C02 stage 7/8/9 — rendering trees against the reference interpreter
-/
set_option linter.unusedSectionVars false
set_option linter.unusedVariables false
set_option linter.unnecessarySimpa false
namespace Qentem.Tmpl
open Qentem.Expr (Fault rd ScanCfg VarRef Item Num Val Env RealLike)
open Qentem.Generated.Tmpl

variable {R : Type}

section
variable [RealLike R]

/-- the value name of a printed loop header stands at `pre.length + voOf S` -/
theorem chainD_hdr (c pre S V rest : List Nat) (hc : c = pre ++ (LOOPW ++ (hdrOf S V ++ rest))) :
    ∃ B Rr, c = B ++ (V ++ Rr) ∧ B.length = pre.length + voOf S := by
  by_cases hSe : S = []
  · subst hSe
    refine ⟨pre ++ LOOPW ++ [32, 118, 97, 108, 117, 101, 61, 34], [34] ++ rest, ?_, ?_⟩
    · rw [hc]; simp [hdrOf, List.append_assoc]
    · simp [LOOPW, voOf]
  · have hSi : S.isEmpty = false := by cases S <;> simp_all
    refine ⟨pre ++ LOOPW ++ ([32, 115, 101, 116, 61, 34] ++ S ++ [34] ++ [32, 118, 97, 108, 117, 101, 61, 34]), [34] ++ rest, ?_, ?_⟩
    · rw [hc]; simp [hdrOf, hSi, List.append_assoc]
    · simp [LOOPW, voOf, hSi]; omega

mutual
def GT.pathV (rn : List Nat → Option (Num R)) : List (List Nat) → GT → Prop
  | Vs, .segs l => ∀ s ∈ l, s.pathV rn Vs
  | Vs, .ifc e body tail => (varsOkV rn Vs e 34 ∧ e.length < 65536) ∧ GTs.pathV rn Vs body ∧ GTail.pathV rn Vs tail
  | Vs, .loop S V body => (S ≠ [] → PathOkV Vs S) ∧ GTs.pathV rn (V :: Vs) body
  | Vs, .iif e ts fs => (varsOkV rn Vs e 34 ∧ e.length < 65536) ∧ ValPath rn Vs ts ∧ ValPath rn Vs fs
  | Vs, .svar pa ar => PathOkV Vs pa ∧ (∀ V ∈ Vs, V.isPrefixOf pa = false) ∧ ∀ a ∈ ar, a.pathV rn Vs
def GTs.pathV (rn : List Nat → Option (Num R)) : List (List Nat) → GTs → Prop
  | _, .nil => True
  | Vs, .cons b r => GT.pathV rn Vs b ∧ GTs.pathV rn Vs r
def GTail.pathV (rn : List Nat → Option (Num R)) : List (List Nat) → GTail → Prop
  | _, .fin => True
  | Vs, .els body => GTs.pathV rn Vs body
  | Vs, .elif e body tail => (varsOkV rn Vs e 34 ∧ e.length < 65536) ∧ GTs.pathV rn Vs body ∧ GTail.pathV rn Vs tail
end

mutual
def GT.caseV (rn : List Nat → Option (Num R)) : GT → Prop
  | .segs _ => True
  | .ifc e body tail => (tail = .fin ∨ exprOk rn e) ∧ GTs.caseV rn body ∧ GTail.caseV rn tail
  | .loop _ _ body => GTs.caseV rn body
  | .iif _ _ _ => True
  | .svar _ _ => True
def GTs.caseV (rn : List Nat → Option (Num R)) : GTs → Prop
  | .nil => True
  | .cons b r => GT.caseV rn b ∧ GTs.caseV rn r
def GTail.caseV (rn : List Nat → Option (Num R)) : GTail → Prop
  | .fin => True
  | .els body => GTs.caseV rn body
  | .elif e body tail => exprOk rn e ∧ GTs.caseV rn body ∧ GTail.caseV rn tail
end

mutual
def rcostGT : GT → Nat
  | .segs l => nTags l
  | .ifc _ _ _ => 1
  | .loop _ _ _ => 1
  | .iif _ _ _ => 1
  | .svar _ _ => 1
def rcostGTs : GTs → Nat
  | .nil => 0
  | .cons b r => rcostGT b + rcostGTs r
end

/-- the collection a loop runs over under the bindings `sc` -/
def collS (cx : RCtx R) (sc : List Binding) (S : List Nat) : Option Doc :=
  if S.isEmpty then some cx.root else (resolve cx.root sc S).1

mutual
/-- what the document says a tree prints under the bindings `sc` -/
def expGT (cx : RCtx R) : List Binding → GT → List Nat
  | sc, .segs l => expSegsB cx sc l
  | sc, .ifc e body tail => if hitOfS cx sc e = true then expGTs cx sc body else expGTail cx sc tail
  | sc, .loop S V body => outEnts (fun x key => expGTs cx (⟨V, x, key⟩ :: sc) body) (entsO (collS cx sc S))
  | sc, .iif e ts fs => expIif cx sc e ts fs
  | sc, .svar pa ar => expSvar cx sc pa ar
def expGTs (cx : RCtx R) : List Binding → GTs → List Nat
  | _, .nil => []
  | sc, .cons b r => expGT cx sc b ++ expGTs cx sc r
def expGTail (cx : RCtx R) : List Binding → GTail → List Nat
  | _, .fin => []
  | sc, .els body => expGTs cx sc body
  | sc, .elif e body tail => if hitOfS cx sc e = true then expGTs cx sc body else expGTail cx sc tail
end

mutual
/-- render fuel a tree needs under the bindings `sc` (depends on the value: one unit per loop item) -/
def rneedGT (cx : RCtx R) : List Binding → GT → Nat
  | _, .segs _ => 1
  | sc, .ifc _ body tail => rneedGTs cx sc body + rcostGTs body + rneedGTail cx sc tail + 3
  | sc, .loop S V body =>
    (entsO (collS cx sc S)).length +
      sumEnts (fun x key => rneedGTs cx (⟨V, x, key⟩ :: sc) body) (entsO (collS cx sc S)) + rcostGTs body + 3
  | _, .iif _ ts fs => nTagsVal ts + nTagsVal fs + 3
  | sc, .svar pa _ => svarNeed cx sc pa + 1
def rneedGTs (cx : RCtx R) : List Binding → GTs → Nat
  | _, .nil => 1
  | sc, .cons b r => rneedGT cx sc b + rneedGTs cx sc r
def rneedGTail (cx : RCtx R) : List Binding → GTail → Nat
  | _, .fin => 1
  | sc, .els body => rneedGTs cx sc body + rcostGTs body + 1
  | sc, .elif _ body tail => rneedGTs cx sc body + rcostGTs body + rneedGTail cx sc tail + 1
end

theorem rneedGTs_pos (cx : RCtx R) : ∀ (sc : List Binding) (bs : GTs), 1 ≤ rneedGTs cx sc bs
  | _, .nil => by simp [rneedGTs]
  | sc, .cons b r => by have := rneedGTs_pos cx sc r; simp only [rneedGTs]; omega

theorem rneedGTail_pos (cx : RCtx R) (sc : List Binding) (t : GTail) : 1 ≤ rneedGTail cx sc t := by
  cases t <;> simp [rneedGTail] <;> omega

/-- from "render up to the end, then nothing more" to the final state -/
theorem render_finishG (cx : RCtx R) (tags : List (Tag R)) (post X : List Nat) (Bl Eo : Nat) (st : RState)
    (fuel rc : Nat) (E : List EnvE) (hf : 1 ≤ fuel)
    (h : ∃ (B2 txt2 : List Nat) (st2 : RState), cx.content = B2 ++ (txt2 ++ post) ∧ (B2 ++ txt2).length = Eo ∧
      st2.out ++ txt2 = st.out ++ X ∧ ItemsOk st2.items E ∧
      render cx (fuel + rc) tags Bl Eo st = render cx fuel [] B2.length Eo st2) :
    ∃ st', render cx (fuel + rc) tags Bl Eo st = .ok st' ∧ st'.out = st.out ++ X ∧ ItemsOk st'.items E := by
  obtain ⟨B2, txt2, st2, h1, h2, h3, h4, h5⟩ := h
  rw [h5]
  obtain ⟨f, rfl⟩ : ∃ f, fuel = f + 1 := ⟨fuel - 1, by omega⟩
  have hsl : slice cx.content B2.length Eo = .ok txt2 := by
    rw [← h2, h1]; exact slice_from B2 txt2 post
  refine ⟨emit st2 txt2, by simp only [render, hsl, bind, Except.bind], by simp only [emit]; exact h3, by simpa [emit] using h4⟩


/-! ### rendering a tree -/

mutual
theorem render_gt (cx : RCtx R) (cfg : ScanCfg R) (hg : cx.guardIndexRead = true) (hrn : cfg.readNum = cx.readNum)
    (hn32 : cx.content.length < 4294967296) :
    ∀ (b : GT) (E : List EnvE) (dep : Nat) (more : List (Tag R)) (endO : Nat) (post B txt : List Nat) (st : RState)
      (fuel : Nat),
      cx.content = B ++ (txt ++ (printGT b ++ post)) → b.ok → b.pathV cfg.readNum (vsOf E) → b.caseV cfg.readNum →
      ChainD cx.content (dOf E) → ItemsOk st.items E → dep ≤ (B ++ txt).length → (∀ e ∈ E, e.d.lv < dep) →
      rneedGT cx (scOf E) b ≤ fuel →
      ∃ (B2 txt2 : List Nat) (st2 : RState), cx.content = B2 ++ (txt2 ++ post) ∧
        (B2 ++ txt2).length = (B ++ txt).length + (printGT b).length ∧
        st2.out ++ txt2 = st.out ++ (txt ++ expGT cx (scOf E) b) ∧ ItemsOk st2.items E ∧
        render cx (fuel + rcostGT b) (tagsGT cfg cx.content (dOf E) dep (B ++ txt).length b ++ more) B.length endO st =
          render cx fuel more B2.length endO st2
  | .segs l, E, dep, more, endO, post, B, txt, st, fuel, hc, hok, hpath, _, hD, hit, _, _, hf => by
    simp only [printGT] at hc
    simp only [GT.ok] at hok
    simp only [GT.pathV] at hpath
    simp only [rneedGT] at hf
    obtain ⟨B2, txt2, st2, h1, h2, h3, h4, h5⟩ :=
      render_segs_more_env cx cfg hg hrn more endO post E hD l B txt st fuel hc hpath hok hf hit
    exact ⟨B2, txt2, st2, h1, by simpa [printGT] using h2, by simpa [expGT] using h3, by rw [h4]; exact hit,
      by simpa [rcostGT, tagsGT] using h5⟩
  | .ifc e body tail, E, dep, more, endO, post, B, txt, st, fuel, hc, hok, hpath, hcase, hD, hit, hdp, hlv, hf => by
    simp only [GT.ok] at hok
    obtain ⟨hq34, hbody, htail⟩ := hok
    simp only [GT.pathV] at hpath
    obtain ⟨⟨hvo, he16⟩, hpb, hpt⟩ := hpath
    simp only [GT.caseV] at hcase
    obtain ⟨hfirst, hcb, hct⟩ := hcase
    have hpe : varsOkV cx.readNum (vsOf E) e 34 := hrn ▸ hvo
    simp only [rneedGT] at hf
    simp only [printGT] at hc
    have htp := printGTail_pos tail
    have hcq : cx.content = ((B ++ txt ++ [60, 105, 102, 32, 99, 97, 115, 101, 61]) ++ [34]) ++ (e ++ [34]) ++
        ([62] ++ (printGTs body ++ printGTail tail ++ post)) := by
      rw [hc]; simp [IFOPEN, List.append_assoc]
    have hA : (B ++ txt ++ [60, 105, 102, 32, 99, 97, 115, 101, 61]).length + 1 = (B ++ txt).length + 10 := by
      simp only [List.length_append, List.length_cons, List.length_nil]
    have hite : ItemsOk (emit st txt).items E := by simpa [emit] using hit
    obtain ⟨hemp, hh1, hh2⟩ := case_hit_env cx cfg hg hrn (emit st txt) _ e _ hcq E hD hite he16 hpe
    rw [hA] at hemp hh1 hh2
    have hsl : slice cx.content B.length (B ++ txt).length = .ok txt := by rw [hc]; exact slice_from B txt _
    have hl2 : (B ++ txt ++ (IFOPEN ++ e ++ [34, 62])).length = (B ++ txt).length + 12 + e.length := by
      simp [IFOPEN]; omega
    have hlb : (printGT (.ifc e body tail)).length = 12 + e.length + (printGTs body).length + (printGTail tail).length := by
      simp [printGT, IFOPEN]; omega
    have hrt : ∃ st', renderTag cx fuel
        (Tag.ifT (IfCase.mk (itemsAtC cfg cx.content (refsD (dOf E)) ((B ++ txt).length + 10) ((B ++ txt).length + 10 + e.length))
            (tagsGTs cfg cx.content (dOf E) (dep + 1) ((B ++ txt).length + 12 + e.length) body) ((B ++ txt).length + 12 + e.length)
            ((B ++ txt).length + 12 + e.length + (printGTs body).length) ::
          casesG cfg cx.content (dOf E) (dep + 1) ((B ++ txt).length + 12 + e.length + (printGTs body).length) tail) (B ++ txt).length
          ((B ++ txt).length + 12 + e.length + (printGTs body).length + (printGTail tail).length)) B.length st =
        .ok (st', (B ++ txt).length + 12 + e.length + (printGTs body).length + (printGTail tail).length) ∧
        st'.out = st.out ++ (txt ++ expGT cx (scOf E) (.ifc e body tail)) ∧ ItemsOk st'.items E := by
      obtain ⟨F, rfl⟩ : ∃ F, fuel = F + 2 := ⟨fuel - 2, by omega⟩
      simp only [renderTag, hsl, bind, Except.bind]
      cases hie : (itemsAtC cfg cx.content (refsD (dOf E)) ((B ++ txt).length + 10) ((B ++ txt).length + 10 + e.length)).isEmpty with
      | true =>
        simp only [if_true]
        have htf : tail = .fin := by
          rcases hfirst with h | h
          · exact h
          · have := (one_case_env cx cfg hg hrn (emit st txt) _ e _ hcq E hD hite he16 hpe h).1
            rw [hA] at this; rw [this] at hie; cases hie
        have hhit : hitOfS cx (scOf E) e = false := hh1 hie
        exact ⟨emit st txt, rfl, by simp [expGT, hhit, htf, expGTail, emit], hite⟩
      | false =>
        obtain ⟨v, hv, hvt⟩ := hh2 hie
        simp only [Bool.false_eq_true, if_false]
        rw [ifCases_cons cx F _ _ _ _ _ _ v hie hv]
        have hvt' : (truth v == some true) = hitOfS cx (scOf E) e := hvt
        rw [hvt']
        cases hhit : hitOfS cx (scOf E) e with
        | true =>
          simp only [if_true, expGT, hhit]
          have hc2 : cx.content = (B ++ txt ++ (IFOPEN ++ e ++ [34, 62])) ++ ([] ++ (printGTs body ++ (printGTail tail ++ post))) := by
            rw [hc]; simp [List.append_assoc]
          have hr := render_gts cx cfg hg hrn hn32 body E (dep + 1) [] ((B ++ txt).length + 12 + e.length + (printGTs body).length)
            (printGTail tail ++ post) (B ++ txt ++ (IFOPEN ++ e ++ [34, 62])) [] (emit st txt) (F - rcostGTs body)
            hc2 hbody hpb hcb hD hite (by simp only [List.append_nil, hl2]; omega)
            (fun x hx => Nat.lt_succ_of_lt (hlv x hx)) (by omega)
          simp only [List.append_nil, List.nil_append, hl2] at hr
          obtain ⟨st', r1, r2, r3⟩ := render_finishG cx (tagsGTs cfg cx.content (dOf E) (dep + 1) ((B ++ txt).length + 12 + e.length) body)
            (printGTail tail ++ post) (expGTs cx (scOf E) body) ((B ++ txt).length + 12 + e.length)
            ((B ++ txt).length + 12 + e.length + (printGTs body).length) (emit st txt) (F - rcostGTs body) (rcostGTs body) E
            (by have := rneedGTs_pos cx (scOf E) body; omega) hr
          rw [show F - rcostGTs body + rcostGTs body = F by omega] at r1
          exact ⟨st', by rw [r1], by rw [r2]; simp [emit, List.append_assoc], r3⟩
        | false =>
          simp only [Bool.false_eq_true, if_false, expGT, hhit]
          have hc3 : cx.content = (B ++ txt ++ (IFOPEN ++ e ++ [34, 62]) ++ printGTs body) ++ (printGTail tail ++ post) := by
            rw [hc]; simp [List.append_assoc]
          have hl3 : (B ++ txt ++ (IFOPEN ++ e ++ [34, 62]) ++ printGTs body).length =
              (B ++ txt).length + 12 + e.length + (printGTs body).length := by
            rw [List.length_append, hl2]
          obtain ⟨st', r1, r2, r3⟩ := render_gtail cx cfg hg hrn hn32 tail E (dep + 1)
            (B ++ txt ++ (IFOPEN ++ e ++ [34, 62]) ++ printGTs body) post
            (emit st txt) F hc3 htail hpt hct hD hite (by rw [hl3]; omega) (fun x hx => Nat.lt_succ_of_lt (hlv x hx)) (by omega)
          rw [hl3] at r1
          exact ⟨st', by rw [r1], by rw [r2]; simp [emit, List.append_assoc], r3⟩
    obtain ⟨st', r1, r2, r3⟩ := hrt
    refine ⟨B ++ txt ++ printGT (.ifc e body tail), [], st',
      by rw [hc]; simp [printGT, List.append_assoc], by simp [List.length_append]; omega,
      by simpa using r2, r3, ?_⟩
    simp only [tagsGT, rcostGT, List.cons_append, List.nil_append, render, r1, bind, Except.bind]
    congr 1
    simp only [List.length_append, hlb]; omega
  | .loop S V body, E, dep, more, endO, post, B, txt, st, fuel, hc, hok, hpath, hcase, hD, hit, hdp, hlv, hf => by
    simp only [GT.ok] at hok
    obtain ⟨hh, hbody⟩ := hok
    simp only [GT.pathV] at hpath
    obtain ⟨hSp, hpb⟩ := hpath
    simp only [GT.caseV] at hcase
    simp only [rneedGT] at hf
    simp only [printGT] at hc
    have hdep32 : dep < 4294967296 := by
      have : (B ++ txt).length ≤ cx.content.length := by rw [hc]; simp
      omega
    have htr : trunc bits_LoopTag_Level dep = dep := by
      simp only [trunc, show bits_LoopTag_Level = 32 by decide]
      exact Nat.mod_eq_of_lt (by omega)
    have hsl : slice cx.content B.length (B ++ txt).length = .ok txt := by rw [hc]; exact slice_from B txt _
    have hite : ItemsOk (emit st txt).items E := by simpa [emit] using hit
    have hlb : (printGT (.loop S V body)).length = 6 + (hdrOf S V).length + (printGTs body).length + 7 := by
      simp [printGT, LOOPW, LOOPEND]; omega
    -- the collection
    have hset : (if (setOf (dOf E) (B ++ txt).length S).len ≠ 0 then getValue cx (emit st txt) (setOf (dOf E) (B ++ txt).length S)
        else pure (some cx.root)) = .ok (collS cx (scOf E) S) := by
      by_cases hSe : S = []
      · subst hSe; simp [setOf, collS, pure, Except.pure]
      · have hSi : S.isEmpty = false := by cases S <;> simp_all
        have hSl : S.length ≠ 0 := by cases S <;> simp_all
        have hc11 : cx.content = (B ++ txt ++ LH1) ++ (S ++ ([34] ++ ([32, 118, 97, 108, 117, 101, 61, 34] ++ V ++ [34] ++
            ([62] ++ (printGTs body ++ LOOPEND)) ++ post))) := by
          rw [hc]; simp [hdrOf, hSi, LH1, LOOPW, List.append_assoc]
        have hl11 : (B ++ txt ++ LH1).length = (B ++ txt).length + 11 := by simp [LH1]; omega
        have hgv := (getValue_env cx hg (emit st txt) _ _ S hc11 E (hSp hSe) hite).1
        rw [hl11] at hgv
        have hso : setOf (dOf E) (B ++ txt).length S = refD (dOf E) ((B ++ txt).length + 11) S := by
          simp [setOf, hSi, refD]
        rw [hso, refD_len]
        simp only [hSl, ne_eq, not_false_eq_true, if_true, hgv, collS, hSi, Bool.false_eq_true, if_false]
    have hrt : ∃ st', renderTag cx fuel
        (.loop (tagsGTs cfg cx.content (⟨(B ++ txt).length + voOf S, V, trunc bits_LoopTag_Level dep⟩ :: dOf E) (dep + 1)
            ((B ++ txt).length + 6 + (hdrOf S V).length) body)
          { loopFG (dOf E) (B ++ txt).length (trunc bits_LoopTag_Level dep) S V with
            endOff := (B ++ txt).length + 6 + (hdrOf S V).length + (printGTs body).length }) B.length st =
        .ok (st', (B ++ txt).length + 6 + (hdrOf S V).length + (printGTs body).length + 7) ∧
        st'.out = st.out ++ (txt ++ expGT cx (scOf E) (.loop S V body)) ∧ ItemsOk st'.items E := by
      obtain ⟨g, rfl⟩ : ∃ g, fuel = g + 1 := ⟨fuel - 1, by omega⟩
      have h7 : W1.loopSuffixLength = 7 := by decide
      simp only [renderTag, loopFG, hsl, bind, Except.bind, hset, h7, htr]
      cases hcoll : collS cx (scOf E) S with
      | none =>
        exact ⟨emit st txt, rfl, by simp [expGT, hcoll, entsO, outEnts, emit], hite⟩
      | some set0 =>
        simp only [not_true_eq_false, ne_eq, if_false, pure, Except.pure, show ¬ ((0 : Nat) > 1) by omega]
        have hcb : cx.content = (B ++ txt ++ LOOPW ++ hdrOf S V ++ [62]) ++ ([] ++ (printGTs body ++ (LOOPEND ++ post))) := by
          rw [hc]; simp [List.append_assoc]
        have hlcb : (B ++ txt ++ LOOPW ++ hdrOf S V ++ [62]).length = (B ++ txt).length + 6 + (hdrOf S V).length := by
          simp [LOOPW]; omega
        obtain ⟨Bv, Rv, hcv, hBv⟩ := chainD_hdr cx.content (B ++ txt) S V ([62] ++ (printGTs body ++ LOOPEND) ++ post)
          (by rw [hc]; simp [List.append_assoc])
        have hbodyR : ∀ (x : Doc) (key : List Nat) (s1 : RState) (k : Nat), ItemsOk s1.items E →
            s1.items[dep]? = some ⟨some x, key⟩ → rneedGTs cx (⟨V, x, key⟩ :: scOf E) body ≤ k →
            ∃ st', render cx (k + rcostGTs body)
              (tagsGTs cfg cx.content (⟨(B ++ txt).length + voOf S, V, dep⟩ :: dOf E) (dep + 1)
                ((B ++ txt).length + 6 + (hdrOf S V).length) body)
              ((B ++ txt).length + (6 + (hdrOf S V).length))
              ((B ++ txt).length + 6 + (hdrOf S V).length + (printGTs body).length) s1 = .ok st' ∧
              st'.out = s1.out ++ expGTs cx (⟨V, x, key⟩ :: scOf E) body ∧ ItemsOk st'.items E ∧ dep < st'.items.length := by
          intro x key s1 k hI h1 hk
          have hE' : ItemsOk s1.items (⟨⟨(B ++ txt).length + voOf S, V, dep⟩, x, key⟩ :: E) := by
            intro e he
            rcases List.mem_cons.mp he with h | h
            · subst h; exact h1
            · exact hI e h
          have hD' : ChainD cx.content (dOf (⟨⟨(B ++ txt).length + voOf S, V, dep⟩, x, key⟩ :: E)) := by
            intro d hd
            simp only [dOf, List.map_cons, List.mem_cons] at hd
            rcases hd with h | h
            · subst h
              exact ⟨⟨Bv, Rv, hcv, hBv⟩, fun y hy => ⟨(hh.v y hy).2.2, hh.v34 y hy⟩⟩
            · exact hD d (by simpa [dOf] using h)
          have hr := render_gts cx cfg hg hrn hn32 body (⟨⟨(B ++ txt).length + voOf S, V, dep⟩, x, key⟩ :: E) (dep + 1) []
            ((B ++ txt).length + 6 + (hdrOf S V).length + (printGTs body).length) (LOOPEND ++ post)
            (B ++ txt ++ LOOPW ++ hdrOf S V ++ [62]) [] s1 k hcb hbody (by simpa [vsOf] using hpb) hcase hD' hE'
            (by simp only [List.append_nil, hlcb]; omega)
            (by
              intro e he
              rcases List.mem_cons.mp he with h | h
              · subst h; simp
              · exact Nat.lt_succ_of_lt (hlv e h))
            (by simpa [scOf] using hk)
          simp only [List.append_nil, List.nil_append, hlcb] at hr
          obtain ⟨st', r1, r2, r3⟩ := render_finishG cx _ (LOOPEND ++ post) _ ((B ++ txt).length + 6 + (hdrOf S V).length)
            ((B ++ txt).length + 6 + (hdrOf S V).length + (printGTs body).length) s1 k (rcostGTs body) _
            (by have := rneedGTs_pos cx (⟨V, x, key⟩ :: scOf E) body; omega) hr
          refine ⟨st', ?_, by simpa [scOf] using r2, fun e he => r3 e (List.mem_cons_of_mem _ he), ?_⟩
          · rw [show (B ++ txt).length + (6 + (hdrOf S V).length) = (B ++ txt).length + 6 + (hdrOf S V).length by omega]
            simpa [dOf] using r1
          · have := r3 _ (List.mem_cons_self ..)
            simp only at this
            rcases Nat.lt_or_ge dep st'.items.length with h | h
            · exact h
            · rw [List.getElem?_eq_none h] at this; cases this
        obtain ⟨st', h1, h2, h3⟩ := loopIter_gen cx
          (tagsGTs cfg cx.content (⟨(B ++ txt).length + voOf S, V, dep⟩ :: dOf E) (dep + 1)
            ((B ++ txt).length + 6 + (hdrOf S V).length) body)
          { set := setOf (dOf E) (B ++ txt).length S, off := (B ++ txt).length,
            endOff := (B ++ txt).length + 6 + (hdrOf S V).length + (printGTs body).length,
            contentOff := 6 + (hdrOf S V).length, valueOff := voOf S, valueLen := V.length, level := dep }
          set0 (fun x key => expGTs cx (⟨V, x, key⟩ :: scOf E) body)
          (fun x key => rneedGTs cx (⟨V, x, key⟩ :: scOf E) body) (rcostGTs body) (fun items => ItemsOk items E)
          (fun items it hI => itemsOk_set items E dep it hI (fun e he => Nat.ne_of_lt (hlv e he)))
          hbodyR (entsOf set0).length 0
          ⟨(emit st txt).out, (emit st txt).items ++ List.replicate (dep + 1 - (emit st txt).items.length) ({} : LoopItem)⟩
          g (by omega) (by simp; omega) (itemsOk_append _ _ E hite)
          (by simp only [hcoll, entsO, List.drop_zero] at hf ⊢; omega)
        refine ⟨st', ?_, ?_, h3⟩
        · simp only [h1]
        · rw [h2]; simp [expGT, hcoll, entsO, emit, List.append_assoc]
    obtain ⟨st', r1, r2, r3⟩ := hrt
    refine ⟨B ++ txt ++ printGT (.loop S V body), [], st',
      by rw [hc]; simp [printGT, List.append_assoc], by simp [List.length_append]; omega,
      by simpa using r2, r3, ?_⟩
    simp only [tagsGT, rcostGT, List.cons_append, List.nil_append, render, r1, bind, Except.bind]
    congr 1
    simp only [List.length_append, hlb]; omega
  | .iif e ts fs, E, dep, more, endO, post, B, txt, st, fuel, hc, hok, hpath, _, hD, hit, _, _, hf => by
    simp only [GT.ok] at hok
    obtain ⟨_, _, hts, hfs, hone, hsz⟩ := hok
    simp only [GT.pathV] at hpath
    obtain ⟨⟨hvo, he16⟩, hpt, hpf⟩ := hpath
    simp only [rneedGT] at hf
    simp only [printGT] at hc
    have hrt := renderIif_env cx cfg hg hrn E hD B txt e post ts fs hc he16 hvo hts hfs hpt hpf hone hsz st hit fuel hf
    refine ⟨B ++ txt ++ printIif e ts fs, [], emit (emit st txt) (expIif cx (scOf E) e ts fs),
      by rw [hc]; simp [List.append_assoc], by simp [printGT, List.length_append]; omega,
      by simp [emit, expGT, List.append_assoc], by simpa [emit] using hit, ?_⟩
    simp only [tagsGT, rcostGT, List.cons_append, List.nil_append, render, hrt, bind, Except.bind]
    congr 1
    simp only [List.length_append]
  | .svar pa ar, E, dep, more, endO, post, B, txt, st, fuel, hc, hok, hpath, _, hD, hit, _, _, hf => by
    simp only [GT.ok] at hok
    obtain ⟨_, _, _, _, hargs, _, _⟩ := hok
    simp only [GT.pathV] at hpath
    obtain ⟨hp, hnv, hpa⟩ := hpath
    simp only [rneedGT] at hf
    simp only [printGT] at hc
    have hfind : findV (dOf E) pa = none := by
      have : ∀ (D : List LoopD), (∀ d ∈ D, d.V.isPrefixOf pa = false) → findV D pa = none := by
        intro D
        induction D with
        | nil => intro _; rfl
        | cons d r ih =>
          intro h
          simp only [findV, h d (List.mem_cons_self ..), Bool.false_eq_true, if_false]
          exact ih (fun x hx => h x (List.mem_cons_of_mem _ hx))
      apply this
      intro d hd
      obtain ⟨e, he, rfl⟩ := List.mem_map.mp hd
      exact hnv e.d.V (List.mem_map_of_mem he)
    have hrt := renderSvar_env cx cfg hg hrn E hD B txt pa post ar hc hp hfind
      (fun a ha => ⟨(hargs a ha).2, hpa a ha⟩) st hit fuel hf
    refine ⟨B ++ txt ++ printSvar pa ar, [], emit (emit st txt) (expSvar cx (scOf E) pa ar),
      by rw [hc]; simp [List.append_assoc], by simp [printGT, List.length_append]; omega,
      by simp [emit, expGT, List.append_assoc], by simpa [emit] using hit, ?_⟩
    simp only [tagsGT, rcostGT, List.cons_append, List.nil_append, render, hrt, bind, Except.bind]
    congr 1
    simp only [List.length_append]
theorem render_gts (cx : RCtx R) (cfg : ScanCfg R) (hg : cx.guardIndexRead = true) (hrn : cfg.readNum = cx.readNum)
    (hn32 : cx.content.length < 4294967296) :
    ∀ (bs : GTs) (E : List EnvE) (dep : Nat) (more : List (Tag R)) (endO : Nat) (post B txt : List Nat) (st : RState)
      (fuel : Nat),
      cx.content = B ++ (txt ++ (printGTs bs ++ post)) → bs.ok → bs.pathV cfg.readNum (vsOf E) → bs.caseV cfg.readNum →
      ChainD cx.content (dOf E) → ItemsOk st.items E → dep ≤ (B ++ txt).length → (∀ e ∈ E, e.d.lv < dep) →
      rneedGTs cx (scOf E) bs ≤ fuel →
      ∃ (B2 txt2 : List Nat) (st2 : RState), cx.content = B2 ++ (txt2 ++ post) ∧
        (B2 ++ txt2).length = (B ++ txt).length + (printGTs bs).length ∧
        st2.out ++ txt2 = st.out ++ (txt ++ expGTs cx (scOf E) bs) ∧ ItemsOk st2.items E ∧
        render cx (fuel + rcostGTs bs) (tagsGTs cfg cx.content (dOf E) dep (B ++ txt).length bs ++ more) B.length endO st =
          render cx fuel more B2.length endO st2
  | .nil, E, dep, more, endO, post, B, txt, st, fuel, hc, _, _, _, _, hit, _, _, _ =>
    ⟨B, txt, st, by simpa [printGTs] using hc, by simp [printGTs], by simp [expGTs], hit, by simp [tagsGTs, rcostGTs]⟩
  | .cons b r, E, dep, more, endO, post, B, txt, st, fuel, hc, hok, hpath, hcase, hD, hit, hdp, hlv, hf => by
    simp only [GTs.ok] at hok
    simp only [GTs.pathV] at hpath
    simp only [GTs.caseV] at hcase
    simp only [rneedGTs] at hf
    simp only [printGTs] at hc
    have hp1 := rneedGTs_pos cx (scOf E) r
    obtain ⟨B1, txt1, st1, g1, g2, g3, g4, g5⟩ := render_gt cx cfg hg hrn hn32 b E dep
      (tagsGTs cfg cx.content (dOf E) dep ((B ++ txt).length + (printGT b).length) r ++ more) endO (printGTs r ++ post) B txt st
      (fuel + rcostGTs r) (by rw [hc]; simp [List.append_assoc]) hok.1 hpath.1 hcase.1 hD hit hdp hlv (by omega)
    obtain ⟨B2, txt2, st2, h1, h2, h3, h4, h5⟩ := render_gts cx cfg hg hrn hn32 r E dep more endO post B1 txt1 st1 fuel g1
      hok.2 hpath.2 hcase.2 hD g4 (by omega) hlv (by omega)
    refine ⟨B2, txt2, st2, h1, ?_, ?_, h4, ?_⟩
    · rw [h2, g2]; simp [printGTs, List.length_append]; omega
    · rw [h3, ← List.append_assoc, g3]; simp [expGTs, List.append_assoc]
    · simp only [tagsGTs, rcostGTs, List.append_assoc]
      rw [show fuel + (rcostGT b + rcostGTs r) = fuel + rcostGTs r + rcostGT b by omega, g5, ← g2, h5]
theorem render_gtail (cx : RCtx R) (cfg : ScanCfg R) (hg : cx.guardIndexRead = true) (hrn : cfg.readNum = cx.readNum)
    (hn32 : cx.content.length < 4294967296) :
    ∀ (t : GTail) (E : List EnvE) (dep : Nat) (Pre post : List Nat) (st : RState) (fuel : Nat),
      cx.content = Pre ++ (printGTail t ++ post) → t.ok → t.pathV cfg.readNum (vsOf E) → t.caseV cfg.readNum →
      ChainD cx.content (dOf E) → ItemsOk st.items E → dep ≤ Pre.length → (∀ e ∈ E, e.d.lv < dep) →
      rneedGTail cx (scOf E) t ≤ fuel →
      ∃ st', ifCases cx fuel (casesG cfg cx.content (dOf E) dep Pre.length t) st = .ok st' ∧
        st'.out = st.out ++ expGTail cx (scOf E) t ∧ ItemsOk st'.items E
  | .fin, E, dep, Pre, post, st, fuel, hc, _, _, _, _, hit, _, _, hf => by
    simp only [rneedGTail] at hf
    obtain ⟨f, rfl⟩ : ∃ f, fuel = f + 1 := ⟨fuel - 1, by omega⟩
    exact ⟨st, by simp only [casesG, ifCases], by simp [expGTail], hit⟩
  | .els body, E, dep, Pre, post, st, fuel, hc, hok, hpath, hcase, hD, hit, hdp, hlv, hf => by
    simp only [GTail.ok] at hok
    simp only [GTail.pathV] at hpath
    simp only [GTail.caseV] at hcase
    simp only [rneedGTail] at hf
    simp only [printGTail] at hc
    obtain ⟨f, rfl⟩ : ∃ f, fuel = f + 1 := ⟨fuel - 1, by omega⟩
    simp only [casesG, ifCases, List.isEmpty_nil, if_true, pure, Except.pure, bind, Except.bind, expGTail]
    have hl : (Pre ++ ELSE).length = Pre.length + 8 := by simp [ELSE]
    have hc2 : cx.content = (Pre ++ ELSE) ++ ([] ++ (printGTs body ++ (IFEND ++ post))) := by
      rw [hc]; simp [List.append_assoc]
    have hr := render_gts cx cfg hg hrn hn32 body E dep [] (Pre.length + 8 + (printGTs body).length) (IFEND ++ post)
      (Pre ++ ELSE) [] st (f - rcostGTs body) hc2 hok hpath hcase hD hit (by simp only [List.append_nil, hl]; omega) hlv (by omega)
    simp only [List.append_nil, List.nil_append, hl] at hr
    obtain ⟨st', r1, r2, r3⟩ := render_finishG cx (tagsGTs cfg cx.content (dOf E) dep (Pre.length + 8) body) (IFEND ++ post)
      (expGTs cx (scOf E) body) (Pre.length + 8) (Pre.length + 8 + (printGTs body).length) st (f - rcostGTs body)
      (rcostGTs body) E (by have := rneedGTs_pos cx (scOf E) body; omega) hr
    rw [show f - rcostGTs body + rcostGTs body = f by omega] at r1
    exact ⟨st', r1, r2, r3⟩
  | .elif e body tail, E, dep, Pre, post, st, fuel, hc, hok, hpath, hcase, hD, hit, hdp, hlv, hf => by
    simp only [GTail.ok] at hok
    obtain ⟨hq34, hbody, htail⟩ := hok
    simp only [GTail.pathV] at hpath
    obtain ⟨⟨hvo, he16⟩, hpb, hpt⟩ := hpath
    simp only [GTail.caseV] at hcase
    obtain ⟨hex, hcb, hct⟩ := hcase
    have hpe : varsOkV cx.readNum (vsOf E) e 34 := hrn ▸ hvo
    simp only [rneedGTail] at hf
    simp only [printGTail] at hc
    obtain ⟨f, rfl⟩ : ∃ f, fuel = f + 1 := ⟨fuel - 1, by omega⟩
    have hcq : cx.content = ((Pre ++ [60, 101, 108, 115, 101, 105, 102, 32, 99, 97, 115, 101, 61]) ++ [34]) ++ (e ++ [34]) ++
        ([32, 47, 62] ++ (printGTs body ++ printGTail tail ++ post)) := by
      rw [hc]; simp [ELIF, ELIFEND, List.append_assoc]
    have hA : (Pre ++ [60, 101, 108, 115, 101, 105, 102, 32, 99, 97, 115, 101, 61]).length + 1 = Pre.length + 14 := by simp
    obtain ⟨hie, v, hv, hvt⟩ := one_case_env cx cfg hg hrn st _ e _ hcq E hD hit he16 hpe hex
    rw [hA] at hie hv
    simp only [casesG]
    rw [ifCases_cons cx f _ _ _ _ _ _ v hie hv, hvt]
    have hl4 : (Pre ++ (ELIF ++ e ++ ELIFEND)).length = Pre.length + 18 + e.length := by simp [ELIF, ELIFEND]; omega
    cases hhit : hitOfS cx (scOf E) e with
    | true =>
      simp only [if_true, expGTail, hhit]
      have hc2 : cx.content = (Pre ++ (ELIF ++ e ++ ELIFEND)) ++ ([] ++ (printGTs body ++ (printGTail tail ++ post))) := by
        rw [hc]; simp [List.append_assoc]
      have hr := render_gts cx cfg hg hrn hn32 body E dep [] (Pre.length + 18 + e.length + (printGTs body).length)
        (printGTail tail ++ post) (Pre ++ (ELIF ++ e ++ ELIFEND)) [] st (f - rcostGTs body) hc2 hbody hpb hcb hD hit
        (by simp only [List.append_nil, hl4]; omega) hlv (by omega)
      simp only [List.append_nil, List.nil_append, hl4] at hr
      obtain ⟨st', r1, r2, r3⟩ := render_finishG cx (tagsGTs cfg cx.content (dOf E) dep (Pre.length + 18 + e.length) body)
        (printGTail tail ++ post) (expGTs cx (scOf E) body) (Pre.length + 18 + e.length)
        (Pre.length + 18 + e.length + (printGTs body).length) st (f - rcostGTs body) (rcostGTs body) E
        (by have := rneedGTs_pos cx (scOf E) body; omega) hr
      rw [show f - rcostGTs body + rcostGTs body = f by omega] at r1
      exact ⟨st', r1, r2, r3⟩
    | false =>
      simp only [Bool.false_eq_true, if_false, expGTail, hhit]
      have hc3 : cx.content = (Pre ++ (ELIF ++ e ++ ELIFEND) ++ printGTs body) ++ (printGTail tail ++ post) := by
        rw [hc]; simp [List.append_assoc]
      have hl5 : (Pre ++ (ELIF ++ e ++ ELIFEND) ++ printGTs body).length = Pre.length + 18 + e.length + (printGTs body).length := by
        rw [List.length_append, hl4]
      have := render_gtail cx cfg hg hrn hn32 tail E dep (Pre ++ (ELIF ++ e ++ ELIFEND) ++ printGTs body) post st f hc3 htail
        hpt hct hD hit (by rw [hl5]; omega) hlv (by omega)
      rw [hl5] at this
      exact this
end

/-! ### the reference interpreter on a tree; top level -/

theorem loopArr_gen (sx : SpecCtx R) (sc : List Binding) (V : List Nat) (bodyT : List Tpl)
    (Eo : Doc → List Nat → List Nat) (Nf : Doc → List Nat → Nat) :
    ∀ (xs : List Doc) (fuel : Nat),
      (∀ x ∈ xs, ∀ key f, Nf x key ≤ f → expandList sx f (⟨V, x, key⟩ :: sc) bodyT = Eo x key) →
      xs.length + sumEnts Nf (xs.map (fun x => ([], x))) + 1 ≤ fuel →
      loopArr sx fuel sc V bodyT xs = outEnts Eo (xs.map (fun x => ([], x))) := by
  intro xs
  induction xs with
  | nil => intro fuel _ _; cases fuel <;> simp [loopArr, outEnts]
  | cons x xs ih =>
    intro fuel hbody hf
    obtain ⟨g, rfl⟩ : ∃ g, fuel = g + 1 := ⟨fuel - 1, by omega⟩
    simp only [List.map_cons, sumEnts, List.length_cons] at hf
    simp only [loopArr, List.map_cons, outEnts]
    rw [ih g (fun y hy => hbody y (List.mem_cons_of_mem _ hy)) (by omega),
      hbody x (List.mem_cons_self ..) [] g (by omega)]

theorem loopObj_gen (sx : SpecCtx R) (sc : List Binding) (V : List Nat) (bodyT : List Tpl)
    (Eo : Doc → List Nat → List Nat) (Nf : Doc → List Nat → Nat) :
    ∀ (ms : List (List Nat × Doc)) (fuel : Nat),
      (∀ kx ∈ ms, ∀ key f, Nf kx.2 key ≤ f → expandList sx f (⟨V, kx.2, key⟩ :: sc) bodyT = Eo kx.2 key) →
      ms.length + sumEnts Nf ms + 1 ≤ fuel →
      loopObj sx fuel sc V bodyT ms = outEnts Eo ms := by
  intro ms
  induction ms with
  | nil => intro fuel _ _; cases fuel <;> simp [loopObj, outEnts]
  | cons kx ms ih =>
    obtain ⟨k, x⟩ := kx
    intro fuel hbody hf
    obtain ⟨g, rfl⟩ : ∃ g, fuel = g + 1 := ⟨fuel - 1, by omega⟩
    simp only [sumEnts, List.length_cons] at hf
    simp only [loopObj, outEnts]
    rw [ih g (fun y hy => hbody y (List.mem_cons_of_mem _ hy)) (by omega),
      hbody (k, x) (List.mem_cons_self ..) k g (by show Nf x k ≤ g; omega)]

mutual
/-- reference fuel a tree needs under the bindings `sc` -/
def eneedGT (cx : RCtx R) : List Binding → GT → Nat
  | _, .segs l => l.length + 1
  | sc, .ifc _ body tail => eneedGTs cx sc body + eneedGTail cx sc tail + 3
  | sc, .loop S V body =>
    (entsO (collS cx sc S)).length +
      sumEnts (fun x key => eneedGTs cx (⟨V, x, key⟩ :: sc) body) (entsO (collS cx sc S)) + 3
  | _, .iif _ ts fs => (match ts with | some l => l.length | none => 0) + (match fs with | some l => l.length | none => 0) + 3
  | sc, .svar pa _ => svarNeed cx sc pa + 2
def eneedGTs (cx : RCtx R) : List Binding → GTs → Nat
  | _, .nil => 1
  | sc, .cons b r => eneedGT cx sc b + (GT.toTpls b).length + eneedGTs cx sc r
def eneedGTail (cx : RCtx R) : List Binding → GTail → Nat
  | _, .fin => 0
  | sc, .els body => eneedGTs cx sc body + 1
  | sc, .elif _ body tail => eneedGTs cx sc body + eneedGTail cx sc tail + 1
end

mutual
theorem expand_gt (cx : RCtx R) (hU : ∀ s, Reach cx.root (.str s) → ∀ x ∈ s, x < 2 ^ 32) :
    ∀ (b : GT) (sc : List Binding) (fuel : Nat), b.ok → (∀ bd ∈ sc, Reach cx.root bd.item) → eneedGT cx sc b ≤ fuel →
    expandList (specOf cx) fuel sc b.toTpls = expGT cx sc b
  | .segs l, sc, fuel, hok, hsc, hf => by
    simp only [eneedGT] at hf
    simp only [GT.toTpls, expGT]
    exact expandList_body cx sc l fuel hf
  | .ifc e body tail, sc, fuel, hok, hsc, hf => by
    simp only [GT.ok] at hok
    simp only [eneedGT] at hf
    obtain ⟨f, rfl⟩ : ∃ f, fuel = f + 3 := ⟨fuel - 3, by omega⟩
    simp only [GT.toTpls, expandList, expandTpl, expandBranches, expandList_nil, List.append_nil, expGT, hitOfS]
    rw [expand_gts cx hU body sc f hok.2.1 hsc (by omega), expand_gtail cx hU tail sc f hok.2.2 hsc (by omega)]
    by_cases hh : isTrue (evalText (specOf cx) sc e 34) = some true <;> simp [hh]
  | .loop S V body, sc, fuel, hok, hsc, hf => by
    simp only [GT.ok] at hok
    simp only [eneedGT] at hf
    obtain ⟨f, rfl⟩ : ∃ f, fuel = f + 2 := ⟨fuel - 2, by omega⟩
    simp only [GT.toTpls, expandList, expandTpl, expandList_nil, List.append_nil, expGT,
      show (specOf cx).root = cx.root from rfl]
    have hcoll : (if S.isEmpty = true then some cx.root else (resolve cx.root sc S).1) = collS cx sc S := rfl
    rw [hcoll]
    have hb : ∀ x, Reach cx.root x → ∀ key g, eneedGTs cx (⟨V, x, key⟩ :: sc) body ≤ g →
        expandList (specOf cx) g (⟨V, x, key⟩ :: sc) (gtsTpl body) = expGTs cx (⟨V, x, key⟩ :: sc) body :=
      fun x hx key g hg => expand_gts cx hU body (⟨V, x, key⟩ :: sc) g hok.2
        (by
          intro bd hbd
          rcases List.mem_cons.mp hbd with h | h
          · subst h; exact hx
          · exact hsc bd h) hg
    have hreach : ∀ d, collS cx sc S = some d → Reach cx.root d := by
      intro d hd
      simp only [collS] at hd
      by_cases hS : S.isEmpty = true
      · simp only [hS, if_true, Option.some.injEq] at hd; subst hd; exact Reach.root
      · simp only [hS, Bool.false_eq_true, if_false] at hd; exact resolve_reach cx.root sc hsc S d hd
    cases hres : collS cx sc S with
    | none => simp [entsO, outEnts]
    | some d =>
      rw [hres] at hf
      have hrd := hreach d hres
      cases d with
      | arr xs =>
        simp only [entsO, entsOf] at hf ⊢
        exact loopArr_gen (specOf cx) sc V (gtsTpl body) (fun x key => expGTs cx (⟨V, x, key⟩ :: sc) body)
          (fun x key => eneedGTs cx (⟨V, x, key⟩ :: sc) body) xs f
          (fun x hx => hb x (Reach.item xs x hrd hx)) (by simp only [List.length_map] at hf; omega)
      | obj ms =>
        simp only [entsO, entsOf] at hf ⊢
        exact loopObj_gen (specOf cx) sc V (gtsTpl body) (fun x key => expGTs cx (⟨V, x, key⟩ :: sc) body)
          (fun x key => eneedGTs cx (⟨V, x, key⟩ :: sc) body) ms f
          (fun kx hkx => hb kx.2 (Reach.mem ms kx.1 kx.2 hrd hkx)) (by omega)
      | _ => simp [entsO, entsOf, outEnts]
  | .iif e ts fs, sc, fuel, hok, hsc, hf => by
    simp only [eneedGT] at hf
    obtain ⟨f, rfl⟩ : ∃ f, fuel = f + 2 := ⟨fuel - 2, by omega⟩
    simp only [GT.toTpls, expandList, expandTpl, expandList_nil, List.append_nil, expGT, expIif]
    cases isTrue (evalText (specOf cx) sc e 34) with
    | none => rfl
    | some b =>
      cases b with
      | true =>
        cases ts with
        | none => rfl
        | some l => simp only [Option.map_some, expVal]; exact expandList_body cx sc l f (by simp at hf; omega)
      | false =>
        cases fs with
        | none => rfl
        | some l => simp only [Option.map_some, expVal]; exact expandList_body cx sc l f (by simp at hf; omega)
  | .svar pa ar, sc, fuel, hok, hsc, hf => by
    simp only [GT.ok] at hok
    simp only [eneedGT] at hf
    obtain ⟨f, rfl⟩ : ∃ f, fuel = f + 1 := ⟨fuel - 1, by omega⟩
    simp only [GT.toTpls, expandList, expandList_nil, List.append_nil, expGT]
    exact expandTpl_svar cx sc pa ar hok.2.2.2.2.2.2
      (fun s hs => hU s (resolve_reach cx.root sc hsc pa _ hs)) f (by omega)
theorem expand_gts (cx : RCtx R) (hU : ∀ s, Reach cx.root (.str s) → ∀ x ∈ s, x < 2 ^ 32) :
    ∀ (bs : GTs) (sc : List Binding) (fuel : Nat), bs.ok → (∀ bd ∈ sc, Reach cx.root bd.item) → eneedGTs cx sc bs ≤ fuel →
    expandList (specOf cx) fuel sc (gtsTpl bs) = expGTs cx sc bs
  | .nil, sc, fuel, _, _, _ => by simp [gtsTpl, expGTs, expandList_nil]
  | .cons b r, sc, fuel, hok, hsc, hf => by
    simp only [GTs.ok] at hok
    simp only [eneedGTs] at hf
    simp only [gtsTpl, expGTs]
    rw [expandList_append, expand_gt cx hU b sc fuel hok.1 hsc (by omega), expand_gts cx hU r sc _ hok.2 hsc (by omega)]
theorem expand_gtail (cx : RCtx R) (hU : ∀ s, Reach cx.root (.str s) → ∀ x ∈ s, x < 2 ^ 32) :
    ∀ (t : GTail) (sc : List Binding) (fuel : Nat), t.ok → (∀ bd ∈ sc, Reach cx.root bd.item) → eneedGTail cx sc t ≤ fuel →
    expandBranches (specOf cx) fuel sc (tailBrG t) = expGTail cx sc t
  | .fin, sc, fuel, _, _, _ => by simp [tailBrG, expGTail, expandBranches_nil]
  | .els body, sc, fuel, hok, hsc, hf => by
    simp only [GTail.ok] at hok
    simp only [eneedGTail] at hf
    obtain ⟨f, rfl⟩ : ∃ f, fuel = f + 1 := ⟨fuel - 1, by omega⟩
    simp only [tailBrG, expandBranches, if_true, expGTail]
    exact expand_gts cx hU body sc f hok hsc (by omega)
  | .elif e body tail, sc, fuel, hok, hsc, hf => by
    simp only [GTail.ok] at hok
    simp only [eneedGTail] at hf
    obtain ⟨f, rfl⟩ : ∃ f, fuel = f + 1 := ⟨fuel - 1, by omega⟩
    simp only [tailBrG, expandBranches, expGTail, hitOfS]
    rw [expand_gts cx hU body sc f hok.2.1 hsc (by omega), expand_gtail cx hU tail sc f hok.2.2 hsc (by omega)]
    by_cases hh : isTrue (evalText (specOf cx) sc e 34) = some true <;> simp [hh]
end

/-- rendering the implied tags of a tree prints the documented expansion -/
theorem renderTop_gtree (cx : RCtx R) (cfg : ScanCfg R) (hg : cx.guardIndexRead = true)
    (hrn : cfg.readNum = cx.readNum) (bs : GTs) (hc : cx.content = printGTs bs) (hn32 : cx.content.length < 4294967296)
    (hok : bs.ok) (hpath : bs.pathV cfg.readNum []) (hcase : bs.caseV cfg.readNum) (fuel : Nat)
    (hf : rneedGTs cx [] bs ≤ fuel) :
    renderTop cx (tagsGTs cfg cx.content [] 0 0 bs) (fuel + rcostGTs bs) = .ok (expGTs cx [] bs) := by
  have hr := render_gts cx cfg hg hrn hn32 bs [] 0 [] cx.content.length [] [] [] {} fuel (by simpa using hc) hok
    (by simpa [vsOf] using hpath) hcase (by intro d hd; cases hd) (by intro e he; cases he) (by simp)
    (by intro e he; cases he) (by simpa [scOf] using hf)
  simp only [List.append_nil, List.nil_append, List.length_nil, Nat.zero_add, dOf, scOf, List.map_nil] at hr
  obtain ⟨st', r1, r2, _⟩ := render_finishG cx (tagsGTs cfg cx.content [] 0 0 bs) [] (expGTs cx [] bs) 0 cx.content.length {}
    fuel (rcostGTs bs) [] (by have := rneedGTs_pos cx [] bs; omega) (by
      obtain ⟨B2, txt2, st2, h1, h2, h3, h4, h5⟩ := hr
      exact ⟨B2, txt2, st2, by simpa using h1, by rw [h2, hc], by simpa using h3, h4, h5⟩)
  simp only [renderTop, r1, bind, Except.bind, r2]
  simp


end
end Qentem.Tmpl
