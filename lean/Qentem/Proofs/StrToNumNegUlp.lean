import Qentem.Proofs.StrToNumRatClose
import Qentem.Proofs.StrToNumNegIter
/-! C09 helper lemmas: `powerOfNegativeTen num x` is within one unit in the last place of the
correctly rounded `num / 10^x` for mantissas `≥ 257` (and `x ≤ 350`), normal or subnormal. -/
namespace Qentem.StrToNum
open Qentem.Round Qentem.Generated.StrToNum

theorem recip_ge : ∀ i, 1 ≤ i → i < 28 → ∀ r, powerOfOneOverFive[i]? = some r → 2 ^ 63 ≤ r := by decide

theorem negStep_lower (b r : Nat) (hr : 2 ^ 63 ≤ r) : b + 1 ≤ 2 * (b * r / 2 ^ 64 + 1) := by
  have h1 : b * 2 ^ 63 / 2 ^ 64 ≤ b * r / 2 ^ 64 := Nat.div_le_div_right (Nat.mul_le_mul_left _ hr)
  have h2 : b * 2 ^ 63 / 2 ^ 64 = b / 2 := by
    rw [show (2 : Nat) ^ 64 = 2 ^ 63 * 2 by decide, Nat.mul_comm b, Nat.mul_div_mul_left _ _ (by decide : 0 < 2 ^ 63)]
  omega

theorem negIter_lower (r : Nat) (hr : 2 ^ 63 ≤ r) : ∀ n b, b + 1 ≤ 2 ^ n * (negIter r n b + 1)
  | 0, b => by simp [negIter]
  | n + 1, b => by
    rw [negIter]
    have h1 := negStep_lower b r hr
    have h2 := negIter_lower r hr n (b * r / 2 ^ 64)
    calc b + 1 ≤ 2 * (b * r / 2 ^ 64 + 1) := h1
      _ ≤ 2 * (2 ^ n * (negIter r n (b * r / 2 ^ 64) + 1)) := Nat.mul_le_mul_left _ h2
      _ = 2 ^ (n + 1) * (negIter r n (b * r / 2 ^ 64) + 1) := by rw [Nat.pow_succ]; ring

/-- the big integer cannot shrink by more than a factor two per step -/
theorem negScale_lower (num x b s : Nat) (hn : num < 2 ^ 64) (h : negScale num x = some (b, s)) :
    num * 2 ^ 64 + 1 ≤ 2 ^ (x / 27 + 1) * (b + 1) := by
  obtain ⟨r27, s27, hr27, _, hcases⟩ := negScale_closed num x hn
  have hr := recip_ge 27 (by decide) (by decide) r27 hr27
  have hl := negIter_lower r27 hr (x / 27) (num * 2 ^ 64)
  rcases hcases with ⟨_, hps⟩ | ⟨h0, rj, sj, hrj, _, hps⟩
  · rw [hps] at h
    simp only [Option.some.injEq, Prod.mk.injEq] at h
    rw [← h.1]
    calc num * 2 ^ 64 + 1 ≤ 2 ^ (x / 27) * (negIter r27 (x / 27) (num * 2 ^ 64) + 1) := hl
      _ ≤ 2 ^ (x / 27 + 1) * (negIter r27 (x / 27) (num * 2 ^ 64) + 1) :=
          Nat.mul_le_mul_right _ (Nat.pow_le_pow_right (by decide) (by omega))
  · rw [hps] at h
    simp only [Option.some.injEq, Prod.mk.injEq] at h
    rw [← h.1]
    have hrjge := recip_ge (x % 27) (by omega) (by omega) rj hrj
    have h2 := negStep_lower (negIter r27 (x / 27) (num * 2 ^ 64)) rj hrjge
    calc num * 2 ^ 64 + 1 ≤ 2 ^ (x / 27) * (negIter r27 (x / 27) (num * 2 ^ 64) + 1) := hl
      _ ≤ 2 ^ (x / 27) * (2 * (negIter r27 (x / 27) (num * 2 ^ 64) * rj / 2 ^ 64 + 1)) := Nat.mul_le_mul_left _ h2
      _ = 2 ^ (x / 27 + 1) * (negIter r27 (x / 27) (num * 2 ^ 64) * rj / 2 ^ 64 + 1) := by rw [Nat.pow_succ]; ring

/-- from the pipeline error bound to the quarter-ulp hypothesis of `raw_close_rat` -/
theorem quarter_of_error (b N D k G : Nat) (hD : 0 < D) (hk : k ≤ 13) (hG : 32 ≤ G) (hb : b < 2 ^ 55 * G)
    (e1 : b * D * 2 ^ 62 ≤ N * (2 ^ 62 + k)) (e2 : N * 2 ^ 62 ≤ (b + k) * D * (2 ^ 62 + k)) :
    b * D ≤ N + G * D ∧ N ≤ b * D + G * D := by
  -- first N ≤ (b + G)·D
  have hk2 : k * k ≤ 13 * k := Nat.mul_le_mul_right _ hk
  have hbk : b * k ≤ 13 * b := by rw [Nat.mul_comm]; exact Nat.mul_le_mul_right _ hk
  have A : (b + k) * (2 ^ 62 + k) ≤ (b + G) * 2 ^ 62 := by
    have e : (b + k) * (2 ^ 62 + k) = b * 2 ^ 62 + b * k + k * 2 ^ 62 + k * k := by ring
    have e' : (b + G) * 2 ^ 62 = b * 2 ^ 62 + G * 2 ^ 62 := by ring
    rw [e, e']
    have : 13 * b + 13 * 2 ^ 62 + 169 ≤ G * 2 ^ 62 := by
      have h1 : 13 * b ≤ 13 * (2 ^ 55 * G) := Nat.mul_le_mul_left _ (Nat.le_of_lt hb)
      have h2 : 13 * (2 ^ 55 * G) = 13 * 2 ^ 55 * G := by ring
      have h3 : G * 2 ^ 62 = 128 * 2 ^ 55 * G := by rw [show (2 : Nat) ^ 62 = 128 * 2 ^ 55 by decide]; ring
      have h4 : 13 * 2 ^ 62 + 169 ≤ 115 * 2 ^ 55 * 32 := by decide
      have h5 : 115 * 2 ^ 55 * 32 ≤ 115 * 2 ^ 55 * G := Nat.mul_le_mul_left _ hG
      have h6 : 128 * 2 ^ 55 * G = 13 * 2 ^ 55 * G + 115 * 2 ^ 55 * G := by ring
      omega
    have hk61 : k * 2 ^ 62 ≤ 13 * 2 ^ 62 := Nat.mul_le_mul_right _ hk
    have hkk : k * k ≤ 169 := Nat.le_trans hk2 (by omega)
    have s1 : b * k + k * 2 ^ 62 + k * k ≤ 13 * b + 13 * 2 ^ 62 + 169 :=
      Nat.add_le_add (Nat.add_le_add hbk hk61) hkk
    calc b * 2 ^ 62 + b * k + k * 2 ^ 62 + k * k = b * 2 ^ 62 + (b * k + k * 2 ^ 62 + k * k) := by ring
      _ ≤ b * 2 ^ 62 + G * 2 ^ 62 := Nat.add_le_add_left (Nat.le_trans s1 this) _
  have hN : N ≤ (b + G) * D := by
    have : N * 2 ^ 62 ≤ (b + G) * D * 2 ^ 62 := by
      calc N * 2 ^ 62 ≤ (b + k) * D * (2 ^ 62 + k) := e2
        _ = (b + k) * (2 ^ 62 + k) * D := by ring
        _ ≤ (b + G) * 2 ^ 62 * D := Nat.mul_le_mul_right _ A
        _ = (b + G) * D * 2 ^ 62 := by ring
    exact Nat.le_of_mul_le_mul_right this (by decide)
  refine ⟨?_, by rw [← Nat.add_mul]; exact hN⟩
  -- b·D·2^61 ≤ N·2^61 + N·k ≤ N·2^61 + (b+G)·D·k ≤ (N + G·D)·2^61
  have B : (b + G) * k ≤ G * 2 ^ 62 := by
    have h1 : (b + G) * k ≤ (b + G) * 13 := Nat.mul_le_mul_left _ hk
    have h2 : (b + G) * 13 ≤ (2 ^ 55 * G + G) * 13 := Nat.mul_le_mul_right _ (by omega)
    have h3 : (2 ^ 55 * G + G) * 13 = (13 * 2 ^ 55 + 13) * G := by ring
    have h4 : (13 * 2 ^ 55 + 13) * G ≤ 2 ^ 62 * G := Nat.mul_le_mul_right _ (by decide)
    have h5 : 2 ^ 62 * G = G * 2 ^ 62 := Nat.mul_comm _ _
    omega
  have : b * D * 2 ^ 62 ≤ (N + G * D) * 2 ^ 62 := by
    calc b * D * 2 ^ 62 ≤ N * (2 ^ 62 + k) := e1
      _ = N * 2 ^ 62 + N * k := by ring
      _ ≤ N * 2 ^ 62 + (b + G) * D * k := Nat.add_le_add_left (Nat.mul_le_mul_right _ hN) _
      _ = N * 2 ^ 62 + (b + G) * k * D := by ring
      _ ≤ N * 2 ^ 62 + G * 2 ^ 62 * D := Nat.add_le_add_left (Nat.mul_le_mul_right _ B) _
      _ = (N + G * D) * 2 ^ 62 := by ring
  exact Nat.le_of_mul_le_mul_right this (by decide)

end Qentem.StrToNum

namespace Qentem.StrToNum
open Qentem.Round Qentem.Generated.StrToNum

theorem codeRawNeg_lt_inf (b sh : Nat) (hb53 : 2 ^ 53 ≤ b) (hb256 : b < 2 ^ 256) : codeRawNeg b sh < infBits := by
  have hb0 : b ≠ 0 := by intro h; subst h; exact absurd hb53 (by decide)
  obtain ⟨hlo, hhi⟩ := log2_bounds b hb0
  have hbit53 : 53 ≤ Nat.log2 b := (Nat.le_log2 hb0).2 hb53
  have hbit256 : Nat.log2 b < 256 := (Nat.log2_lt hb0).2 hb256
  clear hb256
  unfold codeRawNeg infBits
  generalize Nat.log2 b = bit at *
  generalize hBe : max bit (sh - 1022) = Be
  have hhu : halfUp b (2 ^ (Be - 53)) ≤ 2 ^ 53 := by
    have h1 : b / 2 ^ (Be - 53) ≤ b / 2 ^ (bit - 53) :=
      Nat.div_le_div_left (Nat.pow_le_pow_right (by decide) (by omega)) (Nat.pow_pos (by decide))
    have h2 : b / 2 ^ (bit - 53) < 2 ^ 54 := by
      rw [Nat.div_lt_iff_lt_mul (Nat.pow_pos (by decide)), ← Nat.pow_add]
      rw [show 54 + (bit - 53) = bit + 1 by omega]; exact hhi
    unfold halfUp; omega
  have hexp : Be + 1022 - sh ≤ 1277 := by omega
  have : (Be + 1022 - sh) * 2 ^ 52 ≤ 1277 * 2 ^ 52 := Nat.mul_le_mul_right _ hexp
  omega

/-- **Negative-exponent scaling is within one ulp** whenever the big integer the pipeline ends with has at
least 60 bits (`x ≤ 350`), in the normal and in the subnormal range. -/
theorem powerOfNegativeTen_close_wide (num x b s : Nat) (hn0 : 0 < num) (hn : num < 2 ^ 64) (hx : x ≤ 350)
    (hps0 : negScale num x = some (b, s)) (hb59 : 2 ^ 59 ≤ b) :
    ∃ p, powerOfNegativeTen num x = some p ∧ ulpDist p (nearestMag num (10 ^ x)) ≤ 1 := by
  obtain ⟨b', S, k, hps, hk, hS, e1, e2⟩ := negScale_error num x hn (by omega)
  have hbb : b' = b ∧ x + 64 + S = s := by
    rw [hps] at hps0
    simpa using hps0
  obtain ⟨hbe, _⟩ := hbb
  subst hbe
  have hdiv : x / 27 ≤ 12 := by omega
  have hk13 : k ≤ 13 := by omega
  have hb256 := negScale_lt num x b' _ hps
  have hb0 : b' ≠ 0 := by intro h; subst h; exact absurd hb59 (by decide)
  obtain ⟨hlo, hhi⟩ := log2_bounds b' hb0
  have hbit59 : 59 ≤ Nat.log2 b' := (Nat.le_log2 hb0).2 hb59
  have hD : 0 < 5 ^ x := Nat.pow_pos (by decide)
  have hG32 : 32 ≤ 2 ^ (Nat.log2 b' - 54) := by
    calc 32 = 2 ^ 5 := by decide
      _ ≤ 2 ^ (Nat.log2 b' - 54) := Nat.pow_le_pow_right (by decide) (by omega)
  have hbG : b' < 2 ^ 55 * 2 ^ (Nat.log2 b' - 54) := by
    rw [← Nat.pow_add, show 55 + (Nat.log2 b' - 54) = Nat.log2 b' + 1 by omega]; exact hhi
  obtain ⟨q1, q2⟩ := quarter_of_error b' (num * 2 ^ (64 + S)) (5 ^ x) k (2 ^ (Nat.log2 b' - 54)) hD hk13 hG32 hbG e1 e2
  -- L = ⌊log₂(N/D)⌋
  have hGb : 2 * 2 ^ (Nat.log2 b' - 54) ≤ b' := by
    calc 2 * 2 ^ (Nat.log2 b' - 54) = 2 ^ (Nat.log2 b' - 54 + 1) := by rw [Nat.pow_succ]; ring
      _ ≤ 2 ^ Nat.log2 b' := Nat.pow_le_pow_right (by decide) (by omega)
      _ ≤ b' := hlo
  generalize hN : num * 2 ^ (64 + S) = N at *
  generalize hGd : 2 ^ (Nat.log2 b' - 54) = G at *
  have hNlow : 2 ^ 58 * 5 ^ x ≤ N := by
    have h1 : (b' - G) * 5 ^ x ≤ N := by
      rw [Nat.sub_mul]; omega
    have h2 : 2 ^ 58 ≤ b' - G := by
      have : (2 : Nat) ^ 59 = 2 ^ 58 + 2 ^ 58 := by decide
      omega
    exact Nat.le_trans (Nat.mul_le_mul_right _ h2) h1
  have hq0 : N / 5 ^ x ≠ 0 := by
    intro h
    have := (Nat.div_eq_zero_iff).1 h
    rcases this with h | h
    · omega
    · have : 1 * 5 ^ x ≤ 2 ^ 58 * 5 ^ x := Nat.mul_le_mul_right _ (by decide)
      omega
  obtain ⟨l1, l2⟩ := log2_bounds (N / 5 ^ x) hq0
  generalize hL : Nat.log2 (N / 5 ^ x) = L at *
  have hL1 : 5 ^ x * 2 ^ L ≤ N := Nat.le_trans (Nat.mul_le_mul_left _ l1) (Nat.mul_div_le _ _)
  have hL2 : N < 5 ^ x * 2 ^ (L + 1) := by
    have := (Nat.div_lt_iff_lt_mul hD).1 l2
    rw [Nat.mul_comm]; exact this
  have hL52 : 52 ≤ L := by
    by_contra hc
    have : 2 ^ (L + 1) ≤ 2 ^ 58 := Nat.pow_le_pow_right (by decide) (by omega)
    have : 5 ^ x * 2 ^ (L + 1) ≤ 5 ^ x * 2 ^ 58 := Nat.mul_le_mul_left _ this
    rw [Nat.mul_comm (5 ^ x) (2 ^ 58)] at this
    omega
  obtain ⟨c1, c2⟩ := raw_close_rat b' (x + 64 + S) N (5 ^ x) L hD (Nat.le_trans (by decide) hb59)
    (by rw [hGd]; exact q1) (by rw [hGd]; exact q2) hL1 hL2
  -- the specification in the same units
  have hspec : nearestMag num (10 ^ x) = cap (ratRaw N (5 ^ x) (x + 64 + S) L) := by
    have h10 : (10 : Nat) ^ x = 5 ^ x * 2 ^ x := by rw [show (10 : Nat) = 5 * 2 by decide, Nat.mul_pow]
    rw [h10]
    have hshx : x + 64 + S - x = 64 + S := by omega
    have := nearestMag_bunits num (5 ^ x) x (x + 64 + S) L (by omega) hD (by omega) hL52
      (by rw [hshx, hN]; exact hL1) (by rw [hshx, hN]; exact hL2)
    rw [hshx, hN] at this
    exact this
  refine ⟨negFinish b' (x + 64 + S), by simp [powerOfNegativeTen, hps], ?_⟩
  have hb53 : 2 ^ 53 ≤ b' := Nat.le_trans (by decide) hb59
  rw [negFinish_eq b' (x + 64 + S) hb53 hb256 (by omega), hspec]
  have hcap : cap (codeRawNeg b' (x + 64 + S)) = codeRawNeg b' (x + 64 + S) := by
    have := codeRawNeg_lt_inf b' (x + 64 + S) hb53 hb256
    unfold cap; simp [Nat.not_le.2 this]
  rw [← hcap]
  exact cap_close _ _ c2 c1


/-- the same from a condition on the mantissa: `2^(x/27) ≤ 16·num` (every mantissa for `x ≤ 134`, every mantissa
`≥ 257` for `x ≤ 350`) -/
theorem powerOfNegativeTen_close (num x : Nat) (hn0 : 0 < num) (hnx : 2 ^ (x / 27) ≤ 16 * num) (hn : num < 2 ^ 64)
    (hx : x ≤ 350) :
    ∃ p, powerOfNegativeTen num x = some p ∧ ulpDist p (nearestMag num (10 ^ x)) ≤ 1 := by
  obtain ⟨b, S, k, hps, _⟩ := negScale_error num x hn (by omega)
  have hlow := negScale_lower num x b _ hn hps
  have hb59 : 2 ^ 59 ≤ b := by
    have h2 : 2 ^ (x / 27 + 1) * 2 ^ 59 ≤ num * 2 ^ 64 := by
      calc 2 ^ (x / 27 + 1) * 2 ^ 59 = 2 ^ (x / 27) * 2 ^ 60 := by rw [Nat.pow_succ]; ring
        _ ≤ 16 * num * 2 ^ 60 := Nat.mul_le_mul_right _ hnx
        _ = num * 2 ^ 64 := by rw [show (2 : Nat) ^ 64 = 16 * 2 ^ 60 by decide]; ring
    have h4 : 2 ^ (x / 27 + 1) * 2 ^ 59 < 2 ^ (x / 27 + 1) * (b + 1) := by omega
    have := Nat.lt_of_mul_lt_mul_left h4
    omega
  exact powerOfNegativeTen_close_wide num x b _ hn0 hn hx hps hb59

end Qentem.StrToNum
