import Qentem.Proofs.NumToStrText17
import Qentem.Proofs.StrToNumRatClose
/-! C09/C11 floats — from "pattern within one of `nearestMag`" to a statement about values: the double whose
magnitude pattern is within one of the correctly rounded pattern of `n/d` (well inside the normal range) is within
`3·2^-52·(n/d)` of `n/d`. -/
set_option linter.unusedSimpArgs false
set_option linter.unusedVariables false
namespace Qentem.StrToNum
open Qentem Qentem.Round Qentem.Proofs.Ident

/-- the fields of a pattern `sign + (e·2^52 + g)`, `g < 2^52` -/
theorem pattern_fields (σ e g : Nat) (hσ : σ ≤ 1) (he : e < 2 ^ 11) (hg : g < 2 ^ 52) :
    (σ * 2 ^ 63 + (e * 2 ^ 52 + g)) % 2 ^ 52 = g ∧ ((σ * 2 ^ 63 + (e * 2 ^ 52 + g)) / 2 ^ 52) % 2 ^ 11 = e ∧
    ((σ * 2 ^ 63 + (e * 2 ^ 52 + g)) / 2 ^ (52 + 11)) % 2 = σ := by
  have hform : σ * 2 ^ 63 + (e * 2 ^ 52 + g) = g + 2 ^ 52 * (e + 2 ^ 11 * σ) := by
    rw [show (2 : Nat) ^ 63 = 2 ^ 52 * 2 ^ 11 by rw [← Nat.pow_add]]; ring
  have hdiv : (σ * 2 ^ 63 + (e * 2 ^ 52 + g)) / 2 ^ 52 = e + 2 ^ 11 * σ := by
    rw [hform, Nat.add_mul_div_left _ _ (Nat.pow_pos (by decide)), Nat.div_eq_of_lt hg, Nat.zero_add]
  refine ⟨?_, ?_, ?_⟩
  · rw [hform, Nat.add_mul_mod_self_left, Nat.mod_eq_of_lt hg]
  · rw [hdiv, Nat.add_mul_mod_self_left, Nat.mod_eq_of_lt he]
  · rw [Nat.pow_add, ← Nat.div_div_eq_div_mul, hdiv, Nat.add_mul_div_left _ _ (Nat.pow_pos (by decide)),
      Nat.div_eq_of_lt he, Nat.zero_add]
    omega

/-- the value of a normal pattern written as `e·2^52 + g` with `0 ≤ g ≤ 2^52` (the carry `g = 2^52` included) -/
theorem val_repr (neg : Bool) (e g : Nat) (he : 1 ≤ e) (he' : e ≤ 2045) (hg : g ≤ 2 ^ 52) :
    ∃ rn rd : Nat, FmtSpec.decode64 ((if neg then 2 ^ 63 else 0) + (e * 2 ^ 52 + g)) = .fin neg rn rd ∧ 0 < rd ∧
      (rn : ℚ) / rd = ((2 : ℚ) ^ 52 + g) * 2 ^ ((e : Int) - 1075) := by
  -- reduce to g < 2^52
  have main : ∀ (e g : Nat), 1 ≤ e → e ≤ 2046 → g < 2 ^ 52 →
      ∃ rn rd : Nat, FmtSpec.decode64 ((if neg then 2 ^ 63 else 0) + (e * 2 ^ 52 + g)) = .fin neg rn rd ∧ 0 < rd ∧
        (rn : ℚ) / rd = ((2 : ℚ) ^ 52 + g) * 2 ^ ((e : Int) - 1075) := by
    intro e g he he' hg
    obtain ⟨σ, hσ, hσe, hσn⟩ : ∃ σ : Nat, σ ≤ 1 ∧ (if neg then 2 ^ 63 else 0) = σ * 2 ^ 63 ∧ (decide (σ = 1) = neg) := by
      cases neg
      · exact ⟨0, by omega, by simp, by simp⟩
      · exact ⟨1, by omega, by simp, by simp⟩
    obtain ⟨f1, f2, f3⟩ := pattern_fields σ e g hσ (by omega) hg
    rw [hσe]
    unfold FmtSpec.decode64 FmtSpec.decode
    simp only [f1, f2, f3, hσn]
    have h1 : ¬ (e = 2 ^ 11 - 1) := by omega
    have h0 : ¬ (e = 0) := by omega
    simp only [h1, h0, if_false]
    have hb : (2 : Nat) ^ (11 - 1) - 1 + 52 = 1075 := by decide
    rw [hb]
    by_cases hc : 1075 ≤ e
    · rw [if_pos hc]
      refine ⟨_, 1, rfl, by decide, ?_⟩
      push_cast
      rw [div_one]
      congr 1
      rw [← zpow_natCast]
      have hexp : (((e - 1075 : Nat)) : Int) = (e : Int) - 1075 := by omega
      rw [hexp]
    · rw [if_neg hc]
      refine ⟨_, _, rfl, Nat.pow_pos (by decide), ?_⟩
      push_cast
      rw [div_eq_mul_inv]
      congr 1
      rw [← zpow_natCast, ← zpow_neg]
      have hexp : -(((1075 - e : Nat)) : Int) = (e : Int) - 1075 := by omega
      rw [hexp]
  rcases Nat.lt_or_ge g (2 ^ 52) with h | h
  · exact main e g he (by omega) h
  · have hg' : g = 2 ^ 52 := by omega
    subst hg'
    obtain ⟨rn, rd, h1, h2, h3⟩ := main (e + 1) 0 (by omega) (by omega) (Nat.pow_pos (by decide))
    refine ⟨rn, rd, ?_, h2, ?_⟩
    · have e1 : (e + 1) * 2 ^ 52 + 0 = e * 2 ^ 52 + 2 ^ 52 := by rw [Nat.add_mul, Nat.one_mul, Nat.add_zero]
      rw [e1] at h1; exact h1
    · rw [h3]
      push_cast
      have : ((e : Int) + 1 - 1075) = ((e : Int) - 1075) + 1 := by ring
      rw [this, zpow_add₀ (by norm_num), zpow_one]
      ring

/-- the quotient that is rounded: `A/B = (n/d)·2^(52−E)` -/
theorem roundPair_value (n d : Nat) (hd : 0 < d) :
    0 < (roundPair n d).2 ∧
    ((roundPair n d).1 : ℚ) / (roundPair n d).2 = (n : ℚ) / d * 2 ^ (52 - binadeExp n d) := by
  have hdq : (0 : ℚ) < d := by exact_mod_cast hd
  unfold roundPair
  generalize binadeExp n d = E
  by_cases h : 0 ≤ E - 52
  · rw [if_pos h]
    refine ⟨Nat.mul_pos hd (Nat.pow_pos (by decide)), ?_⟩
    simp only
    push_cast
    have hz : ((2 : ℚ) ^ (E - 52).toNat) = 2 ^ (E - 52) := by
      rw [← zpow_natCast]; congr 1; omega
    rw [hz, show (52 : Int) - E = -(E - 52) by ring, zpow_neg, div_mul_eq_div_div, div_eq_mul_inv ((n : ℚ) / d)]
  · rw [if_neg h]
    refine ⟨hd, ?_⟩
    simp only
    push_cast
    have hz : ((2 : ℚ) ^ (-(E - 52)).toNat) = 2 ^ (52 - E) := by
      rw [← zpow_natCast]; congr 1; omega
    rw [hz]; ring

/-- **from patterns to values**: if the magnitude pattern `p` is within one of the correctly rounded pattern of `n/d`
and `2^-200 ≤ n/d < 2^200`, the double `sign + p` is finite, has the sign, and its value is within `3·2^-52·(n/d)`
of `n/d` (half an ulp for the rounding, at most two ulps of the lower binade for the neighbour) -/
theorem close_value (neg : Bool) (n d p : Nat) (hn : 0 < n) (hd : 0 < d)
    (hlo : (2 : ℚ) ^ (-200 : Int) ≤ (n : ℚ) / d) (hhi : (n : ℚ) / d < 2 ^ (200 : Int))
    (hp : ulpDist p (nearestMag n d) ≤ 1) :
    ∃ rn rd : Nat, FmtSpec.decode64 ((if neg then 2 ^ 63 else 0) + p) = .fin neg rn rd ∧ 0 < rd ∧
      |(rn : ℚ) / rd - (n : ℚ) / d| ≤ 3 * 2 ^ (-52 : Int) * ((n : ℚ) / d) := by
  obtain ⟨hs1, hs2⟩ := flog2_spec n d hn hd
  rw [flog2_eq] at hs1 hs2
  have hE1 : floorLog2Frac n d < 200 :=
    (zpow_lt_zpow_iff_right₀ (by norm_num : (1 : ℚ) < 2)).mp (lt_of_le_of_lt hs1 hhi)
  have hE2 : -200 < floorLog2Frac n d + 1 :=
    (zpow_lt_zpow_iff_right₀ (by norm_num : (1 : ℚ) < 2)).mp (lt_of_le_of_lt hlo hs2)
  have hbin : binadeExp n d = floorLog2Frac n d := by unfold binadeExp; rw [if_neg (by omega)]
  obtain ⟨hBpos, hAB⟩ := roundPair_value n d hd
  have hmag := nearestMag_pair n d hn hd
  obtain ⟨hr1, hr2⟩ := rne_bounds2 (roundPair n d).1 (roundPair n d).2 hBpos
  rw [hbin] at hAB hmag
  generalize floorLog2Frac n d = E at *
  generalize (roundPair n d).1 = A at *
  generalize (roundPair n d).2 = B at *
  generalize hr : rne A B = r at *
  obtain ⟨e0, he0⟩ : ∃ e0 : Nat, (e0 : Int) = E + 1022 := ⟨(E + 1022).toNat, by omega⟩
  have he0' : (E + 1022).toNat = e0 := by omega
  rw [he0'] at hmag
  have hBq : (0 : ℚ) < B := by exact_mod_cast hBpos
  -- the unit
  obtain ⟨u, hu⟩ : ∃ u : ℚ, u = 2 ^ (E - 52) := ⟨_, rfl⟩
  have hupos : 0 < u := by rw [hu]; positivity
  have hnd : (n : ℚ) / d = (A : ℚ) / B * u := by
    rw [hAB, hu, mul_assoc, ← zpow_add₀ (by norm_num)]; simp
  -- A/B in [2^52, 2^53)
  have hq1 : (2 : ℚ) ^ 52 ≤ (A : ℚ) / B := by
    have : (2 : ℚ) ^ E * 2 ^ (52 - E) ≤ (n : ℚ) / d * 2 ^ (52 - E) := mul_le_mul_of_nonneg_right hs1 (by positivity)
    rw [← zpow_add₀ (by norm_num)] at this
    rw [hAB]; simpa using this
  have hq2 : (A : ℚ) / B < 2 ^ 53 := by
    have : (n : ℚ) / d * 2 ^ (52 - E) < (2 : ℚ) ^ (E + 1) * 2 ^ (52 - E) := mul_lt_mul_of_pos_right hs2 (by positivity)
    rw [← zpow_add₀ (by norm_num), show E + 1 + (52 - E) = (53 : Int) by ring] at this
    rw [hAB]; exact this
  -- |r − A/B| ≤ 1/2
  have hrq1 : (r : ℚ) ≤ (A : ℚ) / B + 1 / 2 := by
    have : ((2 * (B * r) : Nat) : ℚ) ≤ ((2 * A + B : Nat) : ℚ) := by exact_mod_cast hr1
    push_cast at this
    have h2 : (r : ℚ) * B ≤ ((A : ℚ) / B + 1 / 2) * B := by
      rw [add_mul, div_mul_cancel₀ _ (ne_of_gt hBq)]; linarith
    exact le_of_mul_le_mul_right h2 hBq
  have hrq2 : (A : ℚ) / B - 1 / 2 ≤ (r : ℚ) := by
    have : ((2 * A : Nat) : ℚ) ≤ ((2 * (B * r) + B : Nat) : ℚ) := by exact_mod_cast hr2
    push_cast at this
    have h2 : ((A : ℚ) / B - 1 / 2) * B ≤ (r : ℚ) * B := by
      rw [sub_mul, div_mul_cancel₀ _ (ne_of_gt hBq)]; linarith
    exact le_of_mul_le_mul_right h2 hBq
  have hrlo : 2 ^ 52 ≤ r := by
    have : ((2 ^ 52 - 1 : Nat) : ℚ) < (r : ℚ) := by
      have : (2 : ℚ) ^ 52 - 1 < r := by linarith
      have e : ((2 ^ 52 - 1 : Nat) : ℚ) = 2 ^ 52 - 1 := by norm_num
      rw [e]; exact this
    have : 2 ^ 52 - 1 < r := by exact_mod_cast this
    omega
  have hrhi : r ≤ 2 ^ 53 := by
    have : (r : ℚ) < ((2 ^ 53 + 1 : Nat) : ℚ) := by
      have e : ((2 ^ 53 + 1 : Nat) : ℚ) = 2 ^ 53 + 1 := by norm_num
      rw [e]; linarith
    have : r < 2 ^ 53 + 1 := by exact_mod_cast this
    omega
  -- no cap
  have hcap : nearestMag n d = e0 * 2 ^ 52 + r := by
    rw [hmag]; unfold cap infBits
    have : e0 ≤ 1221 := by omega
    have h1 : e0 * 2 ^ 52 ≤ 1221 * 2 ^ 52 := Nat.mul_le_mul_right _ this
    rw [if_neg (by omega)]
  rw [hcap] at hp
  -- the value of a pattern `e'·2^52 + g'` as a multiple of `u`
  have hz0 : (2 : ℚ) ^ (((e0 + 1 : Nat) : Int) - 1075) = u := by
    rw [hu]; congr 1; push_cast; omega
  have hz1 : (2 : ℚ) ^ (((e0 + 2 : Nat) : Int) - 1075) = 2 * u := by
    rw [hu, show (((e0 + 2 : Nat) : Int) - 1075) = (E - 52) + 1 by push_cast; omega, zpow_add₀ (by norm_num), zpow_one]
    ring
  have hzm : (2 : ℚ) ^ ((e0 : Int) - 1075) = u / 2 := by
    rw [hu, show ((e0 : Int) - 1075) = (E - 52) - 1 by omega, zpow_sub₀ (by norm_num), zpow_one]
  -- all cases give (r + δ)·u with |δ| ≤ 2
  have key : ∃ (rn rd : Nat) (δ : ℚ), FmtSpec.decode64 ((if neg then 2 ^ 63 else 0) + p) = .fin neg rn rd ∧ 0 < rd ∧
      (rn : ℚ) / rd = ((r : ℚ) + δ) * u ∧ |δ| ≤ 2 := by
    obtain ⟨g0, hg0⟩ : ∃ g0, r = 2 ^ 52 + g0 := ⟨r - 2 ^ 52, by omega⟩
    have hg0le : g0 ≤ 2 ^ 52 := by omega
    have hrq : (r : ℚ) = 2 ^ 52 + g0 := by rw [hg0]; push_cast; ring
    unfold ulpDist at hp
    have hpc : p = e0 * 2 ^ 52 + r ∨ p = e0 * 2 ^ 52 + r + 1 ∨ p + 1 = e0 * 2 ^ 52 + r := by
      split at hp <;> omega
    rcases hpc with hpe | hpe | hpe
    · obtain ⟨rn, rd, h1, h2, h3⟩ := val_repr neg (e0 + 1) g0 (by omega) (by omega) hg0le
      have : p = (e0 + 1) * 2 ^ 52 + g0 := by rw [hpe, hg0, Nat.add_mul, Nat.one_mul, Nat.add_assoc]
      rw [← this] at h1
      rw [hz0] at h3
      exact ⟨rn, rd, 0, h1, h2, by rw [h3, hrq]; ring, by norm_num⟩
    · rcases Nat.lt_or_ge g0 (2 ^ 52) with hlt | hge
      · obtain ⟨rn, rd, h1, h2, h3⟩ := val_repr neg (e0 + 1) (g0 + 1) (by omega) (by omega) (by omega)
        have : p = (e0 + 1) * 2 ^ 52 + (g0 + 1) := by rw [hpe, hg0, Nat.add_mul, Nat.one_mul]; omega
        rw [← this] at h1
        rw [hz0] at h3
        exact ⟨rn, rd, 1, h1, h2, by rw [h3, hrq]; push_cast; ring, by norm_num⟩
      · have hg : g0 = 2 ^ 52 := by omega
        obtain ⟨rn, rd, h1, h2, h3⟩ := val_repr neg (e0 + 2) 1 (by omega) (by omega) (Nat.one_le_two_pow)
        have : p = (e0 + 2) * 2 ^ 52 + 1 := by rw [hpe, hg0, hg, Nat.add_mul]; omega
        rw [← this] at h1
        rw [hz1] at h3
        exact ⟨rn, rd, 2, h1, h2, by rw [h3, hrq, hg]; push_cast; ring, by norm_num⟩
    · rcases Nat.eq_zero_or_pos g0 with hz | hpos
      · obtain ⟨rn, rd, h1, h2, h3⟩ := val_repr neg e0 (2 ^ 52 - 1) (by omega) (by omega) (by omega)
        have : p = e0 * 2 ^ 52 + (2 ^ 52 - 1) := by rw [hg0, hz] at hpe; omega
        rw [← this] at h1
        rw [hzm] at h3
        refine ⟨rn, rd, -(1 / 2), h1, h2, ?_, by norm_num⟩
        rw [h3, hrq, hz]
        have e : (((2 ^ 52 - 1 : Nat)) : ℚ) = 2 ^ 52 - 1 := by norm_num
        rw [e]; push_cast; ring
      · obtain ⟨rn, rd, h1, h2, h3⟩ := val_repr neg (e0 + 1) (g0 - 1) (by omega) (by omega) (by omega)
        have : p = (e0 + 1) * 2 ^ 52 + (g0 - 1) := by rw [hg0] at hpe; rw [Nat.add_mul, Nat.one_mul]; omega
        rw [← this] at h1
        rw [hz0] at h3
        refine ⟨rn, rd, -1, h1, h2, ?_, by norm_num⟩
        rw [h3, hrq]
        have e : (((g0 - 1 : Nat)) : ℚ) = g0 - 1 := by
          rw [Nat.cast_sub hpos]; norm_num
        rw [e]; ring
  obtain ⟨rn, rd, δ, h1, h2, h3, h4⟩ := key
  refine ⟨rn, rd, h1, h2, ?_⟩
  rw [h3, hnd]
  rw [abs_le] at h4
  have hule : u ≤ 2 ^ (-52 : Int) * ((A : ℚ) / B * u) := by
    have : (1 : ℚ) ≤ 2 ^ (-52 : Int) * ((A : ℚ) / B) := by
      calc (1 : ℚ) = 2 ^ (-52 : Int) * 2 ^ 52 := by norm_num
        _ ≤ 2 ^ (-52 : Int) * ((A : ℚ) / B) := mul_le_mul_of_nonneg_left hq1 (by positivity)
    calc u = 1 * u := (one_mul u).symm
      _ ≤ (2 ^ (-52 : Int) * ((A : ℚ) / B)) * u := mul_le_mul_of_nonneg_right this (le_of_lt hupos)
      _ = 2 ^ (-52 : Int) * ((A : ℚ) / B * u) := by ring
  have hdiff : |((r : ℚ) + δ) * u - (A : ℚ) / B * u| ≤ 3 * u := by
    rw [← sub_mul, abs_mul, abs_of_pos hupos]
    apply mul_le_mul_of_nonneg_right _ (le_of_lt hupos)
    rw [abs_le]; constructor <;> linarith [h4.1, h4.2]
  calc |((r : ℚ) + δ) * u - (A : ℚ) / B * u| ≤ 3 * u := hdiff
    _ ≤ 3 * (2 ^ (-52 : Int) * ((A : ℚ) / B * u)) := mul_le_mul_of_nonneg_left hule (by norm_num)
    _ = 3 * 2 ^ (-52 : Int) * ((A : ℚ) / B * u) := by ring

end Qentem.StrToNum
