import Qentem.Model.JsonGrammar
import Qentem.Proofs.Json
/-! C06: the parser model maps the text of every well-formed RFC 8259 document to the value the
document denotes.  Strings and numerals are delegated to the two sub-routine specifications. -/
namespace Qentem.Json

/-- The array `c` contains the units `l` starting at offset `o`. -/
def At (c : Array Nat) (o : Nat) (l : List Nat) : Prop := l <+: c.toList.drop o

theorem At.nil (c : Array Nat) (o : Nat) : At c o [] := List.nil_prefix

theorem At.append {c : Array Nat} {o : Nat} {a b : List Nat} (h : At c o (a ++ b)) :
    At c o a ∧ At c (o + a.length) b := by
  unfold At at *
  obtain ⟨t, ht⟩ := h
  refine ⟨⟨b ++ t, by simp [← ht]⟩, ⟨t, ?_⟩⟩
  have : c.toList.drop (o + a.length) = (c.toList.drop o).drop a.length := by simp [List.drop_drop, Nat.add_comm]
  rw [this, ← ht]; simp

theorem At.cons {c : Array Nat} {o x : Nat} {l : List Nat} (h : At c o (x :: l)) :
    ∃ hlt : o < c.size, c[o] = x ∧ At c (o + 1) l := by
  have h2 := (At.append (a := [x]) (b := l) h)
  obtain ⟨t, ht⟩ := h
  have hlt : o < c.size := by
    rcases Nat.lt_or_ge o c.size with h' | h'
    · exact h'
    · have : c.toList.drop o = [] := List.drop_eq_nil_of_le (by simpa using h')
      rw [this] at ht; simp at ht
  refine ⟨hlt, ?_, h2.2⟩
  have : c.toList.drop o = c[o] :: c.toList.drop (o + 1) := by
    rw [List.drop_eq_getElem_cons (by simpa using hlt)]; simp
  rw [this] at ht
  simp at ht
  exact ht.1.symm

theorem At.len {c : Array Nat} {o : Nat} {l : List Nat} (h : At c o l) (hne : l ≠ []) : o + l.length ≤ c.size := by
  obtain ⟨t, ht⟩ := h
  have := congrArg List.length ht
  simp at this
  have hl : 0 < l.length := List.length_pos_iff.mpr hne
  omega

def AllWs (ws : List Nat) : Prop := ∀ x ∈ ws, isWs x = true

/-- Whitespace run followed by a non-whitespace unit: `TrimLeft` stops right after the run. -/
theorem trimLeft_ws (c : Array Nat) : ∀ (ws : List Nat) (o x : Nat) (rest : List Nat), AllWs ws → isWs x = false →
    At c o (ws ++ x :: rest) → trimLeft c o = o + ws.length
  | [], o, x, rest, _, hx, h => by
    obtain ⟨hlt, hc, _⟩ := At.cons (by simpa using h)
    unfold trimLeft
    simp [hlt, hc, hx]
  | w :: ws, o, x, rest, hws, hx, h => by
    obtain ⟨hlt, hc, h'⟩ := At.cons (by simpa using h)
    unfold trimLeft
    have hw : isWs w = true := hws w (by simp)
    simp only [hlt, hc, hw, ↓reduceDIte, ↓reduceIte]
    rw [trimLeft_ws c ws (o + 1) x rest (fun y hy => hws y (by simp [hy])) hx h']
    simp; omega

/-- Delimiters that may follow a value inside a document. -/
def isDelim (x : Nat) : Bool := isWs x || x == 44 || x == 93 || x == 125

/-- What follows the text at position `p`: end of input or a delimiter. -/
def FollowOK (c : Array Nat) (p : Nat) : Prop := p = c.size ∨ ∃ h : p < c.size, isDelim c[p] = true

/-- Contract of `UnEscape` for one string body: called at the body it consumes the body and the
closing quote and yields the decoded text. -/
def StrSpec (d : Deps) (body text : List Nat) : Prop :=
  ∀ (c : Array Nat) (o : Nat), At c o (body ++ [34]) →
    ∃ stream, d.unEscape c o (c.size - o) = .ok (body.length + 1, stream) ∧
      stringOf c o (body.length + 1) stream = text

/-- Contract of `StringToNumber` for one numeral followed by a delimiter (or the end). -/
def NumSpec (d : Deps) (tok : List Nat) (kind : NumKind) (bits : Nat) : Prop :=
  kind ≠ .notANumber ∧
  (∃ x xs, tok = x :: xs ∧ x ≠ 123 ∧ x ≠ 91 ∧ x ≠ 34 ∧ x ≠ 116 ∧ x ≠ 102 ∧ x ≠ 110 ∧ isDelim x = false) ∧
  ∀ (c : Array Nat) (o : Nat), c.size < 2 ^ 32 → At c o tok → FollowOK c (o + tok.length) →
    d.strToNum c o c.size = .ok ⟨kind, bits, o + tok.length⟩

mutual
/-- Well-formed document: whitespace runs are whitespace, tokens meet the sub-routine contracts. -/
def WF (d : Deps) : JDoc → Prop
  | .num tok kind bits => NumSpec d tok kind bits
  | .str body text => StrSpec d body text
  | .arr ws0 items => AllWs ws0 ∧ WFItems d items
  | .obj ws0 ms => AllWs ws0 ∧ WFMembers d ms
  | _ => True
def WFItems (d : Deps) : List (Ws × JDoc × Ws) → Prop
  | [] => True
  | (wsB, doc, wsA) :: rest => AllWs wsB ∧ WF d doc ∧ AllWs wsA ∧ WFItems d rest
def WFMembers (d : Deps) : List (Ws × List Nat × List Nat × Ws × Ws × JDoc × Ws) → Prop
  | [] => True
  | (wsB, kbody, ktext, ws1, ws2, doc, wsA) :: rest =>
    AllWs wsB ∧ StrSpec d kbody ktext ∧ AllWs ws1 ∧ AllWs ws2 ∧ WF d doc ∧ AllWs wsA ∧ WFMembers d rest
end

set_option linter.unusedSimpArgs false

theorem matchKeyword_at (c : Array Nat) : ∀ (ks : List Nat) (o : Nat), At c o ks → matchKeyword c o ks = (o + ks.length, [])
  | [], o, _ => by simp [matchKeyword]
  | k :: ks, o, h => by
    obtain ⟨hlt, hc, h'⟩ := At.cons h
    unfold matchKeyword
    simp only [hlt, hc, ↓reduceDIte, ↓reduceIte]
    rw [matchKeyword_at c ks (o + 1) h']
    simp; omega

/-- The first unit of a well-formed document's text is neither whitespace nor a delimiter. -/
theorem print_head (d : Deps) (doc : JDoc) (h : WF d doc) :
    ∃ x xs, doc.print = x :: xs ∧ isDelim x = false := by
  cases doc with
  | null => exact ⟨_, _, rfl, by decide⟩
  | tru => exact ⟨_, _, rfl, by decide⟩
  | fals => exact ⟨_, _, rfl, by decide⟩
  | num tok kind bits =>
    obtain ⟨_, ⟨x, xs, ht, _, _, _, _, _, _, hd⟩, _⟩ := h
    exact ⟨x, xs, by simp [JDoc.print, ht], hd⟩
  | str body text => exact ⟨34, body ++ [34], by simp [JDoc.print], by decide⟩
  | arr ws0 items => exact ⟨91, _, by simp [JDoc.print]; rfl, by decide⟩
  | obj ws0 ms => exact ⟨123, _, by simp [JDoc.print]; rfl, by decide⟩

theorem isDelim_ws {x : Nat} (h : isDelim x = false) : isWs x = false := by
  simp [isDelim] at h; exact h.1.1.1

theorem followOK_of_at {c : Array Nat} {p x : Nat} {t : List Nat} (h : At c p (x :: t)) (hx : isDelim x = true) : FollowOK c p := by
  obtain ⟨hlt, hc, _⟩ := At.cons h
  exact Or.inr ⟨hlt, by rw [hc]; exact hx⟩

theorem printItems_false (wsB : Ws) (doc : JDoc) (wsA : Ws) (rest : List (Ws × JDoc × Ws)) :
    printItems ((wsB, doc, wsA) :: rest) false = [44] ++ wsB ++ printItems ((wsB, doc, wsA) :: rest) true := by
  simp [printItems]

theorem printMembers_false (m : Ws × List Nat × List Nat × Ws × Ws × JDoc × Ws) (rest) :
    printMembers (m :: rest) false = [44] ++ m.1 ++ printMembers (m :: rest) true := by
  obtain ⟨wsB, kbody, ktext, ws1, ws2, doc, wsA⟩ := m
  simp [printMembers]

/-- what follows an item/member: `,` when more follow, else the closing bracket -/
theorem tail_head_items (rest : List (Ws × JDoc × Ws)) (close : Nat) (hc : close = 93) :
    ∃ x t, printItems rest false ++ [close] = x :: t ∧ isDelim x = true ∧ isWs x = false ∧ (rest = [] → x = close) ∧ (rest ≠ [] → x = 44) := by
  cases rest with
  | nil => exact ⟨close, [], by simp [printItems], by subst hc; decide, by subst hc; decide, fun _ => rfl, fun h => absurd rfl h⟩
  | cons i rest =>
    obtain ⟨wsB, doc, wsA⟩ := i
    exact ⟨44, wsB ++ (printItems ((wsB, doc, wsA) :: rest) true ++ [close]), by rw [printItems_false]; simp, by decide, by decide, fun h => by simp at h, fun _ => rfl⟩

theorem tail_head_members (rest : List (Ws × List Nat × List Nat × Ws × Ws × JDoc × Ws)) :
    ∃ x t, printMembers rest false ++ [125] = x :: t ∧ isDelim x = true ∧ isWs x = false ∧ (rest = [] → x = 125) ∧ (rest ≠ [] → x = 44) := by
  cases rest with
  | nil => exact ⟨125, [], by simp [printMembers], by decide, by decide, fun _ => rfl, fun h => absurd rfl h⟩
  | cons i rest =>
    exact ⟨44, i.1 ++ (printMembers (i :: rest) true ++ [125]), by rw [printMembers_false]; simp, by decide, by decide, fun h => by simp at h, fun _ => rfl⟩

/-- A whitespace run followed by text whose first unit is not whitespace. -/
theorem trim_then {c : Array Nat} {o : Nat} {ws : Ws} {x : Nat} {t : List Nat} (hws : AllWs ws) (hx : isWs x = false)
    (h : At c o (ws ++ x :: t)) : trimLeft c o = o + ws.length ∧ At c (o + ws.length) (x :: t) :=
  ⟨trimLeft_ws c ws o x t hws hx h, (At.append h).2⟩

theorem followOK_ws_or {c : Array Nat} {p : Nat} {ws : Ws} {x : Nat} {t : List Nat} (hws : AllWs ws) (hx : isDelim x = true)
    (h : At c p (ws ++ x :: t)) : FollowOK c p := by
  cases ws with
  | nil => exact followOK_of_at (by simpa using h) hx
  | cons w ws => exact followOK_of_at (by simpa using h) (by simp [isDelim, hws w (by simp)])

theorem ok_inj {α} {a b : α} (h : (pure a : M α) = .ok b) : a = b := by
  simp [pure, Except.pure] at h; exact h

mutual
theorem parseValue_print (d : Deps) : ∀ (doc : JDoc) (c : Array Nat) (fuel o : Nat) (r : JVal × Nat), c.size < 2 ^ 32 → WF d doc →
    At c o doc.print → FollowOK c (o + doc.print.length) → parseValue d c fuel o = .ok r →
    r = (doc.denote, o + doc.print.length)
  | .arr ws0 items, c, fuel, o, r, hsz, hwf, hat, _, h => by
    obtain ⟨hws0, hitems⟩ := hwf
    simp only [JDoc.print] at hat
    obtain ⟨hlt, hc, hat1⟩ := At.cons (by simpa using hat)
    cases fuel with
    | zero => simp [parseValue] at h
    | succ fuel =>
      unfold parseValue at h
      simp only [show ¬ o ≥ c.size by omega, ↓reduceIte, rd_ok c o hlt, bind, Except.bind, hc, cSCurly, cSSquare,
        Nat.reduceEqDiff] at h
      cases fuel with
      | zero => simp [parseArray, throw, throwThe, MonadExceptOf.throw] at h
      | succ fuel =>
        unfold parseArray at h
        simp only [] at h
        cases items with
        | nil =>
          simp only [printItems, List.append_nil] at hat1
          obtain ⟨ht, hat2⟩ := trim_then hws0 (by decide) (x := 93) (t := []) (by simpa using hat1)
          obtain ⟨hlt2, hc2, _⟩ := At.cons hat2
          rw [ht] at h
          simp only [show ¬ o + 1 + ws0.length ≥ c.size by omega, ↓reduceIte, rd_ok c _ hlt2, bind, Except.bind, hc2] at h
          simp only [cESquare, ne_eq, not_true_eq_false, ↓reduceIte] at h
          rw [← ok_inj h]
          simp [JDoc.denote, denoteItems, JDoc.print, printItems]; omega
        | cons i rest =>
          obtain ⟨wsB, doc, wsA⟩ := i
          obtain ⟨x, xs, hx, hxd⟩ := print_head d doc hitems.2.1
          have hat1' : At c (o + 1) (ws0 ++ x :: (xs ++ wsA ++ printItems rest false ++ [93])) := by
            simpa [printItems, hx] using hat1
          obtain ⟨ht, hat2⟩ := trim_then hws0 (isDelim_ws hxd) hat1'
          obtain ⟨hlt2, hc2, _⟩ := At.cons hat2
          rw [ht] at h
          have hx93 : ¬ x = 93 := by intro e; subst e; revert hxd; decide
          simp only [show ¬ o + 1 + ws0.length ≥ c.size by omega, ↓reduceIte, rd_ok c _ hlt2, bind, Except.bind, hc2] at h
          simp only [cESquare, ne_eq, hx93, not_false_eq_true, ↓reduceIte] at h
          have hat3 : At c (o + 1 + ws0.length) (printItems ((wsB, doc, wsA) :: rest) true ++ [93]) := by
            simpa [printItems, hx] using hat2
          have := arrLoop_print d ((wsB, doc, wsA) :: rest) c fuel (o + 1 + ws0.length) [] r hsz (by simp) hitems hat3 h
          rw [this]
          simp [JDoc.denote, JDoc.print]; omega
  | .obj ws0 ms, c, fuel, o, r, hsz, hwf, hat, _, h => by
    obtain ⟨hws0, hms⟩ := hwf
    simp only [JDoc.print] at hat
    obtain ⟨hlt, hc, hat1⟩ := At.cons (by simpa using hat)
    cases fuel with
    | zero => simp [parseValue, throw, throwThe, MonadExceptOf.throw] at h
    | succ fuel =>
      unfold parseValue at h
      simp only [show ¬ o ≥ c.size by omega, ↓reduceIte, rd_ok c o hlt, bind, Except.bind, hc, cSCurly, cSSquare,
        Nat.reduceEqDiff] at h
      cases fuel with
      | zero => simp [parseObject, throw, throwThe, MonadExceptOf.throw] at h
      | succ fuel =>
        unfold parseObject at h
        simp only [] at h
        cases ms with
        | nil =>
          simp only [printMembers] at hat1
          obtain ⟨ht, hat2⟩ := trim_then hws0 (by decide) (x := 125) (t := []) (by simpa using hat1)
          obtain ⟨hlt2, hc2, _⟩ := At.cons hat2
          rw [ht] at h
          simp only [show ¬ o + 1 + ws0.length ≥ c.size by omega, ↓reduceIte, rd_ok c _ hlt2, bind, Except.bind, hc2] at h
          simp only [cECurly, ne_eq, not_true_eq_false, ↓reduceIte] at h
          rw [← ok_inj h]
          simp [JDoc.denote, denoteMembers, JDoc.print, printMembers]; omega
        | cons m rest =>
          obtain ⟨wsB, kbody, ktext, ws1, ws2, doc, wsA⟩ := m
          have hat1' : At c (o + 1) (ws0 ++ 34 :: (kbody ++ [34] ++ ws1 ++ [58] ++ ws2 ++ doc.print ++ wsA ++ printMembers rest false ++ [125])) := by
            simpa [printMembers] using hat1
          obtain ⟨ht, hat2⟩ := trim_then hws0 (by decide) hat1'
          obtain ⟨hlt2, hc2, _⟩ := At.cons hat2
          rw [ht] at h
          simp only [show ¬ o + 1 + ws0.length ≥ c.size by omega, ↓reduceIte, rd_ok c _ hlt2, bind, Except.bind, hc2] at h
          simp only [cECurly, ne_eq, Nat.reduceEqDiff, not_false_eq_true, ↓reduceIte] at h
          have hat3 : At c (o + 1 + ws0.length) (printMembers ((wsB, kbody, ktext, ws1, ws2, doc, wsA) :: rest) true ++ [125]) := by
            simpa [printMembers] using hat2
          have := objLoop_print d ((wsB, kbody, ktext, ws1, ws2, doc, wsA) :: rest) c fuel (o + 1 + ws0.length) [] r hsz (by simp) hms hat3 h
          rw [this]
          simp [JDoc.denote, JDoc.print]; omega
  | .null, c, fuel, o, r, _, _, hat, _, h => by
    simp only [JDoc.print] at hat
    obtain ⟨hlt, hc, hat1⟩ := At.cons hat
    cases fuel with
    | zero => simp [parseValue, throw, throwThe, MonadExceptOf.throw] at h
    | succ fuel =>
      unfold parseValue at h
      simp only [show ¬ o ≥ c.size by omega, ↓reduceIte, rd_ok c o hlt, bind, Except.bind, hc, cSCurly, cSSquare, cQuote,
        Nat.reduceEqDiff] at h
      rw [matchKeyword_at c nullTail (o + 1) hat1] at h
      simp only [List.isEmpty_nil, ↓reduceIte] at h
      rw [← ok_inj h]
      simp [JDoc.denote, JDoc.print, nullTail]
  | .tru, c, fuel, o, r, _, _, hat, _, h => by
    simp only [JDoc.print] at hat
    obtain ⟨hlt, hc, hat1⟩ := At.cons hat
    cases fuel with
    | zero => simp [parseValue, throw, throwThe, MonadExceptOf.throw] at h
    | succ fuel =>
      unfold parseValue at h
      simp only [show ¬ o ≥ c.size by omega, ↓reduceIte, rd_ok c o hlt, bind, Except.bind, hc, cSCurly, cSSquare, cQuote,
        Nat.reduceEqDiff] at h
      rw [matchKeyword_at c trueTail (o + 1) hat1] at h
      simp only [List.isEmpty_nil, ↓reduceIte] at h
      rw [← ok_inj h]
      simp [JDoc.denote, JDoc.print, trueTail]
  | .fals, c, fuel, o, r, _, _, hat, _, h => by
    simp only [JDoc.print] at hat
    obtain ⟨hlt, hc, hat1⟩ := At.cons hat
    cases fuel with
    | zero => simp [parseValue, throw, throwThe, MonadExceptOf.throw] at h
    | succ fuel =>
      unfold parseValue at h
      simp only [show ¬ o ≥ c.size by omega, ↓reduceIte, rd_ok c o hlt, bind, Except.bind, hc, cSCurly, cSSquare, cQuote,
        Nat.reduceEqDiff] at h
      rw [matchKeyword_at c falseTail (o + 1) hat1] at h
      simp only [List.isEmpty_nil, ↓reduceIte] at h
      rw [← ok_inj h]
      simp [JDoc.denote, JDoc.print, falseTail]
  | .num tok kind bits, c, fuel, o, r, hsz, hwf, hat, hf, h => by
    obtain ⟨hk, ⟨x, xs, htok, h1, h2, h3, h4, h5, h6, _⟩, hspec⟩ := hwf
    simp only [JDoc.print] at hat hf
    obtain ⟨hlt, hc, _⟩ := At.cons (by rw [htok] at hat; exact hat)
    cases fuel with
    | zero => simp [parseValue, throw, throwThe, MonadExceptOf.throw] at h
    | succ fuel =>
      unfold parseValue at h
      simp only [show ¬ o ≥ c.size by omega, ↓reduceIte, rd_ok c o hlt, bind, Except.bind, hc, cSCurly, cSSquare, cQuote,
        h1, h2, h3, h4, h5, h6] at h
      rw [hspec c o hsz hat hf] at h
      simp only [] at h
      cases kind with
      | notANumber => exact absurd rfl hk
      | natural => simp only [] at h; rw [← ok_inj h]; simp [JDoc.denote, JDoc.print]
      | integer => simp only [] at h; rw [← ok_inj h]; simp [JDoc.denote, JDoc.print]
      | real => simp only [] at h; rw [← ok_inj h]; simp [JDoc.denote, JDoc.print]
  | .str body text, c, fuel, o, r, _, hwf, hat, _, h => by
    simp only [JDoc.print] at hat
    obtain ⟨hlt, hc, hat1⟩ := At.cons (by simpa using hat)
    obtain ⟨stream, hu, hs⟩ := hwf c (o + 1) hat1
    cases fuel with
    | zero => simp [parseValue, throw, throwThe, MonadExceptOf.throw] at h
    | succ fuel =>
      unfold parseValue at h
      simp only [show ¬ o ≥ c.size by omega, ↓reduceIte, rd_ok c o hlt, bind, Except.bind, hc, cSCurly, cSSquare, cQuote,
        Nat.reduceEqDiff, hu] at h
      simp only [show body.length + 1 ≠ 0 by omega, ne_eq, not_false_eq_true, ↓reduceIte, hs] at h
      rw [← ok_inj h]
      simp [JDoc.denote, JDoc.print]; omega
theorem arrLoop_print (d : Deps) : ∀ (items : List (Ws × JDoc × Ws)) (c : Array Nat) (fuel o : Nat) (acc : List JVal) (r : JVal × Nat),
    c.size < 2 ^ 32 → items ≠ [] → WFItems d items → At c o (printItems items true ++ [93]) → arrLoop d c fuel o acc = .ok r →
    r = (.arr (acc.reverse ++ denoteItems items), o + (printItems items true).length + 1)
  | [], c, fuel, o, acc, r, _, hne, _, hat, h => absurd rfl hne
  | (wsB, doc, wsA) :: rest, c, fuel, o, acc, r, hsz, _, hwf, hat, h => by
    obtain ⟨_, hdoc, hwsA, hrest⟩ := hwf
    obtain ⟨x, xs, hx, hxd⟩ := print_head d doc hdoc
    have hat0 : At c o (doc.print ++ (wsA ++ (printItems rest false ++ [93]))) := by
      simpa [printItems] using hat
    obtain ⟨hatd, hat1⟩ := At.append hat0
    obtain ⟨hlt, _, _⟩ := At.cons (by rw [hx] at hatd; exact hatd)
    obtain ⟨y, t, hy, hyd, hyw, hyn, hyc⟩ := tail_head_items rest 93 rfl
    rw [hy] at hat1
    have hfollow : FollowOK c (o + doc.print.length) := followOK_ws_or hwsA hyd hat1
    cases fuel with
    | zero => simp [arrLoop, throw, throwThe, MonadExceptOf.throw] at h
    | succ fuel =>
      unfold arrLoop at h
      simp only [show ¬ o ≥ c.size by omega, ↓reduceIte] at h
      cases hv : parseValue d c fuel o with
      | error e => rw [hv] at h; simp [bind, Except.bind] at h
      | ok r1 =>
        have hr1 := parseValue_print d doc c fuel o r1 hsz hdoc hatd hfollow hv
        subst hr1
        rw [hv] at h
        simp only [bind, Except.bind] at h
        obtain ⟨ht, hat2⟩ := trim_then hwsA hyw hat1
        obtain ⟨hlt2, hc2, hat3⟩ := At.cons hat2
        rw [ht] at h
        simp only [show ¬ o + doc.print.length + wsA.length ≥ c.size by omega, ↓reduceIte, rd_ok c _ hlt2, hc2] at h
        cases rest with
        | nil =>
          have hy93 : y = 93 := hyn rfl
          subst hy93
          simp only [cComma, cESquare, Nat.reduceEqDiff, ↓reduceIte] at h
          rw [← ok_inj h]
          simp [denoteItems, printItems]; omega
        | cons i2 rest2 =>
          obtain ⟨wsB2, doc2, wsA2⟩ := i2
          have hy44 : y = 44 := hyc (by simp)
          subst hy44
          simp only [cComma, ↓reduceIte] at h
          -- after the comma: wsB2, then the next item
          rw [printItems_false] at hy
          have ht2 : t = wsB2 ++ (printItems ((wsB2, doc2, wsA2) :: rest2) true ++ [93]) := by
            simpa using hy.symm
          obtain ⟨x2, xs2, hx2, hxd2⟩ := print_head d doc2 hrest.2.1
          have hat4 : At c (o + doc.print.length + wsA.length + 1) (wsB2 ++ x2 :: (xs2 ++ wsA2 ++ printItems rest2 false ++ [93])) := by
            rw [ht2] at hat3; simpa [printItems, hx2] using hat3
          obtain ⟨ht3, hat5⟩ := trim_then hrest.1 (isDelim_ws hxd2) hat4
          rw [ht3] at h
          have hat6 : At c (o + doc.print.length + wsA.length + 1 + wsB2.length) (printItems ((wsB2, doc2, wsA2) :: rest2) true ++ [93]) := by
            simpa [printItems, hx2] using hat5
          have := arrLoop_print d ((wsB2, doc2, wsA2) :: rest2) c fuel _ (doc.denote :: acc) r hsz (by simp) hrest hat6 h
          rw [this]
          simp [denoteItems, printItems]; omega
theorem objLoop_print (d : Deps) : ∀ (ms : List (Ws × List Nat × List Nat × Ws × Ws × JDoc × Ws)) (c : Array Nat) (fuel o : Nat)
    (acc : List (List Nat × JVal)) (r : JVal × Nat),
    c.size < 2 ^ 32 → ms ≠ [] → WFMembers d ms → At c o (printMembers ms true ++ [125]) → objLoop d c fuel o acc = .ok r →
    r = (.obj (denoteMembers ms acc), o + (printMembers ms true).length + 1)
  | [], c, fuel, o, acc, r, _, hne, _, hat, h => absurd rfl hne
  | (wsB, kbody, ktext, ws1, ws2, doc, wsA) :: rest, c, fuel, o, acc, r, hsz, _, hwf, hat, h => by
    obtain ⟨_, hkey, hws1, hws2, hdoc, hwsA, hrest⟩ := hwf
    obtain ⟨x, xs, hx, hxd⟩ := print_head d doc hdoc
    have hat0 : At c o (34 :: ((kbody ++ [34]) ++ (ws1 ++ 58 :: (ws2 ++ (doc.print ++ (wsA ++ (printMembers rest false ++ [125]))))))) := by
      simpa [printMembers] using hat
    obtain ⟨hlt, hc, hatk⟩ := At.cons hat0
    obtain ⟨hatk1, hat1⟩ := At.append hatk
    obtain ⟨stream, hu, hs⟩ := hkey c (o + 1) hatk1
    obtain ⟨ht1, hat2⟩ := trim_then hws1 (by decide) hat1
    obtain ⟨hlt2, hc2, hat3⟩ := At.cons hat2
    have hat3' : At c (o + 1 + (kbody ++ [34]).length + ws1.length + 1) (ws2 ++ x :: (xs ++ (wsA ++ (printMembers rest false ++ [125])))) := by
      simpa [hx] using hat3
    obtain ⟨ht2, hat4⟩ := trim_then hws2 (isDelim_ws hxd) hat3'
    have hat4' : At c (o + 1 + (kbody ++ [34]).length + ws1.length + 1 + ws2.length) (doc.print ++ (wsA ++ (printMembers rest false ++ [125]))) := by
      simpa [hx] using hat4
    obtain ⟨hatd, hat5⟩ := At.append hat4'
    obtain ⟨y, t, hy, hyd, hyw, hyn, hyc⟩ := tail_head_members rest
    rw [hy] at hat5
    have hfollow := followOK_ws_or hwsA hyd hat5
    obtain ⟨ht3, hat6⟩ := trim_then hwsA hyw hat5
    obtain ⟨hlt3, hc3, hat7⟩ := At.cons hat6
    cases fuel with
    | zero => simp [objLoop, throw, throwThe, MonadExceptOf.throw] at h
    | succ fuel =>
      unfold objLoop at h
      simp only [show ¬ o ≥ c.size by omega, ↓reduceIte, rd_ok c o hlt, hc, bind, Except.bind, cQuote, ne_eq, not_true_eq_false, hu] at h
      simp only [show ¬ (kbody.length + 1 = 0) by omega, ↓reduceIte, hs] at h
      have e1 : o + 1 + (kbody.length + 1) = o + 1 + (kbody ++ [34]).length := by simp
      rw [e1, ht1] at h
      simp only [show ¬ o + 1 + (kbody ++ [34]).length + ws1.length ≥ c.size by omega, ↓reduceIte, rd_ok c _ hlt2, hc2, cColon,
        ne_eq, not_true_eq_false] at h
      rw [ht2] at h
      cases hv : parseValue d c fuel (o + 1 + (kbody ++ [34]).length + ws1.length + 1 + ws2.length) with
      | error e => rw [hv] at h; simp at h
      | ok r1 =>
        have hr1 := parseValue_print d doc c fuel _ r1 hsz hdoc hatd hfollow hv
        subst hr1
        rw [hv] at h
        simp only [] at h
        rw [ht3] at h
        simp only [show ¬ o + 1 + (kbody ++ [34]).length + ws1.length + 1 + ws2.length + doc.print.length + wsA.length ≥ c.size by omega,
          ↓reduceIte, rd_ok c _ hlt3, hc3] at h
        cases rest with
        | nil =>
          have hy125 : y = 125 := hyn rfl
          subst hy125
          simp only [cComma, cECurly, Nat.reduceEqDiff, ↓reduceIte] at h
          rw [← ok_inj h]
          simp [denoteMembers, printMembers]; omega
        | cons m2 rest2 =>
          obtain ⟨wsB2, kbody2, ktext2, ws12, ws22, doc2, wsA2⟩ := m2
          have hy44 : y = 44 := hyc (by simp)
          subst hy44
          simp only [cComma, ↓reduceIte] at h
          rw [printMembers_false] at hy
          have ht2' : t = wsB2 ++ (printMembers ((wsB2, kbody2, ktext2, ws12, ws22, doc2, wsA2) :: rest2) true ++ [125]) := by
            simpa using hy.symm
          have hat8 : At c (o + 1 + (kbody ++ [34]).length + ws1.length + 1 + ws2.length + doc.print.length + wsA.length + 1)
              (wsB2 ++ 34 :: (kbody2 ++ [34] ++ ws12 ++ [58] ++ ws22 ++ doc2.print ++ wsA2 ++ printMembers rest2 false ++ [125])) := by
            rw [ht2'] at hat7; simpa [printMembers] using hat7
          obtain ⟨ht4, hat9⟩ := trim_then hrest.1 (by decide) hat8
          rw [ht4] at h
          have hat10 : At c (o + 1 + (kbody ++ [34]).length + ws1.length + 1 + ws2.length + doc.print.length + wsA.length + 1 + wsB2.length)
              (printMembers ((wsB2, kbody2, ktext2, ws12, ws22, doc2, wsA2) :: rest2) true ++ [125]) := by
            simpa [printMembers] using hat9
          have := objLoop_print d ((wsB2, kbody2, ktext2, ws12, ws22, doc2, wsA2) :: rest2) c fuel _ (objInsert acc ktext doc.denote) r hsz (by simp) hrest hat10 h
          rw [this]
          simp [denoteMembers, printMembers]; omega
end

theorem trimLeft_ws_end (c : Array Nat) : ∀ (ws : List Nat) (o : Nat), AllWs ws → At c o ws → o + ws.length = c.size →
    trimLeft c o = c.size
  | [], o, _, _, he => by
    unfold trimLeft
    simp at he
    simp [he]
  | w :: ws, o, hws, h, he => by
    obtain ⟨hlt, hc, h'⟩ := At.cons h
    unfold trimLeft
    have hw : isWs w = true := hws w (by simp)
    simp only [hlt, hc, hw, ↓reduceDIte, ↓reduceIte]
    exact trimLeft_ws_end c ws (o + 1) (fun y hy => hws y (by simp [hy])) h' (by simp at he; omega)

theorem at_toArray (pre l post : List Nat) : At (pre ++ l ++ post).toArray pre.length (l ++ post) := by
  unfold At
  simp

/-- C06: for every well-formed RFC 8259 document — any nesting, any legal whitespace, duplicate
keys — surrounded by optional whitespace, the parser returns exactly the denoted value. -/
theorem parse_print (d : Deps) (hd : DepsSafe d) (doc : JDoc) (hwf : WF d doc) (wsL wsR : Ws)
    (hL : AllWs wsL) (hR : AllWs wsR) (hsz0 : (wsL ++ doc.print ++ wsR).length < 2 ^ 32) :
    parse d (wsL ++ doc.print ++ wsR).toArray = .ok doc.denote := by
  obtain ⟨x, xs, hx, hxd⟩ := print_head d doc hwf
  have hsz : (wsL ++ doc.print ++ wsR).toArray.size = wsL.length + doc.print.length + wsR.length := by simp; omega
  have hat0 : At (wsL ++ doc.print ++ wsR).toArray 0 (wsL ++ x :: (xs ++ wsR)) := by
    unfold At; simp [hx]
  obtain ⟨ht, hat1⟩ := trim_then hL (isDelim_ws hxd) hat0
  have hat2 : At (wsL ++ doc.print ++ wsR).toArray (0 + wsL.length) (doc.print ++ wsR) := by simpa [hx] using hat1
  obtain ⟨hatd, hatR⟩ := At.append hat2
  have hfollow : FollowOK (wsL ++ doc.print ++ wsR).toArray (0 + wsL.length + doc.print.length) := by
    cases wsR with
    | nil => left; simp
    | cons w ws => exact followOK_of_at hatR (by simp [isDelim, hR w (by simp)])
  unfold parse
  have hne : ¬ (wsL ++ doc.print ++ wsR).toArray.size = 0 := by rw [hsz, hx]; simp
  simp only [hne, ↓reduceIte, ht]
  obtain ⟨v, o', hv, _, _, _⟩ := (all_good d hd _ (by rw [List.size_toArray]; exact hsz0) (fuelFor (wsL ++ doc.print ++ wsR).toArray)).1 (0 + wsL.length)
    (by rw [hsz]; omega) (by unfold needV fuelFor; omega)
  have := parseValue_print d doc _ _ _ _ (by rw [List.size_toArray]; exact hsz0) hwf hatd hfollow hv
  rw [hv]
  simp only [bind, Except.bind]
  injection this with hv1 ho1
  subst hv1; subst ho1
  rw [trimLeft_ws_end _ wsR _ hR hatR (by rw [hsz]; omega)]
  simp [pure, Except.pure]

end Qentem.Json
