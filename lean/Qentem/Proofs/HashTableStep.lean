import Qentem.Proofs.HashTableOps
/-!
Refinement of the public operations: insert, get-or-create, assignment, the lookups.
-/
namespace Qentem.HashTable
variable {V : Type}

theorem absSlots_length (s : HT V) : (absSlots s).length = s.items.size := by simp [absSlots]

theorem absSlots_setLink (s : HT V) (l : Link) (v : Nat) : absSlots (setLink s l v) = absSlots s := by
  apply List.ext_getElem?
  intro j
  rw [absSlots_getElem?, absSlots_getElem?, setLink_items, Option.map_map]
  cases s.items[j]? <;> rfl

theorem absSlots_pushItem (t : HT V) (x : Item V) :
    absSlots (pushItem t x) = absSlots t ++ [if x.hash = 0 then none else some (x.key, x.val)] := by
  simp [absSlots, pushItem]

@[simp] theorem pushItem_cap (t : HT V) (x : Item V) : (pushItem t x).cap = t.cap := rfl

theorem compact_length_le (sl : Slots V) : (Spec.compact sl).length ≤ sl.length := List.length_filter_le _ _

theorem growIfFull_spec {H : List Nat → Nat} {s : HT V} (hI : Inv H s) :
    ∃ s1, growIfFull s = some s1 ∧ Inv H s1 ∧ abs s1 = Spec.growIfFull (abs s) ∧ s1.items.size < s1.cap := by
  unfold growIfFull
  by_cases h : s.size = s.cap
  · simp only [h, if_true, expand]
    have h' : s.items.size = s.cap := h
    have hn : s.cap ≤ ((if s.cap = 0 then 1 else 0) + s.cap) * 2 := by omega
    have hn' : s.cap < ((if s.cap = 0 then 1 else 0) + s.cap) * 2 := by split <;> omega
    have hfit : (s.items.filter live).size ≤ allocCap (((if s.cap = 0 then 1 else 0) + s.cap) * 2) := by
      have := filter_live_size_le s
      have := allocCap_ge (((if s.cap = 0 then 1 else 0) + s.cap) * 2)
      omega
    obtain ⟨s1, hrun, hI1, habs⟩ := resize_spec hI _ hfit
    refine ⟨s1, hrun, hI1, ?_, ?_⟩
    · rw [habs]
      simp [Spec.growIfFull, abs, absSlots_length, h', Spec.realloc] <;> rfl
    · have h1 : (absSlots s1).length = (Spec.compact (absSlots s)).length := by
        have := congrArg Spec.slots habs; simp only [abs] at this; rw [this]
      have h2 : s1.cap = allocCap (((if s.cap = 0 then 1 else 0) + s.cap) * 2) := by
        have := congrArg Spec.cap habs; simpa [abs] using this
      have h3 := compact_length_le (absSlots s)
      have h4 := allocCap_ge (((if s.cap = 0 then 1 else 0) + s.cap) * 2)
      rw [absSlots_length] at h1 h3
      omega
  · simp only [h, if_false]
    refine ⟨s, rfl, hI, ?_, ?_⟩
    · have : ¬ (absSlots s).length = s.cap := by rw [absSlots_length]; exact h
      simp [Spec.growIfFull, abs, this]
    · have := hI.size_le
      have : s.items.size ≠ s.cap := h
      omega

theorem cap_pow_of_room {H : List Nat → Nat} {s : HT V} (hI : Inv H s) (h : s.items.size < s.cap) :
    ∃ k, s.cap = 2 ^ k := by
  rcases hI.cap_pow with h0 | hk
  · omega
  · exact hk

theorem lookup_abs_some {H : List Nat → Nat} {s : HT V} (hI : Inv H s) {j : Nat} {it : Item V}
    (hit : s.items[j]? = some it) (hl : it.hash ≠ 0) : Spec.lookup (abs s) it.key = some (j, it.val) := by
  simp only [Spec.lookup, abs, findKey_abs_some hI hit hl, absSlots_getElem?, hit, Option.map_some, hl, if_false]

theorem lookup_abs_none {s : HT V} {key : List Nat}
    (hno : ∀ (j : Nat) (it : Item V), s.items[j]? = some it → it.hash ≠ 0 → it.key ≠ key) :
    Spec.lookup (abs s) key = none := by
  simp only [Spec.lookup, abs, findKey_abs_none hno]

/-- `Insert(key, value)`. -/
theorem insert_spec {H : List Nat → Nat} {s : HT V} (hI : Inv H s) (hH : ∀ k, H k ≠ 0) (key : List Nat) (v : V) :
    ∃ s', insert H s key v = some s' ∧ Inv H s' ∧ abs s' = Spec.insert (abs s) key v := by
  obtain ⟨s1, hgrow, hI1, habs1, hroom⟩ := growIfFull_spec hI
  obtain ⟨ch, hc⟩ := hI1.chains
  have hspec : Spec.insert (abs s) key v = ⟨s1.cap, Spec.put (absSlots s1) key v⟩ := by
    have e : Spec.growIfFull (abs s) = ⟨s1.cap, absSlots s1⟩ := habs1.symm
    simp only [Spec.insert, e]
  simp only [insert, hgrow]
  rcases key_cases s1 key with ⟨j, it, hit, hl, rfl⟩ | hno
  · obtain ⟨pre, post, _, hfind⟩ := find_some hI1 hc hH hit hl
    simp only [hfind]
    refine ⟨_, rfl, inv_setVal hI1 j v, ?_⟩
    rw [hspec]
    simp only [abs, Spec.put, findKey_abs_some hI1 hit hl, absSlots_setVal v hit hl]
    rfl
  · have hfind := find_none hc hH (cap_pow_of_room hI1 hroom) hno
    simp only [hfind, insertAt_eq (show s1.size < s1.cap from hroom)]
    refine ⟨_, rfl, insertAt_inv hI1 hc hH (cap_pow_of_room hI1 hroom) hroom hno, ?_⟩
    rw [hspec]
    simp only [abs, Spec.put, findKey_abs_none hno, absSlots_pushItem, absSlots_setLink, hH key, if_false,
      pushItem_cap, setLink_cap]

/-- `Get(key)` / `operator[]`: the entry exists afterwards, at the returned item number. -/
theorem getOrCreate_spec [Inhabited V] {H : List Nat → Nat} {s : HT V} (hI : Inv H s) (hH : ∀ k, H k ≠ 0)
    (key : List Nat) :
    ∃ s' i it, getOrCreate H s key = some (s', i) ∧ Inv H s' ∧ abs s' = (Spec.get (abs s) key).1 ∧
      s'.items[i]? = some it ∧ it.hash ≠ 0 ∧ it.key = key ∧ it.val = (Spec.get (abs s) key).2 := by
  obtain ⟨s1, hgrow, hI1, habs1, hroom⟩ := growIfFull_spec hI
  obtain ⟨ch, hc⟩ := hI1.chains
  simp only [getOrCreate, hgrow]
  rcases key_cases s1 key with ⟨j, it, hit, hl, rfl⟩ | hno
  · obtain ⟨pre, post, _, hfind⟩ := find_some hI1 hc hH hit hl
    simp only [hfind]
    have hget : Spec.get (abs s) it.key = (abs s1, it.val) := by
      simp only [Spec.get, ← habs1, lookup_abs_some hI1 hit hl]
    exact ⟨s1, j, it, rfl, hI1, by rw [hget], hit, hl, rfl, by rw [hget]⟩
  · have hfind := find_none hc hH (cap_pow_of_room hI1 hroom) hno
    simp only [hfind, insertAt_eq (show s1.size < s1.cap from hroom)]
    have hget : Spec.get (abs s) key = (⟨s1.cap, absSlots s1 ++ [some (key, default)]⟩, default) := by
      simp only [Spec.get, ← habs1, lookup_abs_none hno]
      rfl
    refine ⟨_, s1.size, ⟨key, H key, 0, default⟩, rfl,
      insertAt_inv hI1 hc hH (cap_pow_of_room hI1 hroom) hroom hno, ?_, ?_, hH key, rfl, by rw [hget]⟩
    · rw [hget]
      simp only [abs, absSlots_pushItem, absSlots_setLink, hH key, if_false, pushItem_cap, setLink_cap]
    · rw [show (pushItem (setLink s1 (lastLink (Link.head (H key &&& (s1.cap - 1))) (ch (H key &&& (s1.cap - 1))))
        (s1.size + 1)) ⟨key, H key, 0, default⟩).items = (setLink s1 (lastLink (Link.head (H key &&& (s1.cap - 1)))
        (ch (H key &&& (s1.cap - 1)))) (s1.size + 1)).items.push ⟨key, H key, 0, default⟩ from rfl,
        Array.getElem?_push]
      simp [HT.size]

/-- `h[key] = v`. -/
theorem assign_spec [Inhabited V] {H : List Nat → Nat} {s : HT V} (hI : Inv H s) (hH : ∀ k, H k ≠ 0)
    (key : List Nat) (v : V) :
    ∃ s', assign H s key v = some s' ∧ Inv H s' ∧
      abs s' = ⟨(Spec.get (abs s) key).1.cap, Spec.put (Spec.get (abs s) key).1.slots key v⟩ := by
  obtain ⟨s1, i, it, hrun, hI1, habs, hit, hl, hk, _⟩ := getOrCreate_spec hI hH key
  subst hk
  simp only [assign, hrun]
  refine ⟨_, rfl, inv_setVal hI1 i v, ?_⟩
  rw [← habs]
  simp only [abs, Spec.put, findKey_abs_some hI1 hit hl, absSlots_setVal v hit hl]
  rfl

/-- `GetValue(key)` / `GetKeyIndex` / `Has` / `GetItem(key)`. -/
theorem lookup_spec {H : List Nat → Nat} {s : HT V} (hI : Inv H s) (hH : ∀ k, H k ≠ 0) (key : List Nat) :
    lookup H s key = some (Spec.lookup (abs s) key) := by
  obtain ⟨ch, hc⟩ := hI.chains
  unfold lookup
  by_cases h0 : s.size = 0
  · simp only [h0, if_true]
    have : Spec.lookup (abs s) key = none := by
      apply lookup_abs_none
      intro j it hit
      have := (Array.getElem?_eq_some_iff.mp hit).1
      simp only [HT.size] at h0; omega
    rw [this]
  · simp only [h0, if_false]
    have hroom : 0 < s.cap := by have := hI.size_le; simp only [HT.size] at h0; omega
    have hcap : ∃ k, s.cap = 2 ^ k := by
      rcases hI.cap_pow with h | h
      · omega
      · exact h
    rcases key_cases s key with ⟨j, it, hit, hl, rfl⟩ | hno
    · obtain ⟨pre, post, _, hfind⟩ := find_some hI hc hH hit hl
      simp only [hfind, hit, lookup_abs_some hI hit hl]
    · simp only [find_none hc hH hcap hno, lookup_abs_none hno]

/-- `GetKey(index)` / `GetValue(index)` / `GetItem(index)`. -/
theorem lookupIdx_spec (s : HT V) (i : Nat) : lookupIdx s i = Spec.lookupIdx (abs s) i := by
  simp only [lookupIdx, Spec.lookupIdx, abs, absSlots_getElem?]
  cases s.items[i]? with
  | none => rfl
  | some it => simp only [Option.map_some, Option.join_some]; split <;> simp_all

end Qentem.HashTable
