import Qentem.Proofs.NumToStrDefaultRound
/-! C10 helper, Fixed / SemiFixed with rounding for values ≥ 1: `round_skip` (rounding + zero skipping,
positionally), `restoreZeros_spec`, `fixedText`, `formatFixed_ge1` (the three layouts: point inserted among the
remaining fractional digits; all fractional digits zero → integer zeros restored; carry out of the top digit),
`long_fraction_ge1_64`, and `fixed_ge1_64`: **every double of magnitude ≥ 1** prints the reference text in Fixed
and SemiFixed. -/
set_option linter.unusedSimpArgs false
set_option linter.unusedVariables false
namespace Qentem.Proofs.NumToStr
open Qentem.NumToStr Qentem.Generated.NumToStr Qentem

/-! ### rounding + zero skipping, positionally -/

/-- `roundStringNumber` at position `i` (`i + 1 < L`) followed by the zero-skipping loop: the run becomes `t'`
(same length), the index stops at position `k`, the digits from `k` up are the numeral `T` (last digit not zero),
and the kept value is `T · 10^(k - (i+1))` — times ten when the top nine was turned into the carry digit. -/
theorem round_skip (s : List Nat) {b i : Nat} (hb : 0 < b) (hi : i + 1 < (D b).length) (ru : Bool) :
    ∃ r t' k T, roundStringNumber s.length (s ++ Rl b) (s.length + i) ru = .ok r ∧ r.1 = s ++ t' ∧
      skipWhile Ch.zero r.1.length r.1 r.2.1 = s.length + k ∧
      i + 1 ≤ k ∧ k < (D b).length ∧ t'.length = (D b).length ∧ t'.drop k = Rl T ∧
      0 < T ∧ T % 10 ≠ 0 ∧ keptUp b i ru = T * 10 ^ (k - (i + 1) + (if r.2.2 then 1 else 0)) ∧
      (r.2.2 = true → k + 1 = (D b).length ∧ T = 1) := by
  have hi' : i < (D b).length := by omega
  have hlen : (s ++ Rl b).length = s.length + (D b).length := by simp
  unfold roundStringNumber keptUp
  rw [round_test s hi', ok_bind]
  cases hu : upCode b i ru
  · simp only [Bool.false_eq_true, if_false, Nat.add_zero, pure, Except.pure]
    obtain ⟨h1, h2, h3, h4⟩ := skipWhile_spec Ch.zero (s ++ Rl b).length (s ++ Rl b) (s.length + i + 1) (by omega)
    generalize hj : skipWhile Ch.zero (s ++ Rl b).length (s ++ Rl b) (s.length + i + 1) = j at *
    have hjlt : j < s.length + (D b).length := by rcases h4 with h4 | h4 <;> omega
    obtain ⟨k, rfl⟩ : ∃ k, j = s.length + k := ⟨j - s.length, by omega⟩
    have hk : k < (D b).length := by omega
    have hzeros : ∀ m, i + 1 ≤ m → m < (i + 1) + (k - (i + 1)) → b / 10 ^ m % 10 = 0 := by
      intro m hm1 hm2
      have := h2 (s.length + m) (by omega) (by omega)
      rw [getElem?_append_len, Rl_get m b (by omega)] at this
      have h48 : Ch.zero = 48 := rfl
      rw [h48] at this
      injection this with this; omega
    have hrun := digits_zero_run (b := b) (a := i + 1) (k - (i + 1)) hzeros
    rw [show (i + 1) + (k - (i + 1)) = k by omega] at hrun
    have hTpos : 0 < b / 10 ^ k := Nat.div_pos (pow_le_of_len (by omega) hk) (Nat.pow_pos (by decide))
    have hTd : b / 10 ^ k % 10 ≠ 0 := by
      intro h0
      by_cases hlast : k + 1 < (D b).length
      · apply h3
        refine ⟨by omega, ?_⟩
        rw [getElem?_append_len, Rl_get k b hk, h0]; rfl
      · have hx : b / 10 ^ k < 10 := by
          have : b < 10 ^ (k + 1) := (D_length_le_iff (by omega)).mp (by omega)
          rw [Nat.div_lt_iff_lt_mul (Nat.pow_pos (by decide)), Nat.mul_comm, ← Nat.pow_succ]; exact this
        rw [Nat.mod_eq_of_lt hx] at h0; omega
    refine ⟨_, Rl b, k, b / 10 ^ k, rfl, rfl, hj, by omega, hk, Rl_length b, Rl_drop hk, hTpos, hTd, ?_, ?_⟩
    · simp only [Bool.false_eq_true, if_false, Nat.add_zero]; exact hrun
    · intro h; cases h
  · simp only [if_true]
    obtain ⟨k, t', pi, hrc, hik, hcase⟩ := roundCarry_spec s hb hi'
    rw [hrc]
    rcases hcase with ⟨hpi, hk, htl, hdrop, h9, hrun⟩ | ⟨hpi, hdrop, htl, hrun, hkk⟩
    · subst hpi
      have hT10 : (b / 10 ^ k + 1) % 10 ≠ 0 := by
        generalize b / 10 ^ k = x at h9 ⊢; omega
      have hget : (s ++ t')[s.length + k]? ≠ some Ch.zero := by
        rw [getElem?_append_len]
        have h0 : t'[k]? = (t'.drop k)[0]? := by simp
        rw [h0, hdrop]
        by_cases hx : b / 10 ^ k + 1 < 10
        · rw [Rl_lt10 hx]; simp [Ch.zero]
        · rw [Rl_step (by omega)]; simp [Ch.zero]; omega
      refine ⟨_, t', k, b / 10 ^ k + 1, rfl, rfl, skipWhile_stop _ _ _ hget _, hik, hk, htl, hdrop, Nat.succ_pos _, hT10, ?_, ?_⟩
      · simp only [Bool.false_eq_true, if_false, Nat.add_zero]; exact hrun
      · intro h; cases h
    · subst hpi
      have hkL : k + 1 = (D b).length := by rcases hkk with ⟨h1, h2⟩ | ⟨h1, h2⟩ <;> omega
      have hget : (s ++ t')[s.length + k]? ≠ some Ch.zero := by
        rw [getElem?_append_len]
        have h0 : t'[k]? = (t'.drop k)[0]? := by simp
        rw [h0, hdrop]; simp [Ch.zero]
      refine ⟨_, t', k, 1, rfl, rfl, skipWhile_stop _ _ _ hget _, hik, by omega, by omega,
        by rw [hdrop]; decide, by decide, by decide, ?_, fun _ => ⟨hkL, rfl⟩⟩
      simp only [if_true, Nat.one_mul]
      rw [hrun]; congr 1; omega

/-- the zero-restoring loop writes `zeros` zeros below position `k` -/
theorem restoreZeros_spec (pre : List Nat) : ∀ (zeros : Nat) (t : List Nat) (k : Nat), zeros ≤ k → k ≤ t.length →
    restoreZeros pre.length zeros (pre ++ t) (pre.length + k) =
      .ok (pre ++ (t.take (k - zeros) ++ List.replicate zeros 48 ++ t.drop k), pre.length + (k - zeros)) := by
  intro zeros
  induction zeros with
  | zero => intro t k _ hk; simp [restoreZeros, pure, Except.pure]
  | succ z ih =>
    intro t k hz hk
    rw [restoreZeros]
    have hcs : csub 2 (pre.length + k) 1 = .ok (pre.length + (k - 1)) := by
      have h1 : 1 ≤ pre.length + k := by omega
      unfold csub; rw [if_pos h1]
      show Except.ok _ = Except.ok _
      congr 1; omega
    have hw : wrAt pre.length (pre ++ t) (pre.length + (k - 1)) Ch.zero = .ok (pre ++ t.set (k - 1) 48) := by
      unfold wrAt
      rw [if_neg (by omega), if_pos (by rw [List.length_append]; omega), List.set_append_right _ _ (by omega), Nat.add_sub_cancel_left]; rfl
    rw [hcs, ok_bind, hw, ok_bind, ih (t.set (k - 1) 48) (k - 1) (by omega) (by rw [List.length_set]; omega)]
    congr 2
    · have e1 : (t.set (k - 1) 48).take (k - 1 - z) = t.take (k - (z + 1)) := by
        rw [List.take_set_of_le (by omega)]; congr 1; omega
      have e2 : (t.set (k - 1) 48).drop (k - 1) = 48 :: t.drop k := by
        rw [drop_set_self _ _ _ (by omega)]; congr 2; omega
      rw [e1, e2, List.replicate_succ']
      simp
    · omega

/-! ### `%.{p}f` as a text of the rounded integer `⌊v·10^p⌉` -/

/-- integer part, point, `p` fractional digits of `r / 10^p` -/
def fixedText (r p : Nat) : List Nat := D (r / 10 ^ p) ++ (if p = 0 then [] else 46 :: Dk p (r % 10 ^ p))

theorem fixedBody_eq_text (num den p : Nat) :
    FmtSpec.fixedBody num den p = fixedText (FmtSpec.roundHalfEven (num * 10 ^ p) den) p := by
  unfold FmtSpec.fixedBody fixedText
  by_cases hp : p = 0
  · simp [hp]
  · simp only [hp, if_false, FmtSpec.cDot]
    rw [show FmtSpec.digitsOf (FmtSpec.roundHalfEven (num * 10 ^ p) den % 10 ^ p) = D (FmtSpec.roundHalfEven (num * 10 ^ p) den % 10 ^ p) from rfl,
      padLeft_D (by omega) (Nat.mod_lt _ (Nat.pow_pos (by decide)))]

theorem roundHalfEven_scale (n d c : Nat) (hc : 0 < c) : FmtSpec.roundHalfEven (n * c) (d * c) = FmtSpec.roundHalfEven n d := by
  unfold FmtSpec.roundHalfEven
  rw [Nat.mul_div_mul_right _ _ hc, Nat.mul_mod_mul_right]
  have e1 : (d * c < 2 * (n % d * c)) ↔ (d < 2 * (n % d)) := by
    rw [show 2 * (n % d * c) = (2 * (n % d)) * c by ring]
    exact Nat.mul_lt_mul_right hc
  have e2 : (2 * (n % d * c) = d * c) ↔ (2 * (n % d) = d) := by
    rw [show 2 * (n % d * c) = (2 * (n % d)) * c by ring]
    exact Nat.mul_left_inj (by omega)
  simp only [e1, e2]

theorem Rl_mul_pow (T m : Nat) (hT : 0 < T) : Rl (T * 10 ^ m) = List.replicate m 48 ++ Rl T := by
  simp [Rl, D_mul_pow T m hT, List.reverse_append, List.reverse_replicate]

theorem fixedRound_eq (s : List Nat) {b p : Nat} (ru : Bool) :
    fixedRound s.length (s ++ Rl b) p (p + 1) ru =
      (roundStringNumber s.length (s ++ Rl b) (s.length + 0) ru >>= fun r =>
        pure (r.1, skipWhile Ch.zero r.1.length r.1 r.2.1, r.2.2)) := by
  unfold fixedRound
  rw [if_pos (by omega), show p + 1 - (p + 1) = 0 by omega]

/-- `formatStringNumberFixed` on the run of a value `≥ 1` when one digit more than the precision was produced
(`fraction_length = precision + 1`): the kept value `K' = ⌊b/10⌋ + up` is printed with `p` fractional digits -/
theorem formatFixed_ge1 (fixedT : Bool) (s : List Nat) {b p : Nat} (ru : Bool) (hb : 0 < b)
    (hL : p + 1 < (D b).length) (hp : p ≤ 1048576) :
    formatFixed fixedT s.length (s ++ Rl b) p (p + 1) ru =
      .ok (s ++ (if fixedT then fixedText (keptUp b 0 ru) p else FmtSpec.stripFraction (fixedText (keptUp b 0 ru) p))) := by
  obtain ⟨r, t', k, T, hr, hr1, hskip, hik, hkL, htl, hdrop, hT0, hT10, hkept, hpi⟩ := round_skip s (i := 0) hb (by omega) ru
  have h8 : csub 8 (s ++ Rl b).length s.length = .ok (D b).length := by simp [csub, pure, Except.pure]
  have hDTlen : (D T).length = (D b).length - k := by
    have := congrArg List.length hdrop
    simp [htl] at this; omega
  unfold formatFixed
  rw [h8, ok_bind]
  have hdiff : (if (D b).length < p + 1 then p + 1 - (D b).length else 0) = 0 := by split <;> omega
  simp only [ne_eq, Nat.succ_ne_zero, not_false_eq_true, if_true, hdiff, Nat.zero_le]
  rw [fixedRound_eq, hr, ok_bind, pure_bind]
  simp only []
  rw [hr1] at hskip ⊢
  rw [hskip]
  have hfo : decide ((D b).length ≤ p + 1) = false := by simp; omega
  rw [hfo]
  have hz : ∀ n, n ≤ p → zerosLarge n = .ok (List.replicate n 48) := fun n hn => zerosLarge_ok (by omega)
  cases hpiv : r.2.2
  · -- no carry out of the top digit
    simp only [hpiv, Bool.false_eq_true, if_false, Nat.add_zero] at hkept
    by_cases hA : k < p + 1
    · -- (a) a non-zero fractional digit remains: the point is inserted, Fixed restores the zeros
      have hp0 : p ≠ 0 := by omega
      have hff : fixedFraction s.length (s ++ t') (s.length + k) (D b).length (p + 1) 0 false =
          .ok (s ++ (t'.take (p + 1) ++ 46 :: t'.drop (p + 1)), s.length + k) := by
        unfold fixedFraction
        have h1 : ¬ ((D b).length ≤ p + 1) := by omega
        have h2 : s.length + k < s.length + (p + 1) := by omega
        have h3 : s.length + (p + 1) < (s ++ t').length := by rw [List.length_append, htl]; omega
        simp only [h1, if_false, h2, if_true, insertAt, show ¬ (s.length + (p + 1) < s.length) by omega, h3, ok_bind, pure_bind]
        simp [List.take_append, List.drop_append, Ch.dot, pure, Except.pure]
        rw [List.take_of_length_le (by omega), List.drop_of_length_le (by omega)]; simp
      rw [hff, ok_bind, pure_bind]
      simp only []
      rw [finishNumber_drop s _ k (by simp [htl]; omega), ok_bind]
      -- the digits
      have hc : p + 1 - k < (D T).length := by omega
      have e1 : (t'.take (p + 1) ++ 46 :: t'.drop (p + 1)).drop k =
          (Rl T).take (p + 1 - k) ++ 46 :: (Rl T).drop (p + 1 - k) := by
        rw [List.drop_append_of_le_length (by simp [htl]; omega), List.drop_take, ← hdrop, List.drop_drop]
        congr 3; omega
      rw [e1, Rl_take hc, Rl_drop hc]
      have hrev : ((Dk (p + 1 - k) (T % 10 ^ (p + 1 - k))).reverse ++ 46 :: Rl (T / 10 ^ (p + 1 - k))).reverse =
          D (T / 10 ^ (p + 1 - k)) ++ 46 :: Dk (p + 1 - k) (T % 10 ^ (p + 1 - k)) := by
        simp [Rl, List.reverse_append]
      rw [hrev]
      -- the value
      have hpk : p = (p + 1 - k) + (k - 1) := by omega
      have hq : keptUp b 0 ru / 10 ^ p = T / 10 ^ (p + 1 - k) := by
        rw [hkept, show k - (0 + 1) = k - 1 by omega]
        conv_lhs => rw [hpk, Nat.pow_add, Nat.mul_div_mul_right _ _ (Nat.pow_pos (by decide))]
      have hm : keptUp b 0 ru % 10 ^ p = T % 10 ^ (p + 1 - k) * 10 ^ (k - 1) := by
        rw [hkept, show k - (0 + 1) = k - 1 by omega]
        conv_lhs => rw [hpk, Nat.pow_add, Nat.mul_mod_mul_right]
      have hft : fixedText (keptUp b 0 ru) p =
          D (T / 10 ^ (p + 1 - k)) ++ 46 :: (Dk (p + 1 - k) (T % 10 ^ (p + 1 - k)) ++ List.replicate (k - 1) 48) := by
        unfold fixedText
        rw [if_neg hp0, hq, hm]
        have := Dk_mul_pow (p + 1 - k) (k - 1) (T % 10 ^ (p + 1 - k))
        rw [← hpk] at this
        rw [this]
      rw [hft]
      cases fixedT
      · -- SemiFixed: the text without the restored zeros is the stripped reference
        simp only [Bool.false_eq_true, if_false, pure, Except.pure]
        obtain ⟨c, hcq⟩ : ∃ c, p + 1 - k = c + 1 := ⟨p - k, by omega⟩
        have hx : (T % 10 ^ (p + 1 - k)) % 10 ≠ 0 := by
          rw [Nat.mod_mod_of_dvd _ (by rw [hcq, Nat.pow_succ]; exact Nat.dvd_mul_left _ _)]; exact hT10
        rw [hcq] at hx ⊢
        rw [stripFraction_exact _ _ _ _ hx]
      · simp only [if_true]
        unfold fixedPad
        have hlen3 : (s ++ (D (T / 10 ^ (p + 1 - k)) ++ 46 :: Dk (p + 1 - k) (T % 10 ^ (p + 1 - k)))).length - s.length =
            (D (T / 10 ^ (p + 1 - k))).length + 1 + (p + 1 - k) := by simp [Dk_length]; omega
        have hqpos : 0 < (D (T / 10 ^ (p + 1 - k))).length := List.length_pos_iff.mpr (D_ne_nil _)
        have hc1 : ¬ (s.length + (p + 1) = s.length + k ∨
            (s ++ (D (T / 10 ^ (p + 1 - k)) ++ 46 :: Dk (p + 1 - k) (T % 10 ^ (p + 1 - k)))).length - s.length = 1 ∨
            (!false) = true ∧ false = true) := by rw [hlen3]; simp; omega
        rw [if_neg hp0, if_neg hc1]
        simp only [Bool.false_eq_true, if_false, csub, show s.length + (p + 1) - (s.length + k) = p + 1 - k by omega,
          show p + 1 - k ≤ p by omega, if_true, pure_bind, show p - (p + 1 - k) = k - 1 by omega, hz (k - 1) (by omega), ok_bind]
        simp [pure, Except.pure]
    · -- (b) every fractional digit is zero after rounding: the skipped positions are rewritten with zeros
      have hkp : p + 1 ≤ k := by omega
      have hff : fixedFraction s.length (s ++ t') (s.length + k) (D b).length (p + 1) 0 false =
          .ok (s ++ (t'.take (p + 1) ++ List.replicate (k - (p + 1)) 48 ++ t'.drop k), s.length + (p + 1)) := by
        unfold fixedFraction
        have h1 : ¬ ((D b).length ≤ p + 1) := by omega
        have h2 : ¬ (s.length + k < s.length + (p + 1)) := by omega
        simp only [h1, if_false, h2, Bool.false_eq_true, pure_bind, Nat.add_sub_cancel_left]
        have hzz : (if p + 1 < k then k - (p + 1) else 0) = k - (p + 1) := by split <;> omega
        rw [hzz, restoreZeros_spec s (k - (p + 1)) t' k (by omega) (by omega)]
        rw [show k - (k - (p + 1)) = p + 1 by omega]
      rw [hff, ok_bind, pure_bind]
      simp only []
      rw [finishNumber_drop s _ (p + 1) (by simp [htl]; omega), ok_bind]
      have e1 : (t'.take (p + 1) ++ List.replicate (k - (p + 1)) 48 ++ t'.drop k).drop (p + 1) =
          List.replicate (k - (p + 1)) 48 ++ Rl T := by
        rw [List.append_assoc, List.drop_left' (by simp [htl]; omega), hdrop]
      rw [e1, ← Rl_mul_pow T _ hT0]
      have hq : keptUp b 0 ru / 10 ^ p = T * 10 ^ (k - (p + 1)) := by
        rw [hkept, show k - (0 + 1) = (k - (p + 1)) + p by omega, Nat.pow_add, ← Nat.mul_assoc,
          Nat.mul_div_cancel _ (Nat.pow_pos (by decide))]
      have hm : keptUp b 0 ru % 10 ^ p = 0 := by
        rw [hkept, show k - (0 + 1) = (k - (p + 1)) + p by omega, Nat.pow_add, ← Nat.mul_assoc]
        exact Nat.mul_mod_left _ _
      have hft : fixedText (keptUp b 0 ru) p =
          D (T * 10 ^ (k - (p + 1))) ++ (if p = 0 then [] else 46 :: List.replicate p 48) := by
        unfold fixedText; rw [hq, hm, Dk_zero]
      rw [hft]
      have hrr : (Rl (T * 10 ^ (k - (p + 1)))).reverse = D (T * 10 ^ (k - (p + 1))) := by simp [Rl]
      rw [hrr]
      cases fixedT
      · simp only [Bool.false_eq_true, if_false, pure, Except.pure]
        rw [stripFraction_int]
      · simp only [if_true]
        unfold fixedPad
        by_cases hp0 : p = 0
        · simp [hp0, pure, Except.pure]
        · simp only [hp0, if_false, true_or, if_true, hz p (Nat.le_refl _), ok_bind]
          simp [Ch.dot, pure, Except.pure]
  · -- (c) the carry left the top digit: the top nine became the carry digit
    obtain ⟨hkL2, hT1⟩ := hpi hpiv
    subst hT1
    simp only [hpiv, if_true, Nat.one_mul] at hkept
    have hkp : p + 1 ≤ k := by omega
    have hff : fixedFraction s.length (s ++ t') (s.length + k) (D b).length (p + 1) 0 true =
        .ok (s ++ (t'.take p ++ List.replicate ((D b).length - (p + 1)) 48 ++ t'.drop k), s.length + p) := by
      unfold fixedFraction
      have h1 : ¬ ((D b).length ≤ p + 1) := by omega
      have h2 : ¬ (s.length + k < s.length + (p + 1)) := by omega
      have hcs : csub 12 (D b).length (p + 1) = .ok ((D b).length - (p + 1)) := by simp [csub, pure, Except.pure]; omega
      simp only [h1, if_false, h2, if_true, hcs, ok_bind]
      rw [restoreZeros_spec s ((D b).length - (p + 1)) t' k (by omega) (by omega)]
      rw [show k - ((D b).length - (p + 1)) = p by omega]
    rw [hff, ok_bind, pure_bind]
    simp only []
    rw [finishNumber_drop s _ p (by simp [htl]; omega), ok_bind]
    have e1 : (t'.take p ++ List.replicate ((D b).length - (p + 1)) 48 ++ t'.drop k).drop p =
        List.replicate ((D b).length - (p + 1)) 48 ++ Rl 1 := by
      rw [List.append_assoc, List.drop_left' (by simp [htl]; omega), hdrop]
    rw [e1, ← Rl_mul_pow 1 _ (by decide), Nat.one_mul]
    have hq : keptUp b 0 ru / 10 ^ p = 10 ^ ((D b).length - (p + 1)) := by
      rw [hkept, show k - (0 + 1) + 1 = ((D b).length - (p + 1)) + p by omega, Nat.pow_add,
        Nat.mul_div_cancel _ (Nat.pow_pos (by decide))]
    have hm : keptUp b 0 ru % 10 ^ p = 0 := by
      rw [hkept, show k - (0 + 1) + 1 = ((D b).length - (p + 1)) + p by omega, Nat.pow_add]
      exact Nat.mul_mod_left _ _
    have hft : fixedText (keptUp b 0 ru) p =
        D (10 ^ ((D b).length - (p + 1))) ++ (if p = 0 then [] else 46 :: List.replicate p 48) := by
      unfold fixedText; rw [hq, hm, Dk_zero]
    rw [hft]
    have hrr : (Rl (10 ^ ((D b).length - (p + 1)))).reverse = D (10 ^ ((D b).length - (p + 1))) := by simp [Rl]
    rw [hrr]
    cases fixedT
    · simp only [Bool.false_eq_true, if_false, pure, Except.pure]
      rw [stripFraction_int]
    · simp only [if_true]
      unfold fixedPad
      by_cases hp0 : p = 0
      · simp [hp0, pure, Except.pure]
      · have hc : (s.length + (p + 1) = s.length + p ∨
            (s ++ D (10 ^ ((D b).length - (p + 1)))).length - s.length = 1 ∨ (!false) = true ∧ true = true) := by
          right; right; simp
        simp only [hp0, if_false, hc, if_true, hz p (Nat.le_refl _), ok_bind]
        simp [Ch.dot, pure, Except.pure]

/-! ### every double of magnitude ≥ 1 with more binary fraction digits than the precision -/

theorem runSpec_ge1 {M B f e p fmt : Nat} (hfmt : fmt = 1 ∨ fmt = 2) (hpos : B ≤ e)
    (hlt : p < fracBits M B f e) :
    (runSpec M B f e p fmt).2.2.1 = p + 1 ∧ runDrop M B f e p fmt = 0 := by
  have hfix : (decide (fmt = fmtSemiFixed) || decide (fmt = fmtFixed)) = true := by
    rcases hfmt with rfl | rfl <;> decide
  simp only [runSpec, runDrop, fracBits, hfix, Bool.not_true, Bool.and_false, Bool.or_false, hpos, if_true, decide_true,
    Bool.true_and] at *
  generalize findFirstBit (mant M f e) = j at *
  have hnb : ¬ (M - j ≤ e - B) := by omega
  simp only [hnb, decide_false, Bool.false_eq_true, if_false]
  refine ⟨?_, trivial⟩
  unfold fracLen; split <;> omega

theorem decode64_ge1 {bits num den : Nat} {neg : Bool} (h : FmtSpec.decode64 bits = .fin neg num den)
    (he : 1023 ≤ (bits / 2 ^ 52) % 2 ^ 11) : den ≤ num := by
  unfold FmtSpec.decode64 FmtSpec.decode at h
  have hlt : (bits / 2 ^ 52) % 2 ^ 11 < 2 ^ 11 := Nat.mod_lt _ (by norm_num)
  generalize (bits / 2 ^ 52) % 2 ^ 11 = e at *
  generalize hf : bits % 2 ^ 52 = f at *
  have hfl : f < 2 ^ 52 := by rw [← hf]; exact Nat.mod_lt _ (by norm_num)
  simp only [show (2:Nat) ^ (11 - 1) - 1 = 1023 by norm_num, show ¬ (e = 0) by omega, if_false] at h
  by_cases hinf : e = 2 ^ 11 - 1
  · rw [if_pos hinf] at h; split at h <;> cases h
  · rw [if_neg hinf] at h
    by_cases hbig : 1023 + 52 ≤ e
    · rw [if_pos hbig] at h
      injection h with _ hn hd
      rw [← hn, ← hd]
      exact Nat.mul_pos (Nat.add_pos_left (Nat.two_pow_pos 52) f) (Nat.two_pow_pos _)
    · rw [if_neg hbig] at h
      injection h with _ hn hd
      rw [← hn, ← hd]
      calc 2 ^ (1023 + 52 - e) ≤ 2 ^ 52 := Nat.pow_le_pow_right (by decide) (by omega)
        _ ≤ 2 ^ 52 + f := Nat.le_add_right _ _

/-- **Fixed and SemiFixed for every double of magnitude ≥ 1 whose binary fraction is longer than the
precision**: one digit more than the precision is produced exactly (`⌊v·10^(p+1)⌋` plus the sticky flag), it is
rounded half-even with all its carries, and the text is exactly `%.{p}f` / its stripped form. -/
theorem long_fraction_ge1_64 (pre : List Nat) (bits p f : Nat) (hf12 : f = 1 ∨ f = 2) (hp : p ≤ 40)
    (hfin : (bits / 2 ^ 52) % 2 ^ 11 ≠ 2 ^ 11 - 1) (hge1 : 1023 ≤ (bits / 2 ^ 52) % 2 ^ 11)
    (hlt : p < fracBits 52 1023 (bits % 2 ^ 52) ((bits / 2 ^ 52) % 2 ^ 11)) :
    realToString f64 pre bits p f = .ok (pre ++ FmtSpec.format64 bits p (fmtOf f)) := by
  have hnz : (bits / 2 ^ 52) % 2 ^ 11 ≠ 0 ∨ bits % 2 ^ 52 ≠ 0 := Or.inl (by omega)
  have hfl : bits % 2 ^ 52 < 2 ^ 52 := Nat.mod_lt _ (by norm_num)
  have hel : (bits / 2 ^ 52) % 2 ^ 11 ≤ 2 * 1023 := by
    have := Nat.mod_lt (bits / 2 ^ 52) (show 0 < 2 ^ 11 by norm_num); omega
  have hf0 : ¬ (f = fmtDefault ∧ p = 0) := by rcases hf12 with rfl | rfl <;> simp [fmtDefault]
  obtain ⟨num, den, hden, hdec, hex⟩ := runSpec_exact_decode (M := 52) (X := 11) (by decide) (by decide) (by decide)
    bits p f hfin hnz
  have hB : (2:Nat) ^ (11 - 1) - 1 = 1023 := by norm_num
  rw [hB] at hex
  obtain ⟨hfl1, hdrop⟩ := runSpec_ge1 (M := 52) (B := 1023) (p := p) hf12 hge1 hlt
  have hdec64 : FmtSpec.decode64 bits = .fin (decide (bits / 2 ^ 63 % 2 = 1)) num den := hdec
  have hnd : den ≤ num := decode64_ge1 hdec64 hge1
  generalize hr : runSpec 52 1023 (bits % 2 ^ 52) ((bits / 2 ^ 52) % 2 ^ 11) p f = r at *
  obtain ⟨b, dg, fl, pos, ru⟩ := r
  simp only at hfl1 hex
  subst hfl1
  rw [hdrop, Nat.pow_zero, Nat.mul_one] at hex
  obtain ⟨hb, hru⟩ := hex
  -- the run has at least p + 2 digits
  have hbge : 10 ^ (p + 1) ≤ b := by
    rw [hb, Nat.le_div_iff_mul_le hden, Nat.mul_comm]
    exact Nat.mul_le_mul_right _ hnd
  have hbpos : 0 < b := lt_of_lt_of_le (Nat.pow_pos (by decide)) hbge
  have hL : p + 1 < (D b).length := D_length_gt hbge
  -- model
  rw [realToString_finite64 pre bits p f hfin hnz, if_neg hf0, realFinite_reduce shape64 _ hfl hel hnz hp, hr]
  have hR : R b = Rl b := by simp [R, Rl]; omega
  unfold layout
  simp only [hR]
  -- reference: the kept value is the reference's rounded integer
  have hkept : keptUp b 0 ru = FmtSpec.roundHalfEven (num * 10 ^ p) den := by
    have h1 := roundHalfEven_digits (N := num * 10 ^ (p + 1)) (den := den) (b := b) (i := 0) (ru := ru) hden hb hru
    rw [show den * 10 ^ (0 + 1) = den * 10 by norm_num, show num * 10 ^ (p + 1) = num * 10 ^ p * 10 by rw [Nat.pow_succ]; ring,
      roundHalfEven_scale _ _ 10 (by decide)] at h1
    unfold keptUp; rw [h1]
  rcases hf12 with rfl | rfl
  · have e1 : ¬ (1 = fmtSemiFixed) := by decide
    have e2 : (1 = fmtFixed) := by decide
    have e3 : fmtOf 1 = .fixed := by decide
    rw [if_neg e1, if_pos e2, formatFixed_ge1 true _ ru hbpos hL (by omega), e3, format64_finite bits p _ hdec64]
    simp only [if_true, fixedBody_eq_text, hkept]
    by_cases hs : bits / 9223372036854775808 % 2 = 1 <;> simp [hs, FmtSpec.signed, FmtSpec.cMinus]
  · have e1 : (2 = fmtSemiFixed) := by decide
    have e3 : fmtOf 2 = .semiFixed := by decide
    rw [if_pos e1, formatFixed_ge1 false _ ru hbpos hL (by omega), e3, format64_finite bits p _ hdec64]
    simp only [Bool.false_eq_true, if_false, fixedBody_eq_text, hkept]
    by_cases hs : bits / 9223372036854775808 % 2 = 1 <;> simp [hs, FmtSpec.signed, FmtSpec.cMinus]

/-- `fracBits = 0` for a normal double of magnitude ≥ 1 means it is integer-valued -/
theorem intValued_of_fracBits_zero {bits : Nat} (hfin : (bits / 2 ^ 52) % 2 ^ 11 ≠ 2 ^ 11 - 1)
    (hge1 : 1023 ≤ (bits / 2 ^ 52) % 2 ^ 11)
    (h0 : fracBits 52 1023 (bits % 2 ^ 52) ((bits / 2 ^ 52) % 2 ^ 11) = 0) :
    ∃ j, IntValued64 ((bits / 2 ^ 52) % 2 ^ 11) (bits % 2 ^ 52) j := by
  have hfl : bits % 2 ^ 52 < 2 ^ 52 := Nat.mod_lt _ (by norm_num)
  have hlt : (bits / 2 ^ 52) % 2 ^ 11 < 2 ^ 11 := Nat.mod_lt _ (by norm_num)
  have hnz : (bits / 2 ^ 52) % 2 ^ 11 ≠ 0 ∨ bits % 2 ^ 52 ≠ 0 := Or.inl (by omega)
  have hmm := findFirstBit_mant (M := 52) (by decide) (mant_pos (M := 52) hnz) (mant_lt (e := (bits / 2 ^ 52) % 2 ^ 11) hfl)
  have hmant : mant 52 (bits % 2 ^ 52) ((bits / 2 ^ 52) % 2 ^ 11) = 2 ^ 52 + bits % 2 ^ 52 := by
    unfold mant; rw [if_neg (by omega)]
  rw [hmant] at hmm
  simp only [fracBits, hmant, hge1, if_true] at h0
  exact ⟨findFirstBit (2 ^ 52 + bits % 2 ^ 52), ⟨hge1, by omega, hfl, hmm.1, hmm.2.1, hmm.2.2, by omega⟩⟩

/-- **Fixed and SemiFixed for every double of magnitude ≥ 1** (precision ≤ 40) -/
theorem fixed_ge1_64 (pre : List Nat) (bits p f : Nat) (hf12 : f = 1 ∨ f = 2) (hp : p ≤ 40)
    (hfin : (bits / 2 ^ 52) % 2 ^ 11 ≠ 2 ^ 11 - 1) (hge1 : 1023 ≤ (bits / 2 ^ 52) % 2 ^ 11) :
    realToString f64 pre bits p f = .ok (pre ++ FmtSpec.format64 bits p (fmtOf f)) := by
  by_cases h0 : fracBits 52 1023 (bits % 2 ^ 52) ((bits / 2 ^ 52) % 2 ^ 11) = 0
  · obtain ⟨j, hj⟩ := intValued_of_fracBits_zero hfin hge1 h0
    exact int_class64 pre bits p f j hf12 (by omega) hj
  · by_cases hle : fracBits 52 1023 (bits % 2 ^ 52) ((bits / 2 ^ 52) % 2 ^ 11) ≤ p
    · exact short_fraction64 pre bits p f hf12 hp hfin (by omega) hle
    · exact long_fraction_ge1_64 pre bits p f hf12 hp hfin hge1 (by omega)

end Qentem.Proofs.NumToStr
