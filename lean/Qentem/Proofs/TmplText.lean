import Qentem.Proofs.TmplFinder
/-!
# C01/C02 — content without a tag-start character parses to no tags and renders to itself
-/
namespace Qentem.Tmpl
open Qentem.Expr (Fault rd ScanCfg RealLike)
open Qentem.Generated.Tmpl

/-- no `{` and no `<` anywhere -/
def NoTagStart (c : List Nat) : Prop :=
  ∀ x ∈ c, x ≠ W1.inLineFirstChar ∧ x ≠ W1.multiLineFirstChar

theorem nextF_noStart (c : List Nat) (h : NoTagStart c) : ∀ (f off o m : Nat),
    nextF c f off = .ok (o, m) → m ≤ 1 := by
  intro f
  induction f with
  | zero => intro off o m hr; simp [nextF] at hr; omega
  | succ f ih =>
    intro off o m hr
    simp only [nextF] at hr
    by_cases hlt : off < c.length
    · have hmem := h c[off] (List.getElem_mem hlt)
      have hid : ¬ firstCharID c[off] < W1.firstCharsCount := by
        simp only [firstCharID, hmem.1, hmem.2, if_false]; decide
      simp only [hlt, if_true, rd_ok c off hlt, bind, Except.bind, hid, if_false] at hr
      by_cases hs : c[off] = W1.singleChar
      · simp only [hs, if_true] at hr; simp at hr; omega
      · simp only [hs, if_false] at hr; exact ih _ _ _ hr
    · simp only [hlt, if_false] at hr; simp at hr; omega

variable {R : Type}

structure TextInv (c : List Nat) (st : PState R) : Prop where
  storage : st.storage = []
  stack : st.stack = []
  child : st.isChild = false
  mtch : st.mtch ≤ 1
  off : st.off ≤ c.length

theorem finderNext_text (c : List Nat) (h : NoTagStart c) (st : PState R) (hi : TextInv c st) :
    ∃ st', finderNext c st = .ok st' ∧ TextInv c st' ∧ (st'.mtch ≠ 0 → st.off < st'.off) := by
  obtain ⟨o, m, h1, h2, _, h4, _⟩ := next_safe_total c st.off hi.off
  refine ⟨{ st with off := o, mtch := m }, ?_, ?_, ?_⟩
  · simp [finderNext, h1, bind, Except.bind]
  · exact ⟨hi.storage, hi.stack, hi.child, nextF_noStart c h _ _ _ _ h1, h2⟩
  · exact h4

theorem parseMain_text (cfg : ScanCfg R) (c : List Nat) (h : NoTagStart c) :
    ∀ (fuel : Nat) (st : PState R), TextInv c st →
      (if st.mtch = 0 then 1 else c.length + 2 - st.off) ≤ fuel →
      ∃ st', parseMain cfg c fuel st = .ok st' ∧ st'.storage = [] ∧ st'.stack = [] := by
  intro fuel
  induction fuel with
  | zero => intro st hi hf; have := hi.off; split at hf <;> omega
  | succ fuel ih =>
    intro st hi hf
    simp only [parseMain]
    by_cases hm : st.mtch = 0
    · simp only [hm, ne_eq, not_true_eq_false, if_false]
      exact ⟨st, rfl, hi.storage, hi.stack⟩
    · have hm1 : st.mtch = 1 := by have := hi.mtch; omega
      have hstep : step cfg c st = finderNext c st := by
        have : st.mtch = W1.lineEndID := hm1
        simp only [step, this, if_true, stepLineEnd, hi.child, hi.stack]
        rfl
      obtain ⟨st', h1, h2, h3⟩ := finderNext_text c h st hi
      simp only [ne_eq, hm, not_false_eq_true, if_true, hstep, h1, bind, Except.bind]
      apply ih st' h2
      simp only [hm, if_false] at hf
      have hoff := hi.off
      have hoff' := h2.off
      by_cases hm' : st'.mtch = 0
      · simp only [hm', if_true]; omega
      · simp only [hm', if_false]; have := h3 hm'; omega

/-- tag-free text parses to the empty tag list (no faulting read) -/
theorem parse_text (cfg : ScanCfg R) (c : List Nat) (h : NoTagStart c) : parse cfg c = .ok [] := by
  have hi0 : TextInv c ({} : PState R) := ⟨rfl, rfl, rfl, Nat.zero_le 1, Nat.zero_le _⟩
  obtain ⟨st0, h1, h2, _⟩ := finderNext_text c h ({} : PState R) hi0
  obtain ⟨st', h3, h4, h5⟩ := parseMain_text cfg c h (2 * c.length + 4) st0 h2 (by
    have := h2.off
    split <;> omega)
  simp only [parse, h1, h3, bind, Except.bind, h4, h5, cleanup]

/-- and renders to itself, whatever the value -/
theorem render_text [RealLike R] (cx : RCtx R) (cfg : ScanCfg R) (h : NoTagStart cx.content)
    (fuel : Nat) :
    (parse cfg cx.content).bind (fun tags => renderTop cx tags (fuel + 1)) = .ok cx.content := by
  rw [parse_text cfg cx.content h]
  simp [Except.bind, renderTop, render, slice, emit, bind]

end Qentem.Tmpl
