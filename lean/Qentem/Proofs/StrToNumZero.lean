import Qentem.Proofs.StrToNumSmall
import Qentem.Proofs.StrToNumTail
/-! C09 helper lemmas: zero-valued numerals `0.000…` and `0e…` — the scan ends with the mantissa `0`. -/
set_option linter.unusedSimpArgs false
namespace Qentem.StrToNum
open Qentem.Round

/-- `0 . 0…0` (at least one zero) followed by the end, an exponent marker or any unit that is no digit and no dot -/
theorem afterSign_zero_dot (c : List Nat) (e : Nat) (neg : Bool) (off : Nat) (zs : List Nat) (he : e < 2 ^ 32)
    (hz : ∀ z ∈ zs, z = 48) (hz0 : zs ≠ []) (hu : unitsAt c e off ([48, 46] ++ zs))
    (hstop : off + 2 + zs.length = e ∨ ∃ x, rd c e (off + 2 + zs.length) = some x ∧ isDigit x = false ∧ x ≠ 46) :
    afterSign c e neg off =
      finishReal c e neg 0 (off + 2 + zs.length) (off + 2 + zs.length) (off + 2 + zs.length) true true (off + 1) := by
  have hB := (unitsAt_append c e [48, 46] zs off).1 hu
  have h48 : rd c e off = some 48 := hB.1.1
  have h46 : rd c e (off + 1) = some 46 := hB.1.2.1
  have hzs : unitsAt c e (off + 2) zs := by simpa using hB.2
  have hoff := rd_lt h48
  have hoff1 := rd_lt h46
  have hzl : 0 < zs.length := by
    cases zs with
    | nil => exact absurd rfl hz0
    | cons a b => simp
  have hQe : off + 2 + zs.length ≤ e := by
    have := unitsAt_le c e zs _ hzs hz0; omega
  -- the zero skipping
  have hskip : ∃ dg2, skipZeros c e (e - (off + 1 + 1)) (off + 1 + 1) 46 = some (off + 2 + zs.length, dg2) ∧
      (off + 2 + zs.length < e → rd c e (off + 2 + zs.length) = some dg2) := by
    rw [skipZeros_zeros c e zs (e - (off + 1 + 1)) (off + 1 + 1) 46 hz (by simpa using hzs) (by omega)]
    simp only [hz0, if_false]
    rw [show off + 1 + 1 + zs.length = off + 2 + zs.length by omega]
    rcases hstop with h | ⟨x, hx, hxd, _⟩
    · have : e - (off + 1 + 1) - zs.length = 0 := by omega
      rw [this]
      exact ⟨48, rfl, fun hlt => by omega⟩
    · have hlt := rd_lt hx
      obtain ⟨j, hj⟩ : ∃ j, e - (off + 1 + 1) - zs.length = j + 1 := ⟨e - (off + 1 + 1) - zs.length - 1, by omega⟩
      have hx48 : x ≠ 48 := by intro h; subst h; simp [isDigit] at hxd
      rw [hj, skipZeros, hx]
      simp only [hx48, if_false]
      exact ⟨x, rfl, fun _ => rfl⟩
  obtain ⟨dg2, hsk, hdg2⟩ := hskip
  rw [afterSign]
  simp only [hoff, if_true, h48, show isNonZeroDigit 48 = false by decide, Bool.false_eq_true, if_false, true_or, true_and,
    hoff1, h46, show ¬ ((46 : Nat) = 120 ∨ (46 : Nat) = 88) by decide, show isDigit 46 = false by decide, hsk]
  have hnd : ¬ (off + 1 + 1 = off + 2 + zs.length ∧ off + 1 = off ∧ (!isDigit dg2) = true) := by omega
  simp only [hnd, if_false]
  have hiter : iter1 c e (windowEnd e (off + 2 + zs.length)) 0 (off + 2 + zs.length) dg2 true (off + 1) true =
      some (.inr ⟨0, off + 2 + zs.length, true, off + 1, true⟩) := by
    rw [iter1]; simp only [if_true]
    rw [iter2]
    rcases hstop with h | ⟨x, hx, hxd, hx46⟩
    · rw [if_neg (by omega)]
    · have hlt := rd_lt hx
      rw [if_pos hlt]
      obtain ⟨hW1, _⟩ := windowEnd_bounds e (off + 2 + zs.length) he hlt
      generalize windowEnd e (off + 2 + zs.length) = W at hW1 ⊢
      obtain ⟨j, hj⟩ : ∃ j, W - (off + 2 + zs.length) = j + 1 := ⟨W - (off + 2 + zs.length) - 1, by omega⟩
      rw [hj, scanDigits, hx]
      simp only [hxd, Bool.false_eq_true, if_false, hx46]
  rw [hiter]
  simp only [thenScan]
  rw [afterScan_mk_real]

/-- `0 (e|E) …`: a zero mantissa followed directly by an exponent marker -/
theorem afterSign_zero_exp (c : List Nat) (e : Nat) (neg : Bool) (off m : Nat) (he : e < 2 ^ 32)
    (h48 : rd c e off = some 48) (hm : rd c e (off + 1) = some m) (hmE : m = 101 ∨ m = 69) :
    afterSign c e neg off = finishReal c e neg 0 (off + 1) (off + 1) 0 false false 0 := by
  have hoff := rd_lt h48
  have hoff1 := rd_lt hm
  have hmd : isDigit m = false := by rcases hmE with h | h <;> subst h <;> decide
  have hm46 : m ≠ 46 := by omega
  have hmx : ¬ (m = 120 ∨ m = 88) := by omega
  have hde : isDotOrE m = true := by rcases hmE with h | h <;> subst h <;> decide
  rw [afterSign]
  simp only [hoff, if_true, h48, show isNonZeroDigit 48 = false by decide, Bool.false_eq_true, if_false, true_or, true_and,
    hoff1, hm, hmx, hmd, hm46]
  obtain ⟨hW1, _⟩ := windowEnd_bounds e (off + 1) he hoff1
  generalize windowEnd e (off + 1) = W at hW1 ⊢
  have hiter : iter1 c e W 0 (off + 1) m false 0 false = some (.inr ⟨0, off + 1, false, 0, false⟩) := by
    rw [iter1]
    simp only [Bool.false_eq_true, if_false, hoff1, if_true]
    obtain ⟨j, hj⟩ : ∃ j, W - (off + 1) = j + 1 := ⟨W - (off + 1) - 1, by omega⟩
    rw [hj, scanDigits, hm]
    simp only [hmd, Bool.false_eq_true, if_false, hm46]
  rw [hiter]
  simp only [thenScan]
  have ht : twentieth c e 0 (off + 1) false = some (0, off + 1, off + 1, true) := by
    unfold twentieth
    simp [hoff1, hm, hde]
  rw [afterScan_of_twentieth_real c e neg 0 false ⟨0, off + 1, false, 0, false⟩ _ _ _ ht]

end Qentem.StrToNum
