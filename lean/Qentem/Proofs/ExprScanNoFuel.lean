import Qentem.Proofs.ExprScanTotal
/-!
# C01 — the expression scanner never exhausts its fuel (any range)

`parseTop cfg c off endO` returns a list or fails with a checked read — for EVERY range, also one
that does not end inside the content (then a read fails).  Same proof as `parseTop_total` with
reads that may fail; used by the totality of the tag scanner (`Proofs/TmplParseTotal.lean`), where
the bound on the range is not at hand.
-/
set_option linter.unusedSectionVars false
set_option linter.unusedVariables false
namespace Qentem.Expr
open Qentem.Generated.Expr

/-- `x` succeeds with `P`, or a checked read failed — not the fuel, not an arithmetic trap -/
def TQ {α : Type} (x : Except Fault α) (P : α → Prop) : Prop :=
  match x with
  | .ok a => P a
  | .error e => ∃ i n, e = .oobRead i n

theorem TQ.ok {α : Type} {P : α → Prop} (a : α) (h : P a) : TQ (.ok a : Except Fault α) P := h

theorem TQ.bind {α β : Type} {x : Except Fault α} {f : α → Except Fault β} {P : α → Prop}
    {Q : β → Prop} (hx : TQ x P) (hf : ∀ a, P a → TQ (f a) Q) : TQ (x >>= f) Q := by
  cases x with
  | ok a => exact hf a hx
  | error e => exact hx

theorem TQ.mono {α : Type} {x : Except Fault α} {P Q : α → Prop} (hx : TQ x P)
    (h : ∀ a, P a → Q a) : TQ x Q := by
  cases x with
  | ok a => exact h a hx
  | error e => exact hx

/-- no failed read (`Safe`) and nothing but a failed read (`TQ`): a value -/
theorem TQ.total {α : Type} {x : Except Fault α} {P Q : α → Prop} (hs : Safe x P) (ht : TQ x Q) :
    ∃ a, x = .ok a ∧ P a ∧ Q a := by
  cases x with
  | ok a => exact ⟨a, rfl, hs, ht⟩
  | error e => obtain ⟨i, n, rfl⟩ := ht; exact absurd rfl (hs i n)

theorem rd_tq (c : List Nat) (i : Nat) : TQ (rd c i) (fun _ => True) := by
  unfold rd
  split
  · trivial
  · exact ⟨_, _, rfl⟩

theorem isExpression_tq (c : List Nat) : ∀ off,
    TQ (isExpression c off) (fun _ => True) := by
  intro off
  induction off with
  | zero => exact TQ.ok _ trivial
  | succ off ih =>
    simp only [isExpression]
    apply TQ.bind (rd_tq c off)
    intro ch _
    split
    · exact ih
    · split <;> exact TQ.ok _ trivial

theorem skipParen_tq (c : List Nat) (endO : Nat) :
    ∀ f off skip, off ≤ endO → endO - off + 1 ≤ f →
      TQ (skipParen c endO f off skip) (fun o => off ≤ o ∧ o ≤ endO) := by
  intro f
  induction f with
  | zero => intro off skip _ hf; omega
  | succ f ih =>
    intro off skip h hf
    simp only [skipParen]
    split
    · rename_i hlt
      apply TQ.bind (rd_tq c off)
      intro ch _
      split
      · split
        · exact TQ.ok _ ⟨Nat.le_refl _, h⟩
        · exact TQ.mono (ih _ _ (by omega) (by omega)) (fun a ha => ⟨by omega, ha.2⟩)
      · split <;> exact TQ.mono (ih _ _ (by omega) (by omega)) (fun a ha => ⟨by omega, ha.2⟩)
    · exact TQ.ok _ ⟨Nat.le_refl _, h⟩

theorem skipBracket_tq (c : List Nat) (endO : Nat) :
    ∀ f off, off < endO → endO - off + 1 ≤ f →
      TQ (skipBracket c endO f off) (fun o => off < o ∧ o ≤ endO) := by
  intro f
  induction f with
  | zero => intro off _ hf; omega
  | succ f ih =>
    intro off h hf
    simp only [skipBracket]
    split
    · rename_i hlt
      apply TQ.bind (rd_tq c (off + 1))
      intro ch _
      split
      · exact TQ.mono (ih _ hlt (by omega)) (fun a ha => ⟨by omega, ha.2⟩)
      · exact TQ.ok _ ⟨by omega, by omega⟩
    · exact TQ.ok _ ⟨by omega, by omega⟩

theorem getOperation_tq (c : List Nat) (endO : Nat) :
    ∀ f off, off ≤ endO → endO - off + 1 ≤ f →
      TQ (getOperation c endO f off) (fun r => off ≤ r.2 ∧ r.2 ≤ endO) := by
  intro f
  induction f with
  | zero => intro off _ hf; omega
  | succ f ih =>
    intro off h hf
    rw [getOperation]
    split
    · rename_i hlt
      apply TQ.bind (rd_tq c off)
      intro ch _
      cases hc : classify ch with
      | two yes no second =>
        exact TQ.bind (rd_tq c (off + 1)) (fun nx _ => TQ.ok _ ⟨Nat.le_refl _, h⟩)
      | sign op =>
        apply TQ.bind (isExpression_tq c off)
        intro b _
        split
        · exact TQ.ok _ ⟨Nat.le_refl _, h⟩
        · exact TQ.mono (ih _ (by omega) (by omega)) (fun a ha => ⟨by omega, ha.2⟩)
      | single op => exact TQ.ok _ ⟨Nat.le_refl _, h⟩
      | paren =>
        apply TQ.bind (skipParen_tq c endO _ _ _ (by omega) (by omega))
        intro o2 ho2
        split
        · exact TQ.mono (ih _ (by omega) (by omega)) (fun a ha => ⟨by omega, ha.2⟩)
        · exact TQ.ok _ ⟨by simp only []; omega, ho2.2⟩
      | bracket =>
        apply TQ.bind (skipBracket_tq c endO _ _ hlt (by omega))
        intro o2 ho2
        split
        · exact TQ.mono (ih _ (by omega) (by omega)) (fun a ha => ⟨by omega, ha.2⟩)
        · exact TQ.ok _ ⟨h, Nat.le_refl _⟩
      | other => exact TQ.mono (ih _ (by omega) (by omega)) (fun a ha => ⟨by omega, ha.2⟩)
    · exact TQ.ok _ ⟨Nat.le_refl _, h⟩

theorem trimLeft_tq (c : List Nat) (endO : Nat) :
    ∀ f off, TQ (trimLeft c endO f off) (fun r => off ≤ r) := by
  intro f
  induction f with
  | zero => intro off; exact TQ.ok _ (Nat.le_refl _)
  | succ f ih =>
    intro off
    simp only [trimLeft]
    split
    · apply TQ.bind (rd_tq c off)
      intro ch _
      split
      · exact TQ.mono (ih _) (fun a ha => by omega)
      · exact TQ.ok _ (Nat.le_refl _)
    · exact TQ.ok _ (Nat.le_refl _)

theorem trimRight_tq (c : List Nat) (off : Nat) :
    ∀ e, TQ (trimRight c off e) (fun r => r ≤ e) := by
  intro e
  induction e with
  | zero => exact TQ.ok _ (Nat.le_refl _)
  | succ e ih =>
    simp only [trimRight]
    split
    · apply TQ.bind (rd_tq c e)
      intro ch _
      split
      · exact TQ.mono ih (fun a ha => by omega)
      · exact TQ.ok _ (Nat.le_refl _)
    · exact TQ.ok _ (Nat.le_refl _)

variable {R : Type}

/-- the three mutually recursive scanner functions never run out of fuel -/
theorem scan_tq (cfg : ScanCfg R) (c : List Nat) : ∀ f,
    (∀ off endO, 2 ≤ f → (off < endO → 2 * (endO - off) + 3 ≤ f) →
      TQ (parseExpressions cfg c f off endO) (fun _ => True)) ∧
    (∀ endO off exprs lastOp, 1 ≤ f → (off < endO → 2 * (endO - off) + 2 ≤ f) →
      TQ (parseLoop cfg c f endO off exprs lastOp) (fun _ => True)) ∧
    (∀ exprs oper lastOp off0 end0, 2 * (end0 - off0) + 1 ≤ f →
      TQ (parseValue cfg c f exprs oper lastOp off0 end0) (fun _ => True)) := by
  intro f
  induction f with
  | zero =>
    refine ⟨?_, ?_, ?_⟩
    · intro off endO h2 _; omega
    · intro endO off exprs lastOp h1 _; omega
    · intro exprs oper lastOp off0 end0 h; omega
  | succ f ih =>
    obtain ⟨ihE, ihL, ihV⟩ := ih
    refine ⟨?_, ?_, ?_⟩
    · intro off endO h2 hf
      simp only [parseExpressions]
      exact ihL _ _ _ _ (by omega) (fun h => by have := hf h; omega)
    · intro endO off exprs lastOp h1 hf
      simp only [parseLoop]
      split
      · rename_i hlt
        have hfl := hf hlt
        apply TQ.bind (getOperation_tq c endO _ off (by omega) (by omega))
        intro r hr
        obtain ⟨oper, opOff⟩ := r
        simp only [] at hr ⊢
        split
        · exact TQ.ok _ trivial
        · apply TQ.bind (ihV exprs oper lastOp off opOff (by omega))
          intro v _
          cases v with
          | none => exact TQ.ok _ trivial
          | some ex =>
            exact ihL _ _ _ _ (by omega) (fun h => by omega)
      · split <;> exact TQ.ok _ trivial
    · intro exprs oper lastOp off0 end0 hf
      simp only [parseValue]
      apply TQ.bind (trimLeft_tq c end0 _ off0)
      intro off hoff
      apply TQ.bind (trimRight_tq c off end0)
      intro endO hend
      split
      · rename_i hlt
        apply TQ.bind (rd_tq c off)
        intro ch _
        split
        · apply TQ.bind (ihE (off + 1) (endO - 1) (by omega) (fun h => by omega))
          intro sub _
          split <;> exact TQ.ok _ trivial
        · split
          · split
            · apply TQ.bind (rd_tq c _)
              intro last _
              split
              · exact TQ.ok _ trivial
              · exact TQ.ok _ trivial
            · exact TQ.ok _ trivial
          · split
            · exact TQ.ok _ trivial
            · split <;> exact TQ.ok _ trivial
      · exact TQ.ok _ trivial

/-- the expression scanner returns a list or fails with a checked read, whatever the range -/
theorem parseTop_tq (cfg : ScanCfg R) (c : List Nat) (off endO : Nat) :
    TQ (parseTop cfg c off endO) (fun _ => True) :=
  (scan_tq cfg c (2 * (endO - off) + 4)).1 off endO (by omega) (fun _ => by omega)

end Qentem.Expr
