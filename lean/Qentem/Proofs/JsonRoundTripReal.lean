import Qentem.Proofs.JsonRoundTripInt
import Qentem.Proofs.StrToNumReloc
import Qentem.Props.C11Closed
/-! C08 round trip for **all** value trees with finite numbers, at precision 17: `parse (stringify₁₇ v) = normR v`.
New definitions next to the integer-only ones of `JsonRoundTripInt.lean`: `NumTree` (reals must be finite),
`FmtReal17` (the formatter prints a finite double as the reference `%.17g` text — discharged for the linked
`NumberToString` model by C10's `format_eq_spec`), `readBack` (what `StringToNumber` returns on that text alone),
`toDocR`, `normR`.  Ingredients: `text17_format` (shape of every `%.17g` text ⇒ `RfcNumeral`), `roundtrip17`
(C11: the parser reads the text back to the same double), `numSpec_of_standalone` (relocation of the parser),
`strValue_eq`, `parse_print`. -/
open Qentem.Json Qentem.StrToNum

set_option linter.unusedSimpArgs false
set_option linter.unusedVariables false

namespace Qentem.StrToNum

/-! ### an `Integer` result is a negative two's-complement pattern -/

theorem tailLoop_inl_kind (c : List Nat) (e num : Nat) : ∀ (k off : Nat) (hd : Bool) (dot : Nat) (r : Res),
    tailLoop c e num k off hd dot = some (.inl r) → r.kind = .notANumber := by
  intro k
  induction k with
  | zero => intro off hd dot r h; simp [tailLoop] at h
  | succ k ih =>
    intro off hd dot r h
    rw [tailLoop] at h
    split at h
    · cases h
    · rename_i d _
      split at h
      · exact ih _ _ _ _ h
      · split at h
        · split at h
          · exact ih _ _ _ _ h
          · injection h with h; injection h with h; subst h; rfl
        · split at h
          · split at h
            · cases h
            · rename_i ok x neg off1 _
              split at h
              · cases h
              · injection h with h; injection h with h; subst h; rfl
          · cases h

theorem realResult_kind (neg : Bool) (num ep10 x : Nat) (ne : Bool) (off : Nat) (r : Res)
    (h : realResult neg num ep10 x ne off = some r) : r.kind ≠ .integer := by
  unfold realResult at h
  simp only [] at h
  split at h
  · split at h
    · injection h with h; subst h; simp
    · split at h
      · cases h
      · injection h with h; subst h; simp
  · injection h with h; subst h; simp

theorem finishReal_kind (c : List Nat) (e : Nat) (neg : Bool) (num off tmp start : Nat) (fo hd : Bool) (dot : Nat) (r : Res)
    (h : finishReal c e neg num off tmp start fo hd dot = some r) : r.kind ≠ .integer := by
  unfold finishReal at h
  simp only [] at h
  split at h
  · cases h
  · rename_i r' hh
    injection h with h; subst h
    rw [tailLoop_inl_kind c e num _ _ _ _ _ hh]; simp
  · split at h
    · injection h with h; subst h; simp
    · exact realResult_kind _ _ _ _ _ _ _ h

theorem afterScan_integer (c : List Nat) (e : Nat) (neg : Bool) (start : Nat) (fo : Bool) (s : Scan) (r : Res)
    (h : afterScan c e neg start fo s = some r) (hk : r.kind = .integer) : 2 ^ 63 ≤ r.bits ∧ r.bits < 2 ^ 64 := by
  unfold afterScan at h
  split at h
  · cases h
  · rename_i num off tmp isReal _
    split at h
    · injection h with h; subst h; cases hk
    · split at h
      · injection h with h; subst h; cases hk
      · rename_i h2
        split at h
        · rename_i h3
          injection h with h; subst h
          simp only
          have hn0 : num ≠ 0 := fun hc => h2 ⟨h3.1, hc⟩
          have hle := h3.2
          have : (2 ^ 64 - num) % 2 ^ 64 = 2 ^ 64 - num := Nat.mod_eq_of_lt (by omega)
          rw [this]; omega
        · exact absurd hk (finishReal_kind _ _ _ _ _ _ _ _ _ _ _ h)

theorem iter2_inl_kind {c : List Nat} {e w n off d dot : Nat} {r : Res} (h : iter2 c e w n off d dot = some (.inl r)) :
    r.kind = .notANumber := by
  unfold iter2 at h
  split at h
  · split at h
    · cases h
    · split at h
      · injection h with h; injection h with h; subst h; rfl
      · cases h
  · cases h

theorem iter1_inl_kind {c : List Nat} {e w n off d : Nat} {hd : Bool} {dot : Nat} {ir : Bool} {r : Res}
    (h : iter1 c e w n off d hd dot ir = some (.inl r)) : r.kind = .notANumber := by
  unfold iter1 at h
  split at h
  · exact iter2_inl_kind h
  · split at h
    · split at h
      · cases h
      · split at h
        · simp only [] at h
          split at h
          · split at h
            · cases h
            · split at h
              · exact iter2_inl_kind h
              · split at h
                · split at h
                  · cases h
                  · split at h
                    · exact iter2_inl_kind h
                    · cases h
                · cases h
          · cases h
        · cases h
    · cases h

theorem thenScan_integer {R : Option (Res ⊕ Scan)} {k : Scan → Option Res} {r : Res}
    (hR : ∀ r', R = some (.inl r') → r'.kind = .notANumber)
    (hk : ∀ s r', k s = some r' → r'.kind = .integer → 2 ^ 63 ≤ r'.bits ∧ r'.bits < 2 ^ 64)
    (h : thenScan R k = some r) (hi : r.kind = .integer) : 2 ^ 63 ≤ r.bits ∧ r.bits < 2 ^ 64 := by
  unfold thenScan at h
  split at h
  · cases h
  · rename_i r' _
    injection h with h; subst h
    have := hR _ rfl; rw [this] at hi; cases hi
  · exact hk _ _ h hi

theorem afterSign_integer (c : List Nat) (e : Nat) (neg : Bool) (off : Nat) (r : Res)
    (h : afterSign c e neg off = some r) (hi : r.kind = .integer) : 2 ^ 63 ≤ r.bits ∧ r.bits < 2 ^ 64 := by
  have hscan : ∀ start fo s r', afterScan c e neg start fo s = some r' → r'.kind = .integer →
      2 ^ 63 ≤ r'.bits ∧ r'.bits < 2 ^ 64 := fun start fo s r' => afterScan_integer c e neg start fo s r'
  unfold afterSign at h
  split at h
  · split at h
    · cases h
    · rename_i d _
      split at h
      · exact thenScan_integer (fun r' hr => iter1_inl_kind hr) (hscan _ _) h hi
      · split at h
        · simp only [] at h
          split at h
          · cases h
          · rename_i r' _
            injection h with h; subst h
            rename_i hstep
            -- results of the look-ahead step: hex Natural or NotANumber
            split at hstep
            · split at hstep
              · cases hstep
              · split at hstep
                · split at hstep
                  · cases hstep
                  · injection hstep with hstep; injection hstep with hstep; subst hstep; cases hi
                · split at hstep
                  · injection hstep with hstep; injection hstep with hstep; subst hstep; cases hi
                  · cases hstep
            · cases hstep
          · split at h
            · split at h
              · cases h
              · split at h
                · injection h with h; subst h; cases hi
                · exact thenScan_integer (fun r' hr => iter1_inl_kind hr) (hscan _ _) h hi
            · exact thenScan_integer (fun r' hr => iter1_inl_kind hr) (hscan _ _) h hi
        · injection h with h; subst h; cases hi
  · injection h with h; subst h; cases hi

theorem strToNum_integer (c : List Nat) (o e : Nat) (r : Res) (h : strToNum c o e = some r) (hi : r.kind = .integer) :
    2 ^ 63 ≤ r.bits ∧ r.bits < 2 ^ 64 := by
  unfold strToNum at h
  split at h
  · split at h
    · cases h
    · split at h
      · exact afterSign_integer _ _ _ _ _ h hi
      · split at h
        · exact afterSign_integer _ _ _ _ _ h hi
        · exact afterSign_integer _ _ _ _ _ h hi
  · injection h with h; subst h; cases hi

end Qentem.StrToNum

namespace Qentem.Json

/-- the reference `%.17g` text of a double pattern -/
def text17 (b : Nat) : List Nat := FmtSpec.format64 b 17 .default

/-- finite double pattern -/
def Finite64 (b : Nat) : Prop := b < 2 ^ 64 ∧ (b / 2 ^ 52) % 2 ^ 11 ≠ 2 ^ 11 - 1

/-- what `StringToNumber` returns on the text alone -/
def readBack (b : Nat) : Res := (strToNum (text17 b) 0 (text17 b).length).getD ⟨.notANumber, 0, 0⟩

theorem signed_cases (neg : Bool) (body : List Nat) :
    ∃ sign, FmtSpec.signed neg body = sign ++ body ∧ (sign = [] ∨ sign = [45]) := by
  cases neg
  · exact ⟨[], rfl, Or.inl rfl⟩
  · exact ⟨[45], rfl, Or.inr rfl⟩

/-- every `%.17g` text of a finite double is an RFC 8259 numeral -/
theorem rfc_text17 (b : Nat) (hb : Finite64 b) : RfcNumeral (text17 b) := by
  have ht := Qentem.Props.C11.text17_format b hb
  unfold text17
  generalize FmtSpec.format64 b 17 .default = t at ht
  cases ht with
  | int neg ds hds hne hlead hlen =>
    obtain ⟨sign, hs, hsg⟩ := signed_cases neg ds
    refine ⟨sign, ds, [], [], by rw [hs]; simp, hsg, ?_, Or.inl rfl, Or.inl rfl⟩
    rcases hlead with h | h
    · exact Or.inl h
    · right
      cases ds with
      | nil => exact absurd rfl hne
      | cons d rest =>
        refine ⟨d, rest, rfl, ?_, fun x hx => hds x (by simp [hx])⟩
        have hd := hds d (by simp)
        simp at h
        simp [isDigit] at hd; simp [isNonZeroDigit]; omega
  | fixed neg d1 xs ys h1 hxs hys hy0 hy48 hlen =>
    obtain ⟨sign, hs, hsg⟩ := signed_cases neg (d1 :: xs ++ [46] ++ ys)
    exact ⟨sign, d1 :: xs, 46 :: ys, [], by rw [hs]; simp, hsg, Or.inr ⟨d1, xs, rfl, h1, hxs⟩,
      Or.inr ⟨ys, rfl, hy0, hys⟩, Or.inl rfl⟩
  | small neg zs d1 ys hz hzl h1 hys hlen =>
    obtain ⟨sign, hs, hsg⟩ := signed_cases neg ([48] ++ 46 :: (zs ++ d1 :: ys))
    refine ⟨sign, [48], 46 :: (zs ++ d1 :: ys), [], by rw [hs]; simp, hsg, Or.inl rfl,
      Or.inr ⟨zs ++ d1 :: ys, rfl, by simp, ?_⟩, Or.inl rfl⟩
    intro x hx
    rcases List.mem_append.1 hx with hx | hx
    · rw [hz x hx]; decide
    · rcases List.mem_cons.1 hx with hx | hx
      · subst hx; exact isNonZeroDigit_isDigit h1
      · exact hys x hx
  | sci neg d1 ys eneg ks h1 hys hy48 hlen hks hk0 hk8 hrange hcond =>
    obtain ⟨sign, hs, hsg⟩ := signed_cases neg ([d1] ++ (if ys = [] then [] else 46 :: ys) ++ 101 :: (if eneg then 45 else 43) :: ks)
    refine ⟨sign, [d1], (if ys = [] then [] else 46 :: ys), 101 :: [if eneg then 45 else 43] ++ ks, by rw [hs]; simp, hsg,
      Or.inr ⟨d1, [], rfl, h1, fun x hx => by cases hx⟩, ?_,
      Or.inr ⟨101, [if eneg then 45 else 43], ks, rfl, Or.inl rfl, by cases eneg <;> simp, hk0, hks⟩⟩
    by_cases hy : ys = []
    · left; simp [hy]
    · right; exact ⟨ys, by simp [hy], hy, hys⟩

/-- the standalone run on the text of a finite double: a number, everything consumed -/
theorem readBack_run (b : Nat) (hb : Finite64 b) :
    strToNum (text17 b) 0 (text17 b).length = some ⟨(readBack b).kind, (readBack b).bits, (text17 b).length⟩ ∧
    (readBack b).kind ≠ .notANumber ∧
    (match (readBack b).kind with
      | .real => (readBack b).bits
      | .natural => Qentem.Round.nearestMag (readBack b).bits 1
      | .integer => 2 ^ 63 + Qentem.Round.nearestMag (2 ^ 64 - (readBack b).bits) 1
      | .notANumber => 0) = b := by
  obtain ⟨t, ht, hp⟩ := Qentem.Props.C11.roundtrip17 b hb
  have htt : t = text17 b := by
    have := Qentem.Props.C11.format17_is_reference b
    rw [ht] at this; injection this
  subst htt
  unfold readBack
  unfold Qentem.Props.C11P.parseDouble at hp
  revert hp
  generalize strToNum (text17 b) 0 (text17 b).length = r
  intro hp
  match r, hp with
  | some ⟨.real, bits, off⟩, hp =>
    simp only at hp
    split at hp
    · rename_i ho; subst ho; injection hp with hp; subst hp
      exact ⟨rfl, by simp, rfl⟩
    · cases hp
  | some ⟨.natural, bits, off⟩, hp =>
    simp only at hp
    split at hp
    · rename_i ho; subst ho; injection hp with hp
      exact ⟨rfl, by simp, hp⟩
    · cases hp
  | some ⟨.integer, bits, off⟩, hp =>
    simp only at hp
    split at hp
    · rename_i ho; subst ho; injection hp with hp
      exact ⟨rfl, by simp, hp⟩
    · cases hp


/-- the number a finite double comes back as: the kind and payload of the standalone run -/
def realLeaf (b : Nat) : JVal :=
  match (readBack b).kind with
  | .natural => .nat (readBack b).bits
  | .integer => .int (readBack b).bits
  | .real => .real (readBack b).bits
  | .notANumber => .undef

/-- the `double` a number leaf stands for (the callers' conversion: `double(natural)`, `double(integer)` are
round-to-nearest-even; a signed pattern below 2^63 is non-negative) -/
def asDouble : JVal → Option Nat
  | .real b => some b
  | .nat v => some (Qentem.Round.nearestMag v 1)
  | .int w => some (if w < 2 ^ 63 then Qentem.Round.nearestMag w 1 else 2 ^ 63 + Qentem.Round.nearestMag (2 ^ 64 - w) 1)
  | _ => none

/-- the token contract for the text of a finite double -/
theorem numSpec_text17 (w b : Nat) (hb : Finite64 b) :
    NumSpec (jsonDeps w) (text17 b) (kindOf (readBack b).kind) (readBack b).bits := by
  obtain ⟨hrun, hk, _⟩ := readBack_run b hb
  exact numSpec_of_standalone w (text17 b) _ _ (rfc_text17 b hb) hrun hk

theorem realLeaf_denote (b : Nat) (t : List Nat) :
    (JDoc.num t (kindOf (readBack b).kind) (readBack b).bits).denote = realLeaf b := by
  unfold realLeaf
  cases (readBack b).kind <;> simp [JDoc.denote, kindOf]

/-- **numbers equal in value**: the leaf a finite double comes back as converts to the same double.  (A `Real`
result has the same bits; a `Natural`/`Integer` result — the text was an integer numeral, e.g. `5` for 5.0 — is an
integer whose conversion to `double` is the original value; an `Integer` result is negative.) -/
theorem realLeaf_value (b : Nat) (hb : Finite64 b) : asDouble (realLeaf b) = some b ∧ isUndefined (realLeaf b) = false := by
  obtain ⟨hrun, hk, hval⟩ := readBack_run b hb
  unfold realLeaf
  revert hk hval hrun
  generalize (readBack b).bits = bits
  cases hkind : (readBack b).kind with
  | notANumber => intro _ hk; exact absurd rfl hk
  | real => intro _ _ hval; simp only at hval; subst hval; exact ⟨rfl, rfl⟩
  | natural => intro _ _ hval; simp only at hval; subst hval; exact ⟨rfl, rfl⟩
  | integer =>
    intro hrun _ hval
    simp only at hval
    refine ⟨?_, rfl⟩
    -- an Integer result carries a two's-complement pattern at or above 2^63
    have hge : 2 ^ 63 ≤ bits := by
      exact (strToNum_integer _ _ _ _ hrun rfl).1
    simp only [asDouble, show ¬ (bits < 2 ^ 63) by omega, if_false, hval]


/-- The number formatter prints a finite double, at precision 17, as the reference `%.17g` text (what C10's
`format_eq_spec` proves of `NumberToString`). -/
structure FmtReal17 (f : Fmt) : Prop where
  real17 : ∀ b, Finite64 b → f.real b 17 = text17 b

mutual
/-- A tree whose integers fit 64 bits and whose reals are finite. -/
def NumTree : JVal → Prop
  | .real b => Finite64 b
  | .nat n => n < 2 ^ 64
  | .int b => b < 2 ^ 64
  | .arr xs => NumTreeList xs
  | .obj ms => NumTreeMembers ms
  | .ptr t => NumTree t
  | _ => True
def NumTreeList : List JVal → Prop
  | [] => True
  | v :: rest => NumTree v ∧ NumTreeList rest
def NumTreeMembers : List (List Nat × JVal) → Prop
  | [] => True
  | (_, v) :: rest => NumTree v ∧ NumTreeMembers rest
end

mutual
/-- The document a tree is printed as (no whitespace; Undefined members omitted, pointers looked through). -/
def toDocR (f : Fmt) : JVal → JDoc
  | .null => .null
  | .tru => .tru
  | .fals => .fals
  | .nat n => .num (f.nat n) .natural n
  | .int b => if b < 2 ^ 63 then .num (f.int b) .natural b else .num (f.int b) .integer b
  | .real b => .num (f.real b 17) (kindOf (readBack b).kind) (readBack b).bits
  | .str s => .str (escapeJson s) s
  | .arr xs => .arr [] (toItemsR f xs)
  | .obj ms => .obj [] (toMembersR f ms)
  | .ptr t => toDocR f t
  | .undef => .null
def toItemsR (f : Fmt) : List JVal → List (Ws × JDoc × Ws)
  | [] => []
  | v :: rest => if isUndefined v then toItemsR f rest else ([], toDocR f v, []) :: toItemsR f rest
def toMembersR (f : Fmt) : List (List Nat × JVal) → List (Ws × List Nat × List Nat × Ws × Ws × JDoc × Ws)
  | [] => []
  | (k, v) :: rest =>
    if isUndefined v then toMembersR f rest else ([], escapeJson k, k, [], [], toDocR f v, []) :: toMembersR f rest
end

mutual
theorem toDocR_print (f : Fmt) : ∀ (v : JVal), NumTree v → isUndefined v = false →
    (toDocR f v).print = specValue f 17 v
  | .null, _, _ => by simp [toDocR, JDoc.print, specValue, strNull]
  | .tru, _, _ => by simp [toDocR, JDoc.print, specValue, strTrue]
  | .fals, _, _ => by simp [toDocR, JDoc.print, specValue, strFalse]
  | .nat n, _, _ => by simp [toDocR, JDoc.print, specValue]
  | .int b, _, _ => by simp only [toDocR]; split <;> simp [JDoc.print, specValue]
  | .real b, _, _ => by simp [toDocR, JDoc.print, specValue]
  | .str s, _, _ => by simp [toDocR, JDoc.print, specValue]
  | .arr xs, h, _ => by
    simp only [toDocR, JDoc.print, specValue, List.append_nil]
    rw [toItemsR_print f xs (by simpa [NumTree] using h) true]
  | .obj ms, h, _ => by
    simp only [toDocR, JDoc.print, specValue, List.append_nil]
    rw [toMembersR_print f ms (by simpa [NumTree] using h) true]
  | .ptr t, h, hu => by
    simp only [toDocR, specValue]
    exact toDocR_print f t (by simpa [NumTree] using h) (by simpa [isUndefined] using hu)
  | .undef, _, hu => by simp [isUndefined] at hu
theorem toItemsR_print (f : Fmt) : ∀ (xs : List JVal), NumTreeList xs → ∀ first,
    printItems (toItemsR f xs) first = specItems f 17 xs first
  | [], _, first => by simp [toItemsR, printItems, specItems]
  | v :: rest, h, first => by
    simp only [NumTreeList] at h
    simp only [toItemsR, specItems]
    split
    · exact toItemsR_print f rest h.2 first
    · rename_i hu
      simp only [printItems, List.append_nil]
      rw [toDocR_print f v h.1 (by simpa using hu), toItemsR_print f rest h.2 false]
theorem toMembersR_print (f : Fmt) : ∀ (ms : List (List Nat × JVal)), NumTreeMembers ms → ∀ first,
    printMembers (toMembersR f ms) first = specMembers f 17 ms first
  | [], _, first => by simp [toMembersR, printMembers, specMembers]
  | (k, v) :: rest, h, first => by
    simp only [NumTreeMembers] at h
    simp only [toMembersR, specMembers]
    split
    · exact toMembersR_print f rest h.2 first
    · rename_i hu
      simp only [printMembers, List.append_nil]
      rw [toDocR_print f v h.1 (by simpa using hu), toMembersR_print f rest h.2 false]
      cases first <;> simp
end


mutual
/-- What reading the text back gives: pointers looked through, Undefined members dropped, a
non-negative signed number comes back as the same number of the unsigned kind. -/
def normR : JVal → JVal
  | .ptr t => normR t
  | .int b => if b < 2 ^ 63 then .nat b else .int b
  | .arr xs => .arr (normRList xs)
  | .obj ms => .obj (normRMembers ms)
  | .null => .null
  | .tru => .tru
  | .fals => .fals
  | .nat n => .nat n
  | .real b => realLeaf b
  | .str s => .str s
  | .undef => .undef
def normRList : List JVal → List JVal
  | [] => []
  | v :: rest => if isUndefined v then normRList rest else normR v :: normRList rest
def normRMembers : List (List Nat × JVal) → List (List Nat × JVal)
  | [] => []
  | (k, v) :: rest => if isUndefined v then normRMembers rest else (k, normR v) :: normRMembers rest
end

theorem normRMembers_keys (ms : List (List Nat × JVal)) (q : List Nat × JVal) (hq : q ∈ normRMembers ms) :
    ∃ p ∈ ms, isUndefined p.2 = false ∧ p.1 = q.1 := by
  induction ms with
  | nil => simp [normRMembers] at hq
  | cons kv rest ih =>
    obtain ⟨k, v⟩ := kv
    simp only [normRMembers] at hq
    split at hq
    · obtain ⟨p, hp, h1, h2⟩ := ih hq
      exact ⟨p, by simp [hp], h1, h2⟩
    · rename_i hu
      simp only [List.mem_cons] at hq
      rcases hq with rfl | hq
      · exact ⟨(k, v), by simp, by simpa using hu, rfl⟩
      · obtain ⟨p, hp, h1, h2⟩ := ih hq
        exact ⟨p, by simp [hp], h1, h2⟩

mutual
theorem toDocR_denote (f : Fmt) : ∀ (v : JVal), NumTree v → DistinctKeys v → isUndefined v = false →
    (toDocR f v).denote = normR v
  | .null, _, _, _ => by simp [toDocR, JDoc.denote, normR]
  | .tru, _, _, _ => by simp [toDocR, JDoc.denote, normR]
  | .fals, _, _, _ => by simp [toDocR, JDoc.denote, normR]
  | .nat n, _, _, _ => by simp [toDocR, JDoc.denote, normR]
  | .int b, _, _, _ => by simp only [toDocR, normR]; split <;> simp [JDoc.denote]
  | .real b, _, _, _ => by simp only [toDocR, normR]; exact realLeaf_denote b _
  | .str s, _, _, _ => by simp [toDocR, JDoc.denote, normR]
  | .arr xs, h, hd, _ => by
    simp only [toDocR, JDoc.denote, normR]
    rw [toItemsR_denote f xs (by simpa [NumTree] using h) (by simpa [DistinctKeys] using hd)]
  | .obj ms, h, hd, _ => by
    simp only [toDocR, JDoc.denote, normR]
    rw [toMembersR_denote f ms [] (by simpa [NumTree] using h) (by simpa [DistinctKeys] using hd) (by simp)]
    simp
  | .ptr t, h, hd, hu => by
    simp only [toDocR, normR]
    exact toDocR_denote f t (by simpa [NumTree] using h) (by simpa [DistinctKeys] using hd) (by simpa [isUndefined] using hu)
  | .undef, _, _, hu => by simp [isUndefined] at hu
theorem toItemsR_denote (f : Fmt) : ∀ (xs : List JVal), NumTreeList xs → DKList xs →
    denoteItems (toItemsR f xs) = normRList xs
  | [], _, _ => by simp [toItemsR, denoteItems, normRList]
  | v :: rest, h, hd => by
    simp only [NumTreeList] at h
    simp only [DKList] at hd
    simp only [toItemsR, normRList]
    split
    · exact toItemsR_denote f rest h.2 hd.2
    · rename_i hu
      simp only [denoteItems]
      rw [toDocR_denote f v h.1 hd.1 (by simpa using hu), toItemsR_denote f rest h.2 hd.2]
theorem toMembersR_denote (f : Fmt) : ∀ (ms : List (List Nat × JVal)) (acc : List (List Nat × JVal)),
    NumTreeMembers ms → DKMembers ms →
    (∀ p ∈ acc, ∀ q ∈ ms, isUndefined q.2 = false → q.1 ≠ p.1) →
    denoteMembers (toMembersR f ms) acc = acc ++ normRMembers ms
  | [], acc, _, _, _ => by simp [toMembersR, denoteMembers, normRMembers]
  | (k, v) :: rest, acc, h, hd, hacc => by
    simp only [NumTreeMembers] at h
    simp only [DKMembers] at hd
    simp only [toMembersR, normRMembers]
    split
    · exact toMembersR_denote f rest acc h.2 hd.2.2 (fun p hp q hq hu => hacc p hp q (by simp [hq]) hu)
    · rename_i hu
      have hu' : isUndefined v = false := by simpa using hu
      simp only [denoteMembers]
      rw [toDocR_denote f v h.1 hd.1 hu']
      rw [objInsert_append_new acc k (normR v) (fun p hp => by
        have := hacc p hp (k, v) (by simp) hu'
        exact fun e => this e.symm)]
      rw [toMembersR_denote f rest (acc ++ [(k, normR v)]) h.2 hd.2.2 (by
        intro p hp q hq huq
        simp only [List.mem_append, List.mem_singleton] at hp
        rcases hp with hp | rfl
        · exact hacc p hp q (by simp [hq]) huq
        · exact hd.2.1 q hq huq)]
      simp
end


mutual
theorem toDocR_wf (w : Nat) (f : Fmt) (hf : FmtDecimal f) (hr : FmtReal17 f) : ∀ (v : JVal), NumTree v → WF (jsonDeps w) (toDocR f v)
  | .null, _ => by simp [toDocR, WF]
  | .tru, _ => by simp [toDocR, WF]
  | .fals, _ => by simp [toDocR, WF]
  | .nat n, h => by
    simp only [toDocR, WF]
    rw [hf.nat n (by simpa [NumTree] using h)]
    exact numSpec_digits_natural w n (by simpa [NumTree] using h)
  | .int b, h => by
    have hb : b < 2 ^ 64 := by simpa [NumTree] using h
    simp only [toDocR]
    split
    · rename_i hlt
      simp only [WF]
      rw [hf.intNonNeg b hlt]
      exact numSpec_digits_natural w b hb
    · rename_i hge
      simp only [WF]
      rw [hf.intNeg b (by omega) hb]
      exact numSpec_digits_negative w b (by omega) hb
  | .real b, h => by
    have hb : Finite64 b := by simpa [NumTree] using h
    simp only [toDocR, WF]
    rw [hr.real17 b hb]
    exact numSpec_text17 w b hb
  | .str s, _ => by simp only [toDocR, WF]; exact strSpec_escaped w s
  | .arr xs, h => by
    simp only [toDocR, WF]
    exact ⟨by simp [AllWs], toItemsR_wf w f hf hr xs (by simpa [NumTree] using h)⟩
  | .obj ms, h => by
    simp only [toDocR, WF]
    exact ⟨by simp [AllWs], toMembersR_wf w f hf hr ms (by simpa [NumTree] using h)⟩
  | .ptr t, h => by simp only [toDocR]; exact toDocR_wf w f hf hr t (by simpa [NumTree] using h)
  | .undef, _ => by simp [toDocR, WF]
theorem toItemsR_wf (w : Nat) (f : Fmt) (hf : FmtDecimal f) (hr : FmtReal17 f) : ∀ (xs : List JVal), NumTreeList xs →
    WFItems (jsonDeps w) (toItemsR f xs)
  | [], _ => by simp [toItemsR, WFItems]
  | v :: rest, h => by
    simp only [NumTreeList] at h
    simp only [toItemsR]
    split
    · exact toItemsR_wf w f hf hr rest h.2
    · simp only [WFItems]
      exact ⟨by simp [AllWs], toDocR_wf w f hf hr v h.1, by simp [AllWs], toItemsR_wf w f hf hr rest h.2⟩
theorem toMembersR_wf (w : Nat) (f : Fmt) (hf : FmtDecimal f) (hr : FmtReal17 f) : ∀ (ms : List (List Nat × JVal)), NumTreeMembers ms →
    WFMembers (jsonDeps w) (toMembersR f ms)
  | [], _ => by simp [toMembersR, WFMembers]
  | (k, v) :: rest, h => by
    simp only [NumTreeMembers] at h
    simp only [toMembersR]
    split
    · exact toMembersR_wf w f hf hr rest h.2
    · simp only [WFMembers]
      exact ⟨by simp [AllWs], strSpec_escaped w k, by simp [AllWs], by simp [AllWs], toDocR_wf w f hf hr v h.1,
        by simp [AllWs], toMembersR_wf w f hf hr rest h.2⟩
end


/-- **Round trip (C08) for every tree with finite numbers, precision 17.**  Any nesting, Undefined and pointer
members anywhere, strings over all code units, 64-bit integers and finite doubles (subnormals, both zeros, values
printed with an exponent), live keys distinct, any character width: parsing what `Stringify(17)` wrote returns
`normR v` — pointers looked through, Undefined members dropped, non-negative signed numbers read back unsigned, and
each real read back as the number `StringToNumber` finds in its `%.17g` text (`realLeaf`), which has the same value
(`realLeaf_value`). -/
theorem roundtrip_real (w : Nat) (f : Fmt) (hf : FmtDecimal f) (hr : FmtReal17 f) (v : JVal)
    (hv : NumTree v) (hd : DistinctKeys v) (hu : isUndefined v = false)
    (hsz : (strValue f 17 v []).length < 2 ^ 32) :
    parse (jsonDeps w) (strValue f 17 v []).toArray = .ok (normR v) := by
  have e1 : strValue f 17 v [] = (toDocR f v).print := by
    rw [strValue_eq, toDocR_print f v hv hu]; simp
  have := parse_print (jsonDeps w) (jsonDeps_safe w) (toDocR f v) (toDocR_wf w f hf hr v hv) [] [] (by simp [AllWs]) (by simp [AllWs])
    (by simpa [e1] using hsz)
  rw [toDocR_denote f v hv hd hu] at this
  simpa [e1] using this

/-! ### `normR` = `normI`, then every real replaced by the number read back -/

mutual
def relabel : JVal → JVal
  | .real b => realLeaf b
  | .arr xs => .arr (relabelList xs)
  | .obj ms => .obj (relabelMembers ms)
  | .ptr t => .ptr (relabel t)
  | .null => .null
  | .tru => .tru
  | .fals => .fals
  | .nat n => .nat n
  | .int b => .int b
  | .str s => .str s
  | .undef => .undef
def relabelList : List JVal → List JVal
  | [] => []
  | v :: rest => relabel v :: relabelList rest
def relabelMembers : List (List Nat × JVal) → List (List Nat × JVal)
  | [] => []
  | (k, v) :: rest => (k, relabel v) :: relabelMembers rest
end

mutual
theorem normR_eq_relabel : ∀ (v : JVal), normR v = relabel (normI v)
  | .null => by simp [normR, normI, relabel]
  | .tru => by simp [normR, normI, relabel]
  | .fals => by simp [normR, normI, relabel]
  | .nat n => by simp [normR, normI, relabel]
  | .int b => by simp only [normR, normI]; split <;> simp [relabel]
  | .real b => by simp [normR, normI, relabel]
  | .str s => by simp [normR, normI, relabel]
  | .arr xs => by simp only [normR, normI, relabel]; rw [normRList_eq xs]
  | .obj ms => by simp only [normR, normI, relabel]; rw [normRMembers_eq ms]
  | .ptr t => by simp only [normR, normI]; exact normR_eq_relabel t
  | .undef => by simp [normR, normI, relabel]
theorem normRList_eq : ∀ (xs : List JVal), normRList xs = relabelList (normIList xs)
  | [] => by simp [normRList, normIList, relabelList]
  | v :: rest => by
    simp only [normRList, normIList]
    split
    · exact normRList_eq rest
    · simp only [relabelList]; rw [normR_eq_relabel v, normRList_eq rest]
theorem normRMembers_eq : ∀ (ms : List (List Nat × JVal)), normRMembers ms = relabelMembers (normIMembers ms)
  | [] => by simp [normRMembers, normIMembers, relabelMembers]
  | (k, v) :: rest => by
    simp only [normRMembers, normIMembers]
    split
    · exact normRMembers_eq rest
    · simp only [relabelMembers]; rw [normR_eq_relabel v, normRMembers_eq rest]
end

/-! ### the linked formatter -/

/-- the serializer's number formatter as linked: the `Digit::NumberToString` model, reals in the Default format -/
def linkedFmt : Fmt :=
  numFmt (fun b p => match Qentem.NumToStr.realToString Qentem.NumToStr.f64 [] b p Qentem.Generated.NumToStr.fmtDefault with
    | .ok l => l | .error _ => [])

theorem linkedFmt_real17 : FmtReal17 linkedFmt := by
  refine ⟨fun b _ => ?_⟩
  have := Qentem.Props.C10.format_eq_spec_double [] b 17 Qentem.Generated.NumToStr.fmtDefault (by decide) (by decide)
  have hf : Qentem.Props.C10.specFmt Qentem.Generated.NumToStr.fmtDefault = .default := by decide
  rw [hf] at this
  show (match Qentem.NumToStr.realToString Qentem.NumToStr.f64 [] b 17 Qentem.Generated.NumToStr.fmtDefault with
    | .ok l => l | .error _ => []) = text17 b
  rw [this]; simp [text17]

/-- **the round trip for the serializer, formatter, parser and number reader as they are linked** -/
theorem roundtrip_linked (w : Nat) (v : JVal) (hv : NumTree v) (hd : DistinctKeys v) (hu : isUndefined v = false)
    (hsz : (strValue linkedFmt 17 v []).length < 2 ^ 32) :
    parse (jsonDeps w) (strValue linkedFmt 17 v []).toArray = .ok (normR v) :=
  roundtrip_real w linkedFmt (numFmt_decimal _) linkedFmt_real17 v hv hd hu hsz

end Qentem.Json
