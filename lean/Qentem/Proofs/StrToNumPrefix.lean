import Qentem.Proofs.StrToNumPaths
/-! C09 helper lemmas for the JSON area: a run of digits (optionally after `-`) that reaches
`end_offset` is either rejected or consumed completely. -/
namespace Qentem.StrToNum

theorem finishReal_digits_to_end (c : List Nat) (e : Nat) (neg : Bool) (num off tmp start : Nat) (fo hasDot : Bool)
    (dotOff : Nat) (hd : digitsOn c e off e) (ho : off ≤ e) :
    ∃ r, finishReal c e neg num off tmp start fo hasDot dotOff = some r ∧ r.offset = e := by
  have hrun := tailLoop_on c e num e (e - off) off hasDot dotOff hd ho (by omega)
  rw [show e - off - (e - off) = 0 by omega] at hrun
  rw [finishReal, hrun]
  simp only [tailLoop]
  obtain ⟨r, h1, h2, _⟩ := realResult_some neg num _ _ _ e
  exact ⟨r, h1, h2⟩

/-- after the windowed scan of an all-digit text that reaches the end -/
theorem afterScan_digits_to_end (c : List Nat) (e : Nat) (neg : Bool) (start : Nat) (fo : Bool) (s : Scan)
    (hd : digitsOn c e s.off e) (hW : s.off ≤ e) :
    ∃ r, afterScan c e neg start fo s = some r ∧ r.offset = e := by
  have fin : ∀ n o t, digitsOn c e o e → o ≤ e →
      ∃ r, finishReal c e neg n o t start fo s.hasDot s.dotOff = some r ∧ r.offset = e :=
    fun n o t h1 h2 => finishReal_digits_to_end c e neg n o t start fo _ _ h1 h2
  -- every way `twentieth` can end leads to offset `e`
  have key : ∀ n o t ir, twentieth c e s.num s.off s.isReal = some (n, o, t, ir) →
      (ir = true ∧ digitsOn c e o e ∧ o ≤ e) ∨ (o = e) →
      ∃ r, afterScan c e neg start fo s = some r ∧ r.offset = e := by
    intro n o t ir ht hcase
    unfold afterScan
    rw [ht]
    simp only
    rcases hcase with ⟨hir, h1, h2⟩ | ho
    · subst hir
      simp only [Bool.not_true, Bool.false_eq_true, false_and, if_false]
      exact fin n o t h1 h2
    · subst ho
      split
      · exact ⟨_, rfl, rfl⟩
      · split
        · exact ⟨_, rfl, rfl⟩
        · split
          · exact ⟨_, rfl, rfl⟩
          · exact fin n o t (fun k h1 h2 => by omega) (Nat.le_refl _)
  cases hir : s.isReal with
  | true =>
    refine key s.num s.off s.off true ?_ (Or.inl ⟨rfl, hd, hW⟩)
    unfold twentieth; simp [hir]
  | false =>
    rcases Nat.lt_or_ge s.off e with hlt | hge
    · obtain ⟨d, hr, hdig⟩ := hd s.off (Nat.le_refl _) hlt
      by_cases hov : s.num > 0x1999999999999999 ∨ (s.num = 0x1999999999999999 ∧ d > 53)
      · refine key s.num s.off s.off true ?_ (Or.inl ⟨rfl, hd, hW⟩)
        unfold twentieth
        simp only [hir, Bool.not_false, true_and, hlt, if_true, hr, isDigit_not_dotOrE hdig, Bool.false_eq_true, if_false,
          hdig, hov]
      · rcases Nat.lt_or_ge (s.off + 1) e with h1 | h1
        · obtain ⟨d2, hr2, hd2⟩ := hd (s.off + 1) (by omega) h1
          refine key (pushDigit s.num d) (s.off + 1) (s.off + 1) true ?_
            (Or.inl ⟨rfl, digitsOn_mono hd (by omega), by omega⟩)
          unfold twentieth
          simp only [hir, Bool.not_false, true_and, hlt, if_true, hr, isDigit_not_dotOrE hdig, Bool.false_eq_true,
            if_false, hdig, hov, h1, hr2, hd2, Bool.or_true]
        · refine key (pushDigit s.num d) (s.off + 1) (s.off + 1) false ?_ (Or.inr (by omega))
          unfold twentieth
          simp only [hir, Bool.not_false, true_and, hlt, if_true, hr, isDigit_not_dotOrE hdig, Bool.false_eq_true,
            if_false, hdig, hov, show ¬ (s.off + 1 < e) by omega]
    · refine key s.num s.off s.off false ?_ (Or.inr (by omega))
      unfold twentieth
      simp [hir, show ¬ (s.off < e) by omega]

/-- `d₁ digits…` up to `end_offset`, `d₁ ≠ 0`: some result whose offset is `end_offset`
(Natural / Integer when it fits, otherwise the real path, possibly NotANumber when out of range) -/
theorem afterSign_digits_to_end (c : List Nat) (e : Nat) (neg : Bool) (off d1 : Nat) (he : e < 2 ^ 32)
    (h0 : rd c e off = some d1) (h1 : isNonZeroDigit d1 = true) (hd : digitsOn c e (off + 1) e) :
    ∃ r, afterSign c e neg off = some r ∧ r.offset = e := by
  have hoff := rd_lt h0
  obtain ⟨hW1, hW2⟩ := windowEnd_bounds e off he hoff
  rw [afterSign]
  simp only [hoff, if_true, h0, h1]
  generalize windowEnd e off = W at hW1 hW2 ⊢
  clear he
  have hscan : ∃ num', iter1 c e W (d1 - 48) (off + 1) d1 false 0 false = some (.inr ⟨num', W, false, 0, false⟩) := by
    rw [iter1]
    simp only [Bool.false_eq_true, if_false]
    rcases Nat.lt_or_ge (off + 1) e with h | h
    · simp only [h, if_true]
      obtain ⟨num', d', hs, hd'⟩ := scanDigits_on c e e (W - (off + 1)) (off + 1) (d1 - 48) d1 hd (by omega)
      have hne : d' ≠ 46 := by
        rcases hd' with ⟨_, h⟩ | h
        · rw [h]; exact isDigit_ne_dot (isNonZeroDigit_isDigit h1)
        · exact isDigit_ne_dot h
      rw [hs]; simp only [hne, if_false]
      exact ⟨num', by congr 3; omega⟩
    · have hWo : W = off + 1 := by omega
      subst hWo
      simp only [show ¬ (off + 1 < e) by omega, if_false]
      exact ⟨_, rfl⟩
  obtain ⟨num', hs⟩ := hscan
  simp only [hs, thenScan]
  exact afterScan_digits_to_end c e neg off false ⟨num', W, false, 0, false⟩
    (digitsOn_mono hd (show off + 1 ≤ W by omega)) hW2

end Qentem.StrToNum

namespace Qentem.StrToNum

theorem digitsOn_of_unitsAt (c : List Nat) (e : Nat) : ∀ (l : List Nat) (off : Nat), AllDigits l → unitsAt c e off l →
    digitsOn c e off (off + l.length)
  | [], off, _, _ => fun k h1 h2 => by simp at h2; omega
  | x :: xs, off, hd, hu => by
    intro k h1 h2
    by_cases hk : k = off
    · subst hk; exact ⟨x, hu.1, hd x (by simp)⟩
    · exact digitsOn_of_unitsAt c e xs (off + 1) (fun y hy => hd y (by simp [hy])) hu.2 k (by omega)
        (by simp at h2; omega)

end Qentem.StrToNum
