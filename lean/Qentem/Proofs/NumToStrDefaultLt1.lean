import Qentem.Proofs.NumToStrFixedLt1
/-! C10 helper, Default format below one: `defaultFraction_lt1`, `formatDefault_lt1` (model), `firstScale_eq`,
`generalBody_lt1` (reference), `frac_bounds`, `default_lt1_64`, and `default_finite_64`: **Default (`%.{p}g`) for
every finite non-zero double**. -/
set_option linter.unusedSimpArgs false
set_option linter.unusedVariables false
namespace Qentem.Proofs.NumToStr
open Qentem.NumToStr Qentem.Generated.NumToStr Qentem

/-! ### `formatStringNumberDefault` on the run of a value below one -/

/-- `0.` + `x - 1` zeros + the digits of `T`; the bare numeral when `x = 0` -/
def lowText (T x : Nat) : List Nat := if x = 0 then D T else 48 :: 46 :: (List.replicate (x - 1) 48 ++ D T)

/-- significand `T` with the point after its first digit, then `e-XX` -/
def sciNeg (T X : Nat) : List Nat :=
  dotAfterFirst (D T) ++ [101, 45] ++ (if X < 10 then [48] else []) ++ D X

theorem insertPowerOfTen_neg (s : List Nat) {X : Nat} (hX : X < 2 ^ 32) :
    insertPowerOfTen s X false = .ok (s ++ [101, 45] ++ (if X < 10 then [48] else []) ++ D X) := by
  unfold insertPowerOfTen
  simp only [Ch.e, Ch.negative, Bool.false_eq_true, if_false, Ch.zero]
  by_cases h10 : X < 10
  · simp only [h10, if_true]
    rw [intToString_unsigned _ (Or.inr (Or.inr (Or.inl rfl))) (by simpa using hX)]
  · simp only [h10, if_false]
    rw [intToString_unsigned _ (Or.inr (Or.inr (Or.inl rfl))) (by simpa using hX)]
    simp

/-- the layout of a pure fraction in the Default format, after rounding: kept digits `T` at positions `k…`,
`diff` leading fractional zeros, carry flag `pi` -/
theorem defaultFraction_lt1 (s t' : List Nat) (idx k nl fl T : Nat) (pi : Bool)
    (hsk : skipWhile Ch.zero (s ++ t').length (s ++ t') idx = s.length + k) (hdrop : t'.drop k = Rl T)
    (htl : t'.length = nl) (hk : k < nl) (hnl : nl ≤ fl) (hT0 : 0 < T) (hT10 : T % 10 ≠ 0) (hfl : fl < 2 ^ 31) :
    (do
      let b ← defaultFraction s.length (s ++ t') idx 0 nl fl pi
      let s_1 ← finishNumber s.length b.1 b.2.1
      if b.2.2 ≠ 0 then do
        let s_2 ← insertAt s.length s_1 Ch.dot (s.length + 1)
        insertPowerOfTen s_2 b.2.2 false
      else pure s_1) =
    .ok (s ++ (if fl - nl + (if pi then 0 else 1) ≤ 4 then lowText T (fl - nl + (if pi then 0 else 1))
               else sciNeg T (fl - nl + (if pi then 0 else 1)))) := by
  have hdiff : (if nl < fl then fl - nl else 0) = fl - nl := by split <;> omega
  unfold defaultFraction
  rw [if_pos (by omega), hsk]
  simp only [hnl, if_true, hdiff]
  have hfinish : ∀ zs : List Nat, finishNumber s.length (s ++ t' ++ zs ++ [Ch.dot, Ch.zero]) (s.length + k) =
      .ok (s ++ 48 :: 46 :: (zs.reverse ++ D T)) := by
    intro zs
    rw [show s ++ t' ++ zs ++ [Ch.dot, Ch.zero] = s ++ (t' ++ zs ++ [46, 48]) by simp [Ch.dot, Ch.zero],
      finishNumber_drop s _ k (by simp [htl]; omega), List.append_assoc,
      List.drop_append_of_le_length (by omega), hdrop]
    simp [Rl, List.reverse_append]
  have hfin0 : finishNumber s.length (s ++ t') (s.length + k) = .ok (s ++ D T) := by
    rw [finishNumber_drop s _ k (by omega), hdrop]; simp [Rl]
  cases pi
  · simp only [Bool.not_false, if_true, Bool.false_eq_true, if_false]
    by_cases h4 : fl - nl < 4
    · rw [if_pos h4, zerosShort_eq (by omega), ok_bind, pure_bind]
      simp only [ne_eq, not_true_eq_false, if_false]
      rw [hfinish, ok_bind, if_pos (by omega)]
      simp [lowText, pure, Except.pure]
    · rw [if_neg h4, pure_bind]
      simp only []
      rw [hfin0, ok_bind, if_pos (by omega), insertAt_dot, ok_bind, insertPowerOfTen_neg _ (by omega),
        if_neg (show ¬ (fl - nl + 1 ≤ 4) by omega)]
      simp [sciNeg, List.append_assoc]
  · simp only [Bool.not_true, Bool.false_eq_true, if_false, if_true, Nat.add_zero]
    by_cases h5 : fl - nl ≠ 0 ∧ fl - nl < 5
    · rw [if_pos h5, zerosShort_eq (by omega), ok_bind, pure_bind]
      simp only [ne_eq, not_true_eq_false, if_false]
      rw [hfinish, ok_bind, if_pos (by omega)]
      simp [lowText, pure, Except.pure]; omega
    · rw [if_neg h5, pure_bind]
      simp only []
      rw [hfin0, ok_bind]
      by_cases h0 : fl - nl = 0
      · rw [h0]
        simp [lowText, pure, Except.pure]
      · rw [if_pos h0, insertAt_dot, ok_bind, insertPowerOfTen_neg _ (by omega), if_neg (show ¬ (fl - nl ≤ 4) by omega)]
        simp [sciNeg, List.append_assoc]


theorem Rl_head_ne_zero {T : Nat} (hT10 : T % 10 ≠ 0) (s : List Nat) (t' : List Nat) (k : Nat) (hdrop : t'.drop k = Rl T) :
    (s ++ t')[s.length + k]? ≠ some Ch.zero := by
  rw [getElem?_append_len]
  have h0 : t'[k]? = (t'.drop k)[0]? := by simp
  rw [h0, hdrop]
  by_cases hx : T < 10
  · rw [Rl_lt10 hx]; simp [Ch.zero]; omega
  · rw [Rl_step (by omega)]; simp [Ch.zero]; omega

/-- **`formatStringNumberDefault` on the run of a value below one** -/
theorem formatDefault_lt1 (s : List Nat) {b P dg fl : Nat} (ru : Bool) (hb : 0 < b) (hP : 0 < P)
    (hL : (D b).length ≤ fl) (hb10 : (D b).length ≤ P → b % 10 ≠ 0) (hfl : fl < 2 ^ 31) :
    (if (D b).length ≤ P then
      formatDefault s.length (s ++ Rl b) P dg fl false ru =
        .ok (s ++ (if fl - (D b).length + 1 ≤ 4 then lowText b (fl - (D b).length + 1)
                   else sciNeg b (fl - (D b).length + 1)))
    else
      ∃ T z pi, 0 < T ∧ T % 10 ≠ 0 ∧ keptUp b ((D b).length - P - 1) ru = T * 10 ^ z ∧
        (pi = true ↔ keptUp b ((D b).length - P - 1) ru = 10 ^ P) ∧
        (pi = false → keptUp b ((D b).length - P - 1) ru < 10 ^ P) ∧
        formatDefault s.length (s ++ Rl b) P dg fl false ru =
          .ok (s ++ (if fl - (D b).length + (if pi then 0 else 1) ≤ 4 then
                       lowText T (fl - (D b).length + (if pi then 0 else 1))
                     else sciNeg T (fl - (D b).length + (if pi then 0 else 1))))) := by
  have hLpos : 0 < (D b).length := List.length_pos_iff.mpr (D_ne_nil b)
  have h3 : csub 3 (s ++ Rl b).length s.length = .ok (D b).length := by simp [csub, pure, Except.pure]
  by_cases hLP : (D b).length ≤ P
  · rw [if_pos hLP]
    unfold formatDefault
    rw [h3, ok_bind]
    unfold defaultRound
    rw [if_neg (by omega), pure_bind]
    simp only []
    have hget := Rl_head_ne_zero (hb10 hLP) s (Rl b) 0 (by simp)
    have hsk := skipWhile_stop Ch.zero (s ++ Rl b) (s.length + 0) hget (s ++ Rl b).length
    rw [Nat.add_zero] at hsk
    have := defaultFraction_lt1 s (Rl b) s.length 0 (D b).length fl b false (by rw [hsk]; rfl) (by simp) (Rl_length b)
      hLpos hL hb (hb10 hLP) hfl
    simp only [Bool.false_eq_true, if_false] at this
    exact this
  · rw [if_neg hLP]
    have hLP' : P < (D b).length := by omega
    obtain ⟨r, t', k, T, hr, hr1, hskip, hik, hkL, htl, hdrop, hT0, hT10, hkept, hpi⟩ :=
      round_skip s (i := (D b).length - P - 1) hb (by omega) ru
    rw [hr1] at hskip
    obtain ⟨r', T', z', hr', _, _, _, _, hpiff, hpilt⟩ := round_finish s (i := (D b).length - P - 1) hb (by omega) ru
    rw [hr] at hr'
    injection hr' with hrr
    subst hrr
    rw [show (D b).length - ((D b).length - P - 1 + 1) = P by omega] at hpiff hpilt
    refine ⟨T, _, r.2.2, hT0, hT10, hkept, hpiff, hpilt, ?_⟩
    unfold formatDefault
    rw [h3, ok_bind]
    unfold defaultRound
    rw [if_pos hLP', show s.length + ((D b).length - P) - 1 = s.length + ((D b).length - P - 1) by omega, hr, ok_bind]
    simp only [Bool.false_eq_true, if_false, pure_bind]
    rw [hr1]
    exact defaultFraction_lt1 s t' r.2.1 k (D b).length fl T r.2.2 hskip hdrop htl hkL hL hT0 hT10 hfl

theorem firstScale_eq {num den : Nat} : ∀ (fuel start K : Nat), start ≤ K → K - start < fuel → den ≤ num * 10 ^ K →
    (∀ k, start ≤ k → k < K → ¬ den ≤ num * 10 ^ k) → FmtSpec.firstScale num den fuel start = K := by
  intro fuel
  induction fuel with
  | zero => intro start K _ h; omega
  | succ n ih =>
    intro start K h1 h2 h3 h4
    rw [FmtSpec.firstScale]
    by_cases he : start = K
    · subst he; rw [if_pos h3]
    · rw [if_neg (h4 start (Nat.le_refl _) (by omega))]
      exact ih (start + 1) K (by omega) (by omega) h3 (fun k hk1 hk2 => h4 k (by omega) hk2)

theorem expText_neg (X : Nat) (hX : 0 < X) :
    FmtSpec.expText (-(X : Int)) = [101, 45] ++ (if X < 10 then [48] else []) ++ D X := by
  unfold FmtSpec.expText
  have h0 : (-(X : Int) < 0) := by omega
  simp only [h0, if_true, Int.natAbs_neg, Int.natAbs_natCast, FmtSpec.cE, FmtSpec.cMinus]
  by_cases h10 : X < 10
  · simp [h10, D_lt10 h10, FmtSpec.padLeft, FmtSpec.cZero]
  · have : 2 ≤ (D X).length := by
      have := D_length_gt (b := X) (k := 1) (by omega); omega
    simp [h10, padLeft_full 2 _ this]

/-- `%.{p}g` of a value below one with `df` zeros after the point, in terms of the rounded integer
`K = ⌊v·10^(P+df)⌉` -/
theorem generalBody_lt1 {num den p df : Nat} (hd : 0 < den) (hnum : 0 < num) (hlow : den ≤ num * 10 ^ (df + 1))
    (hhigh : num * 10 ^ df < den) (hdf : df + 1 < 1200) :
    FmtSpec.generalBody num den p =
      (if (if FmtSpec.roundHalfEven (num * 10 ^ ((if p = 0 then 1 else p) + df)) den = 10 ^ (if p = 0 then 1 else p)
            then df else df + 1) ≤ 4 then
        FmtSpec.stripFraction (fixedText
          (if FmtSpec.roundHalfEven (num * 10 ^ ((if p = 0 then 1 else p) + df)) den = 10 ^ (if p = 0 then 1 else p)
            then 10 ^ ((if p = 0 then 1 else p) - 1)
            else FmtSpec.roundHalfEven (num * 10 ^ ((if p = 0 then 1 else p) + df)) den)
          ((if p = 0 then 1 else p) - 1 +
            (if FmtSpec.roundHalfEven (num * 10 ^ ((if p = 0 then 1 else p) + df)) den = 10 ^ (if p = 0 then 1 else p)
              then df else df + 1)))
      else
        FmtSpec.stripFraction (dotAfterFirst (FmtSpec.padLeft (if p = 0 then 1 else p) (D
          (if FmtSpec.roundHalfEven (num * 10 ^ ((if p = 0 then 1 else p) + df)) den = 10 ^ (if p = 0 then 1 else p)
            then 10 ^ ((if p = 0 then 1 else p) - 1)
            else FmtSpec.roundHalfEven (num * 10 ^ ((if p = 0 then 1 else p) + df)) den)))) ++
        FmtSpec.expText (-(((if FmtSpec.roundHalfEven (num * 10 ^ ((if p = 0 then 1 else p) + df)) den =
            10 ^ (if p = 0 then 1 else p) then df else df + 1 : Nat)) : Int))) := by
  generalize hP : (if p = 0 then 1 else p) = P at *
  have hPpos : 0 < P := by rw [← hP]; split <;> omega
  have hnd : num ≠ 0 := by omega
  have h10 : 0 < 10 ^ df := Nat.pow_pos (by decide)
  have hlt : ¬ (den ≤ num) := by
    have : num ≤ num * 10 ^ df := Nat.le_mul_of_pos_right _ h10
    omega
  have hx0 : FmtSpec.floorLog10 num den = - (((df + 1 : Nat)) : Int) := by
    unfold FmtSpec.floorLog10
    rw [if_neg hlt, firstScale_eq 1200 1 (df + 1) (by omega) (by omega) hlow]
    intro k hk1 hk2
    have : num * 10 ^ k ≤ num * 10 ^ df := Nat.mul_le_mul_left _ (Nat.pow_le_pow_right (by decide) (by omega))
    omega
  have hkk : (P : Int) - 1 - (- (((df + 1 : Nat)) : Int)) = ((P + df : Nat) : Int) := by omega
  have hsr : FmtSpec.scaleRound num den ((P : Int) - 1 - (- (((df + 1 : Nat)) : Int))) =
      FmtSpec.roundHalfEven (num * 10 ^ (P + df)) den := by
    rw [hkk]; unfold FmtSpec.scaleRound
    simp only [Int.natCast_nonneg, if_true, Int.toNat_natCast]
  generalize hK : FmtSpec.roundHalfEven (num * 10 ^ (P + df)) den = K at *
  have hsci : FmtSpec.sciDigits num den P =
      (if K = 10 ^ P then (10 ^ (P - 1), - (((df + 1 : Nat)) : Int) + 1) else (K, - (((df + 1 : Nat)) : Int))) := by
    unfold FmtSpec.sciDigits
    simp only [hx0, hsr]
  unfold FmtSpec.generalBody
  simp only [hP, hnd, if_false]
  by_cases hc : K = 10 ^ P
  · simp only [hc, if_true] at hsci ⊢
    by_cases h4 : df ≤ 4
    · have hrange : ((-4 : Int) ≤ (FmtSpec.sciDigits num den P).2 ∧ (FmtSpec.sciDigits num den P).2 < (P : Int)) := by
        rw [hsci]; simp; omega
      rw [if_pos hrange, if_pos h4, hsci]
      simp only []
      have ht : ((P : Int) - 1 - (- (((df + 1 : Nat)) : Int) + 1)).toNat = P - 1 + df := by omega
      rw [ht, fixedBody_eq_text]
      have hdown : FmtSpec.roundHalfEven (num * 10 ^ (P - 1 + df)) den = 10 ^ (P - 1) := by
        apply roundHalfEven_carry_down hd (Nat.pow_pos (by decide))
        · calc num * 10 ^ (P - 1 + df) = 10 ^ (P - 1) * (num * 10 ^ df) := by rw [Nat.pow_add]; ring
            _ < 10 ^ (P - 1) * den := Nat.mul_lt_mul_of_pos_left hhigh (Nat.pow_pos (by decide))
        · rw [Nat.mul_assoc, ← Nat.pow_succ, show (P - 1 + df).succ = P + df by omega, hK, hc, Nat.mul_comm,
            ← Nat.pow_succ]
          congr 1; omega
      rw [hdown]
    · have hrange : ¬ ((-4 : Int) ≤ (FmtSpec.sciDigits num den P).2 ∧ (FmtSpec.sciDigits num den P).2 < (P : Int)) := by
        rw [hsci]; simp; omega
      rw [if_neg hrange, if_neg h4, sciBody_eq]
      simp only [hnd, if_false, hsci]
      have : (- (((df + 1 : Nat)) : Int) + 1) = - ((df : Nat) : Int) := by omega
      rw [this]
  · simp only [hc, if_false] at hsci ⊢
    by_cases h4 : df + 1 ≤ 4
    · have hrange : ((-4 : Int) ≤ (FmtSpec.sciDigits num den P).2 ∧ (FmtSpec.sciDigits num den P).2 < (P : Int)) := by
        rw [hsci]; simp; omega
      rw [if_pos hrange, if_pos h4, hsci]
      simp only []
      rw [hkk, Int.toNat_natCast, fixedBody_eq_text, hK, show P - 1 + (df + 1) = P + df by omega]
    · have hrange : ¬ ((-4 : Int) ≤ (FmtSpec.sciDigits num den P).2 ∧ (FmtSpec.sciDigits num den P).2 < (P : Int)) := by
        rw [hsci]; simp; omega
      rw [if_neg hrange, if_neg h4, sciBody_eq]
      simp only [hnd, if_false, hsci]


/-! ### texts -/

theorem strip_low {T d w : Nat} (hT0 : 0 < T) (hT10 : T % 10 ≠ 0) :
    FmtSpec.stripFraction (fixedText (T * 10 ^ w) (d + (D T).length + w)) = lowText T (d + 1) := by
  have hLpos : 0 < (D T).length := List.length_pos_iff.mpr (D_ne_nil T)
  obtain ⟨hft, hpad⟩ := fixedText_small (d := d) (w := w) hT0 (rfl : d + (D T).length + w = d + (D T).length + w)
  rw [hft]
  obtain ⟨c, hc⟩ : ∃ c, d + (D T).length = c + 1 := ⟨d + (D T).length - 1, by omega⟩
  rw [hc] at hpad ⊢
  have := stripFraction_exact [48] c T w hT10
  rw [show (48 :: 46 :: (Dk (c + 1) T ++ List.replicate w 48) : List Nat) = [48] ++ 46 :: (Dk (c + 1) T ++ List.replicate w 48) by rfl,
    this, hpad]
  simp [lowText]

theorem strip_sci_pad {T z P : Nat} (hT0 : 0 < T) (hT10 : T % 10 ≠ 0) (hlen : P ≤ (D T).length + z) :
    FmtSpec.stripFraction (dotAfterFirst (FmtSpec.padLeft P (D (T * 10 ^ z)))) = dotAfterFirst (D T) := by
  rw [padLeft_full P _ (by rw [D_mul_pow T z hT0]; simp; exact hlen)]
  exact strip_sci T z hT0 hT10

/-- bounds on the value from its digit run: `df = fl - L` zeros follow the point -/
theorem frac_bounds {num den b fl : Nat} (hden : 0 < den) (hb : b = num * 10 ^ fl / den) (hbpos : 0 < b)
    (hL : (D b).length ≤ fl) :
    den ≤ num * 10 ^ (fl - (D b).length + 1) ∧ num * 10 ^ (fl - (D b).length) < den := by
  have hLpos : 0 < (D b).length := List.length_pos_iff.mpr (D_ne_nil b)
  have hge : 10 ^ ((D b).length - 1) ≤ b := by
    by_cases h1 : (D b).length = 1
    · rw [h1]; exact hbpos
    · exact pow_le_of_len (by omega) (by omega)
  have hlt : b < 10 ^ (D b).length := (D_length_le_iff hLpos).mp (Nat.le_refl _)
  have h1 : b * den ≤ num * 10 ^ fl := by rw [hb]; exact Nat.div_mul_le_self _ _
  have h2 : num * 10 ^ fl < (b + 1) * den := by
    rw [hb, Nat.mul_comm _ den]; exact Nat.lt_mul_div_succ _ hden
  constructor
  · have h10 : 0 < 10 ^ ((D b).length - 1) := Nat.pow_pos (by decide)
    apply Nat.le_of_mul_le_mul_right _ h10
    calc den * 10 ^ ((D b).length - 1) = 10 ^ ((D b).length - 1) * den := Nat.mul_comm _ _
      _ ≤ b * den := Nat.mul_le_mul_right _ hge
      _ ≤ num * 10 ^ fl := h1
      _ = num * 10 ^ (fl - (D b).length + 1) * 10 ^ ((D b).length - 1) := by
          rw [Nat.mul_assoc, ← Nat.pow_add, show fl - (D b).length + 1 + ((D b).length - 1) = fl by omega]
  · have h10 : 0 < 10 ^ (D b).length := Nat.pow_pos (by decide)
    apply Nat.lt_of_mul_lt_mul_right (a := 10 ^ (D b).length)
    calc num * 10 ^ (fl - (D b).length) * 10 ^ (D b).length = num * 10 ^ fl := by
          rw [Nat.mul_assoc, ← Nat.pow_add, show fl - (D b).length + (D b).length = fl by omega]
      _ < (b + 1) * den := h2
      _ ≤ 10 ^ (D b).length * den := Nat.mul_le_mul_right _ hlt
      _ = den * 10 ^ (D b).length := Nat.mul_comm _ _


/-- **Default format (`%.{p}g`) for every non-zero double below one** (subnormals included): the fraction block
produces `estimate + P + 1` fractional digits exactly (or the whole finite expansion), the run is rounded half-even
at its `P`-th significant digit, and the text is `0.000ddd` for up to three (after a carry: four) zeros behind the
point, `d.ddde-XX` otherwise — the reference `%g`, including the re-evaluated exponent after a carry. -/
theorem default_lt1_64 (pre : List Nat) (bits p : Nat) (hp : p ≤ 40)
    (hlt1 : (bits / 2 ^ 52) % 2 ^ 11 < 1023) (hnz : (bits / 2 ^ 52) % 2 ^ 11 ≠ 0 ∨ bits % 2 ^ 52 ≠ 0) :
    realToString f64 pre bits p 0 = .ok (pre ++ FmtSpec.format64 bits p .default) := by
  have hfin : (bits / 2 ^ 52) % 2 ^ 11 ≠ 2 ^ 11 - 1 := by omega
  have hfl : bits % 2 ^ 52 < 2 ^ 52 := Nat.mod_lt _ (by norm_num)
  have hel : (bits / 2 ^ 52) % 2 ^ 11 ≤ 2 * 1023 := by omega
  have hpp : (if (0:Nat) = fmtDefault ∧ p = 0 then 1 else p) = (if p = 0 then 1 else p) := by simp [fmtDefault]
  generalize hP : (if p = 0 then 1 else p) = P at *
  have hPpos : 0 < P := by rw [← hP]; split <;> omega
  have hP40 : P ≤ 40 := by rw [← hP]; split <;> omega
  obtain ⟨num, den, b, fl, dg, ru, hden, hdec64, hnumlt, hnumpos, hrs, hb, hru, hbpos, hLfl, hdg0, hdgfl, hflle, hexh, hblen,
    hflmin, hLdg⟩ := run_lt1_64 bits P 0 hP40 hlt1 hnz
  have hLpos : 0 < (D b).length := List.length_pos_iff.mpr (D_ne_nil b)
  have hb10 : (D b).length ≤ P → b % 10 ≠ 0 := by
    intro hLP
    rw [(hexh (by omega)).2]; decide
  have hfl400 : fl ≤ 1130 := by
    have h1 : fracBits 52 1023 (bits % 2 ^ 52) ((bits / 2 ^ 52) % 2 ^ 11) ≤ 1130 := by
      unfold fracBits; simp only [show ¬ (1023 ≤ (bits / 2 ^ 52) % 2 ^ 11) by omega, if_false]; omega
    omega
  obtain ⟨hlow, hhigh⟩ := frac_bounds hden hb hbpos hLfl
  -- model side
  rw [realToString_finite64 pre bits p 0 hfin hnz, hpp, realFinite_reduce shape64 _ hfl hel hnz hP40, hrs]
  have hR : R b = Rl b := by simp [R, Rl]; omega
  unfold layout
  have e1 : ¬ ((0:Nat) = fmtSemiFixed) := by decide
  have e2 : ¬ ((0:Nat) = fmtFixed) := by decide
  simp only [e1, e2, if_false, hR]
  have hmodel := formatDefault_lt1 (if bits / 2 ^ 63 % 2 = 1 then pre ++ [45] else pre) (b := b) (P := P)
    (dg := dg) (fl := fl) ru hbpos hPpos hLfl hb10 (by omega)
  rw [format64_finite bits p _ hdec64]
  simp only []
  have hsign : ∀ body : List Nat, (if bits / 2 ^ 63 % 2 = 1 then pre ++ [45] else pre) ++ body =
      pre ++ FmtSpec.signed (decide (bits / 2 ^ 63 % 2 = 1)) body := by
    intro body
    by_cases hs : bits / 9223372036854775808 % 2 = 1 <;> simp [hs, FmtSpec.signed, FmtSpec.cMinus]
  have href := generalBody_lt1 (p := p) hden hnumpos hlow hhigh (by omega)
  rw [hP] at href
  generalize hdf : fl - (D b).length = df at *
  by_cases hLP : (D b).length ≤ P
  · -- the whole expansion fits: nothing is rounded
    rw [if_pos hLP] at hmodel
    rw [hmodel, hsign]
    refine congrArg (fun x => Except.ok (pre ++ FmtSpec.signed _ x)) ?_
    obtain ⟨hruf, _⟩ := hexh (by omega)
    have hrem : num * 10 ^ fl % den = 0 := by
      by_contra hcon
      have := hru.mpr hcon
      rw [hruf] at this; cases this
    have hexact : num * 10 ^ fl = b * den := by
      rw [hb]; exact (Nat.div_mul_cancel (Nat.dvd_of_mod_eq_zero hrem)).symm
    have hK : FmtSpec.roundHalfEven (num * 10 ^ (P + df)) den = b * 10 ^ (P - (D b).length) := by
      have e : P + df = fl + (P - (D b).length) := by omega
      rw [e, Nat.pow_add, ← Nat.mul_assoc, hexact,
        show b * den * 10 ^ (P - (D b).length) = (b * 10 ^ (P - (D b).length)) * den by ring, roundHalfEven_mul _ hden]
    have hKlt : b * 10 ^ (P - (D b).length) < 10 ^ P := by
      have h1 : b < 10 ^ (D b).length := (D_length_le_iff hLpos).mp (Nat.le_refl _)
      calc b * 10 ^ (P - (D b).length) < 10 ^ (D b).length * 10 ^ (P - (D b).length) :=
            Nat.mul_lt_mul_of_pos_right h1 (Nat.pow_pos (by decide))
        _ = 10 ^ P := by rw [← Nat.pow_add]; congr 1; omega
    rw [href, hK]
    simp only [Nat.ne_of_lt hKlt, if_false]
    by_cases h4 : df + 1 ≤ 4
    · rw [if_pos h4, if_pos h4, show P - 1 + (df + 1) = df + (D b).length + (P - (D b).length) by omega,
        strip_low hbpos (hb10 hLP)]
    · rw [if_neg h4, if_neg h4, strip_sci_pad hbpos (hb10 hLP) (by omega), expText_neg _ (by omega)]
      simp [sciNeg, List.append_assoc]
  · rw [if_neg hLP] at hmodel
    obtain ⟨T, z, pi, hT0, hT10, hk, hpiff, hpilt, hfmt⟩ := hmodel
    rw [hfmt, hsign]
    refine congrArg (fun x => Except.ok (pre ++ FmtSpec.signed _ x)) ?_
    have hKk : FmtSpec.roundHalfEven (num * 10 ^ (P + df)) den = keptUp b ((D b).length - P - 1) ru := by
      have h1 := roundHalfEven_digits (N := num * 10 ^ fl) (den := den) (b := b) (i := (D b).length - P - 1) (ru := ru)
        hden hb hru
      have efl : fl = (P + df) + ((D b).length - P - 1 + 1) := by omega
      rw [show num * 10 ^ fl = num * 10 ^ (P + df) * 10 ^ ((D b).length - P - 1 + 1) by
        rw [Nat.mul_assoc, ← Nat.pow_add, ← efl], roundHalfEven_scale _ _ _ (Nat.pow_pos (by decide))] at h1
      unfold keptUp; exact h1
    rw [href, hKk]
    generalize hKd : keptUp b ((D b).length - P - 1) ru = K at *
    cases hpiv : pi
    · -- no carry out of the top digit
      have hKlt : K < 10 ^ P := hpilt hpiv
      have hKge : 10 ^ (P - 1) ≤ K := by
        rw [← hKd]; unfold keptUp
        have hn1 : 10 ^ ((D b).length - 1) ≤ b := pow_le_of_len (by omega) (by omega)
        have h1 : 10 ^ (P - 1) = 10 ^ ((D b).length - 1) / 10 ^ ((D b).length - P) := by
          rw [Nat.pow_div (by omega) (by decide)]; congr 1; omega
        have h2 : 10 ^ ((D b).length - 1) / 10 ^ ((D b).length - P) ≤ b / 10 ^ ((D b).length - P) := Nat.div_le_div_right hn1
        rw [show (D b).length - P - 1 + 1 = (D b).length - P by omega]
        omega
      have hlenK : (D T).length + z = P := by
        have h1 : (D K).length = (D T).length + z := by rw [hk, D_mul_pow T z hT0]; simp
        have h2 : (D K).length ≤ P := (D_length_le_iff hPpos).mpr hKlt
        have h3 := D_length_gt hKge
        omega
      simp only [Nat.ne_of_lt hKlt, if_false, Bool.false_eq_true]
      by_cases h4 : df + 1 ≤ 4
      · rw [if_pos h4, if_pos h4, hk, show P - 1 + (df + 1) = df + (D T).length + z by omega, strip_low hT0 hT10]
      · rw [if_neg h4, if_neg h4, hk, strip_sci_pad hT0 hT10 (by omega), expText_neg _ (by omega)]
        simp [sciNeg, List.append_assoc]
    · -- the carry produced a new leading digit
      have hK10 : K = 10 ^ P := hpiff.mp hpiv
      obtain ⟨rfl, rfl⟩ := pow10_factor hT10 (by rw [← hk, hK10])
      simp only [hK10, if_true, Nat.add_zero]
      by_cases h4 : df ≤ 4
      · rw [if_pos h4, if_pos h4]
        by_cases h0 : df = 0
        · subst h0
          rw [Nat.add_zero, fixedText_pow _ _ (Nat.le_refl _), Nat.sub_self]
          simp [lowText]
        · have h1 := strip_low (T := 1) (d := df - 1) (w := z - 1) (by decide) (by decide)
          rw [Nat.one_mul, show (D 1).length = 1 by decide, show df - 1 + 1 + (z - 1) = z - 1 + df by omega,
            show df - 1 + 1 = df by omega] at h1
          rw [h1]
      · rw [if_neg h4, if_neg h4]
        have h1 := strip_sci_pad (T := 1) (z := z - 1) (P := z) (by decide) (by decide)
          (by rw [show (D 1).length = 1 by decide]; omega)
        rw [Nat.one_mul] at h1
        rw [h1, expText_neg _ (by omega)]
        simp [sciNeg, List.append_assoc]


/-- **Default (`%.{p}g`) for every finite non-zero double** (precision ≤ 40) -/
theorem default_finite_64 (pre : List Nat) (bits p : Nat) (hp : p ≤ 40)
    (hfin : (bits / 2 ^ 52) % 2 ^ 11 ≠ 2 ^ 11 - 1) (hnz : (bits / 2 ^ 52) % 2 ^ 11 ≠ 0 ∨ bits % 2 ^ 52 ≠ 0) :
    realToString f64 pre bits p 0 = .ok (pre ++ FmtSpec.format64 bits p .default) := by
  by_cases hge1 : 1023 ≤ (bits / 2 ^ 52) % 2 ^ 11
  · exact default_ge1_64 pre bits p hp hfin hge1
  · exact default_lt1_64 pre bits p hp (by omega) hnz

/-! ### integer-valued doubles through the generic digit run (the form that is ported to floats) -/

/-- the closed-form digit run of an integer-valued double whose digit estimate fits the precision: the integer
itself, nothing dropped, nothing sticky -/
theorem runSpec_default_int {f e P : Nat} (hpos : 1023 ≤ e) (he0 : e ≠ 0)
    (hx : (e - 1023) * 30103 / 100000 + 1 ≤ P) (hfb : fracBits 52 1023 f e = 0) :
    (runSpec 52 1023 f e P 0).2.1 = (e - 1023) * 30103 / 100000 + 1 ∧
    (runSpec 52 1023 f e P 0).2.2.1 = 0 ∧ (runSpec 52 1023 f e P 0).2.2.2.1 = true ∧
    (runSpec 52 1023 f e P 0).2.2.2.2 = false ∧ runDrop 52 1023 f e P 0 = 0 := by
  have hfix : (decide ((0:Nat) = fmtSemiFixed) || decide ((0:Nat) = fmtFixed)) = false := by decide
  have hest : ∀ j, estDigits 52 j (e - 1023) e = (e - 1023) * 30103 / 100000 + 1 := by
    intro j; unfold estDigits; rw [if_neg he0]; simp
  have hnx : ¬ (P < (e - 1023) * 30103 / 100000 + 1) := by omega
  simp only [fracBits, hpos, if_true] at hfb
  have hnb : (52 - findFirstBit (mant 52 f e) ≤ e - 1023) := by omega
  have hj : ¬ (findFirstBit (mant 52 f e) < 52 + 0 - (e - 1023)) := by omega
  simp only [runSpec, runDrop, hpos, if_true, decide_true, Bool.true_and, hfix, Bool.not_false, Bool.and_true,
    hest, hnx, hnb, decide_false, Bool.or_false, Bool.false_eq_true, if_false, Bool.true_or, hj, Bool.and_false,
    Nat.pow_zero, Nat.mod_one, ne_eq, not_true_eq_false, Bool.false_or]
  exact ⟨trivial, trivial, trivial, trivial, trivial⟩

/-- **Default format, integer-valued doubles whose digit estimate fits the precision** (so at most `P + 1`
digits): the plain numeral, or `d.ddde+XX` after rounding when there is one digit too many -/
theorem default_int_fit64 (pre : List Nat) (bits p : Nat) (hp : p ≤ 40)
    (hfin : (bits / 2 ^ 52) % 2 ^ 11 ≠ 2 ^ 11 - 1) (hge1 : 1023 ≤ (bits / 2 ^ 52) % 2 ^ 11)
    (hx : ((bits / 2 ^ 52) % 2 ^ 11 - 1023) * 30103 / 100000 + 1 ≤ (if p = 0 then 1 else p))
    (hfb : fracBits 52 1023 (bits % 2 ^ 52) ((bits / 2 ^ 52) % 2 ^ 11) = 0) :
    realToString f64 pre bits p 0 = .ok (pre ++ FmtSpec.format64 bits p .default) := by
  have hnz : (bits / 2 ^ 52) % 2 ^ 11 ≠ 0 ∨ bits % 2 ^ 52 ≠ 0 := Or.inl (by omega)
  have hfl : bits % 2 ^ 52 < 2 ^ 52 := Nat.mod_lt _ (by norm_num)
  have hlt : (bits / 2 ^ 52) % 2 ^ 11 < 2 ^ 11 := Nat.mod_lt _ (by norm_num)
  have hel : (bits / 2 ^ 52) % 2 ^ 11 ≤ 2 * 1023 := by omega
  have hpp : (if (0:Nat) = fmtDefault ∧ p = 0 then 1 else p) = (if p = 0 then 1 else p) := by simp [fmtDefault]
  generalize hP : (if p = 0 then 1 else p) = P at *
  have hPpos : 0 < P := by rw [← hP]; split <;> omega
  have hP40 : P ≤ 40 := by rw [← hP]; split <;> omega
  obtain ⟨num, den, hden, hdec, hex⟩ := runSpec_exact_decode (M := 52) (X := 11) (by decide) (by decide) (by decide)
    bits P 0 hfin hnz
  have hB : (2:Nat) ^ (11 - 1) - 1 = 1023 := by norm_num
  rw [hB] at hex
  have hdec64 : FmtSpec.decode64 bits = .fin (decide (bits / 2 ^ 63 % 2 = 1)) num den := hdec
  have hpow := decode64_ge_pow hdec64 hge1
  have hdenle : den ≤ num := decode64_ge1 hdec64 hge1
  obtain ⟨hdg, hfl0, hpos, hruf, hdrop⟩ := runSpec_default_int (f := bits % 2 ^ 52) (P := P) hge1 (by omega) hx hfb
  have hb1344 := runSpec_lt shape64 (fmt := 0) hfl hel hnz hP40
  generalize hpe : (bits / 2 ^ 52) % 2 ^ 11 - 1023 = pe at *
  have hpe1130 : pe ≤ 1130 := by omega
  obtain ⟨ht1, ht2⟩ := est_table pe hpe1130
  generalize hr : runSpec 52 1023 (bits % 2 ^ 52) ((bits / 2 ^ 52) % 2 ^ 11) P 0 = r at *
  obtain ⟨b, dg, fl, pos, ru⟩ := r
  simp only at hdg hfl0 hpos hruf hex hb1344
  subst hfl0; subst hpos; subst hruf
  rw [hdrop] at hex
  obtain ⟨hb, hru⟩ := hex
  rw [Nat.pow_zero, Nat.mul_one, Nat.mul_one] at hb hru
  have hrem : num % den = 0 := by
    by_contra hcon
    have := hru.mpr hcon; cases this
  have hnum : num = b * den := by rw [hb]; exact (Nat.div_mul_cancel (Nat.dvd_of_mod_eq_zero hrem)).symm
  have hn2 : 2 ^ pe ≤ b := by rw [hb, Nat.le_div_iff_mul_le hden]; exact hpow
  have hnge : 10 ^ (pe * 30103 / 100000) ≤ b := le_trans ht1 hn2
  have hLn : pe * 30103 / 100000 < (D b).length := D_length_gt hnge
  have hbpos : 0 < b := lt_of_lt_of_le (Nat.pow_pos (by decide)) hnge
  have hblen : (D b).length ≤ 1344 :=
    D_length_le _ 1344 (by decide) (lt_of_lt_of_le hb1344 (Nat.pow_le_pow_left (by decide) 1344))
  rw [realToString_finite64 pre bits p 0 hfin hnz, hpp, realFinite_reduce shape64 _ hfl hel hnz hP40, hr]
  have hR : R b = Rl b := by simp [R, Rl]; omega
  unfold layout
  have e1 : ¬ ((0:Nat) = fmtSemiFixed) := by decide
  have e2 : ¬ ((0:Nat) = fmtFixed) := by decide
  simp only [e1, e2, if_false, hR]
  rw [format64_finite bits p _ hdec64]
  simp only []
  have hsign : ∀ body : List Nat, (if bits / 2 ^ 63 % 2 = 1 then pre ++ [45] else pre) ++ body =
      pre ++ FmtSpec.signed (decide (bits / 2 ^ 63 % 2 = 1)) body := by
    intro body
    by_cases hs : bits / 9223372036854775808 % 2 = 1 <;> simp [hs, FmtSpec.signed, FmtSpec.cMinus]
  by_cases hLP : (D b).length ≤ P
  · rw [formatDefault_integer _ (Rl b) P dg (by rw [Rl_length]; exact hLP), hsign]
    refine congrArg (fun x => Except.ok (pre ++ FmtSpec.signed _ x)) ?_
    rw [hnum, generalBody_int b hden hbpos p (by rw [hP]; exact hLP)]
    simp [Rl]
  · obtain ⟨T, z, pi, hfmt, hT0, hT10, hk, hpi, hpi2⟩ :=
      formatDefault_round_int (if bits / 2 ^ 63 % 2 = 1 then pre ++ [45] else pre) (dg := dg) (p := P) false hbpos hPpos
        (by omega) (by omega)
    rw [hfmt, hsign]
    refine congrArg (fun x => Except.ok (pre ++ FmtSpec.signed _ x)) ?_
    have hle : keptUp b ((D b).length - P - 1) false ≤ 10 ^ P := by
      cases hpi' : pi
      · exact Nat.le_of_lt (hpi2 hpi')
      · exact Nat.le_of_eq (hpi.mp hpi')
    have hbody := generalBody_sci (p := p) hden hbpos (by rw [hP]; omega) hT0 hT10 (by rw [hP]; exact hk)
      (by rw [hP]; exact hle)
    rw [hnum, hbody, hP]
    have hX : (D b).length + (if dg ≤ P then 0 else dg - (P + 1)) - (if pi = true then 0 else 1) =
        (D b).length - 1 + (if keptUp b ((D b).length - P - 1) false = 10 ^ P then 1 else 0) := by
      rw [if_pos (by omega)]
      cases hpi' : pi
      · have : ¬ (keptUp b ((D b).length - P - 1) false = 10 ^ P) := fun hc => by have := hpi.mpr hc; rw [hpi'] at this; cases this
        simp [this]
      · have : keptUp b ((D b).length - P - 1) false = 10 ^ P := hpi.mp hpi'
        simp [this]; omega
    rw [hX]

end Qentem.Proofs.NumToStr
