import Qentem.Proofs.ExprScanNoFuel
import Qentem.Proofs.TmplParseAll
/-!
# C01 — the tag scanner model is total

`parse cfg c` returns a tag list for every content that fits `SizeT`: `parse_wf_all` excludes a failed
read; here every function of the scanner is shown to fail with nothing BUT a failed read (`TQ`: the
inner loops return at fuel 0, the expression scanner never exhausts its fuel on any range —
`parseTop_tq`), and every step of the main loop moves the Finder forward (`AftP`), so the fuel
`2·n + 4` of the main loop suffices.
-/
set_option linter.unusedSectionVars false
set_option linter.unusedVariables false
namespace Qentem.Tmpl
open Qentem.Expr (Fault rd ScanCfg VarRef Item TQ rd_tq Safe)
open Qentem.Generated.Tmpl
variable {R : Type}

theorem skipWhile_tq (c : List Nat) (endO : Nat) (p : Nat → Bool) : ∀ f off,
    TQ (skipWhile c endO p f off) (fun r => off ≤ r) := by
  intro f
  induction f with
  | zero => intro off; exact TQ.ok _ (Nat.le_refl _)
  | succ f ih =>
    intro off
    simp only [skipWhile]
    split
    · apply TQ.bind (rd_tq c off)
      intro ch _
      split
      · exact TQ.mono (ih _) (fun a ha => by omega)
      · exact TQ.ok _ (Nat.le_refl _)
    · exact TQ.ok _ (Nat.le_refl _)

theorem skipW_tq (c : List Nat) (endO : Nat) (p : Nat → Bool) (off : Nat) :
    TQ (skipW c endO p off) (fun r => off ≤ r) := skipWhile_tq c endO p _ off

theorem doSkipW_tq (c : List Nat) (endO : Nat) (p : Nat → Bool) (off : Nat) :
    TQ (doSkipW c endO p off) (fun r => off ≤ r) :=
  TQ.mono (skipW_tq c endO p (off + 1)) (fun a ha => by omega)

theorem isEqualAt_tq (c : List Nat) : ∀ (s : List Nat) (off : Nat), TQ (isEqualAt c off s) (fun _ => True) := by
  intro s
  induction s with
  | nil => intro off; exact TQ.ok _ trivial
  | cons x xs ih =>
    intro off
    simp only [isEqualAt]
    apply TQ.bind (rd_tq c off)
    intro ch _
    split
    · exact ih _
    · exact TQ.ok _ trivial

theorem andEqualAt_tq (cond : Bool) (c : List Nat) (off : Nat) (s : List Nat) :
    TQ (andEqualAt cond c off s) (fun _ => True) := by
  unfold andEqualAt
  split
  · exact isEqualAt_tq c s off
  · exact TQ.ok _ trivial

theorem isEqualRange_tq (c : List Nat) : ∀ (n a b : Nat), TQ (isEqualRange c n a b) (fun _ => True) := by
  intro n
  induction n with
  | zero => intro a b; exact TQ.ok _ trivial
  | succ n ih =>
    intro a b
    simp only [isEqualRange]
    apply TQ.bind (rd_tq c a)
    intro x _
    apply TQ.bind (rd_tq c b)
    intro y _
    split
    · exact ih _ _
    · exact TQ.ok _ trivial

theorem checkLoopVariable_tq (c : List Nat) (varOff : Nat) : ∀ (chain : List LoopRef),
    TQ (checkLoopVariable c varOff chain) (fun _ => True) := by
  intro chain
  induction chain with
  | nil => exact TQ.ok _ trivial
  | cons l rest ih =>
    simp only [checkLoopVariable]
    apply TQ.bind (isEqualRange_tq c _ _ _)
    intro b _
    split
    · exact TQ.ok _ trivial
    · exact ih

theorem mkVar_tq (c : List Nat) (chain : List LoopRef) (off len : Nat) : TQ (mkVar c chain off len) (fun _ => True) := by
  unfold mkVar
  apply TQ.bind (checkLoopVariable_tq c off chain)
  intro r _
  split <;> exact TQ.ok _ trivial

theorem setVar_tq (c : List Nat) (chain : List LoopRef) (old : VarRef) (off len : Nat) :
    TQ (setVar c chain old off len) (fun _ => True) := by
  unfold setVar
  apply TQ.bind (checkLoopVariable_tq c off chain)
  intro r _
  split <;> exact TQ.ok _ trivial

/-- `finder.Next()` from anywhere -/
theorem next_any (c : List Nat) (off : Nat) :
    ∃ o m, next c off = .ok (o, m) ∧ off ≤ o ∧ (m ≠ 0 → off < o ∧ o ≤ c.length) := by
  by_cases h : off ≤ c.length
  · obtain ⟨o, m, h1, h2, h3, h4, _⟩ := next_safe_total c off h
    exact ⟨o, m, h1, h3, fun hm => ⟨h4 hm, h2⟩⟩
  · refine ⟨off, 0, ?_, Nat.le_refl _, fun hm => absurd rfl hm⟩
    unfold next
    rw [show c.length + 1 - off = 0 by omega]
    rfl

/-- where the finder stands after a step that started at `o0` -/
def AftP (c : List Nat) (o0 : Nat) (st : PState R) : Prop :=
  o0 ≤ st.off ∧ (st.mtch ≠ 0 → o0 < st.off ∧ st.off ≤ c.length)

theorem finderNext_tq (c : List Nat) (o0 : Nat) (st : PState R) (h : o0 ≤ st.off) :
    TQ (finderNext c st) (AftP c o0) := by
  obtain ⟨o, m, h1, h2, h3⟩ := next_any c st.off
  have : finderNext c st = .ok { st with off := o, mtch := m } := by
    simp [finderNext, h1, bind, Except.bind]
  rw [this]
  exact ⟨by show o0 ≤ o; omega, fun hm => by have := h3 hm; exact ⟨by show o0 < o; omega, this.2⟩⟩


/-- one step of the routine decomposition of a `do` block -/
theorem TQ_pure {α : Type} {P : α → Prop} (a : α) (h : P a) : TQ (pure a : Except Fault α) P := h

macro "tq_auto" "[" t:term "]" : tactic => `(tactic| repeat (first
  | (with_reducible exact TQ.ok _ trivial)
  | (with_reducible exact TQ_pure _ trivial)
  | (with_reducible exact $t)
  | (with_reducible apply TQ.bind (skipW_tq _ _ _ _); intro _ _)
  | (with_reducible apply TQ.bind (doSkipW_tq _ _ _ _); intro _ _)
  | (with_reducible apply TQ.bind (andEqualAt_tq _ _ _ _); intro _ _)
  | (with_reducible apply TQ.bind (setVar_tq _ _ _ _ _); intro _ _)
  | (with_reducible apply TQ.bind (mkVar_tq _ _ _ _); intro _ _)
  | (with_reducible apply TQ.bind (rd_tq _ _); intro _ _)
  | split))

theorem parseLoopAttributes_tq (c : List Nat) (endO : Nat) (pc : List LoopRef) : ∀ (fuel off : Nat) (att : LoopAtt)
    (tag : LoopFields), TQ (parseLoopAttributes c endO pc fuel off att tag) (fun _ => True) := by
  intro fuel
  induction fuel with
  | zero => intro off att tag; exact TQ.ok _ trivial
  | succ fuel ih =>
    intro off att tag
    simp only [parseLoopAttributes]
    apply TQ.bind (skipW_tq _ _ _ _)
    intro o1 _
    apply TQ.bind (Q := fun _ => True) (P := fun _ => True)
    · tq_auto [ih _ _ _]
    · intro sw _
      cases sw with
      | none => simp only []; tq_auto [ih _ _ _]
      | some p =>
        obtain ⟨o2, att2⟩ := p
        simp only []
        apply TQ.bind (skipW_tq _ _ _ _)
        intro o3 _
        apply TQ.bind (doSkipW_tq _ _ _ _)
        intro o4 _
        split
        · apply TQ.bind (rd_tq _ _)
          intro quote _
          apply TQ.bind (doSkipW_tq _ _ _ _)
          intro o5 _
          apply TQ.bind (Q := fun _ => True) (P := fun _ => True)
          · cases att2 <;> simp only [] <;> tq_auto [ih _ _ _]
          · intro tag2 _
            tq_auto [ih _ _ _]
        · exact TQ.ok _ trivial


theorem parseIfCase_tq (c : List Nat) (off0 endO : Nat) :
    TQ (parseIfCase c off0 endO) (fun r => off0 ≤ r.1) := by
  unfold parseIfCase
  apply TQ.bind (skipW_tq _ _ _ _)
  intro o1 h1
  apply TQ.bind (andEqualAt_tq _ _ _ _)
  intro b _
  split
  · apply TQ.bind (skipW_tq _ _ _ _)
    intro o2 h2
    apply TQ.bind (doSkipW_tq _ _ _ _)
    intro o3 h3
    split
    · apply TQ.bind (rd_tq _ _)
      intro q _
      apply TQ.bind (skipW_tq _ _ _ _)
      intro o4 h4
      apply TQ.bind (skipW_tq _ _ _ _)
      intro o5 h5
      exact TQ.ok _ (by simp only []; omega)
    · exact TQ.ok _ (by simp only []; omega)
  · exact TQ.ok _ h1

theorem iifAttrs_tq (c : List Nat) (endO trueOffset : Nat) : ∀ (fuel off : Nat) (tru : Bool) (f : IifFields),
    TQ (iifAttrs c endO trueOffset fuel off tru f) (fun _ => True) := by
  intro fuel
  induction fuel with
  | zero => intro off tru f; exact TQ.ok _ trivial
  | succ fuel ih =>
    intro off tru f
    simp only [iifAttrs]
    apply TQ.bind (skipW_tq _ _ _ _)
    intro o1 _
    split
    · apply TQ.bind (rd_tq _ _)
      intro ch _
      apply TQ.bind (Q := fun _ => True) (P := fun _ => True)
      · tq_auto [ih _ _ _]
      · intro hd _
        cases hd with
        | none => exact TQ.ok _ trivial
        | some p =>
          obtain ⟨o2, tru2⟩ := p
          simp only []
          tq_auto [ih _ _ _]
    · tq_auto [ih _ _ _]

theorem closeIif_tq (c : List Nat) (st : PState R) (pre : List (Tag R)) (cs : List (Item R)) (f0 : IifFields)
    (rest : List (Frame R)) :
    TQ (closeIif c st pre cs f0 rest) (fun st' => st'.off = st.off ∧ st'.mtch = st.mtch) := by
  unfold closeIif
  apply TQ.bind (P := fun _ => True)
  · split <;> exact iifAttrs_tq _ _ _ _ _ _ _
  · intro sc _
    simp only []
    repeat' split
    all_goals exact TQ.ok _ ⟨rfl, rfl⟩


theorem AftP.upd {c : List Nat} {o0 : Nat} {st st' : PState R} (h : AftP c o0 st) (h1 : st'.off = st.off)
    (h2 : st'.mtch = st.mtch) : AftP c o0 st' := by
  unfold AftP at *; rw [h1, h2]; exact h

theorem stepLineEnd_tq (c : List Nat) (st : PState R) : TQ (stepLineEnd c st) (AftP c st.off) := by
  unfold stepLineEnd
  apply TQ.bind (P := fun st1 => st1.off = st.off)
  · split
    · split
      · exact TQ_pure _ rfl
      · exact TQ.mono (closeIif_tq c st _ _ _ _) (fun a ha => ha.1)
      · exact TQ_pure _ rfl
      · exact TQ_pure _ rfl
    · exact TQ_pure _ rfl
  · intro st1 h1
    exact finderNext_tq c st.off st1 (by omega)

theorem stepVar_tq (c : List Nat) (st : PState R) (raw : Bool) : TQ (stepVar c st raw) (AftP c st.off) := by
  unfold stepVar
  apply TQ.bind (finderNext_tq c st.off st (Nat.le_refl _))
  intro st1 h1
  split
  · apply TQ.bind (P := fun st2 => st2.off = st1.off)
    · split
      · apply TQ.bind (mkVar_tq _ _ _ _)
        intro v _
        exact TQ_pure _ rfl
      · exact TQ_pure _ rfl
    · intro st2 h2
      exact finderNext_tq c st.off st2 (by have := h1.1; omega)
  · exact TQ.ok _ h1

theorem mathScan_tq (c : List Nat) (o0 : Nat) : ∀ (fuel : Nat) (st : PState R) (skipVar : Nat), AftP c o0 st →
    TQ (mathScan c fuel st skipVar) (fun r => AftP c o0 r.1) := by
  intro fuel
  induction fuel with
  | zero => intro st sv h; exact TQ.ok _ h
  | succ fuel ih =>
    intro st sv h
    simp only [mathScan]
    apply TQ.bind (P := fun r => AftP c o0 r.1)
    · split
      · apply TQ.bind (finderNext_tq c o0 st h.1)
        intro st1 h1
        exact TQ_pure _ h1
      · exact TQ_pure _ h
    · intro r hr
      obtain ⟨st1, sv1⟩ := r
      simp only [] at hr ⊢
      split
      · split
        · apply TQ.bind (finderNext_tq c o0 st1 hr.1)
          intro st2 h2
          exact ih _ _ h2
        · apply TQ.bind (finderNext_tq c o0 st1 hr.1)
          intro st2 h2
          exact TQ.ok _ h2
      · exact TQ.ok _ hr

theorem exprs_tq (cfg : ScanCfg R) (c : List Nat) (chain : List LoopRef) (a b : Nat) :
    TQ (exprs cfg c chain a b) (fun _ => True) := Qentem.Expr.parseTop_tq _ c a b

theorem stepMath_tq (cfg : ScanCfg R) (c : List Nat) (st : PState R) : TQ (stepMath cfg c st) (AftP c st.off) := by
  unfold stepMath
  apply TQ.bind (finderNext_tq c st.off st (Nat.le_refl _))
  intro st1 h1
  apply TQ.bind (mathScan_tq c st.off _ st1 0 h1)
  intro r hr
  obtain ⟨st2, e⟩ := r
  simp only [] at hr ⊢
  split
  · apply TQ.bind (exprs_tq _ _ _ _ _)
    intro ex _
    exact TQ.ok _ (hr.upd rfl rfl)
  · exact TQ.ok _ hr

theorem stepSvar_tq (c : List Nat) (st : PState R) : TQ (stepSvar c st) (AftP c st.off) := by
  unfold stepSvar
  apply TQ.bind (finderNext_tq c st.off st (Nat.le_refl _))
  intro st1 h1
  apply TQ.bind (skipW_tq _ _ _ _)
  intro o _
  dsimp only
  split
  · exact TQ.ok _ (h1.upd rfl rfl)
  · exact TQ.ok _ h1

theorem iifQuote_tq (c : List Nat) (quote o0 : Nat) : ∀ (fuel : Nat) (st : PState R) (off endO : Nat), AftP c o0 st →
    TQ (iifQuote c quote fuel st off endO) (fun r => AftP c o0 r.1) := by
  intro fuel
  induction fuel with
  | zero => intro st off endO h; exact TQ.ok _ ⟨h.1, fun hm => absurd rfl hm⟩
  | succ fuel ih =>
    intro st off endO h
    simp only [iifQuote]
    split
    · apply TQ.bind (skipW_tq _ _ _ _)
      intro o1 _
      split
      · exact TQ.ok _ h
      · apply TQ.bind (finderNext_tq c o0 st h.1)
        intro st1 h1
        split
        · apply TQ.bind (finderNext_tq c o0 st1 h1.1)
          intro st2 h2
          exact ih _ _ _ h2
        · exact TQ.ok _ h1
    · exact TQ.ok _ h

theorem stepIif_tq (cfg : ScanCfg R) (c : List Nat) (st : PState R) : TQ (stepIif cfg c st) (AftP c st.off) := by
  unfold stepIif
  apply TQ.bind (finderNext_tq c st.off st (Nat.le_refl _))
  intro st1 h1
  apply TQ.bind (skipW_tq _ _ _ _)
  intro o1 _
  apply TQ.bind (andEqualAt_tq _ _ _ _)
  intro b _
  split
  · apply TQ.bind (skipW_tq _ _ _ _)
    intro o2 _
    apply TQ.bind (doSkipW_tq _ _ _ _)
    intro o3 _
    split
    · apply TQ.bind (rd_tq _ _)
      intro q _
      apply TQ.bind (iifQuote_tq c q st.off _ st1 _ _ h1)
      intro r hr
      obtain ⟨st2, o4⟩ := r
      simp only [] at hr ⊢
      split
      · apply TQ.bind (exprs_tq _ _ _ _ _)
        intro cs _
        exact TQ.ok _ (hr.upd rfl rfl)
      · exact TQ.ok _ hr
    · exact TQ.ok _ h1
  · exact TQ.ok _ h1

theorem stepLoop_tq (c : List Nat) (st : PState R) : TQ (stepLoop c st) (AftP c st.off) := by
  unfold stepLoop
  apply TQ.bind (finderNext_tq c st.off st (Nat.le_refl _))
  intro st1 h1
  apply TQ.bind (skipW_tq _ _ _ _)
  intro o1 _
  split
  · apply TQ.bind (parseLoopAttributes_tq _ _ _ _ _ _ _)
    intro tag _
    exact TQ.ok _ (h1.upd rfl rfl)
  · exact TQ.ok _ h1

theorem stepLoopEnd_tq (c : List Nat) (st : PState R) : TQ (stepLoopEnd c st) (AftP c st.off) := by
  unfold stepLoopEnd
  apply TQ.bind (P := fun st1 => st1.off = st.off)
  · split <;> exact TQ_pure _ rfl
  · intro st1 h1
    exact finderNext_tq c st.off st1 (by omega)

theorem stepIf_tq (cfg : ScanCfg R) (c : List Nat) (st : PState R) : TQ (stepIf cfg c st) (AftP c st.off) := by
  unfold stepIf
  apply TQ.bind (parseIfCase_tq _ _ _)
  intro r hr
  obtain ⟨off, caseOff, caseEnd⟩ := r
  simp only [] at hr ⊢
  apply TQ.bind (P := fun st1 => st1.off = off)
  · split
    · apply TQ.bind (exprs_tq _ _ _ _ _)
      intro cs _
      exact TQ_pure _ rfl
    · exact TQ_pure _ rfl
  · intro st1 h1
    exact finderNext_tq c st.off st1 (by omega)

theorem stepIfEnd_tq (c : List Nat) (st : PState R) : TQ (stepIfEnd c st) (AftP c st.off) := by
  unfold stepIfEnd
  apply finderNext_tq c st.off _
  split <;> exact Nat.le_refl _

theorem elseScan_tq (c : List Nat) : ∀ (fuel off : Nat), TQ (elseScan c fuel off) (fun r => off ≤ r.1) := by
  intro fuel
  induction fuel with
  | zero => intro off; exact TQ.ok _ (Nat.le_refl _)
  | succ fuel ih =>
    intro off
    simp only [elseScan]
    split
    · apply TQ.bind (rd_tq _ _)
      intro ch _
      split
      · exact TQ.ok _ (Nat.le_refl _)
      · split
        · exact TQ.ok _ (by simp only []; omega)
        · exact TQ.mono (ih _) (fun a ha => by omega)
    · exact TQ.ok _ (Nat.le_refl _)

theorem stepElse_tq (cfg : ScanCfg R) (c : List Nat) (st : PState R) : TQ (stepElse cfg c st) (AftP c st.off) := by
  unfold stepElse
  split
  · apply TQ.bind (elseScan_tq _ _ _)
    intro r hr
    obtain ⟨o, isIfElse⟩ := r
    simp only [] at hr ⊢
    split
    · apply TQ.bind (parseIfCase_tq _ _ _)
      intro r2 hr2
      obtain ⟨o2, caseOff, caseEnd⟩ := r2
      simp only [] at hr2 ⊢
      apply TQ.bind (finderNext_tq c st.off _ (by show st.off ≤ o2; omega))
      intro st1 h1
      split
      · apply TQ.bind (exprs_tq _ _ _ _ _)
        intro cs _
        exact TQ.ok _ (h1.upd rfl rfl)
      · exact finderNext_tq c st.off _ h1.1
    · split
      · exact finderNext_tq c st.off _ (by show st.off ≤ o + 1; omega)
      · exact finderNext_tq c st.off _ (Nat.le_refl _)
  · exact finderNext_tq c st.off st (Nat.le_refl _)


theorem step_tq (cfg : ScanCfg R) (c : List Nat) (st : PState R) (h0 : st.mtch ≠ 0) (h11 : st.mtch ≤ 11) :
    TQ (step cfg c st) (AftP c st.off) := by
  have hcases : st.mtch = 1 ∨ st.mtch = 2 ∨ st.mtch = 3 ∨ st.mtch = 4 ∨ st.mtch = 5 ∨ st.mtch = 6 ∨
      st.mtch = 7 ∨ st.mtch = 8 ∨ st.mtch = 9 ∨ st.mtch = 10 ∨ st.mtch = 11 := by omega
  rcases hcases with h1 | h2 | h3 | h4 | h5 | h6 | h7 | h8 | h9 | h10 | h11
  · have hstep : step cfg c st = stepLineEnd c st := by simp only [step, h1]; rfl
    rw [hstep]; exact stepLineEnd_tq c st
  · have hstep : step cfg c st = stepVar c st false := by simp only [step, h2]; rfl
    rw [hstep]; exact stepVar_tq c st false
  · have hstep : step cfg c st = stepVar c st true := by simp only [step, h3]; rfl
    rw [hstep]; exact stepVar_tq c st true
  · have hstep : step cfg c st = stepMath cfg c st := by simp only [step, h4]; rfl
    rw [hstep]; exact stepMath_tq cfg c st
  · have hstep : step cfg c st = stepSvar c st := by simp only [step, h5]; rfl
    rw [hstep]; exact stepSvar_tq c st
  · have hstep : step cfg c st = stepIif cfg c st := by simp only [step, h6]; rfl
    rw [hstep]; exact stepIif_tq cfg c st
  · have hstep : step cfg c st = stepLoop c st := by simp only [step, h7]; rfl
    rw [hstep]; exact stepLoop_tq c st
  · have hstep : step cfg c st = stepLoopEnd c st := by simp only [step, h8]; rfl
    rw [hstep]; exact stepLoopEnd_tq c st
  · have hstep : step cfg c st = stepIf cfg c st := by simp only [step, h9]; rfl
    rw [hstep]; exact stepIf_tq cfg c st
  · have hstep : step cfg c st = stepIfEnd c st := by simp only [step, h10]; rfl
    rw [hstep]; exact stepIfEnd_tq c st
  · have hstep : step cfg c st = stepElse cfg c st := by simp only [step, h11]; rfl
    rw [hstep]; exact stepElse_tq cfg c st

/-- **the main loop of the tag scanner returns**: its fuel `2·n + 4` is never exhausted -/
theorem parseMain_total (cfg : ScanCfg R) (c : List Nat) (hn : c.length + 16 < 4294967296)
    (hidT : c.length < 2 ^ bits_InLineIfTag_TrueTagsStartID)
    (hidF : c.length < 2 ^ bits_InLineIfTag_FalseTagsStartID) :
    ∀ (fuel : Nat) (st : PState R), GInv c st → 1 ≤ fuel → (st.mtch ≠ 0 → c.length - st.off + 2 ≤ fuel) →
      ∃ st', parseMain cfg c fuel st = .ok st' ∧ GInv c st' := by
  intro fuel
  induction fuel with
  | zero => intro st _ h1 _; omega
  | succ fuel ih =>
    intro st hi _ hm
    simp only [parseMain]
    by_cases h0 : st.mtch ≠ 0
    · simp only [h0, ne_eq, not_false_eq_true, if_true]
      obtain ⟨st1, hs1, hi1, ha1⟩ := TQ.total (step_G cfg c hn hidT hidF st hi h0) (step_tq cfg c st h0 hi.mtch)
      rw [hs1]
      simp only [bind, Except.bind]
      have hf := hm h0
      exact ih st1 hi1 (by omega) (fun h => by have := ha1.2 h; omega)
    · simp only [h0, if_false]
      exact ⟨st, rfl, hi⟩

/-- **`parse` is total**: for every content that fits `SizeT` the tag scanner model returns a tag
list (no failed read, no exhausted fuel), and the list is well-formed -/
theorem parse_total (cfg : ScanCfg R) (c : List Nat) (hn : c.length + 16 < 4294967296)
    (hidT : c.length < 2 ^ bits_InLineIfTag_TrueTagsStartID)
    (hidF : c.length < 2 ^ bits_InLineIfTag_FalseTagsStartID) :
    ∃ tags, parse cfg c = .ok tags ∧ wf c.length tags = true := by
  have hwf := parse_wf_all cfg c hn hidT hidF
  suffices h : ∃ tags, parse cfg c = .ok tags by
    obtain ⟨tags, ht⟩ := h
    rw [ht] at hwf
    exact ⟨tags, ht, hwf⟩
  obtain ⟨o, m, h1, h2, _⟩ := next_safe_total c 0 (Nat.zero_le _)
  have hfn : finderNext c ({} : PState R) = .ok (⟨[], [], [], false, o, m⟩ : PState R) := by
    simp [finderNext, h1, bind, Except.bind]
  have hp := finderNext_A c hn ({} : PState R) (Nat.zero_le _)
  rw [hfn] at hp
  obtain ⟨p1, p2, p3, p4, p6⟩ := hp
  have hi0 : GInv c (⟨[], [], [], false, o, m⟩ : PState R) := by
    refine ⟨fun _ => p6.le, p6.id, p6.curA, (by intro l hl; cases hl), true, false, 0, 0, [],
      .nil, (by intro h; cases h), fun _ => ⟨rfl, Or.inl ⟨0, ?_, ?_⟩⟩⟩
    · exact ListOk.nil (Nat.le_refl _) (Nat.zero_le _)
    · have := p6.start; simpa using this
  obtain ⟨st', hs', _⟩ := parseMain_total cfg c hn hidT hidF (2 * c.length + 4) _ hi0 (by omega)
    (fun _ => by show c.length - o + 2 ≤ 2 * c.length + 4; omega)
  exact ⟨cleanup st'.stack st'.storage, by simp only [parse, hfn, bind, Except.bind, hs']⟩

end Qentem.Tmpl
