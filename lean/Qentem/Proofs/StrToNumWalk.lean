import Qentem.Proofs.StrToNumReal
/-! C09 helper lemmas: the windowed scan over `digits . digits`, for every position of the dot
relative to the 19-unit window. -/
namespace Qentem.StrToNum

theorem stop_unit (c : List Nat) (e Q : Nat) (st : Stop) (h : stopAt c e Q st) (hQ : Q < e) :
    ∃ x, rd c e Q = some x ∧ isDigit x = false ∧ (x = 46 ↔ st = .dot) := by
  cases st with
  | good =>
    rcases h with h | ⟨x, hx, hc⟩
    · omega
    · simp only [contReal, Bool.or_eq_false_iff, beq_eq_false_iff_ne] at hc
      exact ⟨x, hx, hc.1.1, by simp [hc.1.2]⟩
  | dot => exact ⟨46, h, by decide, by simp⟩
  | emptyExp =>
    obtain ⟨m, hm, hmE, _⟩ := h
    refine ⟨m, hm, ?_, ?_⟩
    · rcases hmE with h | h <;> subst h <;> decide
    · constructor
      · intro h; omega
      · intro h; cases h

/-- result of the windowed scan once the dot has been taken: a state inside `[lo, Q]` that holds
the dot, or (only when `Q` is not a good stop) NotANumber -/
def Walked (st : Stop) (P lo Q : Nat) (r : Option (Res ⊕ Scan)) : Prop :=
  (∃ s, r = some (.inr s) ∧ s.hasDot = true ∧ s.isReal = true ∧ s.dotOff = P ∧ lo ≤ s.off ∧ s.off ≤ Q) ∨
  (st ≠ .good ∧ ∃ b o, r = some (.inl ⟨.notANumber, b, o⟩))

theorem iter2_walk (c : List Nat) (e W num off dg P Q : Nat) (st : Stop) (hd : digitsOn c e off Q)
    (h1 : off ≤ Q) (hW : W ≤ e) (hoW : off < W) (hst : stopAt c e Q st) :
    Walked st P off Q (iter2 c e W num off dg P) := by
  have hoe : off < e := by omega
  unfold iter2
  simp only [hoe, if_true]
  by_cases hWQ : W ≤ Q
  · obtain ⟨num', d', hs, hd'⟩ := scanDigits_on c e Q (W - off) off num dg hd (by omega)
    have hne : d' ≠ 46 := by
      rcases hd' with ⟨h0, _⟩ | h
      · omega
      · exact isDigit_ne_dot h
    rw [hs]; simp only [hne, if_false]
    exact Or.inl ⟨_, rfl, rfl, rfl, rfl, Nat.le_add_right _ _, by show off + (W - off) ≤ Q; omega⟩
  · obtain ⟨x, hx, hxd, hx46⟩ := stop_unit c e Q st hst (by omega)
    obtain ⟨num', hs⟩ := scanDigits_hit c e Q x hx hxd (W - off) off num dg hd h1 (by omega)
    rw [hs]
    by_cases h46 : x = 46
    · simp only [h46, if_true]
      exact Or.inr ⟨by rw [hx46.1 h46]; decide, _, _, rfl⟩
    · simp only [h46, if_false]
      exact Or.inl ⟨_, rfl, rfl, rfl, rfl, h1, Nat.le_refl _⟩

theorem Walked_mono {st : Stop} {P lo lo' Q : Nat} {r : Option (Res ⊕ Scan)} (h : Walked st P lo Q r) (hl : lo' ≤ lo) :
    Walked st P lo' Q r := by
  rcases h with ⟨s, h1, h2, h3, h4, h5, h6⟩ | h
  · exact Or.inl ⟨s, h1, h2, h3, h4, Nat.le_trans hl h5, h6⟩
  · exact Or.inr h

/-- result of the first outer-loop pass: the dot was inside the window (`Walked`), or the window
ended at `W ≤ P` before the dot -/
theorem iter1_walk (c : List Nat) (e W num off dg dotOff : Nat) (isReal : Bool) (P Q : Nat) (st : Stop)
    (hdg : dg ≠ 46) (hd1 : digitsOn c e off P) (hoP : off ≤ P) (hP : rd c e P = some 46)
    (hd : digitsOn c e (P + 1) Q) (h1 : P + 1 ≤ Q) (hQe : Q ≤ e) (hW : W ≤ e) (hoW : off ≤ W) (hst : stopAt c e Q st) :
    Walked st P (P + 1) Q (iter1 c e W num off dg false dotOff isReal) ∨
    ∃ num', iter1 c e W num off dg false dotOff isReal = some (.inr ⟨num', W, false, dotOff, isReal⟩) ∧ W ≤ P := by
  have hPe := rd_lt hP
  have hoe : off < e := by omega
  unfold iter1
  simp only [Bool.false_eq_true, if_false, hoe, if_true]
  by_cases hWP : W ≤ P
  · right
    obtain ⟨num', d', hs, hd'⟩ := scanDigits_on c e P (W - off) off num dg hd1 (by omega)
    have hne : d' ≠ 46 := by
      rcases hd' with ⟨_, h⟩ | h
      · omega
      · exact isDigit_ne_dot h
    rw [hs]; simp only [hne, if_false]
    exact ⟨num', by congr 3 <;> omega, hWP⟩
  · left
    obtain ⟨num', hs⟩ := scanDigits_hit c e P 46 hP (by decide) (W - off) off num dg hd1 hoP (by omega)
    rw [hs]; simp only [if_true]
    have stay : Walked st P (P + 1) Q (some (.inr ⟨num', P + 1, true, P, true⟩)) :=
      Or.inl ⟨_, rfl, rfl, rfl, rfl, Nat.le_refl _, h1⟩
    by_cases h2 : P + 1 < W
    · simp only [h2, if_true]
      by_cases hPQ : P + 1 = Q
      · -- nothing after the dot: the unit at `Q` is no digit
        obtain ⟨x, hx, hxd, _⟩ := stop_unit c e Q st hst (by omega)
        have hx' : rd c e (P + 1) = some x := by rw [hPQ]; exact hx
        rw [hx']
        have hnz : isNonZeroDigit x = false := by
          simp [isDigit] at hxd; simp [isNonZeroDigit]; omega
        have h48 : x ≠ 48 := by intro h; subst h; simp [isDigit] at hxd
        simp only [hnz, Bool.false_eq_true, if_false, h48, false_and]
        exact stay
      · obtain ⟨d2, hr2, hd2⟩ := hd (P + 1) (Nat.le_refl _) (by omega)
        rw [hr2]; simp only
        by_cases hnz : isNonZeroDigit d2 = true
        · simp only [hnz, if_true]
          exact iter2_walk c e W num' (P + 1) d2 P Q st hd (by omega) hW h2 hst
        · have h48 : d2 = 48 := by simp [isDigit] at hd2; simp [isNonZeroDigit] at hnz; omega
          subst h48
          simp only [show isNonZeroDigit 48 = false by decide, Bool.false_eq_true, if_false, true_and]
          by_cases h3 : P + 1 + 1 < W
          · simp only [h3, if_true]
            by_cases hPQ2 : P + 1 + 1 = Q
            · obtain ⟨x, hx, hxd, _⟩ := stop_unit c e Q st hst (by omega)
              have hx' : rd c e (P + 1 + 1) = some x := by rw [hPQ2]; exact hx
              rw [hx']; simp only [hxd, Bool.false_eq_true, if_false]
              exact stay
            · obtain ⟨d3, hr3, hd3⟩ := hd (P + 1 + 1) (by omega) (by omega)
              rw [hr3]; simp only [hd3, if_true]
              exact iter2_walk c e W num' (P + 1) d3 P Q st hd (by omega) hW h2 hst
          · simp only [h3, if_false]; exact stay
    · simp only [h2, if_false]; exact stay

/-- the 20th-digit step when the digits run on past the window up to a `.`/`e`/`E` at `P`: it always
ends with `is_real = true`, having consumed at most one more digit, still not beyond `P` -/
theorem twentieth_long (c : List Nat) (e num off P m : Nat) (hd1 : digitsOn c e off P) (hoP : off ≤ P)
    (hP : rd c e P = some m) (hm : isDotOrE m = true) :
    ∃ num' off', twentieth c e num off false = some (num', off', off', true) ∧ off ≤ off' ∧ off' ≤ P := by
  have hPe := rd_lt hP
  have hoe : off < e := by omega
  unfold twentieth
  simp only [Bool.not_false, true_and, hoe, if_true]
  by_cases hoP2 : off = P
  · subst hoP2; rw [hP]; simp only [hm, if_true]
    exact ⟨num, off, rfl, Nat.le_refl _, Nat.le_refl _⟩
  · obtain ⟨d, hr, hdig⟩ := hd1 off (Nat.le_refl _) (by omega)
    rw [hr]; simp only [isDigit_not_dotOrE hdig, Bool.false_eq_true, if_false, hdig, if_true]
    split
    · exact ⟨num, off, rfl, Nat.le_refl _, hoP⟩
    · have h1e : off + 1 < e := by omega
      simp only [h1e, if_true]
      by_cases h1P : off + 1 = P
      · rw [h1P, hP]; simp only [hm, Bool.true_or]
        exact ⟨_, _, rfl, by omega, by omega⟩
      · obtain ⟨d2, hr2, hd2⟩ := hd1 (off + 1) (by omega) (by omega)
        rw [hr2]; simp only [hd2, Bool.or_true]
        exact ⟨_, _, rfl, by omega, by omega⟩

end Qentem.StrToNum
