import Qentem.Proofs.NumToStrDigits
/-! C10 helper: `digits_exact_or_sticky`.  The closed form of the digit run (`runSpec`) is the exact
decimal expansion of the binary value cut at a known place, and `round_up` records exactly whether
the cut-off part is non-zero; the value is the one `FmtSpec.decode` returns. -/
set_option linter.unusedSimpArgs false
set_option linter.unusedVariables false
namespace Qentem.Proofs.NumToStr
open Qentem.NumToStr Qentem.Generated.NumToStr Qentem

/-! ### exactness of the closed form -/

theorem intShift_eq (M m pe d : Nat) : intShift M m pe d = m * 2 ^ pe / 2 ^ (M + d) := by
  unfold intShift
  split
  · rename_i h
    have e : pe = (pe - (M + d)) + (M + d) := by omega
    conv_rhs => rw [e, Nat.pow_add, ← Nat.mul_assoc, Nat.mul_div_cancel _ (Nat.two_pow_pos _)]
  · rename_i h
    have e : M + d = pe + (M + d - pe) := by omega
    conv_rhs => rw [e, Nat.pow_add, Nat.mul_comm m, Nat.mul_div_mul_left _ _ (Nat.two_pow_pos _)]

/-- an odd number times `2^a` is divisible by `2^b` exactly when `b ≤ a` -/
theorem odd_mul_pow_mod {mo a b : Nat} (hodd : mo % 2 = 1) : (mo * 2 ^ a) % 2 ^ b = 0 ↔ b ≤ a := by
  constructor
  · intro h
    by_contra hlt
    have hb : b = a + (b - a - 1) + 1 := by omega
    have hd : 2 ^ b ∣ mo * 2 ^ a := Nat.dvd_of_mod_eq_zero h
    rw [hb, Nat.pow_succ, Nat.pow_add, Nat.mul_comm mo] at hd
    have h2 : 2 ^ a * (2 ^ (b - a - 1) * 2) ∣ 2 ^ a * mo := by
      rw [← Nat.mul_assoc]; exact hd
    have h3 := Nat.dvd_of_mul_dvd_mul_left (Nat.two_pow_pos a) h2
    have h4 : 2 ∣ mo := Dvd.dvd.trans ⟨2 ^ (b - a - 1), by ring⟩ h3
    omega
  · intro h
    have e : a = b + (a - b) := by omega
    rw [e, Nat.pow_add, ← Nat.mul_assoc, Nat.mul_comm mo, Nat.mul_assoc]
    exact Nat.mul_mod_right _ _

theorem pow5_odd (k : Nat) : 5 ^ k % 2 = 1 := by
  induction k with
  | zero => rfl
  | succ k ih => rw [Nat.pow_succ, Nat.mul_mod, ih]

theorem odd_mul_odd {a b : Nat} (ha : a % 2 = 1) (hb : b % 2 = 1) : (a * b) % 2 = 1 := by
  rw [Nat.mul_mod, ha, hb]

/-- equal fractions have equal scaled floors and the same exactness: `a/b = c/2^k` -/
theorem cross_floor {a b c k t : Nat} (hb : 0 < b) (h : a * 2 ^ k = c * b) :
    a * t / b = c * t / 2 ^ k ∧ ((a * t) % b ≠ 0 ↔ (c * t) % 2 ^ k ≠ 0) := by
  have h2 : 0 < 2 ^ k := Nat.two_pow_pos k
  have e1 : a * t * 2 ^ k = c * t * b := by
    calc a * t * 2 ^ k = a * 2 ^ k * t := by ring
      _ = c * b * t := by rw [h]
      _ = c * t * b := by ring
  constructor
  · calc a * t / b = a * t * 2 ^ k / (b * 2 ^ k) := (Nat.mul_div_mul_right _ _ h2).symm
      _ = c * t * b / (2 ^ k * b) := by rw [e1, Nat.mul_comm b]
      _ = c * t / 2 ^ k := Nat.mul_div_mul_right _ _ hb
  · rw [not_iff_not]
    constructor
    · intro hm
      have hd : b ∣ a * t := Nat.dvd_of_mod_eq_zero hm
      have : b * 2 ^ k ∣ a * t * 2 ^ k := Nat.mul_dvd_mul_right hd _
      rw [e1, Nat.mul_comm b] at this
      exact Nat.mod_eq_zero_of_dvd (Nat.dvd_of_mul_dvd_mul_right hb this)
    · intro hm
      have hd : 2 ^ k ∣ c * t := Nat.dvd_of_mod_eq_zero hm
      have : 2 ^ k * b ∣ c * t * b := Nat.mul_dvd_mul_right hd _
      rw [← e1, Nat.mul_comm (2 ^ k)] at this
      exact Nat.mod_eq_zero_of_dvd (Nat.dvd_of_mul_dvd_mul_right h2 this)

/-- `mo · 10^fl / 2^(sh + fl) = mo · 5^fl / 2^sh`, exact only when `sh = 0` (for odd `mo`) -/
theorem frac_floor {mo fl sh : Nat} (hodd : mo % 2 = 1) :
    mo * 10 ^ fl / 2 ^ (sh + fl) = mo * 5 ^ fl / 2 ^ sh ∧ ((mo * 10 ^ fl) % 2 ^ (sh + fl) ≠ 0 ↔ 0 < sh) := by
  have e10 : (10 : Nat) ^ fl = 5 ^ fl * 2 ^ fl := by rw [← Nat.mul_pow]
  have e : mo * 10 ^ fl = mo * 5 ^ fl * 2 ^ fl := by rw [e10, Nat.mul_assoc]
  constructor
  · rw [e, Nat.pow_add, Nat.mul_div_mul_right _ _ (Nat.two_pow_pos fl)]
  · rw [e]
    have := odd_mul_pow_mod (a := fl) (b := sh + fl) (odd_mul_odd hodd (pow5_odd fl))
    constructor
    · intro h; by_contra h0
      exact h (this.mpr (by omega))
    · intro h hz
      have := this.mp hz
      omega

/-- the value handled by the digit run, as the fraction `valNum / valDen` (`m · 2^(e-B-M)`) -/
def valNum (M B f e : Nat) : Nat := if B ≤ e then mant M f e * 2 ^ (e - B) else mant M f e
def valDen (M B e : Nat) : Nat := if B ≤ e then 2 ^ M else 2 ^ (M + (B - e))

theorem valDen_pos (M B e : Nat) : 0 < valDen M B e := by unfold valDen; split <;> exact Nat.two_pow_pos _

/-- decimal digits dropped by the no-fraction block (`0` in the fraction block) -/
def runDrop (M B f e p fmt : Nat) : Nat :=
  let j := findFirstBit (mant M f e)
  let pe := if B ≤ e then e - B else B - e
  let digits := estDigits M j pe e
  let fixed := decide (fmt = fmtSemiFixed) || decide (fmt = fmtFixed)
  let extra := decide (p < digits) && !fixed
  if decide (B ≤ e) && (decide (M - j ≤ pe) || extra) then (if extra then digits - (p + 1) else 0) else 0

/-- **`digits_exact_or_sticky`** (closed-form side).  With `v = valNum / valDen` the exact value,
`fl` the fraction length handed to the formatter and `d` the number of dropped decimal digits
(one of them is zero): the BigInt is `⌊v · 10^fl / 10^d⌋` — the exact decimal expansion of `v`
cut after `fl` fractional digits, resp. `d` digits before the point — and `round_up` is set exactly when
the cut-off part is not zero. -/
theorem runSpec_exact {M B f e p fmt : Nat} (hM : M < 63) (hf : f < 2 ^ M) (hnz : e ≠ 0 ∨ f ≠ 0) :
    let r := runSpec M B f e p fmt
    let d := runDrop M B f e p fmt
    (r.2.2.1 = 0 ∨ d = 0) ∧
    r.1 = valNum M B f e * 10 ^ r.2.2.1 / (valDen M B e * 10 ^ d) ∧
    (r.2.2.2.2 = true ↔ (valNum M B f e * 10 ^ r.2.2.1) % (valDen M B e * 10 ^ d) ≠ 0) := by
  have hm0 := mant_pos (M := M) hnz
  have hmlt := mant_lt (e := e) hf
  obtain ⟨hj, hjd, hjo⟩ := findFirstBit_mant hM hm0 hmlt
  have hmo : mant M f e = mant M f e / 2 ^ findFirstBit (mant M f e) * 2 ^ findFirstBit (mant M f e) :=
    (Nat.div_mul_cancel (Nat.dvd_of_mod_eq_zero hjd)).symm
  simp only [runSpec, runDrop, valNum, valDen]
  generalize findFirstBit (mant M f e) = j at *
  generalize hmoe : mant M f e / 2 ^ j = mo at *
  generalize mant M f e = m at *
  by_cases hpos : B ≤ e
  · simp only [hpos, if_true, decide_true, Bool.true_and]
    generalize estDigits M j (e - B) e = dg
    generalize (decide (fmt = fmtSemiFixed) || decide (fmt = fmtFixed)) = fixed
    by_cases hnf : (decide (M - j ≤ e - B) || (decide (p < dg) && !fixed)) = true
    · simp only [hnf, if_true]
      generalize (if (decide (p < dg) && !fixed) = true then dg - (p + 1) else 0) = d
      refine ⟨by simp, ?_, ?_⟩
      · rw [intShift_eq, Nat.pow_zero, Nat.mul_one, Nat.div_div_eq_div_mul]
        congr 1
        rw [Nat.pow_add, Nat.mul_assoc, ← Nat.mul_pow]
      · rw [intShift_eq, Nat.pow_zero, Nat.mul_one]
        have hA : (decide (¬ (M + d < e - B)) && decide (j < M + d - (e - B))) = true ↔ (m * 2 ^ (e - B)) % 2 ^ (M + d) ≠ 0 := by
          have hh : m * 2 ^ (e - B) = mo * 2 ^ (j + (e - B)) := by rw [hmo, Nat.pow_add, Nat.mul_assoc]
          rw [hh]
          have := odd_mul_pow_mod (a := j + (e - B)) (b := M + d) hjo
          simp only [Bool.and_eq_true, decide_eq_true_eq, ne_eq]
          rw [this]; omega
        have hsplit := mod_mul_ne_zero_iff (m * 2 ^ (e - B)) (2 ^ (M + d)) (5 ^ d) (Nat.two_pow_pos _)
        have hden : 2 ^ M * 10 ^ d = 2 ^ (M + d) * 5 ^ d := by rw [Nat.pow_add, Nat.mul_assoc, ← Nat.mul_pow]
        rw [hden, ← hsplit, ← hA]
        simp only [Bool.or_eq_true, decide_eq_true_eq]
    · simp only [hnf, Bool.false_eq_true, if_false]
      have hnb : ¬ (M - j ≤ e - B) := by intro h; apply hnf; simp [h]
      generalize (if fixed = true then p else p - dg) = needed0
      have hfl0 : M - j - (e - B) = fracShift (M - j - (e - B)) needed0 + fracLen (M - j - (e - B)) needed0 := by
        unfold fracShift fracLen; split <;> omega
      have hcross : m * 2 ^ (e - B) * 2 ^ (M - j - (e - B)) = mo * 2 ^ M := by
        rw [hmo, Nat.mul_assoc, Nat.mul_assoc, ← Nat.pow_add, ← Nat.pow_add]; congr 2; omega
      obtain ⟨c1, c2⟩ := cross_floor (t := 10 ^ fracLen (M - j - (e - B)) needed0) (Nat.two_pow_pos M) hcross
      have hff := frac_floor (fl := fracLen (M - j - (e - B)) needed0) (sh := fracShift (M - j - (e - B)) needed0) hjo
      rw [← hfl0] at hff
      refine ⟨by simp, ?_, ?_⟩
      · rw [Nat.pow_zero, Nat.mul_one, c1, hff.1]
      · rw [Nat.pow_zero, Nat.mul_one, c2, hff.2]
        simp only [decide_eq_true_eq]
        unfold fracShift; split <;> omega
  · simp only [hpos, if_false, decide_false, Bool.false_and, Bool.false_eq_true]
    generalize estDigits M j (B - e) e = dg
    generalize dg + p = needed0
    have hfl0 : M - j + (B - e) = fracShift (M - j + (B - e)) needed0 + fracLen (M - j + (B - e)) needed0 := by
      unfold fracShift fracLen; split <;> omega
    have hcross : m * 2 ^ (M - j + (B - e)) = mo * 2 ^ (M + (B - e)) := by
      rw [hmo, Nat.mul_assoc, ← Nat.pow_add]; congr 2; omega
    obtain ⟨c1, c2⟩ := cross_floor (t := 10 ^ fracLen (M - j + (B - e)) needed0) (Nat.two_pow_pos (M + (B - e))) hcross
    have hff := frac_floor (fl := fracLen (M - j + (B - e)) needed0) (sh := fracShift (M - j + (B - e)) needed0) hjo
    rw [← hfl0] at hff
    refine ⟨by simp, ?_, ?_⟩
    · rw [Nat.pow_zero, Nat.mul_one, c1, hff.1]
    · rw [Nat.pow_zero, Nat.mul_one, c2, hff.2]
      simp only [decide_eq_true_eq]
      unfold fracShift; split <;> omega

/-! ### the same value as the reference decodes -/

/-- `valNum / valDen` is the fraction `FmtSpec.decode` returns, scaled by a positive `k` -/
theorem decode_val {M X bits : Nat} (hM : 0 < M) (hX : 2 ≤ X)
    (hfin : (bits / 2 ^ M) % 2 ^ X ≠ 2 ^ X - 1) :
    ∃ k num den, 0 < k ∧ 0 < den ∧
      FmtSpec.decode M X bits = .fin (decide ((bits / 2 ^ (M + X)) % 2 = 1)) num den ∧
      valNum M (2 ^ (X - 1) - 1) (bits % 2 ^ M) ((bits / 2 ^ M) % 2 ^ X) = k * num ∧
      valDen M (2 ^ (X - 1) - 1) ((bits / 2 ^ M) % 2 ^ X) = k * den := by
  generalize hB : 2 ^ (X - 1) - 1 = B
  generalize he : (bits / 2 ^ M) % 2 ^ X = e at *
  generalize hf : bits % 2 ^ M = f
  have hBpos : 0 < B := by
    have : 2 ^ 1 ≤ 2 ^ (X - 1) := Nat.pow_le_pow_right (by decide) (by omega)
    omega
  unfold FmtSpec.decode valNum valDen mant
  simp only [he, hf, hB, hfin, if_false]
  by_cases he0 : e = 0
  · -- subnormal
    have h1 : ¬ (B + M ≤ 1) := by omega
    have h2 : ¬ (B ≤ 0) := by omega
    subst he0
    simp only [if_true, h1, if_false, h2]
    refine ⟨2, f, 2 ^ (B + M - 1), by decide, Nat.two_pow_pos _, rfl, rfl, ?_⟩
    have : M + (B - 0) = (B + M - 1) + 1 := by omega
    rw [this, Nat.pow_succ, Nat.mul_comm]
  · simp only [he0, if_false]
    by_cases h1 : B + M ≤ e
    · have h2 : B ≤ e := by omega
      simp only [h1, h2, if_true]
      refine ⟨2 ^ M, (2 ^ M + f) * 2 ^ (e - (B + M)), 1, Nat.two_pow_pos _, by decide, rfl, ?_, by simp⟩
      have : e - B = M + (e - (B + M)) := by omega
      rw [this, Nat.pow_add]; ring
    · simp only [h1, if_false]
      by_cases h2 : B ≤ e
      · simp only [h2, if_true]
        refine ⟨2 ^ (e - B), 2 ^ M + f, 2 ^ (B + M - e), Nat.two_pow_pos _, Nat.two_pow_pos _, rfl, by ring, ?_⟩
        rw [← Nat.pow_add]; congr 1; omega
      · simp only [h2, if_false]
        refine ⟨1, 2 ^ M + f, 2 ^ (B + M - e), by decide, Nat.two_pow_pos _, rfl, by simp, ?_⟩
        rw [Nat.one_mul]; congr 1; omega

/-- scaling numerator and denominator by `k > 0` changes neither the scaled floor nor exactness -/
theorem scale_floor {k a b t u : Nat} (hk : 0 < k) :
    (k * a) * t / ((k * b) * u) = a * t / (b * u) ∧
    (((k * a) * t) % ((k * b) * u) ≠ 0 ↔ (a * t) % (b * u) ≠ 0) := by
  have e1 : k * a * t = k * (a * t) := by ring
  have e2 : k * b * u = k * (b * u) := by ring
  rw [e1, e2]
  constructor
  · exact Nat.mul_div_mul_left _ _ hk
  · rw [Nat.mul_mod_mul_left]
    constructor
    · intro h h0; apply h; rw [h0, Nat.mul_zero]
    · intro h h0
      rcases Nat.mul_eq_zero.mp h0 with h1 | h1
      · omega
      · exact h h1

/-- **`digits_exact_or_sticky`**, generic in the configuration: for a finite non-zero bit pattern the
digit run returns, without fault, the BigInt `⌊v · 10^fl / 10^d⌋` of the exact value `v = num/den`
decoded by the reference (`fl` fractional digits kept, or `d` integer digits dropped — never both),
and `round_up` is true exactly when what was cut off is not zero. -/
theorem digitRun_exact {c : Cfg} {M X : Nat} (hc : Shape c M (2 ^ (X - 1) - 1)) (hM : 0 < M) (hX : 2 ≤ X)
    (bits p fmt : Nat) (hp : p ≤ 40)
    (hfin : (bits / 2 ^ M) % 2 ^ X ≠ 2 ^ X - 1)
    (hnz : (bits / 2 ^ M) % 2 ^ X ≠ 0 ∨ bits % 2 ^ M ≠ 0) :
    ∃ b digits fl pos ru d num den,
      digitRun c (bits % 2 ^ M) ((bits / 2 ^ M) % 2 ^ X * 2 ^ M) p fmt = .ok (b, digits, fl, pos, ru) ∧
      FmtSpec.decode M X bits = .fin (decide ((bits / 2 ^ (M + X)) % 2 = 1)) num den ∧ 0 < den ∧
      (fl = 0 ∨ d = 0) ∧
      b = num * 10 ^ fl / (den * 10 ^ d) ∧
      (ru = true ↔ (num * 10 ^ fl) % (den * 10 ^ d) ≠ 0) := by
  obtain ⟨k, num, den, hk, hden, hdec, hvn, hvd⟩ := decode_val (bits := bits) hM hX hfin
  have hf : bits % 2 ^ M < 2 ^ M := Nat.mod_lt _ (Nat.two_pow_pos M)
  have he : (bits / 2 ^ M) % 2 ^ X ≤ 2 * (2 ^ (X - 1) - 1) := by
    have h1 : (bits / 2 ^ M) % 2 ^ X < 2 ^ X := Nat.mod_lt _ (Nat.two_pow_pos X)
    have h2 : 2 ^ X = 2 * 2 ^ (X - 1) := by
      have : X = (X - 1) + 1 := by omega
      conv_lhs => rw [this, Nat.pow_succ, Nat.mul_comm]
    omega
  have hrun := digitRun_eq_spec hc (fmt := fmt) hf he hnz hp
  have hex := runSpec_exact (B := 2 ^ (X - 1) - 1) (p := p) (fmt := fmt) hc.mlt hf hnz
  rw [hvn, hvd] at hex
  generalize runSpec M (2 ^ (X - 1) - 1) (bits % 2 ^ M) ((bits / 2 ^ M) % 2 ^ X) p fmt = r at hrun hex
  generalize runDrop M (2 ^ (X - 1) - 1) (bits % 2 ^ M) ((bits / 2 ^ M) % 2 ^ X) p fmt = d at hex
  obtain ⟨b, dg, fl, pos, ru⟩ := r
  obtain ⟨h1, h2, h3⟩ := hex
  obtain ⟨s1, s2⟩ := scale_floor (a := num) (b := den) (t := 10 ^ fl) (u := 10 ^ d) hk
  exact ⟨b, dg, fl, pos, ru, d, num, den, hrun, hdec, hden, h1, by rw [← s1]; exact h2, by rw [← s2]; exact h3⟩

end Qentem.Proofs.NumToStr
