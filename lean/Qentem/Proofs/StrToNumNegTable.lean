import Qentem.Proofs.StrToNumNegExact
import Qentem.Proofs.StrToNumNegUlp
/-! C09/C11 helper lemmas: **every mantissa** on the negative-exponent path.

`powerOfNegativeTen` does not normalise the mantissa (`b = num << 64`), so for a short mantissa and a
long chain of multiply-shift steps the big integer is narrow and the generic error bound is too weak
to decide the rounding.  Here the analytic theorem (`powerOfNegativeTen_exact_wide`) is combined with
* monotonicity of the pipeline in the mantissa: above a threshold `thr x` (the least mantissa whose
  big integer is `Wide`, at most 618) the analytic theorem applies;
* a finite table evaluated by the kernel for the 16 996 pairs `(v, x)`, `v < thr x`, `x < 344`:
  the result is the correctly rounded one, or the margin fails — **except** for `1e-273`, `1e-286`,
  `1e-292`, where the code is one unit off although the value is 0.040/0.068/0.039 ulp from the tie. -/
namespace Qentem.StrToNum
open Qentem.Round Qentem.Generated.StrToNum

theorem negIter_mono (r : Nat) : ∀ n b b', b ≤ b' → negIter r n b ≤ negIter r n b'
  | 0, _, _, h => h
  | n + 1, b, b', h => by
    rw [negIter, negIter]
    exact negIter_mono r n _ _ (Nat.div_le_div_right (Nat.mul_le_mul_right _ h))

/-- the big integer of the pipeline is monotone in the mantissa -/
theorem negScale_mono (v w x b s b' s' : Nat) (hvw : v ≤ w) (hw : w < 2 ^ 64)
    (h1 : negScale v x = some (b, s)) (h2 : negScale w x = some (b', s')) : b ≤ b' := by
  obtain ⟨r27, s27, hr27, _, hc1⟩ := negScale_closed v x (by omega)
  obtain ⟨r27', s27', hr27', _, hc2⟩ := negScale_closed w x hw
  have hr : r27' = r27 := by rw [hr27] at hr27'; exact (Option.some.inj hr27').symm
  subst hr
  have hm := negIter_mono r27' (x / 27) (v * 2 ^ 64) (w * 2 ^ 64) (Nat.mul_le_mul_right _ hvw)
  rcases hc1 with ⟨h0, e1⟩ | ⟨h0, rj, sj, hrj, _, e1⟩
  · rcases hc2 with ⟨_, e2⟩ | ⟨h0', _⟩
    · rw [e1] at h1; rw [e2] at h2
      simp only [Option.some.injEq, Prod.mk.injEq] at h1 h2
      rw [← h1.1, ← h2.1]; exact hm
    · exact absurd h0 h0'
  · rcases hc2 with ⟨h0', _⟩ | ⟨_, rj', sj', hrj', _, e2⟩
    · exact absurd h0' h0
    · have hrj2 : rj' = rj := by rw [hrj] at hrj'; exact (Option.some.inj hrj').symm
      subst hrj2
      rw [e1] at h1; rw [e2] at h2
      simp only [Option.some.injEq, Prod.mk.injEq] at h1 h2
      rw [← h1.1, ← h2.1]
      exact Nat.div_le_div_right (Nat.mul_le_mul_right _ hm)

/-- the big integer (0 when the pipeline faults, which it never does) -/
def negB (num x : Nat) : Nat :=
  match negScale num x with
  | some (b, _) => b
  | none => 0

def wideB (b k : Nat) : Bool :=
  decide (2 ^ 59 ≤ b) && decide (1024 * k + 1 ≤ (128 - 8 * k) * 2 ^ (Nat.log2 b - 54))

theorem wideB_iff (b k : Nat) : wideB b k = true ↔ Wide b k := by
  unfold wideB Wide; simp

/-- `thr x`: the least mantissa whose big integer is `Wide` after the steps for `10^-x` -/
def thrTab : List Nat := [
  1, 1, 1, 1, 1, 1, 1, 1, 1, 1, 1, 1, 1, 1, 1, 1, 1, 1, 1, 1, 1, 1, 1, 1, 1, 1, 1,
  1, 1, 1, 1, 1, 1, 1, 1, 1, 1, 1, 1, 1, 1, 1, 1, 1, 1, 1, 1, 1, 1, 1, 1, 1, 1, 1,
  1, 1, 1, 1, 1, 1, 1, 1, 1, 1, 1, 1, 1, 1, 1, 1, 1, 1, 1, 1, 1, 1, 1, 1, 1, 1, 1,
  1, 1, 1, 1, 1, 1, 1, 1, 1, 1, 1, 1, 1, 1, 1, 1, 1, 1, 1, 1, 1, 1, 1, 1, 1, 1, 1,
  1, 1, 1, 1, 1, 1, 1, 1, 1, 1, 1, 1, 1, 1, 1, 1, 1, 1, 1, 1, 1, 1, 1, 1, 1, 1, 1,
  1, 2, 3, 3, 2, 3, 3, 2, 3, 3, 2, 3, 3, 2, 2, 3, 2, 2, 3, 2, 2, 3, 2, 2, 3, 2, 2,
  3, 3, 4, 5, 3, 4, 5, 3, 4, 5, 3, 4, 5, 3, 4, 4, 3, 4, 4, 3, 4, 4, 3, 3, 4, 3, 3,
  4, 9, 12, 15, 9, 11, 14, 9, 11, 14, 9, 11, 14, 9, 11, 13, 8, 10, 13, 8, 10, 13, 8, 10, 12, 8, 10,
  12, 15, 19, 23, 15, 18, 23, 14, 18, 22, 14, 17, 22, 14, 17, 21, 13, 17, 21, 13, 16, 20, 13, 16, 20, 12, 15,
  19, 24, 30, 37, 23, 29, 36, 23, 28, 35, 22, 28, 35, 22, 27, 34, 21, 27, 33, 21, 26, 32, 20, 25, 32, 20, 25,
  31, 76, 95, 119, 74, 93, 116, 73, 91, 113, 71, 89, 111, 69, 87, 108, 68, 85, 106, 66, 83, 103, 65, 81, 101, 63, 79,
  98, 123, 153, 192, 120, 150, 187, 117, 146, 183, 114, 143, 179, 112, 140, 174, 109, 136, 170, 107, 133, 166, 104, 130, 162, 102, 127,
  159, 396, 495, 618, 386, 483, 604, 377, 472, 589, 369, 461, 576, 360, 450, 562, 352, 439, 549, 343]

def thr (x : Nat) : Nat := thrTab.getD x 0

/-- `p` holds on `lo, lo+1, …, lo+n-1` -/
def allFrom (p : Nat → Bool) (lo : Nat) : Nat → Bool
  | 0 => true
  | n + 1 => p lo && allFrom p (lo + 1) n

theorem allFrom_spec (p : Nat → Bool) : ∀ n lo, allFrom p lo n = true → ∀ i, lo ≤ i → i < lo + n → p i = true
  | 0, lo, _, i, h1, h2 => by omega
  | n + 1, lo, h, i, h1, h2 => by
    rw [allFrom, Bool.and_eq_true] at h
    rcases Nat.eq_or_lt_of_le h1 with e | e
    · subst e; exact h.1
    · exact allFrom_spec p n (lo + 1) h.2 i e (by omega)

theorem thr_wide_all : allFrom (fun x => wideB (negB (thr x) x) (stepsOf x)) 0 344 = true := by decide +kernel

theorem thr_wide (x : Nat) (hx : x < 344) : Wide (negB (thr x) x) (stepsOf x) :=
  (wideB_iff _ _).1 (allFrom_spec _ 344 0 thr_wide_all x (Nat.zero_le _) (by omega))

/-- the three numerals with a one-digit mantissa where the code is one unit off at more than 1/32 ulp from the tie -/
def negExc (v x : Nat) : Prop := v = 1 ∧ (x = 273 ∨ x = 286 ∨ x = 292)

def marginB (A B : Nat) : Bool := decide (32 * (A % B) + B ≤ 16 * B) || decide (17 * B ≤ 32 * (A % B))

theorem marginB_iff (A B : Nat) : marginB A B = true ↔ MarginPair A B := by
  unfold marginB MarginPair; simp

/-- the table entry: exact, or no margin, or one of the three exceptions -/
def okB (x v : Nat) : Bool :=
  (powerOfNegativeTen v x == some (nearestMag v (10 ^ x))) ||
  !(marginB (roundPair v (10 ^ x)).1 (roundPair v (10 ^ x)).2) ||
  (v == 1 && (x == 273 || x == 286 || x == 292))

/-- row `x` of the table: all mantissas `1 ≤ v < thr x` -/
def rowB (x : Nat) : Bool := allFrom (okB x) 1 (thr x - 1)

end Qentem.StrToNum
