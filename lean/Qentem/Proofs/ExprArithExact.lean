import Qentem.Model.Expr
/-!
# C04 — 64-bit wrapping arithmetic against integer arithmetic: signed multiplication, `PowerOf`
-/
set_option linter.unusedVariables false
namespace Qentem.Expr

/-- a 64-bit pattern is its signed reading plus 0 or 2^64 -/
theorem toInt_split (x : Nat) (hx : x < W64) : ∃ e : Int, (e = 0 ∨ e = 1) ∧ (x : Int) = toInt x + (W64 : Int) * e := by
  unfold toInt
  by_cases h : x < H64
  · exact ⟨0, Or.inl rfl, by simp [h]⟩
  · exact ⟨1, Or.inr rfl, by simp [h]⟩

theorem toInt_range (x : Nat) (hx : x < W64) : -(H64 : Int) ≤ toInt x ∧ toInt x < (H64 : Int) := by
  unfold toInt
  simp only [W64, H64] at *
  split <;> omega

/-- the signed reading of a wrapped value is the value, when the value fits -/
theorem toInt_wrap_of (z : Nat) (v : Int) (k : Int) (hz : (z : Int) = v + (W64 : Int) * k)
    (hlo : -(H64 : Int) ≤ v) (hhi : v < (H64 : Int)) : wrap z < W64 ∧ toInt (wrap z) = v := by
  have hW : (0 : Int) < (W64 : Int) := by simp [W64]
  have hw : ((wrap z : Nat) : Int) = (z : Int) % (W64 : Int) := by simp [wrap]
  have hmod : (z : Int) % (W64 : Int) = v % (W64 : Int) := by
    rw [hz, Int.add_mul_emod_self_left]
  refine ⟨by unfold wrap; exact Nat.mod_lt _ (by simp [W64]), ?_⟩
  by_cases hv : 0 ≤ v
  · have : v % (W64 : Int) = v := Int.emod_eq_of_lt hv (by simp only [W64, H64] at *; omega)
    rw [hmod, this] at hw
    unfold toInt
    have hlt : wrap z < H64 := by
      have : ((wrap z : Nat) : Int) < (H64 : Int) := by rw [hw]; exact hhi
      exact Int.ofNat_lt.mp this
    simp only [hlt, if_true]; exact hw
  · have : v % (W64 : Int) = v + (W64 : Int) := by
      have h1 : (v + (W64 : Int)) % (W64 : Int) = v % (W64 : Int) := Int.add_emod_right _ _
      rw [← h1]
      exact Int.emod_eq_of_lt (by simp only [W64, H64] at *; omega) (by omega)
    rw [hmod, this] at hw
    unfold toInt
    have hge : ¬ wrap z < H64 := by
      intro h
      have : ((wrap z : Nat) : Int) < (H64 : Int) := Int.ofNat_lt.mpr h
      rw [hw] at this
      simp only [W64, H64] at *; omega
    simp only [hge, if_false]; rw [hw]; omega

/-- 64-bit multiplication of two patterns is the product of the signed readings, when it fits -/
theorem toInt_mul (x y : Nat) (hx : x < W64) (hy : y < W64)
    (hlo : -(H64 : Int) ≤ toInt x * toInt y) (hhi : toInt x * toInt y < (H64 : Int)) :
    wrap (x * y) < W64 ∧ toInt (wrap (x * y)) = toInt x * toInt y := by
  obtain ⟨e, _, hxe⟩ := toInt_split x hx
  obtain ⟨f, _, hyf⟩ := toInt_split y hy
  apply toInt_wrap_of (x * y) _ (toInt x * f + e * toInt y + (W64 : Int) * e * f) _ hlo hhi
  rw [Int.natCast_mul, hxe, hyf]
  generalize (W64 : Int) = W
  generalize toInt x = a
  generalize toInt y = b
  grind


/-- `PowerOf` is the power modulo 2^64 -/
theorem powerOfF_eq : ∀ (f l r : Nat), l < W64 → 1 ≤ r → r < 2 ^ f → powerOfF f l r = l ^ r % W64 := by
  intro f
  induction f with
  | zero => intro l r _ h1 h2; simp at h2; omega
  | succ f ih =>
    intro l r hl h1 h2
    have h2' : r < 2 * 2 ^ f := by rw [Nat.pow_succ] at h2; omega
    simp only [powerOfF]
    by_cases hr : r > 1
    · simp only [hr, if_true]
      by_cases he : r % 2 = 0
      · simp only [he, if_true]
        rw [ih l (r / 2) hl (by omega) (by omega)]
        simp only [wrap]
        rw [← Nat.mul_mod, ← Nat.pow_add, show r / 2 + r / 2 = r by omega]
      · simp only [he, if_false]
        rw [ih l ((r - 1) / 2) hl (by omega) (by omega)]
        simp only [wrap]
        rw [← Nat.mul_mod, ← Nat.pow_add, Nat.mod_mul_mod, ← Nat.pow_succ,
          show ((r - 1) / 2 + (r - 1) / 2).succ = r by omega]
    · simp only [hr, if_false]
      have : r = 1 := by omega
      subst this
      rw [Nat.pow_one, Nat.mod_eq_of_lt hl]

theorem powerOf_eq (l r : Nat) (hl : l < W64) (h1 : 1 ≤ r) (hr : r < W64) (hfit : l ^ r < W64) :
    powerOf l r = l ^ r := by
  unfold powerOf
  rw [powerOfF_eq 65 l r hl h1 (by simp only [W64] at hr; omega), Nat.mod_eq_of_lt hfit]

theorem neg_pow_int (m : Int) : ∀ n : Nat, (-m) ^ n = if n % 2 = 1 then -(m ^ n) else m ^ n := by
  intro n
  induction n with
  | zero => simp
  | succ n ih =>
    rw [Int.pow_succ, ih, Int.pow_succ]
    by_cases h : n % 2 = 1
    · have h' : ¬ (n + 1) % 2 = 1 := by omega
      simp only [h, h', if_true, if_false]
      rw [Int.neg_mul_neg]
    · have h' : (n + 1) % 2 = 1 := by omega
      simp only [h, h', if_true, if_false]
      rw [Int.mul_neg]

theorem toInt_negBits (p : Nat) (h0 : 0 < p) (hp : p < H64) : negBits p < W64 ∧ toInt (negBits p) = -(p : Int) := by
  have hw : wrap p = p := Nat.mod_eq_of_lt (by simp only [W64, H64] at *; omega)
  have hn : negBits p = W64 - p := by
    unfold negBits; rw [hw]; exact Nat.mod_eq_of_lt (by simp only [W64, H64] at *; omega)
  rw [hn]
  refine ⟨by simp only [W64]; omega, ?_⟩
  unfold toInt
  simp only [W64, H64] at *
  split <;> omega

end Qentem.Expr
