import Qentem.Proofs.StrToNumExpPath
/-! C09 helper lemmas: the real tail (`finishReal`) once the mantissa has been scanned — either the
numeral ends, or an exponent `(e|E) [+-] digits` follows — for any mantissa kind (integer, with a
dot, fraction-only). -/
namespace Qentem.StrToNum
open Qentem.Round

/-- `[+-]? k₁…k_j` (1..8 digits) at `q`, ended by a non-digit or `end_offset` -/
theorem parseExponent_shape (c : List Nat) (e q : Nat) (es ks : List Nat) (hes : es = [] ∨ es = [43] ∨ es = [45])
    (hks : AllDigits ks) (hk0 : ks ≠ []) (hk8 : ks.length ≤ 8) (hu : unitsAt c e q (es ++ ks))
    (hend : endsAt c e (q + es.length + ks.length) isDigit) :
    parseExponent c e q = some (true, decVal ks, decide (es = [45]), q + es.length + ks.length) := by
  obtain ⟨k1, kt, hkseq⟩ : ∃ k1 kt, ks = k1 :: kt := by
    cases ks with
    | nil => exact absurd rfl hk0
    | cons a b => exact ⟨a, b, rfl⟩
  have hk1d : isDigit k1 = true := hks k1 (by rw [hkseq]; simp)
  have hk1ns : ¬ (k1 = 43 ∨ k1 = 45) := by simp [isDigit] at hk1d; omega
  have hklen : 0 < ks.length := by rw [hkseq]; simp
  have hu' := (unitsAt_append c e es ks q).1 hu
  unfold parseExponent
  rcases hes with rfl | rfl | rfl
  · simp only [List.length_nil, Nat.add_zero] at hu' hend ⊢
    have hk1r : rd c e q = some k1 := by have := hu'.2; rw [hkseq] at this; exact this.1
    have hlt := rd_lt hk1r
    simp only [hlt, if_true, hk1r, hk1ns, if_false]
    rw [expDigits_all c e ks q hks hu'.2 hk8 hend]
    have : (q + ks.length != q) = true := by simp; omega
    simp [this]
  · simp only [List.length_singleton] at hu' hend ⊢
    have hpr : rd c e q = some 43 := hu'.1.1
    have hlt := rd_lt hpr
    have hk1r : rd c e (q + 1) = some k1 := by have := hu'.2; rw [hkseq] at this; exact this.1
    have hlt1 := rd_lt hk1r
    simp only [hlt, if_true, hpr, true_or, hlt1, hk1r, hk1ns, if_false]
    rw [expDigits_all c e ks (q + 1) hks hu'.2 hk8 hend]
    have : (q + 1 + ks.length != q + 1) = true := by simp; omega
    simp [this]
  · simp only [List.length_singleton] at hu' hend ⊢
    have hpr : rd c e q = some 45 := hu'.1.1
    have hlt := rd_lt hpr
    have hk1r : rd c e (q + 1) = some k1 := by have := hu'.2; rw [hkseq] at this; exact this.1
    have hlt1 := rd_lt hk1r
    simp only [hlt, if_true, hpr, or_true, hlt1, hk1r, hk1ns, if_false]
    rw [expDigits_all c e ks (q + 1) hks hu'.2 hk8 hend]
    have : (q + 1 + ks.length != q + 1) = true := by simp; omega
    simp [this]

/-- net decimal exponent after folding in the `f` scanned fraction digits:
`(x, negative?)` for `10^(±k − f)`; a `-0` exponent counts as negative only on the fraction-only path -/
def netExp (fo : Bool) (k : Nat) (kneg : Bool) (f : Nat) : Nat × Bool :=
  if kneg && (fo || decide (k ≠ 0)) then (k + f, true)
  else if k ≥ f then (k - f, false) else (f - k, true)

/-- the numeral ends right after the mantissa -/
theorem finishReal_end (c : List Nat) (e : Nat) (neg : Bool) (num off tmp start : Nat) (fo hasDot : Bool) (dotOff : Nat)
    (hoff : off ≤ e) (hend : endsAt c e off contReal) (ep10 f : Nat)
    (hep : sub32 (sub32 tmp start) (b2n (!fo && hasDot)) = ep10)
    (hen : (if fo then add32 ep10 (sub32 (sub32 start dotOff) 1) else if hasDot then sub32 (sub32 off dotOff) 1 else 0) = f)
    (hf : f < 2 ^ 31) :
    finishReal c e neg num off tmp start fo hasDot dotOff =
      realResult neg num ep10 (netExp fo 0 false f).1 (netExp fo 0 false f).2 off := by
  rw [finishReal, tailLoop_stop c e num off hasDot dotOff hoff hend]
  simp only [hep, hen]
  rw [if_neg (by omega)]
  have hadj : adjustExponent fo off dotOff f ⟨off, hasDot, dotOff, 0, 0, false⟩ = netExp fo 0 false f := by
    unfold adjustExponent netExp
    simp only [ne_eq, not_true_eq_false, and_false, if_false, Bool.false_eq_true, Bool.false_and, ge_iff_le]
    by_cases hf0 : f ≤ 0
    · have : f = 0 := by omega
      subst this; simp [sub32]
    · simp only [hf0, if_false]
      rw [sub32_eq f 0 (Nat.zero_le _) (by omega)]
  rw [hadj]

/-- an exponent `(e|E) [+-] digits` follows the mantissa at `off` -/
theorem finishReal_exp (c : List Nat) (e : Nat) (neg : Bool) (num off tmp start : Nat) (fo hasDot : Bool) (dotOff m : Nat)
    (es ks : List Nat) (hm : rd c e off = some m) (hmE : m = 101 ∨ m = 69) (hoff0 : off ≠ 0) (he : e < 2 ^ 32)
    (hes : es = [] ∨ es = [43] ∨ es = [45]) (hks : AllDigits ks) (hk0 : ks ≠ []) (hk8 : ks.length ≤ 8)
    (hu : unitsAt c e (off + 1) (es ++ ks)) (hend : endsAt c e (off + 1 + es.length + ks.length) isDigit)
    (ep10 f : Nat) (hep : sub32 (sub32 tmp start) (b2n (!fo && hasDot)) = ep10)
    (hen : (if fo then add32 ep10 (sub32 (sub32 start dotOff) 1) else if hasDot then sub32 (sub32 off dotOff) 1 else 0) = f)
    (hf : f < 2 ^ 31) :
    finishReal c e neg num off tmp start fo hasDot dotOff =
      realResult neg num ep10 (netExp fo (decVal ks) (decide (es = [45])) f).1
        (netExp fo (decVal ks) (decide (es = [45])) f).2 (off + 1 + es.length + ks.length) := by
  have hlt := rd_lt hm
  obtain ⟨kk, hkk⟩ : ∃ kk, e - off = kk + 1 := ⟨e - off - 1, by omega⟩
  have hmd : isDigit m = false := by rcases hmE with h | h <;> subst h <;> decide
  have hm46 : m ≠ 46 := by omega
  have hpe := parseExponent_shape c e (off + 1) es ks hes hks hk0 hk8 hu hend
  have htail : tailLoop c e num (e - off) off hasDot dotOff =
      some (.inr ⟨off + 1 + es.length + ks.length, hasDot, dotOff, off, decVal ks, decide (es = [45])⟩) := by
    rw [hkk, tailLoop, hm]
    simp only [hmd, Bool.false_eq_true, if_false, hm46, hmE, if_true, hpe]
  have hk32 : decVal ks < 10 ^ 8 := Nat.lt_of_lt_of_le (decVal_lt_pow ks hks) (Nat.pow_le_pow_right (by decide) hk8)
  have hklen : 0 < ks.length := by
    cases ks with
    | nil => exact absurd rfl hk0
    | cons a b => simp
  rw [finishReal, htail]
  simp only [hep, hen]
  rw [if_neg (by omega)]
  generalize decVal ks = k at *
  generalize decide (es = [45]) = kneg
  have hadj : adjustExponent fo off dotOff f ⟨off + 1 + es.length + ks.length, hasDot, dotOff, off, k, kneg⟩ =
      netExp fo k kneg f := by
    unfold adjustExponent netExp
    have hne : off ≠ off + 1 + es.length + ks.length := by omega
    simp only [ne_eq, hne, not_false_eq_true, and_true, hoff0, if_false, not_true_eq_false]
    have hextra : (if (!hasDot) = true then sub32 off off else 0) = 0 := by
      split
      · rw [sub32_eq _ _ (Nat.le_refl _) (by omega)]; omega
      · rfl
    rw [hextra]
    cases fo <;> cases kneg <;> simp only [Bool.not_false, Bool.not_true, Bool.false_eq_true, if_false, if_true,
      Bool.true_and, Bool.false_and, Bool.true_or, Bool.false_or, Bool.and_true, Bool.and_false]
    all_goals (try rw [add32_eq k 0 (by omega)])
    all_goals (try simp only [Nat.add_zero])
    · -- !fo, positive exponent
      by_cases h : k ≥ f
      · simp only [h, if_true, ge_iff_le]; rw [sub32_eq k f h (by omega)]
      · simp only [h, if_false, ge_iff_le]; rw [sub32_eq f k (by omega) (by omega)]
    · -- !fo, negative exponent
      by_cases hk0' : k = 0
      · subst hk0'
        simp only [Nat.le_refl, if_true, ne_eq, not_true_eq_false, decide_false, Bool.false_eq_true, if_false,
          ge_iff_le, Nat.zero_le]
        rw [sub32_eq 0 0 (Nat.le_refl _) (by omega)]
        by_cases h : f ≤ 0
        · have : f = 0 := by omega
          subst this; simp [sub32]
        · simp only [Nat.sub_self, h, if_false]; rw [sub32_eq f 0 (Nat.zero_le _) (by omega)]
      · have h1 : ¬ (k ≤ 0) := by omega
        simp only [h1, if_false, ne_eq, hk0', not_false_eq_true, decide_true, if_true]
        rw [sub32_eq k 0 (Nat.zero_le _) (by omega), Nat.sub_zero, add32_eq k f (by omega)]
    · -- fo, positive exponent
      by_cases h : k ≥ f
      · simp only [h, if_true, ge_iff_le]; rw [sub32_eq k f h (by omega)]
      · simp only [h, if_false, ge_iff_le]; rw [sub32_eq f k (by omega) (by omega)]
    · -- fo, negative exponent
      rw [add32_eq k f (by omega)]
  rw [hadj]

end Qentem.StrToNum
