import Qentem.Proofs.StrToNumLongInt
import Qentem.Proofs.StrToNumCloseAll
/-! C09: the outcome statement on a **fraction** `n/d` (`Good`), and `realResult` on a truncated mantissa in general
(`realResult_trunc`): kept mantissa `v` (`≥ 10^17`), `j` dropped digits, exact mantissa `vt`, code exponent `(x, negExp)`;
the exact value is `vt·10^(±x − j)`. -/
set_option linter.unusedSimpArgs false
namespace Qentem.StrToNum
open Qentem.Round

/-- the C09 outcome for a numeral of exact magnitude `n/d` and sign `neg`: consumed up to `fin`; NotANumber only if the
value is below the smallest subnormal or above the largest finite double; otherwise a `Real` with the sign bit of the
text, within one ulp of the correctly rounded value, and — when the value exceeds the largest finite double — the
largest finite double or an infinity -/
def Good (neg : Bool) (n d fin : Nat) (res : Option Res) : Prop :=
  ∃ r, res = some r ∧ r.offset = fin ∧
    ((r.kind = .notANumber ∧ (n * 2 ^ 1074 < d ∨ (2 ^ 53 - 1) * 2 ^ 971 * d < n)) ∨
     (r.kind = .real ∧ r.bits / 2 ^ 63 = b2n neg ∧ ulpDist (r.bits % 2 ^ 63) (nearestMag n d) ≤ 1 ∧
        ((2 ^ 53 - 1) * 2 ^ 971 * d < n → r.bits % 2 ^ 63 = maxFiniteBits ∨ infBits ≤ r.bits % 2 ^ 63)))

theorem good_of_class {neg : Bool} {v X : Nat} {FLAG : Bool} {fin : Nat} {res : Option Res}
    (h : ClassOutcome neg v X FLAG fin res) :
    Good neg (if FLAG then v else v * 10 ^ X) (if FLAG then 10 ^ X else 1) fin res := by
  obtain ⟨r, h1, h2, h3⟩ := h
  refine ⟨r, h1, h2, ?_⟩
  cases FLAG with
  | true =>
    simp only [if_true] at h3 ⊢
    rcases h3 with ⟨a, b⟩ | ⟨a, b, c, d⟩
    · exact Or.inl ⟨a, Or.inl b⟩
    · exact Or.inr ⟨a, b, c, d⟩
  | false =>
    simp only [Bool.false_eq_true, if_false, Nat.mul_one] at h3 ⊢
    rcases h3 with ⟨a, b⟩ | ⟨a, b, c, d⟩
    · exact Or.inl ⟨a, Or.inr b⟩
    · exact Or.inr ⟨a, b, c, d⟩

/-- the outcome does not depend on the representation of the fraction -/
theorem good_scale {neg : Bool} {n d c fin : Nat} {res : Option Res} (hn : 0 < n) (hd : 0 < d) (hc : 0 < c)
    (h : Good neg n d fin res) : Good neg (n * c) (d * c) fin res := by
  obtain ⟨r, h1, h2, h3⟩ := h
  refine ⟨r, h1, h2, ?_⟩
  rcases h3 with ⟨a, b⟩ | ⟨a, b, e, f⟩
  · left
    refine ⟨a, ?_⟩
    rcases b with b | b
    · left
      calc n * c * 2 ^ 1074 = n * 2 ^ 1074 * c := by ring
        _ < d * c := Nat.mul_lt_mul_of_pos_right b hc
    · right
      calc (2 ^ 53 - 1) * 2 ^ 971 * (d * c) = (2 ^ 53 - 1) * 2 ^ 971 * d * c := by ring
        _ < n * c := Nat.mul_lt_mul_of_pos_right b hc
  · right
    refine ⟨a, b, by rw [nearestMag_scale n d c hn hd hc]; exact e, ?_⟩
    intro hov
    apply f
    have : (2 ^ 53 - 1) * 2 ^ 971 * d * c < n * c := by
      calc (2 ^ 53 - 1) * 2 ^ 971 * d * c = (2 ^ 53 - 1) * 2 ^ 971 * (d * c) := by ring
        _ < n * c := hov
    exact Nat.lt_of_mul_lt_mul_right this

/-- the exact fraction of a truncated mantissa -/
def truncFrac (vt x : Nat) (negExp : Bool) (j : Nat) : Nat × Nat :=
  if negExp then (vt, 10 ^ (x + j)) else if x ≥ j then (vt * 10 ^ (x - j), 1) else (vt, 10 ^ (j - x))

/-- **`realResult` on a truncated mantissa**, both exponent signs -/
theorem realResult_trunc (neg : Bool) (v n x : Nat) (negExp : Bool) (off j vt : Nat) (hv16 : 10 ^ 16 ≤ v) (hv : v < 2 ^ 64)
    (hvn : 10 ^ (n - 1) ≤ v) (hvn2 : v < 10 ^ n) (hn1 : 1 ≤ n) (hn : n ≤ 20) (hx : x < 2 ^ 31)
    (ht1 : v * 10 ^ j ≤ vt) (ht2 : 10 ^ 17 * vt < (10 ^ 17 + 1) * (v * 10 ^ j)) :
    Good neg (truncFrac vt x negExp j).1 (truncFrac vt x negExp j).2 off (realResult neg v n x negExp off) := by
  have h10 : ∀ k : Nat, 0 < 10 ^ k := fun k => Nat.pow_pos (by decide)
  cases negExp with
  | true =>
    have := good_of_class (realResult_neg_trunc neg v n x off j vt hv16 hv hvn2 hn hx ht1 ht2)
    simpa [truncFrac] using this
  | false =>
    have hv0 : v ≠ 0 := by have := h10 16; omega
    have hadd : add32 x n = x + n := add32_eq _ _ (by omega)
    -- the exact fraction N/D with v·10^x·D ≤ N < (v+1)·10^x·D
    obtain ⟨N, D, hND, hD, hb1, hb2⟩ : ∃ N D, truncFrac vt x false j = (N, D) ∧ 0 < D ∧
        v * 10 ^ x * D ≤ N ∧ 10 ^ 17 * N < (10 ^ 17 + 1) * (v * 10 ^ x * D) := by
      unfold truncFrac
      simp only [Bool.false_eq_true, if_false]
      by_cases hxj : x ≥ j
      · refine ⟨_, _, by rw [if_pos hxj], by decide, ?_, ?_⟩
        · have e : v * 10 ^ x * 1 = v * 10 ^ j * 10 ^ (x - j) := by
            rw [Nat.mul_one, Nat.mul_assoc, ← Nat.pow_add]; congr 2; omega
          rw [e]; exact Nat.mul_le_mul_right _ ht1
        · have e : (10 ^ 17 + 1) * (v * 10 ^ x * 1) = (10 ^ 17 + 1) * (v * 10 ^ j) * 10 ^ (x - j) := by
            rw [Nat.mul_one, Nat.mul_assoc (10 ^ 17 + 1), Nat.mul_assoc v, ← Nat.pow_add]; congr 3; omega
          rw [e, ← Nat.mul_assoc]; exact Nat.mul_lt_mul_of_pos_right ht2 (h10 _)
      · refine ⟨_, _, by rw [if_neg hxj], h10 _, ?_, ?_⟩
        · have e : v * 10 ^ x * 10 ^ (j - x) = v * 10 ^ j := by
            rw [Nat.mul_assoc, ← Nat.pow_add]; congr 2; omega
          rw [e]; exact ht1
        · have e : v * 10 ^ x * 10 ^ (j - x) = v * 10 ^ j := by
            rw [Nat.mul_assoc, ← Nat.pow_add]; congr 2; omega
          rw [e]; exact ht2
    rw [hND]
    simp only
    by_cases hr : x + n > 309
    · refine ⟨⟨.notANumber, v, off⟩, ?_, rfl, Or.inl ⟨rfl, Or.inr ?_⟩⟩
      · unfold realResult; simp [hv0, hadd, hr]
      · have h1 : 10 ^ 309 ≤ 10 ^ (n - 1 + x) := Nat.pow_le_pow_right (by decide) (by omega)
        calc (2 ^ 53 - 1) * 2 ^ 971 * D < 10 ^ 309 * D := Nat.mul_lt_mul_of_pos_right maxFinite_lt_pow309 hD
          _ ≤ 10 ^ (n - 1 + x) * D := Nat.mul_le_mul_right _ h1
          _ = 10 ^ (n - 1) * 10 ^ x * D := by rw [Nat.pow_add]
          _ ≤ v * 10 ^ x * D := Nat.mul_le_mul_right _ (Nat.mul_le_mul_right _ hvn)
          _ ≤ N := hb1
    · obtain ⟨p, hp, hclose, hfloor⟩ := powerOfPositiveTen_close_trunc_rat v x N D hv16 hv (by omega) hD hb1 hb2
      have hp63 := powerOfPositiveTen_lt v x p hp
      refine ⟨⟨.real, p ||| (if neg then 0x8000000000000000 else 0), off⟩, ?_, rfl,
        Or.inr ⟨rfl, or_sign_div p neg hp63, ?_, ?_⟩⟩
      · unfold realResult; simp [hv0, hadd, hr, hp]
      · rw [or_sign_mod p neg hp63]; exact hclose
      · rw [or_sign_mod p neg hp63]
        intro hov
        have := hfloor (Nat.le_of_lt hov)
        unfold maxFiniteBits infBits at *
        omega

end Qentem.StrToNum
