import Qentem.Proofs.StrToNumNegTableRows
/-! C09/C11: the negative-exponent path is correctly rounded under the 1/32 margin for **every**
mantissa `1 ≤ v < 2^64` and `x < 344`, except `1e-273`, `1e-286`, `1e-292`. -/
namespace Qentem.StrToNum
open Qentem.Round

theorem powerOfNegativeTen_exact17 (num x : Nat) (hn0 : 0 < num) (hn : num < 2 ^ 64) (hx : x < 344)
    (hexc : ¬ negExc num x) (hm : MarginPair (roundPair num (10 ^ x)).1 (roundPair num (10 ^ x)).2) :
    powerOfNegativeTen num x = some (nearestMag num (10 ^ x)) := by
  rcases Nat.lt_or_ge num (thr x) with h | h
  · have ht := table_entry x num hx hn0 h
    unfold okB at ht
    simp only [Bool.or_eq_true, Bool.not_eq_true', beq_iff_eq, Bool.and_eq_true] at ht
    rcases ht with (h1 | h2) | h3
    · exact h1
    · have hmb := (marginB_iff _ _).2 hm
      rw [hmb] at h2; cases h2
    · exact absurd ⟨h3.1, by omega⟩ hexc
  · obtain ⟨b, S, hps, _⟩ := negScale_error_steps num x hn (by omega)
    obtain ⟨b0, S0, hps0, _⟩ := negScale_error_steps (thr x) x (by omega) (by omega)
    have hw := thr_wide x hx
    have hb0 : negB (thr x) x = b0 := by unfold negB; rw [hps0]
    rw [hb0] at hw
    exact powerOfNegativeTen_exact_wide num x b _ hn0 hn (by omega) hps
      (hw.mono (negScale_mono _ _ x _ _ _ _ h hn hps0 hps)) hm

end Qentem.StrToNum
