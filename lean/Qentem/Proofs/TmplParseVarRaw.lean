import Qentem.Proofs.TmplRenderSafe
import Qentem.Proofs.TmplText
/-!
# C01 — `parse_wf`, first stage: contents whose only tags are `{var:…}` / `{raw:…}`

Hypothesis `OnlyVarRaw c`: from no offset does the Finder report a match other than `}` (1),
`{var:` (2), `{raw:` (3).  Then `parse` succeeds without a failing read and returns a well-formed
tag list (`wf`), so by `render_safe_of_wf` parse+render performs no out-of-range access for any
value: `render_safe_varraw`.
-/
set_option linter.unusedSectionVars false
namespace Qentem.Tmpl
open Qentem.Expr (Fault rd Safe ScanCfg RealLike VarRef)
open Qentem.Generated.Tmpl

/-- length of the text a match consumed -/
def patLen : Nat → Nat
  | 1 => 1
  | 2 => 5
  | 3 => 5
  | _ => 0

theorem matchMiddle_mono (c : List Nat) (wend : Nat) (hw : wend < c.length) :
    ∀ (ws : List Nat) (off o : Nat), matchMiddle c wend ws off = .ok o → off ≤ o := by
  intro ws
  induction ws with
  | nil => intro off o h; simp [matchMiddle] at h; omega
  | cons w ws ih =>
    intro off o h
    simp only [matchMiddle] at h
    by_cases hlt : off < wend
    · simp only [hlt, if_true, rd_ok c off (by omega), bind, Except.bind] at h
      split at h
      · have := ih _ _ h; omega
      · simp at h; omega
    · simp only [hlt, if_false] at h; simp at h; omega

theorem pow32 : 2 ^ sizeTBits = 4294967296 := by decide

/-- a hit of `tryWords` ends `wordLength + 1` units after `start` (no 32-bit wrap) -/
theorem tryWords_pos (c : List Nat) (start : Nat) (hs : start + 8 < 4294967296) :
    ∀ (ids : List Nat) (o m : Nat), (∀ i ∈ ids, W1.wordLengths[i]?.getD 0 ≤ 5) →
      tryWords c start ids = .ok (some (o, m)) →
      m ≠ 0 ∧ m - 1 ∈ ids ∧ o = start + W1.wordLengths[m - 1]?.getD 0 + 1 := by
  intro ids
  induction ids with
  | nil => intro o m _ h; simp [tryWords] at h
  | cons wid rest ih =>
    intro o m hl h
    have hwl := hl wid (List.mem_cons_self ..)
    have hmod : (start + W1.wordLengths[wid]?.getD 0) % 4294967296 = start + W1.wordLengths[wid]?.getD 0 :=
      Nat.mod_eq_of_lt (by omega)
    have hrest := fun (hh : tryWords c start rest = .ok (some (o, m))) =>
      (ih o m (fun i hi => hl i (List.mem_cons_of_mem _ hi)) hh)
    simp only [tryWords, List.getD_eq_getElem?_getD, pow32, hmod] at h
    by_cases hw : start + W1.wordLengths[wid]?.getD 0 < c.length
    · simp only [hw, if_true, rd_ok c _ hw, bind, Except.bind] at h
      split at h
      · generalize hmm : matchMiddle c _ _ _ = r at h
        cases r with
        | error e => simp at h
        | ok off =>
          simp only [] at h
          split at h
          · rename_i heq
            simp only [Except.ok.injEq, Option.some.injEq, Prod.mk.injEq] at h
            obtain ⟨h1, h2⟩ := h
            subst h1 h2
            exact ⟨by omega, by simp, by simp; omega⟩
          · obtain ⟨a, b, d⟩ := hrest h
            exact ⟨a, List.mem_cons_of_mem _ b, d⟩
      · obtain ⟨a, b, d⟩ := hrest h
        exact ⟨a, List.mem_cons_of_mem _ b, d⟩
    · simp only [hw, if_false] at h
      obtain ⟨a, b, d⟩ := hrest h
      exact ⟨a, List.mem_cons_of_mem _ b, d⟩

/-- a match lies entirely at or after the starting offset -/
theorem nextF_patLen (c : List Nat) (hn : c.length + 16 < 4294967296) : ∀ (f off o m : Nat),
    off ≤ c.length → nextF c f off = .ok (o, m) → m ≤ 3 → off + patLen m ≤ o := by
  intro f
  induction f with
  | zero => intro off o m _ h hm; simp [nextF] at h; obtain ⟨h1, h2⟩ := h; subst h1 h2; simp [patLen]
  | succ f ih =>
    intro off o m hoff h hm
    simp only [nextF] at h
    by_cases hlt : off < c.length
    · simp only [hlt, if_true, rd_ok c off hlt, bind, Except.bind] at h
      by_cases hid : firstCharID c[off] < W1.firstCharsCount
      · simp only [hid, if_true, List.getD_eq_getElem?_getD] at h
        generalize htw : tryWords c (off + 1) _ = tw at h
        cases tw with
        | error e => simp at h
        | ok r =>
          simp only [] at h
          cases r with
          | none => have := ih (off + 1) o m (by omega) h hm; omega
          | some p =>
            obtain ⟨o', m'⟩ := p
            simp only [Except.ok.injEq, Prod.mk.injEq] at h
            obtain ⟨h1, h2⟩ := h
            subst h1 h2
            have hgl : ∀ i ∈ W1.groups[firstCharID c[off]]?.getD [], W1.wordLengths[i]?.getD 0 ≤ 5 := by
              have : firstCharID c[off] = 0 ∨ firstCharID c[off] = 1 := by
                have : W1.firstCharsCount = 2 := by decide
                omega
              rcases this with h0 | h0 <;> rw [h0] <;> decide
            obtain ⟨a, b, d⟩ := tryWords_pos c (off + 1) (by omega) _ o' m' hgl htw
            have : m' = 1 ∨ m' = 2 ∨ m' = 3 := by omega
            rcases this with h1 | h1 | h1
            · subst h1; simp [patLen]; omega
            · subst h1
              have : W1.wordLengths[1]?.getD 0 = 3 := by decide
              simp only [patLen]; simp at d; omega
            · subst h1
              have : W1.wordLengths[2]?.getD 0 = 3 := by decide
              simp only [patLen]; simp at d; omega
      · simp only [hid, if_false] at h
        by_cases hsc : c[off] = W1.singleChar
        · simp only [hsc, if_true] at h
          simp at h; obtain ⟨h1, h2⟩ := h; subst h1 h2; simp [patLen]
        · simp only [hsc, if_false] at h
          have := ih (off + 1) o m (by omega) h hm; omega
    · simp only [hlt, if_false] at h
      simp at h; obtain ⟨h1, h2⟩ := h; subst h1 h2; simp [patLen]

theorem next_patLen (c : List Nat) (hn : c.length + 16 < 4294967296) (off o m : Nat)
    (hoff : off ≤ c.length) (h : next c off = .ok (o, m)) (hm : m ≤ 3) : off + patLen m ≤ o :=
  nextF_patLen c hn _ off o m hoff h hm


variable {R : Type}

theorem wfTags_mono (n lv : Nat) : ∀ (tags : List (Tag R)) (lo b b' : Nat),
    wfTags n lv lo b tags = true → b ≤ b' → b' ≤ n → wfTags n lv lo b' tags = true := by
  intro tags
  induction tags with
  | nil => intro lo b b' h h1 h2; simp only [wfTags, decide_eq_true_eq] at h ⊢; omega
  | cons t rest ih =>
    intro lo b b' h h1 h2
    simp only [wfTags] at h ⊢
    cases hw : wfTag n lv t with
    | none => simp [hw] at h
    | some p =>
      obtain ⟨s, e⟩ := p
      simp only [hw, Bool.and_eq_true, decide_eq_true_eq] at h ⊢
      exact ⟨h.1, ih _ _ _ h.2 h1 h2⟩

theorem wfTags_snoc (n lv : Nat) (t : Tag R) (s e : Nat) (ht : wfTag n lv t = some (s, e)) :
    ∀ (tags : List (Tag R)) (lo b b' : Nat),
    wfTags n lv lo b tags = true → b ≤ s → e ≤ b' → b' ≤ n →
    wfTags n lv lo b' (tags ++ [t]) = true := by
  intro tags
  induction tags with
  | nil =>
    intro lo b b' h h1 h2 h3
    simp only [wfTags, decide_eq_true_eq] at h
    simp only [List.nil_append, wfTags, ht, Bool.and_eq_true, decide_eq_true_eq]
    exact ⟨by omega, h2, h3⟩
  | cons x rest ih =>
    intro lo b b' h h1 h2 h3
    simp only [wfTags, List.cons_append] at h ⊢
    cases hw : wfTag n lv x with
    | none => simp [hw] at h
    | some p =>
      obtain ⟨s1, e1⟩ := p
      simp only [hw, Bool.and_eq_true, decide_eq_true_eq] at h ⊢
      exact ⟨h.1, ih _ _ _ h.2 h1 h2 h3⟩

/-- from no offset does the Finder report anything but `}`, `{var:`, `{raw:` -/
def OnlyVarRaw (c : List Nat) : Prop :=
  ∀ off o m, off ≤ c.length → next c off = .ok (o, m) → m ≤ 3

structure VRInv (c : List Nat) (st : PState R) : Prop where
  stack : st.stack = []
  child : st.isChild = false
  chain : st.loopChain = []
  off : st.off ≤ c.length
  mtch : st.mtch ≤ 3
  wf : ∃ b, wfTags c.length 0 0 b st.storage = true ∧ b + patLen st.mtch ≤ st.off

/-- `finder.Next()` in such a content -/
theorem finderNext_vr (c : List Nat) (hn : c.length + 16 < 4294967296) (h : OnlyVarRaw c)
    (st : PState R) (hoff : st.off ≤ c.length) :
    ∃ o m, finderNext c st = .ok { st with off := o, mtch := m } ∧ o ≤ c.length ∧ m ≤ 3 ∧
      st.off + patLen m ≤ o ∧ (m ≠ 0 → st.off < o) := by
  obtain ⟨o, m, h1, h2, _, h4, _⟩ := next_safe_total c st.off hoff
  have hm := h st.off o m hoff h1
  exact ⟨o, m, by simp [finderNext, h1, bind, Except.bind], h2, hm,
    next_patLen c hn st.off o m hoff h1 hm, h4⟩

theorem stepVar_vr (c : List Nat) (hn : c.length + 16 < 4294967296) (h : OnlyVarRaw c)
    (st : PState R) (hi : VRInv c st) (raw : Bool) (hm : st.mtch = 2 ∨ st.mtch = 3) :
    ∃ st', stepVar c st raw = .ok st' ∧ VRInv c st' ∧ (st'.mtch ≠ 0 → st.off < st'.off) := by
  obtain ⟨b, hb, hbo⟩ := hi.wf
  have hpl : patLen st.mtch = 5 := by rcases hm with h | h <;> rw [h] <;> rfl
  obtain ⟨o1, m1, e1, ho1, hm1, hp1, hg1⟩ := finderNext_vr c hn h st hi.off
  simp only [stepVar, e1, bind, Except.bind]
  by_cases hle : m1 = W1.lineEndID
  · have hm1' : m1 = 1 := hle
    subst hm1'
    simp only [show ((1 : Nat) = W1.lineEndID) = True from eq_self 1, if_true]
    have hp1' : st.off + 1 ≤ o1 := hp1
    -- the tag
    by_cases hlen : (o1 - st.off - W1.inLineSuffixLength) % 256 = 0
    · simp only [hlen, ne_eq, not_true_eq_false, if_false, pure, Except.pure]
      obtain ⟨o2, m2, e2, ho2, hm2, hp2, hg2⟩ := finderNext_vr c hn h
        ({ st with off := o1, mtch := 1 } : PState R) ho1
      refine ⟨_, e2, ⟨hi.stack, hi.child, hi.chain, ho2, hm2, ⟨b, hb, ?_⟩⟩, ?_⟩
      · simp only [] at hp2 ⊢; omega
      · intro hne; have := hg2 hne; simp only [] at this ⊢; omega
    · simp only [hlen, ne_eq, not_false_eq_true, if_true, hi.chain, mkVar, checkLoopVariable, bind,
        Except.bind, pure, Except.pure]
      have hsuf : W1.inLineSuffixLength = 1 := by decide
      have hpre : W1.variablePrefixLength = 5 := by decide
      have hprr : W1.rawVariablePrefixLength = 5 := by decide
      have hbits : bits_VariableTag_Length = 16 := by decide
      have hlenle : trunc bits_VariableTag_Length ((o1 - st.off - W1.inLineSuffixLength) % 256) ≤ o1 - st.off - 1 := by
        simp only [trunc, hbits, hsuf]
        have : (o1 - st.off - 1) % 256 % 2 ^ 16 ≤ (o1 - st.off - 1) % 256 := Nat.mod_le _ _
        have : (o1 - st.off - 1) % 256 ≤ o1 - st.off - 1 := Nat.mod_le _ _
        omega
      generalize hL : trunc bits_VariableTag_Length ((o1 - st.off - W1.inLineSuffixLength) % 256) = L at hlenle
      have hwv : wfVar c.length 0 ⟨st.off, L, 0, 0⟩ = true := by
        simp only [wfVar, Bool.and_eq_true, decide_eq_true_eq, Bool.or_eq_true, beq_iff_eq]
        exact ⟨by omega, Or.inl trivial⟩
      have htag : wfTag c.length 0 (if raw = true then (Tag.raw ⟨st.off, L, 0, 0⟩ : Tag R) else Tag.var ⟨st.off, L, 0, 0⟩)
          = some (st.off - 5, st.off + L + 1) := by
        cases raw <;> simp [wfTag, hwv, hpre, hprr, hsuf] <;> omega
      have hst : wfTags c.length 0 0 o1
          (st.storage ++ [if raw = true then (Tag.raw ⟨st.off, L, 0, 0⟩ : Tag R) else Tag.var ⟨st.off, L, 0, 0⟩]) = true :=
        wfTags_snoc _ _ _ _ _ htag _ _ _ _ hb (by omega) (by omega) ho1
      obtain ⟨o2, m2, e2, ho2, hm2, hp2, hg2⟩ := finderNext_vr c hn h
        ({ st with off := o1, mtch := 1, loopChain := [],
                   storage := st.storage ++ [if raw = true then (Tag.raw ⟨st.off, L, 0, 0⟩ : Tag R) else Tag.var ⟨st.off, L, 0, 0⟩] } : PState R) ho1
      refine ⟨_, e2, ⟨hi.stack, hi.child, rfl, ho2, hm2, ⟨o1, hst, ?_⟩⟩, ?_⟩
      · simp only [] at hp2 ⊢; omega
      · intro hne; have := hg2 hne; simp only [] at this ⊢; omega
  · simp only [hle, if_false]
    refine ⟨_, rfl, ⟨hi.stack, hi.child, hi.chain, ho1, hm1, ⟨b, hb, ?_⟩⟩, ?_⟩
    · simp only []; omega
    · intro hne
      simp only [] at hne ⊢
      have := hg1 hne; omega


/-- decidable form of `OnlyVarRaw` -/
def onlyVarRawB (c : List Nat) : Bool :=
  (List.range (c.length + 1)).all (fun off =>
    match next c off with
    | .ok (_, m) => decide (m ≤ 3)
    | .error _ => true)

theorem onlyVarRaw_of_check (c : List Nat) (h : onlyVarRawB c = true) : OnlyVarRaw c := by
  intro off o m hoff hn
  simp only [onlyVarRawB, List.all_eq_true, List.mem_range] at h
  have := h off (by omega)
  simp only [hn, decide_eq_true_eq] at this
  exact this

theorem step_vr (cfg : ScanCfg R) (c : List Nat) (hn : c.length + 16 < 4294967296)
    (h : OnlyVarRaw c) (st : PState R) (hi : VRInv c st) (hm : st.mtch ≠ 0) :
    ∃ st', step cfg c st = .ok st' ∧ VRInv c st' ∧ (st'.mtch ≠ 0 → st.off < st'.off) := by
  have hm3 := hi.mtch
  have hcases : st.mtch = 1 ∨ st.mtch = 2 ∨ st.mtch = 3 := by omega
  rcases hcases with h1 | h2 | h3
  · -- a stray `}`
    have hstep : step cfg c st = finderNext c st := by
      have : st.mtch = W1.lineEndID := h1
      simp only [step, this, if_true, stepLineEnd, hi.child, hi.stack]
      rfl
    obtain ⟨b, hb, hbo⟩ := hi.wf
    obtain ⟨o, m, e, ho, hmm, hp, hg⟩ := finderNext_vr c hn h st hi.off
    refine ⟨{ st with off := o, mtch := m }, by rw [hstep]; exact e, ⟨hi.stack, hi.child, hi.chain, ho, hmm, ⟨b, hb, ?_⟩⟩, ?_⟩
    · show b + patLen m ≤ o
      rw [h1] at hbo; simp only [patLen] at hbo; omega
    · intro hne; exact hg hne
  · have hstep : step cfg c st = stepVar c st false := by
      simp only [step, h2]
      rfl
    rw [hstep]
    exact stepVar_vr c hn h st hi false (Or.inl h2)
  · have hstep : step cfg c st = stepVar c st true := by
      simp only [step, h3]
      rfl
    rw [hstep]
    exact stepVar_vr c hn h st hi true (Or.inr h3)

theorem parseMain_vr (cfg : ScanCfg R) (c : List Nat) (hn : c.length + 16 < 4294967296)
    (h : OnlyVarRaw c) : ∀ (fuel : Nat) (st : PState R), VRInv c st →
      (if st.mtch = 0 then 1 else c.length + 2 - st.off) ≤ fuel →
      ∃ st', parseMain cfg c fuel st = .ok st' ∧ VRInv c st' := by
  intro fuel
  induction fuel with
  | zero => intro st hi hf; have := hi.off; split at hf <;> omega
  | succ fuel ih =>
    intro st hi hf
    simp only [parseMain]
    by_cases hm : st.mtch = 0
    · simp only [hm, ne_eq, not_true_eq_false, if_false]
      exact ⟨st, rfl, hi⟩
    · obtain ⟨st', h1, h2, h3⟩ := step_vr cfg c hn h st hi hm
      simp only [ne_eq, hm, not_false_eq_true, if_true, h1, bind, Except.bind]
      apply ih st' h2
      simp only [hm, if_false] at hf
      have hoff := hi.off
      have hoff' := h2.off
      by_cases hm' : st'.mtch = 0
      · simp only [hm', if_true]; omega
      · simp only [hm', if_false]; have := h3 hm'; omega

/-- `parse_wf`, stage 1: a content whose only tags are `{var:…}` / `{raw:…}` parses without a
failing read to a well-formed tag list. -/
theorem parse_wf_varraw (cfg : ScanCfg R) (c : List Nat) (hn : c.length + 16 < 4294967296)
    (h : OnlyVarRaw c) : ∃ tags, parse cfg c = .ok tags ∧ wf c.length tags = true := by
  obtain ⟨o, m, e, ho, hm, hp, _⟩ := finderNext_vr c hn h ({} : PState R) (Nat.zero_le _)
  have hi0 : VRInv c ({ ({} : PState R) with off := o, mtch := m }) :=
    ⟨rfl, rfl, rfl, ho, hm, ⟨0, by simp [wfTags], by simpa using hp⟩⟩
  obtain ⟨st', h3, h4⟩ := parseMain_vr cfg c hn h (2 * c.length + 4) _ hi0 (by
    simp only []
    split <;> omega)
  obtain ⟨b, hb, hbo⟩ := h4.wf
  refine ⟨st'.storage, ?_, ?_⟩
  · simp only [parse, e, h3, bind, Except.bind, h4.stack, cleanup]
  · exact wfTags_mono _ _ _ _ _ _ hb (by have := h4.off; omega) (Nat.le_refl _)

/-- End-to-end safety for the var/raw sub-language: parsing and rendering such a content performs
no out-of-range access, for every value (every `RCtx` with the 487b090 bound check). -/
theorem render_safe_varraw [RealLike R] (cx : RCtx R) (hg : cx.guardIndexRead = true)
    (cfg : ScanCfg R) (hn : cx.content.length + 16 < 4294967296) (h : OnlyVarRaw cx.content)
    (fuel : Nat) :
    Safe ((parse cfg cx.content).bind (fun tags => renderTop cx tags fuel)) (fun _ => True) := by
  obtain ⟨tags, hp, hw⟩ := parse_wf_varraw cfg cx.content hn h
  rw [hp]
  exact render_safe_of_wf cx hg tags hw fuel

end Qentem.Tmpl
