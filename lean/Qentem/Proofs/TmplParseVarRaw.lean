import Qentem.Proofs.TmplRenderSafe
import Qentem.Proofs.TmplText
/-!
# C01 — `parse_wf`, first stage: contents whose only tags are `{var:…}` / `{raw:…}`

Hypothesis `OnlyVarRaw c`: from no offset does the Finder report a match other than `}` (1),
`{var:` (2), `{raw:` (3).  Then `parse` succeeds without a failing read and returns a well-formed
tag list (`wf`), so by `render_safe_of_wf` parse+render performs no out-of-range access for any
value: `render_safe_varraw`.
-/
set_option linter.unusedSectionVars false
namespace Qentem.Tmpl
open Qentem.Expr (Fault rd Safe ScanCfg RealLike VarRef)
open Qentem.Generated.Tmpl

/-- length of the text a match consumed -/
def patLen : Nat → Nat
  | 1 => 1
  | 2 => 5
  | 3 => 5
  | 4 => 6
  | _ => 0

theorem matchMiddle_mono (c : List Nat) (wend : Nat) (hw : wend < c.length) :
    ∀ (ws : List Nat) (off o : Nat), matchMiddle c wend ws off = .ok o → off ≤ o := by
  intro ws
  induction ws with
  | nil => intro off o h; simp [matchMiddle] at h; omega
  | cons w ws ih =>
    intro off o h
    simp only [matchMiddle] at h
    by_cases hlt : off < wend
    · simp only [hlt, if_true, rd_ok c off (by omega), bind, Except.bind] at h
      split at h
      · have := ih _ _ h; omega
      · simp at h; omega
    · simp only [hlt, if_false] at h; simp at h; omega

theorem pow32 : 2 ^ sizeTBits = 4294967296 := by decide

/-- a hit of `tryWords` ends `wordLength + 1` units after `start` (no 32-bit wrap) -/
theorem tryWords_pos (c : List Nat) (start : Nat) (hs : start + 8 < 4294967296) :
    ∀ (ids : List Nat) (o m : Nat), (∀ i ∈ ids, W1.wordLengths[i]?.getD 0 ≤ 5) →
      tryWords c start ids = .ok (some (o, m)) →
      m ≠ 0 ∧ m - 1 ∈ ids ∧ o = start + W1.wordLengths[m - 1]?.getD 0 + 1 := by
  intro ids
  induction ids with
  | nil => intro o m _ h; simp [tryWords] at h
  | cons wid rest ih =>
    intro o m hl h
    have hwl := hl wid (List.mem_cons_self ..)
    have hmod : (start + W1.wordLengths[wid]?.getD 0) % 4294967296 = start + W1.wordLengths[wid]?.getD 0 :=
      Nat.mod_eq_of_lt (by omega)
    have hrest := fun (hh : tryWords c start rest = .ok (some (o, m))) =>
      (ih o m (fun i hi => hl i (List.mem_cons_of_mem _ hi)) hh)
    simp only [tryWords, List.getD_eq_getElem?_getD, pow32, hmod] at h
    by_cases hw : start + W1.wordLengths[wid]?.getD 0 < c.length
    · simp only [hw, if_true, rd_ok c _ hw, bind, Except.bind] at h
      split at h
      · generalize hmm : matchMiddle c _ _ _ = r at h
        cases r with
        | error e => simp at h
        | ok off =>
          simp only [] at h
          split at h
          · rename_i heq
            simp only [Except.ok.injEq, Option.some.injEq, Prod.mk.injEq] at h
            obtain ⟨h1, h2⟩ := h
            subst h1 h2
            exact ⟨by omega, by simp, by simp; omega⟩
          · obtain ⟨a, b, d⟩ := hrest h
            exact ⟨a, List.mem_cons_of_mem _ b, d⟩
      · obtain ⟨a, b, d⟩ := hrest h
        exact ⟨a, List.mem_cons_of_mem _ b, d⟩
    · simp only [hw, if_false] at h
      obtain ⟨a, b, d⟩ := hrest h
      exact ⟨a, List.mem_cons_of_mem _ b, d⟩

/-- a match lies entirely at or after the starting offset -/
theorem nextF_patLen (c : List Nat) (hn : c.length + 16 < 4294967296) : ∀ (f off o m : Nat),
    off ≤ c.length → nextF c f off = .ok (o, m) → m ≤ 4 → off + patLen m ≤ o := by
  intro f
  induction f with
  | zero => intro off o m _ h hm; simp [nextF] at h; obtain ⟨h1, h2⟩ := h; subst h1 h2; simp [patLen]
  | succ f ih =>
    intro off o m hoff h hm
    simp only [nextF] at h
    by_cases hlt : off < c.length
    · simp only [hlt, if_true, rd_ok c off hlt, bind, Except.bind] at h
      by_cases hid : firstCharID c[off] < W1.firstCharsCount
      · simp only [hid, if_true, List.getD_eq_getElem?_getD] at h
        generalize htw : tryWords c (off + 1) _ = tw at h
        cases tw with
        | error e => simp at h
        | ok r =>
          simp only [] at h
          cases r with
          | none => have := ih (off + 1) o m (by omega) h hm; omega
          | some p =>
            obtain ⟨o', m'⟩ := p
            simp only [Except.ok.injEq, Prod.mk.injEq] at h
            obtain ⟨h1, h2⟩ := h
            subst h1 h2
            have hgl : ∀ i ∈ W1.groups[firstCharID c[off]]?.getD [], W1.wordLengths[i]?.getD 0 ≤ 5 := by
              have : firstCharID c[off] = 0 ∨ firstCharID c[off] = 1 := by
                have : W1.firstCharsCount = 2 := by decide
                omega
              rcases this with h0 | h0 <;> rw [h0] <;> decide
            obtain ⟨a, b, d⟩ := tryWords_pos c (off + 1) (by omega) _ o' m' hgl htw
            have : m' = 1 ∨ m' = 2 ∨ m' = 3 ∨ m' = 4 := by omega
            rcases this with h1 | h1 | h1 | h1
            · subst h1; simp [patLen]; omega
            · subst h1
              have : W1.wordLengths[1]?.getD 0 = 3 := by decide
              simp only [patLen]; simp at d; omega
            · subst h1
              have : W1.wordLengths[2]?.getD 0 = 3 := by decide
              simp only [patLen]; simp at d; omega
            · subst h1
              have : W1.wordLengths[3]?.getD 0 = 4 := by decide
              simp only [patLen]; simp at d; omega
      · simp only [hid, if_false] at h
        by_cases hsc : c[off] = W1.singleChar
        · simp only [hsc, if_true] at h
          simp at h; obtain ⟨h1, h2⟩ := h; subst h1 h2; simp [patLen]
        · simp only [hsc, if_false] at h
          have := ih (off + 1) o m (by omega) h hm; omega
    · simp only [hlt, if_false] at h
      simp at h; obtain ⟨h1, h2⟩ := h; subst h1 h2; simp [patLen]

theorem next_patLen (c : List Nat) (hn : c.length + 16 < 4294967296) (off o m : Nat)
    (hoff : off ≤ c.length) (h : next c off = .ok (o, m)) (hm : m ≤ 4) : off + patLen m ≤ o :=
  nextF_patLen c hn _ off o m hoff h hm


variable {R : Type}

theorem wfTags_mono (n lv : Nat) : ∀ (tags : List (Tag R)) (lo b b' : Nat),
    wfTags n lv lo b tags = true → b ≤ b' → b' ≤ n → wfTags n lv lo b' tags = true := by
  intro tags
  induction tags with
  | nil => intro lo b b' h h1 h2; simp only [wfTags, decide_eq_true_eq] at h ⊢; omega
  | cons t rest ih =>
    intro lo b b' h h1 h2
    simp only [wfTags] at h ⊢
    cases hw : wfTag n lv t with
    | none => simp [hw] at h
    | some p =>
      obtain ⟨s, e⟩ := p
      simp only [hw, Bool.and_eq_true, decide_eq_true_eq] at h ⊢
      exact ⟨h.1, ih _ _ _ h.2 h1 h2⟩

theorem wfTags_snoc (n lv : Nat) (t : Tag R) (s e : Nat) (ht : wfTag n lv t = some (s, e)) :
    ∀ (tags : List (Tag R)) (lo b b' : Nat),
    wfTags n lv lo b tags = true → b ≤ s → e ≤ b' → b' ≤ n →
    wfTags n lv lo b' (tags ++ [t]) = true := by
  intro tags
  induction tags with
  | nil =>
    intro lo b b' h h1 h2 h3
    simp only [wfTags, decide_eq_true_eq] at h
    simp only [List.nil_append, wfTags, ht, Bool.and_eq_true, decide_eq_true_eq]
    exact ⟨by omega, h2, h3⟩
  | cons x rest ih =>
    intro lo b b' h h1 h2 h3
    simp only [wfTags, List.cons_append] at h ⊢
    cases hw : wfTag n lv x with
    | none => simp [hw] at h
    | some p =>
      obtain ⟨s1, e1⟩ := p
      simp only [hw, Bool.and_eq_true, decide_eq_true_eq] at h ⊢
      exact ⟨h.1, ih _ _ _ h.2 h1 h2 h3⟩

/-- from no offset does the Finder report a match above `K` -/
def OnlyUpTo (K : Nat) (c : List Nat) : Prop :=
  ∀ off o m, off ≤ c.length → next c off = .ok (o, m) → m ≤ K

/-- from no offset does the Finder report anything but `}`, `{var:`, `{raw:` -/
def OnlyVarRaw (c : List Nat) : Prop := OnlyUpTo 3 c

structure VRInv (K : Nat) (c : List Nat) (st : PState R) : Prop where
  stack : st.stack = []
  child : st.isChild = false
  chain : st.loopChain = []
  off : st.off ≤ c.length
  mtch : st.mtch ≤ K
  wf : ∃ b, wfTags c.length 0 0 b st.storage = true ∧ b + patLen st.mtch ≤ st.off

/-- `finder.Next()` in such a content -/
theorem finderNext_vr (K : Nat) (hK : K ≤ 4) (c : List Nat) (hn : c.length + 16 < 4294967296) (h : OnlyUpTo K c)
    (st : PState R) (hoff : st.off ≤ c.length) :
    ∃ o m, finderNext c st = .ok { st with off := o, mtch := m } ∧ o ≤ c.length ∧ m ≤ K ∧
      st.off + patLen m ≤ o ∧ (m ≠ 0 → st.off < o) := by
  obtain ⟨o, m, h1, h2, _, h4, _⟩ := next_safe_total c st.off hoff
  have hm := h st.off o m hoff h1
  exact ⟨o, m, by simp [finderNext, h1, bind, Except.bind], h2, hm,
    next_patLen c hn st.off o m hoff h1 (by omega), h4⟩

theorem stepVar_vr (K : Nat) (hK : K ≤ 4) (c : List Nat) (hn : c.length + 16 < 4294967296) (h : OnlyUpTo K c)
    (st : PState R) (hi : VRInv K c st) (raw : Bool) (hm : st.mtch = 2 ∨ st.mtch = 3) :
    ∃ st', stepVar c st raw = .ok st' ∧ VRInv K c st' ∧ (st'.mtch ≠ 0 → st.off < st'.off) := by
  obtain ⟨b, hb, hbo⟩ := hi.wf
  have hpl : patLen st.mtch = 5 := by rcases hm with h | h <;> rw [h] <;> rfl
  obtain ⟨o1, m1, e1, ho1, hm1, hp1, hg1⟩ := finderNext_vr K hK c hn h st hi.off
  simp only [stepVar, e1, bind, Except.bind]
  by_cases hle : m1 = W1.lineEndID
  · have hm1' : m1 = 1 := hle
    subst hm1'
    simp only [show ((1 : Nat) = W1.lineEndID) = True from eq_self 1, if_true]
    have hp1' : st.off + 1 ≤ o1 := hp1
    -- the tag
    by_cases hlen : (o1 - st.off - W1.inLineSuffixLength) % 256 = 0
    · simp only [hlen, ne_eq, not_true_eq_false, if_false, pure, Except.pure]
      obtain ⟨o2, m2, e2, ho2, hm2, hp2, hg2⟩ := finderNext_vr K hK c hn h
        ({ st with off := o1, mtch := 1 } : PState R) ho1
      refine ⟨_, e2, ⟨hi.stack, hi.child, hi.chain, ho2, hm2, ⟨b, hb, ?_⟩⟩, ?_⟩
      · simp only [] at hp2 ⊢; omega
      · intro hne; have := hg2 hne; simp only [] at this ⊢; omega
    · simp only [hlen, ne_eq, not_false_eq_true, if_true, hi.chain, mkVar, checkLoopVariable, bind,
        Except.bind, pure, Except.pure]
      have hsuf : W1.inLineSuffixLength = 1 := by decide
      have hpre : W1.variablePrefixLength = 5 := by decide
      have hprr : W1.rawVariablePrefixLength = 5 := by decide
      have hbits : bits_VariableTag_Length = 16 := by decide
      have hlenle : trunc bits_VariableTag_Length ((o1 - st.off - W1.inLineSuffixLength) % 256) ≤ o1 - st.off - 1 := by
        simp only [trunc, hbits, hsuf]
        have : (o1 - st.off - 1) % 256 % 2 ^ 16 ≤ (o1 - st.off - 1) % 256 := Nat.mod_le _ _
        have : (o1 - st.off - 1) % 256 ≤ o1 - st.off - 1 := Nat.mod_le _ _
        omega
      generalize hL : trunc bits_VariableTag_Length ((o1 - st.off - W1.inLineSuffixLength) % 256) = L at hlenle
      have hwv : wfVar c.length 0 ⟨st.off, L, 0, 0⟩ = true := by
        simp only [wfVar, Bool.and_eq_true, decide_eq_true_eq, Bool.or_eq_true, beq_iff_eq]
        exact ⟨by omega, Or.inl trivial⟩
      have htag : wfTag c.length 0 (if raw = true then (Tag.raw ⟨st.off, L, 0, 0⟩ : Tag R) else Tag.var ⟨st.off, L, 0, 0⟩)
          = some (st.off - 5, st.off + L + 1) := by
        cases raw <;> simp [wfTag, hwv, hpre, hprr, hsuf] <;> omega
      have hst : wfTags c.length 0 0 o1
          (st.storage ++ [if raw = true then (Tag.raw ⟨st.off, L, 0, 0⟩ : Tag R) else Tag.var ⟨st.off, L, 0, 0⟩]) = true :=
        wfTags_snoc _ _ _ _ _ htag _ _ _ _ hb (by omega) (by omega) ho1
      obtain ⟨o2, m2, e2, ho2, hm2, hp2, hg2⟩ := finderNext_vr K hK c hn h
        ({ st with off := o1, mtch := 1, loopChain := [],
                   storage := st.storage ++ [if raw = true then (Tag.raw ⟨st.off, L, 0, 0⟩ : Tag R) else Tag.var ⟨st.off, L, 0, 0⟩] } : PState R) ho1
      refine ⟨_, e2, ⟨hi.stack, hi.child, rfl, ho2, hm2, ⟨o1, hst, ?_⟩⟩, ?_⟩
      · simp only [] at hp2 ⊢; omega
      · intro hne; have := hg2 hne; simp only [] at this ⊢; omega
  · simp only [hle, if_false]
    refine ⟨_, rfl, ⟨hi.stack, hi.child, hi.chain, ho1, hm1, ⟨b, hb, ?_⟩⟩, ?_⟩
    · simp only []; omega
    · intro hne
      simp only [] at hne ⊢
      have := hg1 hne; omega


/-- decidable form of `OnlyVarRaw` -/
def onlyVarRawB (c : List Nat) : Bool :=
  (List.range (c.length + 1)).all (fun off =>
    match next c off with
    | .ok (_, m) => decide (m ≤ 3)
    | .error _ => true)

theorem onlyVarRaw_of_check (c : List Nat) (h : onlyVarRawB c = true) : OnlyVarRaw c := by
  intro off o m hoff hn
  simp only [onlyVarRawB, List.all_eq_true, List.mem_range] at h
  have := h off (by omega)
  simp only [hn, decide_eq_true_eq] at this
  exact this

theorem step_vr (cfg : ScanCfg R) (c : List Nat) (hn : c.length + 16 < 4294967296)
    (h : OnlyVarRaw c) (st : PState R) (hi : VRInv 3 c st) (hm : st.mtch ≠ 0) :
    ∃ st', step cfg c st = .ok st' ∧ VRInv 3 c st' ∧ (st'.mtch ≠ 0 → st.off < st'.off) := by
  have hK : (3 : Nat) ≤ 4 := by omega
  let K := 3
  have hm3 := hi.mtch
  have hcases : st.mtch = 1 ∨ st.mtch = 2 ∨ st.mtch = 3 := by omega
  rcases hcases with h1 | h2 | h3
  · -- a stray `}`
    have hstep : step cfg c st = finderNext c st := by
      have : st.mtch = W1.lineEndID := h1
      simp only [step, this, if_true, stepLineEnd, hi.child, hi.stack]
      rfl
    obtain ⟨b, hb, hbo⟩ := hi.wf
    obtain ⟨o, m, e, ho, hmm, hp, hg⟩ := finderNext_vr K hK c hn h st hi.off
    refine ⟨{ st with off := o, mtch := m }, by rw [hstep]; exact e, ⟨hi.stack, hi.child, hi.chain, ho, hmm, ⟨b, hb, ?_⟩⟩, ?_⟩
    · show b + patLen m ≤ o
      rw [h1] at hbo; simp only [patLen] at hbo; omega
    · intro hne; exact hg hne
  · have hstep : step cfg c st = stepVar c st false := by
      simp only [step, h2]
      rfl
    rw [hstep]
    exact stepVar_vr 3 hK c hn h st hi false (Or.inl h2)
  · have hstep : step cfg c st = stepVar c st true := by
      simp only [step, h3]
      rfl
    rw [hstep]
    exact stepVar_vr 3 hK c hn h st hi true (Or.inr h3)

theorem parseMain_vr (cfg : ScanCfg R) (c : List Nat) (hn : c.length + 16 < 4294967296)
    (h : OnlyVarRaw c) : ∀ (fuel : Nat) (st : PState R), VRInv 3 c st →
      (if st.mtch = 0 then 1 else c.length + 2 - st.off) ≤ fuel →
      ∃ st', parseMain cfg c fuel st = .ok st' ∧ VRInv 3 c st' := by
  intro fuel
  induction fuel with
  | zero => intro st hi hf; have := hi.off; split at hf <;> omega
  | succ fuel ih =>
    intro st hi hf
    simp only [parseMain]
    by_cases hm : st.mtch = 0
    · simp only [hm, ne_eq, not_true_eq_false, if_false]
      exact ⟨st, rfl, hi⟩
    · obtain ⟨st', h1, h2, h3⟩ := step_vr cfg c hn h st hi hm
      simp only [ne_eq, hm, not_false_eq_true, if_true, h1, bind, Except.bind]
      apply ih st' h2
      simp only [hm, if_false] at hf
      have hoff := hi.off
      have hoff' := h2.off
      by_cases hm' : st'.mtch = 0
      · simp only [hm', if_true]; omega
      · simp only [hm', if_false]; have := h3 hm'; omega

/-- `parse_wf`, stage 1: a content whose only tags are `{var:…}` / `{raw:…}` parses without a
failing read to a well-formed tag list. -/
theorem parse_wf_varraw (cfg : ScanCfg R) (c : List Nat) (hn : c.length + 16 < 4294967296)
    (h : OnlyVarRaw c) : ∃ tags, parse cfg c = .ok tags ∧ wf c.length tags = true := by
  have hK' : (3 : Nat) ≤ 4 := by omega
  obtain ⟨o, m, e, ho, hm, hp, _⟩ := finderNext_vr 3 hK' c hn h ({} : PState R) (Nat.zero_le _)
  have hK : (3 : Nat) ≤ 4 := by omega
  let K := 3
  have hi0 : VRInv 3 c ({ ({} : PState R) with off := o, mtch := m }) :=
    ⟨rfl, rfl, rfl, ho, hm, ⟨0, by simp [wfTags], by simpa using hp⟩⟩
  obtain ⟨st', h3, h4⟩ := parseMain_vr cfg c hn h (2 * c.length + 4) _ hi0 (by
    simp only []
    split <;> omega)
  obtain ⟨b, hb, hbo⟩ := h4.wf
  refine ⟨st'.storage, ?_, ?_⟩
  · simp only [parse, e, h3, bind, Except.bind, h4.stack, cleanup]
  · exact wfTags_mono _ _ _ _ _ _ hb (by have := h4.off; omega) (Nat.le_refl _)

/-- End-to-end safety for the var/raw sub-language: parsing and rendering such a content performs
no out-of-range access, for every value (every `RCtx` with the 487b090 bound check). -/
theorem render_safe_varraw [RealLike R] (cx : RCtx R) (hg : cx.guardIndexRead = true)
    (cfg : ScanCfg R) (hn : cx.content.length + 16 < 4294967296) (h : OnlyVarRaw cx.content)
    (fuel : Nat) :
    Safe ((parse cfg cx.content).bind (fun tags => renderTop cx tags fuel)) (fun _ => True) := by
  obtain ⟨tags, hp, hw⟩ := parse_wf_varraw cfg cx.content hn h
  rw [hp]
  exact render_safe_of_wf cx hg tags hw fuel


/-! ## Stage 2: `{math:…}` as well (`OnlyUpTo 4`), in `Safe` form -/

mutual
theorem operandVarsOk_wf (n lv : Nat) : ∀ (x : Qentem.Expr.Operand R),
    Qentem.Expr.operandVarsOk n x = true → wfOperand n lv x = true
  | .var v, h => by
    simp only [Qentem.Expr.operandVarsOk, Bool.and_eq_true, decide_eq_true_eq, beq_iff_eq] at h
    simp only [wfOperand, wfVar, Bool.and_eq_true, decide_eq_true_eq, Bool.or_eq_true, beq_iff_eq]
    exact ⟨Nat.le_of_lt h.1, Or.inl h.2⟩
  | .sub items, h => by
    simp only [Qentem.Expr.operandVarsOk] at h
    simp only [wfOperand]
    exact itemsVarsOk_wf n lv items h
  | .num _, _ => by simp [wfOperand]
  | .text _ _, _ => by simp [wfOperand]
theorem itemsVarsOk_wf (n lv : Nat) : ∀ (items : List (Qentem.Expr.Item R)),
    Qentem.Expr.itemsVarsOk n items = true → wfItemVars n lv items = true
  | [], _ => by simp [wfItemVars]
  | (x, _) :: rest, h => by
    simp only [Qentem.Expr.itemsVarsOk, Bool.and_eq_true] at h
    simp only [wfItemVars, Bool.and_eq_true]
    exact ⟨operandVarsOk_wf n lv x h.1, itemsVarsOk_wf n lv rest h.2⟩
end

/-- what a `finder.Next()` leaves untouched and guarantees, as a postcondition -/
def NextPost (K : Nat) (c : List Nat) (st st' : PState R) : Prop :=
  st'.storage = st.storage ∧ st'.stack = st.stack ∧ st'.loopChain = st.loopChain ∧
  st'.isChild = st.isChild ∧ st'.off ≤ c.length ∧ st'.mtch ≤ K ∧
  st.off + patLen st'.mtch ≤ st'.off ∧ (st'.mtch ≠ 0 → st.off < st'.off)

theorem finderNext_safe (K : Nat) (hK : K ≤ 4) (c : List Nat) (hn : c.length + 16 < 4294967296)
    (h : OnlyUpTo K c) (st : PState R) (hoff : st.off ≤ c.length) :
    Safe (finderNext c st) (NextPost K c st) := by
  obtain ⟨o, m, e, ho, hm, hp, hg⟩ := finderNext_vr K hK c hn h st hoff
  rw [e]
  exact ⟨rfl, rfl, rfl, rfl, ho, hm, hp, hg⟩

/-- state during the scan of a `{math:` tag: `lo` = offset right after `{math:` -/
def MathQ (K : Nat) (c : List Nat) (st0 : PState R) (lo : Nat) (st : PState R) : Prop :=
  st.storage = st0.storage ∧ st.stack = st0.stack ∧ st.loopChain = st0.loopChain ∧
  st.isChild = st0.isChild ∧ st.off ≤ c.length ∧ st.mtch ≤ K ∧
  lo + patLen st.mtch ≤ st.off ∧ (st.mtch ≠ 0 → lo < st.off)

theorem mathQ_next (K : Nat) (hK : K ≤ 4) (c : List Nat) (hn : c.length + 16 < 4294967296)
    (h : OnlyUpTo K c) (st0 : PState R) (lo : Nat) (st : PState R) (hq : MathQ K c st0 lo st) :
    Safe (finderNext c st) (fun st' => MathQ K c st0 lo st' ∧ st.off + patLen st'.mtch ≤ st'.off) := by
  obtain ⟨q1, q2, q3, q4, q5, q6, q7, q8⟩ := hq
  apply Safe.mono (finderNext_safe K hK c hn h st q5)
  intro st' hp
  obtain ⟨p1, p2, p3, p4, p5, p6, p7, p8⟩ := hp
  refine ⟨⟨p1.trans q1, p2.trans q2, p3.trans q3, p4.trans q4, p5, p6, ?_, ?_⟩, p7⟩
  · have : lo ≤ st.off := by omega
    omega
  · intro hne; have := p8 hne; have : lo ≤ st.off := by omega
    omega

theorem mathScan_safe (K : Nat) (hK : K ≤ 4) (c : List Nat) (hn : c.length + 16 < 4294967296)
    (h : OnlyUpTo K c) (st0 : PState R) (lo : Nat) : ∀ (fuel : Nat) (st : PState R) (skip : Nat),
    MathQ K c st0 lo st →
    Safe (mathScan c fuel st skip) (fun r => MathQ K c st0 lo r.1 ∧
      (r.2 ≠ 0 → lo ≤ r.2 ∧ 1 ≤ r.2 ∧ r.2 + patLen r.1.mtch ≤ r.1.off)) := by
  intro fuel
  induction fuel with
  | zero => intro st skip hq; exact Safe.ok _ ⟨hq, fun h => absurd rfl h⟩
  | succ fuel ih =>
    intro st skip hq
    simp only [mathScan]
    have hfirst : Safe (if st.mtch < W1.mathID ∧ st.mtch ≠ W1.lineEndID then (do
        let st ← finderNext c st
        pure (st, skip + 1)) else (pure (st, skip) : Except Fault (PState R × Nat)))
        (fun r => MathQ K c st0 lo r.1) := by
      split
      · apply Safe.bind (mathQ_next K hK c hn h st0 lo st hq)
        intro st' hst'
        exact Safe.ok _ hst'.1
      · exact Safe.ok _ hq
    apply Safe.bind hfirst
    intro r hr
    obtain ⟨st1, skip1⟩ := r
    simp only [] at hr ⊢
    split
    · rename_i hle
      split
      · apply Safe.bind (mathQ_next K hK c hn h st0 lo st1 hr)
        intro st2 hst2
        exact ih st2 _ hst2.1
      · apply Safe.bind (mathQ_next K hK c hn h st0 lo st1 hr)
        intro st2 hst2
        refine Safe.ok _ ⟨hst2.1, fun _ => ?_⟩
        obtain ⟨q1, q2, q3, q4, q5, q6, q7, q8⟩ := hr
        have hm1 : st1.mtch = 1 := hle
        have hp : patLen st1.mtch = 1 := by rw [hm1]; rfl
        have hb := hst2.2
        simp only [] at hb ⊢
        exact ⟨by omega, by omega, hb⟩
    · exact Safe.ok _ ⟨hr, fun h => absurd rfl h⟩


theorem loopVarPure_nil (c : List Nat) (o : Nat) : (loopVarPure c [] o).1 = 0 := by
  simp [loopVarPure, checkLoopVariable]

theorem stepMath_il (cfg : ScanCfg R) (c : List Nat) (hn : c.length + 16 < 4294967296)
    (h : OnlyUpTo 4 c) (st : PState R) (hi : VRInv 4 c st) (hm : st.mtch = 4) :
    Safe (stepMath cfg c st) (fun st' => VRInv 4 c st' ∧ (st'.mtch ≠ 0 → st.off < st'.off)) := by
  obtain ⟨b, hb, hbo⟩ := hi.wf
  have hpl : patLen st.mtch = 6 := by rw [hm]; rfl
  have h44 : (4 : Nat) ≤ 4 := Nat.le_refl _
  simp only [stepMath]
  apply Safe.bind (finderNext_safe 4 h44 c hn h st hi.off)
  intro st1 hp1
  obtain ⟨p1, p2, p3, p4, p5, p6, p7, p8⟩ := hp1
  have hq1 : MathQ 4 c st st.off st1 := ⟨p1, p2, p3, p4, p5, p6, p7, p8⟩
  apply Safe.bind (mathScan_safe 4 h44 c hn h st st.off _ st1 0 hq1)
  intro r hr
  obtain ⟨st2, e⟩ := r
  obtain ⟨⟨q1, q2, q3, q4, q5, q6, q7, q8⟩, he⟩ := hr
  simp only [] at q1 q2 q3 q4 q5 q6 q7 q8 he ⊢
  split
  · rename_i hne
    obtain ⟨e1, e2, e3⟩ := he hne
    have hsuf : W1.inLineSuffixLength = 1 := by decide
    have hmp : W1.mathPrefixLength = 6 := by decide
    have hchain : st2.loopChain = [] := q3.trans hi.chain
    have hlen : e ≤ c.length := by omega
    apply Safe.bind (Qentem.Expr.parseTop_vars ({ cfg with loopVar := loopVarPure c st2.loopChain })
      (by intro o; rw [hchain]; exact loopVarPure_nil c o) c st.off (e - W1.inLineSuffixLength) (by omega))
    intro ex hex
    have htag : wfTag c.length 0 (Tag.math ex (st.off - W1.mathPrefixLength) e : Tag R) =
        some (st.off - W1.mathPrefixLength, e) := by
      simp only [wfTag, itemsVarsOk_wf _ 0 ex hex, Bool.true_and, decide_eq_true_eq]
      simp [show (st.off - W1.mathPrefixLength ≤ e) from (by omega), hlen]
    have hst : wfTags c.length 0 0 e (st2.storage ++ [Tag.math ex (st.off - W1.mathPrefixLength) e]) = true := by
      rw [q1]
      exact wfTags_snoc _ _ _ _ _ htag _ _ _ _ hb (by omega) (Nat.le_refl _) hlen
    exact Safe.ok _ ⟨⟨q2.trans hi.stack, q4.trans hi.child, hchain, q5, q6, ⟨e, hst, e3⟩⟩,
      fun hne' => q8 hne'⟩
  · exact Safe.ok _ ⟨⟨q2.trans hi.stack, q4.trans hi.child, q3.trans hi.chain, q5, q6,
      ⟨b, by rw [q1]; exact hb, by omega⟩⟩, fun hne' => q8 hne'⟩

theorem step_il (cfg : ScanCfg R) (c : List Nat) (hn : c.length + 16 < 4294967296)
    (h : OnlyUpTo 4 c) (st : PState R) (hi : VRInv 4 c st) (hm : st.mtch ≠ 0) :
    Safe (step cfg c st) (fun st' => VRInv 4 c st' ∧ (st'.mtch ≠ 0 → st.off < st'.off)) := by
  have hm4 := hi.mtch
  have h44 : (4 : Nat) ≤ 4 := Nat.le_refl _
  have hcases : st.mtch = 1 ∨ st.mtch = 2 ∨ st.mtch = 3 ∨ st.mtch = 4 := by omega
  rcases hcases with h1 | h2 | h3 | h4
  · have hstep : step cfg c st = finderNext c st := by
      have : st.mtch = W1.lineEndID := h1
      simp only [step, this, if_true, stepLineEnd, hi.child, hi.stack]
      rfl
    obtain ⟨b, hb, hbo⟩ := hi.wf
    rw [hstep]
    apply Safe.mono (finderNext_safe 4 h44 c hn h st hi.off)
    intro st' hp
    obtain ⟨p1, p2, p3, p4, p5, p6, p7, p8⟩ := hp
    refine ⟨⟨p2.trans hi.stack, p4.trans hi.child, p3.trans hi.chain, p5, p6, ⟨b, by rw [p1]; exact hb, ?_⟩⟩, p8⟩
    rw [h1] at hbo; simp only [patLen] at hbo; omega
  · have hstep : step cfg c st = stepVar c st false := by
      simp only [step, h2]
      rfl
    rw [hstep]
    obtain ⟨st', e, hv, hg⟩ := stepVar_vr 4 h44 c hn h st hi false (Or.inl h2)
    rw [e]; exact ⟨hv, hg⟩
  · have hstep : step cfg c st = stepVar c st true := by
      simp only [step, h3]
      rfl
    rw [hstep]
    obtain ⟨st', e, hv, hg⟩ := stepVar_vr 4 h44 c hn h st hi true (Or.inr h3)
    rw [e]; exact ⟨hv, hg⟩
  · have hstep : step cfg c st = stepMath cfg c st := by
      simp only [step, h4]
      rfl
    rw [hstep]
    exact stepMath_il cfg c hn h st hi h4

theorem parseMain_il (cfg : ScanCfg R) (c : List Nat) (hn : c.length + 16 < 4294967296)
    (h : OnlyUpTo 4 c) : ∀ (fuel : Nat) (st : PState R), VRInv 4 c st →
      Safe (parseMain cfg c fuel st) (fun st' => VRInv 4 c st') := by
  intro fuel
  induction fuel with
  | zero => intro st _; simp only [parseMain]; exact Safe.fuel
  | succ fuel ih =>
    intro st hi
    simp only [parseMain]
    split
    · rename_i hm
      apply Safe.bind (step_il cfg c hn h st hi hm)
      intro st' hst'
      exact ih st' hst'.1
    · exact Safe.ok _ hi

/-- `parse_wf`, stages 1+2: a content whose only tags are `{var:…}`, `{raw:…}` and `{math:…}`
(with any expressions, any `{var:}` inside them) is scanned without an out-of-range read, and the
tag list returned is well-formed. -/
theorem parse_wf_inline (cfg : ScanCfg R) (c : List Nat) (hn : c.length + 16 < 4294967296)
    (h : OnlyUpTo 4 c) : Safe (parse cfg c) (fun tags => wf c.length tags = true) := by
  have h44 : (4 : Nat) ≤ 4 := Nat.le_refl _
  simp only [parse]
  apply Safe.bind (finderNext_safe 4 h44 c hn h ({} : PState R) (Nat.zero_le _))
  intro st0 hp
  obtain ⟨p1, p2, p3, p4, p5, p6, p7, p8⟩ := hp
  have hi0 : VRInv 4 c st0 :=
    ⟨p2, p4, p3, p5, p6, ⟨0, by rw [p1]; simp [wfTags], by simpa using p7⟩⟩
  apply Safe.bind (parseMain_il cfg c hn h _ st0 hi0)
  intro st' hi'
  obtain ⟨b, hb, hbo⟩ := hi'.wf
  refine Safe.ok _ ?_
  rw [hi'.stack]
  simp only [cleanup]
  exact wfTags_mono _ _ _ _ _ _ hb (by have := hi'.off; omega) (Nat.le_refl _)

/-- End-to-end for the inline sub-language (`{var:}`, `{raw:}`, `{math:}` and text): parse + render
performs no out-of-range access, for every value. -/
theorem render_safe_inline [RealLike R] (cx : RCtx R) (hg : cx.guardIndexRead = true)
    (cfg : ScanCfg R) (hn : cx.content.length + 16 < 4294967296) (h : OnlyUpTo 4 cx.content)
    (fuel : Nat) :
    Safe ((parse cfg cx.content).bind (fun tags => renderTop cx tags fuel)) (fun _ => True) := by
  have hp := parse_wf_inline cfg cx.content hn h
  cases hpe : parse cfg cx.content with
  | error e => rw [hpe] at hp; exact hp
  | ok tags =>
    rw [hpe] at hp
    exact render_safe_of_wf cx hg tags hp fuel

def onlyUpToB (K : Nat) (c : List Nat) : Bool :=
  (List.range (c.length + 1)).all (fun off =>
    match next c off with
    | .ok (_, m) => decide (m ≤ K)
    | .error _ => true)

theorem onlyUpTo_of_check (K : Nat) (c : List Nat) (h : onlyUpToB K c = true) : OnlyUpTo K c := by
  intro off o m hoff hn
  simp only [onlyUpToB, List.all_eq_true, List.mem_range] at h
  have := h off (by omega)
  simp only [hn, decide_eq_true_eq] at this
  exact this

end Qentem.Tmpl
