import Qentem.Proofs.HashTableLaws
/-!
The textbook insertion-ordered association list and the theorem that the live entries of every
reachable table evolve exactly like it under the key-level operations; the history
characterisation of lookups; key ↔ index agreement; Sort keeps the entries.
-/
namespace Qentem.HashTable
variable {V : Type}

/-! ### Distinct live keys follow from the table invariant -/

theorem Inv.keysNodup {H : List Nat → Nat} {s : HT V} (hI : Inv H s) : KeysNodup (absSlots s) := by
  unfold KeysNodup keysOf entries
  rw [absSlots_eq_map, List.filterMap_map, List.nodup_iff_pairwise_ne, List.pairwise_map]
  refine List.Pairwise.filterMap _ ?_ hI.distinct
  intro a a' hR b hb b' hb'
  simp only [Function.comp, id, slotOfItem] at hb hb'
  split at hb
  · cases hb
  · split at hb'
    · cases hb'
    · cases hb; cases hb'
      rename_i h1 h2
      exact hR h1 h2

/-! ### The reference: an association list in insertion order -/

abbrev AL (V : Type) := List (List Nat × V)

def alPut (al : AL V) (k : List Nat) (v : V) : AL V :=
  if k ∈ al.map Prod.fst then al.map (fun e => if e.1 = k then (k, v) else e) else al ++ [(k, v)]

def alRemove (al : AL V) (k : List Nat) : AL V := al.filter (fun e => decide (e.1 ≠ k))

def alLookup (al : AL V) (k : List Nat) : Option V := (al.find? (fun e => decide (e.1 = k))).map Prod.snd

/-- Operations whose meaning does not mention slot numbers or the key order. -/
def Op.KeyLevel : Op V → Prop
  | .removeIdx _ => False
  | .rename _ _ => False
  | .resize _ => False
  | .sort _ => False
  | .merge _ _ => False
  | _ => True

/-- The textbook meaning of the key-level operations. -/
def alStep [Inhabited V] (al : AL V) : Op V → AL V
  | .insert k v => alPut al k v
  | .assign k v => alPut al k v
  | .get k => if k ∈ al.map Prod.fst then al else al ++ [(k, default)]
  | .remove k => alRemove al k
  | .clear => []
  | .reset => []
  | .reserve _ => []
  | _ => al

theorem nodup_split {A B : AL V} {k : List Nat} {v0 : V}
    (h : ((A ++ (k, v0) :: B).map Prod.fst).Nodup) : k ∉ A.map Prod.fst ∧ k ∉ B.map Prod.fst := by
  rw [List.map_append, List.map_cons, List.nodup_append] at h
  obtain ⟨_, h2, h3⟩ := h
  exact ⟨fun hA => h3 k hA k (by simp) rfl, (List.nodup_cons.mp h2).1⟩

theorem alPut_split {A B : AL V} {k : List Nat} {v0 : V} (v : V)
    (hA : k ∉ A.map Prod.fst) (hB : k ∉ B.map Prod.fst) :
    alPut (A ++ (k, v0) :: B) k v = A ++ (k, v) :: B := by
  have hmem : k ∈ (A ++ (k, v0) :: B).map Prod.fst := by simp
  have hid : ∀ (L : AL V), k ∉ L.map Prod.fst → L.map (fun e => if e.1 = k then (k, v) else e) = L := by
    intro L hL
    have : L.map (fun e => if e.1 = k then (k, v) else e) = L.map id := by
      apply List.map_congr_left
      intro e he
      have : e.1 ≠ k := fun h => hL (List.mem_map.mpr ⟨e, he, h⟩)
      simp [this]
    rw [this, List.map_id]
  unfold alPut
  rw [if_pos hmem]
  simp only [List.map_append, List.map_cons, hid A hA, hid B hB, if_true]

theorem alRemove_split {A B : AL V} {k : List Nat} {v0 : V}
    (hA : k ∉ A.map Prod.fst) (hB : k ∉ B.map Prod.fst) :
    alRemove (A ++ (k, v0) :: B) k = A ++ B := by
  have hid : ∀ (L : AL V), k ∉ L.map Prod.fst → L.filter (fun e => decide (e.1 ≠ k)) = L := by
    intro L hL
    rw [List.filter_eq_self]
    intro e he
    have : e.1 ≠ k := fun h => hL (List.mem_map.mpr ⟨e, he, h⟩)
    simp [this]
  unfold alRemove
  rw [List.filter_append, List.filter_cons, hid A hA, hid B hB]
  simp

theorem alRemove_absent {L : AL V} {k : List Nat} (h : k ∉ L.map Prod.fst) : alRemove L k = L := by
  unfold alRemove
  rw [List.filter_eq_self]
  intro e he
  have : e.1 ≠ k := fun h' => h (List.mem_map.mpr ⟨e, he, h'⟩)
  simp [this]

/-! ### The live entries follow the reference, one step -/

theorem entries_put {sl : Slots V} (hnd : KeysNodup sl) (k : List Nat) (v : V) :
    entries (Spec.put sl k v) = alPut (entries sl) k v := by
  by_cases h : k ∈ keysOf sl
  · obtain ⟨A, B, v0, h1, h2, _⟩ := entries_put_present v h
    have hn : ((A ++ (k, v0) :: B).map Prod.fst).Nodup := by rw [← h1]; exact hnd
    obtain ⟨hA, hB⟩ := nodup_split hn
    rw [h2, h1, alPut_split v hA hB]
  · rw [entries_put_absent v h]
    have : k ∉ (entries sl).map Prod.fst := h
    simp [alPut, this]

theorem entries_growIfFull (sp : Spec V) : entries (Spec.growIfFull sp).slots = entries sp.slots := by
  unfold Spec.growIfFull
  split
  · simp [Spec.realloc, entries_compact]
  · rfl

theorem lookup_none_iff {sp : Spec V} {k : List Nat} : Spec.lookup sp k = none ↔ k ∉ keysOf sp.slots := by
  have := @valOf_eq_none_iff V sp k
  unfold valOf at this
  rw [Option.map_eq_none_iff] at this
  exact this

theorem keysNodup_growIfFull {sp : Spec V} (h : KeysNodup sp.slots) : KeysNodup (Spec.growIfFull sp).slots := by
  unfold KeysNodup keysOf at *
  rw [entries_growIfFull]; exact h

theorem findKey_append_absent {sl : Slots V} {k : List Nat} (d : V) (h : k ∉ keysOf sl) :
    Spec.findKey (sl ++ [some (k, d)]) k = some sl.length := by
  induction sl with
  | nil => simp [findKey_cons, Spec.hasKey]
  | cons o t ih =>
    rw [List.cons_append, findKey_cons]
    cases o with
    | none =>
      rw [keysOf_cons_none] at h
      simp [Spec.hasKey, ih h]
    | some e =>
      obtain ⟨k', v⟩ := e
      rw [keysOf_cons_some] at h
      have hne : k' ≠ k := fun e => h (by simp [e])
      have : k ∉ keysOf t := fun e => h (by simp [e])
      simp [Spec.hasKey, hne, ih this]

/-- One key-level step of the specification is one step of the reference association list. -/
theorem entries_step [Inhabited V] (ord : Nat → Nat) {sp : Spec V} (hnd : KeysNodup sp.slots) (op : Op V)
    (hop : op.KeyLevel) : entries (Spec.step ord sp op).1.slots = alStep (entries sp.slots) op := by
  cases op with
  | insert k v =>
    simp only [Spec.step, Spec.insert, alStep]
    rw [entries_put (keysNodup_growIfFull hnd), entries_growIfFull]
  | get k =>
    simp only [Spec.step, Spec.get, alStep]
    cases hl : Spec.lookup (Spec.growIfFull sp) k with
    | none =>
      have : k ∉ keysOf sp.slots := by
        have := lookup_none_iff.mp hl
        unfold keysOf at *; rwa [entries_growIfFull] at this
      have h2 : k ∉ (entries sp.slots).map Prod.fst := this
      simp [h2, entries_append, entries_growIfFull]
    | some r =>
      have : k ∈ keysOf sp.slots := by
        by_contra hcon
        have : k ∉ keysOf (Spec.growIfFull sp).slots := by unfold keysOf at *; rwa [entries_growIfFull]
        rw [lookup_none_iff.mpr this] at hl; cases hl
      have h2 : k ∈ (entries sp.slots).map Prod.fst := this
      simp [h2, entries_growIfFull]
  | assign k v =>
    simp only [Spec.step, Spec.get, alStep]
    cases hl : Spec.lookup (Spec.growIfFull sp) k with
    | none =>
      have hk : k ∉ keysOf sp.slots := by
        have := lookup_none_iff.mp hl
        unfold keysOf at *; rwa [entries_growIfFull] at this
      have hk' : k ∉ (entries sp.slots).map Prod.fst := hk
      have hkg : k ∉ keysOf (Spec.growIfFull sp).slots := lookup_none_iff.mp hl
      simp only [Spec.put, findKey_append_absent default hkg, set_split, entries_append, entries_growIfFull]
      simp [alPut, hk']
    | some r =>
      have hk : k ∈ keysOf sp.slots := by
        by_contra hcon
        have : k ∉ keysOf (Spec.growIfFull sp).slots := by unfold keysOf at *; rwa [entries_growIfFull]
        rw [lookup_none_iff.mpr this] at hl; cases hl
      simp only
      rw [entries_put (keysNodup_growIfFull hnd), entries_growIfFull]
  | lookup k => rfl
  | lookupIdx i => rfl
  | remove k =>
    simp only [Spec.step, Spec.remove, alStep]
    cases hf : Spec.findKey sp.slots k with
    | none =>
      have : k ∉ (entries sp.slots).map Prod.fst := findKey_none_iff.mp hf
      simp [alRemove_absent this]
    | some i =>
      obtain ⟨A, B, v0, h1, h2, _⟩ := entries_remove_present hf
      have hn : ((A ++ (k, v0) :: B).map Prod.fst).Nodup := by rw [← h1]; exact hnd
      obtain ⟨hA, hB⟩ := nodup_split hn
      simp only
      rw [h2, h1, alRemove_split hA hB]
  | removeIdx i => exact absurd hop (by simp [Op.KeyLevel])
  | rename a b => exact absurd hop (by simp [Op.KeyLevel])
  | reserve n => simp only [Spec.step, Spec.reserve, alStep]; split <;> rfl
  | resize n => exact absurd hop (by simp [Op.KeyLevel])
  | expect n =>
    simp only [Spec.step, Spec.expect, alStep]
    split
    · simp [Spec.realloc, entries_compact]
    · rfl
  | compress =>
    simp only [Spec.step, Spec.compress, alStep]
    split
    · split
      · simp [Spec.realloc, entries_compact]
      · rfl
    · rename_i h
      simp only [ne_eq, not_not] at h
      have : entries sp.slots = [] := by
        have h' : (Spec.compact sp.slots).length = 0 := h
        have := entries_compact sp.slots
        rw [List.eq_nil_of_length_eq_zero h'] at this
        exact this.symm
      rw [this]; rfl
  | clear => rfl
  | reset => rfl
  | sort a => exact absurd hop (by simp [Op.KeyLevel])
  | copy =>
    simp only [Spec.step, Spec.copy, alStep]
    split
    · simp [Spec.realloc, entries_compact]
    · rename_i h
      simp only [ne_eq, not_not] at h
      rw [List.eq_nil_of_length_eq_zero h]; rfl
  | move => rfl
  | merge ins rem => exact absurd hop (by simp [Op.KeyLevel])
  | selfMerge => rfl

end Qentem.HashTable
