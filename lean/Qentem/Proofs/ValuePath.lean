import Qentem.Model.Value
import Qentem.Model.ValueOps
import Qentem.Proofs.ValueSlots
import Qentem.Proofs.ValueDoc
import Qentem.Proofs.ValueEnv
/-! Reading back through a path what a chain of subscripts wrote (`getAt ∘ updPath`), and what a
write through `GetValue` pointers leaves (`getAt ∘ modAt`). -/
namespace Qentem.Value
open Doc

theorem nonUndef_of_defined (v : Doc) (h : v.isUndef = false) : nonUndef v = some v := by
  simp [nonUndef, h]

theorem updKey_read (k : Key) (F : Doc → Doc) (d : Doc) : ∃ o, childKey (updKey k F d) k = nonUndef (F o) :=
  ⟨foundOrUndef (slotFind k (objExpand (asObj d).1 (asObj d).2).2), by simp [updKey, childKey, slotFind_slotUpd_same]⟩

theorem updIdx_read (i : Nat) (F : Doc → Doc) (d : Doc) : ∃ o, childIdx (updIdx i F d) i = nonUndef (F o) := by
  have happ : ∀ (l : List Doc) (n : Nat) (y : Doc), (l ++ List.replicate n undef ++ [y])[l.length + n]? = some y := by
    intro l n y
    rw [List.getElem?_append_right (by simp)]
    simp
  have hnil : ∀ y : Doc, (List.replicate i undef ++ [y])[i]? = some y := by
    intro y
    have := happ [] i y
    simpa using this
  cases d with
  | arr items =>
    by_cases h : i < items.length
    · exact ⟨items[i], by simp [updIdx, h, childIdx, setAtIdx_get_same, List.getElem?_eq_getElem h]⟩
    · obtain ⟨n, rfl⟩ : ∃ n, i = items.length + n := ⟨i - items.length, by omega⟩
      exact ⟨undef, by simp only [updIdx, h, if_false, childIdx, Nat.add_sub_cancel_left, happ]⟩
  | obj c s =>
    cases hs : s[i]? with
    | none => exact ⟨undef, by simp only [updIdx, hs, childIdx, hnil]⟩
    | some sl =>
      cases sl with
      | none => exact ⟨undef, by simp only [updIdx, hs, childIdx, hnil]⟩
      | some e =>
        obtain ⟨k, v⟩ := e
        have hi : i < s.length := (List.getElem?_eq_some_iff.1 hs).1
        exact ⟨v, by simp only [updIdx, hs, childIdx]; simp [List.getElem?_set, hi]⟩
  | _ => exact ⟨undef, by simp only [updIdx, childIdx, hnil]⟩

theorem updIdx_defined (i : Nat) (F : Doc → Doc) (d : Doc) : (updIdx i F d).isUndef = false := by
  cases d with
  | arr items => simp only [updIdx]; split <;> rfl
  | obj c s => simp only [updIdx]; split <;> rfl
  | _ => rfl

theorem updPath_defined (p : List Sel) (y : Doc) (hy : y.isUndef = false) (d : Doc) :
    (updPath p (fun _ => y) d).isUndef = false := by
  cases p with
  | nil => exact hy
  | cons sel rest =>
    cases sel with
    | key k => rfl
    | idx i => exact updIdx_defined i _ d

/-- **get-after-set at any path**: what a chain of subscripts assigned is what a chain of `GetValue`
calls along the same path reads, whatever the document was. -/
theorem getAt_updPath (p : List Sel) (y : Doc) (hy : y.isUndef = false) :
    ∀ d, getAt (updPath p (fun _ => y) d) p = some y := by
  induction p with
  | nil => intro d; rfl
  | cons sel rest ih =>
    intro d
    cases sel with
    | key k =>
      obtain ⟨o, ho⟩ := updKey_read k (updPath rest (fun _ => y)) d
      simp only [updPath, getAt, childAt, ho, nonUndef_of_defined _ (updPath_defined rest y hy o)]
      exact ih o
    | idx i =>
      obtain ⟨o, ho⟩ := updIdx_read i (updPath rest (fun _ => y)) d
      simp only [updPath, getAt, childAt, ho, nonUndef_of_defined _ (updPath_defined rest y hy o)]
      exact ih o

/-! ### writing through a `GetValue` pointer -/

theorem slotFind_slotSetVal (k : Key) (y v : Doc) (s : List Slot) (h : slotFind k s = some v) :
    slotFind k (slotSetVal k y s) = some y := by
  induction s with
  | nil => simp [slotFind] at h
  | cons a t ih =>
    cases a with
    | none => simpa [slotSetVal, slotFind] using ih (by simpa [slotFind] using h)
    | some e =>
      obtain ⟨k2, v2⟩ := e
      by_cases h1 : k2 = k
      · simp [slotSetVal, slotFind, h1]
      · simpa [slotSetVal, slotFind, h1] using ih (by simpa [slotFind, h1] using h)

theorem nonUndef_some (v c : Doc) (h : nonUndef v = some c) : c = v ∧ v.isUndef = false := by
  unfold nonUndef at h
  split at h
  · cases h
  · rename_i hv; cases h; exact ⟨rfl, by simpa using hv⟩

theorem childAt_setChild (d : Doc) (sel : Sel) (c y : Doc) (hc : childAt d sel = some c) :
    childAt (setChild d sel y) sel = nonUndef y ∧ (setChild d sel y).isUndef = false := by
  cases d with
  | obj cap s =>
    cases sel with
    | key k =>
      simp only [childAt, childKey] at hc
      cases hf : slotFind k s with
      | none => simp [hf] at hc
      | some v => exact ⟨by simp [setChild, childAt, childKey, slotFind_slotSetVal k y v s hf], rfl⟩
    | idx i =>
      simp only [childAt, childIdx] at hc
      cases hs : s[i]? with
      | none => simp [hs] at hc
      | some sl =>
        cases sl with
        | none => simp [hs] at hc
        | some e =>
          obtain ⟨k, v⟩ := e
          have hi : i < s.length := (List.getElem?_eq_some_iff.1 hs).1
          exact ⟨by simp only [setChild, hs, childAt, childIdx]; simp [List.getElem?_set, hi], by simp only [setChild, hs, isUndef]⟩
  | arr items =>
    cases sel with
    | key k =>
      simp only [childAt, childKey] at hc
      cases hk : arrayKeyIndex k with
      | none => simp [hk] at hc
      | some ki =>
        simp only [hk] at hc
        cases hg : items[ki]? with
        | none => simp [hg] at hc
        | some v => exact ⟨by simp [setChild, childAt, childKey, hk, setAtIdx_get_same, hg], by simp [setChild, hk, isUndef]⟩
    | idx i =>
      simp only [childAt, childIdx] at hc
      cases hg : items[i]? with
      | none => simp [hg] at hc
      | some v => exact ⟨by simp [setChild, childAt, childIdx, setAtIdx_get_same, hg], rfl⟩
  | _ => cases sel <;> simp [childAt, childKey, childIdx] at hc

theorem modAt_defined (f : Doc → Doc) (sel : Sel) (rest : List Sel) (d x : Doc)
    (h : getAt d (sel :: rest) = some x) : (modAt d (sel :: rest) f).isUndef = false := by
  simp only [getAt] at h
  cases hc : childAt d sel with
  | none => simp [hc] at h
  | some c => simp only [modAt, hc]; exact (childAt_setChild d sel c _ hc).2

/-- a moved-from member is no longer found by `GetValue` along its path. -/
theorem getAt_modAt_undef (p : List Sel) (hp : p ≠ []) :
    ∀ (d x : Doc), getAt d p = some x → getAt (modAt d p (fun _ => undef)) p = none := by
  induction p with
  | nil => exact absurd rfl hp
  | cons sel rest ih =>
    intro d x h
    have h' := h
    simp only [getAt] at h
    cases hc : childAt d sel with
    | none => simp [hc] at h
    | some c =>
      simp only [hc] at h
      simp only [modAt, hc, getAt, (childAt_setChild d sel c _ hc).1]
      cases rest with
      | nil => simp [modAt, nonUndef, isUndef]
      | cons sel2 rest2 =>
        rw [nonUndef_of_defined _ (modAt_defined _ sel2 rest2 c x h)]
        exact ih (by simp) c x h

/-- writing `y` through the pointer found along `p` is read back along `p`. -/
theorem getAt_modAt (p : List Sel) (y : Doc) (hy : y.isUndef = false) :
    ∀ (d x : Doc), getAt d p = some x → getAt (modAt d p (fun _ => y)) p = some y := by
  induction p with
  | nil => intro d x _; rfl
  | cons sel rest ih =>
    intro d x h
    simp only [getAt] at h
    cases hc : childAt d sel with
    | none => simp [hc] at h
    | some c =>
      simp only [hc] at h
      have hm : (modAt c rest (fun _ => y)).isUndef = false := by
        cases rest with
        | nil => exact hy
        | cons sel2 rest2 => exact modAt_defined _ sel2 rest2 c x h
      simp only [modAt, hc, getAt, (childAt_setChild d sel c _ hc).1, nonUndef_of_defined _ hm]
      exact ih c x h

theorem envGet_envSet_same (env : Env) (r : Nat) (d : Doc) (h : r < env.length) : envGet (envSet env r d) r = d := by
  simp [envGet, envSet, List.getElem?_set, h]

end Qentem.Value
