import Qentem.Model.NumToStr
/-! Helper lemmas for C10 (append-only): every block of the real-number path leaves the first
`started_at` units of the stream untouched. -/
set_option linter.unusedSimpArgs false
namespace Qentem.Proofs.NumToStr
open Qentem.NumToStr Qentem.Generated.NumToStr Qentem

/-- `s'` still starts with the first `start` units of `s` -/
def Ext (start : Nat) (s s' : List Nat) : Prop := start ≤ s'.length ∧ s'.take start = s.take start

theorem Ext.refl {start : Nat} {s : List Nat} (h : start ≤ s.length) : Ext start s s := ⟨h, rfl⟩

theorem Ext.trans {start : Nat} {a b c : List Nat} (h1 : Ext start a b) (h2 : Ext start b c) : Ext start a c :=
  ⟨h2.1, h2.2.trans h1.2⟩

theorem ext_append {start : Nat} {s : List Nat} (l : List Nat) (h : start ≤ s.length) : Ext start s (s ++ l) :=
  ⟨by simp; omega, List.take_append_of_le_length h⟩

theorem wrAt_ext {start i v : Nat} {s s' : List Nat} (h : wrAt start s i v = .ok s') (hs : start ≤ s.length) :
    Ext start s s' := by
  unfold wrAt at h
  split at h
  · cases h
  · split at h
    · cases h
      exact ⟨by simpa using hs, List.take_set_of_le (by omega)⟩
    · cases h

theorem insertAt_ext {start ch i : Nat} {s s' : List Nat} (h : insertAt start s ch i = .ok s') (hs : start ≤ s.length) :
    Ext start s s' := by
  unfold insertAt at h
  split at h
  · cases h
  · split at h
    · cases h
      refine ⟨by simp; omega, ?_⟩
      rw [List.take_append_of_le_length (by simp; omega), List.take_take, Nat.min_eq_left (by omega)]
    · cases h; exact Ext.refl hs

theorem reverseFrom_ext {start : Nat} {s : List Nat} (hs : start ≤ s.length) : Ext start s (reverseFrom s start) := by
  unfold reverseFrom
  refine ⟨by simp; omega, ?_⟩
  rw [List.take_append_of_le_length (by simp; omega), List.take_take, Nat.min_self]

theorem stepBack_ext {start len : Nat} {s s' : List Nat} (h : stepBack start s len = .ok s') (hs : start ≤ s.length) :
    Ext start s s' := by
  unfold stepBack at h
  split at h
  · split at h
    · cases h
      refine ⟨by simp; omega, ?_⟩
      rw [List.take_take, Nat.min_eq_left (by omega)]
    · cases h
  · cases h; exact Ext.refl hs

/-! transitive forms, for backward chaining -/
theorem ext_append' {start : Nat} {s0 s : List Nat} (l : List Nat) (h0 : Ext start s0 s) : Ext start s0 (s ++ l) :=
  h0.trans (ext_append l h0.1)
theorem ext_cons_append' {start : Nat} {s0 s : List Nat} (a : Nat) (l : List Nat) (h0 : Ext start s0 s) : Ext start s0 (s ++ a :: l) :=
  h0.trans (ext_append _ h0.1)
theorem reverseFrom_ext' {start : Nat} {s0 s : List Nat} (h0 : Ext start s0 s) : Ext start s0 (reverseFrom s start) :=
  h0.trans (reverseFrom_ext h0.1)
theorem wrAt_ext' {start i v : Nat} {s0 s s' : List Nat} (h : wrAt start s i v = .ok s') (h0 : Ext start s0 s) : Ext start s0 s' :=
  h0.trans (wrAt_ext h h0.1)
theorem insertAt_ext' {start ch i : Nat} {s0 s s' : List Nat} (h : insertAt start s ch i = .ok s') (h0 : Ext start s0 s) : Ext start s0 s' :=
  h0.trans (insertAt_ext h h0.1)
theorem stepBack_ext' {start len : Nat} {s0 s s' : List Nat} (h : stepBack start s len = .ok s') (h0 : Ext start s0 s) : Ext start s0 s' :=
  h0.trans (stepBack_ext h h0.1)

syntax "ext_chain" : tactic
macro_rules
  | `(tactic| ext_chain) => `(tactic| repeat (first
      | assumption
      | exact Ext.refl (by assumption)
      | refine ext_append' _ ?_
      | refine reverseFrom_ext' ?_
      | refine wrAt_ext' (by assumption) ?_
      | refine insertAt_ext' (by assumption) ?_
      | refine stepBack_ext' (by assumption) ?_))

theorem roundCarry_ext' {start index : Nat} {s0 s : List Nat} {r : List Nat × Nat × Bool}
    (h : roundCarry start s index = .ok r) (h0 : Ext start s0 s) : Ext start s0 r.1 := by
  unfold roundCarry at h
  simp only [bind, Except.bind, pure, Except.pure] at h
  repeat' split at h
  all_goals (cases h; try ext_chain)

theorem roundStringNumber_ext' {start index : Nat} {ru : Bool} {s0 s : List Nat} {r : List Nat × Nat × Bool}
    (h : roundStringNumber start s index ru = .ok r) (h0 : Ext start s0 s) : Ext start s0 r.1 := by
  unfold roundStringNumber at h
  simp only [bind, Except.bind, pure, Except.pure] at h
  repeat' split at h
  all_goals first
    | (cases h; done)
    | (cases h; exact h0)
    | exact roundCarry_ext' h h0

theorem restoreZeros_ext' {start : Nat} : ∀ (zeros : Nat) {s0 s : List Nat} {index : Nat} {r : List Nat × Nat},
    restoreZeros start zeros s index = .ok r → Ext start s0 s → Ext start s0 r.1 := by
  intro zeros
  induction zeros with
  | zero => intro s0 s index r h h0; simp [restoreZeros, pure, Except.pure] at h; cases h; exact h0
  | succ z ih =>
    intro s0 s index r h h0
    unfold restoreZeros at h
    simp only [bind, Except.bind] at h
    repeat' split at h
    all_goals first
      | cases h
      | exact ih h (wrAt_ext' (by assumption) h0)

theorem intToString_ext' {start : Nat} {s0 s s' : List Nat} {bytes raw : Nat} {sg : Bool}
    (h : intToString s bytes sg raw = .ok s') (h0 : Ext start s0 s) : Ext start s0 s' := by
  unfold intToString at h
  simp only [bind, Except.bind, pure, Except.pure] at h
  repeat' split at h
  all_goals (cases h; try ext_chain)

theorem insertPowerOfTen_ext' {start : Nat} {s0 s s' : List Nat} {power : Nat} {positive : Bool}
    (h : insertPowerOfTen s power positive = .ok s') (h0 : Ext start s0 s) : Ext start s0 s' := by
  unfold insertPowerOfTen at h
  repeat' split at h
  all_goals (first | exact intToString_ext' h (by ext_chain))

syntax "ext_chain2" : tactic
macro_rules
  | `(tactic| ext_chain2) => `(tactic| (try dsimp only) <;> repeat (first
      | assumption
      | exact Ext.refl (by assumption)
      | refine reverseFrom_ext' ?_
      | refine ext_append' _ ?_
      | refine wrAt_ext' (by assumption) ?_
      | refine insertAt_ext' (by assumption) ?_
      | refine stepBack_ext' (by assumption) ?_
      | refine roundStringNumber_ext' (by assumption) ?_
      | refine restoreZeros_ext' _ (by assumption) ?_
      | refine insertPowerOfTen_ext' (by assumption) ?_))

theorem defaultRound_ext' {start nl precision cd fl : Nat} {pos ru : Bool} {s0 s : List Nat} {r : List Nat × Nat × Nat × Bool × Nat}
    (h : defaultRound start s nl precision cd fl pos ru = .ok r) (h0 : Ext start s0 s) : Ext start s0 r.1 := by
  unfold defaultRound at h
  simp only [bind, Except.bind, pure, Except.pure] at h
  repeat' split at h
  all_goals (first | (cases h; done) | (cases h; ext_chain2) | ext_chain2)

theorem defaultFraction_ext' {start index power nl fl : Nat} {pi : Bool} {s0 s : List Nat} {r : List Nat × Nat × Nat}
    (h : defaultFraction start s index power nl fl pi = .ok r) (h0 : Ext start s0 s) : Ext start s0 r.1 := by
  unfold defaultFraction at h
  simp only [bind, Except.bind, pure, Except.pure] at h
  repeat' split at h
  all_goals (first | (cases h; done) | (cases h; ext_chain2) | ext_chain2)

theorem finishNumber_ext' {start index : Nat} {s0 s s' : List Nat}
    (h : finishNumber start s index = .ok s') (h0 : Ext start s0 s) : Ext start s0 s' := by
  unfold finishNumber at h
  simp only [bind, Except.bind, pure, Except.pure] at h
  repeat' split at h
  all_goals (first | (cases h; done) | (cases h; ext_chain2) | ext_chain2)

theorem formatDefault_ext' {start precision cd fl : Nat} {pos ru : Bool} {s0 s s' : List Nat}
    (h : formatDefault start s precision cd fl pos ru = .ok s') (h0 : Ext start s0 s) : Ext start s0 s' := by
  unfold formatDefault at h
  simp only [bind, Except.bind, pure, Except.pure] at h
  repeat' split at h
  all_goals first
    | (cases h; done)
    | (have e1 := defaultRound_ext' (by assumption) h0
       have e2 := defaultFraction_ext' (by assumption) e1
       have e3 := finishNumber_ext' (by assumption) e2
       first
        | (cases h; exact e3)
        | exact insertPowerOfTen_ext' h (insertAt_ext' (by assumption) e3))

theorem fixedRound_ext' {start precision fl : Nat} {ru : Bool} {s0 s : List Nat} {r : List Nat × Nat × Bool}
    (h : fixedRound start s precision fl ru = .ok r) (h0 : Ext start s0 s) : Ext start s0 r.1 := by
  unfold fixedRound at h
  simp only [bind, Except.bind, pure, Except.pure] at h
  repeat' split at h
  all_goals (first | (cases h; done) | (cases h; ext_chain2) | ext_chain2)

theorem fixedFraction_ext' {start index nl fl diff : Nat} {pi : Bool} {s0 s : List Nat} {r : List Nat × Nat}
    (h : fixedFraction start s index nl fl diff pi = .ok r) (h0 : Ext start s0 s) : Ext start s0 r.1 := by
  unfold fixedFraction at h
  simp only [bind, Except.bind, pure, Except.pure] at h
  repeat' split at h
  all_goals (first | (cases h; done) | (cases h; ext_chain2) | ext_chain2)

theorem fixedPad_ext' {start index precision fl : Nat} {fo pi : Bool} {s0 s s' : List Nat}
    (h : fixedPad start s index precision fl fo pi = .ok s') (h0 : Ext start s0 s) : Ext start s0 s' := by
  unfold fixedPad at h
  simp only [bind, Except.bind, pure, Except.pure] at h
  repeat' split at h
  all_goals (first | (cases h; done) | (cases h; ext_chain2) | ext_chain2)

syntax "ext_chain3" : tactic
macro_rules
  | `(tactic| ext_chain3) => `(tactic| (try dsimp only) <;> repeat (first
      | assumption
      | exact Ext.refl (by assumption)
      | refine reverseFrom_ext' ?_
      | refine ext_append' _ ?_
      | refine wrAt_ext' (by assumption) ?_
      | refine insertAt_ext' (by assumption) ?_
      | refine stepBack_ext' (by assumption) ?_
      | refine fixedPad_ext' (by assumption) ?_
      | refine finishNumber_ext' (by assumption) ?_
      | refine fixedFraction_ext' (by assumption) ?_
      | refine fixedRound_ext' (by assumption) ?_
      | refine insertPowerOfTen_ext' (by assumption) ?_
      | refine defaultFraction_ext' (by assumption) ?_
      | refine defaultRound_ext' (by assumption) ?_))

theorem formatFixed_ext' {fixedT : Bool} {start precision fl : Nat} {ru : Bool} {s0 s s' : List Nat}
    (h : formatFixed fixedT start s precision fl ru = .ok s') (h0 : Ext start s0 s) : Ext start s0 s' := by
  unfold formatFixed at h
  simp only [bind, Except.bind, pure, Except.pure] at h
  repeat' split at h
  all_goals (first | (cases h; done) | (cases h; ext_chain3) | ext_chain3)

theorem bigIntToStringLoop_ext' {start : Nat} : ∀ (fuel : Nat) {s0 s : List Nat} {b : Nat} {r : Nat × List Nat},
    bigIntToStringLoop fuel b s = .ok r → Ext start s0 s → Ext start s0 r.2 := by
  intro fuel
  induction fuel with
  | zero => intro s0 s b r h _; simp [bigIntToStringLoop] at h
  | succ k ih =>
    intro s0 s b r h h0
    unfold bigIntToStringLoop at h
    simp only [bind, Except.bind, pure, Except.pure] at h
    repeat' split at h
    all_goals first
      | (cases h; done)
      | (cases h; exact h0)
      | exact ih h (by ext_chain3)

theorem bigIntToString_ext' {start tb b : Nat} {s0 s s' : List Nat}
    (h : bigIntToString tb s b = .ok s') (h0 : Ext start s0 s) : Ext start s0 s' := by
  unfold bigIntToString at h
  simp only [bind, Except.bind, pure, Except.pure] at h
  repeat' split at h
  all_goals first
    | (cases h; done)
    | (cases h; first | exact bigIntToStringLoop_ext' _ (by assumption) h0 | exact ext_append' _ (bigIntToStringLoop_ext' _ (by assumption) h0))

theorem realFinite_ext' {c : Cfg} {s0 s out : List Nat} {m bf p f : Nat}
    (h : realFinite c s m bf p f = .ok out) (h0 : Ext s.length s0 s) : Ext s.length s0 out := by
  unfold realFinite at h
  simp only [bind, Except.bind, pure, Except.pure] at h
  repeat' split at h
  all_goals first
    | (cases h; done)
    | exact formatFixed_ext' h (bigIntToString_ext' (by assumption) h0)
    | exact formatDefault_ext' h (bigIntToString_ext' (by assumption) h0)

theorem ext_of_suffix {pre l out : List Nat} (h : Ext (pre ++ l).length (pre ++ l) out) : Ext pre.length pre out := by
  obtain ⟨h1, h2⟩ := h
  refine ⟨by simp at h1; omega, ?_⟩
  have : List.take pre.length out = List.take pre.length (List.take (pre ++ l).length out) := by
    rw [List.take_take, Nat.min_eq_left (by simp)]
  rw [this, h2, List.take_take, Nat.min_eq_left (by simp)]
  simp

/-- **append-only (real path)**: whenever the model of `realToString` returns, the stream is what it
held before followed by the new text.  (Every in-place poke of the model is guarded: a write
below `started_at` is a `prefixWrite` fault, so this is the statement "a run without such a fault
leaves the prefix untouched".) -/
theorem realToString_append_only {c : Cfg} {pre out : List Nat} {bits p f : Nat}
    (h : realToString c pre bits p f = .ok out) : ∃ text, out = pre ++ text := by
  have key : Ext pre.length pre out := by
    unfold realToString at h
    simp only [bind, Except.bind, pure, Except.pure] at h
    generalize hs : (if bits &&& c.signMask ≠ 0 then pre ++ [Ch.negative] else pre) = s1 at h
    have hl : ∃ l, s1 = pre ++ l := by
      rw [← hs]; split
      · exact ⟨[Ch.negative], rfl⟩
      · exact ⟨[], by simp⟩
    obtain ⟨l, rfl⟩ := hl
    have hr : Ext (pre ++ l).length (pre ++ l) (pre ++ l) := Ext.refl (Nat.le_refl _)
    split at h
    · split at h
      · exact ext_of_suffix (realFinite_ext' h hr)
      · repeat' split at h
        all_goals first
          | (cases h; done)
          | (cases h; refine ext_of_suffix (l := l) ?_; ext_chain; done)
    · repeat' split at h
      all_goals first
        | (cases h; done)
        | (cases h; refine ext_of_suffix (l := l) ?_; ext_chain; done)
        | (cases h; exact ext_append' _ (Ext.refl (Nat.le_refl _)))
  refine ⟨out.drop pre.length, ?_⟩
  have h2 := key.2
  simp only [List.take_length] at h2
  calc out = out.take pre.length ++ out.drop pre.length := (List.take_append_drop _ _).symm
    _ = pre ++ out.drop pre.length := by rw [h2]

end Qentem.Proofs.NumToStr
