import Qentem.Model.Tmpl.Render
/-!
# C03 link — what the render model appends for `{var:}`, `{raw:}` and `{svar:}`

* `var_emits_escaped`: a Variable tag appends (after the literal text before it) either
  `escapeCfg auto x` with `x` the resolved string, the loop key or the tag's own source slice, or the
  text of a number / keyword (`numeral_safe`: no `& < > " '` in those, for integers and keywords; a
  real goes through the parameter `fmtReal`).
* `raw_emits_verbatim`: a Raw tag appends the resolved string / number text / its own source verbatim.
* `svar_emits`: a super variable appends a sequence of parts, each `escapeCfg auto` of a piece of the
  phrase or what one of its `{var:}` / `{raw:}` / `{math:}` sub tags appends.
-/
set_option linter.unusedSectionVars false
namespace Qentem.Tmpl
open Qentem.Expr (Fault VarRef RealLike Item)
open Qentem.Generated.Tmpl

/-- the five HTML specials -/
def isSpecial (c : Nat) : Bool := c == 38 || c == 60 || c == 62 || c == 34 || c == 39

theorem decimalF_digits : ∀ (f n : Nat) (acc : List Nat), (∀ c ∈ acc, 48 ≤ c ∧ c ≤ 57) →
    ∀ c ∈ decimalF f n acc, 48 ≤ c ∧ c ≤ 57 := by
  intro f
  induction f with
  | zero => intro n acc h; simpa [decimalF] using h
  | succ f ih =>
    intro n acc h
    simp only [decimalF]
    split
    · intro c hc
      simp only [List.mem_cons] at hc
      rcases hc with rfl | hc
      · omega
      · exact h c hc
    · apply ih
      intro c hc
      simp only [List.mem_cons] at hc
      rcases hc with rfl | hc
      · omega
      · exact h c hc

theorem decimal_digits (n : Nat) : ∀ c ∈ decimal n, 48 ≤ c ∧ c ≤ 57 :=
  decimalF_digits _ _ [] (by intro c hc; cases hc)

theorem decimal_safe (n : Nat) : ∀ c ∈ decimal n, isSpecial c = false := by
  intro c hc
  have := decimal_digits n c hc
  simp [isSpecial]; omega

theorem signedDecimal_safe (b : Nat) : ∀ c ∈ signedDecimal b, isSpecial c = false := by
  intro c hc
  unfold signedDecimal at hc
  split at hc
  · exact decimal_safe _ c hc
  · simp only [List.mem_cons] at hc
    rcases hc with rfl | hc
    · rfl
    · exact decimal_safe _ c hc

variable {R : Type}

/-- a value that prints as a number or a keyword (not a string, not a container) -/
def Doc.isNumeral : Doc → Bool
  | .nat _ | .int _ | .tru | .fals | .null => true
  | _ => false

/-- `numeral_safe`: integers and keywords print without any HTML special, escaped or not -/
theorem numeral_safe (cx : RCtx R) (esc : Bool) (d : Doc) (txt : List Nat) (hd : d.isNumeral = true)
    (h : copyValue cx esc d = some txt) : ∀ c ∈ txt, isSpecial c = false := by
  cases d <;> simp [Doc.isNumeral] at hd <;> simp only [copyValue, Option.some.injEq] at h <;> subst h
  · intro c hc; revert c; decide
  · intro c hc; revert c; decide
  · intro c hc; revert c; decide
  · exact decimal_safe _
  · exact signedDecimal_safe _

/-- where the text a Variable tag escapes comes from -/
inductive VarSource (cx : RCtx R) (st : RState) (v : VarRef) : List Nat → Prop
  | resolved (s : List Nat) : getValue cx st v = .ok (some (.str s)) → VarSource cx st v s
  | loopKey (it : LoopItem) : itemAt st v.level = .ok it → v.idLen ≠ 0 → VarSource cx st v it.key
  | source (src : List Nat) :
      slice cx.content (v.off - W1.variablePrefixLength)
        (v.off - W1.variablePrefixLength + (v.len + W1.variableFullLength)) = .ok src →
      VarSource cx st v src

/-- what a Variable tag appends after the literal text before it -/
inductive VarText (cx : RCtx R) (st : RState) (v : VarRef) : List Nat → Prop
  | escaped (x : List Nat) : VarSource cx st v x →
      VarText cx st v (Qentem.Escape.escapeCfg cx.autoEscape x)
  | numeral (d : Doc) (txt : List Nat) : getValue cx st v = .ok (some d) →
      (d.isNumeral = true ∨ ∃ b, d = .real b) → copyValue cx true d = some txt → VarText cx st v txt

theorem emit_out (st : RState) (s : List Nat) : (emit st s).out = st.out ++ s := rfl

theorem getValue_emit (cx : RCtx R) (st : RState) (s : List Nat) (v : VarRef) :
    getValue cx (emit st s) v = getValue cx st v := rfl

theorem itemAt_emit (st : RState) (s : List Nat) (l : Nat) : itemAt (emit st s) l = itemAt st l := rfl

/-- `var_emits_escaped` -/
theorem var_emits_escaped (cx : RCtx R) (st st' : RState) (v : VarRef) (offset off' : Nat)
    (h : renderVariable cx st v offset = .ok (st', off')) :
    ∃ pre txt, slice cx.content offset (v.off - W1.variablePrefixLength) = .ok pre ∧
      st'.out = st.out ++ pre ++ txt ∧ st'.items = st.items ∧ VarText cx st v txt := by
  unfold renderVariable at h
  cases h1 : subChk v.off W1.variablePrefixLength with
  | error e => simp [h1, bind, Except.bind] at h
  | ok tOff =>
    have htOff : tOff = v.off - W1.variablePrefixLength := by
      unfold subChk at h1; split at h1 <;> simp at h1; exact h1.symm
    subst htOff
    simp only [h1, bind, Except.bind] at h
    cases h2 : slice cx.content offset (v.off - W1.variablePrefixLength) with
    | error e => simp [h2] at h
    | ok pre =>
      simp only [h2] at h
      refine ⟨pre, ?_⟩
      cases h3 : getValue cx (emit st pre) v with
      | error e => simp [h3] at h
      | ok value =>
        simp only [h3] at h
        rw [getValue_emit] at h3
        cases h4 : value.bind (copyValue cx true) with
        | some txt =>
          simp only [h4, Except.ok.injEq, Prod.mk.injEq] at h
          obtain ⟨hs, _⟩ := h
          subst hs
          refine ⟨txt, rfl, by simp [emit_out, List.append_assoc], rfl, ?_⟩
          cases value with
          | none => simp at h4
          | some d =>
            simp only [Option.bind] at h4
            cases d with
            | str s =>
              simp only [copyValue, Option.some.injEq, if_true] at h4
              subst h4
              exact .escaped s (.resolved s h3)
            | nat n => exact .numeral _ _ h3 (Or.inl rfl) h4
            | int b => exact .numeral _ _ h3 (Or.inl rfl) h4
            | real b => exact .numeral _ _ h3 (Or.inr ⟨b, rfl⟩) h4
            | tru => exact .numeral _ _ h3 (Or.inl rfl) h4
            | fals => exact .numeral _ _ h3 (Or.inl rfl) h4
            | null => exact .numeral _ _ h3 (Or.inl rfl) h4
            | undefined => simp [copyValue] at h4
            | arr xs => simp [copyValue] at h4
            | obj ms => simp [copyValue] at h4
        | none =>
          simp only [h4] at h
          unfold loopKeyText at h
          by_cases hid : v.idLen = 0
          · simp only [hid, if_true] at h
            cases h6 : slice cx.content (v.off - W1.variablePrefixLength)
                (v.off - W1.variablePrefixLength + (v.len + W1.variableFullLength)) with
            | error e => simp [h6] at h
            | ok src =>
              simp only [h6, Except.ok.injEq, Prod.mk.injEq] at h
              obtain ⟨hs, _⟩ := h
              subst hs
              exact ⟨_, rfl, by simp [emit_out, List.append_assoc], rfl, .escaped _ (.source src h6)⟩
          · simp only [hid, if_false, itemAt_emit] at h
            cases h5 : itemAt st v.level with
            | error e => simp [h5] at h
            | ok it =>
              simp only [h5] at h
              by_cases hk : it.key.length = 0
              · simp only [hk, if_true] at h
                cases h6 : slice cx.content (v.off - W1.variablePrefixLength)
                    (v.off - W1.variablePrefixLength + (v.len + W1.variableFullLength)) with
                | error e => simp [h6] at h
                | ok src =>
                  simp only [h6, Except.ok.injEq, Prod.mk.injEq] at h
                  obtain ⟨hs, _⟩ := h
                  subst hs
                  exact ⟨_, rfl, by simp [emit_out, List.append_assoc], rfl, .escaped _ (.source src h6)⟩
              · simp only [hk, if_false, Except.ok.injEq, Prod.mk.injEq] at h
                obtain ⟨hs, _⟩ := h
                subst hs
                exact ⟨_, rfl, by simp [emit_out, List.append_assoc], rfl, .escaped _ (.loopKey it h5 hid)⟩

/-- what a Raw tag appends: nothing is escaped -/
inductive RawText (cx : RCtx R) (st : RState) (v : VarRef) : List Nat → Prop
  | resolved (d : Doc) (txt : List Nat) : getValue cx st v = .ok (some d) →
      copyValue cx false d = some txt → RawText cx st v txt
  | source (src : List Nat) :
      slice cx.content (v.off - W1.rawVariablePrefixLength)
        (v.off - W1.rawVariablePrefixLength + (v.len + W1.rawVariableFullLength)) = .ok src →
      RawText cx st v src

/-- a resolved string is copied unchanged by a Raw tag -/
theorem copyValue_raw_string (cx : RCtx R) (s : List Nat) : copyValue cx false (.str s) = some s := by
  simp [copyValue]

/-- `raw_emits_verbatim` -/
theorem raw_emits_verbatim (cx : RCtx R) (st st' : RState) (v : VarRef) (offset off' : Nat)
    (h : renderRawVariable cx st v offset = .ok (st', off')) :
    ∃ pre txt, slice cx.content offset (v.off - W1.rawVariablePrefixLength) = .ok pre ∧
      st'.out = st.out ++ pre ++ txt ∧ st'.items = st.items ∧ RawText cx st v txt := by
  unfold renderRawVariable at h
  cases h1 : subChk v.off W1.rawVariablePrefixLength with
  | error e => simp [h1, bind, Except.bind] at h
  | ok tOff =>
    have htOff : tOff = v.off - W1.rawVariablePrefixLength := by
      unfold subChk at h1; split at h1 <;> simp at h1; exact h1.symm
    subst htOff
    simp only [h1, bind, Except.bind] at h
    cases h2 : slice cx.content offset (v.off - W1.rawVariablePrefixLength) with
    | error e => simp [h2] at h
    | ok pre =>
      simp only [h2] at h
      refine ⟨pre, ?_⟩
      cases h3 : getValue cx (emit st pre) v with
      | error e => simp [h3] at h
      | ok value =>
        simp only [h3] at h
        rw [getValue_emit] at h3
        cases h4 : value.bind (copyValue cx false) with
        | some txt =>
          simp only [h4, Except.ok.injEq, Prod.mk.injEq] at h
          obtain ⟨hs, _⟩ := h
          subst hs
          cases value with
          | none => simp at h4
          | some d =>
            simp only [Option.bind] at h4
            exact ⟨txt, rfl, by simp [emit_out, List.append_assoc], rfl, .resolved d txt h3 h4⟩
        | none =>
          simp only [h4] at h
          cases h6 : slice cx.content (v.off - W1.rawVariablePrefixLength)
              (v.off - W1.rawVariablePrefixLength + (v.len + W1.rawVariableFullLength)) with
          | error e => simp [h6] at h
          | ok src =>
            simp only [h6, Except.ok.injEq, Prod.mk.injEq] at h
            obtain ⟨hs, _⟩ := h
            subst hs
            exact ⟨_, rfl, by simp [emit_out, List.append_assoc], rfl, .source src h6⟩


theorem slice_self (c : List Nat) (a : Nat) (pre : List Nat) (h : slice c a a = .ok pre) : pre = [] := by
  unfold slice at h
  split at h
  · simp at h; exact h
  · simp at h

section
variable [RealLike R]

/-- a Math tag only appends, and leaves the loop items alone -/
theorem renderMath_appends (cx : RCtx R) (st st' : RState) (ex : List (Item R)) (off endOff offset o : Nat)
    (h : renderMath cx st ex off endOff offset = .ok (st', o)) :
    ∃ pre txt, slice cx.content offset off = .ok pre ∧ st'.out = st.out ++ pre ++ txt ∧ st'.items = st.items := by
  unfold renderMath at h
  cases h2 : slice cx.content offset off with
  | error e => simp [h2, bind, Except.bind] at h
  | ok pre =>
    simp only [h2, bind, Except.bind] at h
    refine ⟨pre, ?_⟩
    cases h3 : evalExprs cx (emit st pre) ex with
    | error e => simp [h3] at h
    | ok r =>
      simp only [h3] at h
      split at h
      · simp only [Except.ok.injEq, Prod.mk.injEq] at h; obtain ⟨hs, _⟩ := h; subst hs
        exact ⟨_, rfl, by rw [emit_out, emit_out], rfl⟩
      · simp only [Except.ok.injEq, Prod.mk.injEq] at h; obtain ⟨hs, _⟩ := h; subst hs
        exact ⟨_, rfl, by rw [emit_out, emit_out], rfl⟩
      · simp only [Except.ok.injEq, Prod.mk.injEq] at h; obtain ⟨hs, _⟩ := h; subst hs
        exact ⟨_, rfl, by rw [emit_out, emit_out], rfl⟩
      · simp only [Except.ok.injEq, Prod.mk.injEq] at h; obtain ⟨hs, _⟩ := h; subst hs
        exact ⟨[], rfl, by rw [emit_out, List.append_nil], rfl⟩
      · cases h6 : slice cx.content off endOff with
        | error e => simp [h6] at h
        | ok src =>
          simp only [h6, Except.ok.injEq, Prod.mk.injEq] at h; obtain ⟨hs, _⟩ := h; subst hs
          exact ⟨_, rfl, by rw [emit_out, emit_out], rfl⟩

/-- the pieces a super variable appends: escaped pieces of the phrase, and what its
`{var:}` / `{raw:}` / `{math:}` sub tags append -/
inductive SvarParts (cx : RCtx R) (items : List LoopItem) (sub : List (Tag R)) : List Nat → Prop
  | nil : SvarParts cx items sub []
  | chunk (x rest : List Nat) : SvarParts cx items sub rest →
      SvarParts cx items sub (Qentem.Escape.escapeCfg cx.autoEscape x ++ rest)
  | var (v : VarRef) (st1 : RState) (txt rest : List Nat) : Tag.var v ∈ sub → st1.items = items →
      VarText cx st1 v txt → SvarParts cx items sub rest → SvarParts cx items sub (txt ++ rest)
  | raw (v : VarRef) (st1 : RState) (txt rest : List Nat) : Tag.raw v ∈ sub → st1.items = items →
      RawText cx st1 v txt → SvarParts cx items sub rest → SvarParts cx items sub (txt ++ rest)
  | math (ex : List (Item R)) (off endOff o : Nat) (st1 st2 : RState) (txt rest : List Nat) :
      Tag.math ex off endOff ∈ sub → st1.items = items →
      renderMath cx st1 ex off endOff off = .ok (st2, o) → st2.out = st1.out ++ txt →
      SvarParts cx items sub rest → SvarParts cx items sub (txt ++ rest)

/-- `svar_emits`: every piece of the phrase goes through the escaper; the rest comes from sub tags -/
theorem svar_emits (cx : RCtx R) (sub : List (Tag R)) (txt : List Nat) :
    ∀ (fuel index lastIdx : Nat) (st st' : RState),
      svarLoop cx fuel sub txt index lastIdx st = .ok st' →
      ∃ app, st'.out = st.out ++ app ∧ st'.items = st.items ∧ SvarParts cx st.items sub app := by
  intro fuel
  induction fuel with
  | zero => intro index lastIdx st st' h; simp [svarLoop] at h
  | succ fuel ih =>
    intro index lastIdx st st' h
    -- a recursive call from a state that differs from `st` by one escaped chunk
    have viaChunk : ∀ (x : List Nat) (i l : Nat),
        svarLoop cx fuel sub txt i l (emit st (Qentem.Escape.escapeCfg cx.autoEscape x)) = .ok st' →
        ∃ app, st'.out = st.out ++ app ∧ st'.items = st.items ∧ SvarParts cx st.items sub app := by
      intro x i l hh
      obtain ⟨app, h1, h2, h3⟩ := ih i l _ st' hh
      exact ⟨Qentem.Escape.escapeCfg cx.autoEscape x ++ app, by simp [h1, emit_out, List.append_assoc], h2,
        .chunk x app h3⟩
    simp only [svarLoop] at h
    split at h
    · split at h
      · split at h
        · split at h
          · split at h
            · split at h
              · -- {var:}
                rename_i v hsub
                have hmem : Tag.var v ∈ sub := List.mem_of_getElem? hsub
                cases h1 : subChk v.off W1.variablePrefixLength with
                | error e => simp [h1, bind, Except.bind] at h
                | ok o =>
                  have ho : o = v.off - W1.variablePrefixLength := by
                    unfold subChk at h1; split at h1 <;> simp at h1; exact h1.symm
                  subst ho
                  simp only [h1, bind, Except.bind] at h
                  cases h2 : renderVariable cx (emit st (Qentem.Escape.escapeCfg cx.autoEscape
                      ((txt.drop lastIdx).take (index - lastIdx)))) v (v.off - W1.variablePrefixLength) with
                  | error e => simp [h2] at h
                  | ok r =>
                    obtain ⟨st2, o2⟩ := r
                    simp only [h2] at h
                    obtain ⟨pre, t, hp, hout, hit, hvt⟩ := var_emits_escaped cx _ st2 v _ o2 h2
                    have := slice_self _ _ _ hp
                    subst this
                    obtain ⟨app, a1, a2, a3⟩ := ih _ _ st2 st' h
                    refine ⟨Qentem.Escape.escapeCfg cx.autoEscape ((txt.drop lastIdx).take (index - lastIdx)) ++ (t ++ app), ?_, ?_, ?_⟩
                    · simp [a1, hout, emit_out, List.append_assoc]
                    · rw [a2, hit]; rfl
                    · refine .chunk _ _ (.var v (emit st (Qentem.Escape.escapeCfg cx.autoEscape ((txt.drop lastIdx).take (index - lastIdx)))) t app hmem rfl hvt ?_)
                      rw [hit] at a3; exact a3
              · -- {raw:}
                rename_i v hsub
                have hmem : Tag.raw v ∈ sub := List.mem_of_getElem? hsub
                cases h1 : subChk v.off W1.rawVariablePrefixLength with
                | error e => simp [h1, bind, Except.bind] at h
                | ok o =>
                  have ho : o = v.off - W1.rawVariablePrefixLength := by
                    unfold subChk at h1; split at h1 <;> simp at h1; exact h1.symm
                  subst ho
                  simp only [h1, bind, Except.bind] at h
                  cases h2 : renderRawVariable cx (emit st (Qentem.Escape.escapeCfg cx.autoEscape
                      ((txt.drop lastIdx).take (index - lastIdx)))) v (v.off - W1.rawVariablePrefixLength) with
                  | error e => simp [h2] at h
                  | ok r =>
                    obtain ⟨st2, o2⟩ := r
                    simp only [h2] at h
                    obtain ⟨pre, t, hp, hout, hit, hvt⟩ := raw_emits_verbatim cx _ st2 v _ o2 h2
                    have := slice_self _ _ _ hp
                    subst this
                    obtain ⟨app, a1, a2, a3⟩ := ih _ _ st2 st' h
                    refine ⟨Qentem.Escape.escapeCfg cx.autoEscape ((txt.drop lastIdx).take (index - lastIdx)) ++ (t ++ app), ?_, ?_, ?_⟩
                    · simp [a1, hout, emit_out, List.append_assoc]
                    · rw [a2, hit]; rfl
                    · refine .chunk _ _ (.raw v (emit st (Qentem.Escape.escapeCfg cx.autoEscape ((txt.drop lastIdx).take (index - lastIdx)))) t app hmem rfl hvt ?_)
                      rw [hit] at a3; exact a3
              · -- {math:}
                rename_i ex off endOff hsub
                have hmem : Tag.math ex off endOff ∈ sub := List.mem_of_getElem? hsub
                cases h2 : renderMath cx (emit st (Qentem.Escape.escapeCfg cx.autoEscape
                    ((txt.drop lastIdx).take (index - lastIdx)))) ex off endOff off with
                | error e => simp [h2, bind, Except.bind] at h
                | ok r =>
                  obtain ⟨st2, o2⟩ := r
                  simp only [h2, bind, Except.bind] at h
                  obtain ⟨pre, t, hp, hout, hit⟩ := renderMath_appends cx _ st2 ex off endOff off o2 h2
                  have := slice_self _ _ _ hp
                  subst this
                  obtain ⟨app, a1, a2, a3⟩ := ih _ _ st2 st' h
                  refine ⟨Qentem.Escape.escapeCfg cx.autoEscape ((txt.drop lastIdx).take (index - lastIdx)) ++ (t ++ app), ?_, ?_, ?_⟩
                  · simp [a1, hout, emit_out, List.append_assoc]
                  · rw [a2, hit]; rfl
                  · refine .chunk _ _ (.math ex off endOff o2 (emit st (Qentem.Escape.escapeCfg cx.autoEscape ((txt.drop lastIdx).take (index - lastIdx)))) st2 t app hmem rfl h2 (by simpa using hout) ?_)
                    rw [hit] at a3; exact a3
              · exact viaChunk _ _ _ h
            · exact viaChunk _ _ _ h
          · exact viaChunk _ _ _ h
        · exact viaChunk _ _ _ h
      · exact ih _ _ st st' h
    · simp only [Except.ok.injEq] at h
      subst h
      exact ⟨_, rfl, rfl, by simpa using SvarParts.chunk (cx := cx) (items := st.items) (sub := sub) ((txt.drop lastIdx).take (index - lastIdx)) [] .nil⟩

end

end Qentem.Tmpl
