import Qentem.Proofs.StrToNumClosed
import Qentem.Proofs.StrToNumPosFinish
/-! C09 helper lemmas: error bound for the positive-exponent big-integer loop. The loop drops the
low 64-bit word whenever the product reaches the fourth word; `b·2^(64j)` then stays within a
relative `j·2^-127` below the exact product `N`. -/
namespace Qentem.StrToNum

/-- `b` (held by the code after `j` word drops) against the exact product `N` -/
def PosInv (b N j : Nat) : Prop :=
  b * 2 ^ (64 * j) ≤ N ∧ N * 2 ^ 127 ≤ (2 ^ 127 + j) * (b * 2 ^ (64 * j)) ∧ (j = 0 ∨ 2 ^ 128 ≤ b)

theorem PosInv.mul {b N j : Nat} (h : PosInv b N j) (p : Nat) (hp : 0 < p) : PosInv (b * p) (N * p) j := by
  obtain ⟨h1, h2, h3⟩ := h
  refine ⟨?_, ?_, ?_⟩
  · calc b * p * 2 ^ (64 * j) = b * 2 ^ (64 * j) * p := by ring
      _ ≤ N * p := Nat.mul_le_mul_right _ h1
  · calc N * p * 2 ^ 127 = N * 2 ^ 127 * p := by ring
      _ ≤ (2 ^ 127 + j) * (b * 2 ^ (64 * j)) * p := Nat.mul_le_mul_right _ h2
      _ = (2 ^ 127 + j) * (b * p * 2 ^ (64 * j)) := by ring
  · rcases h3 with h | h
    · exact Or.inl h
    · exact Or.inr (Nat.le_trans h (Nat.le_mul_of_pos_right _ hp))

theorem PosInv.shift {A N j : Nat} (h : PosInv A N j) (hA : 2 ^ 192 ≤ A) (hj : j ≤ 2 ^ 20) :
    PosInv (A / 2 ^ 64) N (j + 1) := by
  obtain ⟨h1, h2, _⟩ := h
  have hq1 : A / 2 ^ 64 * 2 ^ 64 ≤ A := Nat.div_mul_le_self _ _
  have hq2 : A < (A / 2 ^ 64 + 1) * 2 ^ 64 := by
    have := Nat.lt_div_mul_add (a := A) (b := 2 ^ 64) (by decide)
    rw [Nat.add_mul, Nat.one_mul]; exact this
  have hq3 : 2 ^ 128 ≤ A / 2 ^ 64 := by
    rw [Nat.le_div_iff_mul_le (by decide)]; exact Nat.le_trans (by decide) hA
  have hM : 2 ^ (64 * (j + 1)) = 2 ^ (64 * j) * 2 ^ 64 := by rw [← Nat.pow_add]; congr 1
  generalize A / 2 ^ 64 = q at *
  generalize 2 ^ (64 * j) = M at *
  refine ⟨?_, ?_, Or.inr hq3⟩
  · rw [hM]
    calc q * (M * 2 ^ 64) = q * 2 ^ 64 * M := by ring
      _ ≤ A * M := Nat.mul_le_mul_right _ hq1
      _ ≤ N := h1
  · rw [hM]
    have e1 : (2 ^ 127 + j) * (q + 1) ≤ (2 ^ 127 + (j + 1)) * q := by
      have : 2 ^ 127 + j ≤ q := by
        have : (2 : Nat) ^ 127 + 2 ^ 20 ≤ 2 ^ 128 := by decide
        omega
      calc (2 ^ 127 + j) * (q + 1) = (2 ^ 127 + j) * q + (2 ^ 127 + j) := by ring
        _ ≤ (2 ^ 127 + j) * q + q := Nat.add_le_add_left this _
        _ = (2 ^ 127 + (j + 1)) * q := by ring
    calc N * 2 ^ 127 ≤ (2 ^ 127 + j) * (A * M) := h2
      _ ≤ (2 ^ 127 + j) * ((q + 1) * 2 ^ 64 * M) :=
          Nat.mul_le_mul_left _ (Nat.mul_le_mul_right _ (Nat.le_of_lt hq2))
      _ = (2 ^ 127 + j) * (q + 1) * (2 ^ 64 * M) := by ring
      _ ≤ (2 ^ 127 + (j + 1)) * q * (2 ^ 64 * M) := Nat.mul_le_mul_right _ e1
      _ = (2 ^ 127 + (j + 1)) * (q * (M * 2 ^ 64)) := by ring

theorem posIter_inv (p : Nat) (hp : 0 < p) (hp63 : p < 2 ^ 63) : ∀ (n b s N j : Nat), PosInv b N j →
    j + n ≤ 2 ^ 20 → s + 64 * n < 2 ^ 32 → b < 2 ^ 192 →
    ∃ j', PosInv (posIter p n b s).1 (N * p ^ n) j' ∧ j ≤ j' ∧ j' ≤ j + n ∧ (posIter p n b s).2 = s + 64 * (j' - j)
  | 0, b, s, N, j, h, _, _, _ => ⟨j, by simpa [posIter] using h, Nat.le_refl _, Nat.le_refl _, by simp [posIter]⟩
  | n + 1, b, s, N, j, h, hj, hs, hb => by
    have hmul := h.mul p hp
    have hpow : N * p ^ (n + 1) = N * p * p ^ n := by rw [Nat.pow_succ]; ring
    rw [posIter, hpow]
    split
    · rename_i hA
      have hsh := hmul.shift hA (by omega)
      have hlt : b * p / 2 ^ 64 < 2 ^ 192 := by
        have : b * p < 2 ^ 256 := Nat.lt_of_lt_of_le (mul_lt_pow b p 192 63 hb hp63) (by decide)
        exact Nat.div_lt_of_lt_mul (by rw [← Nat.pow_add]; exact this)
      have hadd : add32 s 64 = s + 64 := by unfold add32; exact Nat.mod_eq_of_lt (by omega)
      obtain ⟨j', k1, k2, k3, k4⟩ := posIter_inv p hp hp63 n _ (add32 s 64) (N * p) (j + 1) hsh (by omega) (by rw [hadd]; omega) hlt
      exact ⟨j', k1, by omega, by omega, by rw [k4, hadd]; omega⟩
    · rename_i hA
      obtain ⟨j', k1, k2, k3, k4⟩ := posIter_inv p hp hp63 n (b * p) s (N * p) j hmul (by omega) (by omega) (by omega)
      exact ⟨j', k1, k2, by omega, k4⟩

end Qentem.StrToNum
