import Qentem.Proofs.NumToStrIntClass
/-! C10 helper: integer-valued floats (in particular every float of magnitude ≥ 2^23) print the
reference text in Fixed and SemiFixed — the binary32 instance of `NumToStrIntClass` (same proofs
with the constants 23 / 127 / 8). -/
set_option linter.unusedSimpArgs false
namespace Qentem.Proofs.NumToStr.F32
open Qentem.Proofs.NumToStr
open Qentem.NumToStr Qentem.Generated.NumToStr Qentem

/-- an integer-valued normal double: exponent field `e ≥ 127`, mantissa `2^23 + f = 2^j · o` with `o` odd
and no fractional bits left (`23 - j ≤ e - 127`) -/
structure IntValued32 (e f j : Nat) : Prop where
  he1 : 127 ≤ e
  he2 : e < 255
  hf : f < 2 ^ 23
  hj : j ≤ 23
  hdiv : (2 ^ 23 + f) % 2 ^ j = 0
  hodd : ((2 ^ 23 + f) / 2 ^ j) % 2 = 1
  hint : 23 - j ≤ e - 127

/-- its value -/
def intValue32 (e f : Nat) : Nat :=
  if 150 ≤ e then (2 ^ 23 + f) * 2 ^ (e - 150) else (2 ^ 23 + f) / 2 ^ (150 - e)

theorem or_leading (f : Nat) (hf : f < 2 ^ 23) : f ||| 8388608 = 2 ^ 23 + f := by
  have := Nat.two_pow_add_eq_or_of_lt hf 1
  simp only [Nat.mul_one] at this
  rw [this, Nat.or_comm]

/-- what the digit-run lemma needs to know about the configuration (kept abstract so that the huge
power `2 ^ totalBits` is never evaluated) -/
structure LikeF32 (c : Cfg) : Prop where
  lead : c.leadingBit = 8388608
  msize : c.mantissaSize = 23
  bias : c.bias = 127
  wide : 128 ≤ c.totalBits

theorem f32_like : LikeF32 f32 := ⟨rfl, rfl, rfl, by decide⟩

theorem int_fit {e f tb : Nat} (he2 : e < 255) (hf : f < 2 ^ 23) (c4 : 128 ≤ tb) :
    (2 ^ 23 + f) <<< (e - 127 - 23) < 2 ^ tb := by
  rw [Nat.shiftLeft_eq]
  have h0 : 2 ^ 23 + f < 2 ^ 24 := by omega
  have h1 : (2 ^ 23 + f) * 2 ^ (e - 127 - 23) < 2 ^ 24 * 2 ^ (e - 127 - 23) :=
    Nat.mul_lt_mul_of_pos_right h0 (Nat.two_pow_pos _)
  have h2 : 2 ^ 24 * 2 ^ (e - 127 - 23) = 2 ^ (24 + (e - 127 - 23)) := (Nat.pow_add 2 24 _).symm
  have h3 : 24 + (e - 127 - 23) ≤ tb := by omega
  rw [h2] at h1
  exact lt_of_lt_of_le h1 (Nat.pow_le_pow_right (by decide) h3)

theorem intValue32_big {e f : Nat} (hbig : 23 < e - 127) : intValue32 e f = (2 ^ 23 + f) <<< (e - 127 - 23) := by
  have h1 : 150 ≤ e := by omega
  have h2 : e - 150 = e - 127 - 23 := by omega
  rw [intValue32, if_pos h1, Nat.shiftLeft_eq, h2]

theorem intValue32_small {e f : Nat} (he1 : 127 ≤ e) (hbig : ¬ 23 < e - 127) :
    intValue32 e f = (2 ^ 23 + f) / 2 ^ (23 - (e - 127)) := by
  unfold intValue32
  by_cases h75 : 150 ≤ e
  · have h : e = 150 := by omega
    rw [if_pos h75, h]; simp
  · have h2 : 150 - e = 23 - (e - 127) := by omega
    rw [if_neg h75, h2]


theorem digitRun_int32 {c : Cfg} (hc : LikeF32 c) {e f j p fmt : Nat} (h : IntValued32 e f j) (hfmt : fmt = 1 ∨ fmt = 2) :
    digitRun c f (e * 2 ^ 23) p fmt = .ok (intValue32 e f, (e - 127) * 30103 / 100000 + 1, 0, true, false) := by
  obtain ⟨he1, he2, hf, hj, hdiv, hodd, hint⟩ := h
  obtain ⟨c1, c2, c3, c4⟩ := hc
  have hm : f ||| 8388608 = 2 ^ 23 + f := or_leading f hf
  have hfs : findFirstBit (2 ^ 23 + f) = j := findFirstBit_spec hdiv hodd (by omega)
  have hb0 : e * 2 ^ 23 ≠ 0 := by positivity
  have hfix : (decide (fmt = fmtSemiFixed) || decide (fmt = fmtFixed)) = true := by
    rcases hfmt with rfl | rfl <;> decide
  have hcs : csub 20 23 j = .ok (23 - j) := by simp [csub, hj, pure, Except.pure]
  unfold digitRun runNoFraction
  simp only [c1, c2, c3, hb0, ne_eq, not_false_eq_true, if_true, hm, hfs,
    Nat.shiftRight_eq_div_pow, Nat.mul_div_cancel _ (Nat.two_pow_pos 23), hcs, ok_bind, pure_bind, he1, hfix, hint,
    decide_true, Bool.not_true, Bool.and_false, Bool.or_false, Bool.not_false, Bool.true_and, Bool.or_true, Bool.true_or,
    Nat.add_zero, if_false, not_true_eq_false, Bool.and_true, Bool.false_eq_true]
  by_cases hbig : 23 < e - 127
  · rw [if_pos hbig, bigFit, if_pos (int_fit he2 hf c4), intValue32_big hbig]
    rfl
  · have hnj : ¬ (j < 23 - (e - 127)) := by omega
    rw [if_neg hbig, intValue32_small he1 hbig]
    simp only [hnj, decide_false]
    rfl

theorem intValue32_pos {e f j : Nat} (h : IntValued32 e f j) : 0 < intValue32 e f := by
  obtain ⟨he1, he2, hf, hj, hdiv, hodd, hint⟩ := h
  unfold intValue32
  split
  · exact Nat.mul_pos (Nat.add_pos_left (Nat.two_pow_pos 23) f) (Nat.two_pow_pos _)
  · apply Nat.div_pos _ (Nat.two_pow_pos _)
    calc 2 ^ (150 - e) ≤ 2 ^ 23 := Nat.pow_le_pow_right (by decide) (by omega)
      _ ≤ 2 ^ 23 + f := Nat.le_add_right _ _

theorem intValue32_lt {e f j tb : Nat} (h : IntValued32 e f j) (htb : 128 ≤ tb) : intValue32 e f < 2 ^ tb := by
  obtain ⟨he1, he2, hf, hj, hdiv, hodd, hint⟩ := h
  by_cases hbig : 23 < e - 127
  · rw [intValue32_big hbig]; exact int_fit he2 hf htb
  · rw [intValue32_small he1 hbig]
    calc (2 ^ 23 + f) / 2 ^ (23 - (e - 127)) ≤ 2 ^ 23 + f := Nat.div_le_self _ _
      _ < 2 ^ 24 := by omega
      _ ≤ 2 ^ tb := Nat.pow_le_pow_right (by decide) (by omega)

theorem reverseFrom_append (s t : List Nat) : reverseFrom (s ++ t) s.length = s ++ t.reverse := by
  simp [reverseFrom]

/-- `formatStringNumberFixed` on a digit run without fraction: the digits, then (Fixed) `.` and `precision` zeros -/
theorem formatFixed_integer (fixedT : Bool) (s t : List Nat) (p : Nat) (ht : t ≠ []) (hp : p ≤ 1048576) :
    formatFixed fixedT s.length (s ++ t) p 0 false =
      .ok (s ++ t.reverse ++ (if fixedT ∧ p ≠ 0 then 46 :: List.replicate p 48 else [])) := by
  have hlen : 0 < t.length := List.length_pos_iff.mpr ht
  have h8 : csub 8 (s ++ t).length s.length = .ok t.length := by simp [csub, pure, Except.pure]
  have hz : zerosLarge p = .ok (List.replicate p 48) := by simp [zerosLarge, hp, Ch.zero, pure, Except.pure]
  unfold formatFixed
  rw [h8]
  simp only [ok_bind, pure_bind, ne_eq, not_true_eq_false, if_false, finishNumber, csub, Nat.le_refl, if_true, Nat.sub_self,
    reverseFrom_append]
  have hsb : stepBack s.length (s ++ t.reverse) 0 = .ok (s ++ t.reverse) := by
    simp [stepBack, pure, Except.pure]
    exact List.take_of_length_le (by simp)
  rw [hsb, ok_bind]
  cases fixedT
  · simp [pure, Except.pure]
  · simp only [if_true, fixedPad, true_and]
    by_cases hp0 : p = 0
    · simp [hp0, pure, Except.pure]
    · simp [hp0, hz, ok_bind, Ch.dot, pure, Except.pure]

theorem realFinite_int32 {c : Cfg} (hc : LikeF32 c) {e f j p fmt : Nat} (h : IntValued32 e f j)
    (hfmt : fmt = 1 ∨ fmt = 2) (hp : p ≤ 1048576) (s : List Nat) :
    realFinite c s f (e * 2 ^ 23) p fmt =
      .ok (s ++ D (intValue32 e f) ++ (if fmt = 1 ∧ p ≠ 0 then 46 :: List.replicate p 48 else [])) := by
  have hn0 : intValue32 e f ≠ 0 := Nat.pos_iff_ne_zero.mp (intValue32_pos h)
  have hR : R (intValue32 e f) = (D (intValue32 e f)).reverse := by simp [R, hn0]
  have hRne : (D (intValue32 e f)).reverse ≠ [] := by simpa using D_ne_nil _
  unfold realFinite
  rw [digitRun_int32 hc h hfmt]
  simp only [ok_bind]
  rw [bigIntToString_eq s (intValue32_lt h hc.wide), hR]
  simp only [ok_bind]
  rcases hfmt with rfl | rfl
  · have e1 : ¬ (1 = fmtSemiFixed) := by decide
    have e2 : (1 = fmtFixed) := by decide
    rw [if_neg e1, if_pos e2, formatFixed_integer true s _ p hRne hp]
    simp
  · have e1 : (2 = fmtSemiFixed) := by decide
    rw [if_pos e1, formatFixed_integer false s _ p hRne hp]
    simp

/-! the reference side -/
theorem roundHalfEven_mul (k : Nat) {d : Nat} (hd : 0 < d) : FmtSpec.roundHalfEven (k * d) d = k := by
  simp [FmtSpec.roundHalfEven, Nat.mul_div_cancel _ hd, Nat.mul_mod_left]
  omega

theorem fixedBody_int (n : Nat) {den : Nat} (hd : 0 < den) (p : Nat) :
    FmtSpec.fixedBody (n * den) den p = D n ++ (if p = 0 then [] else 46 :: List.replicate p 48) := by
  have hD : FmtSpec.digitsOf 0 = [48] := by decide
  have h10 : 0 < 10 ^ p := Nat.pow_pos (by decide)
  have e : n * den * 10 ^ p = (n * 10 ^ p) * den := by ring
  unfold FmtSpec.fixedBody
  simp only [e, roundHalfEven_mul _ hd, Nat.mul_div_cancel _ h10, Nat.mul_mod_left, hD]
  by_cases hp : p = 0
  · simp [hp]
  · simp [hp, FmtSpec.padLeft, FmtSpec.cDot, FmtSpec.cZero, replicate_pred_append hp]

theorem D_mem_range : ∀ n, ∀ c ∈ D n, 48 ≤ c ∧ c ≤ 57 := by
  intro n
  induction n using Nat.strong_induction_on with
  | _ n ih =>
    intro c hc
    by_cases h : n < 10
    · rw [D_lt10 h] at hc; simp at hc; omega
    · rw [D_step (by omega)] at hc
      simp only [List.mem_append, List.mem_singleton] at hc
      rcases hc with hc | hc
      · exact ih (n / 10) (by omega) c hc
      · omega

theorem stripFraction_int (n p : Nat) :
    FmtSpec.stripFraction (D n ++ (if p = 0 then [] else 46 :: List.replicate p 48)) = D n := by
  have hnd : ∀ c ∈ D n, c ≠ 46 := fun c hc => by have := D_mem_range n c hc; omega
  by_cases hp : p = 0
  · have hc : (D n).contains FmtSpec.cDot = false := by
      simp only [FmtSpec.cDot, List.contains_eq_mem, decide_eq_false_iff_not]
      intro hm; exact hnd 46 hm rfl
    simp only [hp, if_true, List.append_nil, FmtSpec.stripFraction]
    rw [if_neg (by rw [hc]; decide)]
  · simp only [hp, if_false, FmtSpec.stripFraction]
    have hc : (D n ++ 46 :: List.replicate p 48).contains FmtSpec.cDot = true := by simp [FmtSpec.cDot]
    rw [if_pos hc]
    have : (D n ++ 46 :: List.replicate p 48).reverse = List.replicate p 48 ++ 46 :: (D n).reverse := by
      simp [List.reverse_append, List.reverse_replicate]
    rw [this, dropWhile_replicate_append]
    simp [List.dropWhile, FmtSpec.cZero, FmtSpec.cDot]

/-- the reference text of an integer-valued double in the two fixed formats -/
theorem format32_int {bits j : Nat} (h : IntValued32 ((bits / 2 ^ 23) % 2 ^ 8) (bits % 2 ^ 23) j) (p : Nat) :
    FmtSpec.format32 bits p .fixed =
      FmtSpec.signed (decide (bits / 2 ^ 31 % 2 = 1))
        (D (intValue32 ((bits / 2 ^ 23) % 2 ^ 8) (bits % 2 ^ 23)) ++ (if p = 0 then [] else 46 :: List.replicate p 48)) ∧
    FmtSpec.format32 bits p .semiFixed =
      FmtSpec.signed (decide (bits / 2 ^ 31 % 2 = 1)) (D (intValue32 ((bits / 2 ^ 23) % 2 ^ 8) (bits % 2 ^ 23))) := by
  obtain ⟨he1, he2, hf, hj, hdiv, hodd, hint⟩ := h
  generalize he : (bits / 2 ^ 23) % 2 ^ 8 = e at *
  generalize hf0 : bits % 2 ^ 23 = f at *
  have hne : ¬ (e = 2 ^ 8 - 1) := by omega
  have hne0 : ¬ (e = 0) := by omega
  unfold FmtSpec.format32 FmtSpec.decode32 FmtSpec.decode
  simp only [he, hf0, hne, hne0, if_false, show (2:Nat) ^ (8 - 1) - 1 + 23 = 150 by norm_num, show 23 + 8 = 31 by norm_num]
  by_cases h75 : 150 ≤ e
  · have hv : intValue32 e f = (2 ^ 23 + f) * 2 ^ (e - 150) := by rw [intValue32, if_pos h75]
    simp only [h75, if_true, FmtSpec.formatVal, hv]
    have := fixedBody_int ((2 ^ 23 + f) * 2 ^ (e - 150)) (den := 1) (by decide) p
    rw [Nat.mul_one] at this
    rw [this]
    exact ⟨rfl, by rw [stripFraction_int]⟩
  · have hv : intValue32 e f = (2 ^ 23 + f) / 2 ^ (150 - e) := by rw [intValue32, if_neg h75]
    have hdvd : 2 ^ (150 - e) ∣ 2 ^ 23 + f :=
      Dvd.dvd.trans (Nat.pow_dvd_pow 2 (by omega)) (Nat.dvd_of_mod_eq_zero hdiv)
    have hm : 2 ^ 23 + f = (2 ^ 23 + f) / 2 ^ (150 - e) * 2 ^ (150 - e) := (Nat.div_mul_cancel hdvd).symm
    simp only [h75, if_false, FmtSpec.formatVal, hv]
    have := fixedBody_int ((2 ^ 23 + f) / 2 ^ (150 - e)) (den := 2 ^ (150 - e)) (Nat.two_pow_pos _) p
    rw [← hm] at this
    rw [this]
    exact ⟨rfl, by rw [stripFraction_int]⟩

/-- **integer-valued doubles, Fixed and SemiFixed**: the model appends exactly the reference text.
(`IntValued32` holds in particular for every double of magnitude ≥ 2^52.) -/
theorem int_class32 (pre : List Nat) (bits p f j : Nat) (hf12 : f = 1 ∨ f = 2) (hp : p ≤ 1048576)
    (h : IntValued32 ((bits / 2 ^ 23) % 2 ^ 8) (bits % 2 ^ 23) j) :
    realToString f32 pre bits p f = .ok (pre ++ FmtSpec.format32 bits p (fmtOf f)) := by
  obtain ⟨h1, h2, h3⟩ := fields32 bits
  obtain ⟨s1, s2⟩ := format32_int h p
  have hx : f32.exponentMask = 2139095040 := rfl
  have hy : f32.mantissaMask = 8388607 := rfl
  have hz : f32.signMask = 2147483648 := rfl
  have he1 := h.he1
  have he2 := h.he2
  have hpw : (2:Nat) ^ 23 = 8388608 := by norm_num
  have hne : ¬ ((bits / 2 ^ 23) % 2 ^ 8 * 2 ^ 23 = 2139095040) := by
    generalize (bits / 2 ^ 23) % 2 ^ 8 = E at *
    rw [hpw]; omega
  have hnz : ¬ ((bits / 2 ^ 23) % 2 ^ 8 * 2 ^ 23 = 0) := by
    generalize (bits / 2 ^ 23) % 2 ^ 8 = E at *
    rw [hpw]; omega
  have hf0 : ¬ (f = fmtDefault ∧ p = 0) := by rcases hf12 with rfl | rfl <;> simp [fmtDefault]
  unfold realToString
  simp only [hx, hy, hz, h1, h2, h3, hne, hnz, hf0, ne_eq, not_false_eq_true, if_true, if_false, or_true]
  by_cases hs : bits / 2 ^ 31 % 2 = 1
  · have hs' : ¬ (bits / 2 ^ 31 % 2 * 2 ^ 31 = 0) := by rw [hs]; norm_num
    have hsl : bits / 2147483648 % 2 = 1 := by simpa using hs
    simp only [hs', not_false_eq_true, if_true]
    rw [realFinite_int32 f32_like h hf12 hp]
    rcases hf12 with rfl | rfl
    · have : fmtOf 1 = .fixed := by decide
      rw [this, s1]
      simp [hsl, FmtSpec.signed, Ch.negative, FmtSpec.cMinus]
    · have : fmtOf 2 = .semiFixed := by decide
      rw [this, s2]
      simp [hsl, FmtSpec.signed, Ch.negative, FmtSpec.cMinus]
  · have hs0 : bits / 2 ^ 31 % 2 = 0 := by omega
    have hsl : bits / 2147483648 % 2 = 0 := by simpa using hs0
    simp only [hs0, Nat.zero_mul, not_true_eq_false, if_false]
    rw [realFinite_int32 f32_like h hf12 hp]
    rcases hf12 with rfl | rfl
    · have : fmtOf 1 = .fixed := by decide
      rw [this, s1]
      simp [hsl, FmtSpec.signed]
    · have : fmtOf 2 = .semiFixed := by decide
      rw [this, s2]
      simp [hsl, FmtSpec.signed]

/-- every double whose exponent field is at least 150 (magnitude ≥ 2^23) is integer-valued -/
theorem intValued_of_big {e f : Nat} (he1 : 150 ≤ e) (he2 : e < 255) (hf : f < 2 ^ 23) : ∃ j, IntValued32 e f j := by
  obtain ⟨j, h1, h2⟩ := exists_ctz (2 ^ 23 + f) (Nat.add_pos_left (Nat.two_pow_pos 23) f)
  have hj : j ≤ 23 := by
    by_contra hcon
    have hle : 2 ^ 24 ≤ 2 ^ j := Nat.pow_le_pow_right (by decide) (by omega)
    have hdvd : 2 ^ j ∣ 2 ^ 23 + f := Nat.dvd_of_mod_eq_zero h1
    have := Nat.le_of_dvd (Nat.add_pos_left (Nat.two_pow_pos 23) f) hdvd
    omega
  exact ⟨j, ⟨by omega, he2, hf, hj, h1, h2, by omega⟩⟩

end Qentem.Proofs.NumToStr.F32
