import Qentem.Proofs.BigIntShr
/-! `ShiftLeft`. -/
namespace Qentem.BigInt

theorem getD_replicate_append (ws : List Nat) (m k : Nat) :
    (List.replicate m 0 ++ ws).getD k 0 = if k < m then 0 else ws.getD (k - m) 0 := by
  simp only [List.getD_eq_getElem?_getD]
  by_cases hk : k < m
  · rw [if_pos hk, List.getElem?_append_left (by simpa using hk)]
    simp [List.getElem?_replicate, hk]
  · rw [if_neg hk, List.getElem?_append_right (by simpa using hk)]
    simp

/-- a word list whose k-th word is the (k-m)-th word of `ws` (zero below m) holds `valW ws · 2^(W·m)` -/
theorem valW_shift_up {W : Nat} (ws ws' : List Nat) (m : Nat)
    (h : ∀ k, ws'.getD k 0 = if k < m then 0 else ws.getD (k - m) 0) : valW W ws' = valW W ws * 2 ^ (W * m) := by
  have h1 : valW W ws' = valW W (List.replicate m 0 ++ ws) :=
    valW_congr_getD W _ _ (fun k => by rw [h k, getD_replicate_append])
  rw [h1, valW_append, valW_replicate_zero, List.length_replicate, Nat.zero_add, Nat.mul_comm]

/-- `while (index_ != 0U) { --index_; storage_[index_ + move] = storage_[index_]; }` -/
theorem moveUp_spec (move : Nat) (hmv : 0 < move) (ws0 : List Nat) : ∀ (i : Nat) (ws : List Nat),
    ws.length = ws0.length → i + move ≤ ws0.length → (∀ j, j < i → ws.getD j 0 = ws0.getD j 0) →
    ∃ ws', moveUp move ws i = .ok ws' ∧ ws'.length = ws0.length ∧
      (∀ j, j < i → ws'.getD (j + move) 0 = ws0.getD j 0) ∧
      (∀ k, (k < move ∨ i + move ≤ k) → ws'.getD k 0 = ws.getD k 0)
  | 0, ws, hl, _, _ => ⟨ws, rfl, hl, fun j hj => by omega, fun _ _ => rfl⟩
  | i + 1, ws, hl, hle, hlow => by
    unfold moveUp
    rw [rd_ok (by omega : i < ws.length)]
    simp only [bind, Except.bind]
    rw [wr_ok _ (by omega : i + move < ws.length)]
    simp only []
    have hrd : ws[i]'(by omega) = ws0.getD i 0 := by
      rw [← getD_eq_getElem (by omega : i < ws.length)]; exact hlow i (by omega)
    obtain ⟨ws', hrun, hl', h1, h2⟩ := moveUp_spec move hmv ws0 i (ws.set (i + move) ws[i]) (by simpa using hl) (by omega)
      (fun j hj => by rw [getD_set_ne (by omega)]; exact hlow j (by omega))
    refine ⟨ws', hrun, hl', ?_, ?_⟩
    · intro j hj
      by_cases hji : j = i
      · subst hji; rw [h2 (j + move) (Or.inr (by omega)), getD_set_eq (by omega), hrd]
      · exact h1 j (by omega)
    · intro k hk
      rw [h2 k (by omega)]; exact getD_set_ne (by omega)

/-- `do { --move; storage_[move] = 0; } while (move != 0U);` -/
theorem zeroLow_spec : ∀ (move : Nat) (ws : List Nat), move ≤ ws.length →
    ∃ ws', zeroLow ws move = .ok ws' ∧ ws'.length = ws.length ∧
      (∀ k, k < move → ws'.getD k 0 = 0) ∧ (∀ k, move ≤ k → ws'.getD k 0 = ws.getD k 0)
  | 0, ws, _ => ⟨ws, rfl, rfl, fun k hk => by omega, fun _ _ => rfl⟩
  | m + 1, ws, hle => by
    unfold zeroLow
    rw [wr_ok _ (by omega : m < ws.length)]
    simp only [bind, Except.bind]
    match m, hle with
    | 0, hle =>
      refine ⟨_, rfl, by simp, ?_, ?_⟩
      · intro k hk
        have : k = 0 := by omega
        subst this; exact getD_set_eq (by omega)
      · intro k hk; exact getD_set_ne (by omega)
    | m' + 1, hle =>
      obtain ⟨ws', hrun, hl, hz, hfr⟩ := zeroLow_spec (m' + 1) (ws.set (m' + 1) 0) (by simp; omega)
      refine ⟨ws', hrun, by simpa using hl, ?_, ?_⟩
      · intro k hk
        by_cases hkm : k = m' + 1
        · subst hkm; rw [hfr _ (Nat.le_refl _), getD_set_eq (by omega)]
        · exact hz k (by omega)
      · intro k hk
        rw [hfr k (by omega)]; exact getD_set_ne (by omega)

/-- the whole-word part of `ShiftLeft` when the moved top word stays inside the storage -/
theorem shlWords_spec {W : Nat} (s : Big) (move : Nat) (h : Inv W s) (hmv : 0 < move)
    (hfit : s.idx + move < s.words.length) :
    ∃ s', shlWords s.words s.idx move (s.idx + move) = .ok s' ∧ Inv W s' ∧ s'.words.length = s.words.length ∧
      s'.val W = s.val W * 2 ^ (W * move) := by
  have hlt := h.idx_lt
  obtain ⟨ws1, hrun1, hl1, ha1, hb1⟩ := moveUp_spec move hmv s.words s.idx (s.words.set (s.idx + move) s.words[s.idx])
    (by simp) (by omega) (fun j hj => getD_set_ne (by omega))
  obtain ⟨ws2, hrun2, hl2, hz2, hfr2⟩ := zeroLow_spec move ws1 (by omega)
  have hall : ∀ k, ws2.getD k 0 = if k < move then 0 else s.words.getD (k - move) 0 := by
    intro k
    by_cases hk : k < move
    · rw [if_pos hk]; exact hz2 k hk
    · rw [if_neg hk, hfr2 k (by omega)]
      by_cases hk2 : k < s.idx + move
      · have := ha1 (k - move) (by omega)
        rwa [Nat.sub_add_cancel (by omega)] at this
      · rw [hb1 k (Or.inr (by omega))]
        by_cases hk3 : k = s.idx + move
        · subst hk3
          rw [getD_set_eq (by omega), Nat.add_sub_cancel, getD_eq_getElem hlt]
        · rw [getD_set_ne (by omega), h.above k (by omega)]
          exact (h.above (k - move) (by omega)).symm
  have hbd : Bounded W ws2 := bounded_of_getD (fun k _ => by
    rw [hall k]; split
    · exact Nat.pow_pos (by decide)
    · exact h.bound.getD _)
  have hw : WInv W ⟨ws2, s.idx + move⟩ := by
    refine ⟨h.wpos, hbd, by simp; omega, ?_⟩
    intro k hk
    have hk' : s.idx + move + 1 ≤ k := hk
    show ws2.getD k 0 = 0
    rw [hall k, if_neg (by omega)]; exact h.above _ (by omega)
  obtain ⟨j, htrim, hinv, _⟩ := trim_inv _ hw
  refine ⟨⟨ws2, j⟩, ?_, hinv, by simp; omega, valW_shift_up s.words ws2 move hall⟩
  unfold shlWords trimIdx
  rw [rd_ok hlt]
  simp only [bind, Except.bind]
  rw [wr_ok _ (by omega : s.idx + move < s.words.length)]
  simp only []
  rw [hrun1]
  simp only []
  rw [hrun2]
  simp only []
  simp only at htrim
  rw [htrim]; rfl

theorem drop_set_val (W : Nat) (ws : List Nat) (n i v : Nat) (hi : i < n) :
    valW W ((ws.set i v).drop n) = valW W (ws.drop n) :=
  valW_congr_getD W _ _ (fun k => by rw [getD_drop, getD_drop, getD_set_ne (by omega)])

theorem shl_word_arith (O Q w : Nat) (hO : 0 < O) : (w * O) % (Q * O) + (Q * O) * (w / Q) = w * O := by
  have := Nat.mod_add_div (w * O) (Q * O)
  rwa [Nat.mul_div_mul_right _ _ hO] at this

/-- The bit-shift loop of `ShiftLeft` (from word `i` down to 1). -/
theorem shlBits_spec {W off : Nat} (hoff0 : 0 < off) (hoff : off < W) (ws0 : List Nat) (hb0 : Bounded W ws0) :
    ∀ (i : Nat) (cur : List Nat), i < ws0.length → cur.length = ws0.length → Bounded W cur →
    (∀ k, k < i → cur.getD k 0 = ws0.getD k 0) → cur.getD i 0 = (ws0.getD i 0 * 2 ^ off) % 2 ^ W →
    valW W (cur.drop i) = 2 ^ off * valW W (ws0.drop i) →
    ∃ ws', shlBits W off cur i = .ok ws' ∧ ws'.length = ws0.length ∧ Bounded W ws' ∧
      valW W ws' = 2 ^ off * valW W ws0
  | 0, cur, _, hl, hbc, _, _, hv => ⟨cur, rfl, hl, hbc, by simpa using hv⟩
  | i + 1, cur, hi, hl, hbc, hlow, hci, hv => by
    unfold shlBits
    have hi1 : i + 1 < cur.length := by omega
    have hi0 : i < cur.length := by omega
    rw [rd_ok hi1, rd_ok hi0]
    simp only [bind, Except.bind]
    rw [wr_ok _ hi1]
    simp only []
    have hi0' : i < (cur.set (i + 1) (cur[i + 1] ||| cur[i] >>> (W - off))).length := by simpa using hi0
    rw [rd_ok hi0']
    simp only []
    rw [wr_ok _ hi0']
    simp only []
    have hW : 2 ^ W = 2 ^ (W - off) * 2 ^ off := by rw [← Nat.pow_add]; congr 1; omega
    have hO : 0 < 2 ^ off := Nat.pow_pos (by decide)
    have hQ : 0 < 2 ^ (W - off) := Nat.pow_pos (by decide)
    have ha : cur[i + 1] = (ws0.getD (i + 1) 0 * 2 ^ off) % 2 ^ W := by rw [← getD_eq_getElem hi1]; exact hci
    have hbv : cur[i] = ws0.getD i 0 := by rw [← getD_eq_getElem hi0]; exact hlow i (by omega)
    have hwi : ws0.getD i 0 < 2 ^ W := hb0.getD i
    have hget : (cur.set (i + 1) (cur[i + 1] ||| cur[i] >>> (W - off)))[i] = cur[i] := by
      rw [List.getElem_set_ne (by omega)]
    have hcarry : cur[i] >>> (W - off) < 2 ^ off := by
      rw [Nat.shiftRight_eq_div_pow, hbv]; apply Nat.div_lt_of_lt_mul; rw [← hW]; exact hwi
    have ha' : cur[i + 1] = ws0.getD (i + 1) 0 % 2 ^ (W - off) * 2 ^ off := by
      rw [ha, hW, Nat.mul_mod_mul_right]
    have hor : cur[i + 1] ||| cur[i] >>> (W - off) = cur[i + 1] + cur[i] >>> (W - off) := by
      rw [Nat.or_comm, ha', lor_eq_add_of_lt rfl hcarry]
    have hA : cur[i + 1] + cur[i] >>> (W - off) < 2 ^ W := by
      have h1 : ws0.getD (i + 1) 0 % 2 ^ (W - off) < 2 ^ (W - off) := Nat.mod_lt _ hQ
      have h2 : (ws0.getD (i + 1) 0 % 2 ^ (W - off) + 1) * 2 ^ off ≤ 2 ^ (W - off) * 2 ^ off := Nat.mul_le_mul_right _ h1
      rw [Nat.add_mul] at h2
      rw [ha', hW]; omega
    have hC : (cur[i] <<< off) % 2 ^ W < 2 ^ W := Nat.mod_lt _ (Nat.pow_pos (by decide))
    rw [hget, hor]
    apply shlBits_spec hoff0 hoff ws0 hb0 i _ (by omega) (by simpa using hl) ((hbc.set _ hA).set _ hC)
    · intro k hk
      rw [getD_set_ne (by omega), getD_set_ne (by omega)]; exact hlow k (by omega)
    · rw [getD_set_eq (by simpa using hi0), Nat.shiftLeft_eq, hbv]
    · -- value of the suffix from word i
      have hlen2 : i < ((cur.set (i + 1) (cur[i + 1] + cur[i] >>> (W - off))).set i (cur[i] <<< off % 2 ^ W)).length := by
        simpa using hi0
      have hlen3 : i + 1 < ((cur.set (i + 1) (cur[i + 1] + cur[i] >>> (W - off))).set i (cur[i] <<< off % 2 ^ W)).length := by
        simpa using hi1
      rw [valW_drop_cons W _ i hlen2, valW_drop_cons W _ (i + 1) hlen3, List.getElem_set_self,
        List.getElem_set_ne (by omega), List.getElem_set_self,
        drop_set_val W _ (i + 1 + 1) i _ (by omega), drop_set_val W _ (i + 1 + 1) (i + 1) _ (by omega)]
      have e0 := valW_drop_cons W cur (i + 1) hi1
      have e1 := valW_drop_cons W ws0 i (by omega)
      rw [e0] at hv
      rw [e1, ← getD_eq_getElem (by omega : i < ws0.length), Nat.shiftLeft_eq, Nat.shiftRight_eq_div_pow, hbv]
      have key := shl_word_arith (2 ^ off) (2 ^ (W - off)) (ws0.getD i 0) hO
      rw [← hW] at key
      generalize valW W (List.drop (i + 1 + 1) cur) = D at hv ⊢
      generalize valW W (List.drop (i + 1) ws0) = S at hv ⊢
      generalize ws0.getD i 0 = w at key ⊢
      generalize cur[i + 1] = a at hv ⊢
      generalize w * 2 ^ off % 2 ^ W = C at key ⊢
      generalize w / 2 ^ (W - off) = cq at key ⊢
      have e2 : 2 ^ W * (a + cq + 2 ^ W * D) = 2 ^ W * (a + 2 ^ W * D) + 2 ^ W * cq := by ring
      have e3 : 2 ^ off * (w + 2 ^ W * S) = w * 2 ^ off + 2 ^ W * (2 ^ off * S) := by ring
      rw [e2, hv, e3]
      omega

/-- value of a suffix that holds two words followed by zeros -/
theorem valW_drop_two (W : Nat) (cur : List Nat) (i c0 c1 : Nat) (h0 : cur.getD i 0 = c0)
    (h1 : cur.getD (i + 1) 0 = c1) (hz : ZeroFrom cur (i + 2)) : valW W (cur.drop i) = c0 + 2 ^ W * c1 := by
  have : valW W (cur.drop i) = valW W [c0, c1] := by
    apply valW_congr_getD
    intro k
    rw [getD_drop]
    match k with
    | 0 => simpa using h0
    | 1 => simpa using h1
    | k + 2 => rw [hz _ (by omega)]; simp
  rw [this]; simp [valW]

/-- finishing `ShiftLeft`'s sub-word part: from the final storage to the invariant -/
theorem shl_finish {W : Nat} (s : Big) (off t L : Nat) (h : Inv W s) (hoff : off < W)
    (ht : s.words.getD s.idx 0 = t) (hval : s.val W = L + 2 ^ (W * s.idx) * t) (hL : L < 2 ^ (W * s.idx))
    (ws' : List Nat) (idx' : Nat) (hl : ws'.length = s.words.length) (hb : Bounded W ws')
    (hv : valW W ws' = 2 ^ off * s.val W)
    (h0 : t / 2 ^ (W - off) = 0 → idx' = s.idx)
    (h1 : t / 2 ^ (W - off) ≠ 0 → idx' = s.idx + 1 ∧ s.idx + 1 < s.words.length) :
    Inv W ⟨ws', idx'⟩ := by
  have hWp : 2 ^ W = 2 ^ (W - off) * 2 ^ off := by rw [← Nat.pow_add]; congr 1; omega
  have hO : 0 < 2 ^ off := Nat.pow_pos (by decide)
  have hQ : 0 < 2 ^ (W - off) := Nat.pow_pos (by decide)
  have hP : 0 < 2 ^ (W * s.idx) := Nat.pow_pos (by decide)
  generalize hPe : 2 ^ (W * s.idx) = P at *
  generalize hOe : 2 ^ off = O at *
  generalize hQe : 2 ^ (W - off) = Q at *
  by_cases hc : t / Q = 0
  · have hi := h0 hc
    subst hi
    have htQ : t < Q := by
      rcases Nat.div_eq_zero_iff.1 hc with h' | h'
      · omega
      · exact h'
    apply top_of_le_val
    · refine ⟨h.wpos, hb, by simpa [hl] using h.idx_lt, ?_⟩
      apply zeroFrom_of_val_lt
      show valW W ws' < 2 ^ (W * (s.idx + 1))
      rw [pow_mul_succ, hPe, hWp, hv, hval]
      have e1 : (t + 1) * P ≤ Q * P := Nat.mul_le_mul_right _ htQ
      have e2 : O * (L + P * t) < O * ((t + 1) * P) := by
        apply Nat.mul_lt_mul_of_pos_left _ hO
        rw [Nat.add_mul, Nat.mul_comm P t]; omega
      have e3 : O * ((t + 1) * P) ≤ O * (Q * P) := Nat.mul_le_mul_left _ e1
      have e4 : O * (Q * P) = Q * O * P := by ring
      omega
    · intro hne
      have hne' : s.idx ≠ 0 := hne
      show 2 ^ (W * s.idx) ≤ valW W ws'
      have := h.le_val hne'
      rw [hPe] at this ⊢
      rw [hv]
      have : 1 * s.val W ≤ O * s.val W := Nat.mul_le_mul_right _ hO
      omega
  · obtain ⟨hi, hlt⟩ := h1 hc
    subst hi
    have htQ : Q ≤ t := by
      by_contra hcon
      exact hc (Nat.div_eq_of_lt (by omega))
    apply top_of_le_val
    · refine ⟨h.wpos, hb, by simpa [hl] using hlt, ?_⟩
      apply zeroFrom_of_val_lt
      show valW W ws' < 2 ^ (W * (s.idx + 1 + 1))
      rw [pow_mul_succ, pow_mul_succ, hPe, hWp, hv]
      have hlt1 := h.toWInv.val_lt
      rw [pow_mul_succ, hPe, hWp] at hlt1
      have e1 : O * s.val W < O * (Q * O * P) := Nat.mul_lt_mul_of_pos_left hlt1 hO
      have e2 : O * (Q * O * P) ≤ (Q * O) * (Q * O * P) := Nat.mul_le_mul_right _ (Nat.le_mul_of_pos_left _ hQ)
      omega
    · intro _
      show 2 ^ (W * (s.idx + 1)) ≤ valW W ws'
      rw [pow_mul_succ, hPe, hWp, hv, hval]
      have e1 : Q * P ≤ t * P := Nat.mul_le_mul_right _ htQ
      have e2 : O * (Q * P) ≤ O * (L + P * t) := by
        apply Nat.mul_le_mul_left
        rw [Nat.mul_comm P t]; omega
      have e4 : O * (Q * P) = Q * O * P := by ring
      omega

/-- the sub-word part of `ShiftLeft` when the shifted value fits -/
theorem shlSmall_spec {W : Nat} (s : Big) (off : Nat) (h : Inv W s) (hoff : off < W)
    (hfit : s.val W * 2 ^ off < 2 ^ (W * s.words.length)) :
    ∃ s', shlSmall W s off = .ok s' ∧ Inv W s' ∧ s'.words.length = s.words.length ∧
      s'.val W = s.val W * 2 ^ off := by
  unfold shlSmall
  by_cases h0 : off = 0
  · subst h0
    exact ⟨s, rfl, h, rfl, by simp⟩
  · have hne : (off != 0) = true := by simp [h0]
    rw [if_pos hne]
    have hlt := h.idx_lt
    have hWp : 2 ^ W = 2 ^ (W - off) * 2 ^ off := by rw [← Nat.pow_add]; congr 1; omega
    have hO : 0 < 2 ^ off := Nat.pow_pos (by decide)
    have hQ : 0 < 2 ^ (W - off) := Nat.pow_pos (by decide)
    have htB : s.words[s.idx] < 2 ^ W := h.bound.getElem hlt
    -- value decomposition
    have hzt : valW W (s.words.drop (s.idx + 1)) = 0 := valW_eq_zero_of_zeroFrom0 _ _ (zeroFrom_drop h.above)
    have hdrop : valW W (s.words.drop s.idx) = s.words[s.idx] := by
      rw [valW_drop_cons W s.words s.idx hlt, hzt]; simp
    have hval : s.val W = valW W (s.words.take s.idx) + 2 ^ (W * s.idx) * s.words[s.idx] := by
      unfold Big.val
      rw [valW_split W s.words s.idx (Nat.le_of_lt hlt), hdrop]
    have hL : valW W (s.words.take s.idx) < 2 ^ (W * s.idx) := by
      have hb' : Bounded W (s.words.take s.idx) := fun w hw => h.bound w (List.mem_of_mem_take hw)
      have := valW_lt hb'
      rwa [List.length_take, Nat.min_eq_left (Nat.le_of_lt hlt)] at this
    have key := shl_word_arith (2 ^ off) (2 ^ (W - off)) s.words[s.idx] hO
    rw [← hWp] at key
    have hCB : (s.words[s.idx] <<< off) % 2 ^ W < 2 ^ W := Nat.mod_lt _ (Nat.pow_pos (by decide))
    have hcarryO : s.words[s.idx] >>> (W - off) < 2 ^ off := by
      rw [Nat.shiftRight_eq_div_pow]; apply Nat.div_lt_of_lt_mul; rw [← hWp]; exact htB
    have hOB : 2 ^ off ≤ 2 ^ W := Nat.pow_le_pow_right (by decide) (Nat.le_of_lt hoff)
    dsimp only
    rw [rd_ok hlt]
    simp only [bind, Except.bind]
    rw [wr_ok _ hlt]
    simp only []
    have hfin := fun (ws' : List Nat) (idx' : Nat) => shl_finish s off s.words[s.idx] (valW W (s.words.take s.idx)) h hoff
      (getD_eq_getElem hlt) hval hL ws' idx'
    -- the common continuation: run the loop on a prepared storage
    have hloop : ∀ (cur : List Nat) (c1 : Nat), cur.length = s.words.length → Bounded W cur →
        (∀ k, k < s.idx → cur.getD k 0 = s.words.getD k 0) →
        cur.getD s.idx 0 = (s.words[s.idx] <<< off) % 2 ^ W → cur.getD (s.idx + 1) 0 = c1 →
        ZeroFrom cur (s.idx + 2) → c1 = s.words[s.idx] >>> (W - off) →
        ∃ ws', shlBits W off cur s.idx = .ok ws' ∧ ws'.length = s.words.length ∧ Bounded W ws' ∧
          valW W ws' = 2 ^ off * s.val W := by
      intro cur c1 hl hb hlow hci hc1 hz hc1e
      have := shlBits_spec (W := W) (off := off) (by omega) hoff s.words h.bound s.idx cur hlt hl hb hlow
        (by rw [hci, getD_eq_getElem hlt, Nat.shiftLeft_eq])
        (by
          rw [valW_drop_two W cur s.idx _ c1 hci hc1 hz, hdrop, hc1e, Nat.shiftLeft_eq, Nat.shiftRight_eq_div_pow]
          rw [Nat.mul_comm (2 ^ off)]; exact key)
      exact this
    have hmax : maxIndex (s.words.set s.idx ((s.words[s.idx] <<< off) % 2 ^ W)) = s.words.length - 1 := by
      simp [maxIndex]
    by_cases hmx : s.idx = s.words.length - 1
    · -- top word of the storage: the carry is dropped, and is zero because the result fits
      have hc : (s.idx != maxIndex (s.words.set s.idx ((s.words[s.idx] <<< off) % 2 ^ W))) = false := by
        rw [hmax]; simp [hmx]
      simp only [hc, Bool.false_eq_true, if_false]
      have hcz : s.words[s.idx] >>> (W - off) = 0 := by
        rw [Nat.shiftRight_eq_div_pow]
        apply Nat.div_eq_of_lt
        by_contra hcon
        have hcon' : 2 ^ (W - off) ≤ s.words[s.idx] := by omega
        have e1 : 2 ^ (W * s.idx) * 2 ^ (W - off) ≤ 2 ^ (W * s.idx) * s.words[s.idx] := Nat.mul_le_mul_left _ hcon'
        have e2 : 2 ^ (W * s.idx) * 2 ^ (W - off) * 2 ^ off ≤ s.val W * 2 ^ off := by
          apply Nat.mul_le_mul_right; omega
        have e3 : 2 ^ (W * s.words.length) = 2 ^ (W * s.idx) * 2 ^ (W - off) * 2 ^ off := by
          have : s.words.length = s.idx + 1 := by omega
          rw [this, pow_mul_succ, hWp]; ring
        omega
      obtain ⟨ws', hrun, hl', hb', hv'⟩ := hloop (s.words.set s.idx ((s.words[s.idx] <<< off) % 2 ^ W)) 0 (by simp)
        (h.bound.set _ hCB) (fun k hk => getD_set_ne (by omega)) (getD_set_eq hlt)
        (by simp [List.getD_eq_getElem?_getD, List.getElem?_eq_none (by simp; omega : (s.words.set s.idx _).length ≤ s.idx + 1)])
        (fun k hk => by simp [List.getD_eq_getElem?_getD, List.getElem?_eq_none (by simp; omega : (s.words.set s.idx _).length ≤ k)])
        hcz.symm
      rw [hrun]
      refine ⟨_, rfl, hfin ws' s.idx hl' hb' hv' (fun _ => rfl) ?_, hl', by show valW W ws' = _; rw [hv', Nat.mul_comm]⟩
      intro hcon
      rw [← Nat.shiftRight_eq_div_pow, hcz] at hcon
      exact absurd rfl hcon
    · have hc : (s.idx != maxIndex (s.words.set s.idx ((s.words[s.idx] <<< off) % 2 ^ W))) = true := by
        rw [hmax]; simp [hmx]
      simp only [hc, if_true]
      have hnext : s.idx + 1 < s.words.length := by omega
      by_cases hcz : s.words[s.idx] >>> (W - off) = 0
      · have hcc : (s.words[s.idx] >>> (W - off) != 0) = false := by simp [hcz]
        simp only [hcc, Bool.false_eq_true, if_false, Nat.add_zero]
        rw [rd_ok (by simpa using hlt)]
        simp only []
        rw [wr_ok _ (by simpa using hlt)]
        simp only []
        rw [List.getElem_set_self, hcz, Nat.or_zero, List.set_set]
        obtain ⟨ws', hrun, hl', hb', hv'⟩ := hloop (s.words.set s.idx ((s.words[s.idx] <<< off) % 2 ^ W)) 0 (by simp)
          (h.bound.set _ hCB) (fun k hk => getD_set_ne (by omega)) (getD_set_eq hlt)
          (by rw [getD_set_ne (by omega)]; exact h.above _ (by omega))
          (fun k hk => by rw [getD_set_ne (by omega)]; exact h.above _ (by omega))
          hcz.symm
        rw [hrun]
        refine ⟨_, rfl, hfin ws' s.idx hl' hb' hv' (fun _ => rfl) ?_, hl', by show valW W ws' = _; rw [hv', Nat.mul_comm]⟩
        intro hcon
        rw [← Nat.shiftRight_eq_div_pow, hcz] at hcon
        exact absurd rfl hcon
      · have hcc : (s.words[s.idx] >>> (W - off) != 0) = true := by simp [hcz]
        simp only [hcc, if_true]
        rw [rd_ok (by simpa using hnext)]
        simp only []
        rw [wr_ok _ (by simpa using hnext)]
        simp only []
        have hu : (s.words.set s.idx ((s.words[s.idx] <<< off) % 2 ^ W))[s.idx + 1]'(by simpa using hnext) = 0 := by
          rw [List.getElem_set_ne (by omega), ← getD_eq_getElem hnext]; exact h.above _ (by omega)
        rw [hu, Nat.zero_or]
        obtain ⟨ws', hrun, hl', hb', hv'⟩ := hloop
          ((s.words.set s.idx ((s.words[s.idx] <<< off) % 2 ^ W)).set (s.idx + 1) (s.words[s.idx] >>> (W - off)))
          (s.words[s.idx] >>> (W - off)) (by simp)
          ((h.bound.set _ hCB).set _ (by omega)) (fun k hk => by rw [getD_set_ne (by omega), getD_set_ne (by omega)])
          (by rw [getD_set_ne (by omega), getD_set_eq hlt])
          (getD_set_eq (by simpa using hnext))
          (fun k hk => by rw [getD_set_ne (by omega), getD_set_ne (by omega)]; exact h.above _ (by omega))
          rfl
        rw [hrun]
        refine ⟨_, rfl, hfin ws' (s.idx + 1) hl' hb' hv' ?_ (fun _ => ⟨rfl, hnext⟩), hl', by show valW W ws' = _; rw [hv', Nat.mul_comm]⟩
        intro hcon
        rw [← Nat.shiftRight_eq_div_pow] at hcon
        exact absurd hcon hcz

/-- `ShiftLeft(offset)` when `value · 2^offset` fits the storage. -/
theorem shiftLeft_spec {W : Nat} (s : Big) (offset : Nat) (h : Inv W s)
    (hfit : s.val W * 2 ^ offset < 2 ^ (W * s.words.length)) :
    ∃ s', shiftLeft W s offset = .ok s' ∧ Inv W s' ∧ s'.words.length = s.words.length ∧
      s'.val W = s.val W * 2 ^ offset := by
  unfold shiftLeft
  by_cases hge : offset ≥ W
  · rw [if_pos hge]
    dsimp only
    have hW := h.wpos
    have hlt := h.idx_lt
    have hmv : 0 < offset / W := Nat.div_pos hge hW
    have hdm := Nat.div_add_mod offset W
    have hoff : offset - offset / W * W = offset % W := by rw [Nat.mul_comm] at hdm; omega
    have hmodlt : offset % W < W := Nat.mod_lt _ hW
    have hmax : maxIndex s.words = s.words.length - 1 := rfl
    -- a non-zero value leaves room for the moved words
    have hroom : s.val W ≠ 0 → s.idx + offset / W < s.words.length := by
      intro hv0
      have hlow : 2 ^ (W * s.idx) ≤ s.val W := by
        by_cases hi : s.idx = 0
        · rw [hi]; simp; omega
        · exact h.le_val hi
      have e1 : 2 ^ (W * s.idx) * 2 ^ (W * (offset / W)) ≤ s.val W * 2 ^ offset := by
        apply Nat.mul_le_mul hlow
        apply Nat.pow_le_pow_right (by decide); omega
      rw [← Nat.pow_add, ← Nat.mul_add] at e1
      have e2 : 2 ^ (W * (s.idx + offset / W)) < 2 ^ (W * s.words.length) := by omega
      have e3 := (Nat.pow_lt_pow_iff_right (by decide : 1 < 2)).1 e2
      exact Nat.lt_of_mul_lt_mul_left e3
    by_cases hover : s.idx + offset / W > maxIndex s.words
    · rw [if_pos hover]
      have hv0 : s.val W = 0 := by
        by_contra hne
        have := hroom hne
        rw [hmax] at hover; omega
      have hi0 : s.idx = 0 := by
        by_contra hne
        have := h.le_val hne
        have : 0 < 2 ^ (W * s.idx) := Nat.pow_pos (by decide)
        omega
      have hnot : ¬ (s.idx + offset / W - maxIndex s.words ≤ s.idx) := by rw [hmax] at hover ⊢; omega
      rw [if_neg hnot]
      obtain ⟨s', hrun, hinv, hl, hv⟩ := clear_spec (W := W) s h
      exact ⟨s', hrun, hinv, hl, by rw [hv, hv0]; simp⟩
    · rw [if_neg hover]
      have hfits : s.idx + offset / W < s.words.length := by rw [hmax] at hover; omega
      obtain ⟨s1, hrun1, hinv1, hl1, hv1⟩ := shlWords_spec s (offset / W) h hmv hfits
      rw [hoff]
      obtain ⟨s2, hrun2, hinv2, hl2, hv2⟩ := shlSmall_spec s1 (offset % W) hinv1 hmodlt (by
        rw [hv1, hl1, Nat.mul_assoc, ← Nat.pow_add, hdm]; exact hfit)
      refine ⟨s2, ?_, hinv2, by omega, ?_⟩
      · simp only [bind, Except.bind, hrun1]
        exact hrun2
      · rw [hv2, hv1, Nat.mul_assoc, ← Nat.pow_add, hdm]
  · rw [if_neg hge]
    exact shlSmall_spec s offset h (by omega) hfit

end Qentem.BigInt
