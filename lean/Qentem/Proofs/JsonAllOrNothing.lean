import Qentem.Proofs.Json
/-! C07 core: whatever the parser returns is either `undef` (with the offset forced to the end of
the input, so every caller fails too) or a tree without any undefined member — never a partially
built tree. -/
namespace Qentem.Json

mutual
def complete : JVal → Bool
  | .undef => false
  | .ptr _ => false
  | .arr xs => completeList xs
  | .obj ms => completeMembers ms
  | _ => true
def completeList : List JVal → Bool
  | [] => true
  | v :: rest => complete v && completeList rest
def completeMembers : List (List Nat × JVal) → Bool
  | [] => true
  | (_, v) :: rest => complete v && completeMembers rest
end

theorem completeList_append (a b : List JVal) :
    completeList (a ++ b) = (completeList a && completeList b) := by
  induction a with
  | nil => simp [completeList]
  | cons v rest ih => simp [completeList, ih, Bool.and_assoc]

theorem completeList_reverse (a : List JVal) : completeList a.reverse = completeList a := by
  induction a with
  | nil => rfl
  | cons v rest ih => simp [completeList_append, completeList, ih, Bool.and_comm]

theorem completeMembers_insert (ms : List (List Nat × JVal)) (k : List Nat) (v : JVal)
    (hm : completeMembers ms = true) (hv : complete v = true) :
    completeMembers (objInsert ms k v) = true := by
  induction ms with
  | nil => simp [objInsert, completeMembers, hv]
  | cons kv rest ih =>
    obtain ⟨k', v'⟩ := kv
    simp only [completeMembers, Bool.and_eq_true] at hm
    simp only [objInsert]
    split
    · simp [completeMembers, hv, hm.2]
    · simp [completeMembers, hm.1, ih hm.2]

/-- Post-condition of every sub-parse. -/
def Q (n : Nat) (v : JVal) (o' : Nat) : Prop := (v = .undef ∧ o' = n) ∨ complete v = true

theorem trimLeft_end (c : Array Nat) : trimLeft c c.size = c.size := by
  unfold trimLeft; simp

theorem arrLoop_Q (d : Deps) (c : Array Nat) (fuel : Nat)
    (ihV : ∀ o v o', parseValue d c fuel o = .ok (v, o') → Q c.size v o')
    (ihL : ∀ o items v o', completeList items = true → arrLoop d c fuel o items = .ok (v, o') → Q c.size v o') :
    ∀ o items v o', completeList items = true → arrLoop d c (fuel + 1) o items = .ok (v, o') → Q c.size v o' := by
  intro o items v o' hc h
  unfold arrLoop at h
  simp only [] at h
  split at h
  · simp [pure, Except.pure] at h; exact Or.inl ⟨h.1.symm, h.2.symm⟩
  · cases hv : parseValue d c fuel o with
    | error e => rw [hv] at h; simp [bind, Except.bind] at h
    | ok r =>
      obtain ⟨v1, o1⟩ := r
      rw [hv] at h
      simp only [bind, Except.bind] at h
      have q1 := ihV o v1 o1 hv
      split at h
      · simp [pure, Except.pure] at h; exact Or.inl ⟨h.1.symm, h.2.symm⟩
      · rename_i hlt
        have hcv : complete v1 = true := by
          rcases q1 with ⟨_, h2⟩ | h2
          · exfalso; subst h2; rw [trimLeft_end] at hlt; omega
          · exact h2
        rw [rd_ok c _ (by omega)] at h
        simp only [] at h
        split at h
        · exact ihL _ _ v o' (by simp [completeList, hcv, hc]) h
        · split at h
          · simp [pure, Except.pure] at h
            right; rw [← h.1]; simp [complete, completeList_append, completeList_reverse, completeList, hcv, hc]
          · simp [pure, Except.pure] at h; exact Or.inl ⟨h.1.symm, h.2.symm⟩

theorem undefQ {n : Nat} {v : JVal} {o' : Nat} (h : (pure (JVal.undef, n) : M (JVal × Nat)) = .ok (v, o')) : Q n v o' := by
  simp [pure, Except.pure] at h; exact Or.inl ⟨h.1.symm, h.2.symm⟩

theorem objLoop_Q (d : Deps) (c : Array Nat) (fuel : Nat)
    (ihV : ∀ o v o', parseValue d c fuel o = .ok (v, o') → Q c.size v o')
    (ihL : ∀ o ms v o', completeMembers ms = true → objLoop d c fuel o ms = .ok (v, o') → Q c.size v o') :
    ∀ o ms v o', completeMembers ms = true → objLoop d c (fuel + 1) o ms = .ok (v, o') → Q c.size v o' := by
  intro o ms v o' hc h
  unfold objLoop at h
  simp only [] at h
  split at h
  · exact undefQ h
  · rename_i hlt0
    rw [rd_ok c _ (by omega)] at h
    simp only [bind, Except.bind] at h
    split at h
    · exact undefQ h
    · cases hu : d.unEscape c (o + 1) (c.size - (o + 1)) with
      | error e => rw [hu] at h; simp at h
      | ok r =>
        obtain ⟨len, stream⟩ := r
        rw [hu] at h
        simp only [] at h
        split at h
        · exact undefQ h
        · split at h
          · exact undefQ h
          · rename_i hlt1
            rw [rd_ok c _ (by omega)] at h
            simp only [] at h
            split at h
            · exact undefQ h
            · cases hv : parseValue d c fuel (trimLeft c (trimLeft c (o + 1 + len) + 1)) with
              | error e => rw [hv] at h; simp at h
              | ok r =>
                obtain ⟨v1, o1⟩ := r
                rw [hv] at h
                simp only [] at h
                have q1 := ihV _ v1 o1 hv
                split at h
                · exact undefQ h
                · rename_i hlt
                  have hcv : complete v1 = true := by
                    rcases q1 with ⟨_, h2⟩ | h2
                    · exfalso; subst h2; rw [trimLeft_end] at hlt; omega
                    · exact h2
                  rw [rd_ok c _ (by omega)] at h
                  simp only [] at h
                  split at h
                  · exact ihL _ _ v o' (completeMembers_insert _ _ _ hc hcv) h
                  · split at h
                    · simp [pure, Except.pure] at h
                      right; rw [← h.1]; simp [complete, completeMembers_insert _ _ _ hc hcv]
                    · exact undefQ h

theorem parseArray_Q (d : Deps) (c : Array Nat) (fuel : Nat)
    (ihL : ∀ o items v o', completeList items = true → arrLoop d c fuel o items = .ok (v, o') → Q c.size v o') :
    ∀ o v o', parseArray d c (fuel + 1) o = .ok (v, o') → Q c.size v o' := by
  intro o v o' h
  unfold parseArray at h
  simp only [] at h
  split at h
  · exact ihL _ _ v o' rfl h
  · rename_i hlt
    rw [rd_ok c _ (by omega)] at h
    simp only [bind, Except.bind] at h
    split at h
    · exact ihL _ _ v o' rfl h
    · simp [pure, Except.pure] at h; right; rw [← h.1]; rfl

theorem parseObject_Q (d : Deps) (c : Array Nat) (fuel : Nat)
    (ihL : ∀ o ms v o', completeMembers ms = true → objLoop d c fuel o ms = .ok (v, o') → Q c.size v o') :
    ∀ o v o', parseObject d c (fuel + 1) o = .ok (v, o') → Q c.size v o' := by
  intro o v o' h
  unfold parseObject at h
  simp only [] at h
  split at h
  · exact ihL _ _ v o' rfl h
  · rename_i hlt
    rw [rd_ok c _ (by omega)] at h
    simp only [bind, Except.bind] at h
    split at h
    · exact ihL _ _ v o' rfl h
    · simp [pure, Except.pure] at h; right; rw [← h.1]; rfl

theorem parseValue_Q (d : Deps) (c : Array Nat) (fuel : Nat)
    (ihA : ∀ o v o', parseArray d c fuel o = .ok (v, o') → Q c.size v o')
    (ihO : ∀ o v o', parseObject d c fuel o = .ok (v, o') → Q c.size v o') :
    ∀ o v o', parseValue d c (fuel + 1) o = .ok (v, o') → Q c.size v o' := by
  intro o v o' h
  unfold parseValue at h
  simp only [] at h
  split at h
  · exact undefQ h
  · rename_i hlt
    rw [rd_ok c _ (by omega)] at h
    simp only [bind, Except.bind] at h
    split at h
    · exact ihO _ _ _ h
    · split at h
      · exact ihA _ _ _ h
      · split at h
        · cases hu : d.unEscape c (o + 1) (c.size - (o + 1)) with
          | error e => rw [hu] at h; simp at h
          | ok r =>
            obtain ⟨len, stream⟩ := r
            rw [hu] at h
            simp only [] at h
            split at h
            · simp [pure, Except.pure] at h; right; rw [← h.1]; rfl
            · exact undefQ h
        · split at h
          · split at h
            · simp [pure, Except.pure] at h; right; rw [← h.1]; rfl
            · exact undefQ h
          · split at h
            · split at h
              · simp [pure, Except.pure] at h; right; rw [← h.1]; rfl
              · exact undefQ h
            · split at h
              · split at h
                · simp [pure, Except.pure] at h; right; rw [← h.1]; rfl
                · exact undefQ h
              · cases hn : d.strToNum c o c.size with
                | error e => rw [hn] at h; simp at h
                | ok r =>
                  rw [hn] at h
                  simp only [] at h
                  split at h
                  · simp [pure, Except.pure] at h; right; rw [← h.1]; rfl
                  · simp [pure, Except.pure] at h; right; rw [← h.1]; rfl
                  · simp [pure, Except.pure] at h; right; rw [← h.1]; rfl
                  · exact undefQ h

theorem all_Q (d : Deps) (c : Array Nat) : ∀ fuel,
    (∀ o v o', parseValue d c fuel o = .ok (v, o') → Q c.size v o') ∧
    (∀ o v o', parseArray d c fuel o = .ok (v, o') → Q c.size v o') ∧
    (∀ o v o', parseObject d c fuel o = .ok (v, o') → Q c.size v o') ∧
    (∀ o items v o', completeList items = true → arrLoop d c fuel o items = .ok (v, o') → Q c.size v o') ∧
    (∀ o ms v o', completeMembers ms = true → objLoop d c fuel o ms = .ok (v, o') → Q c.size v o') := by
  intro fuel
  induction fuel with
  | zero =>
    refine ⟨?_, ?_, ?_, ?_, ?_⟩ <;> intros <;> simp_all [parseValue, parseArray, parseObject, arrLoop, objLoop]
  | succ fuel ih =>
    obtain ⟨ihV, ihA, ihO, ihAL, ihOL⟩ := ih
    exact ⟨parseValue_Q d c fuel ihA ihO, parseArray_Q d c fuel ihAL, parseObject_Q d c fuel ihOL,
      arrLoop_Q d c fuel ihV ihAL, objLoop_Q d c fuel ihV ihOL⟩

/-- C07 core: the parser's result is `undef` or a complete tree (no undefined member anywhere),
and it is a complete tree only if what follows the value is whitespace up to the end of input. -/
theorem parse_all_or_nothing (d : Deps) (c : Array Nat) (v : JVal) (h : parse d c = .ok v) :
    v = .undef ∨ (complete v = true ∧
      ∃ o', parseValue d c (fuelFor c) (trimLeft c 0) = .ok (v, o') ∧ trimLeft c o' = c.size) := by
  unfold parse at h
  simp only [] at h
  split at h
  · simp [pure, Except.pure] at h; exact Or.inl h.symm
  · cases hv : parseValue d c (fuelFor c) (trimLeft c 0) with
    | error e => rw [hv] at h; simp [bind, Except.bind] at h
    | ok r =>
      obtain ⟨v1, o1⟩ := r
      rw [hv] at h
      simp only [bind, Except.bind] at h
      split at h
      · rename_i hend
        simp [pure, Except.pure] at h
        subst h
        rcases (all_Q d c (fuelFor c)).1 _ _ _ hv with ⟨h1, _⟩ | h2
        · exact Or.inl h1
        · exact Or.inr ⟨h2, o1, rfl, hend⟩
      · simp [pure, Except.pure] at h; exact Or.inl h.symm

end Qentem.Json
