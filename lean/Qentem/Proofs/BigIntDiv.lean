import Qentem.Proofs.BigIntMul
/-! `Divide` by a word, relative to the exactness of the double-word helper. -/
namespace Qentem.BigInt

theorem divFrom_spec {c : Cfg} (hdv : DivOK c) (d : Nat) (hd0 : 0 < d) (hd : d < 2 ^ c.W) :
    ∀ (i : Nat) (ws : List Nat) (r : Nat), Bounded c.W ws → i ≤ ws.length → r < d →
    ∃ ws' r', divFrom c d (if c.hand then (c.W - 1) - d.log2 else 0) i ws r = .ok (ws', r') ∧
      ws'.length = ws.length ∧ Bounded c.W ws' ∧ r' < d ∧ (∀ k, i ≤ k → ws'.getD k 0 = ws.getD k 0) ∧
      valW c.W (ws.take i) + 2 ^ (c.W * i) * r = d * valW c.W (ws'.take i) + r'
  | 0, ws, r, hb, _, hr => ⟨ws, r, rfl, rfl, hb, hr, fun _ _ => rfl, by simp [valW]⟩
  | i + 1, ws, r, hb, hi, hr => by
    have hlt : i < ws.length := hi
    obtain ⟨r1, q, hrun1, he, hr1, hq⟩ := hdv r ws[i] d hd0 hd hr (hb.getElem hlt)
    obtain ⟨ws', r', hrun, hl', hb', hr', hfr, hv⟩ :=
      divFrom_spec hdv d hd0 hd i (ws.set i q) r1 (hb.set _ hq) (by simp; omega) hr1
    unfold divFrom
    rw [rd_ok hlt]
    simp only [bind, Except.bind]
    rw [hrun1]
    simp only []
    rw [wr_ok _ hlt]
    simp only []
    rw [hrun]
    refine ⟨ws', r', rfl, by simpa using hl', hb', hr', ?_, ?_⟩
    · intro k hk; rw [hfr k (by omega)]; exact getD_set_ne (by omega)
    · have hl2 : ws'.length = ws.length := by simpa using hl'
      have hA : valW c.W ((ws.set i q).take i) = valW c.W (ws.take i) :=
        valW_take_congr _ _ _ _ (by simp; omega) (by omega) (fun k hk => getD_set_ne (by omega))
      have hq' : ws'[i]'(by omega) = q := by
        have := hfr i (Nat.le_refl _)
        rw [getD_set_eq hlt, getD_eq_getElem (by omega)] at this
        exact this
      rw [valW_take_succ c.W ws i hlt, valW_take_succ c.W ws' i (by omega), hq', pow_mul_succ]
      rw [hA] at hv
      have e : (q * d + r1) * 2 ^ (c.W * i) = (r * 2 ^ c.W + ws[i]) * 2 ^ (c.W * i) := by rw [he]
      have e1 : (q * d + r1) * 2 ^ (c.W * i) = d * (2 ^ (c.W * i) * q) + 2 ^ (c.W * i) * r1 := by ring
      have e2 : (r * 2 ^ c.W + ws[i]) * 2 ^ (c.W * i) = 2 ^ c.W * 2 ^ (c.W * i) * r + 2 ^ (c.W * i) * ws[i] := by ring
      have e3 : d * (valW c.W (List.take i ws') + 2 ^ (c.W * i) * q)
          = d * valW c.W (List.take i ws') + d * (2 ^ (c.W * i) * q) := by ring
      omega

/-- `Divide(d)` for a non-zero word `d`: quotient in place, the remainder returned, exactly. -/
theorem divide_spec {c : Cfg} (hdv : DivOK c) (s : Big) (d : Nat) (h : Inv c.W s) (hd0 : 0 < d) (hd : d < 2 ^ c.W) :
    ∃ s' r, divide c s d = .ok (s', r) ∧ Inv c.W s' ∧ s'.words.length = s.words.length ∧
      s.val c.W = d * s'.val c.W + r ∧ r < d := by
  have hlt := h.idx_lt
  have hne : (d == 0) = false := by simp; omega
  have htopB : s.words[s.idx] < 2 ^ c.W := h.bound.getElem hlt
  have hqB : s.words[s.idx] / d < 2 ^ c.W := Nat.lt_of_le_of_lt (Nat.div_le_self _ _) htopB
  obtain ⟨ws', r', hrun, hl', hb', hr', hfr, hv⟩ :=
    divFrom_spec hdv d hd0 hd s.idx (s.words.set s.idx (s.words[s.idx] / d)) (s.words[s.idx] % d)
      (h.bound.set _ hqB) (by simp; omega) (Nat.mod_lt _ hd0)
  have hl2 : ws'.length = s.words.length := by simpa using hl'
  have hshift : (if c.hand = true then (do let b ← platFindLastBit d; pure (c.W - 1 - b)) else pure 0 : M Nat)
      = .ok (if c.hand then (c.W - 1) - d.log2 else 0) := by
    unfold platFindLastBit
    simp only [hne]
    split <;> rfl
  have htop' : ws'.getD s.idx 0 = s.words[s.idx] / d := by
    rw [hfr s.idx (Nat.le_refl _), getD_set_eq hlt]
  have habove : ZeroFrom ws' (s.idx + 1) := by
    intro k hk
    rw [hfr k (by omega), getD_set_ne (by omega)]; exact h.above k hk
  -- value
  have hA : valW c.W ((s.words.set s.idx (s.words[s.idx] / d)).take s.idx) = valW c.W (s.words.take s.idx) :=
    valW_take_congr _ _ _ _ (by simp; omega) (by omega) (fun k hk => getD_set_ne (by omega))
  have hval : valW c.W s.words = d * valW c.W ws' + r' := by
    have h1 : valW c.W s.words = valW c.W (s.words.take (s.idx + 1)) :=
      valW_of_zeroFrom c.W s.words (s.idx + 1) hlt h.above
    have h2 : valW c.W ws' = valW c.W (ws'.take (s.idx + 1)) :=
      valW_of_zeroFrom c.W ws' (s.idx + 1) (by omega) habove
    rw [h1, h2, valW_take_succ c.W s.words s.idx hlt, valW_take_succ c.W ws' s.idx (by omega)]
    have : ws'[s.idx]'(by omega) = s.words[s.idx] / d := by
      rw [← getD_eq_getElem (by omega : s.idx < ws'.length)]; exact htop'
    rw [this]
    rw [hA] at hv
    have e := Nat.div_add_mod s.words[s.idx] d
    have e1 : 2 ^ (c.W * s.idx) * (d * (s.words[s.idx] / d) + s.words[s.idx] % d)
        = d * (2 ^ (c.W * s.idx) * (s.words[s.idx] / d)) + 2 ^ (c.W * s.idx) * (s.words[s.idx] % d) := by ring
    rw [e] at e1
    have e3 : d * (valW c.W (List.take s.idx ws') + 2 ^ (c.W * s.idx) * (s.words[s.idx] / d))
        = d * valW c.W (List.take s.idx ws') + d * (2 ^ (c.W * s.idx) * (s.words[s.idx] / d)) := by ring
    omega
  unfold divide
  simp only [hne, Bool.false_eq_true, if_false]
  rw [rd_ok hlt]
  simp only [bind, Except.bind]
  rw [wr_ok _ hlt]
  simp only []
  have hshift' := hshift
  simp only [bind, Except.bind] at hshift'
  rw [hshift']
  simp only []
  rw [hrun]
  simp only []
  by_cases hi0 : s.idx > 0
  · rw [if_pos hi0, rd_ok (by omega : s.idx < ws'.length)]
    simp only [pure, Except.pure]
    have hget : ws'[s.idx]'(by omega) = s.words[s.idx] / d := by
      rw [← getD_eq_getElem (by omega : s.idx < ws'.length)]; exact htop'
    by_cases hz : s.words[s.idx] / d = 0
    · -- the top word became zero: index_ - 1
      refine ⟨_, r', rfl, ?_, hl2, hval, hr'⟩
      have hcond : (ws'[s.idx]'(by omega) == 0) = true := by rw [hget, hz]; rfl
      simp only [hcond, if_true]
      apply top_of_le_val
      · refine ⟨h.wpos, hb', by simp; omega, ?_⟩
        intro k hk
        have hk' : s.idx - 1 + 1 ≤ k := hk
        by_cases hke : k = s.idx
        · subst hke; rw [htop']; exact hz
        · exact habove k (by omega)
      · intro hne1
        have hne1' : s.idx - 1 ≠ 0 := hne1
        show 2 ^ (c.W * (s.idx - 1)) ≤ valW c.W ws'
        have hle := h.le_val (by omega)
        unfold Big.val at hle
        have hp : 2 ^ (c.W * s.idx) = 2 ^ c.W * 2 ^ (c.W * (s.idx - 1)) := by
          have : s.idx = (s.idx - 1) + 1 := by omega
          rw [this, pow_mul_succ]; simp
        by_contra hcon
        have hcon' : valW c.W ws' + 1 ≤ 2 ^ (c.W * (s.idx - 1)) := by omega
        have : d * (valW c.W ws' + 1) ≤ d * 2 ^ (c.W * (s.idx - 1)) := Nat.mul_le_mul_left _ hcon'
        have : d * 2 ^ (c.W * (s.idx - 1)) ≤ 2 ^ c.W * 2 ^ (c.W * (s.idx - 1)) := Nat.mul_le_mul_right _ (by omega)
        rw [Nat.mul_add] at *
        omega
    · refine ⟨_, r', rfl, ?_, hl2, hval, hr'⟩
      have hcond : (ws'[s.idx]'(by omega) == 0) = false := by rw [hget]; simp [hz]
      simp only [hcond]
      refine ⟨⟨h.wpos, hb', by simp; omega, habove⟩, fun _ => ?_⟩
      show ws'.getD s.idx 0 ≠ 0
      rw [htop']; exact hz
  · rw [if_neg hi0]
    refine ⟨_, r', rfl, ⟨⟨h.wpos, hb', by simp; omega, habove⟩, fun hne1 => ?_⟩, hl2, hval, hr'⟩
    exact absurd hne1 (by simp; omega)

end Qentem.BigInt
