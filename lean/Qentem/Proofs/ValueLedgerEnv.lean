import Qentem.Model.ValueLedger
import Qentem.Proofs.ValueLedger
import Qentem.Proofs.ValueLedgerOps
/-! Forest-level accounting for the Value trace model: targets, sources taken out of their root, one
operation, operation sequences, destruction. -/
namespace Qentem.ValueLedger
open Qentem.Ledger Qentem.HashLedger Qentem.Value

/-! ### the forest -/

theorem ownedItems_split (pre post : List LDoc) (x : LDoc) :
    ownedItems (pre ++ x :: post) = ownedItems pre ++ (owned x ++ ownedItems post) := by
  simp [ownedItems_append]

theorem lenvGet_split (pre post : List LDoc) (x : LDoc) : lenvGet (pre ++ x :: post) pre.length = x := by
  simp [lenvGet]

theorem env_split (env : LEnv) (r : Nat) (h : r < env.length) :
    ∃ pre post, env = pre ++ lenvGet env r :: post ∧ pre.length = r := by
  have hg : env[r]? = some env[r] := List.getElem?_eq_getElem h
  obtain ⟨pre, post, h1, h2⟩ := getElem?_split hg
  refine ⟨pre, post, ?_, h2⟩
  simp only [lenvGet, hg]
  exact h1

theorem Acc_onTargetL (env : LEnv) (t : LLoc) (f : LDoc → LM LDoc) (extra : List Nat) (hf : Good f extra)
    (ht : t.root < env.length) : Acc (onTargetL env t f) (ownedEnv env ++ extra) (fun env' => ownedEnv env') := by
  obtain ⟨pre, post, h1, h2⟩ := env_split env t.root ht
  unfold onTargetL
  generalize lenvGet env t.root = x at h1
  subst h1
  refine Acc.bindF (ownedItems pre ++ ownedItems post) (Good_updPathL t.path f extra hf x)
    (by simp only [ownedEnv, ownedItems_split]; perm_count) (fun d => ?_)
  refine Acc.pure' _ _ _ ?_
  rw [← h2, set_split]
  simp only [ownedEnv, ownedItems_split]
  perm_count

/-! ### taking a member out of its root -/

/-- Perm goals that need Perm hypotheses: pass them as count facts. -/
macro "perm_with" h:term : tactic =>
  `(tactic| (rw [List.perm_iff_count]; intro a_; have hc_ := (List.perm_iff_count.mp $h) a_;
             (try simp [List.count_append, List.count_cons, ownedItems_append, ownedSlots_append] at hc_ ⊢);
             (try omega)))

theorem nonUndefL_some (v c : LDoc) (h : nonUndefL v = some c) : c = v := by
  unfold nonUndefL at h
  split at h
  · cases h
  · cases h; rfl

theorem owned_slotSetValL (k : List Nat) (y c : LDoc) : ∀ s, slotFindL k s = some c →
    (ownedSlots (slotSetValL k y s) ++ owned c).Perm (ownedSlots s ++ owned y) := by
  intro s
  induction s with
  | nil => intro h; simp [slotFindL] at h
  | cons a t ih =>
    intro h
    cases a with
    | none => simpa [slotSetValL, slotFindL] using ih (by simpa [slotFindL] using h)
    | some e =>
      obtain ⟨kid, k', v⟩ := e
      by_cases hk : k' = k
      · simp [slotFindL, hk] at h; subst h
        simp only [slotSetValL, hk, if_true]
        perm_count
      · have := ih (by simpa [slotFindL, hk] using h)
        simp only [slotSetValL, hk, if_false]
        perm_with this

theorem owned_setIdxPure (y c : LDoc) : ∀ (l : List LDoc) (i : Nat), l[i]? = some c →
    (ownedItems (setIdxPure i y l) ++ owned c).Perm (ownedItems l ++ owned y) := by
  intro l
  induction l with
  | nil => intro i h; simp at h
  | cons a t ih =>
    intro i h
    cases i with
    | zero => simp at h; subst h; simp only [setIdxPure]; perm_count
    | succ i =>
      have := ih i (by simpa using h)
      simp only [setIdxPure]
      perm_with this

theorem owned_setChildL (d : LDoc) (sel : Sel) (c y : LDoc) (hc : childAtL d sel = some c) :
    (owned (setChildL d sel y) ++ owned c).Perm (owned d ++ owned y) := by
  cases sel with
  | key k =>
    cases d with
    | obj b cap s =>
      simp only [childAtL] at hc
      cases hf : slotFindL k s with
      | none => simp [hf] at hc
      | some v =>
        simp only [hf, Option.bind_some] at hc
        have hv := nonUndefL_some v c hc; subst hv
        have := owned_slotSetValL k y c s hf
        simp only [setChildL]
        perm_with this
    | arr b cap items =>
      simp only [childAtL] at hc
      cases hk : arrayKeyIndex k with
      | none => simp [hk] at hc
      | some ki =>
        simp only [hk, Option.bind_some] at hc
        cases hg : items[ki]? with
        | none => simp [hg] at hc
        | some v =>
          simp only [hg, Option.bind_some] at hc
          have hv := nonUndefL_some v c hc; subst hv
          have := owned_setIdxPure y c items _ hg
          simp only [setChildL, hk]
          perm_with this
    | _ => simp [childAtL] at hc
  | idx i =>
    cases d with
    | obj b cap s =>
      simp only [childAtL] at hc
      split at hc
      · rename_i kid k v hs
        have hv := nonUndefL_some v c hc; subst hv
        obtain ⟨pre, post, h1, h2⟩ := getElem?_split hs
        subst h1; subst h2
        simp only [setChildL, hs, set_split]
        perm_count
      · cases hc
    | arr b cap items =>
      simp only [childAtL] at hc
      cases hg : items[i]? with
      | none => simp [hg] at hc
      | some v =>
        simp only [hg, Option.bind_some] at hc
        have hv := nonUndefL_some v c hc; subst hv
        have := owned_setIdxPure y c items _ hg
        simp only [setChildL]
        perm_with this
    | _ => simp [childAtL] at hc

theorem owned_putAtL : ∀ (p : List Sel) (d x : LDoc), getAtL d p = some x →
    (owned x ++ owned (putAtL d p .undef)).Perm (owned d) := by
  intro p
  induction p with
  | nil => intro d x h; simp [getAtL] at h; subst h; simp [putAtL]
  | cons sel rest ih =>
    intro d x h
    simp only [getAtL] at h
    cases hc : childAtL d sel with
    | none => simp [hc] at h
    | some c =>
      simp only [hc] at h
      have h1 := ih c x h
      have h2 := owned_setChildL d sel c (putAtL c rest .undef) hc
      simp only [putAtL, hc]
      rw [List.perm_iff_count]; intro a
      have c1 := (List.perm_iff_count.mp h1) a
      have c2 := (List.perm_iff_count.mp h2) a
      simp only [List.count_append] at c1 c2 ⊢
      omega

theorem takeSourceL_length (env : LEnv) (s : SLoc) : (takeSourceL env s).length = env.length := by
  simp [takeSourceL]

theorem owned_takeSourceL (env : LEnv) (t : LLoc) (s : SLoc) (x : LDoc) (h : sourceL env t s = some x) :
    (ownedEnv (takeSourceL env s) ++ owned x).Perm (ownedEnv env) := by
  unfold sourceL at h
  split at h
  · cases h
  · by_cases hs : s.root < env.length
    · obtain ⟨pre, post, h1, h2⟩ := env_split env s.root hs
      have hp := owned_putAtL s.path _ x h
      unfold takeSourceL
      generalize lenvGet env s.root = y at h1 hp
      subst h1
      rw [← h2, set_split]
      simp only [ownedEnv, ownedItems_split]
      perm_with hp
    · have hnone : env[s.root]? = none := List.getElem?_eq_none (by omega)
      have hu : lenvGet env s.root = .undef := by simp [lenvGet, hnone]
      rw [hu] at h
      cases hp : s.path with
      | nil =>
        rw [hp] at h; simp [getAtL] at h; subst h
        simp [takeSourceL, List.set_eq_of_length_le (Nat.le_of_not_lt hs)]
      | cons sel rest => rw [hp] at h; cases sel <;> simp [getAtL, childAtL] at h

/-! ### one operation -/

theorem Acc_withTmp {α : Type} (k : Nat) (body : LM α) (pre : List Nat) (post : α → List Nat) (h : Acc body pre post) :
    Acc (withTmp k body) pre post := by
  unfold withTmp
  refine Acc.bindF pre (Acc_allocTmp k) (by perm_count) (fun ts => ?_)
  refine Acc.bindF ts h (by perm_count) (fun a => ?_)
  exact Acc.bindF (post a) (Acc_freeAll ts) (by perm_count) (fun _ => Acc.pure' _ _ _ (by perm_count))

theorem Acc_mkPayload (x : Doc) : Acc (mkPayload x) [] (fun p => owned p) := by
  cases x <;> simp only [mkPayload] <;> first
    | exact Acc.pure' _ _ _ (by perm_count)
    | exact Acc.bind (mid := fun b => [b]) Acc_alloc (fun b => Acc.pure' _ _ _ (by perm_count))

/-- with a source member taken out and handed to a leaf action that consumes it. -/
theorem Acc_moveInto (env : LEnv) (t : LLoc) (s : SLoc) (x : LDoc) (f : LDoc → LM LDoc) (hs : sourceL env t s = some x)
    (ht : t.root < env.length) (hf : Good f (owned x)) :
    Acc (onTargetL (takeSourceL env s) t f) (ownedEnv env) (fun env' => ownedEnv env') :=
  (Acc_onTargetL _ t f (owned x) hf (by rw [takeSourceL_length]; exact ht)).permPre
    (owned_takeSourceL env t s x hs).symm

theorem owned_emptyOfKind (k : Nat) (e : LDoc) (h : emptyOfKind k = some e) : owned e = [] := by
  unfold emptyOfKind at h
  split at h <;> simp at h <;> subst h <;> simp

theorem Good_replaceBy_empty (e : LDoc) (h : owned e = []) : Good (replaceBy e) [] := by
  have := Good_replaceBy e
  rwa [h] at this

theorem Acc_stepBody (op : ValueLedger.LOp) (env : LEnv) (ht : op.target.root < env.length) :
    Acc (stepBody op env) (ownedEnv env) (fun env' => ownedEnv env') := by
  have here : ∀ (t : LLoc) (f : LDoc → LM LDoc), t.root < env.length → Good f [] →
      Acc (onTargetL env t f) (ownedEnv env) (fun env' => ownedEnv env') :=
    fun t f h hf => (Acc_onTargetL env t f [] hf h).permPre (by perm_count)
  have withX : ∀ (t : LLoc) (m : LM LDoc) (f : LDoc → LDoc → LM LDoc), t.root < env.length →
      Acc m [] (fun x => owned x) → (∀ x, Good (f x) (owned x)) →
      Acc (LM.bind m (fun x => onTargetL env t (f x))) (ownedEnv env) (fun env' => ownedEnv env') :=
    fun t m f h hm hf => Acc.bindF (ownedEnv env) hm (by perm_count)
      (fun x => (Acc_onTargetL env t (f x) (owned x) (hf x) h).permPre (by perm_count))
  have noop : Acc (LM.pure env) (ownedEnv env) (fun env' => ownedEnv env') := Acc.pure' _ _ _ (List.Perm.refl _)
  cases op with
  | assign t x tmp => exact Acc_withTmp _ _ _ _ (withX t _ (fun p => replaceBy p) ht (Acc_mkPayload x) Good_replaceBy)
  | touch t => exact here t _ ht Good_pure
  | setType t k =>
    simp only [stepBody]
    cases he : emptyOfKind k with
    | none => exact here t _ ht Good_pure
    | some e => exact here t _ ht (Good_replaceBy_empty e (owned_emptyOfKind k e he))
  | copy t s =>
    simp only [stepBody]
    cases hs : sourceL env t s with
    | none => exact noop
    | some x => exact here t _ ht (Good_replaceByCopy x)
  | move t s =>
    simp only [stepBody]
    cases hs : sourceL env t s with
    | none => exact noop
    | some x => exact Acc_moveInto env t s x _ hs ht (Good_replaceBy x)
  | assignObj t s =>
    simp only [stepBody]
    cases hs : sourceL env t s with
    | none => exact noop
    | some x =>
      cases x with
      | obj b c sl => exact withX t _ (fun p => replaceBy p) ht (Acc_copyL _) Good_replaceBy
      | _ => exact noop
  | assignArr t s =>
    simp only [stepBody]
    cases hs : sourceL env t s with
    | none => exact noop
    | some x =>
      cases x with
      | arr b c sl => exact withX t _ (fun p => replaceBy p) ht (Acc_copyL _) Good_replaceBy
      | _ => exact noop
  | setPtr t r =>
    cases r with
    | some r => exact here t _ ht (Good_replaceBy_empty _ (by simp))
    | none =>
      refine here t _ ht (fun v => ?_)
      cases v with
      | ptr r => exact Acc.pure' _ _ _ (by perm_count)
      | _ => exact Good_resetPayloadL _
  | append t x tmp => exact Acc_withTmp _ _ _ _ (withX t _ (fun p => pushL p) ht (Acc_mkPayload x) Good_pushL)
  | appendMove t s =>
    simp only [stepBody]
    cases hs : sourceL env t s with
    | none => exact noop
    | some x => exact Acc_moveInto env t s x _ hs ht (Good_addValueL_move x)
  | appendCopy t s =>
    simp only [stepBody]
    cases hs : sourceL env t s with
    | none => exact noop
    | some x => exact here t _ ht (Good_addValueL_copy x)
  | appendObj t s =>
    simp only [stepBody]
    cases hs : sourceL env t s with
    | none => exact noop
    | some x =>
      cases x with
      | obj b c sl => exact withX t _ (fun p => addObjL p) ht (Acc_copyL _) Good_addObjL
      | _ => exact noop
  | appendArr t s =>
    simp only [stepBody]
    cases hs : sourceL env t s with
    | none => exact noop
    | some x =>
      cases x with
      | arr b c sl => exact withX t _ (fun p => addArrL p) ht (Acc_copyL _) Good_addArrL
      | _ => exact noop
  | addPtr t r =>
    cases r with
    | some r => exact here t _ ht (by simpa using Good_pushL (.ptr r))
    | none => exact here t _ ht (by simpa using Good_pushL .undef)
  | insert t k x =>
    exact withX t _ (fun p => updKeyL k KV.moved (replaceBy p)) ht (Acc_mkPayload x)
      (fun p => Good_updKeyL k KV.moved _ _ (Good_replaceBy p))
  | insertMove t k s =>
    simp only [stepBody]
    cases hs : sourceL env t s with
    | none => exact noop
    | some x => exact Acc_moveInto env t s x _ hs ht (Good_updKeyL k KV.moved _ _ (Good_replaceBy x))
  | mergeMove t s =>
    simp only [stepBody]
    cases hs : sourceL env t s with
    | none => exact noop
    | some x => exact Acc_moveInto env t s x _ hs ht (Good_mergeL_move x)
  | mergeCopy t s =>
    simp only [stepBody]
    cases hs : sourceL env t s with
    | none => exact noop
    | some x => exact here t _ ht (Good_mergeL_copy x)
  | remove t k tmp => exact Acc_withTmp _ _ _ _ (here t _ ht (Good_removeKeyL k))
  | removeIdx t i => exact here t _ ht (Good_removeIdxL i)
  | reset t => exact here t _ ht (Good_replaceBy_empty _ (by simp))
  | compress t => exact here t _ ht Good_compressL
  | clear t => exact here t _ ht Good_clearL
  | reserve t k n =>
    simp only [stepBody]
    refine Acc.bindF (ownedEnv env) (Acc_reserveL k n) (by perm_count) (fun r => ?_)
    cases r with
    | none => exact (here t _ ht Good_pure).permPre (by simp [optOwned])
    | some x => exact (Acc_onTargetL env t (replaceBy x) (owned x) (Good_replaceBy x) ht).permPre (by simp [optOwned]; perm_count)

theorem Acc_stepL (op : ValueLedger.LOp) (env : LEnv) : Acc (stepL op env) (ownedEnv env) (fun env' => ownedEnv env') := by
  unfold stepL
  split
  · rename_i h; exact Acc_stepBody op env h
  · exact Acc.pure' _ _ _ (List.Perm.refl _)

theorem Acc_runL : ∀ (ops : List ValueLedger.LOp) (env : LEnv),
    Acc (runL ops env) (ownedEnv env) (fun env' => ownedEnv env')
  | [], env => Acc.pure' _ _ _ (List.Perm.refl _)
  | op :: rest, env => Acc.bind (Acc_stepL op env) (fun env' => Acc_runL rest env')

theorem ownedItems_reverse (l : List LDoc) : (ownedItems l.reverse).Perm (ownedItems l) := by
  induction l with
  | nil => simp
  | cons a t ih =>
    simp only [List.reverse_cons, ownedItems_append, ownedItems_cons, ownedItems_nil, List.append_nil]
    perm_with ih

theorem Acc_destroyL (env : LEnv) : Acc (destroyL env) (ownedEnv env) (fun _ => []) :=
  (Acc_freeAll _).permPre (ownedItems_reverse env).symm

theorem ownedEnv_replicate_undef (n : Nat) : ownedEnv (List.replicate n .undef) = [] := by
  simp [ownedEnv]

end Qentem.ValueLedger
