import Qentem.Model.Json
/-! Safety and termination lemmas for the JSON parser model. -/
namespace Qentem.Json

theorem rd_ok (c : Array Nat) (i : Nat) (h : i < c.size) : rd c i = .ok c[i] := by
  simp [rd, h]; rfl

theorem trimLeft_ge (c : Array Nat) (o : Nat) : o ≤ trimLeft c o := by
  fun_induction trimLeft c o <;> omega

theorem trimLeft_le (c : Array Nat) (o : Nat) (h : o ≤ c.size) : trimLeft c o ≤ c.size := by
  fun_induction trimLeft c o <;> omega

theorem matchKeyword_ge (c : Array Nat) (o : Nat) (ks : List Nat) : o ≤ (matchKeyword c o ks).1 := by
  fun_induction matchKeyword c o ks <;> first | omega | simp

theorem matchKeyword_le (c : Array Nat) (o : Nat) (ks : List Nat) (h : o ≤ c.size) :
    (matchKeyword c o ks).1 ≤ c.size := by
  fun_induction matchKeyword c o ks <;> first | omega | simp_all

/-- A sub-parse started at `o` ended normally at some `o' ≤ n`, having advanced when `o < n`. -/
def Good (n o : Nat) (r : M (JVal × Nat)) : Prop :=
  ∃ v o', r = .ok (v, o') ∧ o' ≤ n ∧ o ≤ o' ∧ (o < n → o < o')

/-- A loop / container body started at `o` ended normally at some `o'` with `o ≤ o' ≤ n`. -/
def GoodL (n o : Nat) (r : M (JVal × Nat)) : Prop :=
  ∃ v o', r = .ok (v, o') ∧ o' ≤ n ∧ o ≤ o'

theorem goodL_pure (n o : Nat) (v : JVal) (o' : Nat) (h1 : o' ≤ n) (h2 : o ≤ o') :
    GoodL n o (pure (v, o')) := ⟨v, o', rfl, h1, h2⟩

theorem good_pure (n o : Nat) (v : JVal) (o' : Nat) (h1 : o' ≤ n) (h0 : o ≤ o') (h2 : o < n → o < o') :
    Good n o (pure (v, o')) := ⟨v, o', rfl, h1, h0, h2⟩

/-- Fuel needed by `parseValue` at offset `o`. -/
def needV (n o : Nat) : Nat := 3 * (n - o) + 1
/-- Fuel needed by a loop iteration at offset `o`. -/
def needL (n o : Nat) : Nat := 3 * (n - o) + 2
/-- Fuel needed by `parseObject` / `parseArray` at offset `o`. -/
def needC (n o : Nat) : Nat := 3 * (n - o) + 3

theorem arrLoop_step (d : Deps) (c : Array Nat) (fuel : Nat)
    (ihV : ∀ o, o ≤ c.size → needV c.size o ≤ fuel → Good c.size o (parseValue d c fuel o))
    (ihL : ∀ o items, o ≤ c.size → needL c.size o ≤ fuel → GoodL c.size o (arrLoop d c fuel o items)) :
    ∀ o items, o ≤ c.size → needL c.size o ≤ fuel + 1 → GoodL c.size o (arrLoop d c (fuel + 1) o items) := by
  intro o items ho hf
  unfold needV needL at *
  unfold arrLoop
  simp only []
  split
  · exact goodL_pure _ _ _ _ (Nat.le_refl _) ho
  · rename_i hlt
    obtain ⟨v, o1, h1, hle, hge1, hadv⟩ := ihV o ho (by omega)
    have hadv := hadv (by omega)
    rw [h1]
    simp only [bind, Except.bind]
    have t1 := trimLeft_ge c o1
    have t2 := trimLeft_le c o1 hle
    split
    · exact goodL_pure _ _ _ _ (Nat.le_refl _) ho
    · rename_i hlt2
      rw [rd_ok c _ (by omega)]
      simp only []
      split
      · have t3 := trimLeft_ge c (trimLeft c o1 + 1)
        have t4 := trimLeft_le c (trimLeft c o1 + 1) (by omega)
        obtain ⟨v', o', h', hle', hge'⟩ := ihL (trimLeft c (trimLeft c o1 + 1)) (v :: items) t4 (by omega)
        exact ⟨v', o', h', hle', by omega⟩
      · split
        · exact goodL_pure _ _ _ _ (by omega) (by omega)
        · exact goodL_pure _ _ _ _ (Nat.le_refl _) ho

theorem parseArray_step (d : Deps) (c : Array Nat) (fuel : Nat)
    (ihL : ∀ o items, o ≤ c.size → needL c.size o ≤ fuel → GoodL c.size o (arrLoop d c fuel o items)) :
    ∀ o, o ≤ c.size → needC c.size o ≤ fuel + 1 → GoodL c.size o (parseArray d c (fuel + 1) o) := by
  intro o ho hf
  unfold needL needC at *
  unfold parseArray
  simp only []
  have t1 := trimLeft_ge c o
  have t2 := trimLeft_le c o ho
  split
  · obtain ⟨v', o', h', hle', hge'⟩ := ihL (trimLeft c o) [] t2 (by omega)
    exact ⟨v', o', h', hle', by omega⟩
  · rw [rd_ok c _ (by omega)]
    simp only [bind, Except.bind]
    split
    · obtain ⟨v', o', h', hle', hge'⟩ := ihL (trimLeft c o) [] t2 (by omega)
      exact ⟨v', o', h', hle', by omega⟩
    · exact goodL_pure _ _ _ _ (by omega) (by omega)

theorem objLoop_step (d : Deps) (hd : DepsSafe d) (c : Array Nat) (fuel : Nat)
    (ihV : ∀ o, o ≤ c.size → needV c.size o ≤ fuel → Good c.size o (parseValue d c fuel o))
    (ihL : ∀ o ms, o ≤ c.size → needL c.size o ≤ fuel → GoodL c.size o (objLoop d c fuel o ms)) :
    ∀ o ms, o ≤ c.size → needL c.size o ≤ fuel + 1 → GoodL c.size o (objLoop d c (fuel + 1) o ms) := by
  intro o ms ho hf
  unfold needV needL at *
  unfold objLoop
  simp only []
  split
  · exact goodL_pure _ _ _ _ (Nat.le_refl _) ho
  · rename_i hlt
    rw [rd_ok c _ (by omega)]
    simp only [bind, Except.bind]
    split
    · exact goodL_pure _ _ _ _ (Nat.le_refl _) ho
    · obtain ⟨r, s, hu, hr⟩ := hd.unEscape_ok c (o + 1) (c.size - (o + 1)) (by omega)
      rw [hu]
      simp only []
      split
      · exact goodL_pure _ _ _ _ (Nat.le_refl _) ho
      · have t1 := trimLeft_ge c (o + 1 + r)
        have t2 := trimLeft_le c (o + 1 + r) (by omega)
        split
        · exact goodL_pure _ _ _ _ (Nat.le_refl _) ho
        · rw [rd_ok c _ (by omega)]
          simp only []
          split
          · exact goodL_pure _ _ _ _ (Nat.le_refl _) ho
          · have t3 := trimLeft_ge c (trimLeft c (o + 1 + r) + 1)
            have t4 := trimLeft_le c (trimLeft c (o + 1 + r) + 1) (by omega)
            obtain ⟨v, o1, h1, hle, hge1, hadv⟩ := ihV _ t4 (by omega)
            rw [h1]
            simp only []
            have t5 := trimLeft_ge c o1
            have t6 := trimLeft_le c o1 hle
            split
            · exact goodL_pure _ _ _ _ (Nat.le_refl _) ho
            · rw [rd_ok c _ (by omega)]
              simp only []
              split
              · have t7 := trimLeft_ge c (trimLeft c o1 + 1)
                have t8 := trimLeft_le c (trimLeft c o1 + 1) (by omega)
                obtain ⟨v', o', h', hle', hge'⟩ := ihL (trimLeft c (trimLeft c o1 + 1)) (objInsert ms (stringOf c (o + 1) r s) v) t8 (by omega)
                exact ⟨v', o', h', hle', by omega⟩
              · split
                · exact goodL_pure _ _ _ _ (by omega) (by omega)
                · exact goodL_pure _ _ _ _ (Nat.le_refl _) ho

theorem parseObject_step (d : Deps) (c : Array Nat) (fuel : Nat)
    (ihL : ∀ o ms, o ≤ c.size → needL c.size o ≤ fuel → GoodL c.size o (objLoop d c fuel o ms)) :
    ∀ o, o ≤ c.size → needC c.size o ≤ fuel + 1 → GoodL c.size o (parseObject d c (fuel + 1) o) := by
  intro o ho hf
  unfold needL needC at *
  unfold parseObject
  simp only []
  have t1 := trimLeft_ge c o
  have t2 := trimLeft_le c o ho
  split
  · obtain ⟨v', o', h', hle', hge'⟩ := ihL (trimLeft c o) [] t2 (by omega)
    exact ⟨v', o', h', hle', by omega⟩
  · rw [rd_ok c _ (by omega)]
    simp only [bind, Except.bind]
    split
    · obtain ⟨v', o', h', hle', hge'⟩ := ihL (trimLeft c o) [] t2 (by omega)
      exact ⟨v', o', h', hle', by omega⟩
    · exact goodL_pure _ _ _ _ (by omega) (by omega)

theorem good_kw (c : Array Nat) (o : Nat) (hlt : o < c.size) (v : JVal) (ks : List Nat) :
    Good c.size o (if (matchKeyword c (o + 1) ks).snd.isEmpty = true then
      pure (v, (matchKeyword c (o + 1) ks).fst) else pure (JVal.undef, c.size)) := by
  have m1 := matchKeyword_ge c (o + 1) ks
  have m2 := matchKeyword_le c (o + 1) ks (by omega)
  split
  · exact good_pure _ _ _ _ m2 (by omega) (by omega)
  · exact good_pure _ _ _ _ (Nat.le_refl _) (by omega) (by omega)

theorem parseValue_step (d : Deps) (hd : DepsSafe d) (c : Array Nat) (hsz : c.size < 2 ^ 32) (fuel : Nat)
    (ihA : ∀ o, o ≤ c.size → needC c.size o ≤ fuel → GoodL c.size o (parseArray d c fuel o))
    (ihO : ∀ o, o ≤ c.size → needC c.size o ≤ fuel → GoodL c.size o (parseObject d c fuel o)) :
    ∀ o, o ≤ c.size → needV c.size o ≤ fuel + 1 → Good c.size o (parseValue d c (fuel + 1) o) := by
  intro o ho hf
  unfold needV needC at *
  unfold parseValue
  simp only []
  split
  · exact good_pure _ _ _ _ (Nat.le_refl _) ho (by omega)
  · rename_i hlt
    rw [rd_ok c _ (by omega)]
    simp only [bind, Except.bind]
    split
    · obtain ⟨v', o', h', hle', hge'⟩ := ihO (o + 1) (by omega) (by omega)
      exact ⟨v', o', h', hle', by omega, by omega⟩
    · split
      · obtain ⟨v', o', h', hle', hge'⟩ := ihA (o + 1) (by omega) (by omega)
        exact ⟨v', o', h', hle', by omega, by omega⟩
      · split
        · obtain ⟨r, s, hu, hr⟩ := hd.unEscape_ok c (o + 1) (c.size - (o + 1)) (by omega)
          rw [hu]
          simp only []
          split
          · exact good_pure _ _ _ _ (by omega) (by omega) (by omega)
          · exact good_pure _ _ _ _ (Nat.le_refl _) ho (by omega)
        · split
          · exact good_kw c o (by omega) _ _
          · split
            · exact good_kw c o (by omega) _ _
            · split
              · exact good_kw c o (by omega) _ _
              · obtain ⟨r, hr, hk⟩ := hd.strToNum_ok c o hsz (by omega)
                rw [hr]
                simp only []
                split
                · rename_i hkind; have := hk (by simp [hkind]); exact good_pure _ _ _ _ (by omega) (by omega) (by omega)
                · rename_i hkind; have := hk (by simp [hkind]); exact good_pure _ _ _ _ (by omega) (by omega) (by omega)
                · rename_i hkind; have := hk (by simp [hkind]); exact good_pure _ _ _ _ (by omega) (by omega) (by omega)
                · exact good_pure _ _ _ _ (Nat.le_refl _) (by omega) (by omega)

/-- All five routines run to completion inside the buffer when given enough fuel. -/
theorem all_good (d : Deps) (hd : DepsSafe d) (c : Array Nat) (hsz : c.size < 2 ^ 32) : ∀ fuel,
    (∀ o, o ≤ c.size → needV c.size o ≤ fuel → Good c.size o (parseValue d c fuel o)) ∧
    (∀ o, o ≤ c.size → needC c.size o ≤ fuel → GoodL c.size o (parseArray d c fuel o)) ∧
    (∀ o, o ≤ c.size → needC c.size o ≤ fuel → GoodL c.size o (parseObject d c fuel o)) ∧
    (∀ o items, o ≤ c.size → needL c.size o ≤ fuel → GoodL c.size o (arrLoop d c fuel o items)) ∧
    (∀ o ms, o ≤ c.size → needL c.size o ≤ fuel → GoodL c.size o (objLoop d c fuel o ms)) := by
  intro fuel
  induction fuel with
  | zero =>
    refine ⟨?_, ?_, ?_, ?_, ?_⟩ <;> intros <;> simp [needV, needC, needL] at *
  | succ fuel ih =>
    obtain ⟨ihV, ihA, ihO, ihAL, ihOL⟩ := ih
    exact ⟨parseValue_step d hd c hsz fuel ihA ihO, parseArray_step d c fuel ihAL,
      parseObject_step d c fuel ihOL, arrLoop_step d c fuel ihV ihAL, objLoop_step d hd c fuel ihV ihOL⟩

/-- C05 core: for every input and every pair of helper routines satisfying `DepsSafe`, the
parser returns a value — it never reads outside `[0, length)` and never runs out of fuel. -/
theorem parse_no_fault (d : Deps) (hd : DepsSafe d) (c : Array Nat) (hsz : c.size < 2 ^ 32) : ∃ v, parse d c = .ok v := by
  unfold parse
  simp only []
  split
  · exact ⟨_, rfl⟩
  · have t1 := trimLeft_le c 0 (Nat.zero_le _)
    obtain ⟨v, o', h, _, _, _⟩ := (all_good d hd c hsz (fuelFor c)).1 (trimLeft c 0) t1 (by unfold needV fuelFor; omega)
    rw [h]
    simp only [bind, Except.bind]
    split <;> exact ⟨_, rfl⟩

end Qentem.Json
