import Qentem.Model.Json
/-! Safety and termination lemmas for the JSON parser model. -/
namespace Qentem.Json

theorem rd_ok (c : Array Nat) (i : Nat) (h : i < c.size) : rd c i = .ok c[i] := by
  simp [rd, h]; rfl

theorem trimLeft_ge (c : Array Nat) (o : Nat) : o ≤ trimLeft c o := by
  fun_induction trimLeft c o <;> omega

theorem trimLeft_le (c : Array Nat) (o : Nat) (h : o ≤ c.size) : trimLeft c o ≤ c.size := by
  fun_induction trimLeft c o <;> omega

theorem matchKeyword_ge (c : Array Nat) (o : Nat) (ks : List Nat) : o ≤ (matchKeyword c o ks).1 := by
  fun_induction matchKeyword c o ks <;> simp_all <;> omega

theorem matchKeyword_le (c : Array Nat) (o : Nat) (ks : List Nat) (h : o ≤ c.size) :
    (matchKeyword c o ks).1 ≤ c.size := by
  fun_induction matchKeyword c o ks <;> simp_all <;> omega

/-- A sub-parse started at `o` ended normally at some `o' ≤ n`, having advanced when `o < n`. -/
def Good (n o : Nat) (r : M (JVal × Nat)) : Prop :=
  ∃ v o', r = .ok (v, o') ∧ o' ≤ n ∧ (o < n → o < o')

/-- A loop / container body started at `o` ended normally at some `o'` with `o ≤ o' ≤ n`. -/
def GoodL (n o : Nat) (r : M (JVal × Nat)) : Prop :=
  ∃ v o', r = .ok (v, o') ∧ o' ≤ n ∧ o ≤ o'

end Qentem.Json
