/-!
# Explicit-heap A-model of `Array::operator+=(const Array &src)` (Array.hpp:131-150)

The value-level model (`Model/Seq.lean`) reads the source before it updates the destination, so it
cannot exhibit an ordering defect between the two when they are the same object.  This file models
just that one function over an explicit heap (blocks of cells, object records `{ptr, size, cap}` in a
table, so `src` may be the destination), once with the statement order the tree had before commit 5f6da32
(`appendShipped`) and once with the order of that commit (`appendPatched`, the current code), in
checked semantics (`Except Fault`).

Proved for every list and capacity: `patched_self_append : PatchedSelfAppend` (loop invariant
`copyLoop_self` over the heap).  By kernel evaluation on concrete worlds (labelled tests, `decide`,
names ending `_partial`): the old order writes past the block on `a += a` with an exact-fit block,
over-copies inside spare capacity, and is correct for distinct objects.
-/
namespace Qentem.SeqAlias

inductive Fault where
  | nullDeref | oobRead | oobWrite | useAfterFree | uninitRead
deriving DecidableEq, Repr

instance {β : Type} [DecidableEq β] : DecidableEq (Except Fault β) := fun a b =>
  match a, b with
  | .ok x, .ok y => if h : x = y then isTrue (by rw [h]) else isFalse (by intro e; cases e; exact h rfl)
  | .error x, .error y => if h : x = y then isTrue (by rw [h]) else isFalse (by intro e; cases e; exact h rfl)
  | .ok _, .error _ => isFalse (by intro e; cases e)
  | .error _, .ok _ => isFalse (by intro e; cases e)

structure Obj where
  ptr : Option Nat     -- block id
  size : Nat
  cap : Nat
deriving DecidableEq, Repr

/-- A heap block: `none` once freed; a cell is `none` until constructed. -/
abbrev Block := Option (List (Option Nat))

structure World where
  objs : List Obj
  heap : List Block
deriving DecidableEq, Repr

def getObj (w : World) (r : Nat) : Except Fault Obj :=
  match w.objs[r]? with
  | some o => .ok o
  | none => .error .nullDeref

def setObj (w : World) (r : Nat) (o : Obj) : World := { w with objs := w.objs.set r o }

/-- `Memory::Allocate(n)`: a fresh block of `n` unconstructed cells. -/
def alloc (w : World) (n : Nat) : World × Nat :=
  ({ w with heap := w.heap ++ [some (List.replicate n none)] }, w.heap.length)

def free (w : World) (p : Option Nat) : World :=
  match p with
  | none => w
  | some b => { w with heap := w.heap.set b none }

def readCell (w : World) (p : Option Nat) (i : Nat) : Except Fault Nat :=
  match p with
  | none => .error .nullDeref
  | some b =>
    match w.heap[b]? with
    | some (some cells) =>
      match cells[i]? with
      | some (some v) => .ok v
      | some none => .error .uninitRead
      | none => .error .oobRead
    | _ => .error .useAfterFree

def writeCell (w : World) (p : Option Nat) (i v : Nat) : Except Fault World :=
  match p with
  | none => .error .nullDeref
  | some b =>
    match w.heap[b]? with
    | some (some cells) =>
      if i < cells.length then .ok { w with heap := w.heap.set b (some (cells.set i (some v))) }
      else .error .oobWrite
    | _ => .error .useAfterFree

/-- Raw `Memory::Copy` of the first `n` cells (constructed or not) of block `from` into block `to`. -/
def rawCopy (w : World) (to frm : Option Nat) (n : Nat) : Except Fault World :=
  if n = 0 then .ok w else
  match to, frm with
  | some t, some f =>
    match w.heap[t]?, w.heap[f]? with
    | some (some tc), some (some fc) =>
      if n ≤ tc.length ∧ n ≤ fc.length then .ok { w with heap := w.heap.set t (some (fc.take n ++ tc.drop n)) }
      else .error .oobWrite
    | _, _ => .error .useAfterFree
  | _, _ => .error .nullDeref

/-- private `resize(new_size)` (372-381) of object `r`. -/
def resize (w : World) (r n : Nat) : Except Fault World := do
  let o ← getObj w r
  let (w1, b) := alloc w n
  let w2 := setObj w1 r { o with ptr := some b, cap := n }
  let w3 ← rawCopy w2 (some b) o.ptr o.size
  pure (free w3 o.ptr)

/-- The copy loop `while (src_item < src_end) { Initialize(storage, *src_item); ++storage; ++src_item; }`
as `k` rounds from source cell `i` to destination cell `j`. -/
def copyLoop (w : World) (dst src : Option Nat) : Nat → Nat → Nat → Except Fault World
  | 0, _, _ => .ok w
  | k + 1, i, j => do
    let v ← readCell w src i
    let w' ← writeCell w dst j v
    copyLoop w' dst src k (i + 1) (j + 1)

/-- The function as it was between ea6fc6e and 5f6da32: `src.Size()` is read three times; the third
read comes after `index_ += …`. -/
def appendShipped (w : World) (r s : Nat) : Except Fault World := do
  let d ← getObj w r
  let sr ← getObj w s
  let nSize := d.size + sr.size                          -- n_size = Size() + src.Size()
  let w1 ← if nSize > d.cap then resize w r nSize else pure w
  let d1 ← getObj w1 r
  let off := d1.size                                      -- storage = Storage() + Size()
  let s1 ← getObj w1 s
  let w2 := setObj w1 r { d1 with size := d1.size + s1.size }   -- index_ += src.Size()
  let s2 ← getObj w2 s                                    -- src.First(), src.Size() read again
  copyLoop w2 d1.ptr s2.ptr s2.size 0 off

/-- The current code (5f6da32): `src.Size()` is read once, before anything moves. -/
def appendPatched (w : World) (r s : Nat) : Except Fault World := do
  let d ← getObj w r
  let sr ← getObj w s
  let srcSize := sr.size
  let nSize := d.size + srcSize
  let w1 ← if nSize > d.cap then resize w r nSize else pure w
  let d1 ← getObj w1 r
  let off := d1.size
  let s1 ← getObj w1 s                                    -- src.First() after the reallocation
  let w2 := setObj w1 r { d1 with size := d1.size + srcSize }
  copyLoop w2 d1.ptr s1.ptr srcSize 0 off

/-- The constructed items of object `r` (`none` if a cell in `[0, size)` is missing or unconstructed). -/
def content (w : World) (r : Nat) : Option (List Nat) :=
  match w.objs[r]? with
  | some o =>
    match o.ptr with
    | none => if o.size = 0 then some [] else none
    | some b =>
      match w.heap[b]? with
      | some (some cells) => if o.size ≤ cells.length then (cells.take o.size).mapM id else none
      | _ => none
  | none => none

/-- Constructed cells beyond `size` (items that will never be destroyed — a leak for owning types). -/
def strayCells (w : World) (r : Nat) : Nat :=
  match w.objs[r]? with
  | some o =>
    match o.ptr with
    | some b =>
      match w.heap[b]? with
      | some (some cells) => ((cells.drop o.size).filter Option.isSome).length
      | _ => 0
    | none => 0
  | none => 0

/-- A world with one array holding `l` in a block of `cap` cells (object 0) and a second one holding `m`. -/
def world (l : List Nat) (cap : Nat) (m : List Nat) : World :=
  { objs := [⟨some 0, l.length, cap⟩, ⟨some 1, m.length, m.length⟩],
    heap := [some (l.map some ++ List.replicate (cap - l.length) none), some (m.map some)] }

def outcome (r : Except Fault World) (obj : Nat) : Except Fault (Option (List Nat) × Nat) :=
  r.map fun w => (content w obj, strayCells w obj)

/-- The full-strength statement for the repaired function (proved below: `patched_self_append`). -/
def PatchedSelfAppend : Prop :=
  ∀ (l : List Nat) (cap : Nat), l.length ≤ cap →
    outcome (appendPatched (world l cap []) 0 0) 0 = .ok (some (l ++ l), 0)

/-! ### Instances (tests by kernel evaluation) -/

/-- `a=[1,2,3]` exact fit, `a += a`, current order: write past the new 6-cell block. -/
theorem shipped_self_append_overflows_partial :
    appendShipped (world [1, 2, 3] 3 []) 0 0 = .error .oobWrite := by decide

/-- Same with spare capacity (8 cells): no fault, size 4 is right, but two surplus items were
constructed beyond `size`. -/
theorem shipped_self_append_overcopies_partial :
    outcome (appendShipped (world [1, 2] 8 []) 0 0) 0 = .ok (some [1, 2, 1, 2], 2) := by decide

/-- Distinct objects: the current order is right (this is what ea6fc6e repaired). -/
theorem shipped_distinct_ok_partial :
    outcome (appendShipped (world [1, 2] 2 [3, 4]) 0 1) 0 = .ok (some [1, 2, 3, 4], 0) := by decide

/-- Patched order: `l ++ l`, nothing stray — across a reallocation and inside spare capacity. -/
theorem patched_self_append_partial :
    outcome (appendPatched (world [1, 2, 3] 3 []) 0 0) 0 = .ok (some [1, 2, 3, 1, 2, 3], 0) ∧
    outcome (appendPatched (world [1, 2] 8 []) 0 0) 0 = .ok (some [1, 2, 1, 2], 0) ∧
    outcome (appendPatched (world [] 0 []) 0 0) 0 = .ok (some [], 0) ∧
    outcome (appendPatched (world [1, 2] 2 [3, 4]) 0 1) 0 = .ok (some [1, 2, 3, 4], 0) := by decide

/-! ### The general statement -/

theorem set_same_of_get {α : Type} (l : List α) (b : Nat) (x : α) (h : l[b]? = some x) : l.set b x = l := by
  have hb : b < l.length := by
    rcases Nat.lt_or_ge b l.length with h1 | h1
    · exact h1
    · rw [List.getElem?_eq_none h1] at h; simp at h
  rw [List.getElem?_eq_getElem hb] at h
  injection h with h
  rw [← h]; exact List.set_getElem_self hb

theorem copyLoop_self (l : List Nat) (b : Nat) : ∀ (k i m : Nat) (w : World), i + k = l.length → k ≤ m →
    w.heap[b]? = some (some (l.map some ++ (l.take i).map some ++ List.replicate m none)) →
    ∃ w', copyLoop w (some b) (some b) k i (l.length + i) = .ok w' ∧ w'.objs = w.objs ∧
      w'.heap = w.heap.set b (some (l.map some ++ l.map some ++ List.replicate (m - k) none)) := by
  intro k
  induction k with
  | zero =>
    intro i m w hik _ hb
    have : i = l.length := by omega
    subst this
    refine ⟨w, rfl, rfl, ?_⟩
    rw [List.take_length] at hb
    simp only [Nat.sub_zero]
    exact (set_same_of_get _ _ _ hb).symm
  | succ k ih =>
    intro i m w hik hkm hb
    have hi : i < l.length := by omega
    have hbl : b < w.heap.length := by
      rcases Nat.lt_or_ge b w.heap.length with h1 | h1
      · exact h1
      · rw [List.getElem?_eq_none h1] at hb; simp at hb
    obtain ⟨m', rfl⟩ : ∃ m', m = m' + 1 := ⟨m - 1, by omega⟩
    have hread : readCell w (some b) i = .ok l[i] := by
      simp only [readCell, hb]
      rw [List.append_assoc, List.getElem?_append_left (by simp; exact hi)]
      simp [hi]
    let cells := l.map some ++ (l.take i).map some ++ List.replicate (m' + 1) (none : Option Nat)
    have hlen : l.length + i < cells.length := by simp [cells]; omega
    have hset : cells.set (l.length + i) (some l[i]) =
        l.map some ++ (l.take (i + 1)).map some ++ List.replicate m' none := by
      have h1 : (l.map some ++ (l.take i).map some).length = l.length + i := by simp; omega
      simp only [cells]
      rw [List.set_append_right _ _ (by omega), h1, Nat.sub_self, List.replicate_succ, List.set_cons_zero]
      have e : (l.take (i + 1)).map some = (l.take i).map some ++ [some l[i]] := by
        rw [List.take_succ_eq_append_getElem hi, List.map_append]; rfl
      rw [e]; simp only [List.append_assoc, List.cons_append, List.nil_append]
    have hwrite : writeCell w (some b) (l.length + i) l[i] =
        .ok { w with heap := w.heap.set b (some (l.map some ++ (l.take (i + 1)).map some ++ List.replicate m' none)) } := by
      simp only [writeCell, hb]
      rw [if_pos hlen, hset]
    obtain ⟨w', h1, h2, h3⟩ := ih (i + 1) m'
      { w with heap := w.heap.set b (some (l.map some ++ (l.take (i + 1)).map some ++ List.replicate m' none)) }
      (by omega) (by omega) (by simp [hbl])
    refine ⟨w', ?_, by simpa using h2, ?_⟩
    · simp only [copyLoop, hread, bind, Except.bind, hwrite]
      exact h1
    · rw [h3]; simp [List.set_set]

theorem mapM_id_some (l : List Nat) : (l.map some).mapM id = some l := by
  induction l with
  | nil => rfl
  | cons a t ih => simp [List.mapM_cons, ih]

/-- What `outcome` reports for object 0 once its block holds `l ++ l` followed by unconstructed cells. -/
theorem outcome_done (l : List Nat) (w : World) (b cap m : Nat) (o1 : Obj)
    (hobjs : w.objs = [⟨some b, l.length + l.length, cap⟩, o1])
    (hheap : w.heap[b]? = some (some (l.map some ++ l.map some ++ List.replicate m none))) :
    outcome (.ok w) 0 = .ok (some (l ++ l), 0) := by
  have e1 : (l.map some ++ l.map some ++ List.replicate m (none : Option Nat)).take (l.length + l.length) = (l ++ l).map some := by
    rw [List.take_left' (by simp)]; simp
  have e2 : (l.map some ++ l.map some ++ List.replicate m (none : Option Nat)).drop (l.length + l.length) = List.replicate m none := by
    rw [List.drop_left' (by simp)]
  simp only [outcome, Except.map, content, strayCells, hobjs, List.getElem?_cons_zero, hheap, e1, e2, mapM_id_some]
  have e3 : l.length + l.length ≤ (l.map some ++ l.map some ++ List.replicate m (none : Option Nat)).length := by simp
  rw [if_pos e3]
  simp

/-- **`a += a` at heap level, for every content and capacity**: the current statement order never faults,
leaves `l ++ l` in the object and no constructed cell beyond `size` — across a reallocation and in place. -/
theorem patched_self_append : PatchedSelfAppend := by
  intro l cap hcap
  by_cases hg : l.length + l.length > cap
  · -- reallocation: new block 2, old block 0 released
    have hn : l.length ≠ 0 := by omega
    have hloop := copyLoop_self l 2 l.length 0 l.length
      { objs := [⟨some 2, l.length + l.length, l.length + l.length⟩, ⟨some 1, 0, 0⟩],
        heap := [none, some [], some (l.map some ++ List.replicate l.length none)] }
      (by omega) (by omega) (by simp)
    obtain ⟨w', h1, h2, h3⟩ := hloop
    have hrun : appendPatched (world l cap []) 0 0 = .ok w' := by
      simp only [Nat.add_zero] at h1
      rw [← h1]
      simp [appendPatched, getObj, world, hg, bind, Except.bind, pure, Except.pure, setObj, resize, alloc, rawCopy, hn, free]
    rw [hrun]
    exact outcome_done l w' 2 (l.length + l.length) (l.length - l.length) _ h2 (by rw [h3]; simp)
  · -- in place
    have hloop := copyLoop_self l 0 l.length 0 (cap - l.length)
      { objs := [⟨some 0, l.length + l.length, cap⟩, ⟨some 1, 0, 0⟩],
        heap := [some (l.map some ++ List.replicate (cap - l.length) none), some []] }
      (by omega) (by omega) (by simp)
    obtain ⟨w', h1, h2, h3⟩ := hloop
    have hrun : appendPatched (world l cap []) 0 0 = .ok w' := by
      simp only [Nat.add_zero] at h1
      rw [← h1]
      simp [appendPatched, getObj, world, hg, bind, Except.bind, pure, Except.pure, setObj]
    rw [hrun]
    exact outcome_done l w' 0 cap (cap - l.length - l.length) _ h2 (by rw [h3]; simp)

end Qentem.SeqAlias
