/-!
# Explicit-heap A-model of `Array::operator+=(const Array &src)` (Array.hpp:131-150)

The value-level model (`Model/Seq.lean`) reads the source before it updates the destination, so it
cannot exhibit an ordering defect between the two when they are the same object.  This file models
just that one function over an explicit heap (blocks of cells, object records `{ptr, size, cap}` in a
table, so `src` may be the destination), once with the statement order the tree had before commit 5f6da32
(`appendShipped`) and once with the order of that commit (`appendPatched`, the current code), in
checked semantics (`Except Fault`).

What is proved here is by kernel evaluation on concrete worlds (labelled tests, `decide`): the shipped
order writes past the block on `a += a` with an exact-fit block, over-copies inside spare capacity, and
is correct for distinct objects; the patched order gives `l ++ l`.  The general statement for the
patched order is kept as `PatchedSelfAppend : Prop` (not proved — the loop invariant over the heap was
not done); the `_partial` theorems are its instances.
-/
namespace Qentem.SeqAlias

inductive Fault where
  | nullDeref | oobRead | oobWrite | useAfterFree | uninitRead
deriving DecidableEq, Repr

instance {β : Type} [DecidableEq β] : DecidableEq (Except Fault β) := fun a b =>
  match a, b with
  | .ok x, .ok y => if h : x = y then isTrue (by rw [h]) else isFalse (by intro e; cases e; exact h rfl)
  | .error x, .error y => if h : x = y then isTrue (by rw [h]) else isFalse (by intro e; cases e; exact h rfl)
  | .ok _, .error _ => isFalse (by intro e; cases e)
  | .error _, .ok _ => isFalse (by intro e; cases e)

structure Obj where
  ptr : Option Nat     -- block id
  size : Nat
  cap : Nat
deriving DecidableEq, Repr

/-- A heap block: `none` once freed; a cell is `none` until constructed. -/
abbrev Block := Option (List (Option Nat))

structure World where
  objs : List Obj
  heap : List Block
deriving DecidableEq, Repr

def getObj (w : World) (r : Nat) : Except Fault Obj :=
  match w.objs[r]? with
  | some o => .ok o
  | none => .error .nullDeref

def setObj (w : World) (r : Nat) (o : Obj) : World := { w with objs := w.objs.set r o }

/-- `Memory::Allocate(n)`: a fresh block of `n` unconstructed cells. -/
def alloc (w : World) (n : Nat) : World × Nat :=
  ({ w with heap := w.heap ++ [some (List.replicate n none)] }, w.heap.length)

def free (w : World) (p : Option Nat) : World :=
  match p with
  | none => w
  | some b => { w with heap := w.heap.set b none }

def readCell (w : World) (p : Option Nat) (i : Nat) : Except Fault Nat :=
  match p with
  | none => .error .nullDeref
  | some b =>
    match w.heap[b]? with
    | some (some cells) =>
      match cells[i]? with
      | some (some v) => .ok v
      | some none => .error .uninitRead
      | none => .error .oobRead
    | _ => .error .useAfterFree

def writeCell (w : World) (p : Option Nat) (i v : Nat) : Except Fault World :=
  match p with
  | none => .error .nullDeref
  | some b =>
    match w.heap[b]? with
    | some (some cells) =>
      if i < cells.length then .ok { w with heap := w.heap.set b (some (cells.set i (some v))) }
      else .error .oobWrite
    | _ => .error .useAfterFree

/-- Raw `Memory::Copy` of the first `n` cells (constructed or not) of block `from` into block `to`. -/
def rawCopy (w : World) (to frm : Option Nat) (n : Nat) : Except Fault World :=
  if n = 0 then .ok w else
  match to, frm with
  | some t, some f =>
    match w.heap[t]?, w.heap[f]? with
    | some (some tc), some (some fc) =>
      if n ≤ tc.length ∧ n ≤ fc.length then .ok { w with heap := w.heap.set t (some (fc.take n ++ tc.drop n)) }
      else .error .oobWrite
    | _, _ => .error .useAfterFree
  | _, _ => .error .nullDeref

/-- private `resize(new_size)` (372-381) of object `r`. -/
def resize (w : World) (r n : Nat) : Except Fault World := do
  let o ← getObj w r
  let (w1, b) := alloc w n
  let w2 := setObj w1 r { o with ptr := some b, cap := n }
  let w3 ← rawCopy w2 (some b) o.ptr o.size
  pure (free w3 o.ptr)

/-- The copy loop `while (src_item < src_end) { Initialize(storage, *src_item); ++storage; ++src_item; }`
as `k` rounds from source cell `i` to destination cell `j`. -/
def copyLoop (w : World) (dst src : Option Nat) : Nat → Nat → Nat → Except Fault World
  | 0, _, _ => .ok w
  | k + 1, i, j => do
    let v ← readCell w src i
    let w' ← writeCell w dst j v
    copyLoop w' dst src k (i + 1) (j + 1)

/-- The function as it was between ea6fc6e and 5f6da32: `src.Size()` is read three times; the third
read comes after `index_ += …`. -/
def appendShipped (w : World) (r s : Nat) : Except Fault World := do
  let d ← getObj w r
  let sr ← getObj w s
  let nSize := d.size + sr.size                          -- n_size = Size() + src.Size()
  let w1 ← if nSize > d.cap then resize w r nSize else pure w
  let d1 ← getObj w1 r
  let off := d1.size                                      -- storage = Storage() + Size()
  let s1 ← getObj w1 s
  let w2 := setObj w1 r { d1 with size := d1.size + s1.size }   -- index_ += src.Size()
  let s2 ← getObj w2 s                                    -- src.First(), src.Size() read again
  copyLoop w2 d1.ptr s2.ptr s2.size 0 off

/-- The current code (5f6da32): `src.Size()` is read once, before anything moves. -/
def appendPatched (w : World) (r s : Nat) : Except Fault World := do
  let d ← getObj w r
  let sr ← getObj w s
  let srcSize := sr.size
  let nSize := d.size + srcSize
  let w1 ← if nSize > d.cap then resize w r nSize else pure w
  let d1 ← getObj w1 r
  let off := d1.size
  let s1 ← getObj w1 s                                    -- src.First() after the reallocation
  let w2 := setObj w1 r { d1 with size := d1.size + srcSize }
  copyLoop w2 d1.ptr s1.ptr srcSize 0 off

/-- The constructed items of object `r` (`none` if a cell in `[0, size)` is missing or unconstructed). -/
def content (w : World) (r : Nat) : Option (List Nat) :=
  match w.objs[r]? with
  | some o =>
    match o.ptr with
    | none => if o.size = 0 then some [] else none
    | some b =>
      match w.heap[b]? with
      | some (some cells) => if o.size ≤ cells.length then (cells.take o.size).mapM id else none
      | _ => none
  | none => none

/-- Constructed cells beyond `size` (items that will never be destroyed — a leak for owning types). -/
def strayCells (w : World) (r : Nat) : Nat :=
  match w.objs[r]? with
  | some o =>
    match o.ptr with
    | some b =>
      match w.heap[b]? with
      | some (some cells) => ((cells.drop o.size).filter Option.isSome).length
      | _ => 0
    | none => 0
  | none => 0

/-- A world with one array holding `l` in a block of `cap` cells (object 0) and a second one holding `m`. -/
def world (l : List Nat) (cap : Nat) (m : List Nat) : World :=
  { objs := [⟨some 0, l.length, cap⟩, ⟨some 1, m.length, m.length⟩],
    heap := [some (l.map some ++ List.replicate (cap - l.length) none), some (m.map some)] }

def outcome (r : Except Fault World) (obj : Nat) : Except Fault (Option (List Nat) × Nat) :=
  r.map fun w => (content w obj, strayCells w obj)

/-- The full-strength statement for the repaired function (stated, not proved in general). -/
def PatchedSelfAppend : Prop :=
  ∀ (l : List Nat) (cap : Nat), l.length ≤ cap →
    outcome (appendPatched (world l cap []) 0 0) 0 = .ok (some (l ++ l), 0)

/-! ### Instances (tests by kernel evaluation) -/

/-- `a=[1,2,3]` exact fit, `a += a`, current order: write past the new 6-cell block. -/
theorem shipped_self_append_overflows_partial :
    appendShipped (world [1, 2, 3] 3 []) 0 0 = .error .oobWrite := by decide

/-- Same with spare capacity (8 cells): no fault, size 4 is right, but two surplus items were
constructed beyond `size`. -/
theorem shipped_self_append_overcopies_partial :
    outcome (appendShipped (world [1, 2] 8 []) 0 0) 0 = .ok (some [1, 2, 1, 2], 2) := by decide

/-- Distinct objects: the current order is right (this is what ea6fc6e repaired). -/
theorem shipped_distinct_ok_partial :
    outcome (appendShipped (world [1, 2] 2 [3, 4]) 0 1) 0 = .ok (some [1, 2, 3, 4], 0) := by decide

/-- Patched order: `l ++ l`, nothing stray — across a reallocation and inside spare capacity. -/
theorem patched_self_append_partial :
    outcome (appendPatched (world [1, 2, 3] 3 []) 0 0) 0 = .ok (some [1, 2, 3, 1, 2, 3], 0) ∧
    outcome (appendPatched (world [1, 2] 8 []) 0 0) 0 = .ok (some [1, 2, 1, 2], 0) ∧
    outcome (appendPatched (world [] 0 []) 0 0) 0 = .ok (some [], 0) ∧
    outcome (appendPatched (world [1, 2] 2 [3, 4]) 0 1) 0 = .ok (some [1, 2, 3, 4], 0) := by decide

end Qentem.SeqAlias
