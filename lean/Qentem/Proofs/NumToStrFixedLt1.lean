import Qentem.Proofs.NumToStrDefaultFrac
/-! C10 helper, values below one: `formatFixed_lt1` (model: `formatStringNumberFixed` on a pure fraction, all
layouts), `decode64_lt1`, `runSpec_lt1`, `run_lt1_64` (the digit run of a double below one),
`long_fraction_lt1_64`, `fixed_all_64`: **Fixed and SemiFixed for every finite double**. -/
set_option linter.unusedSimpArgs false
set_option linter.unusedVariables false
namespace Qentem.Proofs.NumToStr
open Qentem.NumToStr Qentem.Generated.NumToStr Qentem

/-! ### `formatStringNumberFixed` on the run of a value below one -/

theorem fixedText_zero (p : Nat) : fixedText 0 p = 48 :: (if p = 0 then [] else 46 :: List.replicate p 48) := by
  unfold fixedText
  rw [Nat.zero_div, Nat.zero_mod, Dk_zero]; rfl

/-- the tail of the formatter once the whole run was replaced by a single zero -/
theorem zero_tail (fixedT : Bool) (s t : List Nat) (p fl : Nat) (ht : 0 < t.length) (hp : p ≤ 1048576) :
    (finishNumber s.length (s ++ t.set (t.length - 1) 48) (s.length + (t.length - 1)) >>= fun s' =>
      if fixedT then fixedPad s.length s' (s.length + (t.length - 1)) p fl true false else pure s') =
    .ok (s ++ (if fixedT then fixedText 0 p else FmtSpec.stripFraction (fixedText 0 p))) := by
  rw [finishNumber_drop s _ (t.length - 1) (by simp), ok_bind]
  have e1 : (t.set (t.length - 1) 48).drop (t.length - 1) = [48] := by
    rw [drop_set_self _ _ _ (by omega), List.drop_of_length_le (by omega)]
  rw [e1, fixedText_zero]
  cases fixedT
  · simp only [Bool.false_eq_true, if_false, pure, Except.pure]
    have := stripFraction_int 0 p
    rw [show D 0 = [48] by decide] at this
    rw [show (48 :: (if p = 0 then [] else 46 :: List.replicate p 48) : List Nat) =
      [48] ++ (if p = 0 then [] else 46 :: List.replicate p 48) by rfl, this]; rfl
  · simp only [if_true]
    unfold fixedPad
    by_cases hp0 : p = 0
    · simp [hp0, pure, Except.pure]
    · have hc : (s.length + fl = s.length + (t.length - 1) ∨ (s ++ [48].reverse).length - s.length = 1 ∨
          (!true) = true ∧ false = true) := by right; left; simp
      rw [if_neg hp0, if_pos hc, zerosLarge_ok hp, ok_bind]
      simp [hp0, Ch.dot, pure, Except.pure]


theorem fixedText_small {T p d w : Nat} (hT0 : 0 < T) (hp : p = d + (D T).length + w) :
    fixedText (T * 10 ^ w) p = 48 :: 46 :: (Dk (d + (D T).length) T ++ List.replicate w 48) ∧
    Dk (d + (D T).length) T = List.replicate d 48 ++ D T := by
  have hLpos : 0 < (D T).length := List.length_pos_iff.mpr (D_ne_nil T)
  have hT : T < 10 ^ (D T).length := (D_length_le_iff hLpos).mp (Nat.le_refl _)
  have hT2 : T < 10 ^ (d + (D T).length) :=
    lt_of_lt_of_le hT (Nat.pow_le_pow_right (by decide) (by omega))
  have hK : T * 10 ^ w < 10 ^ p := by
    rw [hp, Nat.pow_add]; exact Nat.mul_lt_mul_of_pos_right hT2 (Nat.pow_pos (by decide))
  have hpad := Dk_eq_pad (d + (D T).length) T hT2 (by omega)
  rw [show d + (D T).length - (D T).length = d by omega] at hpad
  refine ⟨?_, hpad⟩
  unfold fixedText
  rw [Nat.div_eq_of_lt hK, Nat.mod_eq_of_lt hK, if_neg (by omega), show D 0 = [48] by decide]
  have := Dk_mul_pow (d + (D T).length) w T
  rw [← hp] at this
  rw [this]; rfl

/-- the tail of the formatter for a pure fraction: `0.` + `d` zeros + the kept digits (+ padding) -/
theorem frac_tail (fixedT : Bool) (s t'' : List Nat) (k p fl T d w : Nat) (pi : Bool) (hk : k ≤ t''.length)
    (hdrop : t''.drop k = Rl T ++ List.replicate d 48 ++ [46, 48]) (hT0 : 0 < T) (hT10 : T % 10 ≠ 0)
    (hp : p = d + (D T).length + w) (hkfl : k < fl) (hp' : p ≤ 1048576) :
    (finishNumber s.length (s ++ t'') (s.length + k) >>= fun s' =>
      if fixedT then fixedPad s.length s' (s.length + k) p fl true pi else pure s') =
    .ok (s ++ (if fixedT then fixedText (T * 10 ^ w) p else FmtSpec.stripFraction (fixedText (T * 10 ^ w) p))) := by
  have hLpos : 0 < (D T).length := List.length_pos_iff.mpr (D_ne_nil T)
  obtain ⟨hft, hpad⟩ := fixedText_small (d := d) (w := w) hT0 hp
  rw [finishNumber_drop s _ k hk, ok_bind, hdrop, hft]
  have hrev : (Rl T ++ List.replicate d 48 ++ [46, 48]).reverse = 48 :: 46 :: (List.replicate d 48 ++ D T) := by
    simp [Rl, List.reverse_append]
  rw [hrev]
  cases fixedT
  · simp only [Bool.false_eq_true, if_false, pure, Except.pure]
    obtain ⟨c, hc⟩ : ∃ c, d + (D T).length = c + 1 := ⟨d + (D T).length - 1, by omega⟩
    rw [hc] at hpad ⊢
    have := stripFraction_exact [48] c T w hT10
    rw [show (48 :: 46 :: (Dk (c + 1) T ++ List.replicate w 48) : List Nat) = [48] ++ 46 :: (Dk (c + 1) T ++ List.replicate w 48) by rfl,
      this, hpad]; rfl
  · simp only [if_true]
    unfold fixedPad
    have hlen : (s ++ 48 :: 46 :: (List.replicate d 48 ++ D T)).length = s.length + 2 + (d + (D T).length) := by simp; omega
    have hc : ¬ (s.length + fl = s.length + k ∨ (s ++ 48 :: 46 :: (List.replicate d 48 ++ D T)).length - s.length = 1 ∨
        (!true) = true ∧ pi = true) := by rw [hlen]; simp; omega
    rw [if_neg (by omega), if_neg hc, if_pos rfl, hlen]
    have h15 : csub 15 (s.length + 2 + (d + (D T).length)) (s.length + 2) = .ok (d + (D T).length) := by
      simp [csub, pure, Except.pure]
    have h16 : csub 16 p (d + (D T).length) = .ok w := by
      unfold csub; rw [if_pos (by omega)]; show Except.ok _ = Except.ok _; congr 1; omega
    rw [h15, ok_bind, h16, ok_bind, zerosLarge_ok (by omega), ok_bind, hpad]
    simp [pure, Except.pure]


/-- the tail of the formatter when the fraction was rounded up to one -/
theorem one_tail (fixedT : Bool) (s t' : List Nat) (k p fl : Nat) (hk : k ≤ t'.length) (hdrop : t'.drop k = [49])
    (hp : p ≤ 1048576) :
    (finishNumber s.length (s ++ t') (s.length + k) >>= fun s' =>
      if fixedT then fixedPad s.length s' (s.length + k) p fl true true else pure s') =
    .ok (s ++ (if fixedT then fixedText (10 ^ p) p else FmtSpec.stripFraction (fixedText (10 ^ p) p))) := by
  rw [finishNumber_drop s _ k hk, ok_bind, hdrop]
  have hft : fixedText (10 ^ p) p = D 1 ++ (if p = 0 then [] else 46 :: List.replicate p 48) := by
    unfold fixedText
    rw [Nat.div_self (Nat.pow_pos (by decide)), Nat.mod_self, Dk_zero]
  rw [hft]
  cases fixedT
  · simp only [Bool.false_eq_true, if_false, pure, Except.pure]
    rw [stripFraction_int]; rfl
  · simp only [if_true]
    unfold fixedPad
    by_cases hp0 : p = 0
    · simp [hp0, pure, Except.pure]; rfl
    · have hc : (s.length + fl = s.length + k ∨ (s ++ [49].reverse).length - s.length = 1 ∨
          (!true) = true ∧ true = true) := by right; left; simp
      rw [if_neg hp0, if_pos hc, zerosLarge_ok hp, ok_bind]
      simp [hp0, Ch.dot, pure, Except.pure]; rfl

theorem keptUp_zero {b i : Nat} (ru : Bool) (h : (D b).length ≤ i) : keptUp b i ru = 0 := by
  have hLpos : 0 < (D b).length := List.length_pos_iff.mpr (D_ne_nil b)
  have hlt : b < 10 ^ i := (D_length_le_iff (by omega)).mp h
  have hlt2 : b < 10 ^ (i + 1) := lt_of_lt_of_le hlt (Nat.pow_le_pow_right (by decide) (by omega))
  unfold keptUp upCode
  rw [Nat.div_eq_of_lt hlt, Nat.div_eq_of_lt hlt2]
  simp

theorem set_of_drop {t : List Nat} {k a : Nat} (h : t.drop k = [a]) : t.set k a = t := by
  have hk : t[k]? = some a := by
    have : (t.drop k)[0]? = some a := by rw [h]; rfl
    simpa using this
  apply List.ext_getElem?
  intro m
  rw [List.getElem?_set]
  by_cases hm : k = m
  · subst hm
    have hlt : k < t.length := by
      by_contra hc
      rw [List.getElem?_eq_none (by omega)] at hk; cases hk
    rw [if_pos rfl, hk]; simp [hlt]
  · simp [hm]

/-- carry out of the top digit of a pure fraction: `0.0…01` (or `1` when the first fractional digit carried) -/
theorem fixed_carry_case (fixedT : Bool) (s t' : List Nat) (k p fl nl : Nat) (hdrop : t'.drop k = [49])
    (htl : t'.length = k + 1) (hk : k ≤ nl) (hnl : nl ≤ fl) (hdp : fl - nl ≤ p) (hp : p ≤ 1048576) :
    (do
      let b ← fixedFraction s.length (s ++ t') (s.length + k) nl fl (fl - nl) true
      let r ← (pure (b.1, b.2, true) : M (List Nat × Nat × Bool))
      let s_1 ← finishNumber s.length r.1 r.2.1
      if fixedT = true then fixedPad s.length s_1 r.2.1 p fl true r.2.2 else pure s_1) =
    .ok (s ++ (if fixedT then fixedText (10 ^ (p - (fl - nl))) p
               else FmtSpec.stripFraction (fixedText (10 ^ (p - (fl - nl))) p))) := by
  have hidx : s.length + k < (s ++ t').length := by rw [List.length_append, htl]; omega
  unfold fixedFraction
  rw [if_pos hnl, if_pos (Or.inr rfl)]
  by_cases hd0 : fl - nl = 0
  · rw [hd0]
    simp only [ne_eq, not_true_eq_false, if_false, Bool.not_true, Bool.false_eq_true, pure_bind, Nat.sub_zero]
    exact one_tail fixedT s t' k p fl (by omega) hdrop hp
  · rw [if_pos hd0]
    have h9 : csub 9 (s.length + k) (if s.length + k = (s ++ t').length then 1 else 0) = .ok (s.length + k) := by
      rw [if_neg (by omega)]; simp [csub, pure, Except.pure]
    have hw : wrAt s.length (s ++ t') (s.length + k) Ch.one = .ok (s ++ t') := by
      unfold wrAt
      rw [if_neg (by omega), if_pos hidx, List.set_append_right _ _ (by omega), Nat.add_sub_cancel_left]
      rw [show Ch.one = 49 from rfl, set_of_drop hdrop]; rfl
    have h10 : csub 10 (fl - nl) 1 = .ok (fl - nl - 1) := by
      simp [csub, pure, Except.pure]; omega
    simp only [if_true, h9, ok_bind, hw, pure_bind]
    rw [h10, ok_bind, zerosLarge_ok (by omega), ok_bind, pure_bind]
    simp only []
    have := frac_tail fixedT s (t' ++ List.replicate (fl - nl - 1) 48 ++ [46, 48]) k p fl 1 (fl - nl - 1) (p - (fl - nl)) true
      (by simp [htl]; omega)
      (by rw [List.append_assoc, List.drop_append_of_le_length (by omega), hdrop, show Rl 1 = [49] by decide]; simp)
      (by decide) (by decide) (by rw [show (D 1).length = 1 by decide]; omega) (by omega) hp
    rw [Nat.one_mul] at this
    rw [show s ++ t' ++ List.replicate (fl - nl - 1) 48 ++ [Ch.dot, Ch.zero] =
      s ++ (t' ++ List.replicate (fl - nl - 1) 48 ++ [46, 48]) by simp [Ch.dot, Ch.zero]]
    exact this

/-- digits remain after rounding a pure fraction: `0.` + zeros + the kept digits -/
theorem fixed_keep_case (fixedT : Bool) (s t' : List Nat) (k p fl nl T w : Nat) (hdrop : t'.drop k = Rl T)
    (htl : t'.length = nl) (hk : k < nl) (hnl : nl ≤ fl) (hT0 : 0 < T) (hT10 : T % 10 ≠ 0)
    (hpeq : p = (fl - nl) + (D T).length + w) (hp : p ≤ 1048576) :
    (do
      let b ← fixedFraction s.length (s ++ t') (s.length + k) nl fl (fl - nl) false
      let r ← (pure (b.1, b.2, false) : M (List Nat × Nat × Bool))
      let s_1 ← finishNumber s.length r.1 r.2.1
      if fixedT = true then fixedPad s.length s_1 r.2.1 p fl true r.2.2 else pure s_1) =
    .ok (s ++ (if fixedT then fixedText (T * 10 ^ w) p else FmtSpec.stripFraction (fixedText (T * 10 ^ w) p))) := by
  have hidx : s.length + k < (s ++ t').length := by rw [List.length_append, htl]; omega
  unfold fixedFraction
  rw [if_pos hnl, if_pos (Or.inl hidx)]
  have hfin := frac_tail fixedT s (t' ++ List.replicate (fl - nl) 48 ++ [46, 48]) k p fl T (fl - nl) w false
      (by simp [htl]; omega)
      (by rw [List.append_assoc, List.drop_append_of_le_length (by omega), hdrop]; simp)
      hT0 hT10 hpeq (by omega) hp
  by_cases hd0 : fl - nl = 0
  · rw [hd0] at hfin ⊢
    simp only [ne_eq, not_true_eq_false, if_false, Bool.not_false, if_true, pure_bind]
    rw [show s ++ t' ++ [Ch.dot, Ch.zero] = s ++ (t' ++ List.replicate 0 48 ++ [46, 48]) by simp [Ch.dot, Ch.zero]]
    exact hfin
  · rw [if_pos hd0]
    have h10 : csub 10 (fl - nl) 0 = .ok (fl - nl) := by simp [csub, pure, Except.pure]
    simp only [Bool.false_eq_true, if_false, pure_bind]
    rw [h10, ok_bind, zerosLarge_ok (by omega), ok_bind, pure_bind]
    simp only []
    rw [show s ++ t' ++ List.replicate (fl - nl) 48 ++ [Ch.dot, Ch.zero] =
      s ++ (t' ++ List.replicate (fl - nl) 48 ++ [46, 48]) by simp [Ch.dot, Ch.zero]]
    exact hfin

/-- nothing remains after rounding a pure fraction: a single `0` -/
theorem fixed_zero_case (fixedT : Bool) (s t : List Nat) (p fl : Nat) (ht : 0 < t.length) (hnl : t.length ≤ fl)
    (hp : p ≤ 1048576) :
    (do
      let b ← fixedFraction s.length (s ++ t) (s.length + t.length) t.length fl (fl - t.length) false
      let r ← (pure (b.1, b.2, false) : M (List Nat × Nat × Bool))
      let s_1 ← finishNumber s.length r.1 r.2.1
      if fixedT = true then fixedPad s.length s_1 r.2.1 p fl true r.2.2 else pure s_1) =
    .ok (s ++ (if fixedT then fixedText 0 p else FmtSpec.stripFraction (fixedText 0 p))) := by
  unfold fixedFraction
  have hc : ¬ (s.length + t.length < (s ++ t).length ∨ false = true) := by simp
  rw [if_pos hnl, if_neg hc]
  have h11 : csub 11 (s.length + t.length) 1 = .ok (s.length + (t.length - 1)) := by
    unfold csub; rw [if_pos (by omega)]; show Except.ok _ = Except.ok _; congr 1; omega
  have hw : wrAt s.length (s ++ t) (s.length + (t.length - 1)) Ch.zero = .ok (s ++ t.set (t.length - 1) 48) := by
    unfold wrAt
    rw [if_neg (by omega), if_pos (by rw [List.length_append]; omega), List.set_append_right _ _ (by omega),
      Nat.add_sub_cancel_left]; rfl
  rw [h11, ok_bind, hw, ok_bind, pure_bind, pure_bind]
  simp only []
  exact zero_tail fixedT s t p fl ht hp

/-- **`formatStringNumberFixed` on the run of a value below one** (`number_length ≤ fraction_length`) when more
fractional digits than the precision were produced: the kept value `K = ⌊b/10^(fl-p)⌋ + up` is printed with `p`
fractional digits. -/
theorem formatFixed_lt1 (fixedT : Bool) (s : List Nat) {b p fl : Nat} (ru : Bool) (hb : 0 < b)
    (hL : (D b).length ≤ fl) (hpf : p < fl) (hp : p ≤ 1048576) :
    formatFixed fixedT s.length (s ++ Rl b) p fl ru =
      .ok (s ++ (if fixedT then fixedText (keptUp b (fl - (p + 1)) ru) p
                 else FmtSpec.stripFraction (fixedText (keptUp b (fl - (p + 1)) ru) p))) := by
  have hLpos : 0 < (D b).length := List.length_pos_iff.mpr (D_ne_nil b)
  have h8 : csub 8 (s ++ Rl b).length s.length = .ok (D b).length := by simp [csub, pure, Except.pure]
  unfold formatFixed
  rw [h8, ok_bind]
  have hdiff : (if (D b).length < fl then fl - (D b).length else 0) = fl - (D b).length := by split <;> omega
  have hfo : decide ((D b).length ≤ fl) = true := by simp; omega
  simp only [hdiff, hfo, ne_eq, show ¬ (fl = 0) by omega, not_false_eq_true, if_true]
  by_cases hZ : fl - (D b).length ≤ p
  · rw [if_pos hZ]
    unfold fixedRound
    rw [if_pos hpf]
    have hi' : fl - (p + 1) < (D b).length := by omega
    have hlen : (s ++ Rl b).length = s.length + (D b).length := by simp
    by_cases hR2 : fl - (p + 1) + 1 = (D b).length
    · -- the rounding digit is the top digit of the run
      have hbl : b < 10 ^ (fl - (p + 1) + 1) := (D_length_le_iff (by omega)).mp (by omega)
      unfold roundStringNumber
      rw [round_test s hi' ru, ok_bind]
      cases hu : upCode b (fl - (p + 1)) ru
      · simp only [Bool.false_eq_true, if_false, pure_bind]
        have hsk : skipWhile Ch.zero (s ++ Rl b).length (s ++ Rl b) (s.length + (fl - (p + 1)) + 1) =
            s.length + (Rl b).length := by
          obtain ⟨h1, _, _, h4⟩ := skipWhile_spec Ch.zero (s ++ Rl b).length (s ++ Rl b) (s.length + (fl - (p + 1)) + 1)
            (by omega)
          rw [Rl_length]
          rcases h4 with h4 | h4 <;> omega
        rw [hsk]
        have := fixed_zero_case fixedT s (Rl b) p fl (by rw [Rl_length]; omega) (by rw [Rl_length]; omega) hp
        rw [Rl_length] at this ⊢
        simp only [pure_bind] at this ⊢
        rw [this]
        have hK : keptUp b (fl - (p + 1)) ru = 0 := by
          unfold keptUp; rw [hu, Nat.div_eq_of_lt hbl]; rfl
        rw [hK]
      · obtain ⟨k, t', pi, hrc, hik, hcase⟩ := roundCarry_spec s hb hi'
        rcases hcase with ⟨_, hk, _⟩ | ⟨hpi, hdrop, htl, hrun, hkk⟩
        · omega
        · subst hpi
          have hkL : k = (D b).length := by rcases hkk with ⟨h1, h2⟩ | ⟨h1, h2⟩ <;> omega
          simp only [if_true]
          rw [hrc, ok_bind, pure_bind]
          simp only []
          have hget : (s ++ t')[s.length + k]? ≠ some Ch.zero := by
            rw [getElem?_append_len]
            have h0 : t'[k]? = (t'.drop k)[0]? := by simp
            rw [h0, hdrop]; simp [Ch.zero]
          rw [skipWhile_stop _ _ _ hget]
          have := fixed_carry_case fixedT s t' k p fl (D b).length hdrop htl (by omega) hL hZ hp
          simp only [pure_bind] at this ⊢
          rw [this]
          have hK : keptUp b (fl - (p + 1)) ru = 10 ^ (p - (fl - (D b).length)) := by
            unfold keptUp; rw [hu, Nat.div_eq_of_lt hbl, show p - (fl - (D b).length) = 0 by omega]; rfl
          rw [hK]
    · obtain ⟨r, t', k, T, hr, hr1, hskip, hik, hkL, htl, hdrop, hT0, hT10, hkept, hpi⟩ :=
        round_skip s (i := fl - (p + 1)) hb (by omega) ru
      rw [hr1] at hskip
      rw [hr, ok_bind, pure_bind]
      simp only []
      rw [hr1, hskip]
      have hDTlen : (D T).length = (D b).length - k := by
        have := congrArg List.length hdrop
        simp [htl] at this; omega
      cases hpiv : r.2.2
      · simp only [hpiv, Bool.false_eq_true, if_false, Nat.add_zero] at hkept
        have := fixed_keep_case fixedT s t' k p fl (D b).length T (k - (fl - (p + 1) + 1)) hdrop htl hkL hL hT0 hT10
          (by omega) hp
        simp only [pure_bind] at this ⊢
        rw [this, hkept]
      · obtain ⟨hkL2, hT1⟩ := hpi hpiv
        subst hT1
        simp only [hpiv, if_true, Nat.one_mul] at hkept
        have := fixed_carry_case fixedT s t' k p fl (D b).length (by rw [hdrop]; decide) (by omega) (by omega) hL hZ hp
        simp only [pure_bind] at this ⊢
        rw [this, hkept, show k - (fl - (p + 1) + 1) + 1 = p - (fl - (D b).length) by omega]
  · rw [if_neg hZ]
    have h13 : csub 13 (s.length + (D b).length) 1 = .ok (s.length + ((D b).length - 1)) := by
      unfold csub; rw [if_pos (by omega)]; show Except.ok _ = Except.ok _; congr 1; omega
    have hw : wrAt s.length (s ++ Rl b) (s.length + ((D b).length - 1)) Ch.zero =
        .ok (s ++ (Rl b).set ((Rl b).length - 1) 48) := by
      unfold wrAt
      rw [if_neg (by omega), if_pos (by rw [List.length_append, Rl_length]; omega), List.set_append_right _ _ (by omega),
        Nat.add_sub_cancel_left, Rl_length]; rfl
    rw [h13, ok_bind, hw, ok_bind, pure_bind]
    simp only []
    have := zero_tail fixedT s (Rl b) p fl (by rw [Rl_length]; exact hLpos) hp
    rw [← Rl_length b, this, keptUp_zero ru (by omega)]

/-- binary exponent of the lowest possible leading bit of a double below one: `v ≥ 2^-lowExp` -/
def lowExp (M B f e : Nat) : Nat := (B - e) + (if e = 0 then M - findFirstBit (mant M f e) else 0)

/-- a double with biased exponent below the bias is below one, and at least `2^-lowExp` -/
theorem decode64_lt1 {bits num den : Nat} {neg : Bool} (h : FmtSpec.decode64 bits = .fin neg num den)
    (he : (bits / 2 ^ 52) % 2 ^ 11 < 1023) (hnz : (bits / 2 ^ 52) % 2 ^ 11 ≠ 0 ∨ bits % 2 ^ 52 ≠ 0) :
    num < den ∧ den ≤ num * 2 ^ lowExp 52 1023 (bits % 2 ^ 52) ((bits / 2 ^ 52) % 2 ^ 11) := by
  unfold FmtSpec.decode64 FmtSpec.decode at h
  have hfl : bits % 2 ^ 52 < 2 ^ 52 := Nat.mod_lt _ (by norm_num)
  have hmm := findFirstBit_mant (M := 52) (by decide) (mant_pos (M := 52) hnz) (mant_lt (e := (bits / 2 ^ 52) % 2 ^ 11) hfl)
  unfold lowExp
  generalize (bits / 2 ^ 52) % 2 ^ 11 = e at *
  generalize hf : bits % 2 ^ 52 = f at *
  simp only [show (2:Nat) ^ (11 - 1) - 1 = 1023 by norm_num, show ¬ (e = 2 ^ 11 - 1) by omega, if_false] at h
  by_cases he0 : e = 0
  · subst he0
    have hf0 : f ≠ 0 := by omega
    simp only [if_true, show ¬ (1023 + 52 ≤ 1) by omega, if_false] at h
    injection h with _ hn hd
    subst hn; subst hd
    have hmant : mant 52 f 0 = 2 * f := by unfold mant; simp
    rw [hmant] at hmm ⊢
    generalize findFirstBit (2 * f) = j at *
    obtain ⟨hj, hdiv, hoddq⟩ := hmm
    have hj1 : 1 ≤ j := by
      by_contra hc
      have : j = 0 := by omega
      subst this; simp at hoddq
    have h2j : 2 ^ j ≤ 2 * f := Nat.le_of_dvd (by omega) (Nat.dvd_of_mod_eq_zero hdiv)
    have hfj : 2 ^ (j - 1) ≤ f := by
      have : 2 ^ j = 2 * 2 ^ (j - 1) := by rw [show j = (j - 1) + 1 by omega, Nat.pow_succ]; simp; ring
      omega
    refine ⟨?_, ?_⟩
    · calc f < 2 ^ 52 := hfl
        _ ≤ 2 ^ (1023 + 52 - 1) := Nat.pow_le_pow_right (by decide) (by omega)
    · simp only [if_true]
      calc 2 ^ (1023 + 52 - 1) = 2 ^ (j - 1) * 2 ^ (1023 - 0 + (52 - j)) := by rw [← Nat.pow_add]; congr 1; omega
        _ ≤ f * 2 ^ (1023 - 0 + (52 - j)) := Nat.mul_le_mul_right _ hfj
  · simp only [he0, if_false, show ¬ (1023 + 52 ≤ e) by omega] at h
    injection h with _ hn hd
    subst hn; subst hd
    refine ⟨?_, ?_⟩
    · calc 2 ^ 52 + f < 2 ^ 52 + 2 ^ 52 := by omega
        _ = 2 ^ 53 := by norm_num
        _ ≤ 2 ^ (1023 + 52 - e) := Nat.pow_le_pow_right (by decide) (by omega)
    · rw [if_neg he0, Nat.add_zero]
      calc 2 ^ (1023 + 52 - e) = 2 ^ 52 * 2 ^ (1023 - e) := by rw [← Nat.pow_add]; congr 1; omega
        _ ≤ (2 ^ 52 + f) * 2 ^ (1023 - e) := Nat.mul_le_mul_right _ (Nat.le_add_right _ _)


/-- the closed-form digit run of a double below one (any format): `estimate + p + 1` fractional digits, or all of
them when the binary fraction is shorter -/
theorem runSpec_lt1 {f e p fmt : Nat} (hneg : e < 1023) :
    runSpec 52 1023 f e p fmt =
      (mant 52 f e / 2 ^ findFirstBit (mant 52 f e) *
          5 ^ fracLen (fracBits 52 1023 f e) (lowExp 52 1023 f e * 30103 / 100000 + 1 + p) /
          2 ^ fracShift (fracBits 52 1023 f e) (lowExp 52 1023 f e * 30103 / 100000 + 1 + p),
        lowExp 52 1023 f e * 30103 / 100000 + 1,
        fracLen (fracBits 52 1023 f e) (lowExp 52 1023 f e * 30103 / 100000 + 1 + p), false,
        decide (lowExp 52 1023 f e * 30103 / 100000 + 1 + p + 1 < fracBits 52 1023 f e)) ∧
    runDrop 52 1023 f e p fmt = 0 := by
  have hpos : ¬ (1023 ≤ e) := by omega
  simp only [runSpec, runDrop, fracBits, lowExp, estDigits, hpos, if_false, decide_false, Bool.false_and,
    Bool.false_eq_true]
  exact ⟨trivial, trivial⟩


/-- everything the layout proofs need about the digit run of a double below one -/
theorem run_lt1_64 (bits P fmt : Nat) (hP40 : P ≤ 40)
    (hlt1 : (bits / 2 ^ 52) % 2 ^ 11 < 1023) (hnz : (bits / 2 ^ 52) % 2 ^ 11 ≠ 0 ∨ bits % 2 ^ 52 ≠ 0) :
    ∃ num den b fl dg ru, 0 < den ∧
      FmtSpec.decode64 bits = .fin (decide (bits / 2 ^ 63 % 2 = 1)) num den ∧ num < den ∧ 0 < num ∧
      runSpec 52 1023 (bits % 2 ^ 52) ((bits / 2 ^ 52) % 2 ^ 11) P fmt = (b, dg, fl, false, ru) ∧
      b = num * 10 ^ fl / den ∧ (ru = true ↔ num * 10 ^ fl % den ≠ 0) ∧
      0 < b ∧ (D b).length ≤ fl ∧ 0 < dg ∧ dg ≤ fl ∧ fl ≤ dg + P + 1 ∧
      (fl < dg + P + 1 → ru = false ∧ b % 10 = 5) ∧ (D b).length ≤ 1344 ∧
      fl = min (fracBits 52 1023 (bits % 2 ^ 52) ((bits / 2 ^ 52) % 2 ^ 11)) (dg + P + 1) ∧
      fl < (D b).length + dg := by
  have hfin : (bits / 2 ^ 52) % 2 ^ 11 ≠ 2 ^ 11 - 1 := by omega
  have hfl : bits % 2 ^ 52 < 2 ^ 52 := Nat.mod_lt _ (by norm_num)
  have hel : (bits / 2 ^ 52) % 2 ^ 11 ≤ 2 * 1023 := by omega
  obtain ⟨num, den, hden, hdec, hex⟩ := runSpec_exact_decode (M := 52) (X := 11) (by decide) (by decide) (by decide)
    bits P fmt hfin hnz
  have hB : (2:Nat) ^ (11 - 1) - 1 = 1023 := by norm_num
  rw [hB] at hex
  have hdec64 : FmtSpec.decode64 bits = .fin (decide (bits / 2 ^ 63 % 2 = 1)) num den := hdec
  obtain ⟨hnumlt, hlow⟩ := decode64_lt1 hdec64 hlt1 hnz
  obtain ⟨hrs, hrd⟩ := runSpec_lt1 (f := bits % 2 ^ 52) (e := (bits / 2 ^ 52) % 2 ^ 11) (p := P) (fmt := fmt) hlt1
  have hmm := findFirstBit_mant (M := 52) (by decide) (mant_pos (M := 52) hnz) (mant_lt (e := (bits / 2 ^ 52) % 2 ^ 11) hfl)
  have hb1344 := runSpec_lt shape64 (fmt := fmt) hfl hel hnz hP40
  rw [hrs] at hb1344
  simp only at hb1344
  rw [hrs, hrd] at hex
  simp only [Nat.pow_zero, Nat.mul_one] at hex
  -- the exponents
  have hE1 : 1 ≤ lowExp 52 1023 (bits % 2 ^ 52) ((bits / 2 ^ 52) % 2 ^ 11) := by unfold lowExp; omega
  have hEfb : lowExp 52 1023 (bits % 2 ^ 52) ((bits / 2 ^ 52) % 2 ^ 11) ≤
      fracBits 52 1023 (bits % 2 ^ 52) ((bits / 2 ^ 52) % 2 ^ 11) := by
    unfold lowExp fracBits
    simp only [show ¬ (1023 ≤ (bits / 2 ^ 52) % 2 ^ 11) by omega, if_false]
    split <;> omega
  have hE1130 : lowExp 52 1023 (bits % 2 ^ 52) ((bits / 2 ^ 52) % 2 ^ 11) ≤ 1130 := by
    unfold lowExp; split <;> omega
  generalize lowExp 52 1023 (bits % 2 ^ 52) ((bits / 2 ^ 52) % 2 ^ 11) = E at *
  obtain ⟨ht1, ht2⟩ := est_table E hE1130
  generalize hfbd : fracBits 52 1023 (bits % 2 ^ 52) ((bits / 2 ^ 52) % 2 ^ 11) = fb at *
  generalize hmo : mant 52 (bits % 2 ^ 52) ((bits / 2 ^ 52) % 2 ^ 11) /
      2 ^ findFirstBit (mant 52 (bits % 2 ^ 52) ((bits / 2 ^ 52) % 2 ^ 11)) = mo at *
  generalize hdgd : E * 30103 / 100000 = dg1 at *
  have hdgE : dg1 + 1 ≤ E := by omega
  have hodd : ¬ (dg1 + 1 + P + 1 < fb) →
      (mo * 5 ^ fracLen fb (dg1 + 1 + P) / 2 ^ fracShift fb (dg1 + 1 + P)) % 10 = 5 := by
    intro hno
    have e1 : fracLen fb (dg1 + 1 + P) = fb := by unfold fracLen; rw [if_neg hno]
    have e2 : fracShift fb (dg1 + 1 + P) = 0 := by unfold fracShift; rw [if_neg hno]
    rw [e1, e2, Nat.pow_zero, Nat.div_one]
    apply odd5_mod10 (odd_mul_odd hmm.2.2 (pow5_odd fb))
    obtain ⟨k, rfl⟩ := Nat.exists_eq_succ_of_ne_zero (by omega : fb ≠ 0)
    rw [Nat.pow_succ, ← Nat.mul_assoc]; exact Nat.mul_mod_left _ _
  have hflmin : fracLen fb (dg1 + 1 + P) = min fb (dg1 + 1 + P + 1) := by unfold fracLen; split <;> omega
  have hfleq : ¬ (dg1 + 1 + P + 1 < fb) ∨ fracLen fb (dg1 + 1 + P) = dg1 + 1 + P + 1 := by
    unfold fracLen; by_cases h : dg1 + 1 + P + 1 < fb
    · right; rw [if_pos h]
    · left; exact h
  generalize hfld : fracLen fb (dg1 + 1 + P) = fl at *
  generalize hbd : mo * 5 ^ fl / 2 ^ fracShift fb (dg1 + 1 + P) = b at *
  generalize hrud : decide (dg1 + 1 + P + 1 < fb) = ru at *
  obtain ⟨hb, hru⟩ := hex
  have hnumpos : 0 < num := by
    by_contra hc
    have : num = 0 := by omega
    rw [this, Nat.zero_mul] at hlow; omega
  have hdgfl : dg1 + 1 ≤ fl := by omega
  -- 1 ≤ v · 10^fl
  have hge1 : den ≤ num * 10 ^ fl := by
    calc den ≤ num * 2 ^ E := hlow
      _ ≤ num * 10 ^ (dg1 + 1) := Nat.mul_le_mul_left _ (Nat.le_of_lt ht2)
      _ ≤ num * 10 ^ fl := Nat.mul_le_mul_left _ (Nat.pow_le_pow_right (by decide) hdgfl)
  have hbpos : 0 < b := by rw [hb]; exact Nat.div_pos hge1 hden
  have hblt : b < 10 ^ fl := by
    rw [hb, Nat.div_lt_iff_lt_mul hden]
    calc num * 10 ^ fl < den * 10 ^ fl := Nat.mul_lt_mul_of_pos_right hnumlt (Nat.pow_pos (by decide))
      _ = 10 ^ fl * den := Nat.mul_comm _ _
  refine ⟨num, den, b, fl, dg1 + 1, ru, hden, hdec64, hnumlt, hnumpos, hrs, hb, hru, hbpos,
    (D_length_le_iff (by omega)).mpr hblt, by omega, hdgfl, by omega, ?_, ?_, by omega, ?_⟩
  · intro hlt
    rcases hfleq with h | h
    · refine ⟨?_, hodd h⟩
      rw [← hrud]; simp [h]
    · omega
  · exact D_length_le _ 1344 (by decide) (lt_of_lt_of_le hb1344 (Nat.pow_le_pow_left (by decide) 1344))
  · have hbge : 10 ^ (fl - (dg1 + 1)) ≤ b := by
      rw [hb, Nat.le_div_iff_mul_le hden]
      calc 10 ^ (fl - (dg1 + 1)) * den ≤ 10 ^ (fl - (dg1 + 1)) * (num * 10 ^ (dg1 + 1)) :=
            Nat.mul_le_mul_left _ (le_trans hlow (Nat.mul_le_mul_left _ (Nat.le_of_lt ht2)))
        _ = num * 10 ^ fl := by
            rw [Nat.mul_comm, Nat.mul_assoc, ← Nat.pow_add, show dg1 + 1 + (fl - (dg1 + 1)) = fl by omega]
    have := D_length_gt hbge
    omega

/-- **Fixed and SemiFixed for every double below one whose binary fraction is longer than the precision**:
`estimate + p + 1` fractional digits are produced exactly (`⌊v·10^fl⌋` plus the sticky flag), rounded half-even at
the `p`-th fractional digit, and laid out as `0.0…0ddd`, `0`, or `1` — exactly `%.{p}f` / its stripped form. -/
theorem long_fraction_lt1_64 (pre : List Nat) (bits p f : Nat) (hf12 : f = 1 ∨ f = 2) (hp : p ≤ 40)
    (hlt1 : (bits / 2 ^ 52) % 2 ^ 11 < 1023) (hnz : (bits / 2 ^ 52) % 2 ^ 11 ≠ 0 ∨ bits % 2 ^ 52 ≠ 0)
    (hlt : p < fracBits 52 1023 (bits % 2 ^ 52) ((bits / 2 ^ 52) % 2 ^ 11)) :
    realToString f64 pre bits p f = .ok (pre ++ FmtSpec.format64 bits p (fmtOf f)) := by
  have hfin : (bits / 2 ^ 52) % 2 ^ 11 ≠ 2 ^ 11 - 1 := by omega
  have hfl : bits % 2 ^ 52 < 2 ^ 52 := Nat.mod_lt _ (by norm_num)
  have hel : (bits / 2 ^ 52) % 2 ^ 11 ≤ 2 * 1023 := by omega
  have hf0 : ¬ (f = fmtDefault ∧ p = 0) := by rcases hf12 with rfl | rfl <;> simp [fmtDefault]
  obtain ⟨num, den, b, fl, dg, ru, hden, hdec64, hnumlt, hnumpos, hrs, hb, hru, hbpos, hLfl, hdg0, hdgfl, hflle, _, hblen,
    hflmin, _⟩ := run_lt1_64 bits p f hp hlt1 hnz
  have hpf : p < fl := by omega
  rw [realToString_finite64 pre bits p f hfin hnz, if_neg hf0, realFinite_reduce shape64 _ hfl hel hnz hp, hrs]
  have hR : R b = Rl b := by simp [R, Rl]; omega
  unfold layout
  simp only [hR]
  have hkept : keptUp b (fl - (p + 1)) ru = FmtSpec.roundHalfEven (num * 10 ^ p) den := by
    have h1 := roundHalfEven_digits (N := num * 10 ^ fl) (den := den) (b := b) (i := fl - (p + 1)) (ru := ru) hden hb hru
    have efl : fl = p + (fl - (p + 1) + 1) := by omega
    rw [show num * 10 ^ fl = num * 10 ^ p * 10 ^ (fl - (p + 1) + 1) by
      rw [Nat.mul_assoc, ← Nat.pow_add, ← efl], roundHalfEven_scale _ _ _ (Nat.pow_pos (by decide))] at h1
    unfold keptUp; rw [h1]
  rcases hf12 with rfl | rfl
  · have e1 : ¬ (1 = fmtSemiFixed) := by decide
    have e2 : (1 = fmtFixed) := by decide
    have e3 : fmtOf 1 = .fixed := by decide
    rw [if_neg e1, if_pos e2, formatFixed_lt1 true _ ru hbpos hLfl hpf (by omega), e3, format64_finite bits p _ hdec64]
    simp only [if_true, fixedBody_eq_text, hkept]
    by_cases hs : bits / 9223372036854775808 % 2 = 1 <;> simp [hs, FmtSpec.signed, FmtSpec.cMinus]
  · have e1 : (2 = fmtSemiFixed) := by decide
    have e3 : fmtOf 2 = .semiFixed := by decide
    rw [if_pos e1, formatFixed_lt1 false _ ru hbpos hLfl hpf (by omega), e3, format64_finite bits p _ hdec64]
    simp only [Bool.false_eq_true, if_false, fixedBody_eq_text, hkept]
    by_cases hs : bits / 9223372036854775808 % 2 = 1 <;> simp [hs, FmtSpec.signed, FmtSpec.cMinus]


/-- **Fixed and SemiFixed for every finite non-zero double** (precision ≤ 40) -/
theorem fixed_finite_64 (pre : List Nat) (bits p f : Nat) (hf12 : f = 1 ∨ f = 2) (hp : p ≤ 40)
    (hfin : (bits / 2 ^ 52) % 2 ^ 11 ≠ 2 ^ 11 - 1) (hnz : (bits / 2 ^ 52) % 2 ^ 11 ≠ 0 ∨ bits % 2 ^ 52 ≠ 0) :
    realToString f64 pre bits p f = .ok (pre ++ FmtSpec.format64 bits p (fmtOf f)) := by
  by_cases hge1 : 1023 ≤ (bits / 2 ^ 52) % 2 ^ 11
  · exact fixed_ge1_64 pre bits p f hf12 hp hfin hge1
  · have h0 : 0 < fracBits 52 1023 (bits % 2 ^ 52) ((bits / 2 ^ 52) % 2 ^ 11) := by
      unfold fracBits; simp only [hge1, if_false]; omega
    by_cases hle : fracBits 52 1023 (bits % 2 ^ 52) ((bits / 2 ^ 52) % 2 ^ 11) ≤ p
    · exact short_fraction64 pre bits p f hf12 hp hfin h0 hle
    · exact long_fraction_lt1_64 pre bits p f hf12 hp (by omega) hnz (by omega)

end Qentem.Proofs.NumToStr
