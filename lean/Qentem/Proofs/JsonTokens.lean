import Qentem.Proofs.JsonGrammar
import Qentem.Proofs.JsonDeps
import Qentem.Proofs.JsonRoundTrip
import Qentem.Props.C09
/-! Token contracts of C06 discharged for the concrete sub-routine models:
decimal integers (C09 theorems) and string bodies produced by `JSONUtils::Escape`
(the inverse theorem of `Proofs/JsonRoundTrip.lean`). -/
namespace Qentem.Json
open Qentem.StrToNum Qentem.Props.C09

theorem unitsAt_of_At (c : Array Nat) : ∀ (l : List Nat) (o : Nat), At c o l → unitsAt c.toList c.size o l
  | [], _, _ => trivial
  | x :: l, o, h => by
    obtain ⟨hlt, hc, h'⟩ := At.cons h
    refine ⟨?_, unitsAt_of_At c l (o + 1) h'⟩
    unfold Qentem.StrToNum.rd
    simp [hlt, ← hc]

theorem rd_of_lt (c : Array Nat) (p : Nat) (h : p < c.size) : Qentem.StrToNum.rd c.toList c.size p = some c[p] := by
  unfold Qentem.StrToNum.rd; simp [h]

theorem endsAt_of_follow (c : Array Nat) (p : Nat) (cont : Nat → Bool)
    (hcont : ∀ x, isDelim x = true → cont x = false) (h : FollowOK c p) : endsAt c.toList c.size p cont := by
  rcases h with h | ⟨hlt, hd⟩
  · exact Or.inl h
  · exact Or.inr ⟨c[p], rd_of_lt c p hlt, hcont _ hd⟩

theorem delim_cases (x : Nat) (h : isDelim x = true) :
    x = 32 ∨ x = 10 ∨ x = 9 ∨ x = 13 ∨ x = 44 ∨ x = 93 ∨ x = 125 := by
  simp [isDelim, isWs] at h; omega

theorem delim_not_contInt (x : Nat) (h : isDelim x = true) : contInt x = false := by
  rcases delim_cases x h with rfl | rfl | rfl | rfl | rfl | rfl | rfl <;> decide

theorem delim_not_contZero (x : Nat) (h : isDelim x = true) : contZero x = false := by
  rcases delim_cases x h with rfl | rfl | rfl | rfl | rfl | rfl | rfl <;> decide

theorem digit_head_ok (x : Nat) (h : isDigit x = true) :
    x ≠ 123 ∧ x ≠ 91 ∧ x ≠ 34 ∧ x ≠ 116 ∧ x ≠ 102 ∧ x ≠ 110 ∧ isDelim x = false := by
  simp only [isDigit, Bool.and_eq_true, decide_eq_true_eq] at h
  refine ⟨by omega, by omega, by omega, by omega, by omega, by omega, ?_⟩
  simp [isDelim, isWs]; omega

/-- A decimal numeral without sign and leading zero, below 2^64, is read as that Natural. -/
theorem numSpec_natural (w d1 : Nat) (xs : List Nat) (h1 : isNonZeroDigit d1 = true) (hxs : AllDigits xs)
    (hv : decVal (d1 :: xs) < 2 ^ 64) : NumSpec (jsonDeps w) (d1 :: xs) .natural (decVal (d1 :: xs)) := by
  refine ⟨by simp, ⟨d1, xs, rfl, digit_head_ok d1 (isNonZeroDigit_isDigit h1)⟩, ?_⟩
  intro c o hsz hat hf
  have hu := unitsAt_of_At c _ o hat
  have hend := endsAt_of_follow c (o + (d1 :: xs).length) contInt delim_not_contInt hf
  have e1 : o + (d1 :: xs).length = o + b2n false + 1 + xs.length := by simp [b2n]; omega
  rw [e1] at hend
  have := int_exact_natural c.toList o c.size false d1 xs hsz h1 hxs (by simpa using hu) hend hv
  show strToNumDep c o c.size = _
  unfold strToNumDep
  rw [this, e1]
  rfl

/-- `-d₁…d_k` down to the signed 64-bit minimum is read as that Integer (two's complement). -/
theorem numSpec_negative (w d1 : Nat) (xs : List Nat) (h1 : isNonZeroDigit d1 = true) (hxs : AllDigits xs)
    (hv : decVal (d1 :: xs) ≤ 2 ^ 63) : NumSpec (jsonDeps w) (45 :: d1 :: xs) .integer (2 ^ 64 - decVal (d1 :: xs)) := by
  refine ⟨by simp, ⟨45, d1 :: xs, rfl, by decide, by decide, by decide, by decide, by decide, by decide, by decide⟩, ?_⟩
  intro c o hsz hat hf
  have hu := unitsAt_of_At c _ o hat
  have hend := endsAt_of_follow c (o + (45 :: d1 :: xs).length) contInt delim_not_contInt hf
  have e1 : o + (45 :: d1 :: xs).length = o + 2 + xs.length := by simp; omega
  rw [e1] at hend
  have := int_exact_negative c.toList o c.size d1 xs hsz h1 hxs hu hend hv
  show strToNumDep c o c.size = _
  unfold strToNumDep
  rw [this, e1]
  rfl

/-- `0` is Natural 0. -/
theorem numSpec_zero (w : Nat) : NumSpec (jsonDeps w) [48] .natural 0 := by
  refine ⟨by simp, ⟨48, [], rfl, by decide, by decide, by decide, by decide, by decide, by decide, by decide⟩, ?_⟩
  intro c o hsz hat hf
  obtain ⟨hlt, hc, _⟩ := At.cons hat
  have hend := endsAt_of_follow c (o + [48].length) contZero delim_not_contZero hf
  have := (int_exact_zero c.toList o c.size hsz).1 (by rw [rd_of_lt c o hlt, hc]) (by simpa using hend)
  show strToNumDep c o c.size = _
  unfold strToNumDep
  rw [this]
  rfl

/-- Every string body written by `JSONUtils::Escape` is read back as the original string. -/
theorem strSpec_escaped (w : Nat) (s : List Nat) : StrSpec (jsonDeps w) (escapeJson s) s := by
  intro c o hat
  obtain ⟨t, ht⟩ := hat
  have hlen : c.size - o ≤ (c.toList.drop o).length := by simp
  have hB := Qentem.Unicode.unEscapeA_eq_B w (c.toList.drop o) (c.size - o) [] hlen
  have htake : (c.toList.drop o).take (c.size - o) = escapeJson s ++ 34 :: t := by
    rw [List.take_of_length_le (by simp)]; rw [← ht]; simp
  have hinv := unescape_escape w s t
  simp only [] at hinv
  show ∃ stream, unEscapeDep w c o (c.size - o) = _ ∧ _
  unfold unEscapeDep
  rw [hB, htake]
  refine ⟨(Qentem.Unicode.unEscapeB w (escapeJson s ++ 34 :: t) [] [] 0).1, ?_, ?_⟩
  · simp only []
    rw [← hinv.1]
  · unfold stringOf
    have hslice : (c.extract o (o + ((escapeJson s).length + 1 - 1))).toList = escapeJson s := by
      have : (c.extract o (o + ((escapeJson s).length + 1 - 1))).toList = (c.toList.drop o).take (escapeJson s).length := by
        simp [Array.toList_extract, List.take_drop]
      rw [this, ← ht]; simp
    rw [hslice]
    by_cases he : (Qentem.Unicode.unEscapeB w (escapeJson s ++ 34 :: t) [] [] 0).1.isEmpty
    · simp [he] at hinv ⊢; exact hinv.2
    · simp [he] at hinv ⊢; exact hinv.2

end Qentem.Json

namespace Qentem.Json
open Qentem.Unicode

theorem flatMap_out_of_allPlain (w : Nat) (ts : List Tok) (h : ts.all Tok.isPlainTok = true) :
    ts.flatMap (Tok.out w) = ts.flatMap Tok.src := by
  induction ts with
  | nil => rfl
  | cons t r ih =>
    simp only [List.all_cons, Bool.and_eq_true] at h
    cases t <;> simp_all [Tok.isPlainTok, Tok.out, Tok.src]

/-- **Every RFC 8259 string body.** A body made of any sequence of string tokens — plain units of
any width, the eight short escapes, `\uXXXX` (either hex case, `\U` too), surrogate pairs — is read
as the concatenation of what the tokens denote (`Tok.out`: the unit itself, the escaped control, the
UTF-8/16/32 encoding of the escaped code point). Together with C20's theorems about `Tok.out` this
is the string clause of C06. -/
theorem strSpec_tokens (w : Nat) (ts : List Tok) (hok : ∀ t ∈ ts, t.ok = true) :
    StrSpec (jsonDeps w) (ts.flatMap Tok.src) (ts.flatMap (Tok.out w)) := by
  intro c o hat
  obtain ⟨t, ht⟩ := hat
  have hlen : c.size - o ≤ (c.toList.drop o).length := by simp
  have hB := unEscapeA_eq_B w (c.toList.drop o) (c.size - o) [] hlen
  have htake : (c.toList.drop o).take (c.size - o) = ts.flatMap Tok.src ++ 34 :: t := by
    rw [List.take_of_length_le (by simp)]; rw [← ht]; simp
  have hs := unEscapeB_string w ts hok t
  show ∃ stream, unEscapeDep w c o (c.size - o) = _ ∧ _
  unfold unEscapeDep
  rw [hB, htake, hs]
  refine ⟨_, rfl, ?_⟩
  unfold stringOf
  have hslice : (c.extract o (o + ((ts.flatMap Tok.src).length + 1 - 1))).toList = ts.flatMap Tok.src := by
    have : (c.extract o (o + ((ts.flatMap Tok.src).length + 1 - 1))).toList = (c.toList.drop o).take (ts.flatMap Tok.src).length := by
      simp [Array.toList_extract, List.take_drop]
    rw [this, ← ht]; simp
  rw [hslice]
  cases hall : ts.all Tok.isPlainTok with
  | true => simp [flatMap_out_of_allPlain w ts hall]
  | false =>
    have hne : ts.flatMap (Tok.out w) ≠ [] := by
      intro he
      have : ∃ t ∈ ts, t.isPlainTok = false := by
        simpa using hall
      obtain ⟨t0, ht0, _⟩ := this
      have := Tok.out_ne_nil w t0 (hok t0 ht0)
      have hmem : ∀ x ∈ t0.out w, x ∈ ts.flatMap (Tok.out w) := fun x hx => List.mem_flatMap.2 ⟨t0, ht0, hx⟩
      rw [he] at hmem
      cases hcase : t0.out w with
      | nil => exact this hcase
      | cons a b => exact absurd (hmem a (by simp [hcase])) (by simp)
    simp [hne]

end Qentem.Json
