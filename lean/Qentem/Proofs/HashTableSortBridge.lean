import Qentem.Proofs.HashTableSentences
import Qentem.Proofs.Sort
import Qentem.Proofs.Order
/-!
Bridge between the two transcriptions of `Memory::Sort`: C15's checked `Qentem.Sort.sortSeg`
(`Option`, faults on out-of-range access) and the total `Qentem.HashTable.sortSeg` used by the hash
table model.  Whenever the checked one succeeds, the total one returns the same array for the same
fuel; C15's `sortSeg_spec` then gives the ordering the C13 statement `sort_orders_keys` needs.
-/
namespace Qentem.HashTable
variable {α : Type}

theorem swapIfInBounds_of_swap? {arr arr' : Array α} {i j : Nat} (h : Sort.swap? arr i j = some arr') :
    arr.swapIfInBounds i j = arr' := by
  unfold Sort.swap? at h
  split at h
  · rename_i hb
    rw [Array.swapIfInBounds_def, dif_pos hb.1, dif_pos hb.2]
    exact Option.some.inj h
  · cases h

theorem sortPart_of_partLoopN (before : α → α → Bool) (start stop : Nat) :
    ∀ (n : Nat) (arr : Array α) (index offset : Nat) (r : Array α × Nat),
    n = stop - offset → Sort.partLoopN before n arr start index offset stop = some r →
    sortPart before start n arr index offset = r
  | 0, arr, index, offset, r, _, h => by
    simp only [Sort.partLoopN] at h
    split at h
    · cases h
    · simp only [sortPart]; exact Option.some.inj h
  | n + 1, arr, index, offset, r, hn, h => by
    have hlt : offset < stop := by omega
    simp only [Sort.partLoopN, hlt, if_true] at h
    simp only [sortPart]
    cases hx : arr[offset]? with
    | none => rw [hx] at h; simp at h
    | some x =>
      cases hp : arr[start]? with
      | none => rw [hx, hp] at h; simp at h
      | some p =>
        rw [hx, hp] at h
        simp only at h ⊢
        by_cases hb : before x p = true
        · simp only [hb, if_true] at h ⊢
          cases hs : Sort.swap? arr (index + 1) offset with
          | none => rw [hs] at h; simp at h
          | some arr' =>
            rw [hs] at h
            rw [swapIfInBounds_of_swap? hs]
            exact sortPart_of_partLoopN before start stop n arr' (index + 1) (offset + 1) r (by omega) h
        · simp only [hb, Bool.false_eq_true, if_false] at h ⊢
          exact sortPart_of_partLoopN before start stop n arr index (offset + 1) r (by omega) h

/-- Same fuel, same result, whenever the checked version does not fault. -/
theorem sortSeg_of_checked (before : α → α → Bool) :
    ∀ (fuel : Nat) (arr : Array α) (start stop : Nat) (r : Array α),
    Sort.sortSeg before fuel arr start stop = some r → sortSeg before fuel arr start stop = r
  | 0, arr, start, stop, r, h => by
    simp only [Sort.sortSeg] at h
    split at h
    · simp only [sortSeg]; exact Option.some.inj h
    · cases h
  | fuel + 1, arr, start, stop, r, h => by
    simp only [Sort.sortSeg] at h
    simp only [sortSeg]
    by_cases hse : start = stop
    · simp only [hse, if_true] at h
      simp only [hse, ne_eq, not_true_eq_false, if_false]
      exact Option.some.inj h
    · simp only [hse, if_false] at h
      simp only [hse, ne_eq, not_false_eq_true, if_true]
      cases hpl : Sort.partLoop before arr start start (start + 1) stop with
      | none => rw [hpl] at h; simp at h
      | some pr =>
        obtain ⟨arr1, index⟩ := pr
        rw [hpl] at h
        simp only at h
        have hpart := sortPart_of_partLoopN before start stop (stop - (start + 1)) arr start (start + 1)
          (arr1, index) rfl hpl
        rw [hpart]
        simp only
        cases hsw : (if index ≠ start then Sort.swap? arr1 index start else some arr1) with
        | none => rw [hsw] at h; simp at h
        | some arr2 =>
          rw [hsw] at h
          simp only at h
          have harr2 : (if index ≠ start then arr1.swapIfInBounds index start else arr1) = arr2 := by
            by_cases hi : index = start
            · simp only [hi, ne_eq, not_true_eq_false, if_false] at hsw ⊢
              exact Option.some.inj hsw
            · simp only [hi, ne_eq, not_false_eq_true, if_true] at hsw ⊢
              exact swapIfInBounds_of_swap? hsw
          rw [harr2]
          cases h3 : Sort.sortSeg before fuel arr2 start index with
          | none => rw [h3] at h; simp at h
          | some arr3 =>
            rw [h3] at h
            simp only at h
            rw [sortSeg_of_checked before fuel arr2 start index arr3 h3]
            exact sortSeg_of_checked before fuel arr3 (index + 1) stop r h

/-- `Memory::Sort` as modelled for the hash table returns an ordered array, for every comparison
that is asymmetric and transitive on the elements present (C15's `StrictOn`). -/
theorem sortSeg_sorted (before : α → α → Bool) (P : α → Prop) (hord : Sort.StrictOn P before)
    (arr : Array α) (hP : ∀ x, x ∈ arr → P x) :
    (sortSeg before (arr.size + 1) arr 0 arr.size).toList.Pairwise (fun x y => before y x = false) := by
  obtain ⟨arr', h1, h2, h3⟩ := Sort.sortSeg_spec before P hord (arr.size + 1) arr 0 arr.size (Nat.zero_le _)
    (Nat.le_refl _) (by omega) (by intro k x _ _ hx; exact hP x (Array.mem_of_getElem? hx))
  rw [sortSeg_of_checked before _ arr 0 arr.size arr' h1]
  rw [List.pairwise_iff_getElem]
  intro i j hi hj hij
  have hi' : i < arr'.size := by simpa using hi
  have hj' : j < arr'.size := by simpa using hj
  have hsz : arr'.size = arr.size := h2.size_eq
  exact h3 i j _ _ (Nat.zero_le _) hij (by omega)
    (by rw [Array.getElem?_eq_getElem hi', Array.getElem_toList])
    (by rw [Array.getElem?_eq_getElem hj', Array.getElem_toList])

/-- The key comparison of the hash table is C15's string comparison on the ranks of the units. -/
theorem isLess_map (ord : Nat → Nat) : ∀ (a b : List Nat) (e : Bool),
    Hash.isLess ord a b e = Order.isLess (a.map ord) (b.map ord) e
  | [], b, e => by cases b <;> cases e <;> simp [Hash.isLess, Order.isLess]
  | a :: l, [], e => by simp [Hash.isLess, Order.isLess]
  | a :: l, b :: r, e => by
    simp only [Hash.isLess, Order.isLess, List.map_cons]
    rw [isLess_map ord l r e]

theorem slotCmp_strict {V : Type} (ord : Nat → Nat) :
    Sort.StrictOn (fun _ : Option (List Nat × V) => True) (Spec.slotCmp ord true) := by
  have hbase : Sort.StrictOn (fun _ : List Nat => True) (fun a b => Order.isLess a b false) := by
    refine ⟨?_, ?_⟩
    · intro x y _ _ h
      rw [Order.isLess_false_eq_lexLt] at h ⊢
      exact Order.lexLt_asymm x y h
    · intro x y z _ _ _ h1 h2
      rw [Order.isLess_false_eq_lexLt] at h1 h2 ⊢
      exact Order.lexLt_trans x y z h1 h2
  have := hbase.comap (fun o : Option (List Nat × V) => (Spec.slotKey o).map ord)
  refine ⟨?_, ?_⟩
  · intro x y hx hy h
    simp only [Spec.slotCmp, if_true, isLess_map] at h ⊢
    exact this.asymm x y trivial trivial h
  · intro x y z hx hy hz h1 h2
    simp only [Spec.slotCmp, if_true, isLess_map] at h1 h2 ⊢
    exact this.trans x y z trivial trivial trivial h1 h2

end Qentem.HashTable
