import Qentem.Model.SeqTree
/-! Get/set laws of paths in a tree of arrays (C14, Array of a recursive owning item type). -/
namespace Qentem.SeqTree

/-- identity of a node: everything but its kids -/
def Node.ident (n : Node) : Nat × Nat := (n.id, n.tag)

theorem getAt_setKidsAt_same : ∀ (d : List Nat) (root dn : Node) (ks : List Node),
    getAt root d = some dn → getAt (setKidsAt root d ks) d = some ⟨dn.id, dn.tag, ks⟩ := by
  intro d
  induction d with
  | nil => intro root dn ks h; simp only [getAt] at h; injection h with h; subst h; rfl
  | cons i p ih =>
    intro root dn ks h
    simp only [getAt] at h
    cases hk : root.kids[i]? with
    | none => simp [hk] at h
    | some k =>
      simp only [hk] at h
      have hi : i < root.kids.length := by
        rcases Nat.lt_or_ge i root.kids.length with h1 | h1
        · exact h1
        · rw [List.getElem?_eq_none h1] at hk; simp at hk
      simp only [setKidsAt, hk, getAt]
      rw [List.getElem?_set_self hi]
      exact ih k dn ks h

/-- Paths that leave the path to `d` before reaching it, and do not pass through it, see no change. -/
theorem getAt_setKidsAt_disjoint : ∀ (d p : List Nat) (root : Node) (ks : List Node),
    ¬ d <+: p → ¬ p <+: d → getAt (setKidsAt root d ks) p = getAt root p := by
  intro d
  induction d with
  | nil => intro p root ks h _; exact absurd (List.nil_prefix) h
  | cons i d' ih =>
    intro p root ks h1 h2
    cases p with
    | nil => exact absurd (List.nil_prefix) h2
    | cons j p' =>
      cases hk : root.kids[i]? with
      | none => simp [setKidsAt, hk]
      | some k =>
        simp only [setKidsAt, hk, getAt]
        by_cases e : j = i
        · subst e
          have hi : j < root.kids.length := by
            rcases Nat.lt_or_ge j root.kids.length with h3 | h3
            · exact h3
            · rw [List.getElem?_eq_none h3] at hk; simp at hk
          rw [List.getElem?_set_self hi, hk]
          exact ih p' k ks (fun h => h1 ((List.cons_prefix_cons).2 ⟨rfl, h⟩))
            (fun h => h2 ((List.cons_prefix_cons).2 ⟨rfl, h⟩))
        · rw [List.getElem?_set_ne (fun h => e h.symm)]

/-- Replacing kids at `s` does not change which node sits at `d`, nor its id/tag, unless `d` lies
strictly below `s`. -/
theorem getAt_setKidsAt_ident : ∀ (s d : List Nat) (root : Node) (ks : List Node),
    ¬ (s <+: d ∧ s ≠ d) →
    (getAt (setKidsAt root s ks) d).map Node.ident = (getAt root d).map Node.ident := by
  intro s
  induction s with
  | nil =>
    intro d root ks h
    have : d = [] := by
      cases d with
      | nil => rfl
      | cons a t => exact absurd ⟨List.nil_prefix, by simp⟩ h
    subst this; rfl
  | cons i s' ih =>
    intro d root ks h
    cases d with
    | nil =>
      cases hk : root.kids[i]? <;> simp [setKidsAt, hk, getAt, Node.ident]
    | cons j d' =>
      cases hk : root.kids[i]? with
      | none => simp [setKidsAt, hk]
      | some k =>
        simp only [setKidsAt, hk, getAt]
        by_cases e : j = i
        · subst e
          have hi : j < root.kids.length := by
            rcases Nat.lt_or_ge j root.kids.length with h3 | h3
            · exact h3
            · rw [List.getElem?_eq_none h3] at hk; simp at hk
          rw [List.getElem?_set_self hi, hk]
          apply ih d' k ks
          rintro ⟨hp, hne⟩
          exact h ⟨(List.cons_prefix_cons).2 ⟨rfl, hp⟩, by simpa using hne⟩
        · rw [List.getElem?_set_ne (fun h => e h.symm)]

/-- The node at `d` still exists after kids were replaced at `s` (not strictly above `d`). -/
theorem getAt_setKidsAt_exists (s d : List Nat) (root dn : Node) (ks : List Node)
    (h : ¬ (s <+: d ∧ s ≠ d)) (hd : getAt root d = some dn) :
    ∃ dn', getAt (setKidsAt root s ks) d = some dn' ∧ dn'.id = dn.id ∧ dn'.tag = dn.tag := by
  have := getAt_setKidsAt_ident s d root ks h
  rw [hd] at this
  cases hg : getAt (setKidsAt root s ks) d with
  | none => simp [hg] at this
  | some dn' =>
    simp only [hg, Option.map_some, Option.some.injEq, Node.ident, Prod.mk.injEq] at this
    exact ⟨dn', rfl, this.1, this.2⟩

end Qentem.SeqTree
