import Qentem.Model.FmtSpec
import Qentem.Proofs.StrToNumRat
/-! C09 ↔ C11 interface: the formatter area's reference rounding `FmtSpec.nearestBits 52 11` is the
same function as this area's `nearestMag` (plus the sign bit). Two independently written
specifications of IEEE 754 round-to-nearest-even agree. -/
namespace Qentem.Round
open Qentem

theorem roundHalfEven_eq_rne (n d : Nat) : FmtSpec.roundHalfEven n d = rne n d := by
  unfold FmtSpec.roundHalfEven rne
  simp only
  generalize n / d = q
  generalize n % d = r
  by_cases h1 : 2 * r < d
  · have h : ¬ (d < 2 * r ∨ 2 * r = d ∧ q % 2 = 1) := by omega
    rw [if_neg h, if_pos h1]
  · by_cases h2 : 2 * r > d
    · have h : d < 2 * r ∨ 2 * r = d ∧ q % 2 = 1 := Or.inl h2
      rw [if_pos h, if_neg h1, if_pos h2]
    · have h3 : 2 * r = d := by omega
      by_cases h4 : q % 2 = 0
      · have h : ¬ (d < 2 * r ∨ 2 * r = d ∧ q % 2 = 1) := by omega
        rw [if_neg h, if_neg h1, if_neg h2, if_pos h4]
      · have h : d < 2 * r ∨ 2 * r = d ∧ q % 2 = 1 := Or.inr ⟨h3, by omega⟩
        rw [if_pos h, if_neg h1, if_neg h2, if_neg h4]

/-- the common tail of both specifications once the binade exponent `E ≥ -1022` is fixed -/
def tailBits (E : Int) (num den : Nat) : Nat :=
  cap ((E + 1022).toNat * 2 ^ 52 +
    (if 0 ≤ E - 52 then rne num (den * 2 ^ (E - 52).toNat) else rne (num * 2 ^ (-(E - 52)).toNat) den))

theorem nearestMag_tail (n d : Nat) (hn : 0 < n) (hd : 0 < d) :
    nearestMag n d = tailBits (if floorLog2Frac n d < -1022 then -1022 else floorLog2Frac n d) n d := by
  unfold nearestMag tailBits cap
  have : ¬ (n = 0 ∨ d = 0) := by omega
  simp only [this, if_false]
  generalize (if floorLog2Frac n d < -1022 then (-1022 : Int) else floorLog2Frac n d) = E
  by_cases hq : 0 ≤ E - 52
  · have t1 : ((52 : Int) - E).toNat = 0 := by omega
    have t2 : (-((52 : Int) - E)).toNat = (E - 52).toNat := by congr 1; omega
    rw [if_pos hq, t1, t2, Nat.pow_zero, Nat.mul_one]
  · have t1 : ((52 : Int) - E).toNat = (-(E - 52)).toNat := by congr 1; omega
    have t2 : (-((52 : Int) - E)).toNat = 0 := by omega
    rw [if_neg hq, t1, t2, Nat.pow_zero, Nat.mul_one]

/-- the formatter area's binade exponent is this area's `floorLog2Frac` -/
theorem their_exponent (num den : Nat) :
    (if (if 0 ≤ (Nat.log2 num : Int) - (Nat.log2 den : Int)
          then decide (den * 2 ^ ((Nat.log2 num : Int) - (Nat.log2 den : Int)).toNat ≤ num)
          else decide (den ≤ num * 2 ^ (-((Nat.log2 num : Int) - (Nat.log2 den : Int))).toNat)) = true
      then (Nat.log2 num : Int) - (Nat.log2 den : Int) else (Nat.log2 num : Int) - (Nat.log2 den : Int) - 1) =
    floorLog2Frac num den := by
  unfold floorLog2Frac
  simp only
  generalize (Nat.log2 num : Int) - (Nat.log2 den : Int) = e0
  by_cases hs : 0 ≤ e0
  · have t : (-e0).toNat = 0 := by omega
    rw [if_pos hs, t, Nat.pow_zero, Nat.mul_one]
    by_cases h : den * 2 ^ e0.toNat ≤ num
    · simp [h]
    · simp [h]
  · have t : e0.toNat = 0 := by omega
    rw [if_neg hs, t, Nat.pow_zero, Nat.mul_one]
    by_cases h : den ≤ num * 2 ^ (-e0).toNat
    · simp [h]
    · simp [h]

theorem nearestBits_eq (neg : Bool) (num den : Nat) (hd : 0 < den) :
    FmtSpec.nearestBits 52 11 neg num den = (if neg then 2 ^ 63 else 0) + nearestMag num den := by
  by_cases h0 : num = 0
  · subst h0
    simp [FmtSpec.nearestBits, nearestMag]
  · have hn : 0 < num := by omega
    rw [nearestMag_tail num den hn hd, ← their_exponent num den]
    unfold FmtSpec.nearestBits tailBits cap infBits
    simp only [h0, if_false]
    have hbias : ((2 : Int) ^ (11 - 1) - 1) = 1023 := by norm_num
    rw [hbias]
    generalize (if (if 0 ≤ (Nat.log2 num : Int) - (Nat.log2 den : Int)
          then decide (den * 2 ^ ((Nat.log2 num : Int) - (Nat.log2 den : Int)).toNat ≤ num)
          else decide (den ≤ num * 2 ^ (-((Nat.log2 num : Int) - (Nat.log2 den : Int))).toNat)) = true
      then (Nat.log2 num : Int) - (Nat.log2 den : Int) else (Nat.log2 num : Int) - (Nat.log2 den : Int) - 1) = e
    have hemin : ((1 : Int) - 1023) = -1022 := by norm_num
    rw [hemin]
    generalize (if e < -1022 then (-1022 : Int) else e) = E
    have t3 : (E + 1023 - 1).toNat = (E + 1022).toNat := by congr 1; omega
    have hcast : ((52 : Nat) : Int) = 52 := rfl
    rw [t3, hcast]
    have hinf : (2 ^ 11 - 1) * 2 ^ 52 = (0x7FF0000000000000 : Nat) := by norm_num
    rw [hinf]
    have h63 : (2 : Nat) ^ (52 + 11) = 2 ^ 63 := by norm_num
    rw [h63]
    simp only [roundHalfEven_eq_rne, ge_iff_le]

/-- binade exponent of `n/d` as both specifications choose it (`≥ -1022`: gradual underflow) -/
def binadeExp (n d : Nat) : Int := if floorLog2Frac n d < -1022 then -1022 else floorLog2Frac n d

/-- `(A, B)` with `A/B = (n/d) / ulp`: the quotient that is rounded to the 53-bit significand -/
def roundPair (n d : Nat) : Nat × Nat :=
  if 0 ≤ binadeExp n d - 52 then (n, d * 2 ^ (binadeExp n d - 52).toNat)
  else (n * 2 ^ (-(binadeExp n d - 52)).toNat, d)

theorem nearestMag_pair (n d : Nat) (hn : 0 < n) (hd : 0 < d) :
    nearestMag n d = cap ((binadeExp n d + 1022).toNat * 2 ^ 52 + rne (roundPair n d).1 (roundPair n d).2) := by
  rw [nearestMag_tail n d hn hd]
  have hE : (if floorLog2Frac n d < -1022 then (-1022 : Int) else floorLog2Frac n d) = binadeExp n d := rfl
  rw [hE]
  unfold tailBits roundPair
  generalize binadeExp n d = E
  by_cases h : 0 ≤ E - 52
  · rw [if_pos h, if_pos h]
  · rw [if_neg h, if_neg h]

end Qentem.Round
