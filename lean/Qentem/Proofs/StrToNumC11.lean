import Qentem.Model.FmtSpec
import Qentem.Proofs.StrToNumRat
/-! C09 ↔ C11 interface: the formatter area's reference rounding `FmtSpec.nearestBits 52 11` is the
same function as this area's `nearestMag` (plus the sign bit). Two independently written
specifications of IEEE 754 round-to-nearest-even agree. -/
namespace Qentem.Round
open Qentem

theorem roundHalfEven_eq_rne (n d : Nat) : FmtSpec.roundHalfEven n d = rne n d := by
  unfold FmtSpec.roundHalfEven rne
  simp only
  generalize n / d = q
  generalize n % d = r
  by_cases h1 : 2 * r < d
  · have h : ¬ (d < 2 * r ∨ 2 * r = d ∧ q % 2 = 1) := by omega
    rw [if_neg h, if_pos h1]
  · by_cases h2 : 2 * r > d
    · have h : d < 2 * r ∨ 2 * r = d ∧ q % 2 = 1 := Or.inl h2
      rw [if_pos h, if_neg h1, if_pos h2]
    · have h3 : 2 * r = d := by omega
      by_cases h4 : q % 2 = 0
      · have h : ¬ (d < 2 * r ∨ 2 * r = d ∧ q % 2 = 1) := by omega
        rw [if_neg h, if_neg h1, if_neg h2, if_pos h4]
      · have h : d < 2 * r ∨ 2 * r = d ∧ q % 2 = 1 := Or.inr ⟨h3, by omega⟩
        rw [if_pos h, if_neg h1, if_neg h2, if_neg h4]

/-- the common tail of both specifications once the binade exponent `E ≥ -1022` is fixed -/
def tailBits (E : Int) (num den : Nat) : Nat :=
  cap ((E + 1022).toNat * 2 ^ 52 +
    (if 0 ≤ E - 52 then rne num (den * 2 ^ (E - 52).toNat) else rne (num * 2 ^ (-(E - 52)).toNat) den))

theorem nearestMag_tail (n d : Nat) (hn : 0 < n) (hd : 0 < d) :
    nearestMag n d = tailBits (if floorLog2Frac n d < -1022 then -1022 else floorLog2Frac n d) n d := by
  unfold nearestMag tailBits cap
  have : ¬ (n = 0 ∨ d = 0) := by omega
  simp only [this, if_false]
  generalize (if floorLog2Frac n d < -1022 then (-1022 : Int) else floorLog2Frac n d) = E
  by_cases hq : 0 ≤ E - 52
  · have t1 : ((52 : Int) - E).toNat = 0 := by omega
    have t2 : (-((52 : Int) - E)).toNat = (E - 52).toNat := by congr 1; omega
    rw [if_pos hq, t1, t2, Nat.pow_zero, Nat.mul_one]
  · have t1 : ((52 : Int) - E).toNat = (-(E - 52)).toNat := by congr 1; omega
    have t2 : (-((52 : Int) - E)).toNat = 0 := by omega
    rw [if_neg hq, t1, t2, Nat.pow_zero, Nat.mul_one]

/-- the formatter area's binade exponent is this area's `floorLog2Frac` -/
theorem their_exponent (num den : Nat) :
    (if (if 0 ≤ (Nat.log2 num : Int) - (Nat.log2 den : Int)
          then decide (den * 2 ^ ((Nat.log2 num : Int) - (Nat.log2 den : Int)).toNat ≤ num)
          else decide (den ≤ num * 2 ^ (-((Nat.log2 num : Int) - (Nat.log2 den : Int))).toNat)) = true
      then (Nat.log2 num : Int) - (Nat.log2 den : Int) else (Nat.log2 num : Int) - (Nat.log2 den : Int) - 1) =
    floorLog2Frac num den := by
  unfold floorLog2Frac
  simp only
  generalize (Nat.log2 num : Int) - (Nat.log2 den : Int) = e0
  by_cases hs : 0 ≤ e0
  · have t : (-e0).toNat = 0 := by omega
    rw [if_pos hs, t, Nat.pow_zero, Nat.mul_one]
    by_cases h : den * 2 ^ e0.toNat ≤ num
    · simp [h]
    · simp [h]
  · have t : e0.toNat = 0 := by omega
    rw [if_neg hs, t, Nat.pow_zero, Nat.mul_one]
    by_cases h : den ≤ num * 2 ^ (-e0).toNat
    · simp [h]
    · simp [h]

theorem nearestBits_eq (neg : Bool) (num den : Nat) (hd : 0 < den) :
    FmtSpec.nearestBits 52 11 neg num den = (if neg then 2 ^ 63 else 0) + nearestMag num den := by
  by_cases h0 : num = 0
  · subst h0
    simp [FmtSpec.nearestBits, nearestMag]
  · have hn : 0 < num := by omega
    rw [nearestMag_tail num den hn hd, ← their_exponent num den]
    unfold FmtSpec.nearestBits tailBits cap infBits
    simp only [h0, if_false]
    have hbias : ((2 : Int) ^ (11 - 1) - 1) = 1023 := by norm_num
    rw [hbias]
    generalize (if (if 0 ≤ (Nat.log2 num : Int) - (Nat.log2 den : Int)
          then decide (den * 2 ^ ((Nat.log2 num : Int) - (Nat.log2 den : Int)).toNat ≤ num)
          else decide (den ≤ num * 2 ^ (-((Nat.log2 num : Int) - (Nat.log2 den : Int))).toNat)) = true
      then (Nat.log2 num : Int) - (Nat.log2 den : Int) else (Nat.log2 num : Int) - (Nat.log2 den : Int) - 1) = e
    have hemin : ((1 : Int) - 1023) = -1022 := by norm_num
    rw [hemin]
    generalize (if e < -1022 then (-1022 : Int) else e) = E
    have t3 : (E + 1023 - 1).toNat = (E + 1022).toNat := by congr 1; omega
    have hcast : ((52 : Nat) : Int) = 52 := rfl
    rw [t3, hcast]
    have hinf : (2 ^ 11 - 1) * 2 ^ 52 = (0x7FF0000000000000 : Nat) := by norm_num
    rw [hinf]
    have h63 : (2 : Nat) ^ (52 + 11) = 2 ^ 63 := by norm_num
    rw [h63]
    simp only [roundHalfEven_eq_rne, ge_iff_le]

/-- binade exponent of `n/d` as both specifications choose it (`≥ -1022`: gradual underflow) -/
def binadeExp (n d : Nat) : Int := if floorLog2Frac n d < -1022 then -1022 else floorLog2Frac n d

/-- `(A, B)` with `A/B = (n/d) / ulp`: the quotient that is rounded to the 53-bit significand -/
def roundPair (n d : Nat) : Nat × Nat :=
  if 0 ≤ binadeExp n d - 52 then (n, d * 2 ^ (binadeExp n d - 52).toNat)
  else (n * 2 ^ (-(binadeExp n d - 52)).toNat, d)

theorem nearestMag_pair (n d : Nat) (hn : 0 < n) (hd : 0 < d) :
    nearestMag n d = cap ((binadeExp n d + 1022).toNat * 2 ^ 52 + rne (roundPair n d).1 (roundPair n d).2) := by
  rw [nearestMag_tail n d hn hd]
  have hE : (if floorLog2Frac n d < -1022 then (-1022 : Int) else floorLog2Frac n d) = binadeExp n d := rfl
  rw [hE]
  unfold tailBits roundPair
  generalize binadeExp n d = E
  by_cases h : 0 ≤ E - 52
  · rw [if_pos h, if_pos h]
  · rw [if_neg h, if_neg h]

/-- every positive fraction sits in some binade: `d·2^L ≤ n·2^sh < d·2^(L+1)` -/
theorem exists_binade (n d : Nat) (hn : 0 < n) (hd : 0 < d) :
    ∃ L sh, d * 2 ^ L ≤ n * 2 ^ sh ∧ n * 2 ^ sh < d * 2 ^ (L + 1) := by
  obtain ⟨_, hdhi⟩ := log2_bounds d (by omega)
  have hq0 : n * 2 ^ (Nat.log2 d + 1) / d ≠ 0 := by
    intro h
    rcases (Nat.div_eq_zero_iff).1 h with h | h
    · omega
    · have : 1 * 2 ^ (Nat.log2 d + 1) ≤ n * 2 ^ (Nat.log2 d + 1) := Nat.mul_le_mul_right _ hn
      omega
  obtain ⟨l1, l2⟩ := log2_bounds _ hq0
  refine ⟨Nat.log2 (n * 2 ^ (Nat.log2 d + 1) / d), Nat.log2 d + 1, ?_, ?_⟩
  · exact Nat.le_trans (Nat.mul_le_mul_left _ l1) (Nat.mul_div_le _ _)
  · have := (Nat.div_lt_iff_lt_mul hd).1 l2
    rw [Nat.mul_comm d]; exact this

theorem floorLog2Frac_scale (n d c : Nat) (hn : 0 < n) (hd : 0 < d) (hc : 0 < c) :
    floorLog2Frac (n * c) (d * c) = floorLog2Frac n d := by
  obtain ⟨L, sh, h1, h2⟩ := exists_binade n d hn hd
  rw [floorLog2Frac_shift n d L sh hn hd h1 h2]
  apply floorLog2Frac_shift (n * c) (d * c) L sh (Nat.mul_pos hn hc) (Nat.mul_pos hd hc)
  · calc d * c * 2 ^ L = d * 2 ^ L * c := by ring
      _ ≤ n * 2 ^ sh * c := Nat.mul_le_mul_right _ h1
      _ = n * c * 2 ^ sh := by ring
  · calc n * c * 2 ^ sh = n * 2 ^ sh * c := by ring
      _ < d * 2 ^ (L + 1) * c := Nat.mul_lt_mul_of_pos_right h2 hc
      _ = d * c * 2 ^ (L + 1) := by ring

theorem binadeExp_scale (n d c : Nat) (hn : 0 < n) (hd : 0 < d) (hc : 0 < c) :
    binadeExp (n * c) (d * c) = binadeExp n d := by
  unfold binadeExp; rw [floorLog2Frac_scale n d c hn hd hc]

theorem roundPair_scale (n d c : Nat) (hn : 0 < n) (hd : 0 < d) (hc : 0 < c) :
    roundPair (n * c) (d * c) = ((roundPair n d).1 * c, (roundPair n d).2 * c) := by
  unfold roundPair
  rw [binadeExp_scale n d c hn hd hc]
  split
  · simp only [Prod.mk.injEq, true_and]; ring
  · simp only [Prod.mk.injEq, and_true]; ring

/-- the correctly rounded pattern depends on the fraction only -/
theorem nearestMag_scale (n d c : Nat) (hn : 0 < n) (hd : 0 < d) (hc : 0 < c) :
    nearestMag (n * c) (d * c) = nearestMag n d := by
  have hpos : 0 < (roundPair n d).2 := by
    unfold roundPair
    split
    · exact Nat.mul_pos hd (Nat.pow_pos (by decide))
    · exact hd
  rw [nearestMag_pair (n * c) (d * c) (Nat.mul_pos hn hc) (Nat.mul_pos hd hc), nearestMag_pair n d hn hd,
    binadeExp_scale n d c hn hd hc, roundPair_scale n d c hn hd hc]
  simp only
  rw [rne_mul_right _ _ c hpos hc]

end Qentem.Round
