import Qentem.Proofs.StrToNumFinish
import Qentem.Proofs.StrToNumSign
/-! C09 helper lemmas: the mantissa scan of `d₁ digits . digits` that fits the 19-unit window, and
the common outcome statement for a scanned mantissa with its net decimal exponent. -/
namespace Qentem.StrToNum
open Qentem.Round

theorem foldl_pushDigit_append (xs ys : List Nat) (a : Nat) :
    (xs ++ ys).foldl pushDigit a = ys.foldl pushDigit (xs.foldl pushDigit a) := by
  rw [List.foldl_append]

theorem sub32_sub32 (a b c : Nat) (h : b + c ≤ a) (ha : a < 2 ^ 32) : sub32 (sub32 a b) c = a - b - c := by
  rw [sub32_eq a b (by omega) ha, sub32_eq (a - b) c (by omega) (by omega)]

theorem afterScan_mk_real (c : List Nat) (e : Nat) (neg : Bool) (start : Nat) (fo : Bool) (num off : Nat) (hasDot : Bool)
    (dotOff : Nat) :
    afterScan c e neg start fo ⟨num, off, hasDot, dotOff, true⟩ = finishReal c e neg num off off start fo hasDot dotOff := by
  unfold afterScan twentieth
  simp

/-- `d₁ xs . ys` with `ys ≠ []`, `ys ≠ "0"`, the whole mantissa (dot included) inside the window:
the scan ends at `Q` (first unit after `ys`) holding all the digits. -/
theorem afterSign_frac (c : List Nat) (e : Nat) (neg : Bool) (off d1 : Nat) (xs ys : List Nat) (he : e < 2 ^ 32)
    (h1 : isNonZeroDigit d1 = true) (hxs : AllDigits xs) (hys : AllDigits ys) (hy0 : ys ≠ []) (hy48 : ys ≠ [48])
    (hlen : xs.length + ys.length ≤ 17)
    (hu : unitsAt c e off (d1 :: xs ++ [46] ++ ys))
    (hstop : off + 1 + xs.length + 1 + ys.length = e ∨
      ∃ x, rd c e (off + 1 + xs.length + 1 + ys.length) = some x ∧ isDigit x = false ∧ x ≠ 46) :
    afterSign c e neg off =
      finishReal c e neg (decVal (d1 :: xs ++ ys)) (off + 1 + xs.length + 1 + ys.length)
        (off + 1 + xs.length + 1 + ys.length) off false true (off + 1 + xs.length) := by
  have hu1 := (unitsAt_append c e (d1 :: xs ++ [46]) ys off).1 hu
  have hu2 := (unitsAt_append c e (d1 :: xs) [46] off).1 hu1.1
  have hd1xs : unitsAt c e off (d1 :: xs) := hu2.1
  have hP : rd c e (off + 1 + xs.length) = some 46 := by
    have := hu2.2.1; simp only [List.length_cons] at this
    rw [show off + 1 + xs.length = off + (xs.length + 1) by omega]; exact this
  have huy : unitsAt c e (off + 1 + xs.length + 1) ys := by
    have := hu1.2; simp only [List.length_cons, List.length_append, List.length_nil] at this
    rw [show off + 1 + xs.length + 1 = off + (xs.length + 1 + (0 + 1)) by omega]; exact this
  have hoff : off < e := rd_lt hd1xs.1
  have hQe : off + 1 + xs.length + 1 + ys.length ≤ e := by
    have := unitsAt_le c e ys _ huy hy0; omega
  have hd1dig := isNonZeroDigit_isDigit h1
  -- window
  have hW : off + 1 + xs.length + 1 + ys.length ≤ windowEnd e off := by
    rw [windowEnd_eq e off he hoff]; split <;> omega
  have hWe : windowEnd e off ≤ e := (windowEnd_bounds e off he hoff).2
  -- digits' value
  have hall : AllDigits (d1 :: xs ++ ys) := by
    intro y hy
    simp only [List.cons_append, List.mem_cons, List.mem_append] at hy
    rcases hy with h | h | h
    · subst h; exact hd1dig
    · exact hxs y h
    · exact hys y h
  have hv64 : decVal (d1 :: xs ++ ys) < 2 ^ 64 := by
    have := decVal_lt_pow _ hall
    have hl : (d1 :: xs ++ ys).length ≤ 18 := by simp; omega
    exact Nat.lt_of_lt_of_le this (Nat.le_trans (Nat.pow_le_pow_right (by decide) hl) (by decide))
  have hfold : ys.foldl pushDigit (xs.foldl pushDigit (d1 - 48)) = decVal (d1 :: xs ++ ys) := by
    rw [← foldl_pushDigit_append]
    have hd : decVal (d1 :: xs ++ ys) = decVal (d1 :: (xs ++ ys)) := by simp
    rw [hd] at hv64 ⊢
    rw [foldl_pushDigit (xs ++ ys) (d1 - 48) (by rw [decVal_cons] at hv64; exact hv64), decVal_cons]
  rw [afterSign]
  simp only [hoff, if_true, hd1xs.1, h1]
  generalize windowEnd e off = W at hW hWe ⊢
  -- first pass: up to the dot
  obtain ⟨dd, hsc, hdd⟩ := scanDigits_stop c e xs (W - (off + 1)) (off + 1) (d1 - 48) d1 hxs hd1xs.2 (by omega)
    (Or.inr ⟨46, hP, by decide⟩)
  have hdd46 : dd = 46 := by
    rcases hdd with h | ⟨h, _⟩
    · -- the run ended by the window: impossible, the dot is inside
      exfalso
      rw [scanDigits_run c e xs (W - (off + 1)) (off + 1) (d1 - 48) d1 hxs hd1xs.2 (by omega)] at hsc
      obtain ⟨j, hj⟩ : ∃ j, W - (off + 1) - xs.length = j + 1 := ⟨W - (off + 1) - xs.length - 1, by omega⟩
      rw [hj, scanDigits, hP] at hsc
      simp [isDigit] at hsc
      rw [h] at hsc
      by_cases hnil : xs = []
      · subst hnil; simp at hsc; subst hsc; simp [isDigit] at hd1dig
      · have := getLast_digit xs d1 hxs hnil
        rw [← hsc] at this; simp [isDigit] at this
    · rw [hP] at h; exact (Option.some.inj h).symm
  subst hdd46
  obtain ⟨y1, yt, hyseq⟩ : ∃ y1 yt, ys = y1 :: yt := by
    cases ys with
    | nil => exact absurd rfl hy0
    | cons a b => exact ⟨a, b, rfl⟩
  have hy1 : rd c e (off + 1 + xs.length + 1) = some y1 := by rw [hyseq] at huy; exact huy.1
  have hy1d : isDigit y1 = true := hys y1 (by rw [hyseq]; simp)
  have hylen : ys.length = yt.length + 1 := by rw [hyseq]; simp
  -- second pass over the fraction digits
  have hiter2 : ∀ dg, iter2 c e W (xs.foldl pushDigit (d1 - 48)) (off + 1 + xs.length + 1) dg (off + 1 + xs.length) =
      some (.inr ⟨decVal (d1 :: xs ++ ys), off + 1 + xs.length + 1 + ys.length, true, off + 1 + xs.length, true⟩) := by
    intro dg
    rw [iter2]
    have : off + 1 + xs.length + 1 < e := rd_lt hy1
    simp only [this, if_true]
    obtain ⟨d', hs2, hd'⟩ := scanDigits_stop c e ys (W - (off + 1 + xs.length + 1)) (off + 1 + xs.length + 1)
      (xs.foldl pushDigit (d1 - 48)) dg hys huy (by omega)
      (by
        rcases hstop with h | ⟨x, hx, hxd, _⟩
        · left; omega
        · by_cases hk : W - (off + 1 + xs.length + 1) = ys.length
          · exact Or.inl hk
          · exact Or.inr ⟨x, hx, hxd⟩)
    rw [hs2, hfold]
    have hne : d' ≠ 46 := by
      rcases hd' with h | ⟨h1', h2'⟩
      · rw [h]; exact isDigit_ne_dot (getLast_digit ys dg hys hy0)
      · rcases hstop with h | ⟨x, hx, _, hx46⟩
        · exact absurd (rd_lt h1') (by omega)
        · rw [hx] at h1'; cases h1'; exact hx46
    simp [hne]
  rw [iter1]
  simp only [Bool.false_eq_true, if_false, show off + 1 < e by have := rd_lt hP; omega, if_true, hsc]
  have hlt2 : off + 1 + xs.length + 1 < W := by omega
  simp only [hlt2, if_true, hy1]
  by_cases hnz : isNonZeroDigit y1 = true
  · simp only [hnz, if_true, hiter2, thenScan]
    rw [afterScan_mk_real]
  · have h48 : y1 = 48 := by simp [isDigit] at hy1d; simp [isNonZeroDigit] at hnz; omega
    have hnz' : isNonZeroDigit y1 = false := by simpa using hnz
    obtain ⟨y2, yt2, hyt⟩ : ∃ y2 yt2, yt = y2 :: yt2 := by
      cases yt with
      | nil => exact absurd (by rw [hyseq, h48]) hy48
      | cons a b => exact ⟨a, b, rfl⟩
    have hy2 : rd c e (off + 1 + xs.length + 1 + 1) = some y2 := by
      have := huy; rw [hyseq, hyt] at this; exact this.2.1
    have hy2d : isDigit y2 = true := hys y2 (by rw [hyseq, hyt]; simp)
    have hytlen : yt.length = yt2.length + 1 := by rw [hyt]; simp
    have hlt3 : off + 1 + xs.length + 1 + 1 < W := by omega
    simp only [hnz', show isNonZeroDigit 48 = false by decide, Bool.false_eq_true, if_false, h48, true_and, hlt3, if_true, hy2, hy2d]
    rw [hiter2]
    simp only [thenScan]
    rw [afterScan_mk_real]

/-- **The C09 outcome for one numeral**: mantissa `v`, net decimal exponent `10^(∓X)` (`FLAG` =
negative), sign `neg`, expected end offset `fin`. Either rejected — and then the value really is out of
range (above every finite double, resp. below the smallest subnormal) — or a `Real` with the right
sign bit whose magnitude is within one ulp of the correctly rounded value. -/
def ClassOutcome (neg : Bool) (v X : Nat) (FLAG : Bool) (fin : Nat) (res : Option Res) : Prop :=
  ∃ r, res = some r ∧ r.offset = fin ∧
    ((r.kind = .notANumber ∧ (if FLAG then v * 2 ^ 1074 < 10 ^ X else (2 ^ 53 - 1) * 2 ^ 971 < v * 10 ^ X)) ∨
     (r.kind = .real ∧ r.bits / 2 ^ 63 = b2n neg ∧
        ulpDist (r.bits % 2 ^ 63) (if FLAG then nearestMag v (10 ^ X) else nearestMag (v * 10 ^ X) 1) ≤ 1 ∧
        ((if FLAG then (2 ^ 53 - 1) * 2 ^ 971 * 10 ^ X < v else (2 ^ 53 - 1) * 2 ^ 971 < v * 10 ^ X) →
          r.bits % 2 ^ 63 = maxFiniteBits ∨ infBits ≤ r.bits % 2 ^ 63)))

/-- a value `v / 10^X` with `v < 2^64·c`… never exceeds the largest finite double: helper for the overflow clause -/
theorem no_overflow_small (v X : Nat) (hv : v < 2 ^ 64) : ¬ ((2 ^ 53 - 1) * 2 ^ 971 * 10 ^ X < v) := by
  intro h
  have h1 : 1 ≤ 10 ^ X := Nat.pow_pos (by decide)
  have h2 : (2 ^ 53 - 1) * 2 ^ 971 * 1 ≤ (2 ^ 53 - 1) * 2 ^ 971 * 10 ^ X := Nat.mul_le_mul_left _ h1
  have h3 : (2 : Nat) ^ 64 ≤ (2 ^ 53 - 1) * 2 ^ 971 * 1 := by decide +kernel
  omega

theorem realResult_class (neg : Bool) (v n X : Nat) (FLAG : Bool) (off : Nat) (hv0 : 0 < v) (hv : v < 2 ^ 64)
    (hlo : 10 ^ (n - 1) ≤ v) (hhi : v < 10 ^ n) (hn1 : 1 ≤ n) (hn19 : n ≤ 19) (hX : X < 2 ^ 31)
    (hcond : FLAG = true → X ≤ n + 324 → 2 ^ (X / 27) ≤ 16 * v) :
    ClassOutcome neg v X FLAG off (realResult neg v n X FLAG off) := by
  cases FLAG with
  | false =>
    rcases realResult_pos neg v n X off hv0 hv hlo hn1 hX hn19 with ⟨_, h2, h3⟩ | ⟨_, p, h2, h3, h4, h5⟩
    · exact ⟨_, h2, rfl, Or.inl ⟨rfl, by simpa using h3⟩⟩
    · refine ⟨_, h2, rfl, Or.inr ⟨rfl, or_sign_div p neg h3, ?_, ?_⟩⟩
      · simp only [Bool.false_eq_true, if_false]
        rw [or_sign_mod p neg h3]; exact h4
      · simp only [Bool.false_eq_true, if_false]
        rw [or_sign_mod p neg h3]
        intro hov
        rcases h5 (Nat.le_of_lt hov) with h | h
        · exact Or.inl h
        · exact Or.inr (by rw [h])
  | true =>
    rcases realResult_neg neg v n X off hv0 (hcond rfl) hv hhi hn19 hX with ⟨_, h2, h3⟩ | ⟨_, p, h2, h3, h4⟩
    · exact ⟨_, h2, rfl, Or.inl ⟨rfl, by simpa using h3⟩⟩
    · refine ⟨_, h2, rfl, Or.inr ⟨rfl, or_sign_div p neg h3, ?_, ?_⟩⟩
      · simp only [if_true]
        rw [or_sign_mod p neg h3]; exact h4
      · simp only [if_true]
        intro hov; exact absurd hov (no_overflow_small v X hv)

end Qentem.StrToNum
