import Qentem.Proofs.HashTableSort
/-!
`Rename(from, to)`: the item is unlinked from the chain of its old hash and appended to the chain of
the new one (possibly the same chain), keeping its slot and value.
-/
namespace Qentem.HashTable
variable {V : Type}

theorem lastLink_of_getLast? {l : Link} {c : List Nat} {x : Nat} (h : c.getLast? = some x) :
    lastLink l c = .next x := by simp [lastLink, h]

/-- The state `Rename` produces when `from` is at item `j` (reached through `li`) and `to` is absent
(its chain ends at `ri`). -/
def renamed (H : List Nat → Nat) (s : HT V) (li ri : Link) (j : Nat) (tk : List Nat) (nx : Nat) : HT V :=
  let s2 := setLink (setLink s ri (j + 1)) li nx
  { s2 with items := s2.items.modify j (fun it => { it with next := 0, hash := H tk, key := tk }) }

theorem rename_main {H : List Nat → Nat} {s : HT V} (hI : Inv H s) (hH : ∀ k, H k ≠ 0)
    {j : Nat} {it : Item V} (hit : s.items[j]? = some it) (hl : it.hash ≠ 0) {tk : List Nat}
    (hno : ∀ (x : Nat) (it0 : Item V), s.items[x]? = some it0 → it0.hash ≠ 0 → it0.key ≠ tk) :
    ∃ s', rename H s it.key tk = some (s', true) ∧ Inv H s' ∧ s'.cap = s.cap ∧
      absSlots s' = (absSlots s).set j (some (tk, it.val)) := by
  obtain ⟨ch, hc⟩ := hI.chains
  obtain ⟨pre, post, hsplit, hfindA⟩ := find_some hI hc hH hit hl
  have hj : j < s.items.size := (Array.getElem?_eq_some_iff.mp hit).1
  have hcapk : ∃ k, s.cap = 2 ^ k := by
    rcases hI.cap_pow with h0 | hk
    · have := hI.size_le; omega
    · exact hk
  have hfindB := find_none hc hH hcapk hno
  obtain ⟨k, hk⟩ := hcapk
  set bf := H it.key &&& (s.cap - 1) with hbf
  set bt := H tk &&& (s.cap - 1) with hbt
  have hbfl : bf < s.cap := bucket_lt _ hk
  have hbtl : bt < s.cap := bucket_lt _ hk
  set li := lastLink (.head bf) pre with hli
  set ri := lastLink (.head bt) (ch bt) with hri
  have hchainF := hc.chain bf hbfl
  have hndF := hc.nodup bf hbfl
  rw [hsplit] at hchainF hndF
  have hjpre : j ∉ pre := fun h => (List.nodup_append.mp hndF).2.2 j h j (by simp) rfl
  have hjpost : j ∉ post := (List.nodup_cons.mp (List.nodup_append.mp hndF).2.1).1
  have gli : getLink s li = some (j + 1) := chain_prefix_last hchainF
  have gri : getLink s ri = some 0 := chain_last (hc.chain bt hbtl)
  have gj : getLink s (.next j) = some it.next := by simp [getLink, hit]
  have hli_ne_ri : li ≠ ri := by intro e; rw [e, gri] at gli; cases gli
  have hbucket : ∀ b', b' < s.cap → ∀ x ∈ ch b', ∀ b'', b'' < s.cap → x ∈ ch b'' → b' = b'' := by
    intro b' hb' x hx b'' hb'' hx'
    obtain ⟨i1, h1, e1⟩ := hc.bucket b' hb' x hx
    obtain ⟨i2, h2, e2⟩ := hc.bucket b'' hb'' x hx'
    rw [h1] at h2; cases h2; rw [← e1, ← e2]
  have hjF : j ∈ ch bf := by rw [hsplit]; simp
  have hli_cases : li = .head bf ∨ ∃ y, y ∈ pre ∧ li = .next y := by
    rcases lastLink_head_cases bf pre with ⟨h, _⟩ | ⟨y, hy, h⟩
    · left; rw [hli, h]
    · right; exact ⟨y, hy, by rw [hli, h]⟩
  have hri_cases : ri = .head bt ∨ ∃ y, y ∈ ch bt ∧ ri = .next y := by
    rcases lastLink_head_cases bt (ch bt) with ⟨h, _⟩ | ⟨y, hy, h⟩
    · left; rw [hri, h]
    · right; exact ⟨y, hy, by rw [hri, h]⟩
  have hli_ne_j : li ≠ .next j := by
    rcases hli_cases with h | ⟨y, hy, h⟩
    · rw [h]; simp
    · rw [h]; intro e; injection e with e; exact hjpre (e ▸ hy)
  -- the value stored through `*left_index = item->Next`
  set nx := if ri = Link.next j then j + 1 else it.next with hnx
  set s' := renamed H s li ri j tk nx with hs'
  have hrun : rename H s it.key tk = some (s', true) := by
    have hsize0 : s.size ≠ 0 := by simp only [HT.size]; omega
    have h1 : (setLink s ri (j + 1)).items[j]? = some { it with next := nx } := by
      rw [setLink_items, hit]; rfl
    simp only [rename, hsize0, if_false, hfindA, hfindB]
    rw [show getLink s (lastLink (Link.head (H it.key &&& (s.cap - 1))) pre) = some (j + 1) from gli]
    simp only
    rw [show getLink s (lastLink (Link.head (H tk &&& (s.cap - 1))) (ch (H tk &&& (s.cap - 1)))) = some 0 from gri]
    simp only
    rw [show (setLink s (lastLink (Link.head (H tk &&& (s.cap - 1))) (ch (H tk &&& (s.cap - 1)))) (j + 1)).items[j]?
      = some { it with next := nx } from h1]
    rfl
  -- items of the result
  have hitems : ∀ x : Nat, s'.items[x]? = if x = j then some ⟨tk, H tk, 0, it.val⟩ else
      (s.items[x]?).map (fun it0 =>
        { it0 with next := if li = .next x then nx else if ri = .next x then j + 1 else it0.next }) := by
    intro x
    simp only [hs', renamed, Array.getElem?_modify, setLink_items, Option.map_map]
    by_cases hx : x = j
    · subst hx; simp [hit]
    · have : ¬ j = x := fun e => hx e.symm
      simp only [if_neg hx, if_neg this]
      cases s.items[x]? <;> rfl
  -- links of the result
  have g3j : getLink s' (.next j) = some 0 := by simp [getLink, hitems]
  have g3 : ∀ l', l' ≠ .next j → getLink s' l' =
      if l' = li then some nx else if l' = ri then some (j + 1) else getLink s l' := by
    intro l' hl'
    have h2 : getLink s' l' = getLink (setLink (setLink s ri (j + 1)) li nx) l' := by
      cases l' with
      | head b0 => rfl
      | next x =>
        have hx : x ≠ j := fun e => hl' (by rw [e])
        have : ¬ j = x := fun e => hx e.symm
        simp only [getLink, hs', renamed, Array.getElem?_modify, if_neg this]
    rw [h2]
    by_cases e1 : l' = li
    · rw [if_pos e1, e1]
      have : getLink (setLink s ri (j + 1)) li = some (j + 1) := by rw [getLink_setLink_ne hli_ne_ri]; exact gli
      exact getLink_setLink_self this
    · rw [if_neg e1, getLink_setLink_ne e1]
      by_cases e2 : l' = ri
      · rw [if_pos e2, e2]; exact getLink_setLink_self gri
      · rw [if_neg e2, getLink_setLink_ne e2]
  -- stage 1: unlink j (a link store, not a state)
  let gmid : Link → Option Nat := fun l' =>
    if l' = li then some it.next else if l' = .next j then some 0 else getLink s l'
  let chmid : Nat → List Nat := fun b' => if b' = bf then pre ++ post else ch b'
  have hmid_mem : ∀ b', b' < s.cap → ∀ x ∈ chmid b', x ∈ ch b' ∧ x ≠ j := by
    intro b' hb' x hx
    by_cases hbb : b' = bf
    · simp only [chmid, hbb, if_true] at hx
      rw [hbb, hsplit]
      rcases List.mem_append.mp hx with h | h
      · exact ⟨by simp [h], fun e => hjpre (e ▸ h)⟩
      · exact ⟨by simp [h], fun e => hjpost (e ▸ h)⟩
    · simp only [chmid, if_neg hbb] at hx
      exact ⟨hx, fun e => hbb (hbucket b' hb' x hx bf hbfl (e ▸ hjF))⟩
  have hmid_chain : ∀ b', b' < s.cap → Chain gmid (.head b') (chmid b') := by
    intro b' hb'
    by_cases hbb : b' = bf
    · simp only [chmid, hbb, if_true]
      refine chain_remove hchainF hndF (by simp) gj (show gmid li = some it.next from if_pos rfl) ?_
      intro l' h1 h2
      have h1' : l' ≠ li := h1
      simp only [gmid, if_neg h1', if_neg h2]
    · simp only [chmid, if_neg hbb]
      refine chain_congr (hc.chain b' hb') ?_ ?_
      · have h1 : Link.head b' ≠ li := by
          rcases hli_cases with h | ⟨y, _, h⟩
          · rw [h]; intro e; injection e with e; exact hbb e
          · rw [h]; simp
        simp only [gmid, if_neg h1]; simp
      · intro x hx
        have h1 : Link.next x ≠ li := by
          rcases hli_cases with h | ⟨y, hy, h⟩
          · rw [h]; simp
          · rw [h]; intro e; injection e with e
            exact hbb (hbucket b' hb' x hx bf hbfl (by rw [hsplit, e]; simp [hy]))
        have h2 : Link.next x ≠ .next j := by
          intro e; injection e with e
          exact hbb (hbucket b' hb' x hx bf hbfl (e ▸ hjF))
        simp only [gmid, if_neg h1, if_neg h2]
  have hmid_nodup : ∀ b', b' < s.cap → (chmid b').Nodup := by
    intro b' hb'
    by_cases hbb : b' = bf
    · simp only [chmid, hbb, if_true]
      exact hndF.sublist ((List.sublist_cons_self j post).append_left pre)
    · simp only [chmid, if_neg hbb]; exact hc.nodup b' hb'
  -- where the chain of `to`'s bucket ends after stage 1
  set rmid := lastLink (.head bt) (chmid bt) with hrmid
  have hAB : (ri ≠ .next j ∧ rmid = ri) ∨ (ri = .next j ∧ rmid = li ∧ it.next = 0) := by
    by_cases hbb : bt = bf
    · have hchbt : ch bt = pre ++ j :: post := by rw [hbb]; exact hsplit
      cases hpost : post with
      | nil =>
        right
        refine ⟨?_, ?_, ?_⟩
        · rw [hri, hchbt, hpost]; exact lastLink_snoc _ _ _
        · simp only [hrmid, chmid, hbb, if_true, hpost, List.append_nil]; rfl
        · have := hchainF; rw [hpost] at this
          have h0 := chain_last this
          rw [lastLink_snoc, gj] at h0
          exact Option.some.inj h0
      | cons p post' =>
        left
        have hne : (p :: post') ≠ [] := by simp
        have hlast : ∃ z, (p :: post').getLast? = some z := by
          cases h : (p :: post').getLast? with
          | none => simp at h
          | some z => exact ⟨z, rfl⟩
        obtain ⟨z, hz⟩ := hlast
        have hzpost : z ∈ post := by rw [hpost]; exact List.mem_of_getLast? hz
        have e1 : ri = .next z := by
          rw [hri, hchbt, hpost]
          apply lastLink_of_getLast?
          rw [List.getLast?_append_of_ne_nil _ (by simp), List.getLast?_cons_cons]; exact hz
        have e2 : rmid = .next z := by
          simp only [hrmid, chmid, hbb, if_true, hpost]
          apply lastLink_of_getLast?
          rw [List.getLast?_append_of_ne_nil _ hne]; exact hz
        refine ⟨?_, by rw [e1, e2]⟩
        rw [e1]; intro e; injection e with e; exact hjpost (e ▸ hzpost)
    · left
      have : chmid bt = ch bt := by simp only [chmid, if_neg hbb]
      refine ⟨?_, by rw [hrmid, this]⟩
      rcases hri_cases with h | ⟨y, hy, h⟩
      · rw [h]; simp
      · rw [h]; intro e; injection e with e
        exact hbb (hbucket bt hbtl y hy bf hbfl (e ▸ hjF))
  have F1 : getLink s' rmid = some (j + 1) := by
    rcases hAB with ⟨h1, h2⟩ | ⟨h1, h2, _⟩
    · rw [h2, g3 ri h1, if_neg (Ne.symm hli_ne_ri), if_pos rfl]
    · rw [h2, g3 li hli_ne_j, if_pos rfl, hnx, if_pos h1]
  have F3 : ∀ l', l' ≠ rmid → l' ≠ .next j → getLink s' l' = gmid l' := by
    intro l' h1 h2
    rw [g3 l' h2]
    rcases hAB with ⟨a1, a2⟩ | ⟨a1, a2, _⟩
    · rw [a2] at h1
      simp only [gmid, if_neg h1, if_neg h2, hnx, if_neg a1]
    · rw [a2] at h1
      have : l' ≠ ri := by rw [a1]; exact h2
      simp only [gmid, if_neg h1, if_neg h2, if_neg this]
  have hcap' : s'.cap = s.cap := by simp [hs', renamed]
  have hrmid_cases : rmid = .head bt ∨ ∃ y, y ∈ chmid bt ∧ rmid = .next y := by
    rcases lastLink_head_cases bt (chmid bt) with ⟨h, _⟩ | ⟨y, hy, h⟩
    · left; rw [hrmid, h]
    · right; exact ⟨y, hy, by rw [hrmid, h]⟩
  have hold : ∀ (x : Nat) (it0 : Item V), x ≠ j → s.items[x]? = some it0 →
      ∃ it' : Item V, s'.items[x]? = some it' ∧ it'.key = it0.key ∧ it'.hash = it0.hash ∧ it'.val = it0.val := by
    intro x it0 hx h0
    exact ⟨{ it0 with next := if li = .next x then nx else if ri = .next x then j + 1 else it0.next },
      by rw [hitems, if_neg hx, h0]; rfl, rfl, rfl, rfl⟩
  have hnew : ∀ (x : Nat) (it' : Item V), s'.items[x]? = some it' → x ≠ j →
      ∃ it0 : Item V, s.items[x]? = some it0 ∧ it'.key = it0.key ∧ it'.hash = it0.hash ∧ it'.val = it0.val := by
    intro x it' h' hx
    rw [hitems, if_neg hx] at h'
    obtain ⟨it0, h0, rfl⟩ := Option.map_eq_some_iff.mp h'
    exact ⟨it0, h0, rfl, rfl, rfl⟩
  have hnewj : ∀ it' : Item V, s'.items[j]? = some it' → it' = ⟨tk, H tk, 0, it.val⟩ := by
    intro it' h'; rw [hitems, if_pos rfl] at h'; exact (Option.some.inj h').symm
  refine ⟨s', hrun, ⟨Or.inr ⟨k, by rw [hcap', hk]⟩, ?_, ?_, ?_, ?_, ?_, ?_⟩, hcap', ?_⟩
  · simp [hs', renamed, hI.heads_size]
  · simp only [hs', renamed, Array.size_modify, setLink_size, setLink_cap]; exact hI.size_le
  · intro x it' h' hlive
    by_cases hx : x = j
    · subst hx; rw [hnewj it' h']
    · obtain ⟨it0, h0, hk0, hh0, _⟩ := hnew x it' h' hx
      rw [hk0, hh0]; exact hI.hash_ok x it0 h0 (by rw [← hh0]; exact hlive)
  · rw [List.pairwise_iff_getElem]
    intro x y hx hy hxy
    simp only [Array.length_toList] at hx hy
    simp only [Array.getElem_toList]
    have hxs := Array.getElem?_eq_getElem hx
    have hys := Array.getElem?_eq_getElem hy
    generalize s'.items[x] = a at hxs ⊢
    generalize s'.items[y] = b at hys ⊢
    intro ha hb' hkeq
    by_cases hxj : x = j
    · have hyj : y ≠ j := by omega
      obtain ⟨b0, hb0, hkb, hhb, _⟩ := hnew y b hys hyj
      rw [hxj] at hxs
      rw [hnewj a hxs, hkb] at hkeq
      exact hno y b0 hb0 (by rw [← hhb]; exact hb') hkeq.symm
    · obtain ⟨a0, ha0, hka, hha, _⟩ := hnew x a hxs hxj
      by_cases hyj : y = j
      · rw [hyj] at hys
        rw [hnewj b hys, hka] at hkeq
        exact hno x a0 ha0 (by rw [← hha]; exact ha) hkeq
      · obtain ⟨b0, hb0, hkb, hhb, _⟩ := hnew y b hys hyj
        have := hI.distinct_idx ha0 hb0 (by rw [← hha]; exact ha) (by rw [← hhb]; exact hb')
          (by rw [← hka, ← hkb]; exact hkeq)
        omega
  · intro x it' h' hd
    by_cases hx : x = j
    · subst hx; rw [hnewj it' h'] at hd; exact absurd hd (hH tk)
    · obtain ⟨it0, h0, hk0, hh0, _⟩ := hnew x it' h' hx
      rw [hk0]; exact hI.dead_key x it0 h0 (by rw [← hh0]; exact hd)
  · refine ⟨fun b' => if b' = bt then chmid bt ++ [j] else chmid b', ?_, ?_, ?_, ?_⟩
    · intro b' hb'
      rw [hcap'] at hb'
      by_cases hbb : b' = bt
      · rw [hbb]; simp only [if_true]
        refine chain_snoc (hmid_chain bt hbtl) (hmid_nodup bt hbtl) (by simp) ?_ (by simp) F3 F1 g3j
        exact fun h => (hmid_mem bt hbtl j h).2 rfl
      · simp only [if_neg hbb]
        refine chain_congr (hmid_chain b' hb') (F3 _ ?_ (by simp)) ?_
        · rcases hrmid_cases with h | ⟨y, _, h⟩
          · rw [h]; intro e; injection e with e; exact hbb e
          · rw [h]; simp
        · intro x hx
          refine F3 _ ?_ ?_
          · rcases hrmid_cases with h | ⟨y, hy, h⟩
            · rw [h]; simp
            · rw [h]; intro e; injection e with e
              exact hbb (hbucket b' hb' x (hmid_mem b' hb' x hx).1 bt hbtl (e ▸ (hmid_mem bt hbtl y hy).1))
          · intro e; injection e with e; exact (hmid_mem b' hb' x hx).2 e
    · intro b' hb'
      rw [hcap'] at hb'
      by_cases hbb : b' = bt
      · rw [hbb]; simp only [if_true]
        refine List.nodup_append.mpr ⟨hmid_nodup bt hbtl, by simp, ?_⟩
        intro x hx y hy e
        simp at hy
        exact (hmid_mem bt hbtl x hx).2 (by omega)
      · simp only [if_neg hbb]; exact hmid_nodup b' hb'
    · intro b' hb' x hx
      rw [hcap'] at hb' ⊢
      have oldc : ∀ b'', b'' < s.cap → x ∈ chmid b'' →
          ∃ it' : Item V, s'.items[x]? = some it' ∧ it'.hash &&& (s.cap - 1) = b'' := by
        intro b'' hb'' hx''
        obtain ⟨hxc, hxj⟩ := hmid_mem b'' hb'' x hx''
        obtain ⟨it0, h0, hbk⟩ := hc.bucket b'' hb'' x hxc
        obtain ⟨it', h', _, hh, _⟩ := hold x it0 hxj h0
        exact ⟨it', h', by rw [hh]; exact hbk⟩
      by_cases hbb : b' = bt
      · rw [hbb] at hx ⊢
        simp only [if_true, List.mem_append, List.mem_singleton] at hx
        rcases hx with hx | hx
        · exact oldc bt hbtl hx
        · rw [hx]; exact ⟨_, by rw [hitems, if_pos rfl], rfl⟩
      · simp only [if_neg hbb] at hx; exact oldc b' hb' hx
    · intro x it' h' hlive
      rw [hcap']
      by_cases hx : x = j
      · subst hx; rw [hnewj it' h']; simp [← hbt]
      · obtain ⟨it0, h0, _, hh0, _⟩ := hnew x it' h' hx
        have hm := hc.complete x it0 h0 (by rw [← hh0]; exact hlive)
        rw [hh0]
        have hmid : x ∈ chmid (it0.hash &&& (s.cap - 1)) := by
          by_cases hbb : it0.hash &&& (s.cap - 1) = bf
          · simp only [chmid, hbb, if_true]
            rw [hbb, hsplit] at hm
            rcases List.mem_append.mp hm with h | h
            · exact List.mem_append_left _ h
            · rcases List.mem_cons.mp h with h | h
              · exact absurd h hx
              · exact List.mem_append_right _ h
          · simp only [chmid, if_neg hbb]; exact hm
        by_cases hbb : it0.hash &&& (s.cap - 1) = bt
        · simp only [hbb, if_true]; rw [hbb] at hmid; exact List.mem_append_left _ hmid
        · simp only [if_neg hbb]; exact hmid
  · apply List.ext_getElem?
    intro x
    rw [absSlots_getElem?, hitems, List.getElem?_set, absSlots_length, absSlots_getElem?]
    by_cases hx : x = j
    · subst hx; simp [hj, hH tk]
    · have : ¬ j = x := fun e => hx e.symm
      simp only [if_neg hx, if_neg this, Option.map_map]
      cases s.items[x]? <;> rfl

/-- `Rename(from, to)`: refused (nothing changes) when `from` is absent or `to` is present. -/
theorem rename_spec {H : List Nat → Nat} {s : HT V} (hI : Inv H s) (hH : ∀ k, H k ≠ 0) (a b : List Nat) :
    ∃ s' r, rename H s a b = some (s', r) ∧ Inv H s' ∧ (abs s', r) = Spec.rename (abs s) a b := by
  obtain ⟨ch, hc⟩ := hI.chains
  by_cases h0 : s.size = 0
  · refine ⟨s, false, by simp [rename, h0], hI, ?_⟩
    have : Spec.lookup (abs s) a = none := by
      apply lookup_abs_none
      intro j it hit
      have := (Array.getElem?_eq_some_iff.mp hit).1
      simp only [HT.size] at h0; omega
    simp [Spec.rename, this]
  · have hcap : ∃ k, s.cap = 2 ^ k := by
      rcases hI.cap_pow with h | h
      · have := hI.size_le; simp only [HT.size] at h0; omega
      · exact h
    obtain ⟨k, hk⟩ := hcap
    rcases key_cases s a with ⟨j, it, hit, hl, rfl⟩ | hnoA
    · rcases key_cases s b with ⟨j', it', hit', hl', rfl⟩ | hnoB
      · -- both present: refused
        obtain ⟨pre, post, hsplit, hfindA⟩ := find_some hI hc hH hit hl
        obtain ⟨pre', post', hsplit', hfindB⟩ := find_some hI hc hH hit' hl'
        have gA : getLink s (lastLink (Link.head (H it.key &&& (s.cap - 1))) pre) = some (j + 1) := by
          have := hc.chain _ (bucket_lt (H it.key) hk); rw [hsplit] at this; exact chain_prefix_last this
        have gB : getLink s (lastLink (Link.head (H it'.key &&& (s.cap - 1))) pre') = some (j' + 1) := by
          have := hc.chain _ (bucket_lt (H it'.key) hk); rw [hsplit'] at this; exact chain_prefix_last this
        refine ⟨s, false, ?_, hI, ?_⟩
        · simp only [rename, h0, if_false, hfindA, hfindB, gA, gB]
        · have h1 := lookup_abs_some hI hit hl
          have h2 : Spec.findKey (abs s).slots it'.key = some j' := findKey_abs_some hI hit' hl'
          simp only [Spec.rename, h1, h2]
      · obtain ⟨s', hrun, hI', hcap', habs⟩ := rename_main hI hH hit hl hnoB
        refine ⟨s', true, hrun, hI', ?_⟩
        have h1 := lookup_abs_some hI hit hl
        have h2 : Spec.findKey (abs s).slots b = none := findKey_abs_none hnoB
        simp only [Spec.rename, h1, h2]
        simp [abs, hcap', habs]
    · have hfindA := find_none hc hH ⟨k, hk⟩ hnoA
      have gA : getLink s (lastLink (Link.head (H a &&& (s.cap - 1))) (ch (H a &&& (s.cap - 1)))) = some 0 :=
        chain_last (hc.chain _ (bucket_lt (H a) hk))
      refine ⟨s, false, ?_, hI, ?_⟩
      · simp only [rename, h0, if_false, hfindA, gA]
      · simp [Spec.rename, lookup_abs_none hnoA]

end Qentem.HashTable
