import Qentem.Proofs.HashTableMap
/-!
The sentences of C13 as theorems about every reachable table: the live entries follow the reference
association list; lookups are the history of stores and removals; key ↔ index agreement; Sort
permutes the entries.
-/
namespace Qentem.HashTable
variable {V : Type}

/-! ### Lookups in the reference list -/

theorem alLookup_nil (x : List Nat) : alLookup ([] : AL V) x = none := rfl

theorem alLookup_cons (e : List Nat × V) (t : AL V) (x : List Nat) :
    alLookup (e :: t) x = if e.1 = x then some e.2 else alLookup t x := by
  unfold alLookup
  rw [List.find?_cons]
  by_cases h : e.1 = x <;> simp [h]

theorem alLookup_eq_none_iff {al : AL V} {x : List Nat} : alLookup al x = none ↔ x ∉ al.map Prod.fst := by
  induction al with
  | nil => simp [alLookup_nil]
  | cons e t ih =>
    rw [alLookup_cons]
    by_cases h : e.1 = x
    · simp [h]
    · have : ¬ x = e.1 := fun h' => h h'.symm
      simp [h, this, ih]

theorem alLookup_append (a b : AL V) (x : List Nat) :
    alLookup (a ++ b) x = (alLookup a x).or (alLookup b x) := by
  induction a with
  | nil => simp [alLookup_nil]
  | cons e t ih =>
    rw [List.cons_append, alLookup_cons, alLookup_cons]
    by_cases h : e.1 = x <;> simp [h, ih]

theorem alLookup_alPut (al : AL V) (k : List Nat) (v : V) (x : List Nat) :
    alLookup (alPut al k v) x = if x = k then some v else alLookup al x := by
  unfold alPut
  by_cases hk : k ∈ al.map Prod.fst
  · rw [if_pos hk]
    by_cases hx : x = k
    · subst hx
      rw [if_pos rfl]
      -- the first entry with key x now carries v
      have : ∀ (L : AL V), x ∈ L.map Prod.fst →
          alLookup (L.map (fun e => if e.1 = x then (x, v) else e)) x = some v := by
        intro L
        induction L with
        | nil => intro h; simp at h
        | cons e t ih =>
          intro h
          rw [List.map_cons, alLookup_cons]
          by_cases he : e.1 = x
          · simp [he]
          · have : x ∈ t.map Prod.fst := by
              simp only [List.map_cons, List.mem_cons] at h
              rcases h with h | h
              · exact absurd h.symm he
              · exact h
            simp [he, ih this]
      exact this al hk
    · rw [if_neg hx]
      have : ∀ (L : AL V), alLookup (L.map (fun e => if e.1 = k then (k, v) else e)) x = alLookup L x := by
        intro L
        induction L with
        | nil => rfl
        | cons e t ih =>
          rw [List.map_cons, alLookup_cons, alLookup_cons, ih]
          by_cases he : e.1 = k
          · have h1 : ¬ k = x := fun h => hx h.symm
            have h2 : ¬ e.1 = x := fun h => hx (h.symm.trans he)
            rw [if_pos he]
            show (if k = x then some v else alLookup t x) = _
            rw [if_neg h1, if_neg h2]
          · rw [if_neg he]
      exact this al
  · rw [if_neg hk, alLookup_append, alLookup_cons, alLookup_nil]
    by_cases hx : x = k
    · subst hx
      simp [alLookup_eq_none_iff.mpr hk]
    · have : ¬ k = x := fun h => hx h.symm
      simp [hx, this]

theorem alLookup_alRemove (al : AL V) (k : List Nat) (x : List Nat) :
    alLookup (alRemove al k) x = if x = k then none else alLookup al x := by
  unfold alRemove
  induction al with
  | nil => simp [alLookup_nil]
  | cons e t ih =>
    rw [List.filter_cons]
    by_cases he : e.1 = k
    · simp only [he, ne_eq, not_true_eq_false, decide_false, Bool.false_eq_true, if_false, ih, alLookup_cons]
      by_cases hx : x = k
      · simp [hx]
      · have : ¬ k = x := fun h => hx h.symm
        simp [hx, this]
    · simp only [he, ne_eq, not_false_eq_true, decide_true, if_true, alLookup_cons, ih]
      by_cases hx : x = k
      · have : ¬ e.1 = x := fun h => he (h.trans hx)
        simp [hx, this]
        intro h; exact absurd (h.trans rfl) he
      · simp [hx]

/-- "Stored and not removed since, with the last value stored": the meaning of a history. -/
def histStep [Inhabited V] (m : List Nat → Option V) (op : Op V) (x : List Nat) : Option V :=
  match op with
  | .insert k v => if x = k then some v else m x
  | .assign k v => if x = k then some v else m x
  | .get k => if x = k then some ((m k).getD default) else m x
  | .remove k => if x = k then none else m x
  | .clear => none
  | .reset => none
  | .reserve _ => none
  | _ => m x

theorem alLookup_alStep [Inhabited V] (al : AL V) (op : Op V) (x : List Nat) :
    alLookup (alStep al op) x = histStep (alLookup al) op x := by
  cases op <;> simp only [alStep, histStep, alLookup_alPut, alLookup_alRemove, alLookup_nil]
  case get k =>
    by_cases hk : k ∈ al.map Prod.fst
    · rw [if_pos hk]
      by_cases hx : x = k
      · subst hx
        rw [if_pos rfl]
        cases h : alLookup al x with
        | none => exact absurd hk (alLookup_eq_none_iff.mp h)
        | some v => rfl
      · rw [if_neg hx]
    · rw [if_neg hk, alLookup_append, alLookup_cons, alLookup_nil]
      by_cases hx : x = k
      · subst hx; simp [alLookup_eq_none_iff.mpr hk]
      · have : ¬ k = x := fun h => hx h.symm
        simp [hx, this]

theorem alLookup_foldl [Inhabited V] (ops : List (Op V)) (al : AL V) :
    alLookup (ops.foldl alStep al) = ops.foldl histStep (alLookup al) := by
  induction ops generalizing al with
  | nil => rfl
  | cons op t ih =>
    simp only [List.foldl_cons]
    rw [ih]
    congr 1
    funext y
    exact alLookup_alStep al op y

/-! ### Lookup in the specification = lookup in the entries -/

theorem valOf_eq_alLookup {sp : Spec V} (hnd : KeysNodup sp.slots) (k : List Nat) :
    valOf sp k = alLookup (entries sp.slots) k := by
  apply Option.ext
  intro v
  rw [valOf_eq_some_iff hnd]
  constructor
  · intro hm
    cases h : alLookup (entries sp.slots) k with
    | none =>
      exact absurd (List.mem_map.mpr ⟨(k, v), hm, rfl⟩) (alLookup_eq_none_iff.mp h)
    | some v' =>
      unfold alLookup at h
      obtain ⟨e, he, hv⟩ := Option.map_eq_some_iff.mp h
      have hk : e.1 = k := by simpa using List.find?_some he
      have hmem := List.mem_of_find?_eq_some he
      have : (k, v') ∈ entries sp.slots := by rw [← hk, ← hv]; exact hmem
      have h1 := (valOf_eq_some_iff hnd).mpr hm
      have h2 := (valOf_eq_some_iff hnd).mpr this
      rw [h1] at h2; exact h2.symm
  · intro h
    unfold alLookup at h
    obtain ⟨e, he, hv⟩ := Option.map_eq_some_iff.mp h
    have hk : e.1 = k := by simpa using List.find?_some he
    have hmem := List.mem_of_find?_eq_some he
    rw [← hk, ← hv]; exact hmem

/-! ### Every reachable table -/

/-- The live entries of the table reached by a key-level operation sequence are those of the
reference association list. -/
theorem entries_run [Inhabited V] {H : List Nat → Nat} (ord : Nat → Nat) (hH : ∀ k, H k ≠ 0) :
    ∀ (ops : List (Op V)) {s : HT V}, Inv H s → (∀ op ∈ ops, op.KeyLevel) →
    ∃ s' os, run H ord s ops = some (s', os) ∧ Inv H s' ∧
      entries (absSlots s') = ops.foldl alStep (entries (absSlots s))
  | [], s, hI, _ => ⟨s, [], rfl, hI, rfl⟩
  | op :: ops, s, hI, hops => by
    obtain ⟨s1, o, hstep, hI1, habs1⟩ := step_refines ord hH hI op
    obtain ⟨s2, os, hrun, hI2, hent⟩ := entries_run ord hH ops hI1 (fun op' h => hops op' (by simp [h]))
    refine ⟨s2, o :: os, by simp [run, hstep, hrun], hI2, ?_⟩
    rw [hent, List.foldl_cons]
    congr 1
    have h1 : absSlots s1 = (Spec.step ord (abs s) op).1.slots := by rw [← habs1]; rfl
    rw [h1]
    exact entries_step ord (sp := abs s) hI.keysNodup op (hops op (by simp))

/-- Key ↔ index agreement in the specification. -/
theorem spec_key_index_agree {sp : Spec V} (hnd : KeysNodup sp.slots) (k : List Nat) (i : Nat) (v : V) :
    Spec.lookup sp k = some (i, v) ↔ Spec.lookupIdx sp i = some (k, v) := by
  constructor
  · intro h
    unfold Spec.lookup at h
    cases hf : Spec.findKey sp.slots k with
    | none => rw [hf] at h; cases h
    | some i0 =>
      rw [hf] at h
      obtain ⟨A, B, v0, hsl, hlen, _⟩ := findKey_some_split hf
      have hget : sp.slots[i0]? = some (some (k, v0)) := by rw [hsl, ← hlen]; simp
      simp only [hget, Option.some.injEq, Prod.mk.injEq] at h
      obtain ⟨rfl, rfl⟩ := h
      simp [Spec.lookupIdx, hget]
  · intro h
    have hget : sp.slots[i]? = some (some (k, v)) := by
      unfold Spec.lookupIdx at h
      cases hg : sp.slots[i]? with
      | none => rw [hg] at h; cases h
      | some o => rw [hg] at h; simp at h; rw [h]
    have hmem : (k, v) ∈ entries sp.slots := by
      simp only [entries, List.mem_filterMap, id]
      exact ⟨some (k, v), List.mem_of_getElem? hget, rfl⟩
    have hval := (valOf_eq_some_iff hnd).mpr hmem
    unfold valOf Spec.lookup at hval
    cases hf : Spec.findKey sp.slots k with
    | none => rw [hf] at hval; cases hval
    | some i0 =>
      obtain ⟨A, B, v0, hsl, hlen, hnot⟩ := findKey_some_split hf
      have hget0 : sp.slots[i0]? = some (some (k, v0)) := by rw [hsl, ← hlen]; simp
      have hn : ((entries A ++ (k, v0) :: entries B).map Prod.fst).Nodup := by
        have := hnd; unfold KeysNodup keysOf at this; rw [hsl, entries_append] at this; exact this
      obtain ⟨_, hB⟩ := nodup_split hn
      have hi : i = i0 := by
        rcases Nat.lt_trichotomy i i0 with hlt | heq | hgt
        · exfalso
          rw [hsl, List.getElem?_append_left (by omega)] at hget
          apply hnot
          simp only [keysOf, entries, List.mem_map, List.mem_filterMap, id]
          exact ⟨(k, v), ⟨some (k, v), List.mem_of_getElem? hget, rfl⟩, rfl⟩
        · exact heq
        · exfalso
          rw [hsl, List.getElem?_append_right (by omega)] at hget
          have : ∃ m, i - A.length = m + 1 := ⟨i - A.length - 1, by omega⟩
          obtain ⟨m, hm⟩ := this
          rw [hm, List.getElem?_cons_succ] at hget
          apply hB
          simp only [entries, List.mem_map, List.mem_filterMap, id]
          exact ⟨(k, v), ⟨some (k, v), List.mem_of_getElem? hget, rfl⟩, rfl⟩
      unfold Spec.lookup
      rw [hf]
      simp only []
      rw [← hi, hget]

/-- `Sort` permutes the live entries. -/
theorem sort_entries_perm (ord : Nat → Nat) (sp : Spec V) (ascend : Bool) :
    (entries (Spec.sort ord sp ascend).slots).Perm (entries sp.slots) := by
  have := (sortSeg_spec (Spec.slotCmp ord ascend) (Spec.slotCmp ord ascend) id (sp.slots.length + 1)
    sp.slots.toArray 0 sp.slots.length (fun _ _ _ _ => rfl)).2
  have hp : (Spec.sort ord sp ascend).slots.Perm sp.slots := by
    simpa [Spec.sort] using this.toList
  exact hp.filterMap id

end Qentem.HashTable
