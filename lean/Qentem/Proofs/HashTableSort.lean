import Qentem.Proofs.HashTableMerge
/-!
`Sort`: `Memory::Sort` only swaps (so the items are permuted) and commutes with the slot
abstraction; the heads are zeroed and `generateHash` rebuilds every chain.
Which permutation it is (ordered keys) is the business of C15; here only what the map needs.
-/
namespace Qentem.HashTable
variable {V : Type}

theorem swapIfInBounds_perm {α : Type} (arr : Array α) (i j : Nat) : (arr.swapIfInBounds i j).Perm arr := by
  rw [Array.swapIfInBounds_def]
  split
  · split
    · exact Array.swap_perm _ _
    · exact Array.Perm.refl _
  · exact Array.Perm.refl _

theorem map_swapIfInBounds {α β : Type} (f : α → β) (arr : Array α) (i j : Nat) :
    (arr.swapIfInBounds i j).map f = (arr.map f).swapIfInBounds i j := by
  simp only [Array.swapIfInBounds_def, Array.size_map]
  split
  · split
    · apply Array.ext_getElem?
      intro k
      simp only [Array.getElem?_map, Array.getElem?_swap, Array.getElem_map]
      split
      · rfl
      · split <;> rfl
    · rfl
  · rfl

section
variable {α β : Type} (c1 : α → α → Bool) (c2 : β → β → Bool) (f : α → β)

theorem sortPart_spec (start : Nat) : ∀ (fuel : Nat) (arr : Array α) (index offset : Nat),
    (∀ x ∈ arr, ∀ p ∈ arr, c1 x p = c2 (f x) (f p)) →
    ((sortPart c1 start fuel arr index offset).1.map f = (sortPart c2 start fuel (arr.map f) index offset).1 ∧
     (sortPart c1 start fuel arr index offset).2 = (sortPart c2 start fuel (arr.map f) index offset).2) ∧
    (sortPart c1 start fuel arr index offset).1.Perm arr
  | 0, arr, index, offset, _ => ⟨⟨rfl, rfl⟩, Array.Perm.refl _⟩
  | fuel + 1, arr, index, offset, hcmp => by
    simp only [sortPart, Array.getElem?_map]
    cases hx : arr[offset]? with
    | none => exact ⟨⟨rfl, rfl⟩, Array.Perm.refl _⟩
    | some x =>
      cases hp : arr[start]? with
      | none => exact ⟨⟨rfl, rfl⟩, Array.Perm.refl _⟩
      | some p =>
        simp only [Option.map_some]
        rw [← hcmp x (Array.mem_of_getElem? hx) p (Array.mem_of_getElem? hp)]
        by_cases hc : c1 x p = true
        · simp only [hc, if_true]
          have hperm := swapIfInBounds_perm arr (index + 1) offset
          have ih := sortPart_spec start fuel (arr.swapIfInBounds (index + 1) offset) (index + 1) (offset + 1)
            (fun a ha b hb => hcmp a (hperm.mem_iff.mp ha) b (hperm.mem_iff.mp hb))
          rw [map_swapIfInBounds] at ih
          exact ⟨ih.1, ih.2.trans hperm⟩
        · simp only [hc, Bool.false_eq_true, if_false]
          exact sortPart_spec start fuel arr index (offset + 1) hcmp

theorem sortSeg_spec : ∀ (fuel : Nat) (arr : Array α) (start end_ : Nat),
    (∀ x ∈ arr, ∀ p ∈ arr, c1 x p = c2 (f x) (f p)) →
    (sortSeg c1 fuel arr start end_).map f = sortSeg c2 fuel (arr.map f) start end_ ∧
    (sortSeg c1 fuel arr start end_).Perm arr
  | 0, arr, _, _, _ => ⟨rfl, Array.Perm.refl _⟩
  | fuel + 1, arr, start, end_, hcmp => by
    simp only [sortSeg]
    by_cases hse : start = end_
    · simp only [hse, ne_eq, not_true_eq_false, if_false]
      constructor <;> first | rfl | trivial | exact Array.Perm.refl _
    · simp only [hse, ne_eq, not_false_eq_true, if_true]
      obtain ⟨⟨hp1, hp2⟩, hpp⟩ := sortPart_spec c1 c2 f start (end_ - (start + 1)) arr start (start + 1) hcmp
      rw [← hp1, ← hp2]
      generalize sortPart c1 start (end_ - (start + 1)) arr start (start + 1) = r at hpp
      obtain ⟨arr1, index⟩ := r
      simp only at hpp ⊢
      have hcmp1 : ∀ x ∈ arr1, ∀ p ∈ arr1, c1 x p = c2 (f x) (f p) :=
        fun a ha b hb => hcmp a (hpp.mem_iff.mp ha) b (hpp.mem_iff.mp hb)
      -- the pivot swap
      have hsw : ∃ arr2 : Array α, (if index ≠ start then arr1.swapIfInBounds index start else arr1) = arr2 ∧
          (if index ≠ start then (arr1.map f).swapIfInBounds index start else arr1.map f) = arr2.map f ∧
          arr2.Perm arr1 := by
        by_cases hi : index = start
        · exact ⟨arr1, by simp [hi], by simp [hi], Array.Perm.refl _⟩
        · exact ⟨arr1.swapIfInBounds index start, by simp [hi], by simp [hi, map_swapIfInBounds],
            swapIfInBounds_perm _ _ _⟩
      obtain ⟨arr2, h21, h22, hp2'⟩ := hsw
      rw [h21, h22]
      have hcmp2 : ∀ x ∈ arr2, ∀ p ∈ arr2, c1 x p = c2 (f x) (f p) :=
        fun a ha b hb => hcmp1 a (hp2'.mem_iff.mp ha) b (hp2'.mem_iff.mp hb)
      obtain ⟨h31, h32⟩ := sortSeg_spec fuel arr2 start index hcmp2
      rw [← h31]
      have hcmp3 : ∀ x ∈ sortSeg c1 fuel arr2 start index, ∀ p ∈ sortSeg c1 fuel arr2 start index,
          c1 x p = c2 (f x) (f p) :=
        fun a ha b hb => hcmp2 a (h32.mem_iff.mp ha) b (h32.mem_iff.mp hb)
      obtain ⟨h41, h42⟩ := sortSeg_spec fuel (sortSeg c1 fuel arr2 start index) (index + 1) end_ hcmp3
      exact ⟨h41, h42.trans (h32.trans (hp2'.trans hpp))⟩

end

theorem StatOK.perm {H : List Nat → Nat} {l l' : List (List Nat × Nat × V)} (h : StatOK H l) (hp : l'.Perm l) :
    StatOK H l' := by
  refine ⟨fun x hx => h.1 x (hp.mem_iff.mp hx), ?_, fun x hx => h.2.2 x (hp.mem_iff.mp hx)⟩
  refine (List.Perm.pairwise_iff ?_ hp).mpr h.2.1
  intro x y hxy hy hx e
  exact hxy hx hy e.symm

theorem slotOfItem_eq (it : Item V) : slotOfItem it = slotOf (stat it) := rfl

/-- `Sort(ascend)`. -/
theorem sort_spec {H : List Nat → Nat} (ord : Nat → Nat) {s : HT V} (hI : Inv H s) (ascend : Bool) :
    ∃ s', sort ord s ascend = some s' ∧ Inv H s' ∧ abs s' = Spec.sort ord (abs s) ascend := by
  have hcmp : ∀ x ∈ s.items, ∀ p ∈ s.items,
      itemCmp ord ascend x p = Spec.slotCmp ord ascend (slotOfItem x) (slotOfItem p) := by
    have hkey : ∀ x ∈ s.items, Spec.slotKey (slotOfItem x) = x.key := by
      intro x hx
      obtain ⟨j, hj⟩ := Array.mem_iff_getElem?.mp hx
      by_cases hd : x.hash = 0
      · simp [slotOfItem, hd, Spec.slotKey, hI.dead_key j x hj hd]
      · simp [slotOfItem, hd, Spec.slotKey]
    intro x hx p hp
    simp only [itemCmp, Spec.slotCmp, hkey x hx, hkey p hp]
  obtain ⟨hmap, hperm⟩ := sortSeg_spec (itemCmp ord ascend) (Spec.slotCmp ord ascend) slotOfItem
    (s.size + 1) s.items 0 s.size hcmp
  set sorted := sortSeg (itemCmp ord ascend) (s.size + 1) s.items 0 s.size with hsorted
  have hsz : sorted.size = s.items.size := hperm.size_eq
  have hspec : Spec.sort ord (abs s) ascend = ⟨s.cap, sorted.toList.map slotOfItem⟩ := by
    simp only [Spec.sort, abs, absSlots_length]
    congr 1
    rw [← Array.toList_map, hmap]
    congr 2
    apply Array.ext'
    simp [absSlots_eq_map]
  have hst : StatOK H (sorted.toList.map stat) :=
    hI.statOK.perm ((hperm.toList).map stat)
  unfold sort
  rw [← hsorted]
  by_cases hcap : s.cap = 0
  · have hem : s.items = #[] := items_empty_of_cap_zero hI hcap
    have hsem : sorted = #[] := Array.eq_empty_of_size_eq_zero (by rw [hsz, hem]; rfl)
    refine ⟨⟨s.cap, Array.replicate s.cap 0, sorted⟩, ?_, ?_, ?_⟩
    · simp [generateHash, HT.size, hsem, genLoop]
    · rw [hsem]; exact inv_fresh H hI.cap_pow
    · rw [hspec]; rfl
  · have hk : ∃ k, s.cap = 2 ^ k := by
      rcases hI.cap_pow with h | h
      · exact absurd h hcap
      · exact h
    have hG : GenInv (⟨s.cap, Array.replicate s.cap 0, sorted⟩ : HT V) 0 (fun _ => []) := genInv_zero hk rfl
    obtain ⟨s', ch', hrun, hG', hcap', hsize', hst'⟩ := genLoop_spec sorted.size _ 0 _ hG (by simp)
    have hstats : stats s' = sorted.toList.map stat := stats_eq_of_getElem? hst'
    refine ⟨s', by simp only [generateHash, HT.size]; exact hrun, ?_, ?_⟩
    · refine inv_of_stat (Or.inr (by rw [hcap']; exact hk)) hG'.heads_size ?_ (by rw [hstats]; exact hst)
        ⟨ch', genInv_to_chains hG'⟩
      rw [hsize', hcap']; simp only; rw [hsz]; exact hI.size_le
    · rw [hspec]
      simp only [abs, hcap', absSlots_eq, hstats, List.map_map]
      rfl

end Qentem.HashTable
