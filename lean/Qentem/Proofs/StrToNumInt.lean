import Qentem.Proofs.StrToNumBasic
/-! C09 helper lemmas: the integer path of `strToNum`. -/
namespace Qentem.StrToNum

/-- units that would continue an integer numeral: a digit, `.`, `e`, `E` -/
def contInt (x : Nat) : Bool := isDigit x || isDotOrE x

theorem isDigit_ne_dot {x : Nat} (h : isDigit x = true) : x ≠ 46 := by
  intro hx; subst hx; simp [isDigit] at h

theorem isDigit_not_dotOrE {x : Nat} (h : isDigit x = true) : isDotOrE x = false := by
  simp [isDigit] at h
  simp [isDotOrE]; omega

theorem scanDigits_stop (c : List Nat) (e : Nat) (ds : List Nat) (k off num dg : Nat)
    (hd : AllDigits ds) (hu : unitsAt c e off ds) (hk : ds.length ≤ k)
    (hs : k = ds.length ∨ ∃ x, rd c e (off + ds.length) = some x ∧ isDigit x = false) :
    ∃ d', scanDigits c e k off num dg = some (off + ds.length, ds.foldl pushDigit num, d') ∧
      (d' = ds.getLast?.getD dg ∨ (rd c e (off + ds.length) = some d' ∧ isDigit d' = false)) := by
  rw [scanDigits_run c e ds k off num dg hd hu hk]
  rcases Nat.eq_zero_or_pos (k - ds.length) with h0 | hpos
  · rw [h0]; exact ⟨_, rfl, Or.inl rfl⟩
  · obtain ⟨j, hj⟩ : ∃ j, k - ds.length = j + 1 := ⟨k - ds.length - 1, by omega⟩
    rcases hs with hs | ⟨x, hx, hxd⟩
    · omega
    · rw [hj, scanDigits, hx]; simp only [hxd]
      exact ⟨x, by simp, Or.inr ⟨rfl, hxd⟩⟩

/-- the outer loop over a run of digits that ends at the window end or at a unit that is neither a
digit nor a dot -/
theorem iter1_digits (c : List Nat) (e maxEnd : Nat) (ds : List Nat) (off num dg dotOff : Nat) (isReal : Bool)
    (hdg : dg ≠ 46) (hd : AllDigits ds) (hu : unitsAt c e off ds) (hk : ds.length ≤ maxEnd - off)
    (hs : maxEnd - off = ds.length ∨ ∃ x, rd c e (off + ds.length) = some x ∧ isDigit x = false ∧ x ≠ 46) :
    iter1 c e maxEnd num off dg false dotOff isReal =
      some (.inr ⟨ds.foldl pushDigit num, off + ds.length, false, dotOff, isReal⟩) := by
  unfold iter1
  simp only [Bool.false_eq_true, if_false]
  by_cases hoe : off < e
  · simp only [hoe, if_true]
    obtain ⟨d', hsc, hd'⟩ := scanDigits_stop c e ds (maxEnd - off) off num dg hd hu hk
      (by rcases hs with h | ⟨x, h1, h2, _⟩
          · exact Or.inl h
          · exact Or.inr ⟨x, h1, h2⟩)
    rw [hsc]
    have hne : d' ≠ 46 := by
      rcases hd' with h | ⟨h1, h2⟩
      · subst h
        by_cases hnil : ds = []
        · subst hnil; simpa using hdg
        · exact isDigit_ne_dot (getLast_digit ds dg hd hnil)
      · rcases hs with h | ⟨x, hx1, _, hx3⟩
        · intro h46; subst h46
          -- the window ended exactly here, so the scan returned without reading: impossible branch
          rw [scanDigits_run c e ds (maxEnd - off) off num dg hd hu hk, h] at hsc
          simp [scanDigits] at hsc
          have := hsc
          by_cases hnil : ds = []
          · subst hnil; simp at this; exact hdg this
          · have hg := getLast_digit ds dg hd hnil
            rw [this] at hg; simp [isDigit] at hg
        · rw [hx1] at h1; cases h1; exact hx3
    simp [hne]
  · have hnil : ds = [] := by
      cases ds with
      | nil => rfl
      | cons x xs => exact absurd (rd_lt hu.1) hoe
    subst hnil
    simp [hoe]

theorem twentieth_stop (c : List Nat) (e num p : Nat) (h : endsAt c e p contInt) :
    twentieth c e num p false = some (num, p, p, false) := by
  unfold twentieth
  rcases h with h | ⟨x, hx, hc⟩
  · subst h; simp
  · have hp := rd_lt hx
    simp only [contInt, Bool.or_eq_false_iff] at hc
    simp [hp, hx, hc.1, hc.2]

theorem twentieth_push (c : List Nat) (e num p d : Nat) (hd : rd c e p = some d) (hdig : isDigit d = true)
    (hno : num * 10 + (d - 48) < 2 ^ 64) (h : endsAt c e (p + 1) contInt) :
    twentieth c e num p false = some (pushDigit num d, p + 1, p + 1, false) := by
  unfold twentieth
  have hp := rd_lt hd
  have h1 : isDotOrE d = false := isDigit_not_dotOrE hdig
  have hov : ¬ (num > 0x1999999999999999 ∨ (num = 0x1999999999999999 ∧ d > 53)) := by
    simp [isDigit] at hdig; omega
  simp only [Bool.not_false, true_and, hp, if_true, hd, h1, hdig, hov, if_false, Bool.false_eq_true]
  rcases h with h | ⟨x, hx, hc⟩
  · simp [h]
  · have hp1 := rd_lt hx
    simp only [contInt, Bool.or_eq_false_iff] at hc
    simp [hp1, hx, hc.1, hc.2]

end Qentem.StrToNum

namespace Qentem.StrToNum

theorem windowEnd_eq (e off : Nat) (he : e < 2 ^ 32) (h : off < e) :
    windowEnd e off = if e - off < 19 then e else off + 19 := by
  unfold windowEnd sub32 add32
  have h1 : (e + 2 ^ 32 - off % 2 ^ 32) % 2 ^ 32 = e - off := by omega
  rw [h1]
  split
  · rfl
  · omega

theorem afterScan_int (c : List Nat) (e : Nat) (neg : Bool) (start : Nat) (fo : Bool) (s : Scan) (v p t : Nat)
    (h : twentieth c e s.num s.off s.isReal = some (v, p, t, false)) (hv : 0 < v) (hv64 : v < 2 ^ 64)
    (hneg : neg = true → v ≤ 2 ^ 63) :
    afterScan c e neg start fo s =
      some ⟨if neg then .integer else .natural, if neg then 2 ^ 64 - v else v, p⟩ := by
  unfold afterScan
  rw [h]
  cases neg with
  | false => simp
  | true =>
    have := hneg rfl
    have h0 : v ≠ 0 := by omega
    have h2 : (2 ^ 64 - v) % 2 ^ 64 = 2 ^ 64 - v := Nat.mod_eq_of_lt (by omega)
    simp [h0, this, h2]

theorem decVal_ge (d1 : Nat) (xs : List Nat) (h1 : isNonZeroDigit d1 = true) :
    10 ^ xs.length ≤ decVal (d1 :: xs) := by
  rw [decVal_cons]
  simp [isNonZeroDigit] at h1
  have : 1 * 10 ^ xs.length ≤ (d1 - 48) * 10 ^ xs.length := Nat.mul_le_mul_right _ (by omega)
  omega

theorem isNonZeroDigit_isDigit {d : Nat} (h : isNonZeroDigit d = true) : isDigit d = true := by
  simp [isNonZeroDigit] at h; simp [isDigit]; omega

/-- The integer path: a non-zero digit followed by digits, ended by `end_offset` or by a unit that
is not a digit, `.`, `e`, `E`; the value fits 64 bits (and `≤ 2^63` under a minus sign). -/
theorem afterSign_int (c : List Nat) (e : Nat) (neg : Bool) (off d1 : Nat) (xs : List Nat) (he : e < 2 ^ 32)
    (h1 : isNonZeroDigit d1 = true) (hxs : AllDigits xs) (hu : unitsAt c e off (d1 :: xs))
    (hend : endsAt c e (off + 1 + xs.length) contInt)
    (hv : decVal (d1 :: xs) < 2 ^ 64) (hneg : neg = true → decVal (d1 :: xs) ≤ 2 ^ 63) :
    afterSign c e neg off =
      some ⟨if neg then .integer else .natural,
            if neg then 2 ^ 64 - decVal (d1 :: xs) else decVal (d1 :: xs), off + 1 + xs.length⟩ := by
  have hoff : off < e := rd_lt hu.1
  have hle : off + (xs.length + 1) ≤ e := by
    have := unitsAt_le c e (d1 :: xs) off hu (by simp); simpa using this
  have hge := decVal_ge d1 xs h1
  have hpos : 0 < decVal (d1 :: xs) := Nat.lt_of_lt_of_le (Nat.pow_pos (by decide)) hge
  -- at most 20 digits
  have hlen : xs.length ≤ 19 := by
    rcases Nat.lt_or_ge 19 xs.length with hc | hc
    · exfalso
      have : 10 ^ 20 ≤ 10 ^ xs.length := Nat.pow_le_pow_right (by decide) (by omega)
      have h20 : (10 : Nat) ^ 20 > 2 ^ 64 := by decide
      omega
    · exact hc
  have hd1 : d1 - 48 < 2 ^ 64 := by simp [isNonZeroDigit] at h1; omega
  unfold afterSign
  simp only [hoff, if_true, hu.1, h1]
  rw [windowEnd_eq e off he hoff]
  by_cases h19 : xs.length ≤ 18
  · -- the whole numeral lies inside the 19-unit window
    have hfold : xs.foldl pushDigit (d1 - 48) = decVal (d1 :: xs) := by
      rw [foldl_pushDigit xs (d1 - 48) (by rw [decVal_cons] at hv; exact hv), decVal_cons]
    rw [iter1_digits c e _ xs (off + 1) (d1 - 48) d1 0 false (isDigit_ne_dot (isNonZeroDigit_isDigit h1)) hxs hu.2
      (by split <;> omega)
      (by
        rcases hend with h | ⟨x, hx, hc⟩
        · left; split <;> omega
        · by_cases hk : (if e - off < 19 then e else off + 19) - (off + 1) = xs.length
          · exact Or.inl hk
          · right
            simp only [contInt, Bool.or_eq_false_iff] at hc
            refine ⟨x, hx, hc.1, ?_⟩
            intro h46; subst h46; simp [isDotOrE] at hc)]
    simp only [thenScan]
    rw [afterScan_int c e neg off false _ (decVal (d1 :: xs)) (off + 1 + xs.length) (off + 1 + xs.length)
      (by simp only [hfold]; exact twentieth_stop c e _ _ hend) hpos hv hneg]
  · -- exactly 20 digits: 19 in the window, the 20th through the overflow test
    have hl : xs.length = 19 := by omega
    obtain ⟨ys, d20, rfl⟩ : ∃ ys d20, xs = ys ++ [d20] := by
      refine ⟨xs.dropLast, xs.getLast (by intro h; simp [h] at hl), ?_⟩
      exact (List.dropLast_concat_getLast _).symm
    have hys : ys.length = 18 := by simp at hl; omega
    have hdys : AllDigits ys := fun y hy => hxs y (by simp [hy])
    have hd20 : isDigit d20 = true := hxs d20 (by simp)
    have hu2 := (unitsAt_append c e ys [d20] (off + 1)).1 hu.2
    have hval : decVal (d1 :: (ys ++ [d20])) = decVal (d1 :: ys) * 10 + (d20 - 48) := by
      rw [← List.cons_append, decVal_append_singleton]
    have hv19 : decVal (d1 :: ys) < 2 ^ 64 := by omega
    have hfold : ys.foldl pushDigit (d1 - 48) = decVal (d1 :: ys) := by
      rw [foldl_pushDigit ys (d1 - 48) (by rw [decVal_cons] at hv19; exact hv19), decVal_cons]
    have hlen2 : (ys ++ [d20]).length = 19 := hl
    have hwin : ¬ (e - off < 19) := by simp at hle; omega
    simp only [hwin, if_false]
    rw [iter1_digits c e _ ys (off + 1) (d1 - 48) d1 0 false (isDigit_ne_dot (isNonZeroDigit_isDigit h1)) hdys hu2.1
      (by omega) (Or.inl (by omega))]
    simp only [thenScan]
    have hr20 : rd c e (off + 1 + ys.length) = some d20 := hu2.2.1
    have hpush : pushDigit (decVal (d1 :: ys)) d20 = decVal (d1 :: (ys ++ [d20])) := by
      unfold pushDigit; rw [hval]; exact Nat.mod_eq_of_lt (by omega)
    have hend' : endsAt c e (off + 1 + ys.length + 1) contInt := by
      have : off + 1 + (ys ++ [d20]).length = off + 1 + ys.length + 1 := by simp; omega
      rw [← this]; exact hend
    rw [afterScan_int c e neg off false _ (decVal (d1 :: (ys ++ [d20]))) (off + 1 + ys.length + 1) (off + 1 + ys.length + 1)
      (by simp only [hfold]; rw [← hpush]
          exact twentieth_push c e _ _ d20 hr20 hd20 (by omega) hend') hpos hv hneg]
    have : off + 1 + (ys ++ [d20]).length = off + 1 + ys.length + 1 := by simp; omega
    rw [this]

end Qentem.StrToNum
