import Qentem.Proofs.StrToNumNegTable
/-! C09: **within one ulp for every mantissa** on the negative-exponent path (`x < 344`): the analytic bound
(`powerOfNegativeTen_close_wide`) needs a big integer of 60 bits; by monotonicity in the mantissa this holds above
`thr1 x` (`≤ 20`, `= 1` for `x ≤ 215`), and the 776 pairs `(v, x)` below the threshold are evaluated by the kernel. -/
namespace Qentem.StrToNum
open Qentem.Round Qentem.Generated.StrToNum

/-- `thr1 x`: the least mantissa whose big integer has 60 bits after the steps for `10^-x` -/
def thr1Tab : List Nat := [
  1, 1, 1, 1, 1, 1, 1, 1, 1, 1, 1, 1, 1, 1, 1, 1, 1, 1, 1, 1, 1, 1, 1, 1, 1, 1, 1,
  1, 1, 1, 1, 1, 1, 1, 1, 1, 1, 1, 1, 1, 1, 1, 1, 1, 1, 1, 1, 1, 1, 1, 1, 1, 1, 1,
  1, 1, 1, 1, 1, 1, 1, 1, 1, 1, 1, 1, 1, 1, 1, 1, 1, 1, 1, 1, 1, 1, 1, 1, 1, 1, 1,
  1, 1, 1, 1, 1, 1, 1, 1, 1, 1, 1, 1, 1, 1, 1, 1, 1, 1, 1, 1, 1, 1, 1, 1, 1, 1, 1,
  1, 1, 1, 1, 1, 1, 1, 1, 1, 1, 1, 1, 1, 1, 1, 1, 1, 1, 1, 1, 1, 1, 1, 1, 1, 1, 1,
  1, 1, 1, 1, 1, 1, 1, 1, 1, 1, 1, 1, 1, 1, 1, 1, 1, 1, 1, 1, 1, 1, 1, 1, 1, 1, 1,
  1, 1, 1, 2, 1, 1, 2, 1, 1, 2, 1, 1, 2, 1, 1, 1, 1, 1, 1, 1, 1, 1, 1, 1, 1, 1, 1,
  1, 2, 2, 2, 2, 2, 2, 2, 2, 2, 2, 2, 2, 2, 2, 2, 1, 2, 2, 1, 2, 2, 1, 2, 2, 1, 2,
  2, 2, 3, 3, 2, 3, 3, 2, 3, 3, 2, 3, 3, 2, 3, 3, 2, 3, 3, 2, 2, 3, 2, 2, 3, 2, 2,
  3, 3, 4, 5, 3, 4, 5, 3, 4, 5, 3, 4, 5, 3, 4, 5, 3, 4, 5, 3, 4, 4, 3, 4, 4, 3, 4,
  4, 5, 6, 8, 5, 6, 8, 5, 6, 8, 5, 6, 7, 5, 6, 7, 5, 6, 7, 5, 6, 7, 5, 6, 7, 4, 5,
  7, 8, 10, 12, 8, 10, 12, 8, 10, 12, 8, 9, 12, 7, 9, 11, 7, 9, 11, 7, 9, 11, 7, 9, 11, 7, 8,
  10, 13, 16, 20, 13, 16, 19, 12, 15, 19, 12, 15, 18, 12, 15, 18, 11, 14, 18, 11]

def thr1 (x : Nat) : Nat := thr1Tab.getD x 0

theorem thr1_wide_all : allFrom (fun x => decide (2 ^ 59 ≤ negB (thr1 x) x)) 0 344 = true := by decide +kernel

theorem thr1_wide (x : Nat) (hx : x < 344) : 2 ^ 59 ≤ negB (thr1 x) x := by
  have := allFrom_spec _ 344 0 thr1_wide_all x (Nat.zero_le _) (by omega)
  simpa using this

def closeB (x v : Nat) : Bool :=
  match powerOfNegativeTen v x with
  | some p => decide (ulpDist p (nearestMag v (10 ^ x)) ≤ 1)
  | none => false

def rowCloseB (x : Nat) : Bool := allFrom (closeB x) 1 (thr1 x - 1)

theorem rowsClose : allFrom rowCloseB 0 344 = true := by decide +kernel

/-- **`powerOfNegativeTen` is within one ulp of the correctly rounded value for every mantissa** `1 ≤ num < 2^64`
and every `x < 344` (normal and subnormal results) -/
theorem powerOfNegativeTen_close_all (num x : Nat) (hn0 : 0 < num) (hn : num < 2 ^ 64) (hx : x < 344) :
    ∃ p, powerOfNegativeTen num x = some p ∧ ulpDist p (nearestMag num (10 ^ x)) ≤ 1 := by
  rcases Nat.lt_or_ge num (thr1 x) with h | h
  · have hrow := allFrom_spec _ 344 0 rowsClose x (Nat.zero_le _) (by omega)
    unfold rowCloseB at hrow
    have ht := allFrom_spec _ _ _ hrow num hn0 (by omega)
    unfold closeB at ht
    split at ht
    · rename_i p hp
      exact ⟨p, hp, by simpa using ht⟩
    · cases ht
  · obtain ⟨b, S, hps, _⟩ := negScale_error_steps num x hn (by omega)
    obtain ⟨b0, S0, hps0, _⟩ := negScale_error_steps (thr1 x) x (by omega) (by omega)
    have hw := thr1_wide x hx
    have hb0 : negB (thr1 x) x = b0 := by unfold negB; rw [hps0]
    rw [hb0] at hw
    exact powerOfNegativeTen_close_wide num x b _ hn0 hn (by omega) hps
      (Nat.le_trans hw (negScale_mono _ _ x _ _ _ _ h hn hps0 hps))

end Qentem.StrToNum
