import Qentem.Proofs.BigIntPred
import Qentem.Proofs.BigIntHelpers
/-! `ShiftRight`. -/
namespace Qentem.BigInt

/-- lists with the same words (missing words read as zero) have the same value -/
theorem valW_congr_getD (W : Nat) : ∀ (a b : List Nat), (∀ k, a.getD k 0 = b.getD k 0) → valW W a = valW W b
  | [], b, h => by
    rw [valW_eq_zero_of_zeroFrom0 W b (fun k _ => by rw [← h k]; simp)]; rfl
  | x :: a, [], h => by
    rw [valW_eq_zero_of_zeroFrom0 W (x :: a) (fun k _ => by rw [h k]; simp)]; rfl
  | x :: a, y :: b, h => by
    have h0 : x = y := by simpa using h 0
    have := valW_congr_getD W a b (fun k => by simpa using h (k + 1))
    simp [valW, h0, this]

theorem getD_drop (ws : List Nat) (m k : Nat) : (ws.drop m).getD k 0 = ws.getD (m + k) 0 := by
  simp [List.getD_eq_getElem?_getD, List.getElem?_drop]

/-- a word list whose k-th word is the (k+m)-th word of `ws` holds `valW ws / 2^(W·m)` -/
theorem valW_shift_words {W : Nat} (ws ws' : List Nat) (m : Nat) (hb : Bounded W ws)
    (h : ∀ k, ws'.getD k 0 = ws.getD (k + m) 0) : valW W ws' = valW W ws / 2 ^ (W * m) := by
  have h1 : valW W ws' = valW W (ws.drop m) :=
    valW_congr_getD W _ _ (fun k => by rw [h k, getD_drop, Nat.add_comm])
  rw [h1]
  by_cases hm : m ≤ ws.length
  · have hs := valW_split W ws m hm
    have hb' : Bounded W (ws.take m) := fun w hw => hb w (List.mem_of_mem_take hw)
    have hlt := valW_lt hb'
    rw [List.length_take, Nat.min_eq_left hm] at hlt
    have hpos : 0 < 2 ^ (W * m) := Nat.pow_pos (by decide)
    rw [hs, Nat.add_mul_div_left _ _ hpos, Nat.div_eq_of_lt hlt]; simp
  · have hd : ws.drop m = [] := List.drop_eq_nil_of_le (by omega)
    rw [hd]
    have hlt := valW_lt hb
    have : 2 ^ (W * ws.length) ≤ 2 ^ (W * m) := Nat.pow_le_pow_right (by decide) (Nat.mul_le_mul_left _ (by omega))
    rw [Nat.div_eq_of_lt (by omega)]; rfl

/-- the copy loop of the word move: `ws'[k] = ws[k+move]` for `k ≤ idx - move`, the rest unchanged -/
theorem moveDown_spec (idx move : Nat) (hmv : 0 < move) : ∀ (fuel : Nat) (ws0 ws : List Nat) (index : Nat),
    ws.length = ws0.length → idx < ws0.length → index + move ≤ idx → idx - (index + move) < fuel →
    (∀ k, index ≤ k → ws.getD k 0 = ws0.getD k 0) →
    ∃ ws', moveDown idx fuel ws index (index + move) = .ok ws' ∧ ws'.length = ws0.length ∧
      (∀ k, index ≤ k → k + move ≤ idx → ws'.getD k 0 = ws0.getD (k + move) 0) ∧
      (∀ k, idx < k + move → index ≤ k → ws'.getD k 0 = ws0.getD k 0) ∧
      (∀ k, k < index → ws'.getD k 0 = ws.getD k 0)
  | 0, _, _, _, _, _, _, hf, _ => by omega
  | fuel + 1, ws0, ws, index, hl, hidx, hle, hf, hfr => by
    unfold moveDown
    rw [rd_ok (by omega : index + move < ws.length)]
    simp only [bind, Except.bind]
    rw [wr_ok _ (by omega : index < ws.length)]
    simp only []
    have hrd : ws[index + move]'(by omega) = ws0.getD (index + move) 0 := by
      rw [← getD_eq_getElem (by omega : index + move < ws.length)]; exact hfr _ (by omega)
    by_cases hnext : index + move + 1 ≤ idx
    · rw [if_pos hnext]
      have e : index + move + 1 = (index + 1) + move := by omega
      rw [e]
      obtain ⟨ws', hrun, hl', h1, h2, h3⟩ := moveDown_spec idx move hmv fuel ws0 (ws.set index ws[index + move]) (index + 1)
        (by simpa using hl) hidx (by omega) (by omega)
        (fun k hk => by rw [getD_set_ne (by omega)]; exact hfr k (by omega))
      refine ⟨ws', hrun, hl', ?_, ?_, ?_⟩
      · intro k hk1 hk2
        by_cases hk : k = index
        · subst hk; rw [h3 k (by omega), getD_set_eq (by omega), hrd]
        · exact h1 k (by omega) hk2
      · intro k hk1 hk2; exact h2 k hk1 (by omega)
      · intro k hk; rw [h3 k (by omega)]; exact getD_set_ne (by omega)
    · rw [if_neg hnext]
      refine ⟨_, rfl, by simpa using hl, ?_, ?_, ?_⟩
      · intro k hk1 hk2
        have hk : k = index := by omega
        subst hk; rw [getD_set_eq (by omega), hrd]
      · intro k hk1 hk2; rw [getD_set_ne (by omega)]; exact hfr k hk2
      · intro k hk; exact getD_set_ne (by omega)

theorem zeroTop_spec : ∀ (move : Nat) (ws : List Nat) (idx : Nat), 0 < move → move ≤ idx → idx < ws.length →
    ∃ ws', zeroTop move ws idx = .ok (ws', idx - move) ∧ ws'.length = ws.length ∧
      (∀ k, idx - move < k → k ≤ idx → ws'.getD k 0 = 0) ∧
      (∀ k, (k ≤ idx - move ∨ idx < k) → ws'.getD k 0 = ws.getD k 0)
  | 0, _, _, h, _, _ => by omega
  | m + 1, ws, idx, _, hle, hlt => by
    unfold zeroTop
    rw [wr_ok _ hlt]
    simp only [bind, Except.bind]
    match m, hle with
    | 0, hle =>
      refine ⟨_, rfl, by simp, ?_, ?_⟩
      · intro k h1 h2
        have : k = idx := by omega
        subst this; exact getD_set_eq hlt
      · intro k hk; exact getD_set_ne (by omega)
    | m' + 1, hle =>
      obtain ⟨ws', hrun, hl, hz, hfr⟩ := zeroTop_spec (m' + 1) (ws.set idx 0) (idx - 1) (by omega) (by omega) (by simp; omega)
      have e : idx - 1 - (m' + 1) = idx - (m' + 1 + 1) := by omega
      rw [e] at hrun hz hfr
      refine ⟨ws', hrun, by simpa using hl, ?_, ?_⟩
      · intro k h1 h2
        by_cases hk : k = idx
        · subst hk; rw [hfr k (Or.inr (by omega)), getD_set_eq hlt]
        · exact hz k h1 (by omega)
      · intro k hk
        rw [hfr k (by omega)]; exact getD_set_ne (by omega)

/-- the whole-word part of `ShiftRight` -/
theorem shrWords_spec {W : Nat} (s : Big) (move : Nat) (h : Inv W s) (hmv : 0 < move) (hle : move ≤ s.idx) :
    ∃ s', shrWords s move = .ok s' ∧ Inv W s' ∧ s'.words.length = s.words.length ∧
      s'.val W = s.val W / 2 ^ (W * move) := by
  have hlt := h.idx_lt
  obtain ⟨ws1, hrun1, hl1, ha, hb, _⟩ := moveDown_spec s.idx move hmv (s.idx + 1) s.words s.words 0 rfl hlt
    (by omega) (by omega) (fun _ _ => rfl)
  obtain ⟨ws2, hrun2, hl2, hz, hfr⟩ := zeroTop_spec move ws1 s.idx hmv hle (by omega)
  have hall : ∀ k, ws2.getD k 0 = s.words.getD (k + move) 0 := by
    intro k
    by_cases h1 : k ≤ s.idx - move
    · rw [hfr k (Or.inl h1)]; exact ha k (Nat.zero_le _) (by omega)
    · by_cases h2 : k ≤ s.idx
      · rw [hz k (by omega) h2]; exact (h.above (k + move) (by omega)).symm
      · rw [hfr k (Or.inr (by omega)), hb k (by omega) (Nat.zero_le _), h.above k (by omega)]
        exact (h.above (k + move) (by omega)).symm
  have hbd : Bounded W ws2 := bounded_of_getD (fun k _ => by rw [hall k]; exact h.bound.getD _)
  refine ⟨⟨ws2, s.idx - move⟩, ?_, ⟨⟨h.wpos, hbd, by simp; omega, ?_⟩, ?_⟩, by simp; omega, ?_⟩
  · unfold shrWords
    simp only [Nat.zero_add] at hrun1
    rw [hrun1]
    simp only [bind, Except.bind]
    rw [hrun2]; rfl
  · intro k hk
    have hk' : s.idx - move + 1 ≤ k := hk
    show ws2.getD k 0 = 0
    rw [hall k]; exact h.above _ (by omega)
  · intro hne
    have hne' : s.idx - move ≠ 0 := hne
    show ws2.getD (s.idx - move) 0 ≠ 0
    rw [hall, Nat.sub_add_cancel hle]; exact h.top (by omega)
  · exact valW_shift_words s.words ws2 move h.bound hall

theorem shr_step_arith (O Q P T a bq br r0 V : Nat) (ih : O * (T + P * a) + r0 = V) :
    O * ((T + P * (br * Q + a)) + (O * Q * P) * bq) + r0 = V + (O * Q * P) * (O * bq + br) := by
  rw [← ih]; ring

theorem take_set_val (W : Nat) (ws : List Nat) (j i v : Nat) (hj : j ≤ i) (hi : i < ws.length) :
    valW W ((ws.set i v).take j) = valW W (ws.take j) :=
  valW_take_congr _ _ _ _ (by simp; omega) (by omega) (fun k hk => getD_set_ne (by omega))

/-- The bit-shift loop of `ShiftRight`: invariant on the low `j+1` words. -/
theorem shrBits_spec {W off : Nat} (hoff0 : 0 < off) (hoff : off < W) (idx : Nat) (ws0 : List Nat)
    (hb0 : Bounded W ws0) (hidx : idx < ws0.length) :
    ∀ (fuel : Nat) (cur : List Nat) (j : Nat), j ≤ idx → idx - j < fuel → cur.length = ws0.length →
    Bounded W cur → (∀ k, j < k → cur.getD k 0 = ws0.getD k 0) → cur.getD j 0 = ws0.getD j 0 / 2 ^ off →
    2 ^ off * valW W (cur.take (j + 1)) + ws0.getD 0 0 % 2 ^ off = valW W (ws0.take (j + 1)) →
    ∃ ws', shrBits W off idx fuel cur j = .ok ws' ∧ ws'.length = ws0.length ∧ Bounded W ws' ∧
      (∀ k, idx < k → ws'.getD k 0 = ws0.getD k 0) ∧ ws'.getD idx 0 = ws0.getD idx 0 / 2 ^ off ∧
      2 ^ off * valW W (ws'.take (idx + 1)) + ws0.getD 0 0 % 2 ^ off = valW W (ws0.take (idx + 1))
  | 0, _, _, _, hf, _, _, _, _, _ => by omega
  | fuel + 1, cur, j, hj, hf, hl, hbc, hfr, hcj, hiv => by
    unfold shrBits
    by_cases hlt : j < idx
    · rw [if_pos hlt]
      have hj1 : j + 1 < cur.length := by omega
      have hj0 : j < cur.length := by omega
      rw [rd_ok hj0, rd_ok hj1]
      simp only [bind, Except.bind]
      rw [wr_ok _ hj0]
      simp only []
      have hj1' : j + 1 < (cur.set j (cur[j] ||| (cur[j + 1] <<< (W - off)) % 2 ^ W)).length := by simpa using hj1
      rw [rd_ok hj1']
      simp only []
      rw [wr_ok _ hj1']
      simp only []
      -- arithmetic facts
      have hW : 2 ^ W = 2 ^ off * 2 ^ (W - off) := by rw [← Nat.pow_add]; congr 1; omega
      have hO : 0 < 2 ^ off := Nat.pow_pos (by decide)
      have hQ : 0 < 2 ^ (W - off) := Nat.pow_pos (by decide)
      have ha : cur[j] = ws0.getD j 0 / 2 ^ off := by rw [← getD_eq_getElem hj0]; exact hcj
      have hbv : cur[j + 1] = ws0.getD (j + 1) 0 := by rw [← getD_eq_getElem hj1]; exact hfr _ (by omega)
      have hwj : ws0.getD j 0 < 2 ^ W := hb0.getD j
      have hwj1 : ws0.getD (j + 1) 0 < 2 ^ W := hb0.getD (j + 1)
      have haQ : cur[j] < 2 ^ (W - off) := by
        rw [ha]; apply Nat.div_lt_of_lt_mul; rw [← hW]; exact hwj
      have hshl : (cur[j + 1] <<< (W - off)) % 2 ^ W = cur[j + 1] % 2 ^ off * 2 ^ (W - off) := by
        rw [Nat.shiftLeft_eq, hW, Nat.mul_mod_mul_right]
      have hget1 : (cur.set j (cur[j] ||| (cur[j + 1] <<< (W - off)) % 2 ^ W))[j + 1] = cur[j + 1] := by
        rw [List.getElem_set_ne (by omega)]
      rw [hget1, hshl, lor_eq_add_of_lt rfl haQ, Nat.shiftRight_eq_div_pow]
      have hnewj : cur[j + 1] % 2 ^ off * 2 ^ (W - off) + cur[j] < 2 ^ W := by
        have h1 : cur[j + 1] % 2 ^ off < 2 ^ off := Nat.mod_lt _ hO
        have h2 : (cur[j + 1] % 2 ^ off + 1) * 2 ^ (W - off) ≤ 2 ^ off * 2 ^ (W - off) := Nat.mul_le_mul_right _ h1
        rw [Nat.add_mul] at h2
        omega
      have hnewj1 : cur[j + 1] / 2 ^ off < 2 ^ W := by
        rw [hbv]; exact Nat.lt_of_le_of_lt (Nat.div_le_self _ _) hwj1
      apply shrBits_spec hoff0 hoff idx ws0 hb0 hidx fuel _ (j + 1) (by omega) (by omega) (by simpa using hl)
        ((hbc.set _ hnewj).set _ hnewj1)
      · intro k hk
        rw [getD_set_ne (by omega), getD_set_ne (by omega)]; exact hfr k (by omega)
      · rw [getD_set_eq (by simpa using hj1), hbv]
      · -- the value invariant
        have hjj : j + 1 < ws0.length := by omega
        have e1 : valW W (((cur.set j (cur[j + 1] % 2 ^ off * 2 ^ (W - off) + cur[j])).set (j + 1)
            (cur[j + 1] / 2 ^ off)).take (j + 1 + 1))
            = (valW W (cur.take j) + 2 ^ (W * j) * (cur[j + 1] % 2 ^ off * 2 ^ (W - off) + cur[j]))
              + 2 ^ (W * (j + 1)) * (cur[j + 1] / 2 ^ off) := by
          rw [valW_take_succ W _ (j + 1) (by simp; omega), List.getElem_set_self,
            take_set_val W _ (j + 1) (j + 1) _ (Nat.le_refl _) (by simp; omega),
            valW_take_succ W _ j (by simp; omega), List.getElem_set_self,
            take_set_val W _ j j _ (Nat.le_refl _) hj0]
        have e2 := valW_take_succ W cur j hj0
        have e3 := valW_take_succ W ws0 (j + 1) hjj
        rw [e1, e3, ← hiv, e2, pow_mul_succ, hW]
        have hb' : ws0[j + 1] = cur[j + 1] := by rw [hbv, getD_eq_getElem hjj]
        rw [hb']
        have hdm := Nat.div_add_mod cur[j + 1] (2 ^ off)
        generalize cur[j + 1] / 2 ^ off = bq at *
        generalize cur[j + 1] % 2 ^ off = br at *
        generalize hbb : cur[j + 1] = bb at *
        subst hdm
        have := shr_step_arith (2 ^ off) (2 ^ (W - off)) (2 ^ (W * j)) (valW W (cur.take j)) cur[j] bq br
          (ws0.getD 0 0 % 2 ^ off) _ rfl
        rw [this]
    · have he : j = idx := by omega
      subst he
      rw [if_neg hlt]
      exact ⟨cur, rfl, hl, hbc, hfr, hcj, hiv⟩

/-- the sub-word part of `ShiftRight` -/
theorem shrSmall_spec {W : Nat} (s : Big) (off : Nat) (h : Inv W s) (hoff : off < W) :
    ∃ s', shrSmall W s off = .ok s' ∧ Inv W s' ∧ s'.words.length = s.words.length ∧
      s'.val W = s.val W / 2 ^ off := by
  unfold shrSmall
  by_cases h0 : off = 0
  · subst h0
    exact ⟨s, rfl, h, rfl, by simp⟩
  · have hne : (off != 0) = true := by simp [h0]
    rw [if_pos hne]
    have hlt := h.idx_lt
    have hl0 : 0 < s.words.length := by omega
    have hO : 0 < 2 ^ off := Nat.pow_pos (by decide)
    have hw0 : s.words[0] < 2 ^ W := h.bound.getElem hl0
    obtain ⟨ws', hrun, hl', hb', hfr, htopw, hval⟩ :=
      shrBits_spec (W := W) (off := off) (by omega) hoff s.idx s.words h.bound hlt (s.idx + 1)
        (s.words.set 0 (s.words[0] >>> off)) 0 (Nat.zero_le _) (by omega) (by simp)
        (h.bound.set _ (by rw [Nat.shiftRight_eq_div_pow]; exact Nat.lt_of_le_of_lt (Nat.div_le_self _ _) hw0))
        (fun k hk => getD_set_ne (by omega))
        (by rw [getD_set_eq hl0, Nat.shiftRight_eq_div_pow, getD_eq_getElem hl0])
        (by
          have e1 : (s.words.set 0 (s.words[0] >>> off)).take 1 = [s.words[0] >>> off] := by
            match hs : s.words, hl0 with
            | w :: ws, _ => simp
          have e2 : s.words.take 1 = [s.words[0]] := by
            match hs : s.words, hl0 with
            | w :: ws, _ => simp
          rw [e1, e2, getD_eq_getElem hl0, Nat.shiftRight_eq_div_pow]
          simp only [valW, Nat.mul_zero, Nat.add_zero]
          exact Nat.div_add_mod _ _)
    rw [rd_ok hl0]
    simp only [bind, Except.bind]
    rw [wr_ok _ hl0]
    simp only []
    rw [hrun]
    simp only []
    have habove : ZeroFrom ws' (s.idx + 1) := fun k hk => by rw [hfr k hk]; exact h.above k hk
    have hv1 : valW W ws' = valW W (ws'.take (s.idx + 1)) := valW_of_zeroFrom W ws' _ (by omega) habove
    have hv0 : valW W s.words = valW W (s.words.take (s.idx + 1)) := valW_of_zeroFrom W s.words _ hlt h.above
    have hdiv : valW W ws' = s.val W / 2 ^ off := by
      have hr0 : s.words.getD 0 0 % 2 ^ off < 2 ^ off := Nat.mod_lt _ hO
      have := (Nat.div_mod_unique hO).2 ⟨(by rw [hv1, hv0, ← hval, Nat.add_comm] :
        s.words.getD 0 0 % 2 ^ off + 2 ^ off * valW W ws' = valW W s.words), hr0⟩
      exact this.1.symm
    have hw : WInv W ⟨ws', s.idx⟩ := ⟨h.wpos, hb', by simp; omega, habove⟩
    by_cases hi0 : s.idx = 0
    · have hc : (s.idx != 0) = false := by simp [hi0]
      simp only [hc, Bool.false_eq_true, if_false]
      exact ⟨_, rfl, ⟨hw, fun hne => absurd hi0 hne⟩, hl', hdiv⟩
    · have hc : (s.idx != 0) = true := by simp [hi0]
      simp only [hc, if_true]
      rw [rd_ok (by omega : s.idx < ws'.length)]
      simp only [pure, Except.pure]
      have hget : ws'[s.idx]'(by omega) = ws'.getD s.idx 0 := (getD_eq_getElem (by omega)).symm
      by_cases hz : ws'.getD s.idx 0 = 0
      · have hcond : (ws'[s.idx]'(by omega) == 0) = true := by rw [hget, hz]; rfl
        simp only [hcond, if_true]
        refine ⟨_, rfl, ?_, hl', hdiv⟩
        apply top_of_le_val
        · refine ⟨h.wpos, hb', by simp; omega, ?_⟩
          intro k hk
          have hk' : s.idx - 1 + 1 ≤ k := hk
          by_cases hke : k = s.idx
          · subst hke; exact hz
          · exact habove k (by omega)
        · intro hne1
          have hne1' : s.idx - 1 ≠ 0 := hne1
          show 2 ^ (W * (s.idx - 1)) ≤ valW W ws'
          rw [hdiv, Nat.le_div_iff_mul_le hO]
          have hle := h.le_val hi0
          have hp : 2 ^ (W * s.idx) = 2 ^ W * 2 ^ (W * (s.idx - 1)) := by
            have : s.idx = (s.idx - 1) + 1 := by omega
            rw [this, pow_mul_succ]; simp
          have hOW : 2 ^ off ≤ 2 ^ W := Nat.pow_le_pow_right (by decide) (Nat.le_of_lt hoff)
          have : 2 ^ (W * (s.idx - 1)) * 2 ^ off ≤ 2 ^ W * 2 ^ (W * (s.idx - 1)) := by
            rw [Nat.mul_comm]; exact Nat.mul_le_mul_right _ hOW
          omega
      · have hcond : (ws'[s.idx]'(by omega) == 0) = false := by rw [hget]; exact beq_false_of_ne hz
        simp only [hcond, Bool.false_eq_true, if_false]
        exact ⟨_, rfl, ⟨hw, fun _ => hz⟩, hl', hdiv⟩

/-- `ShiftRight(offset)`: the floor of the value divided by 2^offset, for every offset. -/
theorem shiftRight_spec {W : Nat} (s : Big) (offset : Nat) (h : Inv W s) :
    ∃ s', shiftRight W s offset = .ok s' ∧ Inv W s' ∧ s'.words.length = s.words.length ∧
      s'.val W = s.val W / 2 ^ offset := by
  unfold shiftRight
  by_cases hge : offset ≥ W
  · rw [if_pos hge]
    simp only []
    have hW := h.wpos
    have hmv : 0 < offset / W := Nat.div_pos hge hW
    have hoff : offset - offset / W * W = offset % W := by
      have := Nat.div_add_mod offset W
      rw [Nat.mul_comm] at this; omega
    have hlt : offset % W < W := Nat.mod_lt _ hW
    by_cases hbig : offset / W > s.idx
    · rw [if_pos hbig]
      obtain ⟨s', hrun, hinv, hl, hv⟩ := clear_spec (W := W) s h
      refine ⟨s', hrun, hinv, hl, ?_⟩
      rw [hv]
      have h1 := h.toWInv.val_lt
      have h2 : 2 ^ (W * (s.idx + 1)) ≤ 2 ^ offset := by
        apply Nat.pow_le_pow_right (by decide)
        have : W * (s.idx + 1) ≤ W * (offset / W) := Nat.mul_le_mul_left _ hbig
        have := Nat.div_add_mod offset W
        omega
      exact (Nat.div_eq_of_lt (by omega)).symm
    · rw [if_neg hbig]
      obtain ⟨s1, hrun1, hinv1, hl1, hv1⟩ := shrWords_spec s (offset / W) h hmv (by omega)
      rw [hoff] at *
      obtain ⟨s2, hrun2, hinv2, hl2, hv2⟩ := shrSmall_spec s1 (offset % W) hinv1 hlt
      refine ⟨s2, ?_, hinv2, by omega, ?_⟩
      · simp only [bind, Except.bind, hrun1]
        exact hrun2
      · rw [hv2, hv1, Nat.div_div_eq_div_mul, ← Nat.pow_add]
        congr 2
        have := Nat.div_add_mod offset W
        omega
  · rw [if_neg hge]
    exact shrSmall_spec s offset h (by omega)

end Qentem.BigInt
