import Qentem.Proofs.NumToStrIntClass
/-! Helper lemmas for C11: integers of magnitude below 2^53, formatted with 17 significant digits,
print exactly their decimal numeral, and that numeral reads back (exactly) as the same value. -/
set_option linter.unusedSimpArgs false
namespace Qentem.Proofs.NumToStr
open Qentem.NumToStr Qentem.Generated.NumToStr Qentem

/-- `digitRun` on an integer-valued double in the Default format when the digit estimate does not exceed the precision -/
theorem digitRun_int64_default {c : Cfg} (hc : LikeF64 c) {e f j p : Nat} (h : IntValued64 e f j)
    (hd : (e - 1023) * 30103 / 100000 + 1 ≤ p) :
    digitRun c f (e * 2 ^ 52) p 0 = .ok (intValue64 e f, (e - 1023) * 30103 / 100000 + 1, 0, true, false) := by
  obtain ⟨he1, he2, hf, hj, hdiv, hodd, hint⟩ := h
  obtain ⟨c1, c2, c3, c4⟩ := hc
  have hm : f ||| 4503599627370496 = 2 ^ 52 + f := or_leading f hf
  have hfs : findFirstBit (2 ^ 52 + f) = j := findFirstBit_spec hdiv hodd (by omega)
  have hb0 : e * 2 ^ 52 ≠ 0 := by positivity
  have hfix : (decide (0 = fmtSemiFixed) || decide (0 = fmtFixed)) = false := by decide
  have hnp : ¬ (p < (e - 1023) * 30103 / 100000 + 1) := by omega
  have hcs : csub 20 52 j = .ok (52 - j) := by simp [csub, hj, pure, Except.pure]
  unfold digitRun runNoFraction
  simp only [c1, c2, c3, hb0, ne_eq, not_false_eq_true, if_true, hm, hfs,
    Nat.shiftRight_eq_div_pow, Nat.mul_div_cancel _ (Nat.two_pow_pos 52), hcs, ok_bind, pure_bind, he1, hfix, hint, hnp,
    decide_true, decide_false, Bool.not_true, Bool.and_false, Bool.or_false, Bool.not_false, Bool.true_and, Bool.or_true, Bool.true_or,
    Bool.false_and, Nat.add_zero, if_false, not_true_eq_false, Bool.and_true, Bool.false_eq_true]
  by_cases hbig : 52 < e - 1023
  · rw [if_pos hbig, bigFit, if_pos (int_fit he2 hf c4), intValue64_big hbig]
    rfl
  · have hnj : ¬ (j < 52 - (e - 1023)) := by omega
    rw [if_neg hbig, intValue64_small he1 hbig]
    simp only [hnj, decide_false]
    rfl

/-- `formatStringNumberDefault` on a digit run without fraction that is not longer than the precision: the digits -/
theorem formatDefault_integer (s t : List Nat) (p cd : Nat) (hlen : t.length ≤ p) :
    formatDefault s.length (s ++ t) p cd 0 true false = .ok (s ++ t.reverse) := by
  have h3 : csub 3 (s ++ t).length s.length = .ok t.length := by simp [csub, pure, Except.pure]
  have hnl : ¬ (p < t.length) := by omega
  have hsb : stepBack s.length (s ++ t.reverse) 0 = .ok (s ++ t.reverse) := by
    simp [stepBack, pure, Except.pure]
    exact List.take_of_length_le (by simp)
  unfold formatDefault
  rw [h3]
  simp only [ok_bind, pure_bind, defaultRound, hnl, if_false, defaultFraction, ne_eq, not_true_eq_false, finishNumber, csub,
    Nat.le_refl, if_true, Nat.sub_self, reverseFrom_append, hsb]
  rfl

theorem realFinite_int64_default {c : Cfg} (hc : LikeF64 c) {e f j p : Nat} (h : IntValued64 e f j)
    (hd : (e - 1023) * 30103 / 100000 + 1 ≤ p) (hl : (D (intValue64 e f)).length ≤ p) (s : List Nat) :
    realFinite c s f (e * 2 ^ 52) p 0 = .ok (s ++ D (intValue64 e f)) := by
  have hn0 : intValue64 e f ≠ 0 := Nat.pos_iff_ne_zero.mp (intValue64_pos h)
  have hR : R (intValue64 e f) = (D (intValue64 e f)).reverse := by simp [R, hn0]
  unfold realFinite
  rw [digitRun_int64_default hc h hd]
  simp only [ok_bind]
  rw [bigIntToString_eq s (intValue64_lt h hc.wide), hR]
  simp only [ok_bind]
  have e1 : ¬ (0 = fmtSemiFixed) := by decide
  have e2 : ¬ (0 = fmtFixed) := by decide
  rw [if_neg e1, if_neg e2, formatDefault_integer s _ p _ (by simpa using hl)]
  simp

/-! reading the digits back -/
theorem digitsValue_append (l : List Nat) (c : Nat) : FmtSpec.digitsValue (l ++ [c]) = FmtSpec.digitsValue l * 10 + (c - 48) := by
  simp [FmtSpec.digitsValue, List.foldl_append]

theorem digitsValue_D : ∀ n, FmtSpec.digitsValue (D n) = n := by
  intro n
  induction n using Nat.strong_induction_on with
  | _ n ih =>
    by_cases h : n < 10
    · rw [D_lt10 h]; simp [FmtSpec.digitsValue]
    · rw [D_step (by omega), digitsValue_append, ih (n / 10) (by omega)]
      omega

theorem isDigit_D (n : Nat) : ∀ c ∈ D n, FmtSpec.isDigit c = true := by
  intro c hc
  have := D_mem_range n c hc
  simp [FmtSpec.isDigit]; omega

theorem takeWhile_all (p : Nat → Bool) : ∀ l : List Nat, (∀ c ∈ l, p c = true) → l.takeWhile p = l := by
  intro l
  induction l with
  | nil => intro _; rfl
  | cons a t ih => intro h; simp [List.takeWhile, h a (by simp), ih (fun c hc => h c (by simp [hc]))]

theorem dropWhile_all (p : Nat → Bool) : ∀ l : List Nat, (∀ c ∈ l, p c = true) → l.dropWhile p = [] := by
  intro l
  induction l with
  | nil => intro _; rfl
  | cons a t ih => intro h; simp [List.dropWhile, h a (by simp), ih (fun c hc => h c (by simp [hc]))]

theorem takeWhile_D (n : Nat) : (D n).takeWhile FmtSpec.isDigit = D n := takeWhile_all _ _ (isDigit_D n)

theorem dropWhile_D (n : Nat) : (D n).dropWhile FmtSpec.isDigit = [] := dropWhile_all _ _ (isDigit_D n)

theorem D_head_ne_minus (n : Nat) : ∀ r, D n ≠ 45 :: r := by
  intro r h
  have := D_mem_range n 45 (by rw [h]; simp)
  omega

/-- the decimal digits of `n` read back as exactly `n` -/
theorem readDecimal_D (n : Nat) : FmtSpec.readDecimal (D n) = some (false, n, 1) := by
  have hne := D_ne_nil n
  unfold FmtSpec.readDecimal
  split
  · rename_i r heq
    have hx : (fun x : Bool × List Nat => x) (true, r) = (true, r) := rfl
    split at heq
    · rename_i r' h45
      exact absurd h45 (D_head_ne_minus n r')
    · simp only [Prod.mk.injEq] at heq
      obtain ⟨h1, h2⟩ := heq
      subst h2
      simp [takeWhile_D, dropWhile_D, hne, digitsValue_D] at *
      exact h1.symm ▸ rfl

theorem readDecimal_neg_D (n : Nat) : FmtSpec.readDecimal (45 :: D n) = some (true, n, 1) := by
  have hne := D_ne_nil n
  unfold FmtSpec.readDecimal
  simp [takeWhile_D, dropWhile_D, hne, digitsValue_D]

/-- integers below 2^53 as doubles: `NumberToString(17 digits)` prints exactly their decimal numeral (with the sign) -/
theorem format17_small_int (bits j : Nat)
    (h : IntValued64 ((bits / 2 ^ 52) % 2 ^ 11) (bits % 2 ^ 52) j) (hsmall : (bits / 2 ^ 52) % 2 ^ 11 - 1023 ≤ 52) :
    format17 bits = .ok (FmtSpec.signed (decide (bits / 2 ^ 63 % 2 = 1))
      (D (intValue64 ((bits / 2 ^ 52) % 2 ^ 11) (bits % 2 ^ 52)))) := by
  obtain ⟨h1, h2, h3⟩ := fields64 bits
  have hx : f64.exponentMask = 9218868437227405312 := rfl
  have hy : f64.mantissaMask = 4503599627370495 := rfl
  have hz : f64.signMask = 9223372036854775808 := rfl
  have he1 := h.he1
  have he2 := h.he2
  have hpw : (2:Nat) ^ 52 = 4503599627370496 := by norm_num
  have hne : ¬ ((bits / 2 ^ 52) % 2 ^ 11 * 2 ^ 52 = 9218868437227405312) := by
    generalize (bits / 2 ^ 52) % 2 ^ 11 = E at *
    rw [hpw]; omega
  have hnz : ¬ ((bits / 2 ^ 52) % 2 ^ 11 * 2 ^ 52 = 0) := by
    generalize (bits / 2 ^ 52) % 2 ^ 11 = E at *
    rw [hpw]; omega
  have hf0 : ¬ (fmtDefault = fmtDefault ∧ 17 = 0) := by simp
  have hd : ((bits / 2 ^ 52) % 2 ^ 11 - 1023) * 30103 / 100000 + 1 ≤ 17 := by
    generalize (bits / 2 ^ 52) % 2 ^ 11 = E at *
    omega
  have hn : intValue64 ((bits / 2 ^ 52) % 2 ^ 11) (bits % 2 ^ 52) < 10 ^ 17 := by
    have hbig : ¬ 52 < (bits / 2 ^ 52) % 2 ^ 11 - 1023 := by omega
    rw [intValue64_small he1 hbig]
    have hf := h.hf
    calc (2 ^ 52 + bits % 2 ^ 52) / 2 ^ (52 - ((bits / 2 ^ 52) % 2 ^ 11 - 1023)) ≤ 2 ^ 52 + bits % 2 ^ 52 := Nat.div_le_self _ _
      _ < 10 ^ 17 := by omega
  have hl := D_length_le _ 17 (by decide) hn
  unfold format17 realText realToString
  simp only [hx, hy, hz, h1, h2, h3, hne, hnz, hf0, ne_eq, not_false_eq_true, if_true, if_false, or_true]
  have hdef : fmtDefault = 0 := rfl
  have h17 : ¬ ((17:Nat) = 0) := by decide
  by_cases hs : bits / 2 ^ 63 % 2 = 1
  · have hs' : ¬ (bits / 2 ^ 63 % 2 * 2 ^ 63 = 0) := by rw [hs]; norm_num
    simp only [hs', not_false_eq_true, if_true, hdef, true_and, h17, if_false]
    rw [realFinite_int64_default f64_like h hd hl]
    have hsl : bits / 9223372036854775808 % 2 = 1 := by simpa using hs
    simp [hsl, FmtSpec.signed, Ch.negative, FmtSpec.cMinus]
  · have hs0 : bits / 2 ^ 63 % 2 = 0 := by omega
    simp only [hs0, Nat.zero_mul, not_true_eq_false, if_false, hdef, true_and, h17]
    rw [realFinite_int64_default f64_like h hd hl]
    simp [FmtSpec.signed]

/-- the exact value of an integer-valued double, as the reference decodes it: `n · den / den` -/
theorem decode64_int {bits j : Nat} (h : IntValued64 ((bits / 2 ^ 52) % 2 ^ 11) (bits % 2 ^ 52) j) :
    ∃ den, 0 < den ∧ FmtSpec.decode64 bits =
      .fin (decide (bits / 2 ^ 63 % 2 = 1)) (intValue64 ((bits / 2 ^ 52) % 2 ^ 11) (bits % 2 ^ 52) * den) den := by
  obtain ⟨he1, he2, hf, hj, hdiv, hodd, hint⟩ := h
  generalize he : (bits / 2 ^ 52) % 2 ^ 11 = e at *
  generalize hf0 : bits % 2 ^ 52 = f at *
  have hne : ¬ (e = 2 ^ 11 - 1) := by omega
  have hne0 : ¬ (e = 0) := by omega
  unfold FmtSpec.decode64 FmtSpec.decode
  simp only [he, hf0, hne, hne0, if_false, show (2:Nat) ^ (11 - 1) - 1 + 52 = 1075 by norm_num, show 52 + 11 = 63 by norm_num]
  by_cases h75 : 1075 ≤ e
  · refine ⟨1, by decide, ?_⟩
    have hv : intValue64 e f = (2 ^ 52 + f) * 2 ^ (e - 1075) := by rw [intValue64, if_pos h75]
    simp only [h75, if_true, hv, Nat.mul_one]
  · refine ⟨2 ^ (1075 - e), Nat.two_pow_pos _, ?_⟩
    have hv : intValue64 e f = (2 ^ 52 + f) / 2 ^ (1075 - e) := by rw [intValue64, if_neg h75]
    have hdvd : 2 ^ (1075 - e) ∣ 2 ^ 52 + f :=
      Dvd.dvd.trans (Nat.pow_dvd_pow 2 (by omega)) (Nat.dvd_of_mod_eq_zero hdiv)
    simp only [h75, if_false, hv, Nat.div_mul_cancel hdvd]

theorem readDecimal_signed_D (neg : Bool) (n : Nat) : FmtSpec.readDecimal (FmtSpec.signed neg (D n)) = some (neg, n, 1) := by
  cases neg
  · simpa [FmtSpec.signed] using readDecimal_D n
  · simpa [FmtSpec.signed, FmtSpec.cMinus] using readDecimal_neg_D n

end Qentem.Proofs.NumToStr
