import Qentem.Proofs.StrToNumRaw
/-! C09 helper lemmas: `posFinish` (normalise, round, assemble) is the capped raw pattern `codeRaw`. -/
namespace Qentem.StrToNum
open Qentem.Round Qentem.Generated.StrToNum

theorem pack_normal (n e : Nat) (h1 : 2 ^ 52 ≤ n) (h2 : n < 2 ^ 53) (he : e < 2047) :
    (n &&& 0xFFFFFFFFFFFFF) ||| ((e * 2 ^ 52) % 2 ^ 64) = e * 2 ^ 52 + (n - 2 ^ 52) := by
  have hm : (0xFFFFFFFFFFFFF : Nat) = 2 ^ 52 - 1 := by decide
  rw [hm, Nat.and_two_pow_sub_one_eq_mod]
  have h3 : n % 2 ^ 52 = n - 2 ^ 52 := by omega
  have h4 : (e * 2 ^ 52) % 2 ^ 64 = e * 2 ^ 52 := Nat.mod_eq_of_lt (by omega)
  rw [h3, h4, Nat.or_comm, Nat.mul_comm]
  exact (Nat.two_pow_add_eq_or_of_lt (by omega) e).symm

theorem pack_carry (e : Nat) (he : e < 2047) :
    ((2 ^ 53 : Nat) &&& 0xFFFFFFFFFFFFF) ||| ((e * 2 ^ 52) % 2 ^ 64) = e * 2 ^ 52 := by
  have h4 : (e * 2 ^ 52) % 2 ^ 64 = e * 2 ^ 52 := Nat.mod_eq_of_lt (by omega)
  have h0 : ((2 ^ 53 : Nat) &&& 0xFFFFFFFFFFFFF) = 0 := by decide
  rw [h0, h4]; simp

theorem posFinish_eq (b s : Nat) (hb : 0 < b) (hb256 : b < 2 ^ 256) (hs : s + 1 < 2 ^ 32) :
    posFinish b s = cap (codeRaw b s) := by
  have hb0 : b ≠ 0 := by omega
  obtain ⟨hlo, hhi⟩ := log2_bounds b hb0
  have hbias : bias = 1023 := rfl
  unfold posFinish codeRaw cap infBits
  simp only [hbias, ge_iff_le]
  by_cases hbit : Nat.log2 b ≤ 52
  · simp only [hbit, if_true]
    have hb53 : b < 2 ^ 53 := Nat.lt_of_lt_of_le hhi (Nat.pow_le_pow_right (by decide) (by omega))
    have hmod : b % 2 ^ 64 = b := Nat.mod_eq_of_lt (by omega)
    have hnlo : 2 ^ 52 ≤ b * 2 ^ (52 - Nat.log2 b) := by
      calc 2 ^ 52 = 2 ^ Nat.log2 b * 2 ^ (52 - Nat.log2 b) := by rw [← Nat.pow_add]; congr 1; omega
        _ ≤ b * 2 ^ (52 - Nat.log2 b) := Nat.mul_le_mul_right _ hlo
    have hnhi : b * 2 ^ (52 - Nat.log2 b) < 2 ^ 53 := by
      calc b * 2 ^ (52 - Nat.log2 b) < 2 ^ (Nat.log2 b + 1) * 2 ^ (52 - Nat.log2 b) :=
            Nat.mul_lt_mul_of_pos_right hhi (Nat.pow_pos (by decide))
        _ = 2 ^ 53 := by rw [← Nat.pow_add]; congr 1; omega
    have hmod2 : (b * 2 ^ (52 - Nat.log2 b)) % 2 ^ 64 = b * 2 ^ (52 - Nat.log2 b) := Nat.mod_eq_of_lt (by omega)
    rw [hmod, hmod2]
    generalize b * 2 ^ (52 - Nat.log2 b) = n at *
    by_cases he : 0x7FF ≤ 1023 + Nat.log2 b + s
    · have : 0x7FF0000000000000 ≤ (Nat.log2 b + s + 1022) * 2 ^ 52 + n := by omega
      simp only [he, this, if_true]
    · have : ¬ (0x7FF0000000000000 ≤ (Nat.log2 b + s + 1022) * 2 ^ 52 + n) := by omega
      simp only [he, this, if_false]
      rw [pack_normal n _ hnlo hnhi (by omega)]
      omega
  · simp only [hbit, if_false]
    have hbit' : 53 ≤ Nat.log2 b := by omega
    have htlo : 2 ^ 53 ≤ b / 2 ^ (Nat.log2 b - 53) := by
      rw [Nat.le_div_iff_mul_le (Nat.pow_pos (by decide)), ← Nat.pow_add]
      rw [show 53 + (Nat.log2 b - 53) = Nat.log2 b by omega]; exact hlo
    have hthi : b / 2 ^ (Nat.log2 b - 53) < 2 ^ 54 := by
      rw [Nat.div_lt_iff_lt_mul (Nat.pow_pos (by decide)), ← Nat.pow_add]
      rw [show 54 + (Nat.log2 b - 53) = Nat.log2 b + 1 by omega]; exact hhi
    have hmod : (bshr b (Nat.log2 b - 53)) % 2 ^ 64 = b / 2 ^ (Nat.log2 b - 53) := by
      unfold bshr; exact Nat.mod_eq_of_lt (by omega)
    have hrb : roundBit (b / 2 ^ (Nat.log2 b - 53)) = halfUp b (2 ^ (Nat.log2 b - 53)) := by
      unfold roundBit halfUp
      rw [Nat.mod_eq_of_lt (by omega)]
    rw [hmod, hrb]
    have hnlo : 2 ^ 52 ≤ halfUp b (2 ^ (Nat.log2 b - 53)) := by unfold halfUp; omega
    have hnhi : halfUp b (2 ^ (Nat.log2 b - 53)) ≤ 2 ^ 53 := by unfold halfUp; omega
    generalize halfUp b (2 ^ (Nat.log2 b - 53)) = n at *
    by_cases hc : n > 0x1FFFFFFFFFFFFF
    · have hn : n = 2 ^ 53 := by omega
      subst hn
      have hsh : add32 s (b2n (decide ((2 : Nat) ^ 53 > 0x1FFFFFFFFFFFFF))) = s + 1 := by
        simp [add32, b2n]; omega
      rw [hsh]
      by_cases he : 0x7FF ≤ 1023 + Nat.log2 b + (s + 1)
      · have : 0x7FF0000000000000 ≤ (Nat.log2 b + s + 1022) * 2 ^ 52 + 2 ^ 53 := by omega
        simp only [he, this, if_true]
      · have : ¬ (0x7FF0000000000000 ≤ (Nat.log2 b + s + 1022) * 2 ^ 52 + 2 ^ 53) := by omega
        simp only [he, this, if_false]
        rw [pack_carry _ (by omega)]
        omega
    · have hn : n < 2 ^ 53 := by omega
      have hsh : add32 s (b2n (decide (n > 0x1FFFFFFFFFFFFF))) = s := by
        simp [add32, b2n, hc]; omega
      rw [hsh]
      by_cases he : 0x7FF ≤ 1023 + Nat.log2 b + s
      · have : 0x7FF0000000000000 ≤ (Nat.log2 b + s + 1022) * 2 ^ 52 + n := by omega
        simp only [he, this, if_true]
      · have : ¬ (0x7FF0000000000000 ≤ (Nat.log2 b + s + 1022) * 2 ^ 52 + n) := by omega
        simp only [he, this, if_false]
        rw [pack_normal n _ hnlo hn (by omega)]
        omega

end Qentem.StrToNum
