import Qentem.Proofs.HashTableInv
/-!
`generateHash` builds correct chains from scratch, for every item (live or removed); hence
`resize`, `copyTable` and `Sort` re-establish the chain part of the invariant.
-/
namespace Qentem.HashTable
variable {V : Type}

/-- Loop invariant of `generateHash`: the first `i` items are chained, the bucket heads describe
exactly those chains. -/
structure GenInv (s : HT V) (i : Nat) (ch : Nat → List Nat) : Prop where
  cap_pow : ∃ k, s.cap = 2 ^ k
  heads_size : s.heads.size = s.cap
  chain : ∀ b, b < s.cap → Chain (getLink s) (.head b) (ch b)
  nodup : ∀ b, b < s.cap → (ch b).Nodup
  bucket : ∀ b, b < s.cap → ∀ j ∈ ch b, j < i ∧ ∃ it : Item V, s.items[j]? = some it ∧ it.hash &&& (s.cap - 1) = b
  complete : ∀ (j : Nat) (it : Item V), j < i → s.items[j]? = some it → j ∈ ch (it.hash &&& (s.cap - 1))

theorem genStep {s : HT V} {i : Nat} {ch : Nat → List Nat} {it : Item V} (hG : GenInv s i ch)
    (hit : s.items[i]? = some it) :
    let s1 : HT V := { s with items := s.items.setIfInBounds i { it with next := 0 } }
    let b := it.hash &&& (s.cap - 1)
    let l := lastLink (.head b) (ch b)
    walkEnd s1 (s1.size + 1) (.head (it.hash &&& base s1)) = some l ∧
    GenInv (setLink s1 l (i + 1)) (i + 1) (fun b' => if b' = b then ch b ++ [i] else ch b') ∧
    ∀ j : Nat, ((setLink s1 l (i + 1)).items[j]?).map stat = (s.items[j]?).map stat := by
  intro s1 b l
  obtain ⟨k, hk⟩ := hG.cap_pow
  have hb : b < s.cap := bucket_lt _ hk
  have hi : i < s.items.size := (Array.getElem?_eq_some_iff.mp hit).1
  have hlt : ∀ b', b' < s.cap → ∀ x ∈ ch b', x < i := fun b' hb' x hx => (hG.bucket b' hb' x hx).1
  have hs1items : ∀ j : Nat, s1.items[j]? = if j = i then some { it with next := 0 } else s.items[j]? := by
    intro j
    simp only [s1, Array.getElem?_setIfInBounds]
    by_cases hji : i = j
    · subst hji; simp [hi]
    · have : ¬ j = i := fun e => hji e.symm
      simp [hji, this]
  have hg1head : ∀ b', getLink s1 (.head b') = getLink s (.head b') := fun _ => rfl
  have hg1next : ∀ x, x ≠ i → getLink s1 (.next x) = getLink s (.next x) := by
    intro x hx; simp only [getLink, hs1items, if_neg hx]
  have hg1i : getLink s1 (.next i) = some 0 := by simp [getLink, hs1items]
  have hchain1 : ∀ b', b' < s.cap → Chain (getLink s1) (.head b') (ch b') := by
    intro b' hb'
    refine chain_congr (hG.chain b' hb') (hg1head b') ?_
    intro x hx; exact hg1next x (by have := hlt b' hb' x hx; omega)
  have hlen : (ch b).length < s1.size + 1 := by
    have := nodup_length_le (hG.nodup b hb) (hlt b hb)
    simp only [HT.size, s1, Array.size_setIfInBounds]; omega
  have hw : walkEnd s1 (s1.size + 1) (.head (it.hash &&& base s1)) = some l :=
    walkEnd_chain (hchain1 b hb) hlen
  have hl0 : getLink s1 l = some 0 := chain_last (hchain1 b hb)
  have hl_ne_i : l ≠ .next i := by
    rcases lastLink_head_cases b (ch b) with ⟨h, _⟩ | ⟨x, hx, h⟩
    · show lastLink (.head b) (ch b) ≠ _; rw [h]; simp
    · show lastLink (.head b) (ch b) ≠ _; rw [h]; intro e; injection e with e; have := hlt b hb x hx; omega
  set s2 := setLink s1 l (i + 1) with hs2
  have g1 : getLink s2 l = some (i + 1) := getLink_setLink_self hl0
  have g3 : ∀ l', l' ≠ l → getLink s2 l' = getLink s1 l' := fun l' h => getLink_setLink_ne h
  have g2 : getLink s2 (.next i) = some 0 := by rw [g3 _ (Ne.symm hl_ne_i)]; exact hg1i
  have hs2items : ∀ j : Nat, (s2.items[j]?).map stat = (s.items[j]?).map stat := by
    intro j
    rw [hs2, setLink_items, hs1items]
    by_cases hji : j = i
    · subst hji; simp [hit, stat]
    · simp only [if_neg hji, Option.map_map]; cases s.items[j]? <;> simp [stat]
  have hs2hash : ∀ (j : Nat) (it2 : Item V), s2.items[j]? = some it2 →
      ∃ it0 : Item V, s.items[j]? = some it0 ∧ it0.hash = it2.hash := by
    intro j it2 h2
    have := hs2items j
    rw [h2] at this
    cases h0 : s.items[j]? with
    | none => rw [h0] at this; simp at this
    | some it0 =>
      rw [h0] at this
      simp only [Option.map_some, Option.some.injEq, stat, Prod.mk.injEq] at this
      exact ⟨it0, rfl, this.2.1.symm⟩
  have hs2some : ∀ (j : Nat) (it0 : Item V), s.items[j]? = some it0 →
      ∃ it2 : Item V, s2.items[j]? = some it2 ∧ it2.hash = it0.hash := by
    intro j it0 h0
    have := hs2items j
    rw [h0] at this
    cases h2 : s2.items[j]? with
    | none => rw [h2] at this; simp at this
    | some it2 =>
      rw [h2] at this
      simp only [Option.map_some, Option.some.injEq, stat, Prod.mk.injEq] at this
      exact ⟨it2, rfl, this.2.1⟩
  have hcap2 : s2.cap = s.cap := by simp [hs2, s1]
  refine ⟨hw, ⟨⟨k, by rw [hcap2, hk]⟩, ?_, ?_, ?_, ?_, ?_⟩, hs2items⟩
  · simp [hs2, s1, hG.heads_size]
  · intro b' hb'
    rw [hcap2] at hb'
    by_cases hbb : b' = b
    · rw [hbb]; simp only [if_true]
      refine chain_snoc (hchain1 b hb) (hG.nodup b hb) (by simp) ?_ (by simp) (fun l' h _ => g3 l' h) g1 g2
      intro hmem; have := hlt b hb i hmem; omega
    · simp only [if_neg hbb]
      refine chain_congr (hchain1 b' hb') (g3 _ ?_) ?_
      · rcases lastLink_head_cases b (ch b) with ⟨h, _⟩ | ⟨x, _, h⟩
        · show _ ≠ lastLink (.head b) (ch b); rw [h]; intro e; injection e with e; exact hbb e
        · show _ ≠ lastLink (.head b) (ch b); rw [h]; simp
      · intro x hx
        refine g3 _ ?_
        rcases lastLink_head_cases b (ch b) with ⟨h, _⟩ | ⟨y, hy, h⟩
        · show _ ≠ lastLink (.head b) (ch b); rw [h]; simp
        · show _ ≠ lastLink (.head b) (ch b); rw [h]; intro e; injection e with e
          obtain ⟨_, it1, h1, h1'⟩ := hG.bucket b' hb' x hx
          obtain ⟨_, it2, h2, h2'⟩ := hG.bucket b hb y hy
          rw [← e, h1] at h2; cases h2; exact hbb (h1'.symm.trans h2')
  · intro b' hb'
    rw [hcap2] at hb'
    by_cases hbb : b' = b
    · rw [hbb]; simp only [if_true]
      refine List.nodup_append.mpr ⟨hG.nodup b hb, by simp, ?_⟩
      intro x hx y hy e
      simp at hy
      have := hlt b hb x hx; omega
    · simp only [if_neg hbb]; exact hG.nodup b' hb'
  · intro b' hb' j hj
    rw [hcap2] at hb' ⊢
    have old : ∀ b'', b'' < s.cap → j ∈ ch b'' →
        j < i + 1 ∧ ∃ it2 : Item V, s2.items[j]? = some it2 ∧ it2.hash &&& (s.cap - 1) = b'' := by
      intro b'' hb'' hj''
      obtain ⟨hji, it0, hit0, hbk⟩ := hG.bucket b'' hb'' j hj''
      obtain ⟨it2, h2, h2'⟩ := hs2some j it0 hit0
      exact ⟨by omega, it2, h2, by rw [h2']; exact hbk⟩
    by_cases hbb : b' = b
    · rw [hbb] at hj ⊢
      simp only [if_true, List.mem_append, List.mem_singleton] at hj
      rcases hj with hj | hj
      · exact old b hb hj
      · rw [hj]
        obtain ⟨it2, h2, h2'⟩ := hs2some i it hit
        exact ⟨by omega, it2, h2, by rw [h2']⟩
    · simp only [if_neg hbb] at hj; exact old b' hb' hj
  · intro j it2 hj h2
    rw [hcap2]
    obtain ⟨it0, h0, h0'⟩ := hs2hash j it2 h2
    rw [← h0']
    by_cases hji : j = i
    · subst hji
      rw [hit] at h0; cases h0
      simp [b]
    · have := hG.complete j it0 (by omega) h0
      by_cases hbb : it0.hash &&& (s.cap - 1) = b
      · simp only [hbb, if_true]; rw [hbb] at this; exact List.mem_append_left _ this
      · simp only [if_neg hbb]; exact this

/-- The outer loop of `generateHash` never faults and chains every item. -/
theorem genLoop_spec : ∀ (n : Nat) (s : HT V) (i : Nat) (ch : Nat → List Nat),
    GenInv s i ch → i + n = s.items.size →
    ∃ s' ch', genLoop s n i = some s' ∧ GenInv s' s'.items.size ch' ∧ s'.cap = s.cap ∧
      s'.items.size = s.items.size ∧ ∀ j : Nat, (s'.items[j]?).map stat = (s.items[j]?).map stat
  | 0, s, i, ch, hG, hn => by
    refine ⟨s, ch, rfl, ?_, rfl, rfl, fun _ => rfl⟩
    have : i = s.items.size := by omega
    rw [← this]; exact hG
  | n + 1, s, i, ch, hG, hn => by
    have hi : i < s.items.size := by omega
    have hit : s.items[i]? = some s.items[i] := Array.getElem?_eq_getElem hi
    obtain ⟨hw, hG', hst⟩ := genStep hG hit
    have hsz : (setLink ({ s with items := s.items.setIfInBounds i { s.items[i] with next := 0 } } : HT V)
        (lastLink (.head (s.items[i].hash &&& (s.cap - 1))) (ch (s.items[i].hash &&& (s.cap - 1)))) (i + 1)).items.size
        = s.items.size := by simp
    obtain ⟨s', ch', hrun, hG'', hcap, hsize, hst'⟩ := genLoop_spec n _ (i + 1) _ hG' (by rw [hsz]; omega)
    refine ⟨s', ch', ?_, hG'', ?_, ?_, ?_⟩
    · simp only [genLoop, hit]
      simp only [hw]
      exact hrun
    · rw [hcap]; simp
    · rw [hsize, hsz]
    · intro j; rw [hst' j, hst j]

end Qentem.HashTable
